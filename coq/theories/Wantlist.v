(* Wantlist.v — executable model of /repo/src/wantlist.rs (`Wantlist`, `WantlistState`, `WantReqState`)
   and of the three entry constructors of /repo/src/message.rs:72-104.  Definitions only; the lemmas
   are in Wantlist_proofs.v.

   Representation.  `FnvHashSet<Cid>` = duplicate-free `list cid` (insertion order), `FnvHashMap<Cid, _>`
   = association list with distinct keys (insertion order).  The Rust iterates both in hash order, which
   is arbitrary: the model fixes insertion order, every theorem about generated entries is stated with
   membership / `Permutation` / `NoDup`, and a comparison with the implementation must sort the entry
   lists and the snapshots (`cids`, `req_state`).
   `revision += 1` is a u64 addition in the Rust; the model uses unbounded `N` (2^64 successful
   insert/remove calls are out of reach), so the overflow panic point is deliberately not modelled. *)
From BS Require Export Types.

(* ---------- association lists (keys compared with a boolean equality) ---------- *)
Section Assoc.
  Context {K V : Type} (eqb : K -> K -> bool).

  Fixpoint al_find (k : K) (l : list (K * V)) : option V :=
    match l with
    | [] => None
    | (k', v) :: l' => if eqb k k' then Some v else al_find k l'
    end.

  Definition al_mem (k : K) (l : list (K * V)) : bool := existsb (fun e => eqb k (fst e)) l.

  Definition al_remove (k : K) (l : list (K * V)) : list (K * V) :=
    filter (fun e => negb (eqb k (fst e))) l.

  (* `entry(k).and_modify(f)`: nothing happens when the key is vacant *)
  Definition al_modify (k : K) (f : V -> V) (l : list (K * V)) : list (K * V) :=
    map (fun e => if eqb k (fst e) then (fst e, f (snd e)) else e) l.

  (* `insert(k, v)` *)
  Definition al_set (k : K) (v : V) (l : list (K * V)) : list (K * V) :=
    if al_mem k l then al_modify k (fun _ => v) l else l ++ [(k, v)].
End Assoc.

Definition cid_mem (c : cid) (l : list cid) : bool := existsb (cid_eqb c) l.
Definition cid_remove (c : cid) (l : list cid) : list cid := filter (fun x => negb (cid_eqb c x)) l.

(* ---------- Wantlist (wantlist.rs:13-46) ---------- *)
Record wl := MkWl { wl_cids : list cid; wl_rev : N; wl_sdh : bool }.

Definition wl_new (set_send_dont_have : bool) : wl := MkWl [] 0 set_send_dont_have.

(* `insert`: returns the new wantlist and the Rust return value *)
Definition wl_insert (w : wl) (c : cid) : wl * bool :=
  if cid_mem c (wl_cids w) then (w, false)
  else (MkWl (wl_cids w ++ [c]) (wl_rev w + 1) (wl_sdh w), true).

Definition wl_remove (w : wl) (c : cid) : wl * bool :=
  if cid_mem c (wl_cids w)
  then (MkWl (cid_remove c (wl_cids w)) (wl_rev w + 1) (wl_sdh w), true)
  else (w, false).

(* ---------- WantlistState (wantlist.rs:48-216) ---------- *)
Inductive req_state := SentWantHave | GotHave | GotDontHave | SentWantBlock | GotBlock.

Definition req_state_eqb (a b : req_state) : bool :=
  match a, b with
  | SentWantHave, SentWantHave | GotHave, GotHave | GotDontHave, GotDontHave
  | SentWantBlock, SentWantBlock | GotBlock, GotBlock => true
  | _, _ => false
  end.

(* the number the verification facade prints for a state (src/verif/wantlist.rs) *)
Definition req_state_code (s : req_state) : N :=
  match s with SentWantHave => 0 | GotHave => 1 | GotDontHave => 2 | SentWantBlock => 3 | GotBlock => 4 end.

Record wls := MkWls { req : list (cid * req_state); force_update : bool; synced_rev : N }.

Definition wls_new : wls := MkWls [] false 0.

Definition wls_is_updated (s : wls) (w : wl) : bool :=
  negb (force_update s) && (synced_rev s =? wl_rev w).

Definition wls_got_have (s : wls) (c : cid) : wls :=
  MkWls (al_modify cid_eqb c (fun _ => GotHave) (req s)) true (synced_rev s).

Definition wls_got_dont_have (s : wls) (c : cid) : wls :=
  MkWls (al_modify cid_eqb c (fun _ => GotDontHave) (req s)) (force_update s) (synced_rev s).

Definition wls_got_block (s : wls) (c : cid) : wls :=
  MkWls (al_modify cid_eqb c (fun _ => GotBlock) (req s)) (force_update s) (synced_rev s).

Definition wls_wanted_again (s : wls) (c : cid) : wls :=
  match al_find cid_eqb c (req s) with
  | Some GotBlock => MkWls (al_remove cid_eqb c (req s)) (force_update s) (synced_rev s)
  | _ => s
  end.

Definition gen_entry := (want_kind * cid)%type.

(* generate_proto_full, the `match *req_state` of wantlist.rs:119-138: entries pushed, next state *)
Definition full_entries (e : cid * req_state) : list gen_entry :=
  match snd e with
  | SentWantHave => [(KWantHave, fst e)]
  | GotHave => [(KWantBlock, fst e)]
  | GotDontHave => []
  | SentWantBlock => [(KWantBlock, fst e)]
  | GotBlock => []
  end.

Definition full_next (e : cid * req_state) : cid * req_state :=
  match snd e with
  | GotHave => (fst e, SentWantBlock)
  | _ => e
  end.

(* CIDs of the wantlist that are vacant in a request map (the two "Add new entries" loops) *)
Definition vacant_cids (w : wl) (r : list (cid * req_state)) : list cid :=
  filter (fun c => negb (al_mem cid_eqb c r)) (wl_cids w).

Definition wls_generate_full (s : wls) (w : wl) : list gen_entry * wls :=
  let r1 := filter (fun e => cid_mem (fst e) (wl_cids w)) (req s) in            (* retain *)
  let r2 := r1 ++ map (fun c => (c, SentWantHave)) (vacant_cids w r1) in        (* or_insert *)
  (flat_map full_entries r2, MkWls (map full_next r2) (force_update s) (synced_rev s)).

(* generate_proto_update, the `match (contains, *req_state)` of wantlist.rs:155-193:
   entries pushed and what stays in the map (None = pushed on `removed`) *)
Definition upd_entries (w : wl) (e : cid * req_state) : list gen_entry :=
  if cid_mem (fst e) (wl_cids w) then
    match snd e with GotHave => [(KWantBlock, fst e)] | _ => [] end
  else
    match snd e with GotBlock => [] | _ => [(KCancel, fst e)] end.

Definition upd_keep (w : wl) (e : cid * req_state) : bool := cid_mem (fst e) (wl_cids w).

Definition wls_generate_update (s : wls) (w : wl) : list gen_entry * wls :=
  if wls_is_updated s w then ([], s)
  else
    let r1 := map full_next (filter (upd_keep w) (req s)) in
    let fresh := vacant_cids w r1 in
    (flat_map (upd_entries w) (req s) ++ map (fun c => (KWantHave, c)) fresh,
     MkWls (r1 ++ map (fun c => (c, SentWantHave)) fresh) false (wl_rev w)).

(* ---------- message.rs:72-104 ---------- *)
Definition new_want_block_entry (c : cid) (sdh : bool) : entry :=
  MkEntry (cid_to_bytes c) 1 false WTBlock sdh.
Definition new_want_have_entry (c : cid) (sdh : bool) : entry :=
  MkEntry (cid_to_bytes c) 1 false WTHave sdh.
Definition new_cancel_entry (c : cid) : entry :=
  MkEntry (cid_to_bytes c) 0 true WTBlock false.

Definition entry_of (sdh : bool) (e : gen_entry) : entry :=
  match fst e with
  | KWantHave => new_want_have_entry (snd e) sdh
  | KWantBlock => new_want_block_entry (snd e) sdh
  | KCancel => new_cancel_entry (snd e)
  end.

(* the ProtoWantlist value the Rust returns *)
Definition proto_of (sdh full : bool) (es : list gen_entry) : wantlist :=
  MkWantlist (map (entry_of sdh) es) full.

Definition is_want (e : gen_entry) : bool :=
  match fst e with KCancel => false | _ => true end.

(* ---------- histories of one peer's WantlistState against the shared Wantlist ---------- *)
(* Raw API calls (what the differential harness drives). *)
Inductive wop :=
| WInsert (c : cid) | WRemove (c : cid)
| WHave (c : cid) | WDontHave (c : cid) | WBlock (c : cid) | WWantedAgain (c : cid)
| WGenUpdate | WGenFull.

Inductive wout := WoBool (b : bool) | WoEntries (full : bool) (es : list gen_entry) | WoNone.

Definition wstep (st : wl * wls) (o : wop) : (wl * wls) * wout :=
  let (w, s) := st in
  match o with
  | WInsert c => let (w', b) := wl_insert w c in ((w', s), WoBool b)
  | WRemove c => let (w', b) := wl_remove w c in ((w', s), WoBool b)
  | WHave c => ((w, wls_got_have s c), WoNone)
  | WDontHave c => ((w, wls_got_dont_have s c), WoNone)
  | WBlock c => ((w, wls_got_block s c), WoNone)
  | WWantedAgain c => ((w, wls_wanted_again s c), WoNone)
  | WGenUpdate => let (es, s') := wls_generate_update s w in ((w, s'), WoEntries false es)
  | WGenFull => let (es, s') := wls_generate_full s w in ((w, s'), WoEntries true es)
  end.

Fixpoint wrun_from (st : wl * wls) (ops : list wop) : list wout * (wl * wls) :=
  match ops with
  | [] => ([], st)
  | o :: ops' =>
      let (st', out) := wstep st o in
      let (outs, fin) := wrun_from st' ops' in (out :: outs, fin)
  end.

Definition wrun (sdh : bool) (ops : list wop) : list wout * (wl * wls) :=
  wrun_from (wl_new sdh, wls_new) ops.

(* Client-level events as one peer's WantlistState sees them: the discipline of client.rs is built in.
   HInsert c  = `wantlist.insert(c)` and, iff it returned true, `wanted_again(c)`   (client.rs:470-475)
   HRemove c  = `wantlist.remove(c)` caused by a cancel or by a block accepted from ANOTHER peer
   HBlock c   = a block for c arrives from THIS peer: `wantlist.remove(c)`, and iff it returned true
                (the block is accepted) `got_block(c)`                                (client.rs:302-307)
   HHave / HDontHave = a presence from this peer; HGenUpdate / HGenFull = a wantlist is generated. *)
Inductive hev :=
| HInsert (c : cid) | HRemove (c : cid) | HHave (c : cid) | HDontHave (c : cid) | HBlock (c : cid)
| HGenUpdate | HGenFull.

Definition hexpand (w : wl) (e : hev) : list wop :=
  match e with
  | HInsert c => if cid_mem c (wl_cids w) then [WInsert c] else [WInsert c; WWantedAgain c]
  | HRemove c => [WRemove c]
  | HHave c => [WHave c]
  | HDontHave c => [WDontHave c]
  | HBlock c => if cid_mem c (wl_cids w) then [WRemove c; WBlock c] else [WRemove c]
  | HGenUpdate => [WGenUpdate]
  | HGenFull => [WGenFull]
  end.

(* one event: new state and the entries generated (None when the event generates nothing) *)
Definition hstep (st : wl * wls) (e : hev) : (wl * wls) * option (bool * list gen_entry) :=
  let (w, s) := st in
  match e with
  | HInsert c =>
      let (w', b) := wl_insert w c in ((w', if b then wls_wanted_again s c else s), None)
  | HRemove c => ((fst (wl_remove w c), s), None)
  | HHave c => ((w, wls_got_have s c), None)
  | HDontHave c => ((w, wls_got_dont_have s c), None)
  | HBlock c =>
      let (w', b) := wl_remove w c in ((w', if b then wls_got_block s c else s), None)
  | HGenUpdate => let (es, s') := wls_generate_update s w in ((w, s'), Some (false, es))
  | HGenFull => let (es, s') := wls_generate_full s w in ((w, s'), Some (true, es))
  end.

Definition hinit (sdh : bool) : wl * wls := (wl_new sdh, wls_new).

Fixpoint hrun_from (st : wl * wls) (h : list hev) : wl * wls :=
  match h with
  | [] => st
  | e :: h' => hrun_from (fst (hstep st e)) h'
  end.

(* ---------- observed traces and the ghost folds of C17 / C04 ---------- *)
(* What an observer at the API sees of one event: the event, the wanted set W just before it
   (W = CIDs of the live queries = `wl_cids`), and the wantlist generated by it (full flag, entries). *)
Record titem := MkTi { ti_ev : hev; ti_w : list cid; ti_out : option (bool * list gen_entry) }.

Fixpoint htrace (st : wl * wls) (h : list hev) : list titem :=
  match h with
  | [] => []
  | e :: h' => MkTi e (wl_cids (fst st)) (snd (hstep st e)) :: htrace (fst (hstep st e)) h'
  end.

Definition cset_add (c : cid) (l : list cid) : list cid := if cid_mem c l then l else c :: l.
Definition cset_inter (l w : list cid) : list cid := filter (fun c => cid_mem c w) l.
Definition wants (es : list gen_entry) : list cid := map snd (filter is_want es).
Definition want_haves (es : list gen_entry) : list cid :=
  map snd (filter (fun e => match fst e with KWantHave => true | _ => false end) es).

(* C17: the last presence answer of the peer about c, forgotten whenever a WANT_HAVE for c is emitted
   (that is when c enters, or is still unanswered in, the peer's request map) *)
Definition la_step (la : list (cid * bool)) (t : titem) : list (cid * bool) :=
  match ti_ev t, ti_out t with
  | HHave c, _ => al_set cid_eqb c true la
  | HDontHave c, _ => al_set cid_eqb c false la
  | _, Some (_, es) => fold_left (fun l c => al_remove cid_eqb c l) (want_haves es) la
  | _, None => la
  end.
Definition last_answer (tr : list titem) : list (cid * bool) := fold_left la_step tr [].

(* C04.  `refined = false` gives the four folds exactly as the property is written:
     view      : a full wantlist replaces; a cancel removes; a want adds; a block from the peer removes
                 (accepted or not);
     told      : W at the last generated wantlist; an answer about c is solicited iff c is in `told`;
     dont_have : a solicited DONT_HAVE adds; a solicited HAVE, an accepted block, leaving `told` remove;
     delivered : a block from the peer adds; a want entry for c sent removes.
   `refined = true` differs in one point: when c is inserted again after the peer's accepted block
   answered the want it had been told about (fold `got`), c leaves `told` — the peer has forgotten the
   served want and has not been asked again yet, so a presence about c that arrives before the next
   generated wantlist is NOT solicited.  This is what the repaired code does (`wanted_again` removes the
   GotBlock entry, and_modify then ignores presences about c). *)
Record ghost := MkGhost {
  g_view : list cid; g_told : list cid; g_dont_have : list cid; g_delivered : list cid; g_got : list cid
}.

Definition ghost0 : ghost := MkGhost [] [] [] [] [].

Definition view_apply (v : list cid) (e : gen_entry) : list cid :=
  match fst e with KCancel => cid_remove (snd e) v | _ => cset_add (snd e) v end.

Definition gstep (refined : bool) (g : ghost) (t : titem) : ghost :=
  let W := ti_w t in
  match ti_ev t with
  | HInsert c =>
      if refined && negb (cid_mem c W) && cid_mem c (g_got g)
      then MkGhost (g_view g) (cid_remove c (g_told g)) (g_dont_have g) (g_delivered g) (cid_remove c (g_got g))
      else g
  | HRemove _ => g
  | HHave c =>
      if cid_mem c (g_told g)
      then MkGhost (g_view g) (g_told g) (cid_remove c (g_dont_have g)) (g_delivered g) (cid_remove c (g_got g))
      else g
  | HDontHave c =>
      if cid_mem c (g_told g)
      then MkGhost (g_view g) (g_told g) (cset_add c (g_dont_have g)) (g_delivered g) (cid_remove c (g_got g))
      else g
  | HBlock c =>
      let accepted := cid_mem c W in
      MkGhost (cid_remove c (g_view g)) (g_told g)
              (if accepted then cid_remove c (g_dont_have g) else g_dont_have g)
              (cset_add c (g_delivered g))
              (if accepted && cid_mem c (g_told g) then cset_add c (g_got g) else g_got g)
  | HGenUpdate | HGenFull =>
      match ti_out t with
      | Some (full, es) =>
          MkGhost (if full then wants es else fold_left view_apply es (g_view g))
                  W (cset_inter (g_dont_have g) W)
                  (filter (fun c => negb (cid_mem c (wants es))) (g_delivered g))
                  (cset_inter (g_got g) W)
      | None => g
      end
  end.

Definition ghost_of (refined : bool) (tr : list titem) : ghost := fold_left (gstep refined) tr ghost0.
