(* Client_proofs21.v — package R: the trace-level C05 oracle holds of the model.
   Invariant carried along a history (state s, ghost lists of the fold):
     faults   : every (p,c) has an entry for p whose sending state is `SsFailed c`          (FL)
     cfaults  : every (p,c) has an entry for p whose sending state is `SsRequested _ c`     (RQ)
     inflight : the same                                                                     (RQ)
   A poll acts on every recorded failure / timed-out request (full wantlist on another connection, or the entry is
   dropped: C05_full_after_fault) and leaves a request that has not timed out alone (C14_outstanding_blocks_poll);
   a non-poll operation changes a sending state only by an accepted report (nonpoll_ss). *)
From BS Require Import Types Wantlist Wantlist_proofs Client Client_proofs Client_proofs3 Client_proofs4 Corr_client Client_proofs20.
From Coq Require Import ZArith ZifyBool ZifyN ZifyNat Lia List. Import ListNotations.
Open Scope N_scope.

(* ---------- one poll, one peer ---------- *)
Lemma poll_hard sdh pre ch p ps c0 :
  let s := st_after sdh pre in
  al_find N.eqb p (cs_peers s) = Some ps -> hard s ps c0 ->
  (forall c f, In (p, c, f) (sends_of (snd (c_poll s ch))) -> f = true /\ c <> c0) /\
  ((exists c f, In (p, c, f) (sends_of (snd (c_poll s ch)))) \/
   al_find N.eqb p (cs_peers (fst (c_poll s ch))) = None).
Proof.
  intros s Hf Hh. destruct (C05_full_after_fault sdh pre ch p ps c0 Hf Hh) as [H1 H2]. split.
  - intros c f Hin. apply sends_of_In in Hin. destruct Hin as (es & Hin). destruct (H1 c f es Hin) as (A & B & _). auto.
  - destruct H2 as [(c & es & Hin) | Hn]; [left | right; exact Hn].
    exists c, true. apply sends_of_In. eauto.
Qed.

Lemma poll_rq sdh pre ch p ps t c :
  let s := st_after sdh pre in
  al_find N.eqb p (cs_peers s) = Some ps -> p_ss ps = SsRequested t c ->
  hard s ps c \/
  ((forall c' f, ~ In (p, c', f) (sends_of (snd (c_poll s ch)))) /\
   exists ps', al_find N.eqb p (cs_peers (fst (c_poll s ch))) = Some ps' /\ p_ss ps' = SsRequested t c).
Proof.
  intros s Hf Hss. destruct (cs_now s - t <? RECEIVE_REQUEST_TIMEOUT) eqn:E.
  - right. assert (Hg : uh_gate (cs_now s) ps = None) by (unfold uh_gate; rewrite Hss, E; reflexivity).
    destruct (C14_outstanding_blocks_poll sdh pre ch p ps Hf Hg) as [Hns (ps' & Hf' & Hss' & _)]. split.
    + intros c' f Hin. apply sends_of_In in Hin. destruct Hin as (es & Hin). exact (Hns c' f es Hin).
    + exists ps'. split; [exact Hf' | congruence].
  - left. right. exists t. split; assumption.
Qed.

Lemma poll_send sdh pre ch p c f :
  let s := st_after sdh pre in
  In (p, c, f) (sends_of (snd (c_poll s ch))) ->
  exists ps', al_find N.eqb p (cs_peers (fst (c_poll s ch))) = Some ps' /\ p_ss ps' = SsRequested (cs_now s) c.
Proof.
  intros s Hin. apply sends_of_In in Hin. destruct Hin as (es & Hin).
  destruct (C14_one_outstanding sdh pre ch p c f es Hin) as (_ & (ps' & Hf' & Hss' & _) & _). eauto.
Qed.

(* a request outstanding before the poll, no wantlist for that peer in the poll, entry still there: still outstanding *)
Lemma poll_rq_keep sdh pre ch p c l :
  let s := st_after sdh pre in
  let s1 := fst (c_poll s ch) in
  let sends := sends_of (snd (c_poll s ch)) in
  RQ s l -> In (p, c) l -> (forall c' f, ~ In (p, c', f) sends) ->
  Corr_client.n_mem p (snap_peers (csnap_of s1)) = true ->
  exists ps t, al_find N.eqb p (cs_peers s1) = Some ps /\ p_ss ps = SsRequested t c.
Proof.
  intros s s1 sends HR Hin Hns Ha. destruct (HR p c Hin) as (ps & t & Hf & Hss).
  destruct (poll_rq sdh pre ch p ps t c Hf Hss) as [Hh | [_ (ps' & Hf' & Hss')]]; [|eauto].
  exfalso. destruct (poll_hard sdh pre ch p ps c Hf Hh) as [_ [(c' & f & Hs) | Hn]].
  - exact (Hns c' f Hs).
  - apply alive_find in Ha. exact (Ha Hn).
Qed.

Lemma step_poll (fo : csnap -> N -> cop -> list (peer * conn)) sdh pre ch faults cfaults inflight :
  let s := st_after sdh pre in
  let s1 := fst (c_poll s ch) in
  let sends := sends_of (snd (c_poll s ch)) in
  let alive := snap_peers (csnap_of s1) in
  let faults1 := fo (csnap_of s) (cs_now s) (CPoll ch) ++ faults in
  FT s (fo (csnap_of s) (cs_now s) (CPoll ch)) ->
  FL s faults -> RQ s cfaults -> RQ s inflight ->
  sends_ok sends (faults1 ++ cfaults) = true /\
  FL s1 (settled_of sends alive faults1) /\ RQ s1 (settled_of sends alive cfaults) /\
  RQ s1 (inflight1_of sends alive inflight).
Proof.
  intros s s1 sends alive faults1 HT0 HF HC HI.
  assert (HT : FT s faults1) by (apply FT_app; [exact HT0 | apply FL_FT; exact HF]).
  split; [|split; [|split]].
  - unfold sends_ok. apply forallb_forall. intros [[p c] f] Hs. apply forallb_forall. intros [p0 c0] Hin. cbn [fst snd].
    destruct (p0 =? p) eqn:Ep; [|reflexivity]. apply N.eqb_eq in Ep. subst p0.
    assert (Hgoal : f = true /\ c <> c0).
    { apply in_app_iff in Hin. destruct Hin as [Hin | Hin].
      - destruct (HT p c0 Hin) as (ps & Hf & Hh). exact (proj1 (poll_hard sdh pre ch p ps c0 Hf Hh) c f Hs).
      - destruct (HC p c0 Hin) as (ps & t & Hf & Hss).
        destruct (poll_rq sdh pre ch p ps t c0 Hf Hss) as [Hh | [Hns _]].
        + exact (proj1 (poll_hard sdh pre ch p ps c0 Hf Hh) c f Hs).
        + exfalso. exact (Hns c f Hs). }
    destruct Hgoal as [-> Hne]. cbn [andb]. apply Bool.negb_true_iff. apply N.eqb_neq. congruence.
  - intros p c Hin. apply in_settled in Hin. destruct Hin as (Hin & Hns & Ha). exfalso.
    destruct (HT p c Hin) as (ps & Hf & Hh).
    destruct (poll_hard sdh pre ch p ps c Hf Hh) as [_ [(c' & f & Hs) | Hn]].
    + exact (Hns c' f Hs).
    + apply alive_find in Ha. exact (Ha Hn).
  - intros p c Hin. apply in_settled in Hin. destruct Hin as (Hin & Hns & Ha).
    exact (poll_rq_keep sdh pre ch p c cfaults HC Hin Hns Ha).
  - intros p c Hin. apply in_inflight1 in Hin. destruct Hin as [Ha [(f & Hs) | [Hin Hns]]].
    + destruct (poll_send sdh pre ch p c f Hs) as (ps' & Hf' & Hss'). eauto.
    + exact (poll_rq_keep sdh pre ch p c inflight HI Hin Hns Ha).
Qed.

(* ---------- one non-poll operation, one peer ---------- *)
Lemma rq_keep s o p ps t c :
  al_find N.eqb p (cs_peers s) = Some ps -> p_ss ps = SsRequested t c ->
  (forall ch, o <> CPoll ch) -> (forall r, o <> CReport p c r) ->
  al_find N.eqb p (cs_peers (fst (cstep s o))) <> None ->
  exists ps' t', al_find N.eqb p (cs_peers (fst (cstep s o))) = Some ps' /\ p_ss ps' = SsRequested t' c.
Proof.
  intros Hf Hss Hnp Hnr Ha.
  destruct (nonpoll_ss s o p ps Hf Hnp) as [(ps' & Hf' & E) | [(c' & r & -> & Hsc & _) | Hn]].
  - exists ps', t. split; [exact Hf' | congruence].
  - exfalso. rewrite Hss in Hsc. cbn [sending_conn] in Hsc. injection Hsc as <-. exact (Hnr r eq_refl).
  - contradiction.
Qed.

Lemma fl_keep s o p ps c :
  al_find N.eqb p (cs_peers s) = Some ps -> p_ss ps = SsFailed c ->
  (forall ch, o <> CPoll ch) ->
  al_find N.eqb p (cs_peers (fst (cstep s o))) <> None ->
  exists ps', al_find N.eqb p (cs_peers (fst (cstep s o))) = Some ps' /\ p_ss ps' = SsFailed c.
Proof.
  intros Hf Hss Hnp Ha.
  destruct (nonpoll_ss s o p ps Hf Hnp) as [(ps' & Hf' & E) | [(c' & r & -> & Hsc & _) | Hn]].
  - exists ps'. split; [exact Hf' | congruence].
  - exfalso. rewrite Hss in Hsc. discriminate.
  - contradiction.
Qed.

(* F1: an accepted Failed report, from a handler that names its own connection, is recorded as `SsFailed` of it *)
Lemma new_fault_recorded s now' o p c :
  (forall ch, o <> CPoll ch) -> rep_ok o = true ->
  In (p, c) (faults_of (csnap_of s) now' o) ->
  exists ps', al_find N.eqb p (cs_peers (fst (cstep s o))) = Some ps' /\ p_ss ps' = SsFailed c.
Proof.
  intros Hnp Hrep Hin. destruct o as [p0 c0|p0 c0|oc|q|p0 pres bl|p0 c0 r|call r|ms|ch|]; cbn [faults_of] in Hin; try (destruct Hin; fail).
  - destruct r as [|c2|c2|c2]; try (destruct Hin; fail). cbn [rep_ok] in Hrep. apply N.eqb_eq in Hrep. subst c2.
    rewrite snap_ss_of in Hin. destruct (al_find N.eqb p0 (cs_peers s)) as [ps|] eqn:Ef; cbn [option_map] in Hin; [|destruct Hin].
    destruct (sending_conn_of (p_ss ps)) as [c1|] eqn:Esc; [|destruct Hin].
    destruct (c1 =? c0) eqn:Ec; [|destruct Hin]. destruct Hin as [[= -> ->] | []]. apply N.eqb_eq in Ec. subst c1.
    cbn [cstep fst c_report set_peers cs_peers]. rewrite (al_find_modify _ Neqb_spec), N.eqb_refl, Ef. cbn [option_map].
    assert (Hacc : report_accepted ps c = true).
    { unfold report_accepted. destruct (p_ss ps); cbn [sending_conn_of sending_conn] in *; try discriminate;
        injection Esc as ->; apply N.eqb_refl. }
    rewrite Hacc. eexists. split; reflexivity.
  - exfalso. eapply Hnp. reflexivity.
Qed.

Lemma step_nonpoll (fo : csnap -> N -> cop -> list (peer * conn)) sdh pre o faults cfaults inflight :
  (forall ch, o <> CPoll ch) ->
  let s := st_after sdh pre in
  let s1 := fst (cstep s o) in
  let alive := snap_peers (csnap_of s1) in
  let faults1 := fo (csnap_of s) (now_of (cs_now s) o) o ++ faults in
  let cfaults1 := closed_unacked_of o inflight ++ cfaults0_of o cfaults in
  (forall p c, In (p, c) (fo (csnap_of s) (now_of (cs_now s) o) o) ->
               exists ps', al_find N.eqb p (cs_peers s1) = Some ps' /\ p_ss ps' = SsFailed c) ->
  FL s faults -> RQ s cfaults -> RQ s inflight ->
  FL s1 (settled_of [] alive faults1) /\ RQ s1 (settled_of [] alive cfaults1) /\
  RQ s1 (inflight1_of [] alive (inflight0_of o inflight)).
Proof.
  intros Hnp s s1 alive faults1 cfaults1 Hnew HF HC HI. split; [|split].
  - intros p c Hin. apply in_settled in Hin. destruct Hin as (Hin & _ & Ha). apply alive_find in Ha.
    apply in_app_iff in Hin. destruct Hin as [Hin | Hin].
    + exact (Hnew p c Hin).
    + destruct (HF p c Hin) as (ps & Hf & Hss). exact (fl_keep s o p ps c Hf Hss Hnp Ha).
  - intros p c Hin. apply in_settled in Hin. destruct Hin as (Hin & _ & Ha). apply alive_find in Ha.
    apply in_app_iff in Hin. destruct Hin as [Hin | Hin].
    + apply in_closed_unacked in Hin. destruct Hin as [Ho Hin]. destruct (HI p c Hin) as (ps & t & Hf & Hss).
      apply (rq_keep s o p ps t c Hf Hss Hnp); [|exact Ha]. intros r E. rewrite Ho in E. discriminate.
    + apply in_cfaults0 in Hin. destruct Hin as [Hin Hnr]. destruct (HC p c Hin) as (ps & t & Hf & Hss).
      exact (rq_keep s o p ps t c Hf Hss Hnp Hnr Ha).
  - intros p c Hin. apply in_inflight1 in Hin. destruct Hin as [Ha [(f & []) | [Hin _]]]. apply alive_find in Ha.
    apply in_inflight0 in Hin. destruct Hin as [Hin Hnr]. destruct (HI p c Hin) as (ps & t & Hf & Hss).
    exact (rq_keep s o p ps t c Hf Hss Hnp Hnr Ha).
Qed.

(* the corrected F1: whatever connection the report names is what the behaviour records *)
Lemma new_fault_recorded_payload s now' o p c :
  (forall ch, o <> CPoll ch) ->
  In (p, c) (faults_of_payload (csnap_of s) now' o) ->
  exists ps', al_find N.eqb p (cs_peers (fst (cstep s o))) = Some ps' /\ p_ss ps' = SsFailed c.
Proof.
  intros Hnp Hin. destruct o as [p0 c0|p0 c0|oc|q|p0 pres bl|p0 c0 r|call r|ms|ch|]; cbn [faults_of_payload] in Hin; try (destruct Hin; fail).
  - destruct r as [|c2|c2|c2]; try (destruct Hin; fail).
    rewrite snap_ss_of in Hin. destruct (al_find N.eqb p0 (cs_peers s)) as [ps|] eqn:Ef; cbn [option_map] in Hin; [|destruct Hin].
    destruct (sending_conn_of (p_ss ps)) as [c1|] eqn:Esc; [|destruct Hin].
    destruct (c1 =? c0) eqn:Ec; [|destruct Hin]. destruct Hin as [[= -> ->] | []]. apply N.eqb_eq in Ec. subst c1.
    cbn [cstep fst c_report set_peers cs_peers]. rewrite (al_find_modify _ Neqb_spec), N.eqb_refl, Ef. cbn [option_map].
    assert (Hacc : report_accepted ps c0 = true).
    { unfold report_accepted. destruct (p_ss ps); cbn [sending_conn_of sending_conn] in *; try discriminate;
        injection Esc as ->; apply N.eqb_refl. }
    rewrite Hacc. eexists. split; reflexivity.
  - exfalso. eapply Hnp. reflexivity.
Qed.

(* ---------- the fold along a history ---------- *)
(* what the proof asks of a source of faults, given a per-operation contract `ok` on the environment *)
Definition fo_ok (ok : cop -> bool) (fo : csnap -> N -> cop -> list (peer * conn)) : Prop :=
  (forall s ch, FT s (fo (csnap_of s) (cs_now s) (CPoll ch))) /\
  (forall s now' o p c, (forall ch, o <> CPoll ch) -> ok o = true -> In (p, c) (fo (csnap_of s) now' o) ->
     exists ps', al_find N.eqb p (cs_peers (fst (cstep s o))) = Some ps' /\ p_ss ps' = SsFailed c).

Lemma fo_ok_faults_of : fo_ok rep_ok faults_of.
Proof. split; [intros s ch; apply faults_of_poll_FT | intros s now' o p c Hnp Hok Hin; exact (new_fault_recorded s now' o p c Hnp Hok Hin)]. Qed.

Lemma fo_ok_no_faults : fo_ok (fun _ => true) no_faults.
Proof. split; [intros s ch p c [] | intros s now' o p c _ _ []]. Qed.

Lemma fo_ok_payload : fo_ok (fun _ => true) faults_of_payload.
Proof.
  split.
  - intros s ch. exact (faults_of_poll_FT s ch).
  - intros s now' o p c Hnp _ Hin. exact (new_fault_recorded_payload s now' o p c Hnp Hin).
Qed.

Lemma c5f_inv ok fo sdh : fo_ok ok fo -> forall ops pre now faults cfaults inflight,
  now = cs_now (st_after sdh pre) ->
  forallb ok ops = true ->
  FL (st_after sdh pre) faults -> RQ (st_after sdh pre) cfaults -> RQ (st_after sdh pre) inflight ->
  c5f_run fo (csnap_of (st_after sdh pre)) now faults cfaults inflight ops (run_obs (st_after sdh pre) ops) = true.
Proof.
  intros [Hfo1 Hfo2].
  induction ops as [|o ops IH]; intros pre now faults cfaults inflight Hnow Henv HF HC HI; [reflexivity|].
  subst now. cbn [run_obs]. pose proof (st_after_snoc sdh pre o) as Esn. pose proof (cstep_now sdh pre o) as Enow.
  destruct (cstep (st_after sdh pre) o) as [s1 out] eqn:Es. cbn [fst] in Esn. subst s1.
  cbn [c5f_run fst snd].
  cbn [forallb] in Henv. apply Bool.andb_true_iff in Henv. destruct Henv as [Hrep Henv'].
  assert (Eo : out = snd (cstep (st_after sdh pre) o)) by (rewrite Es; reflexivity).
  assert (Es1 : fst (cstep (st_after sdh pre) o) = st_after sdh (pre ++ [o])) by (rewrite Es; reflexivity).
  clear Es. apply Bool.andb_true_iff.
  destruct (match o with CPoll ch => true | _ => false end) eqn:Ispoll.
  - destruct o as [p c|p c|oc|q|p pres bl|p c r|call r|ms|ch|]; try discriminate.
    destruct (step_poll fo sdh pre ch faults cfaults inflight (Hfo1 _ ch) HF HC HI) as (A & B & C & D).
    cbn [cstep] in Eo, Es1. rewrite <- Eo in A. rewrite <- Eo in B, C, D. rewrite Es1 in B, C, D.
    cbn [now_of closed_unacked_of cfaults0_of inflight0_of app] in *.
    split; [exact A|]. apply IH; [symmetry; exact Enow | exact Henv' | exact B | exact C | exact D].
  - assert (Hnp : forall ch, o <> CPoll ch) by (intros ch ->; discriminate).
    destruct (step_nonpoll fo sdh pre o faults cfaults inflight Hnp (fun p c => Hfo2 _ _ o p c Hnp Hrep) HF HC HI) as (B & C & D).
    rewrite Es1 in B, C, D. rewrite Eo, (nonpoll_no_sends _ _ Hnp). split; [reflexivity|].
    apply IH; [symmetry; exact Enow | exact Henv' | exact B | exact C | exact D].
Qed.

Lemma FL_nil s : FL s []. Proof. intros p c []. Qed.
Lemma RQ_nil s : RQ s []. Proof. intros p c []. Qed.
Lemma forallb_true {A} (l : list A) : forallb (fun _ => true) l = true.
Proof. induction l as [|x l IH]; [reflexivity | exact IH]. Qed.

(* 1. restricted to F3: a connection closed while the wantlist handed to it was never acknowledged.  No hypothesis. *)
Theorem C05_trace_closed_unacked sdh ops : c5c_ok sdh ops = true.
Proof.
  unfold c5c_ok, model. cbn [fst snd]. rewrite <- (st_after_nil sdh).
  apply (c5f_inv _ _ sdh fo_ok_no_faults ops [] 0 [] [] []); [reflexivity | apply forallb_true | apply FL_nil | apply RQ_nil | apply RQ_nil].
Qed.

(* 2. the whole oracle, under the handler contract `env_ok` *)
Theorem C05_trace_faults sdh ops : env_ok ops = true -> c5_ok sdh ops = true.
Proof.
  intros Henv. unfold c5_ok, model. cbn [fst snd]. rewrite c5_run_eq, <- (st_after_nil sdh).
  apply (c5f_inv _ _ sdh fo_ok_faults_of ops [] 0 [] [] []); [reflexivity | exact Henv | apply FL_nil | apply RQ_nil | apply RQ_nil].
Qed.

(* 2', the corrected fold: no contract at all *)
Theorem C05_trace_faults_corrected sdh ops : c5p_ok sdh ops = true.
Proof.
  unfold c5p_ok, model. cbn [fst snd]. rewrite <- (st_after_nil sdh).
  apply (c5f_inv _ _ sdh fo_ok_payload ops [] 0 [] [] []); [reflexivity | apply forallb_true | apply FL_nil | apply RQ_nil | apply RQ_nil].
Qed.

(* the two folds agree on every history that honours the contract *)
Lemma faults_of_payload_eq prev now' o : rep_ok o = true -> faults_of_payload prev now' o = faults_of prev now' o.
Proof.
  destruct o as [p0 c0|p0 c0|oc|q|p0 pres bl|p0 c0 r|call r|ms|ch|]; try reflexivity.
  destruct r as [|c2|c2|c2]; try reflexivity. cbn [rep_ok]. intros E. apply N.eqb_eq in E. subst c2. reflexivity.
Qed.

Lemma c5f_payload_eq ops : forall obs prev now f cf inf,
  env_ok ops = true ->
  c5f_run faults_of_payload prev now f cf inf ops obs = c5_run prev now f cf inf ops obs.
Proof.
  induction ops as [|o ops IH]; intros obs prev now f cf inf Henv; [reflexivity|].
  destruct obs as [|ob obs]; [reflexivity|].
  cbn [env_ok forallb] in Henv. apply Bool.andb_true_iff in Henv. destruct Henv as [Ho Henv].
  cbn [c5_run c5f_run]. rewrite (faults_of_payload_eq _ _ _ Ho). rewrite (IH _ _ _ _ _ _ Henv). reflexivity.
Qed.

Theorem c5p_ok_agrees sdh ops : env_ok ops = true -> c5p_ok sdh ops = c5_ok sdh ops.
Proof. intros Henv. apply c5f_payload_eq. exact Henv. Qed.
