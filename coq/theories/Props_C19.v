(* Props_C19.v — C19: CID and multihash size conversion preserves identity.
   (the Behaviour::get half — one InvalidMultihashSize error exactly when conversion fails — is
   C03_errors / C19_get in Props_C03.v, about the client model) *)
From BS Require Import Bytes Cid Prefix Hasher Convert Convert_proofs.
Open Scope N_scope.

Theorem C19_convert_multihash_iff : forall S' mh, len (mh_digest mh) <= 255 ->
  (convert_multihash S' mh = Some mh <-> len (mh_digest mh) <= S') /\
  (forall mh', convert_multihash S' mh = Some mh' -> mh' = mh) /\
  (convert_multihash S' mh = None <-> S' < len (mh_digest mh)).
Proof. exact convert_multihash_iff. Qed.

Theorem C19_convert_cid_iff : forall S S' c, wf_cid S c ->
  (convert_cid S' c = Some c <-> len (mh_digest (c_hash c)) <= S') /\
  (forall c', convert_cid S' c = Some c' -> c' = c) /\
  (convert_cid S' c = None <-> S' < len (mh_digest (c_hash c))).
Proof. exact convert_cid_iff. Qed.

Theorem C19_back : forall S S' c, wf_cid S c -> len (mh_digest (c_hash c)) <= S' ->
  match convert_cid S' c with Some c' => convert_cid S c' = Some c | None => False end.
Proof. exact convert_back. Qed.

(* outside the guard `digest <= 255 bytes` (only reachable with a capacity above 255) Multihash::wrap
   truncates: the statement would be false there, which is why the guard is in the theorems *)
Theorem C19_truncation_beyond_255_refuted :
  exists mh, len (mh_digest mh) = 256 /\ convert_multihash 300 mh = Some (MkMh (mh_code mh) []).
Proof. exact convert_truncates_beyond_255. Qed.

Check C19_convert_cid_iff : forall S S' c, wf_cid S c ->
  (convert_cid S' c = Some c <-> len (mh_digest (c_hash c)) <= S') /\
  (forall c', convert_cid S' c = Some c' -> c' = c) /\
  (convert_cid S' c = None <-> S' < len (mh_digest (c_hash c))).

Example ex_convert_fits : convert_cid 32 (MkCid V1 85 (MkMh 18 (repeat 1 32))) = Some (MkCid V1 85 (MkMh 18 (repeat 1 32))).
Proof. vm_compute. reflexivity. Qed.
Example ex_convert_too_small : convert_cid 31 (MkCid V1 85 (MkMh 18 (repeat 1 32))) = None.
Proof. vm_compute. reflexivity. Qed.

Print Assumptions C19_convert_multihash_iff.
Print Assumptions C19_convert_cid_iff.
Print Assumptions C19_back.
Print Assumptions C19_truncation_beyond_255_refuted.
