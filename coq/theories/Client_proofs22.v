(* Client_proofs22.v — package R: the F3 clause in explicit trace form, the refutation witnesses, and C15's corollary.
   `quiet p c s ops`: along ops from s, no report from connection c of p reaches the behaviour, no wantlist is sent to p,
   and p's entry is never dropped. *)
From BS Require Import Types Wantlist Wantlist_proofs Client Client_proofs Client_proofs3 Client_proofs4 Corr_client
                       Client_proofs20 Client_proofs21.
From Coq Require Import ZArith ZifyBool ZifyN ZifyNat Lia List. Import ListNotations.
Open Scope N_scope.

Definition stuck_on (p : peer) (c : conn) (s : cstate) : Prop :=
  exists ps t, al_find N.eqb p (cs_peers s) = Some ps /\ p_ss ps = SsRequested t c.

Fixpoint quiet (p : peer) (c : conn) (s : cstate) (ops : list cop) : Prop :=
  match ops with
  | [] => True
  | o :: ops' =>
      (forall r, o <> CReport p c r) /\ no_send_to p (snd (cstep s o)) /\
      al_find N.eqb p (cs_peers (fst (cstep s o))) <> None /\ quiet p c (fst (cstep s o)) ops'
  end.

Lemma quiet_app p c s a b : quiet p c s (a ++ b) <-> quiet p c s a /\ quiet p c (snd (crun_from s a)) b.
Proof.
  revert s. induction a as [|o a IH]; intros s.
  - cbn. tauto.
  - cbn [app quiet]. rewrite crun_from_cons. cbn [snd]. rewrite IH. tauto.
Qed.

Lemma st_after_app sdh a b : st_after sdh (a ++ b) = snd (crun_from (st_after sdh a) b).
Proof. unfold st_after, crun_sdh. rewrite crun_from_app. reflexivity. Qed.

Lemma stuck_step sdh pre o p c :
  let s := st_after sdh pre in
  stuck_on p c s -> (forall r, o <> CReport p c r) -> no_send_to p (snd (cstep s o)) ->
  al_find N.eqb p (cs_peers (fst (cstep s o))) <> None -> stuck_on p c (fst (cstep s o)).
Proof.
  intros s (ps & t & Hf & Hss) Hnr Hns Ha.
  destruct (match o with CPoll ch => true | _ => false end) eqn:Ispoll.
  - destruct o as [| | | | | | | |ch|]; try discriminate. cbn [cstep] in *.
    destruct (poll_rq sdh pre ch p ps t c Hf Hss) as [Hh | [_ (ps' & Hf' & Hss')]]; [|exists ps', t; auto].
    exfalso. destruct (poll_hard sdh pre ch p ps c Hf Hh) as [_ [(c' & f & Hs) | Hn]].
    + apply sends_of_In in Hs. destruct Hs as (es & Hs). exact (Hns c' f es Hs).
    + exact (Ha Hn).
  - assert (Hnp : forall ch, o <> CPoll ch) by (intros ch ->; discriminate).
    exact (rq_keep s o p ps t c Hf Hss Hnp Hnr Ha).
Qed.

Lemma stuck_run sdh p c ops : forall pre,
  stuck_on p c (st_after sdh pre) -> quiet p c (st_after sdh pre) ops -> stuck_on p c (st_after sdh (pre ++ ops)).
Proof.
  induction ops as [|o ops IH]; intros pre Hst Hq.
  - rewrite app_nil_r. exact Hst.
  - destruct Hq as (Hnr & Hns & Ha & Hq). rewrite <- st_after_snoc in Ha, Hq.
    replace (pre ++ o :: ops) with ((pre ++ [o]) ++ ops) by (rewrite <- app_assoc; reflexivity).
    apply IH; [|exact Hq]. rewrite st_after_snoc. apply stuck_step; try assumption. rewrite <- st_after_snoc. exact Ha.
Qed.

(* a wantlist for p that leaves a state in which a request is outstanding on c is full and avoids c *)
Lemma stuck_send sdh pre ch p c c' f es :
  stuck_on p c (st_after sdh pre) ->
  In (OSendWantlist p c' f es) (snd (c_poll (st_after sdh pre) ch)) -> f = true /\ c' <> c.
Proof.
  intros (ps & t & Hf & Hss) Hin. assert (Hs : In (p, c', f) (sends_of (snd (c_poll (st_after sdh pre) ch)))) by (apply sends_of_In; eauto).
  destruct (poll_rq sdh pre ch p ps t c Hf Hss) as [Hh | [Hns _]].
  - exact (proj1 (poll_hard sdh pre ch p ps c Hf Hh) c' f Hs).
  - exfalso. exact (Hns c' f Hs).
Qed.

(* 1, explicit form.  The only thing asked of the environment is inside `quiet`: no report from c (before or after it is
   closed) until the next wantlist.  The statement does not even need the close to be there: with no report from c, the
   transmission handed to c is unacknowledged either way. *)
Theorem C05_trace_closed_unacked_explicit sdh a ch b p c f es d ch' c' f' es' :
  In (OSendWantlist p c f es) (snd (c_poll (st_after sdh a) ch)) ->
  quiet p c (st_after sdh (a ++ [CPoll ch])) (b ++ [CConnClosed p c] ++ d) ->
  In (OSendWantlist p c' f' es') (snd (c_poll (st_after sdh ((a ++ [CPoll ch]) ++ b ++ [CConnClosed p c] ++ d)) ch')) ->
  f' = true /\ c' <> c.
Proof.
  intros Hsend Hq Hin.
  assert (Hst : stuck_on p c (st_after sdh (a ++ [CPoll ch]))).
  { rewrite st_after_snoc. cbn [cstep]. destruct (C14_one_outstanding sdh a ch p c f es Hsend) as (_ & (ps' & Hf' & Hss' & _) & _).
    exists ps', (cs_now (st_after sdh a)). auto. }
  exact (stuck_send sdh _ ch' p c c' f' es' (stuck_run sdh p c _ _ Hst Hq) Hin).
Qed.

(* without "no report from c after it was closed": a late Ready report makes the behaviour go on with an ordinary update,
   although the full wantlist handed to connection 1 never left *)
Theorem C05_trace_closed_unacked_refuted :
  let a := [CNewConn 7 1; CNewConn 7 2; CGet (Some ex_c1)] in
  let b := [CRelease 0 SMiss] in
  let d := [CReport 7 1 RpReady] in
  In (OSendWantlist 7 1 true []) (snd (c_poll (st_after true a) [(7, 1)])) /\
  quiet 7 1 (st_after true (a ++ [CPoll [(7, 1)]])) (b ++ [CConnClosed 7 1]) /\
  snd (c_poll (st_after true ((a ++ [CPoll [(7, 1)]]) ++ b ++ [CConnClosed 7 1] ++ d)) [(7, 2)]) =
    [OSendWantlist 7 2 false [(KWantHave, ex_c1)]] /\
  (* the trace oracle withdraws the fault at that report: no alarm *)
  c5_ok true ((a ++ [CPoll [(7, 1)]]) ++ b ++ [CConnClosed 7 1] ++ d ++ [CPoll [(7, 2)]]) = true.
Proof.
  cbv zeta. split; [vm_compute; repeat (first [left; reflexivity | right])|]. split; [|split; vm_compute; reflexivity].
  cbn [app quiet]. repeat split; try (intros r; discriminate); try (vm_compute; discriminate);
    try (intros c0 f0 es0 H; vm_compute in H; repeat (destruct H as [H | H]; [discriminate|]); destruct H).
Qed.

(* 2 without the handler contract: a Failed report that names ANOTHER connection is recorded under that name; the
   connection that reported is used again, and the oracle raises an alarm *)
Theorem C05_trace_faults_refuted :
  exists sdh ops,
    env_ok ops = false /\ c5_ok sdh ops = false /\ c5c_ok sdh ops = true /\ c5p_ok sdh ops = true /\
    outs_after sdh ops = [OSendWantlist 7 1 true []; OSendWantlist 7 1 true []].
Proof.
  exists true, [CNewConn 7 1; CNewConn 7 2; CPoll [(7, 1)]; CReport 7 1 (RpFailed 2); CPoll [(7, 1)]].
  vm_compute. repeat split.
Qed.

(* ---------- non-vacuity ---------- *)
Definition close_ex : list cop :=
  [CNewConn 7 1; CNewConn 7 2; CGet (Some ex_c1); CPoll [(7, 1)]; CRelease 0 SMiss;
   CConnClosed 7 1; CAdvance 1000; CPoll [(7, 2)]].

Definition tamper_last_send (obs : list cobs) : list cobs :=
  map (fun ob => (map (fun o => match o with OSendWantlist 7 2 true es => OSendWantlist 7 2 false es | _ => o end) (fst ob), snd ob)) obs.
Definition tamper_conn (obs : list cobs) : list cobs :=
  map (fun ob => (map (fun o => match o with OSendWantlist 7 2 true es => OSendWantlist 7 1 true es | _ => o end) (fst ob), snd ob)) obs.

Example C05_trace_closed_unacked_example :
  outs_after true close_ex =
    [OQuery 0; OGet 0 ex_c1; OSendWantlist 7 1 true []; OSendWantlist 7 2 true [(KWantHave, ex_c1)]] /\
  al_find N.eqb 7 (cs_peers (st_after true (firstn 6 close_ex))) =
    Some (MkPeer [2] (SsRequested 0 1) wls_new false) /\
  env_ok close_ex = true /\ c5c_ok true close_ex = true /\ c5_ok true close_ex = true /\
  (* the fold does look: the same observations with the last wantlist made an update, or sent on the closed connection *)
  c5f_run no_faults csnap0 0 [] [] [] close_ex (tamper_last_send (model (true, close_ex))) = false /\
  c5f_run no_faults csnap0 0 [] [] [] close_ex (tamper_conn (model (true, close_ex))) = false.
Proof. vm_compute. repeat split. Qed.

Example C05_trace_closed_unacked_explicit_example :
  let a := [CNewConn 7 1; CNewConn 7 2; CGet (Some ex_c1)] in
  let b := [CRelease 0 SMiss] in
  let d := [CAdvance 1000] in
  In (OSendWantlist 7 1 true []) (snd (c_poll (st_after true a) [(7, 1)])) /\
  quiet 7 1 (st_after true (a ++ [CPoll [(7, 1)]])) (b ++ [CConnClosed 7 1] ++ d) /\
  In (OSendWantlist 7 2 true [(KWantHave, ex_c1)])
     (snd (c_poll (st_after true ((a ++ [CPoll [(7, 1)]]) ++ b ++ [CConnClosed 7 1] ++ d)) [(7, 2)])).
Proof.
  cbv zeta. split; [vm_compute; repeat (first [left; reflexivity | right])|]. split; [|vm_compute; repeat (first [left; reflexivity | right])].
  cbn [app quiet]. repeat split; try (intros r; discriminate); try (vm_compute; discriminate);
    try (intros c0 f0 es0 H; vm_compute in H; repeat (destruct H as [H | H]; [discriminate|]); destruct H).
Qed.
