(* Server_inv.v — specification of process_wantlist, the state invariant of the server model and its
   preservation by every handler. *)
From BS Require Import Server Server_lemmas.
From Coq Require Import ZArith ZifyBool ZifyN ZifyNat Lia Permutation.
Open Scope N_scope.

Notation MAX := MAX_WANTLIST_ENTRIES_PER_PEER.

(* ---------------------------------------------------------------- process_wantlist *)
Lemma add_capped_full l s : MAX <= len s -> add_capped l s = s.
Proof. intros H. destruct l as [|c r]; cbn [add_capped]; [reflexivity|]. destruct (MAX <=? len s) eqn:E; [reflexivity|lia]. Qed.

Lemma full_collect_spec Sz es : forall acc l,
  full_collect Sz es acc = Some l -> NoDup acc -> len acc <= MAX ->
  NoDup l /\ len l <= MAX /\ l = add_capped (entry_cids Sz false es) acc.
Proof.
  induction es as [|e es IH]; intros acc l; cbn [full_collect entry_cids].
  - intros [= <-] Hnd Hlen. auto.
  - destruct (MAX <=? len acc) eqn:Ecap.
    + intros [= <-] Hnd Hlen. split; [assumption|]. split; [assumption|].
      symmetry. apply add_capped_full. lia.
    + destruct (e_cancel e); cbn [Bool.eqb]; [apply IH|].
      destruct (cid_read_bytes Sz (e_block e)) as [c| |]; [|apply IH|discriminate].
      intros Hrun Hnd Hlen. cbn [add_capped]. rewrite Ecap.
      apply IH in Hrun; [assumption|apply cadd_NoDup; assumption|].
      pose proof (cadd_len c acc). lia.
Qed.

Lemma upd_parse_cids Sz es : forall pes,
  upd_parse Sz es = Some pes ->
  map snd (filter (fun x => fst x) pes) = entry_cids Sz true es /\
  map snd (filter (fun x => negb (fst x)) pes) = entry_cids Sz false es.
Proof.
  induction es as [|e es IH]; intros pes; cbn [upd_parse entry_cids].
  - intros [= <-]. split; reflexivity.
  - destruct (cid_read_bytes Sz (e_block e)) as [c| |].
    + destruct (upd_parse Sz es) as [pes'|] eqn:E; cbn [option_map]; [|discriminate].
      intros [= <-]. destruct (IH _ eq_refl) as [H1 H2].
      destruct (e_cancel e); cbn; rewrite H1, H2; split; reflexivity.
    + intros H. destruct (IH _ H) as [H1 H2]. destruct (e_cancel e); cbn; split; assumption.
    + discriminate.
Qed.

Lemma upd_cancel_spec cancels : forall s removed s' removed',
  upd_cancel cancels s removed = (s', removed') ->
  NoDup removed -> (forall c, In c removed -> ~ In c s) ->
  s' = fold_left (fun s c => cremove c s) cancels s /\
  NoDup removed' /\
  (forall c, In c removed' <-> In c removed \/ (In c s /\ In c cancels)) /\
  (forall c, In c s' <-> In c s /\ ~ In c cancels).
Proof.
  induction cancels as [|c r IH]; intros s removed s' removed'; cbn [upd_cancel fold_left].
  - intros [= <- <-] Hnd Hdis. repeat split; auto; try tauto. cbn. tauto.
  - destruct (cmem c s) eqn:E; intros Hrun Hnd Hdis.
    + apply cmem_spec in E.
      apply IH in Hrun.
      * destruct Hrun as (Hs & Hnd' & Hrem & Hin). split; [assumption|]. split; [assumption|]. split.
        -- intros x. rewrite Hrem, in_app_iff, cremove_In. cbn.
           destruct (cid_eq_dec x c) as [->|Hne]; [tauto|].
           split; [intros [[H|[H|[]]]|H]; try tauto; congruence | intros [H|[H1 [H2|H2]]]; try tauto; congruence].
        -- intros x. rewrite Hin, cremove_In. cbn. split; [intros [[H1 H2] H3]|intros [H1 H2]].
           ++ split; [assumption|]. intros [H|H]; [congruence|tauto].
           ++ split; [split; [|assumption]|tauto]. intros ->. tauto.
      * apply NoDup_app_intro; [assumption | repeat constructor; cbn; tauto |].
        intros x Hx [<-|[]]. apply (Hdis _ Hx E).
      * intros x. rewrite in_app_iff, cremove_In. cbn. intros [H|[<-|[]]]; [|tauto].
        intros [_ H2]. apply (Hdis _ H H2).
    + apply cmem_false in E. apply IH in Hrun; [|assumption|assumption].
      destruct Hrun as (Hs & Hnd' & Hrem & Hin). rewrite (cremove_notin c s E).
      split; [assumption|]. split; [assumption|]. split.
      * intros x. rewrite Hrem. cbn. split; [tauto|]. intros [H|[H1 [H2|H2]]]; [tauto| |tauto].
        subst. contradiction.
      * intros x. rewrite Hin. cbn. split; [|tauto]. intros [H1 H2]. split; [assumption|].
        intros [H|H]; [subst; contradiction|tauto].
Qed.

Lemma upd_add_spec adds : forall s added s' added',
  upd_add adds s added = (s', added') ->
  NoDup s -> NoDup added -> (forall c, In c added -> In c s) -> len s <= MAX ->
  s' = add_capped adds s /\ NoDup s' /\ NoDup added' /\ len s' <= MAX /\
  (forall c, In c s -> In c s') /\
  (forall c, In c added' <-> In c added \/ (In c s' /\ ~ In c s)).
Proof.
  induction adds as [|c r IH]; intros s added s' added'; cbn [upd_add add_capped].
  - intros [= <- <-] Hs Ha Hsub Hlen. repeat split; auto; tauto.
  - destruct (MAX <=? len s) eqn:Ecap.
    + intros [= <- <-] Hs Ha Hsub Hlen. repeat split; auto; tauto.
    + destruct (cmem c s) eqn:E; intros Hrun Hs Ha Hsub Hlen.
      * unfold cadd. rewrite E. apply IH in Hrun; assumption.
      * unfold cadd. rewrite E. apply cmem_false in E.
        assert (Hs' : NoDup (s ++ [c])).
        { apply NoDup_app_intro; [assumption | repeat constructor; cbn; tauto |].
          intros x Hx [<-|[]]. contradiction. }
        assert (Ha' : NoDup (added ++ [c])).
        { apply NoDup_app_intro; [assumption | repeat constructor; cbn; tauto |].
          intros x Hx [<-|[]]. apply E, Hsub, Hx. }
        apply IH in Hrun; [|assumption|assumption| |].
        -- destruct Hrun as (H1 & H2 & H3 & H4 & H5 & H6).
           split; [assumption|]. split; [assumption|]. split; [assumption|]. split; [assumption|]. split.
           ++ intros x Hx. apply H5. rewrite in_app_iff. auto.
           ++ intros x. rewrite H6, !in_app_iff. cbn.
              destruct (cid_eq_dec x c) as [->|Hne].
              ** split; [|tauto]. intros _. right. split; [|assumption]. apply H5. rewrite in_app_iff. cbn. auto.
              ** split; [intros [[H|[H|[]]]|[Ha1 Ha2]]; try tauto; congruence|].
                 intros [H|[Ha1 Ha2]]; [tauto|]. right. split; [assumption|].
                 intros [H|[H|[]]]; [tauto|congruence].
        -- intros x. rewrite !in_app_iff. cbn. intros [H|H]; [left; auto|tauto].
        -- rewrite len_app. cbn. lia.
Qed.

Lemma fold_cremove_NoDup l : forall s, NoDup s -> NoDup (fold_left (fun s c => cremove c s) l s).
Proof. induction l as [|c l IH]; cbn; intros s H; [assumption|]. apply IH, cremove_NoDup, H. Qed.

Lemma fold_cremove_len l : forall s, len (fold_left (fun s c => cremove c s) l s) <= len s.
Proof.
  induction l as [|c l IH]; cbn [fold_left]; intros s; [lia|].
  etransitivity; [apply IH|apply cremove_len].
Qed.

Lemma fold_cremove_In l : forall s x,
  In x (fold_left (fun s c => cremove c s) l s) <-> In x s /\ ~ In x l.
Proof.
  induction l as [|c l IH]; cbn [fold_left]; intros s x; [cbn; tauto|].
  rewrite IH, cremove_In. cbn. split; [intros [[H1 H2] H3]|intros [H1 H2]].
  - split; [assumption|]. intros [H|H]; [congruence|tauto].
  - split; [split; [|assumption]|tauto]. intros ->. tauto.
Qed.

(* what process_wantlist guarantees, given a duplicate-free old set within the cap *)
Record pw_ok (old new adds rems : list cid) : Prop := {
  pw_new_nodup : NoDup new;
  pw_new_len : len new <= MAX;
  pw_adds_nodup : NoDup adds;
  pw_rems_nodup : NoDup rems;
  pw_rems_old : forall c, In c rems -> In c old;
  pw_adds_fresh : forall c, In c adds -> In c old -> In c rems;
  pw_new_iff : forall c, In c new <-> (In c old /\ ~ In c rems) \/ In c adds
}.

Lemma process_wantlist_spec Sz old w new adds rems :
  NoDup old -> len old <= MAX ->
  process_wantlist Sz old w = PwOk new adds rems ->
  pw_ok old new adds rems /\ new = view_msg Sz w old.
Proof.
  intros Hnd Hlen. unfold process_wantlist, view_msg. destruct (w_full w).
  - destruct (full_collect Sz (w_entries w) []) as [new0|] eqn:E; [|discriminate].
    intros [= -> <- <-].
    apply full_collect_spec in E; [|constructor|rewrite len_nil; unfold MAX; lia].
    destruct E as (Hnn & Hl & Heq). split; [|exact Heq].
    constructor.
    + assumption.
    + assumption.
    + apply NoDup_filter. assumption.
    + apply NoDup_filter. assumption.
    + intros c. rewrite filter_In. tauto.
    + intros c. rewrite !filter_In, !negb_true_iff, !cmem_false. tauto.
    + intros c. rewrite !filter_In, !negb_true_iff, !cmem_false.
      destruct (In_cid_dec c old), (In_cid_dec c new); tauto.
  - destruct (upd_parse Sz (w_entries w)) as [pes|] eqn:E; [|discriminate].
    destruct (upd_parse_cids _ _ _ E) as [Hc Ha]. rewrite Hc, Ha.
    destruct (upd_cancel (entry_cids Sz true (w_entries w)) old []) as [s1 removed] eqn:E1.
    destruct (upd_add (entry_cids Sz false (w_entries w)) s1 []) as [s2 added] eqn:E2.
    intros [= <- <- <-].
    apply upd_cancel_spec in E1; [|constructor|cbn; tauto].
    destruct E1 as (Hs1 & Hr1 & Hr2 & Hr3).
    assert (Hs1nd : NoDup s1) by (rewrite Hs1; apply fold_cremove_NoDup; assumption).
    assert (Hs1len : len s1 <= MAX).
    { rewrite Hs1. etransitivity; [apply fold_cremove_len|assumption]. }
    apply upd_add_spec in E2; [|assumption|constructor|cbn; tauto|assumption].
    destruct E2 as (Hs2 & Hn2 & Ha2 & Hl2 & Hsub & Hadd).
    split; [|rewrite Hs2, Hs1; reflexivity].
    constructor; try assumption.
    + intros c Hx. apply Hr2 in Hx. cbn in Hx. tauto.
    + intros c Hx Ho. apply Hadd in Hx. cbn in Hx. apply Hr2. right.
      destruct Hx as [[]|[_ Hx]]. split; [assumption|].
      destruct (In_cid_dec c (entry_cids Sz true (w_entries w))) as [H|H]; [assumption|].
      exfalso. apply Hx, Hr3. tauto.
    + intros c. rewrite Hadd. cbn. rewrite (Hr2 c), (Hr3 c). cbn.
      destruct (In_cid_dec c s2), (In_cid_dec c s1), (In_cid_dec c old),
        (In_cid_dec c (entry_cids Sz true (w_entries w)));
        pose proof (Hsub c); pose proof (Hr3 c); tauto.
Qed.

(* ---------------------------------------------------------------- the invariant *)
Definition wantsP (wants : list (peer * list cid)) (p : peer) (c : cid) : Prop :=
  exists s, alookup N.eqb p wants = Some s /\ In c s.
Definition waitsP (wt : list (cid * list peer)) (p : peer) (c : cid) : Prop :=
  exists l, alookup cid_eqb c wt = Some l /\ In p l.

(* want sets: one per peer, duplicate-free, within the cap *)
Definition WS (wants : list (peer * list cid)) : Prop :=
  NoDup (map fst wants) /\
  forall p s, alookup N.eqb p wants = Some s -> NoDup s /\ len s <= MAX.
(* waiter lists: one per CID, duplicate-free, never empty *)
Definition WT (wt : list (cid * list peer)) : Prop :=
  NoDup (map fst wt) /\
  forall c l, alookup cid_eqb c wt = Some l -> NoDup l /\ l <> [].
(* p waits for c  <->  c is in p's want set *)
Definition Link (wants : list (peer * list cid)) (wt : list (cid * list peer)) : Prop :=
  forall p c, waitsP wt p c <-> wantsP wants p c.

Definition Inv (st : sstate) : Prop :=
  WS (s_wants st) /\ WT (s_waiting st) /\ Link (s_wants st) (s_waiting st).

(* shorthands *)
Definition nset_eq {V} := @alookup_aset_eq N V N.eqb Neqb_spec.
Definition nset_neq {V} := @alookup_aset_neq N V N.eqb Neqb_spec.
Definition ndel_eq {V} := @alookup_adel_eq N V N.eqb.
Definition ndel_neq {V} := @alookup_adel_neq N V N.eqb Neqb_spec.
Definition cset_eq {V} := @alookup_aset_eq cid V cid_eqb cid_eqb_spec.
Definition cset_neq {V} := @alookup_aset_neq cid V cid_eqb cid_eqb_spec.
Definition cdel_eq {V} := @alookup_adel_eq cid V cid_eqb.
Definition cdel_neq {V} := @alookup_adel_neq cid V cid_eqb cid_eqb_spec.

Lemma cancel_request_spec p wt c :
  WT wt ->
  WT (cancel_request p wt c) /\
  forall q c', waitsP (cancel_request p wt c) q c' <-> waitsP wt q c' /\ ~ (q = p /\ c' = c).
Proof.
  intros [Hk Hl]. unfold cancel_request. destruct (alookup cid_eqb c wt) as [peers|] eqn:E.
  2:{ split; [split; assumption|]. intros q c'. split; [|tauto]. intros H. split; [assumption|].
      intros [-> ->]. destruct H as (l & Hl1 & _). congruence. }
  destruct (Hl _ _ E) as [Hnd Hne].
  destruct (list_eqb N.eqb peers [p]) eqn:El.
  - apply list_eqb_N_spec in El. subst peers. split.
    + split; [apply NoDup_keys_adel; [apply cid_eqb_spec|assumption]|].
      intros c' l Hc'. destruct (cid_eq_dec c' c) as [->|Hn].
      * rewrite cdel_eq in Hc'. discriminate.
      * rewrite cdel_neq in Hc' by assumption. eauto.
    + intros q c'. unfold waitsP. destruct (cid_eq_dec c' c) as [->|Hn].
      * rewrite cdel_eq. split; [intros (l & H & _); discriminate|].
        intros [(l & H1 & H2) Hnot]. rewrite E in H1. injection H1 as <-. cbn in H2.
        destruct H2 as [<-|[]]. exfalso. apply Hnot. auto.
      * rewrite cdel_neq by assumption. split; [intros H; split; [assumption|intros [_ ?]; auto]|tauto].
  - assert (Hne1 : peers <> [p]).
    { intros ->. assert (list_eqb N.eqb [p] [p] = true) by (apply list_eqb_N_spec; reflexivity). congruence. }
    split.
    + split; [rewrite keys_aset_present by congruence; assumption|].
      intros c' l Hc'. destruct (cid_eq_dec c' c) as [->|Hn].
      * rewrite cset_eq in Hc'. injection Hc' as <-. split.
        -- apply swap_remove_first_NoDup. assumption.
        -- apply swap_remove_first_nonempty; assumption.
      * rewrite cset_neq in Hc' by assumption. eauto.
    + intros q c'. unfold waitsP. destruct (cid_eq_dec c' c) as [->|Hn].
      * rewrite cset_eq. split.
        -- intros (l & [= <-] & H2). apply swap_remove_first_In in H2; [|assumption].
           split; [exists peers; tauto|]. intros [-> _]. tauto.
        -- intros [(l & H1 & H2) Hnot]. rewrite E in H1. injection H1 as <-.
           eexists. split; [reflexivity|]. apply swap_remove_first_In; [assumption|].
           split; [assumption|]. intros ->. apply Hnot. auto.
      * rewrite cset_neq by assumption. split; [intros H; split; [assumption|intros [_ ?]; auto]|tauto].
Qed.

Lemma fold_cancel_spec p rems : forall wt,
  WT wt ->
  WT (fold_left (cancel_request p) rems wt) /\
  forall q c', waitsP (fold_left (cancel_request p) rems wt) q c' <->
               waitsP wt q c' /\ ~ (q = p /\ In c' rems).
Proof.
  induction rems as [|c r IH]; intros wt Hwt; cbn [fold_left].
  - split; [assumption|]. intros q c'. cbn. tauto.
  - destruct (cancel_request_spec p wt c Hwt) as [Hwt1 H1].
    destruct (IH _ Hwt1) as [Hwt2 H2]. split; [assumption|].
    intros q c'. rewrite H2, H1. cbn. split.
    + intros [[Ha Hb] Hc]. split; [assumption|]. intros [-> [<-|Hin]]; tauto.
    + intros [Ha Hb]. split; [split; [assumption|]|]; intros [-> Hx]; subst; tauto.
Qed.

Lemma add_waiter_spec p wt c :
  WT wt -> ~ waitsP wt p c ->
  WT (add_waiter p wt c) /\
  forall q c', waitsP (add_waiter p wt c) q c' <-> waitsP wt q c' \/ (q = p /\ c' = c).
Proof.
  intros [Hk Hl] Hnw. unfold add_waiter. destruct (alookup cid_eqb c wt) as [peers|] eqn:E.
  - destruct (Hl _ _ E) as [Hnd Hne]. split.
    + split; [rewrite keys_aset_present by congruence; assumption|].
      intros c' l Hc'. destruct (cid_eq_dec c' c) as [->|Hn].
      * rewrite cset_eq in Hc'. injection Hc' as <-. split.
        -- apply NoDup_app_intro; [assumption|repeat constructor; cbn; tauto|].
           intros x Hx [<-|[]]. apply Hnw. exists peers. tauto.
        -- destruct peers; discriminate.
      * rewrite cset_neq in Hc' by assumption. eauto.
    + intros q c'. unfold waitsP. destruct (cid_eq_dec c' c) as [->|Hn].
      * rewrite cset_eq. split.
        -- intros (l & [= <-] & H2). rewrite in_app_iff in H2. cbn in H2.
           destruct H2 as [H2|[<-|[]]]; [left; exists peers; tauto|right; tauto].
        -- intros [(l & H1 & H2)|[-> _]]; eexists; (split; [reflexivity|]); rewrite in_app_iff; cbn; [|tauto].
           rewrite E in H1. injection H1 as <-. tauto.
      * rewrite cset_neq by assumption. split; [tauto|]. intros [H|[_ H]]; [assumption|contradiction].
  - pose proof E as Hni. apply (alookup_None cid_eqb cid_eqb_spec) in Hni. split.
    + split.
      * rewrite map_app. cbn. apply NoDup_app_intro; [assumption|repeat constructor; cbn; tauto|].
        intros x Hx [<-|[]]. contradiction.
      * intros c' l. rewrite (alookup_app cid_eqb). destruct (alookup cid_eqb c' wt) as [l'|] eqn:E'.
        -- intros [= <-]. eauto.
        -- cbn. destruct (cid_eqb c' c); [|discriminate]. intros [= <-]. split; [repeat constructor; cbn; tauto|discriminate].
    + intros q c'. unfold waitsP. rewrite (alookup_app cid_eqb).
      destruct (alookup cid_eqb c' wt) as [l'|] eqn:E'.
      * split; [tauto|]. intros [H|[-> ->]]; [assumption|congruence].
      * cbn. destruct (cid_eqb c' c) eqn:Ec.
        -- apply cid_eqb_spec in Ec. subst c'. split.
           ++ intros (l & [= <-] & [<-|[]]). tauto.
           ++ intros [(l & H & _)|[-> _]]; [discriminate|]. exists [p]. cbn. tauto.
        -- apply cid_eqb_false in Ec. split.
           ++ intros (l & H & _). discriminate.
           ++ intros [(l & H & _)|[_ H]]; [discriminate|contradiction].
Qed.

Lemma fold_add_spec p adds : forall wt,
  WT wt -> NoDup adds -> (forall c, In c adds -> ~ waitsP wt p c) ->
  WT (fold_left (add_waiter p) adds wt) /\
  forall q c', waitsP (fold_left (add_waiter p) adds wt) q c' <->
               waitsP wt q c' \/ (q = p /\ In c' adds).
Proof.
  induction adds as [|c r IH]; intros wt Hwt Hnd Hfresh; cbn [fold_left].
  - split; [assumption|]. intros q c'. cbn. tauto.
  - inversion Hnd as [|? ? Hni Hnd']; subst.
    destruct (add_waiter_spec p wt c Hwt (Hfresh c (or_introl eq_refl))) as [Hwt1 H1].
    destruct (IH _ Hwt1 Hnd') as [Hwt2 H2].
    { intros c' Hc' Hw. apply H1 in Hw. destruct Hw as [Hw|[_ ->]]; [|contradiction].
      apply (Hfresh c'); [right; assumption|assumption]. }
    split; [assumption|]. intros q c'. rewrite H2, H1. cbn. split.
    + intros [[H|[-> ->]]|[-> H]]; auto.
    + intros [H|[-> [<-|H]]]; auto.
Qed.

Lemma wantsP_aset wants p new q c :
  wantsP (aset N.eqb p new wants) q c <-> (q = p /\ In c new) \/ (q <> p /\ wantsP wants q c).
Proof.
  unfold wantsP. destruct (N.eq_dec q p) as [->|Hne].
  - rewrite nset_eq. split.
    + intros (s & [= <-] & H). auto.
    + intros [[_ H]|[H _]]; [eauto|congruence].
  - rewrite nset_neq by assumption. split; [auto|]. intros [[H _]|[_ H]]; [contradiction|assumption].
Qed.

Lemma WS_aset wants p new :
  WS wants -> NoDup new -> len new <= MAX -> WS (aset N.eqb p new wants).
Proof.
  intros [Hk Hs] Hnd Hlen. split; [apply NoDup_keys_aset; [apply Neqb_spec|assumption]|].
  intros q s. destruct (N.eq_dec q p) as [->|Hne].
  - rewrite nset_eq. intros [= <-]. auto.
  - rewrite nset_neq by assumption. apply Hs.
Qed.

Lemma pim_inv Sz st p w order : Inv st -> Inv (process_incoming_message Sz st p w order).
Proof.
  intros (HWS & HWT & HL). unfold process_incoming_message.
  destruct (alookup N.eqb p (s_wants st)) as [old|] eqn:Eold; [|exact (conj HWS (conj HWT HL))].
  destruct (process_wantlist Sz old w) as [|new adds rems] eqn:Epw; [exact (conj HWS (conj HWT HL))|].
  destruct (proj2 HWS _ _ Eold) as [Hold Holdlen].
  destruct (process_wantlist_spec _ _ _ _ _ _ Hold Holdlen Epw) as [Hpw _].
  destruct Hpw as [Hn1 Hn2 Ha Hr Hro Haf Hiff].
  destruct (fold_cancel_spec p rems _ HWT) as [HWT1 H1].
  assert (Hfresh : forall c, In c adds -> ~ waitsP (fold_left (cancel_request p) rems (s_waiting st)) p c).
  { intros c Hc Hw. apply H1 in Hw. destruct Hw as [Hw Hnot]. apply HL in Hw.
    destruct Hw as (s & Hs1 & Hs2). rewrite Eold in Hs1. injection Hs1 as <-. apply Hnot. split; [reflexivity|].
    apply Haf; assumption. }
  destruct (fold_add_spec p adds _ HWT1 Ha Hfresh) as [HWT2 H2].
  unfold Inv; cbn [s_wants s_waiting]. split; [apply WS_aset; assumption|]. split; [assumption|].
  intros q c. rewrite H2, H1, wantsP_aset. destruct (N.eq_dec q p) as [->|Hne].
  - rewrite (HL p c). unfold wantsP. rewrite Eold, (Hiff c). split.
    + intros [[(s & [= <-] & Hin) Hnot]|[_ Hin]]; left; (split; [reflexivity|]); [left|right; assumption].
      split; [assumption|]. intros Hx. apply Hnot. auto.
    + intros [[_ [[Hin Hnr]|Hin]]|[Hx _]]; [left|right; auto|congruence].
      split; [eauto|]. intros [_ Hx]. contradiction.
  - rewrite (HL q c). split.
    + intros [[H _]|[H _]]; [right; auto|contradiction].
    + intros [[H _]|[_ H]]; [contradiction|]. left. split; [assumption|]. intros [H1' _]. contradiction.
Qed.

(* on_peer_disconnected *)
Lemma retain_keys p wt c : In c (map fst (retain_waiting p wt)) -> In c (map fst wt).
Proof.
  induction wt as [|[c0 l0] wt IH]; cbn; [tauto|].
  destruct (filter (fun q => negb (q =? p)) l0); cbn; tauto.
Qed.

Lemma retain_NoDup p wt : NoDup (map fst wt) -> NoDup (map fst (retain_waiting p wt)).
Proof.
  induction wt as [|[c0 l0] wt IH]; cbn; [auto|]. intros H. inversion H as [|? ? Hni Hnd]; subst.
  destruct (filter (fun q => negb (q =? p)) l0); cbn; [auto|]. constructor; [|auto].
  intros Hin. apply retain_keys in Hin. contradiction.
Qed.

Lemma retain_lookup p wt c :
  NoDup (map fst wt) ->
  alookup cid_eqb c (retain_waiting p wt) =
  match alookup cid_eqb c wt with
  | None => None
  | Some l => match filter (fun q => negb (q =? p)) l with [] => None | l' => Some l' end
  end.
Proof.
  induction wt as [|[c0 l0] wt IH]; cbn; [reflexivity|]. intros H. inversion H as [|? ? Hni Hnd]; subst.
  destruct (cid_eqb c c0) eqn:E.
  - apply cid_eqb_spec in E. subst c0.
    destruct (filter (fun q => negb (q =? p)) l0) eqn:Ef.
    + rewrite IH by assumption.
      assert (alookup cid_eqb c wt = None) as -> by (apply (alookup_None cid_eqb cid_eqb_spec); assumption).
      reflexivity.
    + cbn. rewrite cid_eqb_refl. reflexivity.
  - destruct (filter (fun q => negb (q =? p)) l0) eqn:Ef; cbn; rewrite ?E; auto.
Qed.

Lemma wantsP_adel wants p q c : wantsP (adel N.eqb p wants) q c <-> q <> p /\ wantsP wants q c.
Proof.
  unfold wantsP. destruct (N.eq_dec q p) as [->|Hne].
  - rewrite ndel_eq. split; [intros (s & H & _); discriminate|tauto].
  - rewrite ndel_neq by assumption. tauto.
Qed.

Lemma disc_inv st p : Inv st -> Inv (peer_disconnected st p).
Proof.
  intros (HWS & HWT & HL). unfold peer_disconnected.
  destruct (alookup N.eqb p (s_wants st)) as [old|] eqn:Eold; [|exact (conj HWS (conj HWT HL))].
  destruct HWS as [Hk Hs]. destruct HWT as [Htk Htl].
  unfold Inv; cbn [s_wants s_waiting]. split; [|split].
  - split; [apply NoDup_keys_adel; [apply Neqb_spec|assumption]|].
    intros q s. destruct (N.eq_dec q p) as [->|Hne]; [rewrite ndel_eq; discriminate|].
    rewrite ndel_neq by assumption. apply Hs.
  - split; [apply retain_NoDup; assumption|].
    intros c l. rewrite retain_lookup by assumption.
    destruct (alookup cid_eqb c (s_waiting st)) as [l0|] eqn:E; [|discriminate].
    destruct (filter (fun q => negb (q =? p)) l0) eqn:Ef; [discriminate|]. intros [= <-].
    rewrite <- Ef. split; [apply NoDup_filter; apply (Htl _ _ E)|]. rewrite Ef. discriminate.
  - intros q c. rewrite wantsP_adel, <- (HL q c). unfold waitsP. rewrite retain_lookup by assumption.
    destruct (alookup cid_eqb c (s_waiting st)) as [l0|] eqn:E.
    + split.
      * intros (l & Hl1 & Hl2).
        destruct (filter (fun q => negb (q =? p)) l0) eqn:Ef; [discriminate|]. injection Hl1 as <-.
        rewrite <- Ef in Hl2. apply filter_In in Hl2. destruct Hl2 as [Hin Hne].
        split; [lia|eauto].
      * intros [Hne (l & [= <-] & Hin)].
        assert (Hf : In q (filter (fun q => negb (q =? p)) l0)) by (apply filter_In; split; [assumption|lia]).
        destruct (filter (fun q => negb (q =? p)) l0) eqn:Ef; [destruct Hf|]. eauto.
    + split; [intros (l & H & _); discriminate|intros [_ (l & H & _)]; discriminate].
Qed.

Lemma newconn_inv st p : Inv st -> Inv (new_connection st p).
Proof.
  intros (HWS & HWT & HL). unfold new_connection.
  destruct (alookup N.eqb p (s_wants st)) as [old|] eqn:Eold; [exact (conj HWS (conj HWT HL))|].
  unfold Inv; cbn [s_wants s_waiting]. destruct HWS as [Hk Hs].
  pose proof Eold as Hni. apply (alookup_None N.eqb Neqb_spec) in Hni.
  split; [|split; [assumption|]].
  - split.
    + rewrite map_app. cbn. apply NoDup_app_intro; [assumption|repeat constructor; cbn; tauto|].
      intros x Hx [<-|[]]. contradiction.
    + intros q s. rewrite (alookup_app N.eqb). destruct (alookup N.eqb q (s_wants st)) eqn:E.
      * intros [= <-]. eauto.
      * cbn. destruct (q =? p); [|discriminate]. intros [= <-]. split; [constructor|rewrite len_nil; unfold MAX; lia].
  - intros q c. rewrite (HL q c). unfold wantsP. rewrite (alookup_app N.eqb).
    destruct (alookup N.eqb q (s_wants st)) eqn:E; [tauto|].
    cbn. destruct (q =? p).
    + split; [intros (s & H & _); discriminate|intros (s & [= <-] & [])].
    + tauto.
Qed.

(* ---------------------------------------------------------------- update_handlers *)
Definition rm_blocks (bl : list (cid * bytes)) (s : list cid) : list cid :=
  fold_left (fun s b => cremove (fst b) s) bl s.

Lemma rm_blocks_In bl : forall s x, In x (rm_blocks bl s) <-> In x s /\ ~ In x (map fst bl).
Proof.
  unfold rm_blocks. induction bl as [|b bl IH]; cbn [fold_left map]; intros s x; [cbn; tauto|].
  rewrite IH, cremove_In. cbn. split; [intros [[H1 H2] H3]|intros [H1 H2]].
  - split; [assumption|]. intros [H|H]; [congruence|tauto].
  - split; [split; [|assumption]|tauto]. intros ->. tauto.
Qed.

Lemma rm_blocks_app a b s : rm_blocks (a ++ b) s = rm_blocks b (rm_blocks a s).
Proof. unfold rm_blocks. apply fold_left_app. Qed.

Lemma cremove_idem c s : cremove c (cremove c s) = cremove c s.
Proof. apply cremove_notin. rewrite cremove_In. tauto. Qed.

Lemma want_remove_lookup c wants p q :
  alookup N.eqb q (want_remove c wants p) =
  if q =? p then option_map (cremove c) (alookup N.eqb q wants) else alookup N.eqb q wants.
Proof.
  unfold want_remove. destruct (q =? p) eqn:E.
  - assert (q = p) by lia. subst q. destruct (alookup N.eqb p wants) eqn:El; cbn.
    + apply nset_eq.
    + assumption.
  - assert (q <> p) by lia. destruct (alookup N.eqb p wants) eqn:El; [|reflexivity].
    apply nset_neq. assumption.
Qed.

Lemma want_remove_keys c wants p : map fst (want_remove c wants p) = map fst wants.
Proof.
  unfold want_remove. destruct (alookup N.eqb p wants) eqn:El; [|reflexivity].
  apply (keys_aset_present N.eqb). rewrite El. discriminate.
Qed.

Lemma fold_want_remove_keys c peers : forall wants,
  map fst (fold_left (want_remove c) peers wants) = map fst wants.
Proof.
  induction peers as [|p r IH]; intros wants; cbn [fold_left]; [reflexivity|].
  rewrite IH. apply want_remove_keys.
Qed.

Lemma fold_want_remove_lookup c peers : forall wants q,
  alookup N.eqb q (fold_left (want_remove c) peers wants) =
  option_map (fun s => if existsb (N.eqb q) peers then cremove c s else s) (alookup N.eqb q wants).
Proof.
  induction peers as [|p r IH]; intros wants q; cbn [fold_left existsb].
  - destruct (alookup N.eqb q wants); reflexivity.
  - rewrite IH, want_remove_lookup. destruct (q =? p) eqn:E; cbn [orb]; [|reflexivity].
    destruct (alookup N.eqb q wants) as [s|]; cbn [option_map]; [|reflexivity].
    destruct (existsb (N.eqb q) r); [rewrite cremove_idem|]; reflexivity.
Qed.

(* batches: sorted by peer *)
Fixpoint bsorted (m : batches) : Prop :=
  match m with
  | [] => True
  | (q, _) :: m' => (forall q', In q' (map fst m') -> q < q') /\ bsorted m'
  end.

Definition bget (q : peer) (m : batches) : list (cid * bytes) :=
  match alookup N.eqb q m with Some l => l | None => [] end.

Lemma badd_keys p x m q : In q (map fst (badd p x m)) <-> q = p \/ In q (map fst m).
Proof.
  induction m as [|[k l] m IH]; cbn; [intuition congruence|].
  destruct (p =? k) eqn:E1; cbn.
  - assert (p = k) by lia. subst. intuition congruence.
  - destruct (p <? k) eqn:E2; cbn; [intuition congruence|]. rewrite IH. intuition congruence.
Qed.

Lemma badd_sorted p x m : bsorted m -> bsorted (badd p x m).
Proof.
  induction m as [|[k l] m IH]; cbn; [tauto|]. intros [Hk Hs].
  destruct (p =? k) eqn:E1; cbn; [tauto|].
  destruct (p <? k) eqn:E2; cbn.
  - split; [|tauto]. intros q' [<-|Hq]; [lia|]. specialize (Hk _ Hq). lia.
  - split; [|auto]. intros q' Hq. apply badd_keys in Hq. destruct Hq as [->|Hq]; [lia|auto].
Qed.

Lemma bsorted_lookup_lt p k l m : bsorted ((k, l) :: m) -> p < k -> alookup N.eqb p ((k, l) :: m) = None.
Proof.
  intros Hs Hlt. apply (alookup_None N.eqb Neqb_spec). cbn. intros [H|H]; [lia|].
  destruct Hs as [Hk _]. specialize (Hk _ H). lia.
Qed.

Lemma badd_get p x m q :
  bsorted m -> bget q (badd p x m) = if q =? p then bget p m ++ [x] else bget q m.
Proof.
  unfold bget. induction m as [|[k l] m IH]; intros Hs.
  - cbn. destruct (q =? p); reflexivity.
  - cbn [badd]. destruct (p =? k) eqn:E1.
    + assert (p = k) by lia. subst k. cbn. rewrite N.eqb_refl. destruct (q =? p); reflexivity.
    + destruct (p <? k) eqn:E2.
      * assert (Hlt : p < k) by lia. rewrite (bsorted_lookup_lt p k l m Hs Hlt).
        cbn [alookup]. destruct (q =? p) eqn:E3; reflexivity.
      * cbn [alookup]. destruct (q =? k) eqn:E3.
        -- assert (q =? p = false) as -> by lia. reflexivity.
        -- rewrite IH by (apply Hs). rewrite E1. reflexivity.
Qed.

Lemma badd_nonempty p x m :
  (forall q l, In (q, l) m -> l <> []) -> forall q l, In (q, l) (badd p x m) -> l <> [].
Proof.
  induction m as [|[k l0] m IH]; cbn; intros Hne q l.
  - intros [[= <- <-]|[]]. discriminate.
  - destruct (p =? k); cbn.
    + intros [[= <- <-]|H]; [destruct l0; discriminate|eauto].
    + destruct (p <? k); cbn.
      * intros [[= <- <-]|H]; [discriminate|eauto].
      * intros [[= <- <-]|H]; [eauto|]. apply (IH (fun q l H => Hne q l (or_intror H)) _ _ H).
Qed.

Lemma fold_badd_spec b peers : forall bat,
  NoDup peers -> bsorted bat -> (forall q l, In (q, l) bat -> l <> []) ->
  let bat' := fold_left (fun m p => badd p b m) peers bat in
  bsorted bat' /\ (forall q l, In (q, l) bat' -> l <> []) /\
  forall q, bget q bat' = bget q bat ++ (if existsb (N.eqb q) peers then [b] else []).
Proof.
  induction peers as [|p r IH]; intros bat Hnd Hs Hne; cbn [fold_left existsb].
  - cbn. repeat split; auto. intros q. rewrite app_nil_r. reflexivity.
  - inversion Hnd as [|? ? Hni Hnd']; subst.
    destruct (IH (badd p b bat) Hnd' (badd_sorted _ _ _ Hs) (badd_nonempty _ _ _ Hne)) as (H1 & H2 & H3).
    cbn zeta. split; [assumption|]. split; [assumption|]. intros q. rewrite H3, badd_get by assumption.
    destruct (q =? p) eqn:E; cbn [orb]; [|reflexivity].
    assert (q = p) by lia. subst q.
    assert (existsb (N.eqb p) r = false) as ->.
    { destruct (existsb (N.eqb p) r) eqn:Ex; [|reflexivity]. apply existsb_exists in Ex.
      destruct Ex as (y & Hy & Hey). assert (p = y) by lia. subst. contradiction. }
    rewrite app_nil_r. reflexivity.
Qed.

Lemma existsb_N_In q peers : existsb (N.eqb q) peers = true <-> In q peers.
Proof.
  rewrite existsb_exists. split.
  - intros (y & Hy & E). assert (q = y) by lia. subst. assumption.
  - intros H. exists q. split; [assumption|lia].
Qed.

(* loop invariant of update_handlers, relative to the want sets wants0 at its start and the part
   `done` of the queue consumed so far *)
Record UH (wants0 : list (peer * list cid)) (done : list (cid * bytes)) (acc : uh_state) : Prop := {
  uh_ws : WS (fst (fst acc));
  uh_wt : WT (snd (fst acc));
  uh_link : Link (fst (fst acc)) (snd (fst acc));
  uh_sorted : bsorted (snd acc);
  uh_nonempty : forall q l, In (q, l) (snd acc) -> l <> [];
  uh_wants : forall p, alookup N.eqb p (fst (fst acc)) =
                       option_map (rm_blocks (bget p (snd acc))) (alookup N.eqb p wants0);
  uh_from : forall p b, In b (bget p (snd acc)) -> In b done /\ wantsP wants0 p (fst b);
  uh_nodup : forall p, NoDup (map fst (bget p (snd acc)));
  uh_all : forall p c, wantsP (fst (fst acc)) p c <-> wantsP wants0 p c /\ ~ In c (map fst done)
}.

Lemma UH_step wants0 done acc b : UH wants0 done acc -> UH wants0 (done ++ [b]) (uh_block acc b).
Proof.
  destruct acc as [[wants wt] bat]. intros [Hws Hwt HL Hso Hne Hw Hfrom Hnd Hall]. cbn [fst snd] in *.
  unfold uh_block. destruct (alookup cid_eqb (fst b) wt) as [peers|] eqn:E.
  2:{ constructor; cbn [fst snd]; try assumption.
      - intros p b' Hb. destruct (Hfrom p b' Hb). split; [rewrite in_app_iff; auto|assumption].
      - intros p c. rewrite Hall, map_app, in_app_iff. cbn. split; [|tauto].
        intros [H1 H2]. split; [assumption|]. intros [H|[<-|[]]]; [tauto|].
        assert (Hx : wantsP wants p (fst b)) by (apply Hall; tauto).
        apply HL in Hx. destruct Hx as (l & Hl & _). congruence. }
  destruct (proj2 Hwt _ _ E) as [Hpnd Hpne].
  pose proof (fold_badd_spec b peers bat Hpnd Hso Hne) as (Hso' & Hne' & Hget). cbn zeta in *.
  assert (Hpeers : forall q, In q peers <-> wantsP wants q (fst b)).
  { intros q. rewrite <- (HL q (fst b)). unfold waitsP. rewrite E. split; [eauto|].
    intros (l & [= <-] & H). assumption. }
  constructor; cbn [fst snd].
  - destruct Hws as [Hk Hs]. split; [rewrite fold_want_remove_keys; assumption|].
    intros q s. rewrite fold_want_remove_lookup.
    destruct (alookup N.eqb q wants) as [s0|] eqn:E0; cbn [option_map]; [|discriminate].
    intros [= <-]. destruct (Hs _ _ E0) as [H1 H2].
    destruct (existsb (N.eqb q) peers); [|auto]. split; [apply cremove_NoDup; assumption|].
    pose proof (cremove_len (fst b) s0). lia.
  - destruct Hwt as [Hk Hl]. split; [apply NoDup_keys_adel; [apply cid_eqb_spec|assumption]|].
    intros c l. destruct (cid_eq_dec c (fst b)) as [->|Hn]; [rewrite cdel_eq; discriminate|].
    rewrite cdel_neq by assumption. apply Hl.
  - intros q c. unfold waitsP, wantsP. rewrite fold_want_remove_lookup.
    destruct (cid_eq_dec c (fst b)) as [->|Hn].
    + rewrite cdel_eq. split; [intros (l & H & _); discriminate|].
      intros (s & Hs1 & Hs2). exfalso.
      destruct (alookup N.eqb q wants) as [s0|] eqn:E0; cbn [option_map] in Hs1; [|discriminate].
      injection Hs1 as <-. destruct (existsb (N.eqb q) peers) eqn:Ex.
      * apply cremove_In in Hs2. tauto.
      * assert (Hq : In q peers) by (apply Hpeers; exists s0; auto).
        apply existsb_N_In in Hq. congruence.
    + rewrite cdel_neq by assumption. fold (waitsP wt q c). rewrite (HL q c). unfold wantsP.
      destruct (alookup N.eqb q wants) as [s0|] eqn:E0; cbn [option_map].
      * split.
        -- intros (s & [= <-] & Hin). eexists. split; [reflexivity|].
           destruct (existsb (N.eqb q) peers); [apply cremove_In; auto|assumption].
        -- intros (s & [= <-] & Hin). exists s0. split; [reflexivity|].
           destruct (existsb (N.eqb q) peers); [apply cremove_In in Hin; tauto|assumption].
      * split; intros (s & H & _); discriminate.
  - assumption.
  - assumption.
  - intros p. rewrite fold_want_remove_lookup, Hw, Hget.
    destruct (alookup N.eqb p wants0) as [s0|]; cbn [option_map]; [|reflexivity].
    destruct (existsb (N.eqb p) peers); [rewrite rm_blocks_app; reflexivity|rewrite app_nil_r; reflexivity].
  - intros p b'. rewrite Hget, !in_app_iff. intros [Hb|Hb].
    + destruct (Hfrom p b' Hb). auto.
    + destruct (existsb (N.eqb p) peers) eqn:Ex; [|destruct Hb]. destruct Hb as [<-|[]].
      split; [cbn; auto|]. apply existsb_N_In, Hpeers, Hall in Ex. tauto.
  - intros p. rewrite Hget, map_app. destruct (existsb (N.eqb p) peers) eqn:Ex; [|rewrite app_nil_r; apply Hnd].
    cbn. apply NoDup_app_intro; [apply Hnd|repeat constructor; cbn; tauto|].
    intros x Hx [<-|[]]. apply existsb_N_In, Hpeers in Ex. destruct Ex as (s & Hs1 & Hs2).
    rewrite Hw in Hs1. destruct (alookup N.eqb p wants0) as [s0|]; cbn [option_map] in Hs1; [|discriminate].
    injection Hs1 as <-. apply rm_blocks_In in Hs2. tauto.
  - intros p c. unfold wantsP at 1. rewrite fold_want_remove_lookup, map_app, in_app_iff. cbn.
    destruct (alookup N.eqb p wants) as [s0|] eqn:E0; cbn [option_map].
    + assert (Hs0 : forall x, In x s0 <-> wantsP wants0 p x /\ ~ In x (map fst done)).
      { intros x. rewrite <- Hall. unfold wantsP. rewrite E0. split; [eauto|]. intros (s & [= <-] & H). assumption. }
      split.
      * intros (s & [= <-] & Hin). destruct (existsb (N.eqb p) peers) eqn:Ex.
        -- apply cremove_In in Hin. destruct Hin as [Hne1 Hin]. apply Hs0 in Hin.
           split; [tauto|]. intros [H|[H|[]]]; [tauto|congruence].
        -- pose proof Hin as Hin'. apply Hs0 in Hin. split; [tauto|]. intros [H|[H|[]]]; [tauto|]. subst c.
           assert (Hq : In p peers) by (apply Hpeers; exists s0; auto).
           apply existsb_N_In in Hq. congruence.
      * intros [H1 H2]. eexists. split; [reflexivity|].
        assert (Hin : In c s0) by (apply Hs0; tauto).
        destruct (existsb (N.eqb p) peers); [|assumption]. apply cremove_In. split; [|assumption].
        intros ->. tauto.
    + split; [intros (s & H & _); discriminate|]. intros [H1 H2].
      assert (Hx : wantsP wants p c) by (apply Hall; tauto). destruct Hx as (s & Hs & _). congruence.
Qed.

Lemma UH_fold wants0 q : forall done acc,
  UH wants0 done acc -> UH wants0 (done ++ q) (fold_left uh_block q acc).
Proof.
  induction q as [|b q IH]; intros done acc H; cbn [fold_left].
  - rewrite app_nil_r. assumption.
  - replace (done ++ b :: q) with ((done ++ [b]) ++ q) by (rewrite <- app_assoc; reflexivity).
    apply IH, UH_step, H.
Qed.

Lemma UH_init wants wt : WS wants -> WT wt -> Link wants wt -> UH wants [] (wants, wt, []).
Proof.
  intros H1 H2 H3. constructor; cbn [fst snd]; auto.
  - cbn. tauto.
  - intros p. unfold bget. cbn. destruct (alookup N.eqb p wants); reflexivity.
  - intros p b. unfold bget. cbn. tauto.
  - intros p. unfold bget. cbn. constructor.
  - intros p c. cbn. tauto.
Qed.

(* ---------------------------------------------------------------- steps and runs *)
Lemma run_task_nil st out t :
  t_todo t = [] ->
  run_task (st, out) t =
  (MkS (s_wants st) (s_waiting st) (s_outq st ++ hits (t_done t)) (s_ready st)
       (s_blocked st) (s_next_call st) (s_panic st) (s_bad_order st), out).
Proof. intros E. unfold run_task. rewrite E. reflexivity. Qed.

Lemma run_task_cons st out t c rest :
  t_todo t = c :: rest ->
  run_task (st, out) t =
  (MkS (s_wants st) (s_waiting st) (s_outq st) (s_ready st)
       (s_blocked st ++ [(s_next_call st, (c, MkTask (t_peer t) (t_done t) rest))])
       (s_next_call st + 1) (s_panic st) (s_bad_order st),
   out ++ [LGet (s_next_call st) c]).
Proof. intros E. unfold run_task. rewrite E. reflexivity. Qed.

Lemma fold_run_task_frame ready : forall st out,
  let r := fold_left run_task ready (st, out) in
  s_wants (fst r) = s_wants st /\ s_waiting (fst r) = s_waiting st /\
  s_panic (fst r) = s_panic st /\ s_bad_order (fst r) = s_bad_order st /\ s_ready (fst r) = s_ready st.
Proof.
  induction ready as [|t r IH]; intros st out; cbn [fold_left].
  - cbn. auto.
  - destruct (t_todo t) as [|c rest] eqn:Et.
    + rewrite (run_task_nil _ _ _ Et).
      match goal with |- context [fold_left run_task r (?s, ?o)] => exact (IH s o) end.
    + rewrite (run_task_cons _ _ _ _ _ Et).
      match goal with |- context [fold_left run_task r (?s, ?o)] => exact (IH s o) end.
Qed.

Lemma uh_inv st : Inv st -> Inv (fst (update_handlers st)).
Proof.
  intros (H1 & H2 & H3). unfold update_handlers.
  pose proof (UH_fold (s_wants st) (s_outq st) [] _ (UH_init _ _ H1 H2 H3)) as H.
  destruct (fold_left uh_block (s_outq st) (s_wants st, s_waiting st, [])) as [[wants wt] bat].
  destruct H as [Ha Hb Hc _ _ _ _ _ _]. cbn [fst snd] in *. exact (conj Ha (conj Hb Hc)).
Qed.

Lemma do_poll_inv st : Inv st -> Inv (fst (do_poll st)).
Proof.
  intros H. unfold do_poll.
  pose proof (fold_run_task_frame (s_ready st)
    (MkS (s_wants st) (s_waiting st) (s_outq st) [] (s_blocked st) (s_next_call st) (s_panic st) (s_bad_order st)) [])
    as (Hf1 & Hf2 & _).
  cbn zeta in *.
  destruct (fold_left run_task (s_ready st) _) as [st1 out1]. cbn [fst s_wants s_waiting] in *.
  assert (H1 : Inv st1) by (unfold Inv; rewrite Hf1, Hf2; exact H).
  pose proof (uh_inv st1 H1) as H2. destruct (update_handlers st1) as [st2 out2]. exact H2.
Qed.

Lemma release_frame st k r :
  s_wants (release st k r) = s_wants st /\ s_waiting (release st k r) = s_waiting st.
Proof. unfold release. destruct (alookup N.eqb k (s_blocked st)) as [[c t]|]; cbn; auto. Qed.

Lemma sstep_l_inv Sz st op : Inv st -> Inv (fst (sstep_l Sz st op)).
Proof.
  intros H. unfold sstep_l. destruct (s_panic st); [exact H|].
  destruct op as [p|p w order|bl|p|k r|]; cbn [fst].
  - apply newconn_inv, H.
  - apply pim_inv, H.
  - exact H.
  - apply disc_inv, H.
  - unfold Inv. destruct (release_frame st k r) as [-> ->]. exact H.
  - apply do_poll_inv, H.
Qed.

Lemma sinit_inv : Inv sinit.
Proof.
  unfold Inv, WS, WT, Link, waitsP, wantsP; cbn. repeat split; try constructor; try discriminate.
  - intros (l & H & _). discriminate.
  - intros (l & H & _). discriminate.
Qed.

Lemma srun_l_from_inv Sz ops : forall st, Inv st -> Inv (snd (srun_l_from Sz st ops)).
Proof.
  induction ops as [|op ops IH]; intros st H; cbn [srun_l_from]; [exact H|].
  pose proof (sstep_l_inv Sz st op H) as H1. destruct (sstep_l Sz st op) as [st' out]. cbn [fst] in H1.
  specialize (IH st' H1). destruct (srun_l_from Sz st' ops) as [h st'']. exact IH.
Qed.

(* the observable run is the erasure of the labelled run *)
Lemma srun_from_erase Sz ops : forall st,
  srun_from Sz st ops =
  (map (fun h => map erase (snd h)) (fst (srun_l_from Sz st ops)), snd (srun_l_from Sz st ops)).
Proof.
  induction ops as [|op ops IH]; intros st; cbn [srun_from srun_l_from]; [reflexivity|].
  unfold sstep. destruct (sstep_l Sz st op) as [st' out]. rewrite IH.
  destruct (srun_l_from Sz st' ops) as [h st'']. reflexivity.
Qed.

Lemma srun_erase Sz ops :
  srun Sz ops = (map (fun h => map erase (snd h)) (fst (srun_l Sz ops)), snd (srun_l Sz ops)).
Proof. apply srun_from_erase. Qed.

Lemma srun_inv Sz ops : Inv (snd (srun Sz ops)).
Proof. rewrite srun_erase. cbn [snd]. apply srun_l_from_inv, sinit_inv. Qed.

Lemma srun_l_from_app Sz ops1 : forall st ops2,
  srun_l_from Sz st (ops1 ++ ops2) =
  (fst (srun_l_from Sz st ops1) ++ fst (srun_l_from Sz (snd (srun_l_from Sz st ops1)) ops2),
   snd (srun_l_from Sz (snd (srun_l_from Sz st ops1)) ops2)).
Proof.
  induction ops1 as [|op ops IH]; intros st ops2; cbn [srun_l_from app].
  - cbn. destruct (srun_l_from Sz st ops2); reflexivity.
  - destruct (sstep_l Sz st op) as [st' out]. rewrite IH.
    destruct (srun_l_from Sz st' ops) as [h st'']. cbn [fst snd]. reflexivity.
Qed.

Lemma srun_l_snoc Sz ops op :
  srun_l Sz (ops ++ [op]) =
  (fst (srun_l Sz ops) ++ [(op, snd (sstep_l Sz (snd (srun_l Sz ops)) op))],
   fst (sstep_l Sz (snd (srun_l Sz ops)) op)).
Proof.
  unfold srun_l. rewrite srun_l_from_app. cbn [srun_l_from].
  destruct (sstep_l Sz (snd (srun_l_from Sz sinit ops)) op) as [st' out]. reflexivity.
Qed.

Lemma srun_l_ops Sz ops : forall st, map fst (fst (srun_l_from Sz st ops)) = ops.
Proof.
  induction ops as [|op ops IH]; intros st; cbn [srun_l_from]; [reflexivity|].
  destruct (sstep_l Sz st op) as [st' out]. specialize (IH st').
  destruct (srun_l_from Sz st' ops) as [h st'']. cbn in *. rewrite IH. reflexivity.
Qed.

(* ---------------------------------------------------------------- panics *)
Lemma cid_read_no_panic Sz bs : 32 <= Sz -> cid_read_bytes Sz bs <> RPanic.
Proof.
  intros HS. unfold cid_read_bytes.
  destruct (uv_decode bs) as [ver r1| | |]; try discriminate.
  destruct (uv_decode r1) as [codec r2| | |]; try discriminate.
  destruct ((ver =? 18) && (codec =? 32)).
  - destruct (take 32 r2); [|discriminate]. destruct (Sz <? 32) eqn:E; [lia|discriminate].
  - destruct (version_of_u64 ver) as [[|]|]; try discriminate.
    destruct (uv_decode r2) as [code r3| | |]; try discriminate.
    destruct (uv_decode r3) as [size r4| | |]; try discriminate.
    destruct ((Sz <? size) || (255 <? size)); [discriminate|].
    destruct (take size r4); discriminate.
Qed.

Lemma full_collect_no_panic Sz es : 32 <= Sz -> forall acc, full_collect Sz es acc <> None.
Proof.
  intros HS. induction es as [|e es IH]; intros acc; cbn [full_collect]; [discriminate|].
  destruct (MAX <=? len acc); [discriminate|]. destruct (e_cancel e); [apply IH|].
  pose proof (cid_read_no_panic Sz (e_block e) HS) as Hp.
  destruct (cid_read_bytes Sz (e_block e)); [apply IH|apply IH|congruence].
Qed.

Lemma upd_parse_no_panic Sz es : 32 <= Sz -> upd_parse Sz es <> None.
Proof.
  intros HS. induction es as [|e es IH]; cbn [upd_parse]; [discriminate|].
  pose proof (cid_read_no_panic Sz (e_block e) HS) as Hp.
  destruct (cid_read_bytes Sz (e_block e)); [|apply IH|congruence].
  destruct (upd_parse Sz es); [discriminate|congruence].
Qed.

Lemma process_wantlist_no_panic Sz old w : 32 <= Sz -> process_wantlist Sz old w <> PwPanic.
Proof.
  intros HS. unfold process_wantlist. destruct (w_full w).
  - pose proof (full_collect_no_panic Sz (w_entries w) HS []) as H.
    destruct (full_collect Sz (w_entries w) []); [discriminate|congruence].
  - pose proof (upd_parse_no_panic Sz (w_entries w) HS) as H.
    destruct (upd_parse Sz (w_entries w)) as [pes|]; [|congruence].
    destruct (upd_cancel _ old []) as [s1 removed]. destruct (upd_add _ s1 []) as [s2 added]. discriminate.
Qed.

Lemma do_poll_panic st : s_panic (fst (do_poll st)) = s_panic st.
Proof.
  unfold do_poll.
  pose proof (fold_run_task_frame (s_ready st)
    (MkS (s_wants st) (s_waiting st) (s_outq st) [] (s_blocked st) (s_next_call st) (s_panic st) (s_bad_order st)) [])
    as (_ & _ & Hp & _).
  cbn zeta in Hp. destruct (fold_left run_task (s_ready st) _) as [st1 out1]. cbn [fst s_panic] in Hp.
  unfold update_handlers. destruct (fold_left uh_block (s_outq st1) _) as [[wants wt] bat]. cbn. exact Hp.
Qed.

Lemma sstep_l_no_panic Sz st op : 32 <= Sz -> s_panic st = false -> s_panic (fst (sstep_l Sz st op)) = false.
Proof.
  intros HS Hp. unfold sstep_l. rewrite Hp. destruct op as [p|p w order|bl|p|k r|]; cbn [fst].
  - unfold new_connection. destruct (alookup N.eqb p (s_wants st)); assumption.
  - unfold process_incoming_message. destruct (alookup N.eqb p (s_wants st)) as [old|]; [|assumption].
    pose proof (process_wantlist_no_panic Sz old w HS). destruct (process_wantlist Sz old w); [congruence|assumption].
  - assumption.
  - unfold peer_disconnected. destruct (alookup N.eqb p (s_wants st)); assumption.
  - unfold release. destruct (alookup N.eqb k (s_blocked st)) as [[c t]|]; assumption.
  - rewrite do_poll_panic. assumption.
Qed.

Lemma sstep_l_panicked Sz st op : s_panic st = true -> sstep_l Sz st op = (st, []).
Proof. intros H. unfold sstep_l. rewrite H. reflexivity. Qed.

Lemma srun_l_from_panicked Sz ops : forall st, s_panic st = true -> snd (srun_l_from Sz st ops) = st.
Proof.
  induction ops as [|op ops IH]; intros st H; cbn [srun_l_from]; [reflexivity|].
  rewrite (sstep_l_panicked _ _ _ H). specialize (IH st H). destruct (srun_l_from Sz st ops). exact IH.
Qed.

Lemma srun_l_no_panic Sz ops : 32 <= Sz -> s_panic (snd (srun_l Sz ops)) = false.
Proof.
  intros HS. induction ops as [|op ops IH] using rev_ind; [reflexivity|].
  rewrite srun_l_snoc. cbn [snd]. apply sstep_l_no_panic; assumption.
Qed.

(* a run whose final state has not panicked never panicked *)
Lemma srun_l_snoc_panic Sz ops op :
  s_panic (snd (srun_l Sz (ops ++ [op]))) = false -> s_panic (snd (srun_l Sz ops)) = false.
Proof.
  rewrite srun_l_snoc. cbn [snd]. destruct (s_panic (snd (srun_l Sz ops))) eqn:E; [|reflexivity].
  rewrite (sstep_l_panicked _ _ _ E). cbn. congruence.
Qed.

(* ---------------------------------------------------------------- want-set keys = connected peers *)
Lemma fold_uh_keys q : forall acc,
  map fst (fst (fst (fold_left uh_block q acc))) = map fst (fst (fst acc)).
Proof.
  induction q as [|b q IH]; intros acc; cbn [fold_left]; [reflexivity|]. rewrite IH.
  destruct acc as [[wants wt] bat]. unfold uh_block.
  destruct (alookup cid_eqb (fst b) wt); cbn [fst]; [apply fold_want_remove_keys|reflexivity].
Qed.

Lemma do_poll_keys st : map fst (s_wants (fst (do_poll st))) = map fst (s_wants st).
Proof.
  unfold do_poll.
  pose proof (fold_run_task_frame (s_ready st)
    (MkS (s_wants st) (s_waiting st) (s_outq st) [] (s_blocked st) (s_next_call st) (s_panic st) (s_bad_order st)) [])
    as (Hw & _).
  cbn zeta in Hw. destruct (fold_left run_task (s_ready st) _) as [st1 out1]. cbn [fst s_wants] in Hw.
  unfold update_handlers.
  pose proof (fold_uh_keys (s_outq st1) (s_wants st1, s_waiting st1, [])) as Hk.
  destruct (fold_left uh_block (s_outq st1) _) as [[wants wt] bat]. cbn in *. congruence.
Qed.

Lemma adel_keys_filter {V} p (m : list (N * V)) :
  map fst (adel N.eqb p m) = filter (fun q => negb (q =? p)) (map fst m).
Proof.
  unfold adel. induction m as [|[k v] m IH]; cbn; [reflexivity|].
  rewrite (N.eqb_sym k p). destruct (p =? k); cbn; rewrite IH; reflexivity.
Qed.

Lemma filter_notin p (l : list N) : ~ In p l -> filter (fun q => negb (q =? p)) l = l.
Proof.
  induction l as [|x l IH]; cbn; [reflexivity|]. intros H.
  destruct (x =? p) eqn:E; [exfalso; apply H; left; lia|]. cbn. rewrite IH; tauto.
Qed.

Lemma existsb_keys {V} p (m : list (N * V)) :
  existsb (N.eqb p) (map fst m) = match alookup N.eqb p m with Some _ => true | None => false end.
Proof. induction m as [|[k v] m IH]; cbn; [reflexivity|]. destruct (p =? k); cbn; auto. Qed.

Lemma step_keys Sz st op :
  s_panic st = false ->
  map fst (s_wants (fst (sstep_l Sz st op))) = conn_op (map fst (s_wants st)) op.
Proof.
  intros Hp. unfold sstep_l. rewrite Hp. destruct op as [p|p w order|bl|p|k r|]; cbn [fst conn_op].
  - unfold new_connection. rewrite existsb_keys. destruct (alookup N.eqb p (s_wants st)); [reflexivity|].
    cbn. rewrite map_app. reflexivity.
  - unfold process_incoming_message. destruct (alookup N.eqb p (s_wants st)) as [old|] eqn:E; [|reflexivity].
    destruct (process_wantlist Sz old w); [reflexivity|]. cbn [s_wants].
    apply (keys_aset_present N.eqb). rewrite E. discriminate.
  - reflexivity.
  - unfold peer_disconnected. destruct (alookup N.eqb p (s_wants st)) as [old|] eqn:E.
    + cbn [s_wants]. apply adel_keys_filter.
    + symmetry. apply filter_notin. apply (alookup_None N.eqb Neqb_spec). assumption.
  - destruct (release_frame st k r) as [-> _]. reflexivity.
  - apply do_poll_keys.
Qed.

Lemma connected_snoc ops op : connected (ops ++ [op]) = conn_op (connected ops) op.
Proof. unfold connected. rewrite fold_left_app. reflexivity. Qed.

Lemma keys_connected Sz ops :
  s_panic (snd (srun_l Sz ops)) = false -> map fst (s_wants (snd (srun_l Sz ops))) = connected ops.
Proof.
  induction ops as [|op ops IH] using rev_ind; intros Hp; [reflexivity|].
  pose proof (srun_l_snoc_panic _ _ _ Hp) as Hp0. rewrite srun_l_snoc. cbn [snd].
  rewrite step_keys by assumption. rewrite IH by assumption. symmetry. apply connected_snoc.
Qed.

Lemma conn_op_notin p cs op : ~ In p cs -> op <> SNewConn p -> ~ In p (conn_op cs op).
Proof.
  intros Hni Hop. destruct op as [q| | |q| |]; cbn [conn_op]; try assumption.
  - destruct (existsb (N.eqb q) cs); [assumption|]. rewrite in_app_iff. cbn.
    intros [H|[H|[]]]; [contradiction|subst; congruence].
  - rewrite filter_In. tauto.
Qed.

Lemma connected_released ops1 p ops2 :
  (forall op, In op ops2 -> op <> SNewConn p) -> ~ In p (connected (ops1 ++ SDisconnected p :: ops2)).
Proof.
  intros Hno. unfold connected. rewrite fold_left_app. cbn [fold_left].
  set (cs := conn_op (fold_left conn_op ops1 []) (SDisconnected p)).
  assert (Hcs : ~ In p cs).
  { unfold cs. cbn [conn_op]. rewrite filter_In. intros [_ H]. rewrite N.eqb_refl in H. discriminate. }
  clearbody cs. revert cs Hcs. induction ops2 as [|op ops IH]; intros cs Hcs; cbn [fold_left]; [assumption|].
  apply IH.
  - intros op' Hin. apply Hno. right. assumption.
  - apply conn_op_notin; [assumption|]. apply Hno. left. reflexivity.
Qed.

(* ---------------------------------------------------------------- anatomy of one poll *)
Lemma hits_In res c d : In (c, d) (hits res) <-> In (c, SHit d) res.
Proof.
  induction res as [|[c0 r0] res IH]; cbn [hits]; [cbn; tauto|].
  destruct r0 as [d0| |]; cbn; rewrite ?IH; intuition congruence.
Qed.

Definition is_get (o : lout) : Prop := exists k c, o = LGet k c.

(* what polling the ready tasks does: finished tasks append their hits to the queue, the others
   start one get each and park *)
Definition finished_hits (ready : list task) : list (cid * bytes) :=
  flat_map (fun t => match t_todo t with [] => hits (t_done t) | _ => [] end) ready.

Lemma fold_run_task_outq ready : forall st out,
  s_outq (fst (fold_left run_task ready (st, out))) = s_outq st ++ finished_hits ready.
Proof.
  induction ready as [|t ready IH]; intros st out; cbn [fold_left finished_hits flat_map].
  - cbn. rewrite app_nil_r. reflexivity.
  - destruct (t_todo t) as [|c rest] eqn:Et.
    + rewrite (run_task_nil _ _ _ Et), IH. cbn [s_outq]. rewrite app_assoc. reflexivity.
    + rewrite (run_task_cons _ _ _ _ _ Et), IH. reflexivity.
Qed.

Lemma fold_run_task_out_mono ready : forall st out o,
  In o out -> In o (snd (fold_left run_task ready (st, out))).
Proof.
  induction ready as [|t ready IH]; intros st out o Ho; cbn [fold_left]; [assumption|].
  destruct (t_todo t) as [|c rest] eqn:Et.
  - rewrite (run_task_nil _ _ _ Et). apply IH, Ho.
  - rewrite (run_task_cons _ _ _ _ _ Et). apply IH. rewrite in_app_iff. auto.
Qed.

Lemma fold_run_task_out_gets ready : forall st out o,
  In o (snd (fold_left run_task ready (st, out))) -> In o out \/ is_get o.
Proof.
  induction ready as [|t ready IH]; intros st out o; cbn [fold_left]; [auto|].
  destruct (t_todo t) as [|c rest] eqn:Et.
  - rewrite (run_task_nil _ _ _ Et). apply IH.
  - rewrite (run_task_cons _ _ _ _ _ Et). intros H. apply IH in H. destruct H as [H|H]; [|auto].
    rewrite in_app_iff in H. cbn in H. destruct H as [H|[<-|[]]]; [auto|]. right. eexists _, _. reflexivity.
Qed.

Lemma fold_run_task_blocked_old ready : forall st out x,
  In x (s_blocked st) -> In x (s_blocked (fst (fold_left run_task ready (st, out)))).
Proof.
  induction ready as [|t ready IH]; intros st out x Hx; cbn [fold_left]; [assumption|].
  destruct (t_todo t) as [|c rest] eqn:Et.
  - rewrite (run_task_nil _ _ _ Et). apply IH. assumption.
  - rewrite (run_task_cons _ _ _ _ _ Et). apply IH. cbn [s_blocked]. rewrite in_app_iff. auto.
Qed.

(* every unfinished ready task ends up parked, with the results it already had *)
Lemma fold_run_task_blocked_new ready : forall st out t c rest,
  In t ready -> t_todo t = c :: rest ->
  exists k, In (k, (c, MkTask (t_peer t) (t_done t) rest))
               (s_blocked (fst (fold_left run_task ready (st, out)))).
Proof.
  induction ready as [|t0 ready IH]; intros st out t c rest Hin Et; cbn [fold_left]; [destruct Hin|].
  destruct Hin as [->|Hin].
  - rewrite (run_task_cons _ _ _ _ _ Et). exists (s_next_call st).
    apply fold_run_task_blocked_old. cbn [s_blocked]. rewrite in_app_iff. cbn. auto.
  - destruct (t_todo t0) as [|c0 rest0] eqn:Et0.
    + rewrite (run_task_nil _ _ _ Et0). eapply IH; eassumption.
    + rewrite (run_task_cons _ _ _ _ _ Et0). eapply IH; eassumption.
Qed.

(* every parked task was parked before or comes from a ready task that started the get just now *)
Lemma fold_run_task_blocked_inv ready : forall st out k c t',
  In (k, (c, t')) (s_blocked (fst (fold_left run_task ready (st, out)))) ->
  In (k, (c, t')) (s_blocked st) \/
  (exists t, In t ready /\ t_todo t = c :: t_todo t' /\ t_done t' = t_done t /\ t_peer t' = t_peer t /\
             In (LGet k c) (snd (fold_left run_task ready (st, out)))).
Proof.
  induction ready as [|t ready IH]; intros st out k c t'; cbn [fold_left]; [auto|].
  destruct (t_todo t) as [|c0 rest] eqn:Et.
  - rewrite (run_task_nil _ _ _ Et). intros H. apply IH in H. cbn [s_blocked] in H.
    destruct H as [H|(t0 & Ht0 & Hx)]; [auto|]. right. exists t0. cbn [In]. tauto.
  - rewrite (run_task_cons _ _ _ _ _ Et). intros H. apply IH in H. cbn [s_blocked] in H.
    destruct H as [H|(t0 & Ht0 & Hx)].
    + rewrite in_app_iff in H. cbn [In] in H. destruct H as [H|[H|[]]]; [auto|].
      injection H as <- <- <-. right. exists t. cbn [t_todo t_done t_peer In].
      repeat split; auto. apply fold_run_task_out_mono. rewrite in_app_iff. cbn. auto.
    + right. exists t0. cbn [In]. tauto.
Qed.

Lemma fold_run_task_calls ready : forall st out,
  s_next_call st <= s_next_call (fst (fold_left run_task ready (st, out))).
Proof.
  induction ready as [|t ready IH]; intros st out; cbn [fold_left]; [cbn; lia|].
  destruct (t_todo t) as [|c0 rest] eqn:Et.
  - rewrite (run_task_nil _ _ _ Et). etransitivity; [|apply IH]. cbn. lia.
  - rewrite (run_task_cons _ _ _ _ _ Et). etransitivity; [|apply IH]. cbn. lia.
Qed.

Definition poll_start (st : sstate) : sstate :=
  MkS (s_wants st) (s_waiting st) (s_outq st) [] (s_blocked st) (s_next_call st) (s_panic st) (s_bad_order st).

Definition send_of (pb : peer * list (cid * bytes)) : lout := LSend (fst pb) (snd pb).

Lemma do_poll_spec st :
  Inv st ->
  exists st1 out1 wants' wt' bat,
    fold_left run_task (s_ready st) (poll_start st, []) = (st1, out1) /\
    do_poll st = (MkS wants' wt' [] [] (s_blocked st1) (s_next_call st1) (s_panic st) (s_bad_order st),
                  out1 ++ map send_of bat) /\
    UH (s_wants st) (s_outq st ++ finished_hits (s_ready st)) (wants', wt', bat) /\
    (forall o, In o out1 -> is_get o).
Proof.
  intros (H1 & H2 & H3). unfold do_poll. fold (poll_start st).
  pose proof (fold_run_task_frame (s_ready st) (poll_start st) []) as (Hf1 & Hf2 & Hf3 & Hf4 & Hf5).
  pose proof (fold_run_task_outq (s_ready st) (poll_start st) []) as Hq.
  pose proof (fold_run_task_out_gets (s_ready st) (poll_start st) []) as Hg.
  cbn zeta in *.
  destruct (fold_left run_task (s_ready st) (poll_start st, [])) as [st1 out1].
  cbn [fst snd poll_start s_wants s_waiting s_panic s_bad_order s_ready s_outq] in *.
  unfold update_handlers.
  pose proof (UH_fold (s_wants st1) (s_outq st1) [] _ (UH_init (s_wants st1) (s_waiting st1)
     ltac:(rewrite Hf1; exact H1) ltac:(rewrite Hf2; exact H2) ltac:(rewrite Hf1, Hf2; exact H3))) as HU.
  destruct (fold_left uh_block (s_outq st1) (s_wants st1, s_waiting st1, [])) as [[wants' wt'] bat].
  exists st1, out1, wants', wt', bat. split; [reflexivity|]. split.
  - rewrite Hf3, Hf4, Hf5. reflexivity.
  - split.
    + cbn [app] in HU. rewrite Hf1, Hq in HU. exact HU.
    + intros o Ho. destruct (Hg o Ho) as [[]|H]. exact H.
Qed.

(* ---------------------------------------------------------------- wants = sview *)
Lemma option_map_id {A} (v : option A) : option_map (fun x => x) v = v.
Proof. destruct v; reflexivity. Qed.

Lemma sview_out_gets p outs : forall v, (forall o, In o outs -> is_get o) -> fold_left (sview_out p) outs v = v.
Proof.
  induction outs as [|o outs IH]; intros v H; cbn [fold_left]; [reflexivity|].
  destruct (H o (or_introl eq_refl)) as (k & c & ->). cbn [sview_out]. apply IH.
  intros o' Ho'. apply H. right. assumption.
Qed.

Lemma sview_out_sends p bat : forall v,
  bsorted bat -> fold_left (sview_out p) (map send_of bat) v = option_map (rm_blocks (bget p bat)) v.
Proof.
  induction bat as [|[k l] bat IH]; intros v Hs; cbn [map fold_left].
  - unfold bget. cbn. destruct v; reflexivity.
  - destruct Hs as [Hk Hs]. cbn [send_of sview_out fst snd]. rewrite IH by assumption.
    unfold bget at 2. cbn [alookup]. rewrite (N.eqb_sym p k). destruct (k =? p) eqn:E.
    + assert (k = p) by lia. subst k.
      assert (alookup N.eqb p bat = None) as Hn.
      { apply (alookup_None N.eqb Neqb_spec). intros Hin. specialize (Hk _ Hin). lia. }
      unfold bget. rewrite Hn. destruct v; reflexivity.
    + reflexivity.
Qed.

Lemma sstep_l_view Sz st op p :
  Inv st -> s_panic (fst (sstep_l Sz st op)) = false ->
  alookup N.eqb p (s_wants (fst (sstep_l Sz st op))) =
  sview_step Sz p (alookup N.eqb p (s_wants st)) (op, snd (sstep_l Sz st op)).
Proof.
  intros HI Hp'. unfold sview_step. cbn [fst snd].
  assert (Hp : s_panic st = false).
  { destruct (s_panic st) eqn:E; [|reflexivity]. rewrite (sstep_l_panicked _ _ _ E) in Hp'. cbn in Hp'. congruence. }
  unfold sstep_l in *. rewrite Hp in *.
  destruct op as [q|q w order|bl|q|k r|]; cbn [fst snd fold_left sview_op] in *.
  - unfold new_connection. destruct (q =? p) eqn:E.
    + assert (q = p) by lia. subst q. destruct (alookup N.eqb p (s_wants st)) eqn:El; [assumption|].
      cbn [s_wants]. rewrite (alookup_app N.eqb), El. cbn. rewrite N.eqb_refl. reflexivity.
    + destruct (alookup N.eqb q (s_wants st)) eqn:El; [reflexivity|].
      cbn [s_wants]. rewrite (alookup_app N.eqb). destruct (alookup N.eqb p (s_wants st)); [reflexivity|].
      cbn. rewrite (N.eqb_sym p q), E. reflexivity.
  - unfold process_incoming_message in *. destruct (q =? p) eqn:E.
    + assert (q = p) by lia. subst q. destruct (alookup N.eqb p (s_wants st)) as [old|] eqn:El; [|rewrite El; reflexivity].
      destruct (process_wantlist Sz old w) as [|new adds rems] eqn:Epw; [cbn in Hp'; discriminate|].
      cbn [s_wants option_map]. rewrite nset_eq.
      destruct HI as ((_ & Hs) & _). destruct (Hs _ _ El) as [Hnd Hlen].
      destruct (process_wantlist_spec _ _ _ _ _ _ Hnd Hlen Epw) as [_ ->]. reflexivity.
    + destruct (alookup N.eqb q (s_wants st)) as [old|] eqn:El; [|reflexivity].
      destruct (process_wantlist Sz old w) as [|new adds rems] eqn:Epw; [reflexivity|].
      cbn [s_wants]. apply nset_neq. lia.
  - reflexivity.
  - unfold peer_disconnected. destruct (q =? p) eqn:E.
    + assert (q = p) by lia. subst q. destruct (alookup N.eqb p (s_wants st)) eqn:El; [|assumption].
      cbn [s_wants]. apply ndel_eq.
    + destruct (alookup N.eqb q (s_wants st)) eqn:El; [|reflexivity]. cbn [s_wants]. apply ndel_neq. lia.
  - destruct (release_frame st k r) as [-> _]. reflexivity.
  - destruct (do_poll_spec st HI) as (st1 & out1 & wants' & wt' & bat & _ & Hdp & HU & Hg).
    rewrite Hdp. cbn [fst snd s_wants]. rewrite fold_left_app, (sview_out_gets p out1 _ Hg).
    rewrite sview_out_sends by (apply (uh_sorted _ _ _ HU)).
    apply (uh_wants _ _ _ HU).
Qed.

Lemma sview_snoc Sz p hist h : sview Sz p (hist ++ [h]) = sview_step Sz p (sview Sz p hist) h.
Proof. unfold sview. rewrite fold_left_app. reflexivity. Qed.

Lemma wants_sview Sz ops p :
  s_panic (snd (srun_l Sz ops)) = false ->
  alookup N.eqb p (s_wants (snd (srun_l Sz ops))) = sview Sz p (fst (srun_l Sz ops)).
Proof.
  induction ops as [|op ops IH] using rev_ind; intros Hp; [reflexivity|].
  pose proof (srun_l_snoc_panic _ _ _ Hp) as Hp0. rewrite srun_l_snoc in *. cbn [fst snd] in *.
  rewrite sview_snoc, <- IH by assumption.
  apply sstep_l_view; [|assumption]. apply srun_l_from_inv, sinit_inv.
Qed.
