(* Corr_srvsplit.v — engine `srvsplit`: the server handler's batching at the 4 MiB boundary, at the level of
   SIZES (blocks of up to a few MiB cannot be written out as Coq lists).  The harness queues blocks of given
   prefix / data lengths on the real ServerConnectionHandler over an all-accepting stream and reports, for every
   frame written, the number of blocks in it and its byte length; the model replays `blocks_fitting_in_message`
   on the sizes.  `bfit_sizes_spec` ties the size-level function to ServerHandler.bfit_go. *)
From BS Require Export Bytes Varint Proto Qp ProtoCodec FramedWrite ServerHandler.
Open Scope N_scope.

Definition field_size (l : N) : N := if l =? 0 then 0 else 1 + sizeof_len l.
(* 1 + sizeof_len(block.get_size()) for a block with the given prefix / data lengths *)
Definition blk_size_of (pd : N * N) : N := 1 + sizeof_len (field_size (fst pd) + field_size (snd pd)).

Fixpoint bfit_sizes (size n : N) (l : list N) : option N :=
  match l with
  | [] => None
  | s :: l' => let size' := size + s in
               if MAX_MESSAGE_SIZE <? size' then Some (N.max n 1) else bfit_sizes size' (n + 1) l'
  end.

Lemma bfit_sizes_spec (block_size : blk -> N) (bs : list blk) : forall size n,
  bfit_go block_size size n bs = bfit_sizes size n (map block_size bs).
Proof.
  induction bs as [|b bs IH]; intros size n; cbn [bfit_go bfit_sizes map]; [reflexivity|].
  destruct (MAX_MESSAGE_SIZE <? size + block_size b); [reflexivity|apply IH].
Qed.

Definition fitting (l : list N) : N := match bfit_sizes 0 0 l with Some k => k | None => len l end.

(* number of bytes of the unsigned-varint length prefix *)
Definition uv_len (n : N) : N := len (uv_encode n).

(* successive messages: (number of blocks, frame length = prefix + body) *)
Fixpoint split_all (fuel : nat) (l : list N) : list (N * N) :=
  match fuel, l with
  | S f, _ :: _ =>
      let k := fitting l in
      let now := firstn (N.to_nat k) l in
      let body := fold_right N.add 0 now in
      (k, uv_len body + body) :: split_all f (skipn (N.to_nat k) l)
  | _, _ => []
  end.

Definition sin := list (N * N).            (* (prefix length, data length) of the queued blocks, one batch *)
Definition sout := list (N * N).           (* per frame written: (blocks in it, frame bytes) *)
Definition case := (sin * sout)%type.

Definition model (x : sin) : sout := split_all (length x) (map blk_size_of x).
Definition corr (x : case) : bool :=
  list_eqb (fun a b => (fst a =? fst b) && (snd a =? snd b)) (model (fst x)) (snd x).

(* C09 outbound on the implementation's frames: no frame body above the limit unless it holds a single block;
   nothing dropped or duplicated (block counts add up; the harness checks contents separately and reports a
   frame of 0 blocks if the payloads are not the queued blocks in order) *)
Definition oracle_C09 (x : case) : bool :=
  forallb (fun f => let body := snd f - uv_len (snd f - uv_len (snd f)) in
                    ((snd f <=? MAX_MESSAGE_SIZE + uv_len MAX_MESSAGE_SIZE) && (0 <? fst f)) || (fst f =? 1)) (snd x)
  && (fold_right N.add 0 (map fst (snd x)) =? len (fst x))
  && forallb (fun f => 0 <? fst f) (snd x).
Definition oracle (x : case) : bool := oracle_C09 x.
