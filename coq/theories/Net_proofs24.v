(* Net_proofs24.v — package J, part 2: the LIVENESS invariant of reachable nets (`net_live`).

   `net_ok` (Net_proofs5) says that what is in a net is well formed; it does not say that what waits will be woken.
   The fair round can only finish the work of a net if
     * every client task that is parked (store call started, not released) has its call among the node's outstanding
       store calls, and no two tasks share a call number (`TL`);
     * every task with something to do is in the ready-to-run queue (`INVQ`, Client_proofs8);
     * every server task parked on a store call has that call among the node's outstanding store calls (`SLk`);
     * every peer record whose handler is busy (`SsSending`) has its wantlist on the wire (`WL`).
   All four hold in every reachable net (`net_live_step`, `reachable_live`). *)
From BS Require Import Server_lemmas Server_inv Server_proofs Server_live Wantlist_proofs Client_proofs Client_proofs2
  Client_proofs3 Client_proofs4 Client_proofs5 Client_proofs7 Client_proofs8 Net Net_proofs2 Net_proofs3 Net_proofs4
  Net_proofs5 Net_proofs6 Net_proofs7 Net_proofs11.
From Coq Require Import ZArith ZifyBool ZifyN ZifyNat Lia.
Open Scope N_scope.

(* ---------- client tasks against the numbers of the outstanding client store calls ---------- *)
Definition TLt (calls : list N) (ts : list (N * Client.task)) (nc : N) : Prop :=
  (forall tid t m, In (tid, t) ts -> t_call t = Some m -> m < nc) /\
  (forall tid1 t1 tid2 t2 m, In (tid1, t1) ts -> In (tid2, t2) ts -> t_call t1 = Some m -> t_call t2 = Some m -> tid1 = tid2) /\
  (forall tid t, In (tid, t) ts -> needy t = false -> exists m, t_call t = Some m /\ In m calls).

Definition TL (calls : list N) (c : cstate) : Prop := TLt calls (cs_tasks c) (cs_next_call c).

Lemma TLt_sub calls calls' ts ts' nc nc' :
  (forall e, In e ts' -> In e ts) -> nc <= nc' -> (forall m, In m calls -> In m calls') ->
  TLt calls ts nc -> TLt calls' ts' nc'.
Proof.
  intros Hs Hn Hc (H1 & H2 & H3). split; [|split].
  - intros tid t m Hin E. specialize (H1 tid t m (Hs _ Hin) E). lia.
  - intros tid1 t1 tid2 t2 m A B. apply H2; auto.
  - intros tid t Hin Hn0. destruct (H3 tid t (Hs _ Hin) Hn0) as (m & E & Hm). eauto.
Qed.

(* the tasks are the old ones with the same call (a task that stopped being needy was not needy), or new and needy *)
Lemma TLt_map calls ts ts' nc :
  (forall k t', In (k, t') ts' ->
     (exists t, In (k, t) ts /\ t_call t' = t_call t /\ (needy t' = false -> needy t = false)) \/
     (t_call t' = None /\ needy t' = true)) ->
  TLt calls ts nc -> TLt calls ts' nc.
Proof.
  intros Hm (H1 & H2 & H3). split; [|split].
  - intros tid t' m Hin E. destruct (Hm _ _ Hin) as [(t & Hin0 & Ec & _)|[Ec _]]; [|congruence].
    apply (H1 tid t m Hin0). congruence.
  - intros tid1 t1 tid2 t2 m A B E1 E2.
    destruct (Hm _ _ A) as [(u1 & A0 & Ec1 & _)|[Ec1 _]]; [|congruence].
    destruct (Hm _ _ B) as [(u2 & B0 & Ec2 & _)|[Ec2 _]]; [|congruence].
    apply (H2 tid1 u1 tid2 u2 m A0 B0); congruence.
  - intros tid t' Hin Hn. destruct (Hm _ _ Hin) as [(t & Hin0 & Ec & Hnn)|[_ Hnd]]; [|congruence].
    destruct (H3 tid t Hin0 (Hnn Hn)) as (m & E & Hmc). exists m. split; [congruence | exact Hmc].
Qed.

Lemma poll_task_start nc t o : poll_task nc t = TpStart o -> t_call t = None /\ out_nums o = [nc].
Proof.
  unfold poll_task. destruct (t_kind t).
  - destruct (t_aborted t); [discriminate|]. destruct (t_call t); [destruct (t_result t); discriminate|]. intros [= <-]. auto.
  - destruct (t_call t); [destruct (t_result t) as [[]|]; discriminate|]. intros [= <-]. auto.
Qed.

Lemma TL_poll_next rq : forall ts nc calls,
  NoDup (map fst ts) -> TLt calls ts nc ->
  let '(ts', rq', nc', outs, res) := poll_next rq ts nc in TLt (calls ++ out_nums outs) ts' nc'.
Proof.
  induction rq as [|tid0 rq IH]; intros ts nc calls Hnd HT; cbn [poll_next].
  - cbn. rewrite app_nil_r. exact HT.
  - destruct (al_find N.eqb tid0 ts) as [t0|] eqn:Ef; [|apply IH; assumption].
    pose proof (al_find_some_in _ Neqb_spec _ _ _ Ef) as Hin0.
    destruct (poll_task nc t0) as [r|o|] eqn:Ep.
    + cbn. rewrite app_nil_r. eapply TLt_sub; [| |intros m H; exact H|exact HT]; [|lia].
      intros e He. unfold al_remove in He. apply filter_In in He. apply He.
    + destruct (poll_task_start _ _ _ Ep) as [Hc0 Ho].
      set (ts1 := al_modify N.eqb tid0 (start_task nc) ts).
      assert (Hnd1 : NoDup (map fst ts1)) by (unfold ts1; rewrite al_modify_keys; exact Hnd).
      assert (Hfrom : forall k t1, In (k, t1) ts1 ->
                exists t, In (k, t) ts /\ ((k <> tid0 /\ t1 = t) \/ (k = tid0 /\ t = t0 /\ t1 = start_task nc t0))).
      { intros k t1 H. apply in_al_modify in H. destruct H as (t & Hin & ->). exists t. split; [exact Hin|].
        destruct (tid0 =? k) eqn:E.
        - apply N.eqb_eq in E. subst k. assert (t = t0) by (apply (NoDup_keys_in_eq ts tid0); [exact Hnd | exact Hin | exact Hin0]). subst t. right. auto.
        - apply N.eqb_neq in E. left. split; [congruence | reflexivity]. }
      assert (HT1 : TLt (calls ++ out_nums o) ts1 (nc + 1)).
      { destruct HT as (H1 & H2 & H3). rewrite Ho. split; [|split].
        - intros k t1 m Hin E. destruct (Hfrom _ _ Hin) as (t & Hin' & [[_ ->]|(_ & -> & ->)]).
          + specialize (H1 _ _ _ Hin' E). lia.
          + cbn in E. injection E as <-. lia.
        - intros k1 t1 k2 t2 m A B E1 E2.
          destruct (Hfrom _ _ A) as (u1 & A' & [[N1 ->]|(-> & -> & ->)]); destruct (Hfrom _ _ B) as (u2 & B' & [[N2 ->]|(-> & -> & ->)]).
          * eapply H2; eassumption.
          * cbn in E2. injection E2 as <-. specialize (H1 _ _ _ A' E1). lia.
          * cbn in E1. injection E1 as <-. specialize (H1 _ _ _ B' E2). lia.
          * reflexivity.
        - intros k t1 Hin Hn. destruct (Hfrom _ _ Hin) as (t & Hin' & [[_ ->]|(_ & -> & ->)]).
          + destruct (H3 _ _ Hin' Hn) as (m & E & Hm). exists m. split; [exact E | apply in_app_iff; auto].
          + exists nc. split; [reflexivity | apply in_app_iff; right; left; reflexivity]. }
      specialize (IH ts1 (nc + 1) (calls ++ out_nums o) Hnd1 HT1).
      destruct (poll_next rq ts1 (nc + 1)) as [[[[ts' rq'] nc'] outs'] res].
      rewrite out_nums_app, app_assoc. exact IH.
    + apply IH; assumption.
Qed.

(* one CPoll *)
Definition RT (s : cstate) (outs : list cout) (s' : cstate) : Prop :=
  forall calls, INVT s -> TL calls s -> INVT s' /\ TL (calls ++ out_nums outs) s'.

Lemma RT_refl s : RT s [] s.
Proof. intros calls HT H. cbn. rewrite app_nil_r. auto. Qed.

Lemma RT_trans s o1 s1 o2 s2 : RT s o1 s1 -> RT s1 o2 s2 -> RT s (o1 ++ o2) s2.
Proof.
  intros A B calls HT H. destruct (A calls HT H) as [HT1 H1]. destruct (B _ HT1 H1) as [HT2 H2].
  rewrite out_nums_app, app_assoc. auto.
Qed.

Lemma RT_same s outs s' :
  cs_tasks s' = cs_tasks s -> cs_next_call s' = cs_next_call s -> cs_next_task s' = cs_next_task s -> out_nums outs = [] -> RT s outs s'.
Proof.
  intros E1 E2 E3 E4 calls HT H. rewrite E4, app_nil_r. unfold TL, INVT. rewrite E1, E2, E3. auto.
Qed.

Lemma RT_after_tasks s : RT s (tasks_outs s) (after_tasks s).
Proof.
  intros calls HT H. split; [apply INVT_after_tasks, HT|].
  unfold TL, tasks_outs, after_tasks in *.
  pose proof (TL_poll_next (cs_ready s) (cs_tasks s) (cs_next_call s) calls (proj1 HT) H) as Hp.
  destruct (poll_next (cs_ready s) (cs_tasks s) (cs_next_call s)) as [[[[ts rq] nc] outs] res]. exact Hp.
Qed.

Lemma RT_poll_iter ch s : RT s (snd (fst (poll_iter ch s))) (fst (fst (poll_iter ch s))).
Proof.
  destruct (poll_iter_cases ch s) as [(ev & q & Hq & ->) | [(Hq & Ht & ->) | [(r & Hq & Ht & Hr & ->) | (Hq & Ht & Hr & ->)]]];
    cbn [fst snd].
  - apply RT_same; try reflexivity. destruct ev; reflexivity.
  - apply RT_same; reflexivity.
  - apply (RT_trans s (tasks_outs s) (after_tasks s)); [apply RT_after_tasks|].
    destruct (handle_result_frame (after_tasks s) r) as (E1 & _ & _ & _ & _ & E6 & E7).
    apply RT_same; try assumption. apply handle_result_nums.
  - apply (RT_trans s (tasks_outs s) (after_tasks s)); [apply RT_after_tasks|].
    destruct (update_handlers_frame (after_tasks s) ch) as (E1 & _ & _ & _ & _ & _ & _ & _ & _ & E10 & E11).
    apply RT_same; try assumption. apply bad_nums, update_handlers_outs_bad.
Qed.

Lemma RT_poll s ch : RT s (snd (c_poll s ch)) (fst (c_poll s ch)).
Proof.
  unfold c_poll. apply (poll_loop_rel RT RT_trans); [|intros; apply RT_poll_iter].
  intros s0. apply RT_same; reflexivity.
Qed.

(* the other client operations *)
Lemma needy_aborted t : needy (Client.MkTask (t_kind t) (t_call t) (t_result t) true) = false -> needy t = false.
Proof.
  unfold needy, poll_task. cbn [t_kind t_call t_result t_aborted]. destruct (t_kind t); [discriminate|]. auto.
Qed.

Lemma TL_abort calls s tid : TL calls s -> TL calls (abort_task s tid).
Proof.
  unfold abort_task. destruct (al_mem N.eqb tid (cs_tasks s)); [|auto]. unfold TL. cbn [set_tasks cs_tasks cs_next_call].
  apply TLt_map. intros k t' Hin. apply in_al_modify in Hin. destruct Hin as (t & Hin & ->). left. exists t. split; [exact Hin|].
  destruct (tid =? k); [|auto]. split; [reflexivity | apply needy_aborted].
Qed.

Lemma TL_push calls s k : TL calls s -> TL calls (push_task s k).
Proof.
  unfold TL. cbn [push_task cs_tasks cs_next_call]. apply TLt_map. intros tid t' Hin. apply in_app_iff in Hin.
  destruct Hin as [Hin|[[= <- <-]|[]]]; [left; exists t'; auto|]. right. split; [reflexivity|]. destruct k; reflexivity.
Qed.

Lemma TL_frame calls s s' : cs_tasks s' = cs_tasks s -> cs_next_call s' = cs_next_call s -> TL calls s -> TL calls s'.
Proof. unfold TL. intros -> ->. auto. Qed.

Lemma TL_cstep calls s o :
  (forall ch, o <> CPoll ch) -> (forall m r, o <> CRelease m r) -> TL calls s -> TL calls (fst (cstep s o)).
Proof.
  intros Hp Hr H. destruct o; cbn [cstep fst].
  - unfold c_new_conn. destruct (al_mem N.eqb p (cs_peers s)); eapply TL_frame; try exact H; reflexivity.
  - unfold c_conn_closed. destruct (al_find N.eqb p (cs_peers s)); [destruct (p_conns (remove_conn c p0))|]; try exact H;
      eapply TL_frame; try exact H; reflexivity.
  - unfold c_get. destruct c as [x|]; cbn [fst].
    + eapply TL_frame; [..|apply (TL_push calls (bump_qid s) (TGet (cs_next_qid s) x))]; try reflexivity.
      eapply TL_frame; try exact H; reflexivity.
    + eapply TL_frame; try exact H; reflexivity.
  - rewrite c_cancel_unfold. cbv zeta.
    assert (H1 : TL calls (cancel_abort s q)).
    { unfold cancel_abort. destruct (al_find N.eqb q (cs_abort s)) as [tid|]; [|exact H]. apply TL_abort. eapply TL_frame; try exact H; reflexivity. }
    destruct (find_query q (cs_c2q (cancel_abort s q))) as [[x qs]|]; [destruct (swap_remove_q q qs)|]; try exact H1;
      eapply TL_frame; try exact H1; reflexivity.
  - unfold c_incoming. destruct (al_find N.eqb p (cs_peers s)) as [ps|]; [|exact H].
    match goal with |- context [ia_panic ?a] => destruct (ia_panic a); [|destruct (ia_new a) eqn:En] end; cbn [fst].
    + eapply TL_frame; try exact H; reflexivity.
    + eapply TL_frame; try exact H; reflexivity.
    + apply TL_push. eapply TL_frame; try exact H; reflexivity.
  - eapply TL_frame; try exact H; reflexivity.
  - exfalso. eapply Hr. reflexivity.
  - eapply TL_frame; try exact H; reflexivity.
  - exfalso. eapply Hp. reflexivity.
  - eapply TL_frame; try exact H; reflexivity.
Qed.

Lemma needy_released t r : needy (Client.MkTask (t_kind t) (t_call t) (Some r) (t_aborted t)) = false -> t_call t = None.
Proof.
  unfold needy, poll_task. cbn [t_kind t_call t_result t_aborted].
  destruct (t_kind t); [destruct (t_aborted t); [discriminate|]|]; destruct (t_call t); try reflexivity; try discriminate.
  destruct r; discriminate.
Qed.

Lemma TL_release calls calls' s m r :
  INVT s -> (forall m', In m' calls -> m' <> m -> In m' calls') -> TL calls s -> TL calls' (c_release s m r).
Proof.
  intros HT Hc H. unfold c_release. destruct (find (call_is m) (cs_tasks s)) as [[tid t0]|] eqn:Ef.
  - apply find_some in Ef. destruct Ef as [Hin0 Hci]. unfold call_is in Hci. cbn [snd] in Hci.
    destruct (t_call t0) as [m0|] eqn:Ec0; [|discriminate]. destruct (t_result t0); [discriminate|]. apply N.eqb_eq in Hci. subst m0.
    destruct H as (H1 & H2 & H3). unfold TL. cbn [set_tasks cs_tasks cs_next_call].
    assert (Hfrom : forall k t1, In (k, t1) (al_modify N.eqb tid (fun t => Client.MkTask (t_kind t) (t_call t) (Some r) (t_aborted t)) (cs_tasks s)) ->
              exists t, In (k, t) (cs_tasks s) /\ t_call t1 = t_call t /\
                        ((k <> tid /\ t1 = t) \/ (k = tid /\ t = t0 /\ t1 = Client.MkTask (t_kind t0) (t_call t0) (Some r) (t_aborted t0)))).
    { intros k t1 Hin. apply in_al_modify in Hin. destruct Hin as (t & Hin & ->). exists t. split; [exact Hin|].
      destruct (tid =? k) eqn:E.
      - apply N.eqb_eq in E. subst k. assert (t = t0) by (apply (NoDup_keys_in_eq (cs_tasks s) tid); [exact (proj1 HT) | exact Hin | exact Hin0]). subst t.
        split; [reflexivity|]. right. auto.
      - apply N.eqb_neq in E. split; [reflexivity|]. left. split; [congruence | reflexivity]. }
    split; [|split].
    + intros k t1 m1 Hin E. destruct (Hfrom _ _ Hin) as (t & Hin' & Ec & _). apply (H1 k t m1 Hin'). congruence.
    + intros k1 t1 k2 t2 m1 A B E1 E2. destruct (Hfrom _ _ A) as (u1 & A' & Ec1 & _). destruct (Hfrom _ _ B) as (u2 & B' & Ec2 & _).
      apply (H2 k1 u1 k2 u2 m1 A' B'); congruence.
    + intros k t1 Hin Hn. destruct (Hfrom _ _ Hin) as (t & Hin' & Ec & [[Hne ->]|(-> & -> & ->)]).
      * destruct (H3 _ _ Hin' Hn) as (m1 & E & Hm). exists m1. split; [exact E|]. apply Hc; [exact Hm|].
        intros ->. apply Hne. apply (H2 k t tid t0 m Hin' Hin0 E Ec0).
      * apply needy_released in Hn. congruence.
  - destruct H as (H1 & H2 & H3). split; [exact H1|]. split; [exact H2|].
    intros tid t Hin Hn. destruct (H3 _ _ Hin Hn) as (m1 & E & Hm). exists m1. split; [exact E|]. apply Hc; [exact Hm|].
    intros ->. destruct (not_needy_pending t Hn) as (n0 & En0 & Er & _).
    assert (Hx : call_is m (tid, t) = true) by (unfold call_is; cbn [snd]; rewrite E, Er; apply N.eqb_refl).
    pose proof (find_none _ _ Ef _ Hin) as Hy. congruence.
Qed.

(* ---------- the server's parked tasks against the node's outstanding store calls ---------- *)
Definition SLk (n : node) : Prop :=
  s_panic (n_server n) = false ->
  forall k x, In (k, x) (s_blocked (n_server n)) -> exists c, In (KSGet k c) (n_calls n).

(* what one node needs so that its parked work is woken *)
Definition NL (n : node) : Prop :=
  INVQ (n_client n) /\ CC n /\ TL (client_nums (n_calls n)) (n_client n) /\ SLk n.

Lemma do_poll_blocked_eq st :
  s_blocked (fst (Server.do_poll st)) = s_blocked (fst (fold_left run_task (s_ready st) (poll_start st, []))).
Proof.
  unfold Server.do_poll. fold (poll_start st). destruct (fold_left run_task (s_ready st) (poll_start st, [])) as [st1 out1].
  unfold Server.update_handlers. destruct (fold_left uh_block (s_outq st1) (s_wants st1, s_waiting st1, [])) as [[wants wt] bat]. reflexivity.
Qed.

Lemma do_poll_out_prefix st o :
  In o (snd (fold_left run_task (s_ready st) (poll_start st, []))) -> In o (snd (Server.do_poll st)).
Proof.
  unfold Server.do_poll. fold (poll_start st). destruct (fold_left run_task (s_ready st) (poll_start st, [])) as [st1 out1].
  destruct (Server.update_handlers st1) as [st2 out2]. cbn [snd]. intros H. apply in_app_iff. auto.
Qed.

Lemma client_nums_In m l : In m (client_nums l) <-> exists x, In x l /\ In m (call_num x).
Proof. unfold client_nums. apply in_flat_map. Qed.

Lemma client_nums_keep k l z m :
  nth_error l k = Some z -> In m (client_nums l) -> ~ In m (call_num z) -> In m (client_nums (remove_nth k l)).
Proof.
  intros Hn Hm Hz. apply client_nums_In in Hm. destruct Hm as (x & Hx & Hmx). apply client_nums_In. exists x. split; [|exact Hmx].
  eapply remove_nth_keeps; [exact Hx | exact Hn|]. intros ->. contradiction.
Qed.

Section NodeLive.
  Variables (Sz : N) (Hh : hash_fn).
  Hypothesis HSz : 32 <= Sz.

  Definition RL (n n' : node) : Prop := NL n -> NL n'.

  Lemma RL_refl n : RL n n.
  Proof. intros H. exact H. Qed.
  Lemma RL_trans a b c : RL a b -> RL b c -> RL a c.
  Proof. unfold RL. auto. Qed.

  (* a server step that is not a poll or a release keeps the parked tasks *)
  Lemma srv_keeps_blocked st op :
    match op with SPoll | SRelease _ _ => False | _ => True end ->
    s_panic (fst (srv Sz st op)) = false -> s_panic st = false /\ s_blocked (fst (srv Sz st op)) = s_blocked st.
  Proof.
    intros Hop. unfold srv, sstep_l. destruct (s_panic st) eqn:Ep; [cbn [fst]; congruence|]. intros _. split; [reflexivity|].
    destruct op; try contradiction; cbn [fst].
    - unfold new_connection. destruct (alookup N.eqb p (s_wants st)); reflexivity.
    - unfold process_incoming_message. destruct (alookup N.eqb p (s_wants st)); [|reflexivity].
      destruct (process_wantlist Sz l w); reflexivity.
    - reflexivity.
    - unfold peer_disconnected. destruct (alookup N.eqb p (s_wants st)); reflexivity.
  Qed.

  Lemma SLk_keep n n' :
    n_calls n' = n_calls n ->
    (s_panic (n_server n') = false -> s_panic (n_server n) = false /\ s_blocked (n_server n') = s_blocked (n_server n)) ->
    SLk n -> SLk n'.
  Proof. intros Ec Hs H Hp k x Hin. destruct (Hs Hp) as [Hp0 Eb]. rewrite Ec. rewrite Eb in Hin. exact (H Hp0 k x Hin). Qed.

  (* a client step that is neither a poll nor a release, any blocked-keeping server step, same calls *)
  Lemma NL_client_op n o sv' st' :
    (forall ch, o <> CPoll ch) -> (forall m r, o <> CRelease m r) ->
    (s_panic sv' = false -> s_panic (n_server n) = false /\ s_blocked sv' = s_blocked (n_server n)) ->
    NL n -> NL (MkNode (fst (cstep (n_client n) o)) sv' st' (n_calls n)).
  Proof.
    intros Hp Hr Hs (HQ & HC & HT & HS). split; [|split; [|split]]; cbn [n_client n_calls n_server].
    - apply INVQ_step; [exact (proj2 HC) | exact HQ].
    - apply CC_cstep; assumption.
    - apply TL_cstep; assumption.
    - eapply SLk_keep; [| |exact HS]; [reflexivity | exact Hs].
  Qed.

  Lemma RL_report n p c r : RL n (node_report n p c r).
  Proof. intros H. unfold node_report. apply NL_client_op; try discriminate; auto. Qed.
  Lemma RL_advance n ms : RL n (node_advance n ms).
  Proof. intros H. unfold node_advance. apply NL_client_op; try discriminate; auto. Qed.
  Lemma RL_get n c : RL n (node_get Sz n c).
  Proof. intros H. unfold node_get. apply NL_client_op; try discriminate; auto. Qed.
  Lemma RL_cancel n q : RL n (node_cancel n q).
  Proof. intros H. unfold node_cancel. apply NL_client_op; try discriminate; auto. Qed.
  Lemma RL_conn n j : RL n (node_connected Sz n j CONN).
  Proof. intros H. unfold node_connected. apply NL_client_op; try discriminate; [|exact H]. apply srv_keeps_blocked. exact I. Qed.
  Lemma RL_disc n j : RL n (node_disconnected Sz n j CONN).
  Proof. intros H. unfold node_disconnected. apply NL_client_op; try discriminate; [|exact H]. apply srv_keeps_blocked. exact I. Qed.
  Lemma RL_put n c d : RL n (node_put n c d).
  Proof. intros (HQ & HC & HT & HS). split; [exact HQ|]. split; [exact HC|]. split; [exact HT | exact HS]. Qed.
  Lemma RL_evict n c : RL n (node_evict n c).
  Proof. intros (HQ & HC & HT & HS). split; [exact HQ|]. split; [exact HC|]. split; [exact HT | exact HS]. Qed.

  Lemma RL_incoming n p m : RL n (fst (node_incoming Sz Hh n p m)).
  Proof.
    intros H. unfold node_incoming. destruct (process_message Sz Hh m) as [inc| |]; cbn [fst]; try exact H.
    assert (Hsv : s_panic (match in_server inc with
                           | Some w => fst (srv Sz (n_server n) (SMsg p w match full_collect Sz (w_entries w) [] with Some l => l | None => [] end))
                           | None => n_server n end) = false ->
                  s_panic (n_server n) = false /\
                  s_blocked (match in_server inc with
                           | Some w => fst (srv Sz (n_server n) (SMsg p w match full_collect Sz (w_entries w) [] with Some l => l | None => [] end))
                           | None => n_server n end) = s_blocked (n_server n)).
    { destruct (in_server inc) as [w|]; [apply srv_keeps_blocked; exact I | auto]. }
    destruct (in_client inc) as [cm|].
    - destruct (cstep (n_client n) (CIncoming p (map to_pres (cm_presences cm)) (cm_blocks cm))) as [c1 o1] eqn:E. cbn [fst].
      replace c1 with (fst (cstep (n_client n) (CIncoming p (map to_pres (cm_presences cm)) (cm_blocks cm)))) by (rewrite E; reflexivity).
      apply NL_client_op; try discriminate; assumption.
    - cbn [fst]. destruct H as (HQ & HC & HT & HS). split; [exact HQ|]. split; [split; [exact (proj1 HC) | exact (proj2 HC)]|].
      split; [exact HT|]. eapply SLk_keep; [| |exact HS]; [reflexivity | exact Hsv].
  Qed.

  Lemma RL_store n k : RL n (node_store Sz n k).
  Proof.
    intros H. pose proof (CC_store Sz n k (proj1 (proj2 H))) as HC'. destruct H as (HQ & HC & HT & HS).
    unfold node_store in *. destruct (nth_error (n_calls n) (N.to_nat k)) as [call|] eqn:En; [|split; [exact HQ|]; split; [exact HC|]; split; [exact HT | exact HS]].
    destruct call as [m c|m bl|m c].
    - split; [|split; [exact HC'|split]]; cbn [n_client n_calls n_server].
      + apply INVQ_step; [exact (proj2 HC) | exact HQ].
      + cbn [cstep fst]. apply (TL_release (client_nums (n_calls n))); [exact (proj2 HC)| |exact HT].
        intros m' Hm' Hne. eapply client_nums_keep; [exact En | exact Hm'|]. cbn. intros [->|[]]. congruence.
      + intros Hp k0 x Hin. cbn [n_server n_calls] in *. destruct (HS Hp k0 x Hin) as (c0 & Hc0). exists c0.
        eapply remove_nth_keeps; [exact Hc0 | exact En | discriminate].
    - split; [|split; [exact HC'|split]]; cbn [n_client n_calls n_server].
      + apply INVQ_step; [exact (proj2 HC) | exact HQ].
      + cbn [cstep fst]. apply (TL_release (client_nums (n_calls n))); [exact (proj2 HC)| |exact HT].
        intros m' Hm' Hne. eapply client_nums_keep; [exact En | exact Hm'|]. cbn. intros [->|[]]. congruence.
      + intros Hp k0 x Hin. cbn [n_server n_calls] in *. destruct (HS Hp k0 x Hin) as (c0 & Hc0). exists c0.
        eapply remove_nth_keeps; [exact Hc0 | exact En | discriminate].
    - split; [exact HQ|]. split; [exact HC'|]. split; cbn [n_client n_calls n_server].
      + destruct HT as (H1 & H2 & H3). split; [exact H1|]. split; [exact H2|]. intros tid t Hin Hn.
        destruct (H3 tid t Hin Hn) as (m1 & E & Hm1). exists m1. split; [exact E|]. eapply client_nums_keep; [exact En | exact Hm1|]. cbn. tauto.
      + intros Hp k0 x Hin. cbn [n_server n_calls] in *. unfold srv, sstep_l in *.
        destruct (s_panic (n_server n)) eqn:Ep0; [cbn [fst] in Hp; congruence|]. cbn [fst] in Hin.
        assert (Hk : k0 <> m /\ In (k0, x) (s_blocked (n_server n))).
        { unfold release in Hin. destruct (alookup N.eqb m (s_blocked (n_server n))) as [[c' t']|] eqn:El.
          - cbn [s_blocked] in Hin. unfold adel in Hin. apply filter_In in Hin. destruct Hin as [Hin Hne]. cbn [fst] in Hne.
            apply negb_true_iff, N.eqb_neq in Hne. split; [congruence | exact Hin].
          - split; [|exact Hin]. intros ->. apply (alookup_None N.eqb Neqb_spec) in El. apply El. apply (in_map fst) in Hin. exact Hin. }
        destruct Hk as [Hne Hin0]. destruct (HS Ep0 k0 x Hin0) as (c0 & Hc0). exists c0.
        eapply remove_nth_keeps; [exact Hc0 | exact En|]. intros [= -> _]. congruence.
  Qed.

  Lemma RL_poll n : RL n (fst (node_poll Sz n)).
  Proof.
    intros H. pose proof (CC_poll Sz HSz n (proj1 (proj2 H))) as HC'. destruct H as (HQ & HC & HT & HS).
    unfold node_poll in *. destruct (cstep (n_client n) (CPoll [])) as [c1 o1] eqn:E1.
    pose proof (RT_poll (n_client n) [] (client_nums (n_calls n)) (proj2 HC) HT) as [HT1 HL1]. cbn [cstep] in E1. rewrite E1 in HT1, HL1. cbn [fst snd] in HT1, HL1.
    assert (HQ1 : INVQ c1).
    { replace c1 with (fst (cstep (n_client n) (CPoll []))) by (cbn [cstep]; rewrite E1; reflexivity). apply INVQ_step; [exact (proj2 HC) | exact HQ]. }
    destruct (cstep c1 CTakeNewBlocks) as [c2 o2] eqn:E2. cbn [cstep c_take_new_blocks] in E2. injection E2 as <- <-.
    set (s1 := match cl_new_blocks [ONewBlocks (cs_new_blocks c1)] with [] => n_server n
               | _ :: _ => fst (srv Sz (n_server n) (SNewBlocks (cl_new_blocks [ONewBlocks (cs_new_blocks c1)]))) end) in *.
    destruct (srv Sz s1 SPoll) as [s2 o3] eqn:E3. cbn [fst] in *.
    split; [|split; [exact HC'|split]]; cbn [n_client n_calls n_server].
    - eapply INVQ_same; [| |exact HQ1]; reflexivity.
    - rewrite !client_nums_app, client_nums_cl, client_nums_sv, app_nil_r. eapply TL_frame; [| |exact HL1]; reflexivity.
    - intros Hp k0 x Hin. cbn [n_server n_calls] in *.
      assert (H1 : s_panic s1 = false -> s_panic (n_server n) = false /\ s_blocked s1 = s_blocked (n_server n)).
      { unfold s1. destruct (cl_new_blocks [ONewBlocks (cs_new_blocks c1)]); [auto|]. apply srv_keeps_blocked. exact I. }
      unfold srv, sstep_l in E3. destruct (s_panic s1) eqn:Ep1; [injection E3 as <- <-; congruence|].
      destruct (H1 eq_refl) as [Hp0 Eb1].
      assert (E2 : s2 = fst (Server.do_poll s1)) by (rewrite E3; reflexivity).
      assert (E4 : o3 = snd (Server.do_poll s1)) by (rewrite E3; reflexivity).
      rewrite E2, do_poll_blocked_eq in Hin. destruct x as [c0 t0].
      apply fold_run_task_blocked_inv in Hin. cbn [fst snd poll_start s_blocked] in Hin. destruct Hin as [Hin|(t & _ & _ & _ & _ & Hg)].
      + rewrite Eb1 in Hin. destruct (HS Hp0 k0 _ Hin) as (c' & Hc'). exists c'. apply in_app_iff. auto.
      + exists c0. apply in_app_iff. right. apply in_app_iff. right. apply sv_calls_In. rewrite E4. apply do_poll_out_prefix. exact Hg.
  Qed.
End NodeLive.

(* ---------- busy peer records ---------- *)
Definition busy (c : cstate) (p : peer) : Prop := exists ps, In (p, ps) (cs_peers c) /\ p_ss ps <> SsReady.

(* the busy records of n' are busy records of n *)
Definition PSS (n n' : node) : Prop := forall p, busy (n_client n') p -> busy (n_client n) p.

Lemma PSS_refl n : PSS n n.
Proof. intros p H. exact H. Qed.
Lemma PSS_trans a b c : PSS a b -> PSS b c -> PSS a c.
Proof. unfold PSS. auto. Qed.

Lemma busy_same c c' p : cs_peers c' = cs_peers c -> busy c' p -> busy c p.
Proof. unfold busy. intros ->. auto. Qed.

Lemma busy_modify c p k f :
  (forall ps, p_ss (f ps) = p_ss ps \/ p_ss (f ps) = SsReady) ->
  busy (set_peers c (al_modify N.eqb k f (cs_peers c))) p -> busy c p.
Proof.
  intros Hf (ps' & Hin & Hb). cbn [set_peers cs_peers] in Hin. apply in_al_modify in Hin. destruct Hin as (ps & Hin & ->).
  exists ps. split; [exact Hin|]. destruct (k =? p); [|exact Hb]. destruct (Hf ps) as [E|E]; congruence.
Qed.

Lemma busy_cstep c o p :
  match o with CPoll _ => False | CReport _ _ r => r = RpReady | _ => True end ->
  busy (fst (cstep c o)) p -> busy c p.
Proof.
  intros Ho. destruct o; cbn [cstep fst]; try contradiction.
  - unfold c_new_conn. destruct (al_mem N.eqb p0 (cs_peers c)).
    + apply busy_modify. intros ps. left. reflexivity.
    + intros (ps' & Hin & Hb). cbn [set_peers cs_peers] in Hin. apply in_peers_ins in Hin. destruct Hin as [[= -> ->]|Hin]; [cbn in Hb; congruence|].
      exists ps'. auto.
  - unfold c_conn_closed. destruct (al_find N.eqb p0 (cs_peers c)) as [ps0|]; [|auto].
    destruct (p_conns (remove_conn c0 ps0)).
    + intros (ps' & Hin & Hb). cbn [set_peers cs_peers] in Hin. unfold al_remove in Hin. apply filter_In in Hin. exists ps'. split; [apply Hin | exact Hb].
    + apply busy_modify. intros ps. left. reflexivity.
  - apply busy_same. unfold c_get. destruct c0; reflexivity.
  - apply busy_same. rewrite c_cancel_unfold. cbv zeta. destruct (cancel_abort_frame c q) as (_ & _ & _ & _ & Ep & _).
    destruct (find_query q (cs_c2q (cancel_abort c q))) as [[x qs]|]; [destruct (swap_remove_q q qs)|]; cbn; exact Ep.
  - unfold c_incoming. destruct (al_find N.eqb p0 (cs_peers c)) as [ps0|]; [|auto].
    match goal with |- context [ia_panic ?a] => destruct (ia_panic a); [|destruct (ia_new a)] end; cbn [fst];
      intros (ps' & Hin & Hb); cbn [push_task cs_peers] in Hin; apply in_al_modify in Hin; destruct Hin as (ps & Hin & ->);
      exists ps; (split; [exact Hin|]); destruct (p0 =? p); exact Hb.
  - subst r. unfold c_report. apply busy_modify. intros ps. destruct (report_accepted ps c0); [right | left]; reflexivity.
  - apply busy_same. unfold c_release. destruct (find (call_is call) (cs_tasks c)) as [[tid t]|]; reflexivity.
  - apply busy_same. reflexivity.
  - apply busy_same. reflexivity.
Qed.

Lemma on_node_wire_w s i f : wire_w (on_node s i f) = wire_w s.
Proof. unfold on_node. destruct (get_node s i); reflexivity. Qed.

Section NetLive.
  Variables (Sz : N) (Hh : hash_fn).
  Hypothesis HSz : 32 <= Sz.

  (* ---------- the node-level part ---------- *)
  Definition net_nl (s : net) : Prop := forall k n, get_node s k = Some n -> NL n.

  Lemma net_nl_step s o : net_ok Sz Hh s -> nop_wf Sz o -> net_nl s -> net_nl (fst (nstep Sz Hh s o)).
  Proof.
    intros Hok Ho H k n' Hk.
    pose proof (nstep_movedR Sz Hh HSz RL True RL_refl RL_trans (RL_poll Sz HSz) RL_report (RL_store Sz) (RL_incoming Sz Hh) RL_advance
                  (fun _ => RL_conn Sz) (fun _ => RL_disc Sz) (fun _ n c _ => RL_get Sz n c) (fun _ => RL_cancel) (fun _ => RL_put) (fun _ => RL_evict)
                  s o Hok Ho (or_intror (or_intror I))) as Hm.
    destruct (Hm k n' Hk) as (n & Hn & HR). apply HR, (H _ _ Hn).
  Qed.

  Lemma NL_init : NL node_init.
  Proof.
    split; [exact (INVQ_run true [])|]. split; [|split].
    - split; cbn; [apply in_range_nil | split; cbn; [constructor | intros tid []]].
    - split; [|split]; cbn; [intros tid t m [] | intros tid1 t1 tid2 t2 m [] | intros tid t []].
    - intros _ k x [].
  Qed.

  Lemma net_nl_init n : net_nl (net_init n).
  Proof. intros k nd Hg. unfold get_node in Hg. cbn [nodes net_init] in Hg. apply nth_error_In, repeat_spec in Hg. subst nd. apply NL_init. Qed.

  (* ---------- a busy record has its wantlist on the wire ---------- *)
  Definition WL (s : net) : Prop :=
    forall i n p, get_node s i = Some n -> busy (n_client n) p -> exists m, In m (wire_w s) /\ w_between i p m = true.

  Lemma WL_moved s s' :
    movedR PSS s s' -> (forall m, In m (wire_w s) -> In m (wire_w s')) -> WL s -> WL s'.
  Proof.
    intros Hm Hw H i n' p Hg Hb. destruct (Hm i n' Hg) as (n & Hn & HP). destruct (H i n p Hn (HP p Hb)) as (m & Hin & Hbt). eauto.
  Qed.

  Lemma PSS_client n o sv st calls :
    match o with CPoll _ => False | CReport _ _ r => r = RpReady | _ => True end ->
    PSS n (MkNode (fst (cstep (n_client n) o)) sv st calls).
  Proof. intros Ho p. cbn [n_client]. apply busy_cstep, Ho. Qed.

  Lemma PSS_incoming n p m : PSS n (fst (node_incoming Sz Hh n p m)).
  Proof.
    unfold node_incoming. destruct (process_message Sz Hh m) as [inc| |]; cbn [fst]; try apply PSS_refl.
    destruct (in_client inc) as [cm|].
    - destruct (cstep (n_client n) (CIncoming p (map to_pres (cm_presences cm)) (cm_blocks cm))) as [c1 o1] eqn:E. cbn [fst].
      replace c1 with (fst (cstep (n_client n) (CIncoming p (map to_pres (cm_presences cm)) (cm_blocks cm)))) by (rewrite E; reflexivity).
      apply PSS_client. exact I.
    - intros q H. exact H.
  Qed.

  Lemma PSS_store n k : PSS n (node_store Sz n k).
  Proof.
    unfold node_store. destruct (nth_error (n_calls n) (N.to_nat k)) as [[m c|m bl|m c]|]; try apply PSS_refl;
      try (apply PSS_client; exact I). intros q H. exact H.
  Qed.

  Lemma w_between_inj i p i' p' m : w_between i p m = true -> w_between i' p' m = true -> i = i' /\ p = p'.
  Proof. unfold w_between. rewrite !andb_true_iff, !N.eqb_eq. intros [<- <-] [<- <-]. auto. Qed.

  Lemma peer_in_connected s i n p ps :
    net_ok Sz Hh s -> get_node s i = Some n -> In (p, ps) (cs_peers (n_client n)) ->
    Net.connected s i p = true /\ peer_ok (cs_wl (n_client n)) ps.
  Proof.
    intros Hok Hg Hin. pose proof (no_nodes Sz Hh s Hok i n Hg) as Hn. split.
    - apply (nk_peers _ _ _ _ _ Hn). apply (in_map fst) in Hin. exact Hin.
    - eapply (ck_peers _ _ (nk_ck _ _ _ _ _ Hn)). exact Hin.
  Qed.

  Lemma WL_step s o : net_ok Sz Hh s -> WL s -> WL (fst (nstep Sz Hh s o)).
  Proof.
    intros Hok H. destruct o; cbn [nstep fst].
    - (* connect *)
      unfold do_connect. destruct (get_node s i) as [ni|] eqn:Ei; [|exact H]. destruct (get_node s j) as [nj|] eqn:Ej; [|exact H].
      destruct ((i =? j) || Net.connected s i j) eqn:E; [exact H|]. apply orb_false_iff in E. destruct E as [E _]. apply N.eqb_neq in E.
      apply (WL_moved s); [|intros m Hm; exact Hm|exact H]. eapply movedR_nodes; [reflexivity|].
      apply (movedR_two PSS PSS_refl PSS_trans s i j ni nj); try assumption; unfold node_connected; apply PSS_client; exact I.
    - (* disconnect *)
      unfold do_disconnect. destruct (get_node s i) as [ni|] eqn:Ei; [|exact H]. destruct (get_node s j) as [nj|] eqn:Ej; [|exact H].
      destruct (Net.connected s i j) eqn:E; [|exact H]. destruct (connected_neq Sz Hh HSz s i j Hok E) as (Hij & _).
      set (s2 := set_node (set_node s i (node_disconnected Sz ni j CONN)) j (node_disconnected Sz nj i CONN)).
      assert (Hm : movedR PSS s s2).
      { apply (movedR_two PSS PSS_refl PSS_trans s i j ni nj); try assumption; unfold node_disconnected; apply PSS_client; exact I. }
      assert (Hgone : forall a b na, (a = i /\ b = j) \/ (a = j /\ b = i) -> get_node s2 a = Some na -> ~ busy (n_client na) b).
      { intros a b na Hab Hg (ps' & Hin & _).
        assert (Hcl : exists n0, get_node s a = Some n0 /\ n_client na = c_conn_closed (n_client n0) b CONN).
        { unfold s2 in Hg. destruct Hab as [[-> ->]|[-> ->]].
          - rewrite get_set_neq in Hg by congruence. rewrite (get_set_eq _ _ _ _ Ei) in Hg. injection Hg as <-. exists ni. auto.
          - assert (Ej' : get_node (set_node s i (node_disconnected Sz ni j CONN)) j = Some nj) by (rewrite get_set_neq by exact Hij; exact Ej).
            rewrite (get_set_eq _ _ _ _ Ej') in Hg. injection Hg as <-. exists nj. auto. }
        destruct Hcl as (n0 & Hg0 & Ecl). rewrite Ecl in Hin. unfold c_conn_closed in Hin.
        destruct (al_find N.eqb b (cs_peers (n_client n0))) as [ps0|] eqn:Ef.
        - pose proof (al_find_some_in _ Neqb_spec _ _ _ Ef) as Hin0.
          destruct (peer_in_connected s a n0 b ps0 Hok Hg0 Hin0) as [_ (_ & _ & Hc)].
          unfold remove_conn at 1 in Hin. cbn [p_conns] in Hin. rewrite Hc in Hin. cbn in Hin.
          unfold al_remove in Hin. apply filter_In in Hin. destruct Hin as [_ Hne]. cbn [fst] in Hne. rewrite N.eqb_refl in Hne. discriminate.
        - apply (al_find_none _ Neqb_spec) in Ef. apply Ef. apply (in_map fst) in Hin. exact Hin. }
      intros a na b Hg Hb. change (get_node s2 a = Some na) in Hg. cbn [wire_w].
      destruct (Hm a na Hg) as (n0 & Hg0 & HP). destruct (H a n0 b Hg0 (HP b Hb)) as (m & Hin & Hbt).
      exists m. split; [|exact Hbt]. apply filter_In. split; [exact Hin|]. apply negb_true_iff. unfold w_touches.
      apply orb_false_iff. split.
      + destruct (w_between i j m) eqn:Eb; [|reflexivity]. destruct (w_between_inj _ _ _ _ _ Hbt Eb) as [-> ->].
        exfalso. apply (Hgone i j na); auto.
      + destruct (w_between j i m) eqn:Eb; [|reflexivity]. destruct (w_between_inj _ _ _ _ _ Hbt Eb) as [-> ->].
        exfalso. apply (Hgone j i na); auto.
    - apply (WL_moved s); [|intros m Hm; rewrite on_node_wire_w; exact Hm|exact H]. apply (movedR_on_node PSS PSS_refl). intros n. unfold node_get. apply PSS_client. exact I.
    - apply (WL_moved s); [|intros m Hm; rewrite on_node_wire_w; exact Hm|exact H]. apply (movedR_on_node PSS PSS_refl). intros n. unfold node_cancel. apply PSS_client. exact I.
    - apply (WL_moved s); [|intros m Hm; rewrite on_node_wire_w; exact Hm|exact H]. apply (movedR_on_node PSS PSS_refl). intros n p Hb. exact Hb.
    - apply (WL_moved s); [|intros m Hm; rewrite on_node_wire_w; exact Hm|exact H]. apply (movedR_on_node PSS PSS_refl). intros n p Hb. exact Hb.
    - (* advance *)
      apply (WL_moved s); [|intros m Hm; exact Hm|exact H]. intros k n' Hk. unfold get_node in Hk. cbn [nodes] in Hk. rewrite nth_error_map in Hk.
      destruct (nth_error (nodes s) (N.to_nat k)) as [n|] eqn:E; [|discriminate]. injection Hk as <-. exists n. split; [exact E|].
      unfold node_advance. apply PSS_client. exact I.
    - (* poll *)
      destruct (get_node s i) as [n|] eqn:Hg; [|unfold do_poll; rewrite Hg; exact H].
      destruct (do_poll_nf Sz Hh s i n Hok Hg) as (sC & outsC & [Hrun HCC Hto Heq]). cbn zeta in Heq. rewrite Heq. cbn [fst].
      intros a na b Hga Hb. cbn [wire_w]. unfold get_node in Hga. cbn [nodes] in Hga.
      destruct (N.eq_dec a i) as [->|Hne].
      + rewrite nth_set_nth_eq in Hga by (eapply get_node_lt; exact Hg). injection Hga as <-.
        destruct Hb as (ps' & Hin & Hbz). cbn [n_client set_peers cs_peers] in Hin. apply in_map_iff in Hin. destruct Hin as ([p0 psC] & Ef & HinC).
        assert (Hlink : peers_link (cs_peers (n_client n)) (cs_peers sC)).
        { eapply peers_link_trans; [apply after_timer_peers | apply (tasks_run_peers _ _ _ Hrun)]. }
        assert (Hbusy : p_ss psC <> SsReady -> fin1 (now s) (cs_wl sC) (p0, psC) = (p0, psC) /\ busy (n_client n) p0).
        { intros Hnr. split; [unfold fin1; cbn [fst snd]; destruct (p_ss psC); try reflexivity; congruence|].
          destruct (peers_link_in _ _ _ _ Hlink HinC) as (ps0 & Hin0 & (Hss0 & _)). exists ps0. split; [exact Hin0 | congruence]. }
        destruct (p_ss psC) eqn:Ess.
        * (* was Ready: it sent *)
          unfold fin1 in Ef. cbn [fst snd] in Ef. rewrite Ess in Ef.
          destruct (if p_send_full psC then wls_generate_full (p_wl psC) (cs_wl sC) else wls_generate_update (p_wl psC) (cs_wl sC)) as [es wls'] eqn:Eg.
          destruct (negb (p_send_full psC) && is_nil es) eqn:En; injection Ef as <- <-; [cbn in Hbz; congruence|].
          exists (w_of i (p0, CONN, p_send_full psC, es)). split.
          -- apply in_app_iff. right. apply in_map. apply in_flat_map. exists (p0, psC). split; [exact HinC|].
             unfold sends1. cbn [fst snd]. rewrite Ess, Eg, En. left. reflexivity.
          -- unfold w_between, w_of, x_peer. cbn. rewrite !N.eqb_refl. reflexivity.
        * destruct (Hbusy ltac:(discriminate)) as [Ef1 Hb0]. rewrite Ef1 in Ef. injection Ef as <- <-.
          destruct (H i n p0 Hg Hb0) as (m & Hm & Hbt); exists m; split; [apply in_app_iff; left; exact Hm | exact Hbt].
        * destruct (Hbusy ltac:(discriminate)) as [Ef1 Hb0]. rewrite Ef1 in Ef. injection Ef as <- <-.
          destruct (H i n p0 Hg Hb0) as (m & Hm & Hbt); exists m; split; [apply in_app_iff; left; exact Hm | exact Hbt].
        * destruct (Hbusy ltac:(discriminate)) as [Ef1 Hb0]. rewrite Ef1 in Ef. injection Ef as <- <-.
          destruct (H i n p0 Hg Hb0) as (m & Hm & Hbt); exists m; split; [apply in_app_iff; left; exact Hm | exact Hbt].
        * destruct (Hbusy ltac:(discriminate)) as [Ef1 Hb0]. rewrite Ef1 in Ef. injection Ef as <- <-.
          destruct (H i n p0 Hg Hb0) as (m & Hm & Hbt); exists m; split; [apply in_app_iff; left; exact Hm | exact Hbt].
      + rewrite nth_set_nth_neq in Hga by lia. destruct (H a na b Hga Hb) as (m & Hm & Hbt). exists m. split; [apply in_app_iff; left; exact Hm | exact Hbt].
    - apply (WL_moved s); [|intros m Hm; rewrite on_node_wire_w; exact Hm|exact H]. apply (movedR_on_node PSS PSS_refl). intros n. apply PSS_store.
    - (* deliver a wantlist *)
      unfold do_deliver_w. destruct (take_first (w_between i j) (wire_w s)) as [[m rest]|] eqn:Et; [|exact H].
      destruct (take_first_spec _ _ _ _ Et) as (Hm & Hbm & Hsub & Hrest).
      set (s0 := MkNet (nodes s) (conns s) rest (wire_b s) (now s)).
      assert (Hkeep : forall a b m', In m' (wire_w s) -> w_between a b m' = true -> (a, b) <> (i, j) -> In m' rest).
      { intros a b m' Hin Hbt Hne. destruct (Hrest m' Hin) as [->|Hr]; [|exact Hr]. destruct (w_between_inj _ _ _ _ _ Hbt Hbm) as [-> ->]. congruence. }
      (* the record (i, j) is busy in s only if both nodes exist and are distinct *)
      assert (Hij : forall ni, get_node s i = Some ni -> busy (n_client ni) j -> i <> j /\ get_node s j <> None).
      { intros ni Hgi (ps & Hin & _). destruct (peer_in_connected s i ni j ps Hok Hgi Hin) as [Hc _].
        destruct (connected_neq Sz Hh HSz s i j Hok Hc) as (A & _ & B). auto. }
      change (get_node s0 i) with (get_node s i). change (get_node s0 j) with (get_node s j).
      destruct (get_node s i) as [ni|] eqn:Ei.
      2:{ intros a na b Hga Hb. change (get_node s a = Some na) in Hga. destruct (H a na b Hga Hb) as (m' & Hin & Hbt). exists m'. split; [|exact Hbt].
          apply (Hkeep a b m' Hin Hbt). intros [= -> ->]. congruence. }
      destruct (get_node s j) as [nj|] eqn:Ej.
      2:{ intros a na b Hga Hb. change (get_node s a = Some na) in Hga. destruct (H a na b Hga Hb) as (m' & Hin & Hbt). exists m'. split; [|exact Hbt].
          apply (Hkeep a b m' Hin Hbt). intros [= -> ->]. rewrite Ei in Hga. injection Hga as <-. destruct (Hij ni eq_refl Hb) as [_ Hn]. congruence. }
      pose proof (PSS_incoming nj i (wantlist_message (wl_sdh (cs_wl (n_client ni))) (wm_full m) (wm_entries m))) as HPj.
      destruct (node_incoming Sz Hh nj i (wantlist_message (wl_sdh (cs_wl (n_client ni))) (wm_full m) (wm_entries m))) as [nj1 evs]. cbn [fst] in *.
      set (s1 := set_node s0 j nj1).
      assert (Hm1 : movedR PSS s s1).
      { eapply (movedR_trans PSS PSS_trans s s0 s1); [intros k n' Hk; exists n'; split; [exact Hk | apply PSS_refl]|].
        apply (movedR_set_node PSS PSS_refl s0 j nj nj1 Ej HPj). }
      assert (Hm2 : movedR PSS s1 (on_node s1 i (fun n => node_report n j CONN RpReady))).
      { apply (movedR_on_node PSS PSS_refl). intros n. unfold node_report. apply PSS_client. reflexivity. }
      intros a na b Hga Hb.
      destruct (Hm2 a na Hga) as (n1 & Hg1 & HP1). destruct (Hm1 a n1 Hg1) as (n0 & Hg0 & HP0).
      destruct (H a n0 b Hg0 (HP0 b (HP1 b Hb))) as (m' & Hin & Hbt). exists m'. split; [|exact Hbt].
      assert (Ew : wire_w (on_node s1 i (fun n => node_report n j CONN RpReady)) = rest).
      { unfold on_node. destruct (get_node s1 i); reflexivity. }
      rewrite Ew. apply (Hkeep a b m' Hin Hbt). intros [= -> ->].
      (* the record (i, j) is Ready after the report *)
      rewrite Ei in Hg0. injection Hg0 as <-. destruct (Hij ni eq_refl (HP0 j (HP1 j Hb))) as [Hne _].
      assert (Hg1' : get_node s1 i = Some ni) by (unfold s1; rewrite get_set_neq by congruence; exact Ei).
      unfold on_node in Hga. rewrite Hg1' in Hga. rewrite (get_set_eq _ _ _ _ Hg1') in Hga. injection Hga as <-.
      destruct Hb as (ps' & Hin' & Hbz). cbn [node_report n_client cstep fst c_report set_peers cs_peers] in Hin'.
      apply in_al_modify in Hin'. destruct Hin' as (ps & Hin0 & ->). rewrite N.eqb_refl in Hbz.
      destruct (peer_in_connected s i ni j ps Hok Ei Hin0) as [_ (_ & Hss & _)].
      destruct Hss as [Hr|(t & Hs)]; unfold report_accepted in Hbz; [rewrite Hr in Hbz; cbn in Hbz; congruence|].
      rewrite Hs in Hbz. cbn in Hbz. rewrite N.eqb_refl in Hbz. cbn in Hbz. congruence.
    - (* deliver blocks *)
      unfold do_deliver_b. destruct (take_first (b_between j i) (wire_b s)) as [[m rest]|]; [|exact H].
      destruct (get_node s i) as [ni|] eqn:Ei.
      + pose proof (PSS_incoming ni j (blocks_message (bm_blocks m))) as HP.
        destruct (node_incoming Sz Hh ni j (blocks_message (bm_blocks m))) as [ni1 evs]. cbn [fst] in *.
        apply (WL_moved s); [|intros m' Hm'; exact Hm'|exact H].
        eapply movedR_nodes with (s2 := set_node s i ni1); [reflexivity|]. exact (movedR_set_node PSS PSS_refl s i ni ni1 Ei HP).
      + apply (WL_moved s); [|intros m' Hm'; exact Hm'|exact H]. intros k n' Hk. exists n'. split; [exact Hk | apply PSS_refl].
  Qed.

  Lemma WL_init n : WL (net_init n).
  Proof.
    intros i nd p Hg (ps & Hin & _). unfold get_node in Hg. cbn [nodes net_init] in Hg. apply nth_error_In, repeat_spec in Hg. subst nd. destruct Hin.
  Qed.

  (* ---------- the liveness invariant ---------- *)
  Definition net_live (s : net) : Prop := net_nl s /\ WL s.

  Theorem net_live_step s o : net_ok Sz Hh s -> nop_wf Sz o -> net_live s -> net_live (fst (nstep Sz Hh s o)).
  Proof. intros Hok Ho [H1 H2]. split; [apply net_nl_step | apply WL_step]; assumption. Qed.

  Lemma net_live_init n : net_live (net_init n).
  Proof. split; [apply net_nl_init | apply WL_init]. Qed.

  Theorem net_live_run ops : forall s,
    Forall (nop_good Sz Hh) ops -> Forall (nop_wf Sz) ops -> net_ok Sz Hh s -> net_live s -> net_live (fst (nrun Sz Hh s ops)).
  Proof.
    induction ops as [|o ops IH]; intros s Hg Hw Hok Hl; [exact Hl|].
    inversion Hg as [|? ? Hg1 Hg2]; subst. inversion Hw as [|? ? Hw1 Hw2]; subst. rewrite (nrun_cons Sz Hh). cbn [fst].
    apply IH; [assumption | assumption | apply net_ok_step; assumption | apply net_live_step; assumption].
  Qed.

  Theorem reachable_live n ops :
    Forall (nop_good Sz Hh) ops -> Forall (nop_wf Sz) ops -> net_live (fst (nrun Sz Hh (net_init n) ops)).
  Proof. intros Hg Hw. apply net_live_run; [exact Hg | exact Hw | apply (net_ok_init Sz Hh HSz) | apply net_live_init]. Qed.
End NetLive.
