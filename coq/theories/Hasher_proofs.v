(* Hasher_proofs.v — lemmas behind C18 (registration order of multihashers). *)
From BS Require Import Bytes Cid Prefix Hasher.
From Coq Require Import ZArith ZifyBool ZifyN Lia.
Open Scope N_scope.

Definition answers_unknown (h : hasher) code data : Prop := h code data = HErr UnknownMultihashCode.

(* the table built by registering hs (in this order) after the standard hasher *)
Definition build_table (S : N) (raw : raw_fn) (hs : list hasher) : table :=
  fold_left (fun t h => table_register h t) hs (table_new S raw).

Lemma build_table_rev S raw hs : build_table S raw hs = rev hs ++ [std_hasher S raw].
Proof.
  unfold build_table, table_new, table_register.
  generalize [std_hasher S raw] as t. induction hs as [|h hs IH]; intros t; cbn [fold_left rev app].
  - reflexivity.
  - rewrite IH, <- app_assoc. reflexivity.
Qed.

(* every hasher before position k answers unknown-code, the k-th does not: its answer is the table's *)
Lemma table_hash_first_answer (pre : table) h post code data :
  Forall (fun g => answers_unknown g code data) pre -> ~ answers_unknown h code data ->
  table_hash (pre ++ h :: post) code data = h code data /\
  snd (table_hash_consulted (pre ++ h :: post) code data) = len pre + 1.
Proof.
  intros Hpre Hh. induction Hpre as [|g pre Hg Hpre IH]; cbn [app table_hash table_hash_consulted].
  - unfold answers_unknown in Hh.
    destruct (h code data) as [mh|[]] eqn:E; try (split; [reflexivity|reflexivity]); contradiction.
  - unfold answers_unknown in Hg. rewrite Hg. destruct IH as [IH1 IH2]. split; [exact IH1|].
    destruct (table_hash_consulted (pre ++ h :: post) code data) as [r k]. cbn [snd] in *.
    rewrite IH2, len_cons. lia.
Qed.

(* every hasher answers unknown-code: so does the table, having consulted all of them *)
Lemma table_hash_all_unknown (t : table) code data :
  Forall (fun g => answers_unknown g code data) t ->
  table_hash t code data = HErr UnknownMultihashCode /\
  snd (table_hash_consulted t code data) = len t.
Proof.
  intros Hall. induction Hall as [|g t Hg Hall IH]; cbn [table_hash table_hash_consulted].
  - split; reflexivity.
  - unfold answers_unknown in Hg. rewrite Hg. destruct IH as [IH1 IH2]. split; [exact IH1|].
    destruct (table_hash_consulted t code data) as [r k]. cbn [snd] in *. rewrite IH2, len_cons. lia.
Qed.

Lemma table_hash_consulted_fst t code data :
  fst (table_hash_consulted t code data) = table_hash t code data.
Proof.
  induction t as [|h t IH]; cbn [table_hash table_hash_consulted]; [reflexivity|].
  destruct (h code data) as [mh|[]]; try reflexivity.
  destruct (table_hash_consulted t code data) as [r k]. exact IH.
Qed.

(* precedence, in terms of registration order: hs = older ++ h :: newer, every hasher registered after
   h (newer) answers unknown-code and h does not: the table answers with h, after consulting exactly
   the newer ones and h *)
Lemma precedence S raw older h newer code data :
  Forall (fun g => answers_unknown g code data) newer -> ~ answers_unknown h code data ->
  table_hash (build_table S raw (older ++ h :: newer)) code data = h code data /\
  snd (table_hash_consulted (build_table S raw (older ++ h :: newer)) code data) = len newer + 1.
Proof.
  intros Hnew Hh. rewrite build_table_rev, rev_app_distr. cbn [rev]. rewrite <- !app_assoc. cbn [app].
  destruct (table_hash_first_answer (rev newer) h (rev older ++ [std_hasher S raw]) code data) as [H1 H2].
  - apply Forall_rev. assumption.
  - assumption.
  - split; [exact H1|]. rewrite H2. unfold len. rewrite rev_length. reflexivity.
Qed.

(* the built-in table is consulted last: only if every registered hasher answers unknown-code *)
Lemma standard_last S raw hs code data :
  Forall (fun g => answers_unknown g code data) hs ->
  table_hash (build_table S raw hs) code data = std_hasher S raw code data.
Proof.
  intros Hall. rewrite build_table_rev.
  destruct (std_hasher S raw code data) as [mh|e] eqn:E.
  - destruct (table_hash_first_answer (rev hs) (std_hasher S raw) [] code data) as [H1 _].
    + apply Forall_rev; assumption.
    + unfold answers_unknown. rewrite E. discriminate.
    + rewrite H1. exact E.
  - destruct e.
    + destruct (table_hash_all_unknown (rev hs ++ [std_hasher S raw]) code data) as [H1 _]; [|exact H1].
      apply Forall_app. split; [apply Forall_rev; assumption|]. constructor; [exact E|constructor].
    + destruct (table_hash_first_answer (rev hs) (std_hasher S raw) [] code data) as [H1 _];
        [apply Forall_rev; assumption | unfold answers_unknown; rewrite E; discriminate | rewrite H1; exact E].
    + destruct (table_hash_first_answer (rev hs) (std_hasher S raw) [] code data) as [H1 _];
        [apply Forall_rev; assumption | unfold answers_unknown; rewrite E; discriminate | rewrite H1; exact E].
    + destruct (table_hash_first_answer (rev hs) (std_hasher S raw) [] code data) as [H1 _];
        [apply Forall_rev; assumption | unfold answers_unknown; rewrite E; discriminate | rewrite H1; exact E].
Qed.

(* unknown code from the table iff from every hasher *)
Lemma table_unknown_iff t code data :
  table_hash t code data = HErr UnknownMultihashCode <-> Forall (fun g => answers_unknown g code data) t.
Proof.
  induction t as [|h t IH]; cbn [table_hash].
  - split; [constructor|reflexivity].
  - destruct (h code data) as [mh|e] eqn:E.
    + split; [discriminate|]. intros Hall. inversion Hall as [|? ? Hh _]. unfold answers_unknown in Hh. congruence.
    + destruct e; try (split; [discriminate | intros Hall; inversion Hall as [|? ? Hh _]; unfold answers_unknown in Hh; congruence]).
      rewrite IH. split; [intros Ht; constructor; assumption | intros Hall; inversion Hall; assumption].
Qed.
