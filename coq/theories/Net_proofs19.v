(* Net_proofs19.v — package G: C01 at the client: which CID a query number stands for, and why the data of every
   response hashes to it.  `Q` is the ghost list of the CIDs of the queries issued so far (query q = the q-th `get`).
   A response comes from a block accepted from a peer (the message was rebuilt from its bytes: good) or from the node's
   own store (a healthy store of good blocks) — the second needs the link between a store call and the task that
   started it. *)
From BS Require Import Wantlist_proofs Client_proofs Client_proofs2 Client_proofs3 Client_proofs4
  Net Net_proofs2 Net_proofs3 Net_proofs5 Net_proofs6 Net_proofs7 Net_proofs11.
From Coq Require Import ZArith ZifyBool ZifyN ZifyNat Lia.
Open Scope N_scope.

Local Notation cid_eqb_spec := Wantlist_proofs.cid_eqb_spec.
Local Notation Neqb_spec := Client_proofs.Neqb_spec.

Lemma swap_remove_q_sub q l x : In x (swap_remove_q q l) -> In x l.
Proof.
  intros H. pose proof (cnt_swap_remove x q l) as Hc. unfold cnt in Hc.
  apply (count_occ_In N.eq_dec) in H. apply (count_occ_In N.eq_dec). lia.
Qed.

Lemma cl_calls_bad outs : Forall (fun o => o = OBadChoice) outs -> cl_calls outs = [].
Proof. intros H. apply (cl_bad outs H). Qed.

Lemma uh_evs_no_resp now w ch l q d : ~ In (EvResponse q d) (snd (fst (uh_loop now w ch l))).
Proof.
  pose proof (uh_loop_events now w ch l) as H. destruct (uh_loop now w ch l) as [[l' evs] outs]. destruct H as [H _]. cbn [fst snd].
  intros Hin. assert (Hq : In q (queue_qids evs)) by (unfold queue_qids; apply in_flat_map; exists (EvResponse q d); split; [exact Hin | left; reflexivity]).
  rewrite H in Hq. destruct Hq.
Qed.

Section ClientQ.
  Variable G : cid * bytes -> Prop.

  Definition asked (Q : list cid) (q : qid) (c : cid) : Prop := nth_error Q (N.to_nat q) = Some c.

  Lemma asked_app Q Q' q c : asked Q q c -> asked (Q ++ Q') q c.
  Proof. unfold asked. intros H. rewrite nth_error_app1; [exact H|]. apply nth_error_Some. congruence. Qed.

  Record CQ (Q : list cid) (cl : cstate) : Prop := MkCQ {
    cq_next : cs_next_qid cl = N.of_nat (length Q);
    cq_tasks : forall tid t q c, In (tid, t) (cs_tasks cl) -> t_kind t = TGet q c ->
                 asked Q q c /\ forall d, t_result t = Some (SHit d) -> G (c, d);
    cq_c2q : forall c qs q, In (c, qs) (cs_c2q cl) -> In q qs -> asked Q q c;
    cq_queue : forall q d, In (EvResponse q d) (cs_queue cl) -> exists c, asked Q q c /\ G (c, d)
  }.

  (* the store calls of the node against the tasks of its client *)
  Definition TC (cl : cstate) : Prop := forall tid t m, In (tid, t) (cs_tasks cl) -> t_call t = Some m -> m < cs_next_call cl.
  Definition CLk (calls : list scall) (cl : cstate) : Prop :=
    forall tid t m, In (tid, t) (cs_tasks cl) -> t_call t = Some m ->
      (forall c, In (KCGet m c) calls -> exists q, t_kind t = TGet q c) /\
      (forall bl, In (KCPut m bl) calls -> exists bl', t_kind t = TPut bl').
  Definition CR (calls : list scall) (cl : cstate) : Prop := forall m, In m (client_nums calls) -> m < cs_next_call cl.

  Definition PQ (Q : list cid) (calls : list scall) (cl : cstate) : Prop :=
    CQ Q cl /\ INVT cl /\ TC cl /\ CLk calls cl /\ CR calls cl.

  Definition resp_good (Q : list cid) (outs : list cout) : Prop :=
    forall q d, In (OResponse q d) outs -> exists c, asked Q q c /\ G (c, d).

  (* tasks related up to flags; a new task has no store call yet *)
  Definition tsub (Q : list cid) (ts ts' : list (N * Client.task)) : Prop :=
    forall tid t', In (tid, t') ts' ->
      (exists t, In (tid, t) ts /\ t_kind t' = t_kind t /\ t_result t' = t_result t /\ t_call t' = t_call t) \/
      (t_call t' = None /\ t_result t' = None /\ forall q c, t_kind t' = TGet q c -> asked Q q c).

  Lemma tsub_refl Q ts : tsub Q ts ts.
  Proof. intros tid t H. left. exists t. auto. Qed.

  Lemma PQ_tsub Q calls calls' cl cl' :
    tsub Q (cs_tasks cl) (cs_tasks cl') -> INVT cl' -> cs_next_qid cl' = cs_next_qid cl -> cs_next_call cl' = cs_next_call cl ->
    (forall c qs q, In (c, qs) (cs_c2q cl') -> In q qs -> (exists qs0, In (c, qs0) (cs_c2q cl) /\ In q qs0) \/ asked Q q c) ->
    (forall q d, In (EvResponse q d) (cs_queue cl') -> In (EvResponse q d) (cs_queue cl) \/ exists c, asked Q q c /\ G (c, d)) ->
    (forall x, In x calls' -> In x calls) ->
    PQ Q calls cl -> PQ Q calls' cl'.
  Proof.
    intros Hts HT' Eq Ec Hc2q Hqu Hsub ([H1 H2 H3 H4] & _ & HTC & HL & HR). split; [|split; [exact HT'|split; [|split]]].
    - constructor.
      + congruence.
      + intros tid t' q c Hin Hk. destruct (Hts _ _ Hin) as [(t & Hin0 & K & R & _)|(_ & Rn & Ha)].
        * destruct (H2 tid t q c Hin0 ltac:(congruence)) as [A B]. split; [exact A|]. intros d Hd. apply B. congruence.
        * split; [apply Ha, Hk|]. intros d Hd. congruence.
      + intros c qs q Hin Hq. destruct (Hc2q _ _ _ Hin Hq) as [(qs0 & Hin0 & Hq0)|Ha]; [eapply H3; eassumption | exact Ha].
      + intros q d Hin. destruct (Hqu _ _ Hin) as [Hin0|Ha]; [apply H4, Hin0 | exact Ha].
    - intros tid t' m Hin Hc. destruct (Hts _ _ Hin) as [(t & Hin0 & _ & _ & C)|(Cn & _)]; [|congruence]. rewrite Ec. apply (HTC tid t m Hin0). congruence.
    - intros tid t' m Hin Hc. destruct (Hts _ _ Hin) as [(t & Hin0 & K & _ & C)|(Cn & _)]; [|congruence].
      destruct (HL tid t m Hin0 ltac:(congruence)) as [A B]. rewrite K. split.
      + intros c Hx. apply A, Hsub, Hx.
      + intros bl Hx. apply (B bl), Hsub, Hx.
    - intros m Hm. rewrite Ec. apply HR. unfold client_nums in *. apply in_flat_map in Hm. destruct Hm as (x & Hx & Hm). apply in_flat_map. exists x. auto.
  Qed.

  Lemma PQ_same Q calls cl cl' :
    cs_tasks cl' = cs_tasks cl -> cs_next_task cl' = cs_next_task cl -> cs_next_qid cl' = cs_next_qid cl -> cs_next_call cl' = cs_next_call cl ->
    cs_c2q cl' = cs_c2q cl -> cs_queue cl' = cs_queue cl -> PQ Q calls cl -> PQ Q calls cl'.
  Proof.
    intros E1 E2 E3 E4 E5 E6 H. pose proof H as (_ & HT & _). apply (PQ_tsub Q calls calls cl cl'); try assumption.
    - rewrite E1. apply tsub_refl.
    - eapply INVT_same; eassumption.
    - intros c qs q Hin Hq. rewrite E5 in Hin. eauto.
    - intros q d Hin. rewrite E6 in Hin. auto.
    - auto.
  Qed.

  (* ---------- poll_next ---------- *)
  Definition out_link (lo hi : N) (ts' : list (N * Client.task)) (o : cout) : Prop :=
    (exists m c, o = Client.OGet m c /\ lo <= m < hi /\ forall tid t', In (tid, t') ts' -> t_call t' = Some m -> exists q, t_kind t' = TGet q c) \/
    (exists m bl, o = OPut m bl /\ lo <= m < hi /\ forall tid t', In (tid, t') ts' -> t_call t' = Some m -> exists bl', t_kind t' = TPut bl').

  Lemma poll_next_link rq : forall ts nc,
    NoDup (map fst ts) -> (forall tid t m, In (tid, t) ts -> t_call t = Some m -> m < nc) ->
    let '(ts', rq', nc', outs, res) := poll_next rq ts nc in
    nc <= nc' /\
    (forall tid t', In (tid, t') ts' ->
       exists t, In (tid, t) ts /\ t_kind t' = t_kind t /\ t_result t' = t_result t /\
                 (t_call t' = t_call t \/ exists m, t_call t' = Some m /\ nc <= m < nc')) /\
    (forall tid t' m, In (tid, t') ts' -> t_call t' = Some m -> m < nc') /\
    Forall (out_link nc nc' ts') outs.
  Proof.
    induction rq as [|tid0 rq IH]; intros ts nc Hnd HTC; cbn [poll_next].
    - split; [lia|]. split; [intros tid t' H; exists t'; auto|]. split; [exact HTC | constructor].
    - destruct (al_find N.eqb tid0 ts) as [t0|] eqn:Ef; [|apply IH; assumption].
      pose proof (al_find_some_in _ Neqb_spec _ _ _ Ef) as Hin0.
      destruct (poll_task nc t0) as [r|o|] eqn:Ep.
      + split; [lia|]. split; [|split; [|constructor]].
        * intros tid t' H. unfold al_remove in H. apply filter_In in H. exists t'. split; [apply H | auto].
        * intros tid t' m H. unfold al_remove in H. apply filter_In in H. apply (HTC tid t' m), H.
      + set (ts1 := al_modify N.eqb tid0 (start_task nc) ts).
        assert (Hnd1 : NoDup (map fst ts1)) by (unfold ts1; rewrite al_modify_keys; exact Hnd).
        assert (Hfrom1 : forall tid t1, In (tid, t1) ts1 ->
                   exists t, In (tid, t) ts /\ t_kind t1 = t_kind t /\ t_result t1 = t_result t /\
                             ((tid <> tid0 /\ t1 = t) \/ (tid = tid0 /\ t = t0 /\ t_call t1 = Some nc))).
        { intros tid t1 H. apply in_al_modify in H. destruct H as (t & Hin & ->). exists t. split; [exact Hin|].
          destruct (tid0 =? tid) eqn:E.
          - apply N.eqb_eq in E. subst tid. assert (t = t0) by (apply (NoDup_keys_in_eq ts tid0); [exact Hnd | exact Hin | exact Hin0]). subst t.
            split; [reflexivity|]. split; [reflexivity|]. right. auto.
          - apply N.eqb_neq in E. split; [reflexivity|]. split; [reflexivity|]. left. split; [congruence | reflexivity]. }
        assert (HTC1 : forall tid t m, In (tid, t) ts1 -> t_call t = Some m -> m < nc + 1).
        { intros tid t1 m H Hc. destruct (Hfrom1 _ _ H) as (t & Hin & _ & _ & [[_ ->]|(_ & _ & Hc1)]).
          - specialize (HTC _ _ _ Hin Hc). lia.
          - rewrite Hc1 in Hc. injection Hc as <-. lia. }
        specialize (IH ts1 (nc + 1) Hnd1 HTC1).
        destruct (poll_next rq ts1 (nc + 1)) as [[[[ts' rq'] nc'] outs'] res].
        destruct IH as (Hle & Hfrom & HTC' & Hout). split; [lia|]. split; [|split; [exact HTC'|]].
        * intros tid t' H. destruct (Hfrom _ _ H) as (t1 & Hin1 & K & R & C). destruct (Hfrom1 _ _ Hin1) as (t & Hin & K1 & R1 & C1).
          exists t. split; [exact Hin|]. split; [congruence|]. split; [congruence|].
          destruct C as [C|(m & Hm & Hr)]; [|right; exists m; split; [exact Hm | lia]].
          destruct C1 as [[_ ->]|(_ & _ & Hc1)]; [left; exact C|]. right. exists nc. split; [congruence | lia].
        * apply Forall_app. split.
          -- (* the call started now *)
             assert (Hown : forall tid t', In (tid, t') ts' -> t_call t' = Some nc -> t_kind t' = t_kind t0).
             { intros tid t' H Hc. destruct (Hfrom _ _ H) as (t1 & Hin1 & K & _ & C). destruct C as [C|(m & Hm & Hr)]; [|rewrite Hm in Hc; injection Hc as ->; lia].
               destruct (Hfrom1 _ _ Hin1) as (t & Hin & K1 & _ & [[_ ->]|(_ & -> & _)]); [|congruence].
               exfalso. rewrite C in Hc. specialize (HTC _ _ _ Hin Hc). lia. }
             unfold poll_task in Ep. destruct (t_kind t0) as [q c|bl] eqn:Ek.
             ++ destruct (t_aborted t0); [discriminate|]. destruct (t_call t0); [destruct (t_result t0); discriminate|]. injection Ep as <-.
                constructor; [|constructor]. left. exists nc, c. split; [reflexivity|]. split; [lia|]. intros tid t' H Hc. exists q. apply (Hown _ _ H Hc).
             ++ destruct (t_call t0); [destruct (t_result t0) as [[]|]; discriminate|]. injection Ep as <-.
                constructor; [|constructor]. right. exists nc, bl. split; [reflexivity|]. split; [lia|]. intros tid t' H Hc. exists bl. apply (Hown _ _ H Hc).
          -- eapply Forall_impl; [|exact Hout]. intros o1 [(m & c & -> & Hr & Hl)|(m & bl & -> & Hr & Hl)]; [left; exists m, c | right; exists m, bl]; (split; [reflexivity|]; split; [lia | exact Hl]).
      + apply IH; assumption.
  Qed.

  Lemma cl_calls_link lo hi ts' outs x :
    Forall (out_link lo hi ts') outs -> In x (cl_calls outs) ->
    match x with
    | KCGet m c => lo <= m < hi /\ forall tid t', In (tid, t') ts' -> t_call t' = Some m -> exists q, t_kind t' = TGet q c
    | KCPut m bl => lo <= m < hi /\ forall tid t', In (tid, t') ts' -> t_call t' = Some m -> exists bl', t_kind t' = TPut bl'
    | KSGet _ _ => False
    end.
  Proof.
    induction 1 as [|o outs Ho _ IH]; [intros []|]. destruct Ho as [(m & c & -> & Hr & Hl)|(m & bl & -> & Hr & Hl)]; cbn [cl_calls].
    - intros [<-|H]; [auto | apply IH, H].
    - intros [<-|H]; [auto | apply IH, H].
  Qed.

  Lemma PQ_after_tasks Q calls s : PQ Q calls s -> PQ Q (calls ++ cl_calls (tasks_outs s)) (after_tasks s).
  Proof.
    intros ([H1 H2 H3 H4] & HT & HTC & HL & HR). destruct (after_tasks_frame s) as (Fq & _ & _ & Fc & _ & Fn & _).
    pose proof (poll_next_link (cs_ready s) (cs_tasks s) (cs_next_call s) (proj1 HT) HTC) as Hpn.
    pose proof (INVT_after_tasks s HT) as HT'. unfold after_tasks, tasks_outs in *.
    destruct (poll_next (cs_ready s) (cs_tasks s) (cs_next_call s)) as [[[[ts rq] nc] outs] res].
    destruct Hpn as (Hle & Hfrom & HTC' & Hout). cbn [set_tasks_calls cs_tasks cs_next_call cs_queue cs_c2q cs_next_qid] in *.
    split; [|split; [exact HT'|split; [exact HTC'|split]]].
    - constructor; cbn [set_tasks_calls cs_tasks cs_next_qid cs_c2q cs_queue]; try assumption.
      intros tid t' q c Hin Hk. destruct (Hfrom _ _ Hin) as (t & Hin0 & K & R & _). destruct (H2 tid t q c Hin0 ltac:(congruence)) as [A B].
      split; [exact A|]. intros d Hd. apply B. congruence.
    - intros tid t' m Hin Hc. cbn [set_tasks_calls cs_tasks] in Hin. destruct (Hfrom _ _ Hin) as (t & Hin0 & K & _ & C).
      assert (Hold : m < cs_next_call s -> (forall c, In (KCGet m c) calls -> exists q, t_kind t' = TGet q c) /\
                                           (forall bl, In (KCPut m bl) calls -> exists bl', t_kind t' = TPut bl')).
      { intros Hlt. destruct C as [C|(m' & Hm' & Hr)]; [|rewrite Hm' in Hc; injection Hc as ->; lia].
        rewrite K. apply (HL tid t m Hin0). congruence. }
      split.
      + intros c Hx. apply in_app_iff in Hx. destruct Hx as [Hx|Hx].
        * assert (Hlt : m < cs_next_call s) by (apply HR; unfold client_nums; apply in_flat_map; exists (KCGet m c); split; [exact Hx | left; reflexivity]).
          destruct (Hold Hlt) as [A _]. apply A, Hx.
        * apply (cl_calls_link _ _ _ _ _ Hout) in Hx. destruct Hx as [_ Hl]. eapply Hl; eassumption.
      + intros bl Hx. apply in_app_iff in Hx. destruct Hx as [Hx|Hx].
        * assert (Hlt : m < cs_next_call s) by (apply HR; unfold client_nums; apply in_flat_map; exists (KCPut m bl); split; [exact Hx | left; reflexivity]).
          destruct (Hold Hlt) as [_ B]. apply (B bl), Hx.
        * apply (cl_calls_link _ _ _ _ _ Hout) in Hx. destruct Hx as [_ Hl]. eapply Hl; eassumption.
    - intros m Hm. cbn [set_tasks_calls cs_next_call]. rewrite client_nums_app in Hm. apply in_app_iff in Hm. destruct Hm as [Hm|Hm].
      + specialize (HR _ Hm). lia.
      + unfold client_nums in Hm. apply in_flat_map in Hm. destruct Hm as (x & Hx & Hm). apply (cl_calls_link _ _ _ _ _ Hout) in Hx.
        destruct x as [m0 c|m0 bl|m0 c]; [| |destruct Hx]; destruct Hm as [<-|[]]; lia.
  Qed.

  (* ---------- one CPoll ---------- *)
  Definition RQ (Q : list cid) (s : cstate) (outs : list cout) (s' : cstate) : Prop :=
    forall calls, PQ Q calls s -> PQ Q (calls ++ cl_calls outs) s' /\ resp_good Q outs.

  Lemma RQ_trans Q s o1 s1 o2 s2 : RQ Q s o1 s1 -> RQ Q s1 o2 s2 -> RQ Q s (o1 ++ o2) s2.
  Proof.
    intros A B calls H. destruct (A calls H) as [H1 R1]. destruct (B _ H1) as [H2 R2]. rewrite cl_calls_app, app_assoc. split; [exact H2|].
    intros q d Hin. apply in_app_iff in Hin. destruct Hin; [apply R1 | apply R2]; assumption.
  Qed.

  Lemma handle_result_calls s r : cl_calls (snd (handle_task_result s r)) = [].
  Proof.
    destruct r as [q c res|ok bl|]; cbn [handle_task_result].
    - destruct res; cbn [snd]; try reflexivity.
      destruct (wl_insert (cs_wl (set_abort s (al_remove N.eqb q (cs_abort s)))) c) as [w' ins]. destruct ins; reflexivity.
    - destruct ok; reflexivity.
    - reflexivity.
  Qed.

  Lemma c2q_push_in x q0 m c qs q : In (c, qs) (c2q_push x q0 m) -> In q qs -> (exists qs0, In (c, qs0) m /\ In q qs0) \/ (c = x /\ q = q0).
  Proof.
    unfold c2q_push. destruct (al_mem cid_eqb x m).
    - intros H Hq. apply in_al_modify in H. destruct H as (qs0 & Hin & ->). destruct (cid_eqb x c) eqn:E.
      + apply cid_eqb_spec in E. subst c. apply in_app_iff in Hq. destruct Hq as [Hq|[<-|[]]]; [left; eauto | right; auto].
      + left. eauto.
    - intros H Hq. apply in_app_iff in H. destruct H as [H|[[= <- <-]|[]]]; [left; eauto|]. destruct Hq as [<-|[]]. right. auto.
  Qed.

  Lemma PQ_handle Q calls s r :
    PQ Q calls s ->
    (forall q c res, r = TrGet q c res -> asked Q q c /\ forall d, res = SHit d -> G (c, d)) ->
    PQ Q calls (fst (handle_task_result s r)) /\ resp_good Q (snd (handle_task_result s r)).
  Proof.
    intros HP Hr. destruct (handle_result_frame s r) as (E1 & E2 & _ & _ & _ & E6 & E7). cbn zeta in *.
    assert (Eq : cs_next_qid (fst (handle_task_result s r)) = cs_next_qid s).
    { destruct r as [q c res|ok bl|]; cbn [handle_task_result]; [|destruct ok; reflexivity | reflexivity].
      destruct res; cbn [fst]; try reflexivity.
      destruct (wl_insert (cs_wl (set_abort s (al_remove N.eqb q (cs_abort s)))) c) as [w' ins]. destruct ins; reflexivity. }
    pose proof HP as ([H1 H2 H3 H4] & HT & _). split.
    - apply (PQ_tsub Q calls calls s); try assumption; try (rewrite E1; apply tsub_refl); try (eapply INVT_same; eassumption); auto.
      + intros c qs q Hin Hq. destruct r as [q0 x res|ok bl|]; cbn [handle_task_result] in Hin; [|destruct ok; eauto | eauto].
        destruct res; cbn [fst set_abort cs_c2q] in Hin; eauto.
        destruct (wl_insert (cs_wl (set_abort s (al_remove N.eqb q0 (cs_abort s)))) x) as [w' ins].
        assert (Hin' : In (c, qs) (c2q_push x q0 (cs_c2q s))) by (destruct ins; exact Hin).
        destruct (c2q_push_in _ _ _ _ _ _ Hin' Hq) as [H|[-> ->]]; [left; exact H|]. right. apply (Hr _ _ _ eq_refl).
      + intros q d Hin. rewrite E2 in Hin. auto.
    - intros q d Hin. destruct r as [q0 x res|ok bl|]; cbn [handle_task_result] in Hin; [|destruct ok; destruct Hin | destruct Hin].
      destruct res; cbn [snd] in Hin.
      + destruct Hin as [[= <- <-]|[]]. destruct (Hr _ _ _ eq_refl) as [A B]. exists x. split; [exact A | apply B; reflexivity].
      + destruct (wl_insert (cs_wl (set_abort s (al_remove N.eqb q0 (cs_abort s)))) x) as [w' ins]. destruct ins; destruct Hin.
      + destruct Hin as [[=]|[]].
  Qed.
End ClientQ.

Section ClientQ2.
  Variable G : cid * bytes -> Prop.
  Local Notation PQ := (PQ G).
  Local Notation CQ := (CQ G).
  Local Notation RQ := (RQ G).
  Local Notation resp_good := (resp_good G).

  Lemma RQ_poll_iter Q ch s : RQ Q s (snd (fst (poll_iter ch s))) (fst (fst (poll_iter ch s))).
  Proof.
    destruct (poll_iter_cases ch s) as [(ev & q & Hq & ->) | [(Hq & Ht & ->) | [(r & Hq & Ht & Hr & ->) | (Hq & Ht & Hr & ->)]]];
      cbn [fst snd]; intros calls HP.
    - assert (Ec : cl_calls [out_of_event ev] = []) by (destruct ev; reflexivity). rewrite Ec, app_nil_r. split.
      + pose proof HP as (_ & HT & _).
        apply (PQ_tsub G Q calls calls s); [apply tsub_refl | eapply INVT_same; [..|exact HT]; reflexivity | reflexivity | reflexivity | | | auto | exact HP].
        * intros c qs q0 Hin Hq0. left. eauto.
        * intros q0 d Hin. left. cbn [set_queue cs_queue] in Hin. rewrite Hq. right. exact Hin.
      + intros q0 d [H|[]]. destruct ev; try discriminate. injection H as <- <-. destruct HP as (HC & _).
        apply (cq_queue G Q s HC). rewrite Hq. left. reflexivity.
    - cbn [cl_calls]. rewrite app_nil_r. split; [|intros q d []]. eapply PQ_same; [..|exact HP]; reflexivity.
    - rewrite cl_calls_app, handle_result_calls, app_nil_r.
      pose proof (PQ_after_tasks G Q calls s HP) as HP1.
      assert (Hcond : forall q c res, r = TrGet q c res -> asked Q q c /\ forall d, res = SHit d -> G (c, d)).
      { intros q c res ->. pose proof (proj2 (after_tasks_tasks s)) as H. rewrite Hr in H.
        destruct H as (tid & t & t0 & Hin & (K & R & _) & (Hk & Hres & _)). destruct HP as (HC & _).
        destruct (cq_tasks G Q s HC tid t0 q c Hin ltac:(congruence)) as [A B]. split; [exact A|]. intros d ->. apply B. congruence. }
      destruct (PQ_handle G Q _ _ r HP1 Hcond) as [HP2 HR2]. split; [exact HP2|].
      intros q d Hin. apply in_app_iff in Hin. destruct Hin as [Hin|Hin]; [exfalso; eapply tasks_outs_no_resp, Hin | apply HR2, Hin].
    - pose proof (update_handlers_outs_bad (after_tasks s) ch) as Hbad.
      rewrite cl_calls_app, (cl_calls_bad _ Hbad), app_nil_r.
      pose proof (PQ_after_tasks G Q calls s HP) as HP1.
      destruct (update_handlers_frame (after_tasks s) ch) as (E1 & E2 & E3 & _ & _ & _ & _ & _ & _ & E10 & E11). cbn zeta in *.
      split.
      + pose proof HP1 as (_ & HT & _).
        apply (PQ_tsub G Q (calls ++ cl_calls (tasks_outs s)) (calls ++ cl_calls (tasks_outs s)) (after_tasks s)); [rewrite E1; apply tsub_refl | eapply INVT_same; eassumption | exact E3 | exact E11 | | | auto | exact HP1].
        * intros c qs q Hin Hq0. rewrite E2 in Hin. left. eauto.
        * intros q d Hin. left. unfold Client.update_handlers in Hin.
          pose proof (uh_evs_no_resp (cs_now (after_tasks s)) (cs_wl (after_tasks s)) ch (cs_peers (after_tasks s)) q d) as Hno.
          destruct (uh_loop (cs_now (after_tasks s)) (cs_wl (after_tasks s)) ch (cs_peers (after_tasks s))) as [[peers' evs] outs].
          cbn [fst snd set_queue set_peers cs_queue] in *. apply in_app_iff in Hin. destruct Hin as [Hin|Hin]; [exact Hin | contradiction].
      + intros q d Hin. apply in_app_iff in Hin. destruct Hin as [Hin|Hin]; [exfalso; eapply tasks_outs_no_resp, Hin|].
        rewrite Forall_forall in Hbad. apply Hbad in Hin. discriminate.
  Qed.

  Lemma RQ_poll Q s ch : RQ Q s (snd (c_poll s ch)) (fst (c_poll s ch)).
  Proof.
    unfold c_poll. apply (poll_loop_rel (RQ Q) (RQ_trans G Q)); [|intros; apply RQ_poll_iter].
    intros s0 calls HP. cbn [cl_calls]. rewrite app_nil_r. split; [exact HP|]. intros q d [[=]|[]].
  Qed.

  (* ---------- the other client steps ---------- *)
  Lemma cancel_abort_tasks c q k t' :
    In (k, t') (cs_tasks (cancel_abort c q)) ->
    exists t, In (k, t) (cs_tasks c) /\ t_kind t' = t_kind t /\ t_result t' = t_result t /\ t_call t' = t_call t.
  Proof.
    unfold cancel_abort. destruct (al_find N.eqb q (cs_abort c)) as [tid|]; [|intros H; exists t'; auto].
    unfold abort_task. cbn [set_abort cs_tasks]. destruct (al_mem N.eqb tid (cs_tasks c)); [|intros H; exists t'; auto].
    cbn [set_tasks cs_tasks]. intros H. apply in_al_modify in H. destruct H as (t & Hin & ->). exists t. split; [exact Hin|].
    destruct (tid =? k); auto.
  Qed.

  Lemma PQ_cancel Q calls cl q : PQ Q calls cl -> PQ Q calls (c_cancel cl q).
  Proof.
    intros HP. pose proof HP as (_ & HT & _).
    assert (HT' : INVT (c_cancel cl q)) by (apply (INVT_step cl (CCancel q)), HT).
    assert (Enc : cs_next_call (c_cancel cl q) = cs_next_call cl) by (apply (cstep_next_call cl (CCancel q)); discriminate).
    revert HT' Enc. rewrite c_cancel_unfold. cbv zeta. intros HT' Enc.
    destruct (cancel_abort_frame cl q) as (Ec & Eq & En & _).
    assert (Hts : forall cl', cs_tasks cl' = cs_tasks (cancel_abort cl q) -> tsub Q (cs_tasks cl) (cs_tasks cl')).
    { intros cl' E tid t' Hin. rewrite E in Hin. left. apply (cancel_abort_tasks cl q), Hin. }
    destruct (find_query q (cs_c2q (cancel_abort cl q))) as [[x qs]|]; [destruct (swap_remove_q q qs) as [|y l0] eqn:Es|];
      (apply (PQ_tsub G Q calls calls cl); [apply Hts; reflexivity | exact HT' | exact En | exact Enc | | | auto | exact HP]).
    - intros c qs0 q0 Hin Hq0. left. cbn [set_wl set_c2q cs_c2q] in Hin. unfold al_remove in Hin. apply filter_In in Hin. rewrite <- Ec. exists qs0. split; [apply Hin | exact Hq0].
    - intros q0 d Hin. left. cbn [set_wl set_c2q cs_queue] in Hin. rewrite <- Eq. exact Hin.
    - intros c qs0 q0 Hin Hq0. left. cbn [set_c2q cs_c2q] in Hin. apply in_al_modify in Hin. destruct Hin as (qs1 & Hin1 & ->). rewrite <- Ec.
      exists qs1. split; [exact Hin1|]. destruct (cid_eqb x c); [apply swap_remove_q_sub in Hq0|]; exact Hq0.
    - intros q0 d Hin. left. cbn [set_c2q cs_queue] in Hin. rewrite <- Eq. exact Hin.
    - intros c qs0 q0 Hin Hq0. left. rewrite <- Ec. eauto.
    - intros q0 d Hin. left. rewrite <- Eq. exact Hin.
  Qed.

  Lemma inc_blocks_q bl : forall a,
    (forall c qs, In (c, qs) (ia_c2q (fold_left inc_block bl a)) -> In (c, qs) (ia_c2q a)) /\
    (forall q d, In (EvResponse q d) (ia_queue (fold_left inc_block bl a)) ->
       In (EvResponse q d) (ia_queue a) \/ exists c qs, In (c, qs) (ia_c2q a) /\ In q qs /\ In (c, d) bl).
  Proof.
    induction bl as [|b bl IH]; intros a; cbn [fold_left]; [split; auto|].
    destruct (IH (inc_block a b)) as [I1 I2].
    assert (Hstep : (forall c qs, In (c, qs) (ia_c2q (inc_block a b)) -> In (c, qs) (ia_c2q a)) /\
                    (forall q d, In (EvResponse q d) (ia_queue (inc_block a b)) ->
                       In (EvResponse q d) (ia_queue a) \/ exists qs, In (fst b, qs) (ia_c2q a) /\ In q qs /\ d = snd b)).
    { unfold inc_block. destruct (ia_panic a); [auto|]. destruct b as [x data]. cbn [fst snd].
      destruct (wl_remove (ia_wl a) x) as [w' removed]. destruct removed; cbn [negb].
      - cbn [ia_c2q ia_queue]. split.
        + intros c qs H. unfold al_remove in H. apply filter_In in H. apply H.
        + intros q d H. apply in_app_iff in H. destruct H as [H|H]; [left; exact H|]. right.
          destruct (al_find cid_eqb x (ia_c2q a)) as [qs|] eqn:Ef; [|destruct H].
          apply in_map_iff in H. destruct H as (q' & [= <- <-] & Hq). exists qs. split; [apply (al_find_some_in _ cid_eqb_spec); exact Ef | auto].
      - destruct (al_mem cid_eqb x (ia_c2q a)); cbn [ia_c2q ia_queue]; auto. }
    destruct Hstep as [S1 S2]. split.
    - intros c qs H. apply S1, I1, H.
    - intros q d H. destruct (I2 _ _ H) as [H0|(c & qs & Hin & Hq & Hb)].
      + destruct (S2 _ _ H0) as [H1|(qs & Hin & Hq & ->)]; [left; exact H1|]. right. exists (fst b), qs. split; [exact Hin|]. split; [exact Hq|].
        left. destruct b; reflexivity.
      + right. exists c, qs. split; [apply S1, Hin|]. split; [exact Hq | right; exact Hb].
  Qed.

  Lemma PQ_incoming Q calls cl p pres blocks :
    Forall G blocks -> PQ Q calls cl -> PQ Q calls (fst (c_incoming cl p pres blocks)).
  Proof.
    intros Hg HP. pose proof HP as (HC & HT & _).
    assert (HT' : INVT (fst (c_incoming cl p pres blocks))) by (apply (INVT_step cl (CIncoming p pres blocks)), HT).
    assert (Enc : cs_next_call (fst (c_incoming cl p pres blocks)) = cs_next_call cl) by (apply (cstep_next_call cl (CIncoming p pres blocks)); discriminate).
    revert HT' Enc. unfold c_incoming. destruct (al_find N.eqb p (cs_peers cl)) as [ps|]; [|intros _ _; exact HP].
    set (a0 := MkInc (cs_wl cl) (fold_left apply_presence pres (p_wl ps)) (cs_c2q cl) (cs_queue cl) [] false).
    destruct (inc_blocks_q blocks a0) as [I1 I2]. set (a := fold_left inc_block blocks a0) in *. cbn [a0 ia_c2q ia_queue] in I1, I2.
    assert (Hc2q : forall c qs q, In (c, qs) (ia_c2q a) -> In q qs -> (exists qs0, In (c, qs0) (cs_c2q cl) /\ In q qs0) \/ asked Q q c)
      by (intros c qs q Hin Hq; left; eauto).
    assert (Hqu : forall q d, In (EvResponse q d) (ia_queue a) -> In (EvResponse q d) (cs_queue cl) \/ exists c, asked Q q c /\ G (c, d)).
    { intros q d Hin. destruct (I2 _ _ Hin) as [H|(c & qs & Hc & Hq & Hb)]; [left; exact H|]. right. exists c.
      split; [apply (cq_c2q G Q cl HC c qs q Hc Hq)|]. rewrite Forall_forall in Hg. apply Hg, Hb. }
    destruct (ia_panic a); [|destruct (ia_new a) as [|b nb]]; cbn [fst]; intros HT' Enc;
      (apply (PQ_tsub G Q calls calls cl); [ | exact HT' | reflexivity | exact Enc | exact Hc2q | exact Hqu | auto | exact HP]).
    - apply tsub_refl.
    - apply tsub_refl.
    - intros tid t' Hin. cbn [push_task cs_tasks] in Hin. apply in_app_iff in Hin. destruct Hin as [Hin|[[= <- <-]|[]]]; [left; exists t'; auto|].
      right. cbn. split; [reflexivity|]. split; [reflexivity|]. intros q c [=].
  Qed.

  Lemma PQ_release Q calls cl call r :
    (forall tid t q c d, In (tid, t) (cs_tasks cl) -> t_call t = Some call -> t_kind t = TGet q c -> r = SHit d -> G (c, d)) ->
    PQ Q calls cl -> PQ Q calls (c_release cl call r).
  Proof.
    intros Hcond HP. pose proof HP as ([H1 H2 H3 H4] & HT & HTC & HL & HR).
    assert (HT' : INVT (c_release cl call r)) by (apply (INVT_step cl (CRelease call r)), HT).
    revert HT'. unfold c_release. destruct (find (call_is call) (cs_tasks cl)) as [[tid t0]|] eqn:Ef; [|intros _; exact HP].
    apply find_some in Ef. destruct Ef as [Hin0 Hci]. unfold call_is in Hci. cbn [snd] in Hci.
    destruct (t_call t0) as [m0|] eqn:Ec0; [|discriminate]. destruct (t_result t0); [discriminate|]. apply N.eqb_eq in Hci. subst m0.
    intros HT'.
    assert (Hfrom : forall k t', In (k, t') (al_modify N.eqb tid (fun t => Client.MkTask (t_kind t) (t_call t) (Some r) (t_aborted t)) (cs_tasks cl)) ->
                      exists t, In (k, t) (cs_tasks cl) /\ t_kind t' = t_kind t /\ t_call t' = t_call t /\
                                (t_result t' = t_result t \/ (t = t0 /\ t_result t' = Some r))).
    { intros k t' H. apply in_al_modify in H. destruct H as (t & Hin & ->). exists t. split; [exact Hin|]. destruct (tid =? k) eqn:E.
      - apply N.eqb_eq in E. subst k. assert (t = t0) by (eapply NoDup_keys_in_eq; [apply HT | exact Hin | exact Hin0]). subst t. cbn. auto.
      - auto. }
    split; [|split; [exact HT'|split; [|split]]].
    - constructor; cbn [set_tasks cs_tasks cs_next_qid cs_c2q cs_queue]; try assumption.
      intros k t' q c Hin Hk. destruct (Hfrom _ _ Hin) as (t & Hin1 & K & C & R). destruct (H2 k t q c Hin1 ltac:(congruence)) as [A B].
      split; [exact A|]. intros d Hd. destruct R as [R|[-> R]]; [apply B; congruence|].
      rewrite R in Hd. injection Hd as ->. apply (Hcond tid t0 q c d Hin0 Ec0); [congruence | reflexivity].
    - intros k t' m Hin Hc. cbn [set_tasks cs_tasks cs_next_call] in *. destruct (Hfrom _ _ Hin) as (t & Hin1 & _ & C & _). apply (HTC k t m Hin1). congruence.
    - intros k t' m Hin Hc. cbn [set_tasks cs_tasks] in Hin. destruct (Hfrom _ _ Hin) as (t & Hin1 & K & C & _). rewrite K. apply (HL k t m Hin1). congruence.
    - exact HR.
  Qed.

  Lemma PQ_get Q calls cl c oc : (oc = None \/ oc = Some c) -> PQ Q calls cl -> PQ (Q ++ [c]) calls (fst (c_get cl oc)).
  Proof.
    intros Hoc HP. pose proof HP as ([H1 H2 H3 H4] & HT & HTC & HL & HR).
    assert (HT' : INVT (fst (c_get cl oc))) by (apply (INVT_step cl (CGet oc)), HT).
    assert (Hlen : N.of_nat (length (Q ++ [c])) = cs_next_qid cl + 1) by (rewrite app_length; cbn [length]; lia).
    assert (Hnew : asked (Q ++ [c]) (cs_next_qid cl) c).
    { unfold asked. rewrite H1, Nat2N.id, nth_error_app2 by lia. rewrite Nat.sub_diag. reflexivity. }
    revert HT'. unfold c_get. destruct Hoc as [-> | ->]; cbn [fst]; intros HT'.
    - split; [|split; [exact HT'|split; [exact HTC|split; [exact HL | exact HR]]]].
      constructor; cbn [set_queue bump_qid cs_next_qid cs_tasks cs_c2q cs_queue].
      + lia.
      + intros tid t q x Hin Hk. destruct (H2 tid t q x Hin Hk) as [A B]. split; [apply asked_app, A | exact B].
      + intros x qs q Hin Hq. apply asked_app. eapply H3; eassumption.
      + intros q d Hin. apply in_app_iff in Hin. destruct Hin as [Hin|[[=]|[]]]. destruct (H4 _ _ Hin) as (x & A & B). exists x. split; [apply asked_app, A | exact B].
    - split; [|split; [exact HT'|split; [|split]]].
      + constructor; cbn [set_abort push_task bump_qid cs_next_qid cs_tasks cs_c2q cs_queue].
        * lia.
        * intros tid t q x Hin Hk. apply in_app_iff in Hin. destruct Hin as [Hin|[[= <- <-]|[]]].
          -- destruct (H2 tid t q x Hin Hk) as [A B]. split; [apply asked_app, A | exact B].
          -- cbn in Hk. injection Hk as <- <-. split; [exact Hnew|]. cbn. intros d [=].
        * intros x qs q Hin Hq. apply asked_app. eapply H3; eassumption.
        * intros q d Hin. destruct (H4 _ _ Hin) as (x & A & B). exists x. split; [apply asked_app, A | exact B].
      + intros tid t m Hin Hc. cbn [set_abort push_task bump_qid cs_tasks cs_next_call] in *. apply in_app_iff in Hin.
        destruct Hin as [Hin|[[= <- <-]|[]]]; [apply (HTC tid t m Hin Hc) | discriminate].
      + intros tid t m Hin Hc. cbn [set_abort push_task bump_qid cs_tasks] in Hin. apply in_app_iff in Hin.
        destruct Hin as [Hin|[[= <- <-]|[]]]; [apply (HL tid t m Hin Hc) | discriminate].
      + exact HR.
  Qed.

  Lemma PQ_calls Q calls calls' cl :
    (forall x, In x calls' -> In x calls \/ exists k c, x = KSGet k c) -> PQ Q calls cl -> PQ Q calls' cl.
  Proof.
    intros Hsub (HC & HT & HTC & HL & HR). split; [exact HC|]. split; [exact HT|]. split; [exact HTC|]. split.
    - intros tid t m Hin Hc. destruct (HL tid t m Hin Hc) as [A B]. split.
      + intros c Hx. destruct (Hsub _ Hx) as [H|(k & c0 & [=])]. apply A, H.
      + intros bl Hx. destruct (Hsub _ Hx) as [H|(k & c0 & [=])]. apply (B bl), H.
    - intros m Hm. apply HR. unfold client_nums in *. apply in_flat_map in Hm. destruct Hm as (x & Hx & Hm).
      destruct (Hsub _ Hx) as [H|(k & c0 & ->)]; [|destruct Hm]. apply in_flat_map. exists x. auto.
  Qed.

  Lemma PQ_init Q0 : Q0 = [] -> PQ Q0 [] (cinit true).
  Proof.
    intros ->. split; [|split; [|split; [|split]]].
    - constructor; cbn; [reflexivity | intros tid t q c [] | intros c qs q [] | intros q d []].
    - split; cbn; [constructor | intros tid []].
    - intros tid t m [].
    - intros tid t m [].
    - intros m [].
  Qed.
End ClientQ2.
