(* Frame.v — model of the length-prefix framing `Codec` of /repo/src/message.rs:12-70
   (`MAX_MESSAGE_SIZE`, `Encoder::encode`, `Decoder::decode`).  Definitions only; the lemmas are in
   Frame_proofs.v.

   The protobuf body codec is abstract here (section variables `parse`, `body`); package B supplies
   the real one.

   Codec::decode(src):
       (len, rest) = match unsigned_varint::decode::usize(&src[..]) {
           Ok(res) => res, Err(Insufficient) => return Ok(None), Err(e) => return Err(e) };
       varint_len = src.len() - rest.len();
       if len > MAX_MESSAGE_SIZE { return Err("Message too large") }
       if rest.len() < len { return Ok(None) }
       msg = BytesReader::from_bytes(rest).read_message_by_len(rest, len)?;   // may panic / loop (F2)
       src.advance(varint_len + len);                                          // only on success
       Ok(Some(msg))
   `src` is left untouched on every path except the last one. *)
From BS Require Export Bytes Varint.

(* drop / take with an N counter (no unary numbers at run time); they are `skipn` / `firstn`,
   see Frame_proofs.dropN_skipn / takeN_firstn *)
Fixpoint dropN {A} (n : N) (l : list A) : list A :=
  match l with
  | [] => []
  | _ :: l' => if n =? 0 then l else dropN (n - 1) l'
  end.

Fixpoint takeN {A} (n : N) (l : list A) : list A :=
  match l with
  | [] => []
  | x :: l' => if n =? 0 then [] else x :: takeN (n - 1) l'
  end.

(* MAX_MESSAGE_SIZE = 4 * 1024 * 1024 *)
Definition max_message_size : N := 4194304.

Section Frame.
  Variable msg : Type.

  (* quick-protobuf `reader.read_message_by_len(rest, len)` on the bytes after the length prefix:
     it is handed ALL of `rest` (not only the first `len` bytes) and the announced length.
     PLoop = does not terminate. *)
  Inductive parse_result := POk (m : msg) | PErr | PPanic | PLoop.

  Variable parse : bytes -> N -> parse_result.
  Variable body : msg -> bytes.          (* `write_message`; `get_size m = len (body m)` *)

  (* what `Codec::encode` appends to `dst`.  The two `expect("buffer too small")` cannot fire when
     `get_size m = len (body m)` (package B's obligation); here that equality holds by construction. *)
  Definition frame_encode (m : msg) : bytes := uv_encode (len (body m)) ++ body m.

  Inductive decode_result :=
  | DErr                                  (* Err(_): buffer untouched *)
  | DNeedMore                             (* Ok(None): buffer untouched *)
  | DItem (m : msg) (rest : bytes)        (* Ok(Some m): `rest` is the buffer after `advance` *)
  | DPanic
  | DLoop.

  Definition frame_decode (buf : bytes) : decode_result :=
    match uv_decode buf with
    | UvInsufficient => DNeedMore
    | UvOverflow => DErr
    | UvNotMinimal => DErr
    | UvOk n rest =>
        if max_message_size <? n then DErr
        else if len rest <? n then DNeedMore
        else match parse rest n with
             | POk m => DItem m (dropN n rest)
             | PErr => DErr
             | PPanic => DPanic
             | PLoop => DLoop
             end
    end.
End Frame.

Arguments POk {msg} m.
Arguments PErr {msg}.
Arguments PPanic {msg}.
Arguments PLoop {msg}.
Arguments DErr {msg}.
Arguments DNeedMore {msg}.
Arguments DItem {msg} m rest.
Arguments DPanic {msg}.
Arguments DLoop {msg}.
Arguments frame_encode {msg} body m.
Arguments frame_decode {msg} parse buf.

(* Toy instance used by the examples and by the harness: a message is its own body and the parser
   takes exactly the announced number of bytes. *)
Definition toy_msg : Type := bytes.
Definition toy_body (m : toy_msg) : bytes := m.
Definition toy_parse (rest : bytes) (n : N) : parse_result toy_msg := POk (takeN n rest).
Definition toy_encode : toy_msg -> bytes := frame_encode toy_body.
Definition toy_decode : bytes -> decode_result toy_msg := frame_decode toy_parse.
