(* Corr_client.v — engine `client`: the client half of beetswap::Behaviour driven op by op
   (harness/src/e_client.rs: get / cancel / connections / incoming client messages / sending-state
   reports / scripted blockstore completions / virtual clock / ClientBehaviour::poll to Pending /
   get_new_blocks) against Client.v, comparing the outputs of every op and a snapshot of the client state
   after every op.  Oracles for C03, C01, C13 (client), C15, C05, C14 (behaviour side) are folds over
   the op history and the IMPLEMENTATION's outputs and snapshots only. *)
From BS Require Export Bytes Cid Proto Types Wantlist Client.
Open Scope N_scope.

(* peer snapshot: connections, sending state, req_state (cid, code), force_update, synced_revision, send_full *)
Inductive psnap := PSnap (p : peer) (conns : list conn) (ss : sending_state) (req : list (cid * N))
                         (force : bool) (synced : N) (send_full : bool).
(* queue length, wantlist cids, revision, peers, cid_to_queries, live tasks, abort handles, next query id, new_blocks length *)
Inductive csnap := CSnap (queue : N) (cids : list cid) (rev : N) (peers : list psnap)
                         (c2q : list (cid * list qid)) (tasks : N) (abort : list qid) (next_qid : N) (new_blocks : N).

Definition cin := (bool * list cop)%type.          (* set_send_dont_have, ops *)
Definition cobs := (list cout * csnap)%type.
Definition case := (cin * list cobs)%type.

Definition psnap_of (e : peer * peer_state) : psnap :=
  let ps := snd e in
  PSnap (fst e) (p_conns ps) (p_ss ps) (map (fun x => (fst x, req_state_code (snd x))) (req (p_wl ps)))
        (force_update (p_wl ps)) (synced_rev (p_wl ps)) (p_send_full ps).

Definition csnap_of (s : cstate) : csnap :=
  CSnap (len (cs_queue s)) (wl_cids (cs_wl s)) (wl_rev (cs_wl s)) (map psnap_of (cs_peers s)) (cs_c2q s)
        (len (cs_tasks s)) (map fst (cs_abort s)) (cs_next_qid s) (len (cs_new_blocks s)).

Fixpoint run_obs (s : cstate) (ops : list cop) : list cobs :=
  match ops with
  | [] => []
  | o :: ops' => let (s1, out) := cstep s o in (out, csnap_of s1) :: run_obs s1 ops'
  end.

Definition model (x : cin) : list cobs := run_obs (cinit (fst x)) (snd x).

Definition incl_b {A} (eqb : A -> A -> bool) (a b : list A) : bool := forallb (fun x => existsb (eqb x) b) a.
Definition set_eqb {A} (eqb : A -> A -> bool) (a b : list A) : bool :=
  Nat.eqb (length a) (length b) && incl_b eqb a b && incl_b eqb b a.

Definition ss_eqb (a b : sending_state) : bool :=
  match a, b with
  | SsReady, SsReady => true
  | SsRequested t1 c1, SsRequested t2 c2 => (t1 =? t2) && (c1 =? c2)
  | SsRequestReceived t1 c1, SsRequestReceived t2 c2 => (t1 =? t2) && (c1 =? c2)
  | SsSending t1 c1, SsSending t2 c2 => (t1 =? t2) && (c1 =? c2)
  | SsFailed c1, SsFailed c2 => c1 =? c2
  | _, _ => false
  end.

Definition kind_eqb (a b : want_kind) : bool :=
  match a, b with KWantHave, KWantHave | KWantBlock, KWantBlock | KCancel, KCancel => true | _, _ => false end.
Definition gen_entry_eqb (a b : gen_entry) : bool := kind_eqb (fst a) (fst b) && cid_eqb (snd a) (snd b).
Definition blk_eqb (a b : cid * bytes) : bool := cid_eqb (fst a) (fst b) && bytes_eqb (snd a) (snd b).

Definition psnap_eqb (a b : psnap) : bool :=
  match a, b with
  | PSnap p1 c1 s1 r1 f1 y1 sf1, PSnap p2 c2 s2 r2 f2 y2 sf2 =>
      (p1 =? p2) && set_eqb N.eqb c1 c2 && ss_eqb s1 s2
      && set_eqb (fun x y => cid_eqb (fst x) (fst y) && (snd x =? snd y)) r1 r2
      && Bool.eqb f1 f2 && (y1 =? y2) && Bool.eqb sf1 sf2
  end.

Definition csnap_eqb (a b : csnap) : bool :=
  match a, b with
  | CSnap q1 c1 r1 p1 m1 t1 a1 n1 b1, CSnap q2 c2 r2 p2 m2 t2 a2 n2 b2 =>
      (q1 =? q2) && set_eqb cid_eqb c1 c2 && (r1 =? r2) && set_eqb psnap_eqb p1 p2
      && set_eqb (fun x y => cid_eqb (fst x) (fst y) && list_eqb N.eqb (snd x) (snd y)) m1 m2
      && (t1 =? t2) && set_eqb N.eqb a1 a2 && (n1 =? n2) && (b1 =? b2)
  end.

(* the blocks of a put and of get_new_blocks come out of a hash map / in arrival order: compared as sets *)
Definition cout_eqb (a b : cout) : bool :=
  match a, b with
  | OQuery q1, OQuery q2 => q1 =? q2
  | OResponse q1 d1, OResponse q2 d2 => (q1 =? q2) && bytes_eqb d1 d2
  | OError q1 k1, OError q2 k2 => (q1 =? q2) && (k1 =? k2)
  | OSendWantlist p1 c1 f1 e1, OSendWantlist p2 c2 f2 e2 =>
      (p1 =? p2) && (c1 =? c2) && Bool.eqb f1 f2 && set_eqb gen_entry_eqb e1 e2
  | OGet k1 c1, OGet k2 c2 => (k1 =? k2) && cid_eqb c1 c2
  | OPut k1 b1, OPut k2 b2 => (k1 =? k2) && set_eqb blk_eqb b1 b2
  | ONewBlocks b1, ONewBlocks b2 => set_eqb blk_eqb b1 b2
  | OBadChoice, OBadChoice | OPanic, OPanic | OOutOfFuel, OOutOfFuel => true
  | _, _ => false
  end.

Definition is_call (o : cout) : bool := match o with OGet _ _ | OPut _ _ => true | _ => false end.

(* the harness sees the store calls of one op separately from the events of that op: compare the two
   subsequences (each in order) *)
Definition is_send (o : cout) : bool := match o with OSendWantlist _ _ _ _ => true | _ => false end.
Definition is_event (o : cout) : bool := negb (is_call o) && negb (is_send o).

(* multiset equality for lists that may hold equal elements *)
Fixpoint remove_one {A} (eqb : A -> A -> bool) (x : A) (l : list A) : option (list A) :=
  match l with
  | [] => None
  | y :: l' => if eqb x y then Some l' else option_map (cons y) (remove_one eqb x l')
  end.
Fixpoint mset_eqb {A} (eqb : A -> A -> bool) (a b : list A) : bool :=
  match a with
  | [] => match b with [] => true | _ => false end
  | x :: a' => match remove_one eqb x b with Some b' => mset_eqb eqb a' b' | None => false end
  end.

(* Within one op: the store calls are seen separately from the events (each subsequence in order); the
   SendWantlist events come sorted by peer; the responses/errors of one poll are compared as a multiset,
   because the blocks of one incoming message are processed in hash-map order *)
Definition outs_eqb (a b : list cout) : bool :=
  mset_eqb cout_eqb (filter is_event a) (filter is_event b)
  && list_eqb cout_eqb (filter is_send a) (filter is_send b)
  && list_eqb cout_eqb (filter is_call a) (filter is_call b).

Definition cobs_eqb (a b : cobs) : bool := outs_eqb (fst a) (fst b) && csnap_eqb (snd a) (snd b).

Definition corr (x : case) : bool := list_eqb cobs_eqb (model (fst x)) (snd x).

Fixpoint first_diff (i : N) (a b : list cobs) : option (N * bool * bool) :=
  match a, b with
  | [], [] => None
  | x :: a', y :: b' => if cobs_eqb x y then first_diff (i + 1) a' b'
                        else Some (i, outs_eqb (fst x) (fst y), csnap_eqb (snd x) (snd y))
  | _, _ => Some (i, false, false)
  end.
Definition where_diff (x : case) := first_diff 0 (model (fst x)) (snd x).
Definition model_at (x : case) (i : N) : option cobs := nth_error (model (fst x)) (N.to_nat i).

(* ---------------------------------------------------------------------------------------------- *)
(* oracles over the op history and the implementation's observations                               *)

Record ost := MkO {
  o_next : N;                                  (* number of get() calls so far *)
  o_q : list (qid * option cid);               (* issued queries and their (converted) CID *)
  o_done : list qid;                           (* queries that already got an event *)
  o_answered : list qid;                       (* the answer reached the node: own lookup hit/failed, block accepted, or unconvertible *)
  o_cancelled : list qid;                      (* cancelled before the answer reached the node *)
  o_call_q : list (N * qid);                   (* which query a started store.get call belongs to *)
  o_hits : list (qid * bytes);                 (* queries whose own lookup was released with a hit *)
  o_fails : list qid;
  o_missed : list qid;                         (* queries whose lookup missed: they wait for the network *)
  o_arrived : list (cid * bytes);              (* every block that arrived in a CIncoming so far *)
  o_accepted : list (cid * bytes);             (* blocks that arrived while some missed, live query wanted the CID *)
  o_put_ok : list (cid * bytes);               (* blocks of successfully released puts *)
  o_puts : list (N * list (cid * bytes));      (* put calls started *)
  o_conns : list (peer * list conn);           (* connections per peer according to the ops *)
  o_fresh : list peer;                         (* peers whose session just started and were not yet sent a wantlist *)
  o_pending : list (N * store_result);         (* released store calls: the behaviour notices them at its next poll *)
  o_ok3 : bool; o_ok1 : bool; o_ok13 : bool; o_ok15 : bool; o_ok5 : bool
}.

Definition n_mem (x : N) (l : list N) : bool := existsb (N.eqb x) l.
Definition al_get {V} (k : N) (l : list (N * V)) : option V :=
  match find (fun e => fst e =? k) l with Some e => Some (snd e) | None => None end.

(* field setters *)
Definition w_next o v := MkO v (o_q o) (o_done o) (o_answered o) (o_cancelled o) (o_call_q o) (o_hits o) (o_fails o) (o_missed o) (o_arrived o) (o_accepted o) (o_put_ok o) (o_puts o) (o_conns o) (o_fresh o) (o_pending o) (o_ok3 o) (o_ok1 o) (o_ok13 o) (o_ok15 o) (o_ok5 o).
Definition w_q o v := MkO (o_next o) v (o_done o) (o_answered o) (o_cancelled o) (o_call_q o) (o_hits o) (o_fails o) (o_missed o) (o_arrived o) (o_accepted o) (o_put_ok o) (o_puts o) (o_conns o) (o_fresh o) (o_pending o) (o_ok3 o) (o_ok1 o) (o_ok13 o) (o_ok15 o) (o_ok5 o).
Definition w_done o v := MkO (o_next o) (o_q o) v (o_answered o) (o_cancelled o) (o_call_q o) (o_hits o) (o_fails o) (o_missed o) (o_arrived o) (o_accepted o) (o_put_ok o) (o_puts o) (o_conns o) (o_fresh o) (o_pending o) (o_ok3 o) (o_ok1 o) (o_ok13 o) (o_ok15 o) (o_ok5 o).
Definition w_answered o v := MkO (o_next o) (o_q o) (o_done o) v (o_cancelled o) (o_call_q o) (o_hits o) (o_fails o) (o_missed o) (o_arrived o) (o_accepted o) (o_put_ok o) (o_puts o) (o_conns o) (o_fresh o) (o_pending o) (o_ok3 o) (o_ok1 o) (o_ok13 o) (o_ok15 o) (o_ok5 o).
Definition w_cancelled o v := MkO (o_next o) (o_q o) (o_done o) (o_answered o) v (o_call_q o) (o_hits o) (o_fails o) (o_missed o) (o_arrived o) (o_accepted o) (o_put_ok o) (o_puts o) (o_conns o) (o_fresh o) (o_pending o) (o_ok3 o) (o_ok1 o) (o_ok13 o) (o_ok15 o) (o_ok5 o).
Definition w_call_q o v := MkO (o_next o) (o_q o) (o_done o) (o_answered o) (o_cancelled o) v (o_hits o) (o_fails o) (o_missed o) (o_arrived o) (o_accepted o) (o_put_ok o) (o_puts o) (o_conns o) (o_fresh o) (o_pending o) (o_ok3 o) (o_ok1 o) (o_ok13 o) (o_ok15 o) (o_ok5 o).
Definition w_hits o v := MkO (o_next o) (o_q o) (o_done o) (o_answered o) (o_cancelled o) (o_call_q o) v (o_fails o) (o_missed o) (o_arrived o) (o_accepted o) (o_put_ok o) (o_puts o) (o_conns o) (o_fresh o) (o_pending o) (o_ok3 o) (o_ok1 o) (o_ok13 o) (o_ok15 o) (o_ok5 o).
Definition w_fails o v := MkO (o_next o) (o_q o) (o_done o) (o_answered o) (o_cancelled o) (o_call_q o) (o_hits o) v (o_missed o) (o_arrived o) (o_accepted o) (o_put_ok o) (o_puts o) (o_conns o) (o_fresh o) (o_pending o) (o_ok3 o) (o_ok1 o) (o_ok13 o) (o_ok15 o) (o_ok5 o).
Definition w_missed o v := MkO (o_next o) (o_q o) (o_done o) (o_answered o) (o_cancelled o) (o_call_q o) (o_hits o) (o_fails o) v (o_arrived o) (o_accepted o) (o_put_ok o) (o_puts o) (o_conns o) (o_fresh o) (o_pending o) (o_ok3 o) (o_ok1 o) (o_ok13 o) (o_ok15 o) (o_ok5 o).
Definition w_arrived o v := MkO (o_next o) (o_q o) (o_done o) (o_answered o) (o_cancelled o) (o_call_q o) (o_hits o) (o_fails o) (o_missed o) v (o_accepted o) (o_put_ok o) (o_puts o) (o_conns o) (o_fresh o) (o_pending o) (o_ok3 o) (o_ok1 o) (o_ok13 o) (o_ok15 o) (o_ok5 o).
Definition w_accepted o v := MkO (o_next o) (o_q o) (o_done o) (o_answered o) (o_cancelled o) (o_call_q o) (o_hits o) (o_fails o) (o_missed o) (o_arrived o) v (o_put_ok o) (o_puts o) (o_conns o) (o_fresh o) (o_pending o) (o_ok3 o) (o_ok1 o) (o_ok13 o) (o_ok15 o) (o_ok5 o).
Definition w_put_ok o v := MkO (o_next o) (o_q o) (o_done o) (o_answered o) (o_cancelled o) (o_call_q o) (o_hits o) (o_fails o) (o_missed o) (o_arrived o) (o_accepted o) v (o_puts o) (o_conns o) (o_fresh o) (o_pending o) (o_ok3 o) (o_ok1 o) (o_ok13 o) (o_ok15 o) (o_ok5 o).
Definition w_puts o v := MkO (o_next o) (o_q o) (o_done o) (o_answered o) (o_cancelled o) (o_call_q o) (o_hits o) (o_fails o) (o_missed o) (o_arrived o) (o_accepted o) (o_put_ok o) v (o_conns o) (o_fresh o) (o_pending o) (o_ok3 o) (o_ok1 o) (o_ok13 o) (o_ok15 o) (o_ok5 o).
Definition w_conns o v := MkO (o_next o) (o_q o) (o_done o) (o_answered o) (o_cancelled o) (o_call_q o) (o_hits o) (o_fails o) (o_missed o) (o_arrived o) (o_accepted o) (o_put_ok o) (o_puts o) v (o_fresh o) (o_pending o) (o_ok3 o) (o_ok1 o) (o_ok13 o) (o_ok15 o) (o_ok5 o).
Definition w_fresh o v := MkO (o_next o) (o_q o) (o_done o) (o_answered o) (o_cancelled o) (o_call_q o) (o_hits o) (o_fails o) (o_missed o) (o_arrived o) (o_accepted o) (o_put_ok o) (o_puts o) (o_conns o) v (o_pending o) (o_ok3 o) (o_ok1 o) (o_ok13 o) (o_ok15 o) (o_ok5 o).
Definition w_pending o v := MkO (o_next o) (o_q o) (o_done o) (o_answered o) (o_cancelled o) (o_call_q o) (o_hits o) (o_fails o) (o_missed o) (o_arrived o) (o_accepted o) (o_put_ok o) (o_puts o) (o_conns o) (o_fresh o) v (o_ok3 o) (o_ok1 o) (o_ok13 o) (o_ok15 o) (o_ok5 o).
Definition set_ok (o : ost) (k3 k1 k13 k15 k5 : bool) : ost :=
  MkO (o_next o) (o_q o) (o_done o) (o_answered o) (o_cancelled o) (o_call_q o) (o_hits o) (o_fails o) (o_missed o) (o_arrived o) (o_accepted o) (o_put_ok o) (o_puts o) (o_conns o) (o_fresh o) (o_pending o) (o_ok3 o && k3) (o_ok1 o && k1) (o_ok13 o && k13) (o_ok15 o && k15) (o_ok5 o && k5).

(* missed queries for a CID that are still waiting for the network *)
Definition live_for (o : ost) (c : cid) : list qid :=
  filter (fun q => negb (n_mem q (o_answered o)) && negb (n_mem q (o_cancelled o))
                   && match al_get q (o_q o) with Some (Some c') => cid_eqb c c' | _ => false end)
         (o_missed o).

Definition conns_of (o : ost) (p : peer) : list conn :=
  match al_get p (o_conns o) with Some l => l | None => [] end.

(* --- ops *)
Definition o_op (known : list peer) (o : ost) (op : cop) : ost :=
  match op with
  | CGet oc =>
      let o1 := w_next (w_q o (o_q o ++ [(o_next o, oc)])) (o_next o + 1) in
      match oc with None => w_answered o1 (o_next o :: o_answered o1) | Some _ => o1 end
  | CCancel q =>
      if n_mem q (o_answered o) || n_mem q (o_done o) || negb (q <? o_next o) then o
      else w_cancelled o (q :: o_cancelled o)
  | CNewConn p c =>
      let old := conns_of o p in
      let o1 := match old with [] => w_fresh o (p :: o_fresh o) | _ => o end in
      w_conns o1 ((p, if n_mem c old then old else old ++ [c]) :: filter (fun e => negb (fst e =? p)) (o_conns o1))
  | CConnClosed p c =>
      let rest := filter (fun x => negb (x =? c)) (conns_of o p) in
      let o1 := w_conns o ((p, rest) :: filter (fun e => negb (fst e =? p)) (o_conns o)) in
      match rest with [] => w_fresh o1 (filter (fun x => negb (x =? p)) (o_fresh o1)) | _ => o1 end
  | CIncoming p pres blocks =>
      (* a block is accepted iff some missed query still waits for its CID; those queries are then answered.
         The peer must be known (have a connection), otherwise the message is dropped *)
      (* a message of a peer the client holds no state for is dropped (client.rs: `let Some(peer_state) = .. else return`) *)
      if negb (n_mem p known) then o else
      match conns_of o p with
      | [] => o
      | _ =>
        fold_left (fun o b =>
                     let o1 := w_arrived o (o_arrived o ++ [b]) in
                     match live_for o1 (fst b) with
                     | [] => o1
                     | qs => w_answered (w_accepted o1 (o_accepted o1 ++ [b])) (qs ++ o_answered o1)
                     end) blocks o
      end
  | CRelease k r => w_pending o (o_pending o ++ [(k, r)])
  | _ => o
  end.


(* the behaviour notices completed store calls when it is polled *)
Definition apply_release (o : ost) (kr : N * store_result) : ost :=
  let '(k, r) := kr in
  match al_get k (o_call_q o) with
  | Some q =>
      if n_mem q (o_cancelled o) || n_mem q (o_answered o) || n_mem q (o_missed o) then o else
      match r with
      | SHit d => w_answered (w_hits o ((q, d) :: o_hits o)) (q :: o_answered o)
      | SFail => w_answered (w_fails o (q :: o_fails o)) (q :: o_answered o)
      | SMiss => w_missed o (q :: o_missed o)
      end
  | None =>
      match al_get k (o_puts o), r with
      | Some bl, SFail => w_puts o (filter (fun e => negb (fst e =? k)) (o_puts o))
      | Some bl, _ => w_puts (w_put_ok o (o_put_ok o ++ bl)) (filter (fun e => negb (fst e =? k)) (o_puts o))
      | None, _ => o
      end
  end.

Definition apply_pending (o : ost) : ost := w_pending (fold_left apply_release (o_pending o) o) [].

(* --- outputs of one op *)
Definition subset_b (a b : list (cid * bytes)) : bool := incl_b blk_eqb a b.

Definition o_out (op : cop) (o : ost) (out : cout) : ost :=
  match out with
  | OQuery q =>
      (* C03: the k-th get returns k *)
      set_ok o (q + 1 =? o_next o) true true true true
  | OResponse q d =>
      let issued := q <? o_next o in
      let once := negb (n_mem q (o_done o)) in
      let not_cancelled := negb (n_mem q (o_cancelled o)) in
      (* right outcome: its own lookup hit with these bytes, or a block for ITS cid arrived with these bytes
         while it was waiting for the network *)
      let local := existsb (fun e => (fst e =? q) && bytes_eqb (snd e) d) (o_hits o) in
      let network := match al_get q (o_q o) with
                     | Some (Some c) => existsb (fun b => cid_eqb (fst b) c && bytes_eqb (snd b) d) (o_accepted o)
                                        && n_mem q (o_missed o) && n_mem q (o_answered o)
                     | _ => false
                     end in
      set_ok (w_done o (q :: o_done o)) (issued && once && not_cancelled && (local || network)) (local || network) true true true
  | OError q k =>
      let issued := q <? o_next o in
      let once := negb (n_mem q (o_done o)) in
      let not_cancelled := negb (n_mem q (o_cancelled o)) in
      let right := if k =? 0 then match al_get q (o_q o) with Some None => true | _ => false end
                   else n_mem q (o_fails o) in
      set_ok (w_done o (q :: o_done o)) (issued && once && right && not_cancelled) true true true true
  | OGet k c =>
      (* the query of a call is the oldest convertible, not yet started, not cancelled query with this cid *)
      let started := map snd (o_call_q o) in
      let cand := filter (fun e => negb (n_mem (fst e) started) && negb (n_mem (fst e) (o_cancelled o))
                                   && match snd e with Some c' => cid_eqb c c' | None => false end) (o_q o) in
      match cand with
      | e :: _ => w_call_q o (o_call_q o ++ [(k, fst e)])
      | [] => set_ok o false true true true true      (* a lookup nobody asked for *)
      end
  | OPut k bl =>
      (* C01: only accepted blocks are written, keyed as they arrived *)
      set_ok (w_puts o (o_puts o ++ [(k, bl)])) true (subset_b bl (o_accepted o)) true true true
  | ONewBlocks bl =>
      (* C01: only successfully stored accepted blocks are handed to the server half *)
      set_ok o true (subset_b bl (o_put_ok o) && subset_b bl (o_accepted o)) true true true
  | OSendWantlist p c full es =>
      let member := n_mem c (conns_of o p) in
      let first_full := if n_mem p (o_fresh o) then full else true in
      (* C15: exactly one established connection is named; C05: the first wantlist of a session is full *)
      set_ok (w_fresh o (filter (fun x => negb (x =? p)) (o_fresh o))) true true true member first_full
  | OBadChoice | OPanic | OOutOfFuel => set_ok o false false false false false
  end.

(* --- snapshot checks after an op *)
Definition snap_ok13 (after_poll : bool) (o : ost) (s : csnap) : bool :=
  match s with
  | CSnap _ cids _ peers c2q tasks abort _ _ =>
      (* no state for a peer without any connection; recorded connections are connections *)
      forallb (fun ps => match ps with PSnap p conns _ _ _ _ _ =>
                           match conns_of o p with [] => false | l => incl_b N.eqb conns l end end) peers
      (* bookkeeping of queries: cid_to_queries holds missed queries still waiting only, wantlist = its keys *)
      && forallb (fun e => forallb (fun q => negb (n_mem q (o_answered o)) && negb (n_mem q (o_cancelled o)) && n_mem q (o_missed o)) (snd e)
                           && match snd e with [] => false | _ => true end) c2q
      && set_eqb cid_eqb cids (map fst c2q)
      (* abort handles only for queries whose lookup is still outstanding (a completed lookup is noticed at the next poll) *)
      && (if after_poll
          then forallb (fun q => negb (n_mem q (o_done o)) && negb (n_mem q (o_cancelled o)) && negb (n_mem q (o_missed o))
                                 && negb (n_mem q (o_answered o))) abort
          else forallb (fun q => negb (n_mem q (o_done o)) && negb (n_mem q (o_cancelled o))) abort)
  end.

Definition snap_peers (s : csnap) : list peer :=
  match s with CSnap _ _ _ peers _ _ _ _ _ => map (fun ps => match ps with PSnap p _ _ _ _ _ _ => p end) peers end.

(* `known` = the peers the implementation held state for before this op (from the previous snapshot) *)
Definition o_step (known : list peer) (o : ost) (op : cop) (obs : cobs) : ost :=
  let o1 := match op with CPoll _ => apply_pending o | _ => o_op known o op end in
  let o2 := fold_left (o_out op) (fst obs) o1 in
  set_ok o2 true true (snap_ok13 (match op with CPoll _ => true | _ => false end) o2 (snd obs)) true true.

Fixpoint o_run (known : list peer) (o : ost) (ops : list cop) (obs : list cobs) : ost :=
  match ops, obs with
  | op :: ops', ob :: obs' => o_run (snap_peers (snd ob)) (o_step known o op ob) ops' obs'
  | _, _ => o
  end.

Definition o0 : ost := MkO 0 [] [] [] [] [] [] [] [] [] [] [] [] [] [] [] true true true true true.
Definition o_final (x : case) : ost := o_run [] o0 (snd (fst x)) (snd x).

(* C14 behaviour side: between a SendWantlist for p and the next report from that connection (or a poll
   after the 1 s timeout, or the closing of that connection) no further SendWantlist for p *)
Fixpoint c14_run (outstanding : list (peer * conn * N)) (now : N) (ops : list cop) (obs : list cobs) : bool :=
  match ops, obs with
  | op :: ops', ob :: obs' =>
      let now' := match op with CAdvance ms => now + ms | _ => now end in
      let out1 := match op with
                  | CReport p c (RpReady) | CReport p c (RpFailed _) =>
                      filter (fun e => negb ((fst (fst e) =? p) && (snd (fst e) =? c))) outstanding
                  | CConnClosed p c =>
                      (* the peer entry disappears with its last connection; a closed sending connection stays
                         outstanding until the timeout *)
                      outstanding
                  | _ => outstanding
                  end in
      (* entries older than the timeout are resolved by any poll *)
      let out2 := match op with
                  | CPoll _ => filter (fun e => now' <? snd e + RECEIVE_REQUEST_TIMEOUT) out1
                  | _ => out1
                  end in
      let sends := flat_map (fun o => match o with OSendWantlist p c _ _ => [(p, c)] | _ => [] end) (fst ob) in
      let clash := existsb (fun pc => existsb (fun e => fst (fst e) =? fst pc) out2) sends in
      let out3 := out2 ++ map (fun pc => (fst pc, snd pc, now')) sends in
      (* a peer whose state was dropped (no connection left) forgets its outstanding transmission *)
      let out4 := match snd ob with
                  | CSnap _ _ _ peers _ _ _ _ _ =>
                      filter (fun e => existsb (fun ps => match ps with PSnap p _ _ _ _ _ _ => p =? fst (fst e) end) peers) out3
                  end in
      negb clash && c14_run out4 now' ops' obs'
  | _, _ => true
  end.

Definition oracle_C03 (x : case) : bool := o_ok3 (o_final x).
Definition oracle_C01 (x : case) : bool := o_ok1 (o_final x).
Definition oracle_C13 (x : case) : bool := o_ok13 (o_final x).
Definition oracle_C15 (x : case) : bool := o_ok15 (o_final x).
Definition oracle_C05_first (x : case) : bool := o_ok5 (o_final x).
(* ... and per CONNECTION, with no timeout excuse: a connection that was handed a wantlist is not handed another one before
   its handler reported the outcome of the first (Ready or Failed) — after the 1 s timeout the behaviour gives up on that
   connection and must use another one *)
Fixpoint c14_conn_run (outstanding : list (peer * conn)) (ops : list cop) (obs : list cobs) : bool :=
  match ops, obs with
  | op :: ops', ob :: obs' =>
      let out1 := match op with
                  | CReport p c RpReady | CReport p c (RpFailed _) =>
                      filter (fun e => negb ((fst e =? p) && (snd e =? c))) outstanding
                  | _ => outstanding
                  end in
      let sends := flat_map (fun o => match o with OSendWantlist p c _ _ => [(p, c)] | _ => [] end) (fst ob) in
      let clash := existsb (fun pc => existsb (fun e => (fst e =? fst pc) && (snd e =? snd pc)) out1) sends in
      negb clash && c14_conn_run (out1 ++ sends) ops' obs'
  | _, _ => true
  end.
Definition oracle_C14 (x : case) : bool := c14_run [] 0 (snd (fst x)) (snd x) && c14_conn_run [] (snd (fst x)) (snd x).
Definition oracle_base (x : case) : bool :=
  oracle_C03 x && oracle_C01 x && oracle_C13 x && oracle_C15 x && oracle_C05_first x && oracle_C14 x.

(* diagnosis: index of the first op after which a given flag of the oracle state is false *)
Fixpoint first_bad_from (proj : ost -> bool) (known : list peer) (i : N) (o : ost) (ops : list cop) (obs : list cobs) : option N :=
  match ops, obs with
  | op :: ops', ob :: obs' =>
      let o' := o_step known o op ob in
      if proj o' then first_bad_from proj (snap_peers (snd ob)) (i + 1) o' ops' obs' else Some i
  | _, _ => None
  end.
Definition first_bad (proj : ost -> bool) (x : case) : option N := first_bad_from proj [] 0 o0 (snd (fst x)) (snd x).

Definition snap_ss (s : csnap) (p : peer) : option sending_state :=
  match s with
  | CSnap _ _ _ peers _ _ _ _ _ =>
      match find (fun ps => match ps with PSnap q _ _ _ _ _ _ => q =? p end) peers with
      | Some (PSnap _ _ ss _ _ _ _) => Some ss
      | None => None
      end
  end.

Definition sending_conn_of (ss : sending_state) : option conn :=
  match ss with
  | SsRequested _ c | SsRequestReceived _ c | SsSending _ c => Some c
  | _ => None
  end.


Definition csnap0 : csnap := CSnap 0 [] 0 [] [] 0 [] 0 0.

(* transmission faults visible to the behaviour at this op: a Failed report from the connection that is sending,
   or (at a poll) a request that stayed unacknowledged for RECEIVE_REQUEST_TIMEOUT / a recorded failure *)
Definition faults_of (prev : csnap) (now' : N) (op : cop) : list (peer * conn) :=
  match op with
  | CReport p c (RpFailed _) =>
      match snap_ss prev p with
      | Some ss => match sending_conn_of ss with Some c0 => if c0 =? c then [(p, c)] else [] | None => [] end
      | None => []
      end
  | CPoll _ =>
      flat_map (fun p => match snap_ss prev p with
                         | Some (SsRequested t c) => if RECEIVE_REQUEST_TIMEOUT <=? now' - t then [(p, c)] else []
                         | Some (SsFailed c) => [(p, c)]
                         | _ => []
                         end) (snap_peers prev)
  | _ => []
  end.

(* ---------------------------------------------------------------------------------------------- *)
(* C04 at the client level: per peer, the Bitswap reference view folded over the wantlists generated *)
(* for that peer, against W = the CIDs of the queries that wait for the network.  Same ghost          *)
(* definitions as Corr_wantlist.v (told / latest solicited answer / delivered since asked), all from   *)
(* API-level observables.  A generated wantlist is taken as delivered; C05 guarantees that whenever    *)
(* that is in doubt the next one is a full wantlist, which overwrites the view.                        *)

(* v_before: the view before the last generated wantlist; v_alt: after a transmission fault the last wantlist may or
   may not have reached the peer — the view it has if it did not (two-valued until the next full wantlist) *)
Record pv := MkPv { v_view : list cid; v_ans : list (cid * N); v_deliv : list cid; v_told : list cid;
                    v_before : list cid; v_alt : option (list cid) }.
Definition pv0 : pv := MkPv [] [] [] [] [] None.

Record c4 := MkC4 { c4_w : list cid; c4_peers : list (peer * pv); c4_ok : bool }.

Definition pv_get (p : peer) (l : list (peer * pv)) : pv := match al_get p l with Some v => v | None => pv0 end.
Definition pv_set (p : peer) (v : pv) (l : list (peer * pv)) : list (peer * pv) :=
  (p, v) :: filter (fun e => negb (fst e =? p)) l.

Definition a_set (c : cid) (v : N) (l : list (cid * N)) : list (cid * N) := (c, v) :: filter (fun e => negb (cid_eqb c (fst e))) l.
Definition a_get (c : cid) (l : list (cid * N)) : option N :=
  match find (fun e => cid_eqb c (fst e)) l with Some e => Some (snd e) | None => None end.
Definition a_del (c : cid) (l : list (cid * N)) : list (cid * N) := filter (fun e => negb (cid_eqb c (fst e))) l.

(* c becomes wanted anew: peers that delivered it have to be told again *)
Definition pv_wanted_anew (c : cid) (v : pv) : pv :=
  match a_get c (v_ans v) with
  | Some 2 => MkPv (v_view v) (a_del c (v_ans v)) (v_deliv v) (cid_remove c (v_told v)) (v_before v) (v_alt v)
  | _ => v
  end.

Definition pv_presence (v : pv) (ch : cid * bool) : pv :=
  if cid_mem (fst ch) (v_told v)
  then MkPv (v_view v) (a_set (fst ch) (if snd ch then 0 else 1) (v_ans v)) (v_deliv v) (v_told v) (v_before v) (v_alt v) else v.

(* a block for c from this peer; `accepted` = the node was waiting for it *)
Definition pv_block (accepted : bool) (v : pv) (c : cid) : pv :=
  MkPv (cid_remove c (v_view v))
       (if accepted && cid_mem c (v_told v) then a_set c 2 (v_ans v) else v_ans v)
       (if cid_mem c (v_deliv v) then v_deliv v else c :: v_deliv v) (v_told v)
       (cid_remove c (v_before v)) (option_map (cid_remove c) (v_alt v)).

Definition ge_view (v : list cid) (e : gen_entry) : list cid :=
  match fst e with KCancel => cid_remove (snd e) v | _ => if cid_mem (snd e) v then v else snd e :: v end.

(* a wantlist generated for the peer: checks, then the new ghost state *)
Definition pv_generate (w : list cid) (v : pv) (full : bool) (es : list gen_entry) : pv * bool :=
  let view1 := fold_left ge_view es (if full then [] else v_view v) in
  (* the other possibility after a fault: the previous wantlist never arrived *)
  let alt1 := if full then None else option_map (fun a => fold_left ge_view es a) (v_alt v) in
  let wants := map snd (filter is_want es) in
  let cancels := map snd (filter (fun e => negb (is_want e)) es) in
  let announced := forallb (fun c => cid_mem c (v_told v) || cid_mem c wants) w in
  let ans1 := filter (fun e => cid_mem (fst e) w) (v_ans v) in
  let deliv1 := filter (fun c => negb (cid_mem c wants)) (v_deliv v) in
  let dh1 := map fst (filter (fun e => snd e =? 1) ans1) in
  let good (view : list cid) := forallb (fun c => cid_mem c w) view
                                && forallb (fun c => cid_mem c view || cid_mem c dh1 || cid_mem c deliv1) w in
  let exact := if full then set_eqb cid_eqb wants (filter (fun c => negb (cid_mem c dh1)) w)
                            && match cancels with [] => true | _ => false end
               else true in
  (MkPv view1 ans1 deliv1 w (if full then [] else v_view v) alt1,
   announced && good view1 && match alt1 with Some a => good a | None => true end && exact).

(* a transmission fault for this peer: the last generated wantlist may not have arrived *)
Definition pv_fault (v : pv) : pv :=
  MkPv (v_view v) (v_ans v) (v_deliv v) (v_told v) (v_before v)
       (match v_alt v with Some a => Some a | None => Some (v_before v) end).

(* the live set W after an op, from the oracle state of the C03 fold: CIDs of missed queries still waiting *)
Definition live_cids (o : ost) : list cid :=
  fold_left (fun acc q =>
               if negb (n_mem q (o_answered o)) && negb (n_mem q (o_cancelled o))
               then match al_get q (o_q o) with
                    | Some (Some c) => if cid_mem c acc then acc else acc ++ [c]
                    | _ => acc
                    end
               else acc) (o_missed o) [].

Definition snap_conns (s : csnap) (p : peer) : list conn :=
  match s with
  | CSnap _ _ _ peers _ _ _ _ _ =>
      match find (fun ps => match ps with PSnap q _ _ _ _ _ _ => q =? p end) peers with
      | Some (PSnap _ conns _ _ _ _ _) => conns
      | None => []
      end
  end.
Definition is_ss_ready (o : option sending_state) : bool := match o with Some SsReady => true | _ => false end.

Definition c4_step (known : list peer) (prev : csnap) (now' : N) (o_before o_after : ost) (g : c4) (op : cop) (obs : cobs) : c4 :=
  (* sessions that ended (no state for the peer any more) are forgotten *)
  let peers00 := filter (fun e => n_mem (fst e) (snap_peers (snd obs))) (c4_peers g) in
  let faulty := map fst (faults_of prev now' op) in
  let peers0 := map (fun e => if n_mem (fst e) faulty then (fst e, pv_fault (snd e)) else e) peers00 in
  let w_before := c4_w g in
  match op with
  | CIncoming p pres blocks =>
      if negb (n_mem p known) then MkC4 w_before peers0 (c4_ok g) else
      let v1 := fold_left pv_presence pres (pv_get p peers0) in
      (* blocks one by one: accepted iff its CID is wanted at that moment *)
      let '(v2, w2) := fold_left (fun acc b => let '(v, w) := acc in
                                               let accepted := cid_mem (fst b) w in
                                               (pv_block accepted v (fst b), cid_remove (fst b) w)) blocks (v1, w_before) in
      MkC4 w2 (pv_set p v2 peers0) (c4_ok g)
  | CPoll _ =>
      (* misses noticed by this poll enlarge W before any wantlist is generated *)
      let w1 := live_cids o_after in
      let anew := filter (fun c => negb (cid_mem c w_before)) w1 in
      let peers1 := map (fun e => (fst e, fold_left (fun v c => pv_wanted_anew c v) anew (snd e))) peers0 in
      let g1 := fold_left (fun g out =>
                   match out with
                   | OSendWantlist p _ full es =>
                       let '(v', ok) := pv_generate (c4_w g) (pv_get p (c4_peers g)) full es in
                       MkC4 (c4_w g) (pv_set p v' (c4_peers g)) (c4_ok g && ok)
                   | _ => g
                   end) (fst obs) (MkC4 w1 peers1 (c4_ok g)) in
      (* a peer that was Ready with a connection before this poll and was sent nothing: update_handlers generated an
         update for it and found it empty — a generated wantlist with no entries (same checks: nothing wanted is left
         unannounced, nothing withdrawn is left in its view; `told` becomes W, so that an answer about a CID that left
         W is not solicited any more) *)
      let sent := flat_map (fun out => match out with OSendWantlist p _ _ _ => [p] | _ => [] end) (fst obs) in
      fold_left (fun g p =>
                   if is_ss_ready (snap_ss prev p) && negb (match snap_conns prev p with [] => true | _ => false end)
                      && negb (n_mem p sent) && n_mem p (snap_peers (snd obs))
                   then let '(v', ok) := pv_generate (c4_w g) (pv_get p (c4_peers g)) false [] in
                        MkC4 (c4_w g) (pv_set p v' (c4_peers g)) (c4_ok g && ok)
                   else g) (snap_peers prev) g1
  | _ =>
      (* cancels shrink W *)
      MkC4 (live_cids o_after) peers0 (c4_ok g)
  end.

Fixpoint c4_run (prev : csnap) (now : N) (o : ost) (g : c4) (ops : list cop) (obs : list cobs) : c4 :=
  match ops, obs with
  | op :: ops', ob :: obs' =>
      let known := snap_peers prev in
      let now' := match op with CAdvance ms => now + ms | _ => now end in
      let o' := o_step known o op ob in
      c4_run (snd ob) now' o' (c4_step known prev now' o o' g op ob) ops' obs'
  | _, _ => g
  end.

Definition oracle_C04 (x : case) : bool := c4_ok (c4_run csnap0 0 o0 (MkC4 [] [] true) (snd (fst x)) (snd x)).

Fixpoint c4_first_bad (prev : csnap) (now : N) (i : N) (o : ost) (g : c4) (ops : list cop) (obs : list cobs) : option N :=
  match ops, obs with
  | op :: ops', ob :: obs' =>
      let known := snap_peers prev in
      let now' := match op with CAdvance ms => now + ms | _ => now end in
      let o' := o_step known o op ob in
      let g' := c4_step known prev now' o o' g op ob in
      if c4_ok g' then c4_first_bad (snd ob) now' (i + 1) o' g' ops' obs' else Some i
  | _, _ => None
  end.
Definition first_bad_c4 (x : case) : option N := c4_first_bad csnap0 0 0 o0 (MkC4 [] [] true) (snd (fst x)) (snd x).

Definition oracle_all (x : case) : bool := oracle_base x && oracle_C04 x.

(* ---------------------------------------------------------------------------------------------- *)
(* C05 (behaviour side), second half: after a transmission fault the next wantlist for that peer is a  *)
(* full one and avoids the faulty connection.  Faults are read off the ops and the implementation's own *)
(* snapshots: a Failed report from the connection that is sending, or a request that was not           *)
(* acknowledged for RECEIVE_REQUEST_TIMEOUT when a poll notices it.                                    *)
(* A third kind of fault is read off the ops alone, so that it does not depend on how the implementation records it: a
   wantlist was handed to connection c (`OSendWantlist p c`) and c is closed before ANY report about that transmission came
   back from c — what the peer received is unknown (nothing, in fact).  `inflight` = transmissions handed over and not yet
   acknowledged by a report from their connection.  (A report that arrives from c after c was closed is outside the swarm's
   contract; it withdraws the fault rather than raising an alarm about what the code does with it.) *)
Definition pc_eqb (a b : peer * conn) : bool := (fst a =? fst b) && (snd a =? snd b).
Definition pc_remove (x : peer * conn) (l : list (peer * conn)) : list (peer * conn) := filter (fun y => negb (pc_eqb x y)) l.

Fixpoint c5_run (prev : csnap) (now : N) (faults cfaults inflight : list (peer * conn)) (ops : list cop) (obs : list cobs) : bool :=
  match ops, obs with
  | op :: ops', ob :: obs' =>
      let now' := match op with CAdvance ms => now + ms | _ => now end in
      let closed_unacked := match op with
                            | CConnClosed p c => if existsb (pc_eqb (p, c)) inflight then [(p, c)] else []
                            | _ => []
                            end in
      let cfaults0 := match op with CReport p c _ => pc_remove (p, c) cfaults | _ => cfaults end in
      let inflight0 := match op with
                       | CReport p c _ | CConnClosed p c => pc_remove (p, c) inflight
                       | _ => inflight
                       end in
      let faults1 := faults_of prev now' op ++ faults in
      let cfaults1 := closed_unacked ++ cfaults0 in
      (* every wantlist sent by this op to a peer with a pending fault must be full and avoid that connection *)
      let sends := flat_map (fun o => match o with OSendWantlist p c f _ => [(p, c, f)] | _ => [] end) (fst ob) in
      let ok := forallb (fun s => let '(p, c, f) := s in
                                  forallb (fun pc => if fst pc =? p then f && negb (snd pc =? c) else true) (faults1 ++ cfaults1)) sends in
      let settled := fun (l : list (peer * conn)) =>
                       filter (fun pc => negb (existsb (fun s => fst (fst s) =? fst pc) sends)
                                         (* a peer whose state is gone starts a new session when it comes back *)
                                         && n_mem (fst pc) (snap_peers (snd ob))) l in
      let inflight1 := filter (fun pc => n_mem (fst pc) (snap_peers (snd ob)))
                              (map (fun s => (fst (fst s), snd (fst s))) sends
                               ++ filter (fun pc => negb (existsb (fun s => fst (fst s) =? fst pc) sends)) inflight0) in
      ok && c5_run (snd ob) now' (settled faults1) (settled cfaults1) inflight1 ops' obs'
  | _, _ => true
  end.

Definition oracle_C05_faults (x : case) : bool := c5_run csnap0 0 [] [] [] (snd (fst x)) (snd x).

(* C05, third clause: "every connected peer is sent a full wantlist at least once per 30 s refresh period".  The refresh
   period is the client's interval timer under the virtual clock: it fires at the first poll at or after its deadline and
   is re-armed for 30 s from that poll; the timer itself is not observable, its deadline is a function of the poll times.
   Every peer the implementation holds state for when it fires is OWED a full wantlist; the debt is paid by a full
   wantlist to that peer and cancelled when the peer's state is dropped (its next session starts with a full one).  A
   poll that finds an owing peer Ready (in the implementation's own snapshot before the poll) with a connection must
   send it a wantlist, and that wantlist must be full. *)
Fixpoint c5r_run (prev : csnap) (now deadline : N) (owed : list peer) (ops : list cop) (obs : list cobs) : bool :=
  match ops, obs with
  | op :: ops', ob :: obs' =>
      let now' := match op with CAdvance ms => now + ms | _ => now end in
      match op with
      | CPoll _ =>
          let fired := deadline <=? now' in
          let deadline' := if fired then now' + SEND_FULL_INTERVAL else deadline in
          let owed1 := if fired then owed ++ filter (fun p => negb (n_mem p owed)) (snap_peers prev) else owed in
          let fulls := flat_map (fun o => match o with OSendWantlist p _ true _ => [p] | _ => [] end) (fst ob) in
          let ok := forallb (fun p => if is_ss_ready (snap_ss prev p) && negb (match snap_conns prev p with [] => true | _ => false end)
                                      then n_mem p fulls else true) owed1 in
          let owed2 := filter (fun p => negb (n_mem p fulls) && n_mem p (snap_peers (snd ob))) owed1 in
          ok && c5r_run (snd ob) now' deadline' owed2 ops' obs'
      | _ =>
          let owed1 := filter (fun p => n_mem p (snap_peers (snd ob))) owed in
          c5r_run (snd ob) now' deadline owed1 ops' obs'
      end
  | _, _ => true
  end.
Definition oracle_C05_refresh (x : case) : bool := c5r_run csnap0 0 SEND_FULL_INTERVAL [] (snd (fst x)) (snd x).

(* how often the refresh clause was exercised: some poll found an owing peer *)
Fixpoint c5r_count (prev : csnap) (now deadline : N) (ops : list cop) (obs : list cobs) : bool :=
  match ops, obs with
  | op :: ops', ob :: obs' =>
      let now' := match op with CAdvance ms => now + ms | _ => now end in
      match op with
      | CPoll _ => if (deadline <=? now') && negb (match snap_peers prev with [] => true | _ => false end) then true
                   else c5r_count (snd ob) now' (if deadline <=? now' then now' + SEND_FULL_INTERVAL else deadline) ops' obs'
      | _ => c5r_count (snd ob) now' deadline ops' obs'
      end
  | _, _ => false
  end.
Definition refresh_exercised (x : case) : bool := c5r_count csnap0 0 SEND_FULL_INTERVAL (snd (fst x)) (snd x).

(* C17 at the client level: a WANT_BLOCK entry for c goes to peer p only if the latest presence about c that p sent during
   the session (since the implementation holds state for p) is HAVE.  Ghost: per peer, the latest presence per CID, from the
   incoming messages only; forgotten when the implementation drops the peer's state. *)
Fixpoint c17_run (prev : csnap) (lat : list (peer * list (cid * bool))) (ops : list cop) (obs : list cobs) : bool :=
  match ops, obs with
  | op :: ops', ob :: obs' =>
      let lat1 := match op with
                  | CIncoming p pres _ =>
                      if n_mem p (snap_peers prev)
                      then let cur := match al_get p lat with Some l => l | None => [] end in
                           let cur' := fold_left (fun l ch => (fst ch, snd ch) :: filter (fun e => negb (cid_eqb (fst ch) (fst e))) l) pres cur in
                           (p, cur') :: filter (fun e => negb (fst e =? p)) lat
                      else lat
                  | _ => lat
                  end in
      let ok := forallb (fun o => match o with
                  | OSendWantlist p _ _ es =>
                      forallb (fun e => match fst e with
                                        | KWantBlock =>
                                            match al_get p lat1 with
                                            | Some l => match find (fun x => cid_eqb (snd e) (fst x)) l with Some (_, true) => true | _ => false end
                                            | None => false
                                            end
                                        | _ => true end) es
                  | _ => true end) (fst ob) in
      let lat2 := filter (fun e => n_mem (fst e) (snap_peers (snd ob))) lat1 in
      ok && c17_run (snd ob) lat2 ops' obs'
  | _, _ => true
  end.
Definition oracle_C17 (x : case) : bool := c17_run csnap0 [] (snd (fst x)) (snd x).
Definition sends_want_block (x : case) : bool :=
  existsb (fun ob => existsb (fun o => match o with OSendWantlist _ _ _ es => existsb (fun e => match fst e with KWantBlock => true | _ => false end) es | _ => false end) (fst ob)) (snd x).

Definition oracle_C05 (x : case) : bool := oracle_C05_first x && oracle_C05_faults x && oracle_C05_refresh x.
(* C15: closing one of several connections is a transmission fault only for what was in flight on it; the exchange goes on,
   whole, over a remaining connection: the next wantlist is full and avoids the closed connection *)
Definition oracle_C15_conns (x : case) : bool := oracle_C15 x && oracle_C05_faults x.
Definition oracle (x : case) : bool := oracle_all x && oracle_C05 x.
