(* Hasher.v — model of /repo/src/multihasher.rs: StandardMultihasher, MultihasherTable
   (register = push_front, hash = first answer that is not UnknownMultihashCode), and of
   utils::convert_multihash / Multihash::wrap as used by the standard hasher. *)
From BS Require Export Bytes Cid Prefix.

(* one registered Multihasher *)
Definition hasher := N -> bytes -> hash_result.

(* multihash_codetable::Code::try_from(code) + digest(data): None = code not in the table *)
Definition raw_fn := N -> bytes -> option bytes.

(* Multihash::<S>::wrap(code, digest): Err if the digest is longer than S; `size` is a u8, so a digest
   longer than 255 bytes (possible only when S > 255) is silently cut to `len mod 256` bytes. *)
Definition mh_wrap (S : N) (code : N) (d : bytes) : option multihash :=
  if S <? len d then None else Some (MkMh code (firstn (N.to_nat (len d mod 256)) d)).

(* StandardMultihasher::hash (multihasher.rs:110-122) *)
Definition std_hasher (S : N) (raw : raw_fn) : hasher :=
  fun code data =>
    match raw code data with
    | None => HErr UnknownMultihashCode
    | Some d => match mh_wrap S code d with
                | Some mh => HOk mh
                | None => HErr InvalidMultihashSize
                end
    end.

(* MultihasherTable: front of the list = most recently registered *)
Definition table := list hasher.
Definition table_new (S : N) (raw : raw_fn) : table := [std_hasher S raw].
Definition table_register (h : hasher) (t : table) : table := h :: t.

(* MultihasherTable::hash (multihasher.rs:152-170) *)
Fixpoint table_hash (t : table) (code : N) (data : bytes) : hash_result :=
  match t with
  | [] => HErr UnknownMultihashCode
  | h :: rest =>
      match h code data with
      | HErr UnknownMultihashCode => table_hash rest code data
      | r => r
      end
  end.

(* the same, also reporting how many hashers were consulted *)
Fixpoint table_hash_consulted (t : table) (code : N) (data : bytes) : hash_result * N :=
  match t with
  | [] => (HErr UnknownMultihashCode, 0)
  | h :: rest =>
      match h code data with
      | HErr UnknownMultihashCode =>
          let '(r, k) := table_hash_consulted rest code data in (r, k + 1)
      | r => (r, 1)
      end
  end.

(* a finite raw table given as an association list ((code, data) -> digest), for execution *)
Fixpoint raw_of_list (l : list (N * bytes * bytes)) : raw_fn :=
  fun code data =>
    match l with
    | [] => None
    | (c, d, dig) :: rest =>
        if (c =? code) && bytes_eqb d data then Some dig else raw_of_list rest code data
    end.
