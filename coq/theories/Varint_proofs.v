(* Varint_proofs.v — facts about the unsigned-varint model. *)
From BS Require Import Bytes Varint.
From Coq Require Import ZArith ZifyBool ZifyN ZifyNat Lia.
Open Scope N_scope.

Lemma pow7_succ i : 2 ^ (7 * (i + 1)) = 128 * 2 ^ (7 * i).
Proof.
  replace (7 * (i + 1)) with (7 + 7 * i) by lia.
  rewrite N.pow_add_r. reflexivity.
Qed.

Lemma pow7_pos i : 0 < 2 ^ (7 * i).
Proof. apply N.neq_0_lt_0, N.pow_nonzero; lia. Qed.

Lemma add128_mod n : (n mod 128 + 128) mod 128 = n mod 128.
Proof.
  assert (n mod 128 < 128) by (apply N.mod_lt; lia). lia.
Qed.

(* 128 <= n and n * 2^(7 i) < 2^64 force i <= 8 *)
Lemma index_bound n i : 128 <= n -> n * 2 ^ (7 * i) < two64 -> i < 9.
Proof.
  intros Hn Hlt. destruct (N.lt_ge_cases i 9) as [|Hge]; [assumption|exfalso].
  assert (H1 : 2 ^ (7 * 9) <= 2 ^ (7 * i)) by (apply N.pow_le_mono_r; lia).
  assert (H2 : 128 * 2 ^ (7 * 9) <= n * 2 ^ (7 * i)) by (apply N.mul_le_mono; assumption).
  unfold two64 in Hlt.
  change (128 * 2 ^ (7 * 9)) with (2 ^ 70) in H2.
  assert (2 ^ 64 < 2 ^ 70) by (apply N.pow_lt_mono_r; lia). lia.
Qed.

Lemma uv_go_enc f : forall n i acc rest,
  n < 128 ^ (N.of_nat f + 1) ->
  n * 2 ^ (7 * i) < two64 ->
  (0 < i -> 0 < n) ->
  uv_go (uv_enc f n ++ rest) i acc = UvOk ((acc + n * 2 ^ (7 * i)) mod two64) rest.
Proof.
  induction f as [|f IH]; intros n i acc rest Hfuel Hfit Hmin.
  - cbn [uv_enc app uv_go].
    change (128 ^ (N.of_nat 0 + 1)) with 128 in Hfuel.
    rewrite !(N.mod_small n 128) by assumption.
    destruct (n <? 128) eqn:E1; [|lia].
    destruct ((n =? 0) && (0 <? i)) eqn:E2; [lia|reflexivity].
  - cbn [uv_enc]. destruct (n <? 128) eqn:E1.
    + cbn [app uv_go]. rewrite E1.
      rewrite (N.mod_small n 128) by lia.
      destruct ((n =? 0) && (0 <? i)) eqn:E2; [lia|reflexivity].
    + cbn [app uv_go].
      assert (Hb : n mod 128 < 128) by (apply N.mod_lt; lia).
      destruct (n mod 128 + 128 <? 128) eqn:E2; [lia|].
      assert (Hi : i < 9) by (apply (index_bound n); lia).
      destruct (i =? 9) eqn:E3; [lia|].
      rewrite add128_mod.
      assert (Hdiv : n = 128 * (n / 128) + n mod 128) by (apply N.div_mod; lia).
      rewrite IH.
      * f_equal. rewrite N.add_mod_idemp_l by (unfold two64; apply N.pow_nonzero; lia).
        f_equal. rewrite pow7_succ. rewrite Hdiv at 3. lia.
      * replace (N.of_nat (S f) + 1) with (N.succ (N.of_nat f + 1)) in Hfuel by lia.
        rewrite N.pow_succ_r' in Hfuel.
        apply N.div_lt_upper_bound; lia.
      * rewrite pow7_succ.
        assert (128 * (n / 128) <= n) by lia.
        assert (Hp := pow7_pos i).
        eapply N.le_lt_trans; [|exact Hfit].
        replace (n / 128 * (128 * 2 ^ (7 * i))) with (128 * (n / 128) * 2 ^ (7 * i)) by lia.
        apply N.mul_le_mono_r. assumption.
      * intros _. assert (128 <= n) by lia.
        apply N.div_str_pos. lia.
Qed.

(* decode (encode n ++ rest) = (n, rest) for every u64 *)
Theorem uv_decode_encode n rest : n < two64 -> uv_decode (uv_encode n ++ rest) = UvOk n rest.
Proof.
  intros Hn. unfold uv_decode, uv_encode. rewrite uv_go_enc.
  - change (2 ^ (7 * 0)) with 1. rewrite N.mul_1_r, N.add_0_l, N.mod_small by assumption. reflexivity.
  - change (128 ^ (N.of_nat 10 + 1)) with (2 ^ 77). unfold two64 in Hn.
    assert (2 ^ 64 < 2 ^ 77) by (apply N.pow_lt_mono_r; lia). lia.
  - change (2 ^ (7 * 0)) with 1. lia.
  - lia.
Qed.

(* the bytes produced by the encoder are bytes *)
Lemma uv_enc_wf f n : wf_bytes (uv_enc f n).
Proof.
  revert n; induction f as [|f IH]; intros n; cbn [uv_enc].
  - constructor; [|constructor]. assert (n mod 128 < 128) by (apply N.mod_lt; lia). lia.
  - destruct (n <? 128) eqn:E.
    + constructor; [lia|constructor].
    + constructor; [|apply IH]. assert (n mod 128 < 128) by (apply N.mod_lt; lia). lia.
Qed.

(* a successful decode is stable under appending more input *)
Lemma uv_go_app buf : forall i acc n rest tail,
  uv_go buf i acc = UvOk n rest -> uv_go (buf ++ tail) i acc = UvOk n (rest ++ tail).
Proof.
  induction buf as [|b buf IH]; intros i acc n rest tail H; cbn [uv_go app] in *; [discriminate|].
  destruct (b <? 128).
  - destruct ((b =? 0) && (0 <? i)); [discriminate|]. injection H as <- <-. reflexivity.
  - destruct (i =? 9); [discriminate|]. apply IH; assumption.
Qed.

Lemma uv_go_app_overflow buf : forall i acc tail,
  uv_go buf i acc = UvOverflow -> uv_go (buf ++ tail) i acc = UvOverflow.
Proof.
  induction buf as [|b buf IH]; intros i acc tail H; cbn [uv_go app] in *; [discriminate|].
  destruct (b <? 128).
  - destruct ((b =? 0) && (0 <? i)); discriminate.
  - destruct (i =? 9); [reflexivity|]. apply IH; assumption.
Qed.

Lemma uv_go_app_notminimal buf : forall i acc tail,
  uv_go buf i acc = UvNotMinimal -> uv_go (buf ++ tail) i acc = UvNotMinimal.
Proof.
  induction buf as [|b buf IH]; intros i acc tail H; cbn [uv_go app] in *; [discriminate|].
  destruct (b <? 128).
  - destruct ((b =? 0) && (0 <? i)); [reflexivity|discriminate].
  - destruct (i =? 9); [discriminate|]. apply IH; assumption.
Qed.

(* a decoded value is always a u64 *)
Lemma uv_go_range buf : forall i acc n rest, uv_go buf i acc = UvOk n rest -> n < two64.
Proof.
  induction buf as [|b buf IH]; intros i acc n rest H; cbn [uv_go] in H; [discriminate|].
  destruct (b <? 128).
  - destruct ((b =? 0) && (0 <? i)); [discriminate|]. injection H as <- _.
    apply N.mod_lt. unfold two64. apply N.pow_nonzero; lia.
  - destruct (i =? 9); [discriminate|]. eapply IH; eassumption.
Qed.

(* Insufficient means every byte seen so far has its continuation bit set *)
Lemma uv_go_insufficient_app buf : forall i acc,
  uv_go buf i acc = UvInsufficient ->
  exists acc', forall tail, uv_go (buf ++ tail) i acc = uv_go tail (i + len buf) acc'.
Proof.
  induction buf as [|b buf IH]; intros i acc H.
  - exists acc. intros tail. cbn [app]. rewrite len_nil, N.add_0_r. reflexivity.
  - cbn [uv_go] in H. destruct (b <? 128) eqn:E1.
    + destruct ((b =? 0) && (0 <? i)); discriminate.
    + destruct (i =? 9) eqn:E2; [discriminate|].
      destruct (IH _ _ H) as [acc' Hacc']. exists acc'. intros tail.
      cbn [app uv_go]. rewrite E1, E2, Hacc', len_cons. f_equal. lia.
Qed.
