(* Net_proofs26.v — package J, part 4: the server half of the potential (`server_phi`, Net_proofs23) through one poll,
   a released store call and an incoming wantlist. *)
From BS Require Import Server_lemmas Server_inv Wantlist_proofs Net Net_proofs6 Net_proofs23 Net_proofs25.
From Coq Require Import ZArith ZifyBool ZifyN ZifyNat Lia.
Open Scope nat_scope.

Definition sumw (wt : list (cid * list peer)) : nat := sum_by (fun x => length (snd x)) wt.
Definition bw (x : N * (cid * Server.task)) : nat := stask_w (snd (snd x)).

Lemma server_phi_eq st :
  server_phi st = sum_by stask_w (s_ready st) + sum_by bw (s_blocked st) + sumw (s_waiting st) + nonnil (s_outq st).
Proof. reflexivity. Qed.

Lemma sv_calls_app a b : sv_calls (a ++ b) = sv_calls a ++ sv_calls b.
Proof. induction a as [|o a IH]; [reflexivity|]. destruct o; cbn; rewrite IH; reflexivity. Qed.
Lemma sv_blocks_app a b : sv_blocks (a ++ b) = sv_blocks a ++ sv_blocks b.
Proof. induction a as [|o a IH]; [reflexivity|]. destruct o; cbn; rewrite IH; reflexivity. Qed.

(* ---------- the ready tasks are polled ---------- *)
Lemma fold_run_task_phi ready : forall st out,
  let r := fold_left run_task ready (st, out) in
  sum_by bw (s_blocked (fst r)) + length (sv_calls (snd r)) + length ready
  <= sum_by bw (s_blocked st) + length (sv_calls out) + sum_by stask_w ready /\
  sv_blocks (snd r) = sv_blocks out.
Proof.
  induction ready as [|t ready IH]; intros st out; cbn [fold_left]; [cbn; split; [lia | reflexivity]|].
  destruct (Server.t_todo t) as [|c rest] eqn:Et.
  - rewrite (run_task_nil _ _ _ Et). match goal with |- context [fold_left run_task ready (?s, ?o)] => specialize (IH s o) end.
    cbn zeta in *. cbn [s_blocked] in IH. destruct IH as [IH1 IH2]. split; [|exact IH2].
    assert (Ew : stask_w t = 1) by (unfold stask_w; rewrite Et; reflexivity).
    rewrite sum_by_cons, Ew. cbn [length]. lia.
  - rewrite (run_task_cons _ _ _ _ _ Et). match goal with |- context [fold_left run_task ready (?s, ?o)] => specialize (IH s o) end.
    cbn zeta in *. cbn [s_blocked] in IH. destruct IH as [IH1 IH2]. rewrite sv_calls_app, sv_blocks_app, app_length in *. cbn [sv_calls sv_blocks length] in *.
    rewrite app_nil_r in IH2. split; [|exact IH2].
    assert (Ew : stask_w t = 3 + 2 * length rest) by (unfold stask_w; rewrite Et; cbn [length]; lia).
    assert (Eb : forall k p d, bw (k, (c, Server.MkTask p d rest)) = 1 + 2 * length rest) by reflexivity.
    rewrite sum_by_app in IH1. cbn [sum_by fold_right] in IH1. rewrite Eb in IH1.
    rewrite sum_by_cons, Ew. cbn [length]. lia.
Qed.

(* ---------- update_handlers: every batch is paid by a waiter that is served ---------- *)
Lemma sumw_adel c wt peers : alookup cid_eqb c wt = Some peers -> sumw (adel cid_eqb c wt) + length peers <= sumw wt.
Proof.
  induction wt as [|[k l] wt IH]; [discriminate|]. cbn [alookup]. unfold adel, sumw in *. cbn [filter fst]. destruct (cid_eqb c k) eqn:E.
  - intros [= ->]. cbn [negb]. rewrite sum_by_cons. cbn [snd]. pose proof (sum_by_filter_le (fun x : cid * list peer => length (snd x)) (fun kv => negb (cid_eqb c (fst kv))) wt). lia.
  - intros H. cbn [negb]. rewrite !sum_by_cons. specialize (IH H). lia.
Qed.

Lemma badd_length p x m : length (badd p x m) <= length m + 1.
Proof. induction m as [|[q l] m IH]; cbn [badd length]; [lia|]. destruct (p =? q)%N; [cbn; lia|]. destruct (p <? q)%N; cbn [length]; lia. Qed.

Lemma fold_badd_length b peers : forall bat, length (fold_left (fun m p => badd p b m) peers bat) <= length bat + length peers.
Proof.
  induction peers as [|p peers IH]; intros bat; cbn [fold_left length]; [lia|]. specialize (IH (badd p b bat)). pose proof (badd_length p b bat). lia.
Qed.

Lemma uh_block_phi acc b :
  sumw (snd (fst (uh_block acc b))) + length (snd (uh_block acc b)) <= sumw (snd (fst acc)) + length (snd acc).
Proof.
  destruct acc as [[wants wt] bat]. unfold uh_block. destruct (alookup cid_eqb (fst b) wt) as [peers|] eqn:E; cbn [fst snd]; [|lia].
  pose proof (sumw_adel _ _ _ E). pose proof (fold_badd_length b peers bat). lia.
Qed.

Lemma fold_uh_block_phi q : forall acc,
  sumw (snd (fst (fold_left uh_block q acc))) + length (snd (fold_left uh_block q acc)) <= sumw (snd (fst acc)) + length (snd acc).
Proof.
  induction q as [|b q IH]; intros acc; cbn [fold_left]; [lia|]. specialize (IH (uh_block acc b)). pose proof (uh_block_phi acc b). lia.
Qed.

Lemma sv_of_sends (bat : batches) :
  sv_calls (map (fun pb => LSend (fst pb) (snd pb)) bat) = [] /\ length (sv_blocks (map (fun pb => LSend (fst pb) (snd pb)) bat)) = length bat.
Proof. induction bat as [|x bat [IH1 IH2]]; [auto|]. cbn. rewrite IH1, IH2. auto. Qed.

(* ---------- one poll of the server ---------- *)
Lemma phi_do_poll st :
  server_phi (fst (Server.do_poll st)) + length (sv_calls (snd (Server.do_poll st))) + length (sv_blocks (snd (Server.do_poll st)))
  + length (s_ready st) + nonnil (s_outq st) <= server_phi st.
Proof.
  unfold Server.do_poll. fold (poll_start st).
  pose proof (fold_run_task_phi (s_ready st) (poll_start st) []) as [H1 H2].
  pose proof (fold_run_task_frame (s_ready st) (poll_start st) []) as (_ & F2 & _ & _ & F5). cbn zeta in *.
  destruct (fold_left run_task (s_ready st) (poll_start st, [])) as [st1 out1]. cbn [fst snd poll_start s_blocked s_waiting s_ready sv_calls sv_blocks length] in *.
  unfold Server.update_handlers. pose proof (fold_uh_block_phi (s_outq st1) (s_wants st1, s_waiting st1, [])) as H3.
  destruct (fold_left uh_block (s_outq st1) (s_wants st1, s_waiting st1, [])) as [[wants wt] bat]. cbn [fst snd length] in *.
  destruct (sv_of_sends bat) as [E1 E2]. rewrite sv_calls_app, sv_blocks_app, !app_length, E1, E2, H2. cbn [length].
  rewrite !server_phi_eq. cbn [s_ready s_blocked s_waiting s_outq nonnil]. rewrite F5. change (sum_by stask_w []) with 0. rewrite F2 in H3. lia.
Qed.

Lemma phi_new_blocks st nb : server_phi (new_blocks_available st nb) + nonnil (s_outq st) <= server_phi st + nonnil (s_outq st ++ nb).
Proof. rewrite !server_phi_eq. cbn [new_blocks_available s_ready s_blocked s_waiting s_outq]. lia. Qed.

(* the server part of a node's poll *)
Lemma phi_srv_poll st nb :
  server_phi (fst (srv_poll st nb)) + length (sv_calls (snd (srv_poll st nb))) + length (sv_blocks (snd (srv_poll st nb)))
  + length (s_ready st) + nonnil (s_outq st) <= server_phi st.
Proof.
  unfold srv_poll. destruct nb as [|b nb]; [apply phi_do_poll|].
  pose proof (phi_do_poll (new_blocks_available st (b :: nb))) as H. pose proof (phi_new_blocks st (b :: nb)) as H2.
  cbn [new_blocks_available s_ready s_outq] in H. lia.
Qed.

(* ---------- a released store call ---------- *)
Lemma sum_bw_adel k blocked c t : alookup N.eqb k blocked = Some (c, t) -> sum_by bw (adel N.eqb k blocked) + stask_w t <= sum_by bw blocked.
Proof.
  induction blocked as [|[k0 x] l IH]; [discriminate|]. cbn [alookup]. unfold adel in *. cbn [filter fst]. destruct (k =? k0)%N eqn:E.
  - intros [= ->]. cbn [negb]. rewrite sum_by_cons. unfold bw at 2. cbn [snd].
    pose proof (sum_by_filter_le bw (fun kv : N * (cid * Server.task) => negb (k =? fst kv)%N) l). lia.
  - intros H. cbn [negb]. rewrite !sum_by_cons. specialize (IH H). lia.
Qed.

Lemma phi_release_srv st k r : server_phi (release st k r) <= server_phi st.
Proof.
  unfold release. destruct (alookup N.eqb k (s_blocked st)) as [[c t]|] eqn:E; [|lia].
  rewrite !server_phi_eq. cbn [s_ready s_blocked s_waiting s_outq]. rewrite sum_by_app. cbn [sum_by fold_right].
  pose proof (sum_bw_adel _ _ _ _ E). unfold stask_w at 2. cbn [Server.t_todo]. unfold stask_w in H. lia.
Qed.

(* ---------- an incoming wantlist ---------- *)
Definition cnt_wants (es : list entry) : nat := length (filter (fun e => negb (e_cancel e)) es).

Lemma cadd_length c s : length (cadd c s) <= length s + 1.
Proof. unfold cadd. destruct (cmem c s); [lia|]. rewrite app_length. cbn. lia. Qed.

Lemma full_collect_length Sz es : forall acc l, full_collect Sz es acc = Some l -> length l <= length acc + cnt_wants es.
Proof.
  induction es as [|e es IH]; intros acc l; cbn [full_collect]; [intros [= <-]; lia|].
  unfold cnt_wants in *. cbn [filter]. destruct (MAX_WANTLIST_ENTRIES_PER_PEER <=? len acc)%N; [intros [= <-]; lia|].
  destruct (e_cancel e); cbn [negb]; [apply IH|]. destruct (cid_read_bytes Sz (e_block e)); [| |discriminate].
  - intros H. apply IH in H. pose proof (cadd_length c acc). cbn [length]. lia.
  - intros H. apply IH in H. cbn [length]. lia.
Qed.

Lemma upd_parse_length Sz es : forall pes, upd_parse Sz es = Some pes -> length (filter (fun x => negb (fst x)) pes) <= cnt_wants es.
Proof.
  induction es as [|e es IH]; intros pes; cbn [upd_parse]; [intros [= <-]; cbn; lia|].
  unfold cnt_wants in *. cbn [filter]. destruct (cid_read_bytes Sz (e_block e)); [| |discriminate].
  - destruct (upd_parse Sz es) as [pes'|]; [|discriminate]. cbn [option_map]. intros [= <-]. cbn [filter fst]. specialize (IH pes' eq_refl).
    destruct (e_cancel e); cbn [negb length]; lia.
  - intros H. specialize (IH pes H). destruct (negb (e_cancel e)); cbn [length]; lia.
Qed.

Lemma upd_add_length adds : forall s added, length (snd (upd_add adds s added)) <= length added + length adds.
Proof.
  induction adds as [|c r IH]; intros s added; cbn [upd_add snd length]; [lia|].
  destruct (MAX_WANTLIST_ENTRIES_PER_PEER <=? len s)%N; [cbn [snd]; lia|]. destruct (cmem c s).
  - specialize (IH s added). lia.
  - specialize (IH (s ++ [c]) (added ++ [c])). rewrite app_length in IH. cbn [length] in IH. lia.
Qed.

Lemma process_wantlist_lengths Sz old w new additions removals :
  process_wantlist Sz old w = PwOk new additions removals ->
  length additions <= cnt_wants (w_entries w) /\
  (if w_full w then length new else length additions) <= cnt_wants (w_entries w).
Proof.
  unfold process_wantlist. destruct (w_full w).
  - destruct (full_collect Sz (w_entries w) []) as [l|] eqn:E; [|discriminate]. intros [= <- <- <-].
    apply full_collect_length in E. cbn [length] in E. pose proof (filter_length_le (fun c => negb (cmem c old)) l). lia.
  - destruct (upd_parse Sz (w_entries w)) as [pes|] eqn:E; [|discriminate]. apply upd_parse_length in E.
    destruct (upd_cancel (map snd (filter (fun x => fst x) pes)) old []) as [s1 removed].
    pose proof (upd_add_length (map snd (filter (fun x => negb (fst x)) pes)) s1 []) as Ha.
    destruct (upd_add (map snd (filter (fun x => negb (fst x)) pes)) s1 []) as [s2 added]. intros [= <- <- <-].
    cbn [snd length] in Ha. rewrite map_length in Ha. lia.
Qed.

Lemma swap_remove_first_length p l : length (swap_remove_first p l) <= length l.
Proof.
  induction l as [|q l IH]; cbn [swap_remove_first length]; [lia|]. destruct (q =? p)%N; [|cbn [length]; lia].
  destruct (rev l) as [|z r] eqn:E; cbn [length]; [lia|]. rewrite rev_length. 
  assert (length (rev l) = length l) by apply rev_length. rewrite E in H. cbn [length] in H. lia.
Qed.

Lemma sumw_aset c v wt peers : alookup cid_eqb c wt = Some peers -> sumw (aset cid_eqb c v wt) + length peers = sumw wt + length v.
Proof.
  induction wt as [|[k l] wt IH]; [discriminate|]. cbn [alookup aset]. unfold sumw in *. destruct (cid_eqb c k) eqn:E.
  - intros [= ->]. rewrite !sum_by_cons. cbn [snd]. lia.
  - intros H. rewrite !sum_by_cons. specialize (IH H). lia.
Qed.

Lemma cancel_request_sumw p wt c : sumw (cancel_request p wt c) <= sumw wt.
Proof.
  unfold cancel_request. destruct (alookup cid_eqb c wt) as [peers|] eqn:E; [|lia].
  destruct (list_eqb N.eqb peers [p]).
  - pose proof (sumw_adel _ _ _ E). lia.
  - pose proof (sumw_aset c (swap_remove_first p peers) wt peers E). pose proof (swap_remove_first_length p peers). lia.
Qed.

Lemma add_waiter_sumw p wt c : sumw (add_waiter p wt c) = sumw wt + 1.
Proof.
  unfold add_waiter. destruct (alookup cid_eqb c wt) as [peers|] eqn:E.
  - pose proof (sumw_aset c (peers ++ [p]) wt peers E) as H. rewrite app_length in H. cbn [length] in H. lia.
  - unfold sumw. rewrite sum_by_app. cbn. lia.
Qed.

Lemma fold_cancel_sumw p rems : forall wt, sumw (fold_left (cancel_request p) rems wt) <= sumw wt.
Proof. induction rems as [|c r IH]; intros wt; cbn [fold_left]; [lia|]. specialize (IH (cancel_request p wt c)). pose proof (cancel_request_sumw p wt c). lia. Qed.

Lemma fold_add_sumw p adds : forall wt, sumw (fold_left (add_waiter p) adds wt) = sumw wt + length adds.
Proof. induction adds as [|c r IH]; intros wt; cbn [fold_left length]; [lia|]. rewrite IH, add_waiter_sumw. lia. Qed.

Lemma phi_incoming_msg Sz st p w order :
  server_phi (process_incoming_message Sz st p w order) <= server_phi st + 1 + 3 * cnt_wants (w_entries w).
Proof.
  unfold process_incoming_message. destruct (alookup N.eqb p (s_wants st)) as [old|]; [|lia].
  destruct (process_wantlist Sz old w) as [|new additions removals] eqn:E; [rewrite !server_phi_eq; cbn [s_ready s_blocked s_waiting s_outq]; lia|].
  destruct (process_wantlist_lengths _ _ _ _ _ _ E) as [Ha Hl].
  rewrite !server_phi_eq. cbn [s_ready s_blocked s_waiting s_outq]. rewrite sum_by_app. cbn [sum_by fold_right]. unfold stask_w at 2. cbn [Server.t_todo].
  rewrite fold_add_sumw. pose proof (fold_cancel_sumw p removals (s_waiting st)) as Hc.
  assert (Hlk : length (if w_full w then if perm_ok order new then order else new else additions) <= cnt_wants (w_entries w)).
  { destruct (w_full w); [|exact Hl]. destruct (perm_ok order new) eqn:Ep; [|exact Hl]. unfold perm_ok in Ep.
    apply andb_true_iff in Ep. destruct Ep as [Ep _]. apply andb_true_iff in Ep. destruct Ep as [Ep _]. apply N.eqb_eq in Ep. unfold len in Ep. lia. }
  destruct (w_full w); lia.
Qed.

(* the wantlist a client handler writes *)
Lemma cnt_wants_proto sdh full es : cnt_wants (w_entries (proto_of sdh full es)) = count_wants es.
Proof.
  unfold proto_of, cnt_wants, count_wants. cbn [w_entries]. induction es as [|[k c] es IH]; [reflexivity|]. cbn [map filter].
  assert (E : negb (e_cancel (entry_of sdh (k, c))) = is_want (k, c)) by (destruct k; reflexivity).
  rewrite E. destruct (is_want (k, c)); cbn [length]; rewrite IH; reflexivity.
Qed.
