(* Net_proofs44.v — package K: the link between Client.v and the history model of Wantlist.v (the model C04 and C17 are stated
   on).  For ANY client op list and every peer entry (p, ps) of the client state reached, there is a history h of `hev`s
   with  hrun_from (hinit sdh) h = (cs_wl s, p_wl ps)  whose HHave events all stem from presences that peer sent
   (`got_have`), and every `OSendWantlist p c full es` of a CPoll is the output of an HGenFull / HGenUpdate step after such a
   history (`client_send_hist`).  Consequence: C17 at the client level (`C17_client_want_block_only_after_have`).
   (Client-level file; it carries a Net_proofs number because it belongs to package K.) *)
From BS Require Import Types Wantlist Client Wantlist_proofs Wantlist_proofs2 Client_proofs Client_proofs2 Client_proofs3 Client_proofs4 Client_proofs7.
From Coq Require Import ZArith ZifyBool ZifyN ZifyNat Lia.
Open Scope N_scope.

Definition wl_ev (e : hev) : Prop := match e with HInsert _ | HRemove _ => True | _ => False end.

(* a presence for c (HAVE if b, DONT_HAVE otherwise) arrived from p *)
Definition got_pres (p : peer) (c : cid) (b : bool) (ops : list cop) : Prop :=
  exists pres bl, In (CIncoming p pres bl) ops /\ In (c, b) pres.
Definition got_have (p : peer) (c : cid) (ops : list cop) : Prop := got_pres p c true ops.

(* the presence events of a history are accounted for by Q *)
Definition pev_ok (Q : cid -> bool -> Prop) (e : hev) : Prop :=
  match e with HHave c => Q c true | HDontHave c => Q c false | _ => True end.
Definition haves_ok (Q : cid -> bool -> Prop) (h : list hev) : Prop := Forall (pev_ok Q) h.

Record HL (sdh : bool) (Q : peer -> cid -> bool -> Prop) (s : cstate) : Prop := MkHL {
  hl_wl : exists h0, Forall wl_ev h0 /\ hrun_from (hinit sdh) h0 = (cs_wl s, wls_new);
  hl_peers : forall p ps, In (p, ps) (cs_peers s) ->
               exists h, hrun_from (hinit sdh) h = (cs_wl s, p_wl ps) /\ haves_ok (Q p) h
}.

Lemma haves_ok_app Q a b : haves_ok Q a -> haves_ok Q b -> haves_ok Q (a ++ b).
Proof. intros Ha Hb. apply Forall_app. auto. Qed.

Lemma haves_ok_wl_ev Q h : Forall wl_ev h -> haves_ok Q h.
Proof. apply Forall_impl. intros e He. destruct e; try destruct He; exact I. Qed.

Lemma haves_ok_nil Q : haves_ok Q [].
Proof. constructor. Qed.

Lemma haves_ok_impl (Q Q' : cid -> bool -> Prop) h : (forall c b, Q c b -> Q' c b) -> haves_ok Q h -> haves_ok Q' h.
Proof. intros HQ. apply Forall_impl. intros e He. destruct e; cbn [pev_ok] in *; auto. Qed.

Lemma haves_ok_map {A} Q (f : A -> hev) l : (forall x, pev_ok Q (f x)) -> haves_ok Q (map f l).
Proof. intros Hf. apply Forall_forall. intros e He. apply in_map_iff in He. destruct He as (x & <- & _). apply Hf. Qed.

(* the generic extension step *)
Lemma HL_extend sdh (Q Q' : peer -> cid -> bool -> Prop) s s' :
  HL sdh Q s ->
  (forall p c b, Q p c b -> Q' p c b) ->
  (exists d0, Forall wl_ev d0 /\ hrun_from (cs_wl s, wls_new) d0 = (cs_wl s', wls_new)) ->
  (forall p ps', In (p, ps') (cs_peers s') ->
     (exists ps d, In (p, ps) (cs_peers s) /\ hrun_from (cs_wl s, p_wl ps) d = (cs_wl s', p_wl ps') /\ haves_ok (Q' p) d) \/
     p_wl ps' = wls_new) ->
  HL sdh Q' s'.
Proof.
  intros [(h0 & Hw0 & E0) Hp] HQ (d0 & Hwd & Ed) Hnew.
  assert (Hwl' : exists h0', Forall wl_ev h0' /\ hrun_from (hinit sdh) h0' = (cs_wl s', wls_new)).
  { exists (h0 ++ d0). split; [apply Forall_app; auto|]. rewrite hrun_from_app, E0. exact Ed. }
  split; [exact Hwl'|]. intros p ps' Hin. destruct (Hnew p ps' Hin) as [(ps & d & Hin0 & Ed' & Hd)|Hfresh].
  - destruct (Hp p ps Hin0) as (h & Eh & Hh). exists (h ++ d). split; [rewrite hrun_from_app, Eh; exact Ed'|].
    apply haves_ok_app; [apply (haves_ok_impl (Q p)); [apply HQ | exact Hh] | exact Hd].
  - destruct Hwl' as (h0' & Hw & E). exists h0'. rewrite Hfresh. split; [exact E | apply haves_ok_wl_ev, Hw].
Qed.

(* a step that touches neither the wantlist nor any per-peer wantlist state *)
Lemma HL_same sdh Q s s' :
  HL sdh Q s -> cs_wl s' = cs_wl s ->
  (forall p ps', In (p, ps') (cs_peers s') -> (exists ps, In (p, ps) (cs_peers s) /\ p_wl ps' = p_wl ps) \/ p_wl ps' = wls_new) ->
  HL sdh Q s'.
Proof.
  intros H Ew Hp. apply (HL_extend sdh Q Q s s' H); [auto | exists []; rewrite Ew; split; [constructor | reflexivity]|].
  intros p ps' Hin. destruct (Hp p ps' Hin) as [(ps & Hin0 & E)|E]; [left | right; exact E].
  exists ps, []. rewrite Ew, E. split; [exact Hin0|]. split; [reflexivity | apply haves_ok_nil].
Qed.

Lemma HL_weaken sdh (Q Q' : peer -> cid -> bool -> Prop) s : HL sdh Q s -> (forall p c b, Q p c b -> Q' p c b) -> HL sdh Q' s.
Proof.
  intros H HQ. apply (HL_extend sdh Q Q' s s H HQ); [exists []; split; [constructor | reflexivity]|].
  intros p ps Hin. left. exists ps, []. split; [exact Hin|]. split; [reflexivity | apply haves_ok_nil].
Qed.

(* ---------- history segments ---------- *)
Lemma hrun_inserts_new w cs : snd (hrun_from (w, wls_new) (map HInsert cs)) = wls_new.
Proof.
  revert w. induction cs as [|c cs IH]; intros w; [reflexivity|]. cbn [map hrun_from hstep fst].
  destruct (wl_insert w c) as [w' b]. cbn [fst]. destruct b; apply IH.
Qed.

Lemma hrun_removes w x cs : snd (hrun_from (w, x) (map HRemove cs)) = x.
Proof. revert w. induction cs as [|c cs IH]; intros w; [reflexivity|]. cbn [map hrun_from hstep fst]. apply IH. Qed.

Lemma hrun_blocks_wl w x y cs : fst (hrun_from (w, x) (map HBlock cs)) = fst (hrun_from (w, y) (map HRemove cs)).
Proof.
  revert w x y. induction cs as [|c cs IH]; intros w x y; [reflexivity|]. cbn [map hrun_from hstep fst].
  destruct (wl_remove w c) as [w' b]. cbn [fst]. apply IH.
Qed.

Lemma surj_pair' {A B} (x : A * B) : x = (fst x, snd x).
Proof. destruct x; reflexivity. Qed.

(* presences of one message *)
Definition pres_ev (pr : cid * bool) : hev := if snd pr then HHave (fst pr) else HDontHave (fst pr).

Lemma hrun_presences w pres : forall x, hrun_from (w, x) (map pres_ev pres) = (w, fold_left apply_presence pres x).
Proof.
  induction pres as [|[c b] pres IH]; intros x; [reflexivity|]. cbn [map fold_left hrun_from]. unfold pres_ev at 1, apply_presence at 2. cbn [fst snd].
  destruct b; cbn [hstep fst]; apply IH.
Qed.

(* the blocks of one message: those processed before a (never reached) panic *)
Lemma inc_blocks_hist blocks : forall a,
  exists cs, hrun_from (ia_wl a, ia_pwl a) (map HBlock cs) = (ia_wl (fold_left inc_block blocks a), ia_pwl (fold_left inc_block blocks a)).
Proof.
  induction blocks as [|[c d] blocks IH]; intros a; [exists []; reflexivity|]. cbn [fold_left].
  destruct (IH (inc_block a (c, d))) as (cs & E). unfold inc_block in *. destruct (ia_panic a); [exists cs; exact E|].
  destruct (wl_remove (ia_wl a) c) as [w' removed] eqn:Er. destruct removed; cbn [negb] in *.
  - exists (c :: cs). cbn [map hrun_from hstep]. rewrite Er. cbn [fst]. exact E.
  - destruct (al_mem cid_eqb c (ia_c2q a)); exists cs; exact E.
Qed.

(* ---------- the steps other than CPoll ---------- *)
Lemma got_pres_mono p c b ops o : got_pres p c b ops -> got_pres p c b (ops ++ [o]).
Proof. intros (pres & bl & Hin & Hc). exists pres, bl. split; [apply in_app_iff; left; exact Hin | exact Hc]. Qed.

Lemma HL_step_nonpoll sdh ops s o :
  (forall ch, o <> CPoll ch) -> NoDup (map fst (cs_peers s)) ->
  HL sdh (fun p c b => got_pres p c b ops) s -> HL sdh (fun p c b => got_pres p c b (ops ++ [o])) (fst (cstep s o)).
Proof.
  intros Hnp Hnd H.
  assert (Hmono : forall p c b, got_pres p c b ops -> got_pres p c b (ops ++ [o])) by (intros; apply got_pres_mono; assumption).
  assert (Hsame : forall s', cs_wl s' = cs_wl s ->
            (forall p ps', In (p, ps') (cs_peers s') -> (exists ps, In (p, ps) (cs_peers s) /\ p_wl ps' = p_wl ps) \/ p_wl ps' = wls_new) ->
            HL sdh (fun p c b => got_pres p c b (ops ++ [o])) s').
  { intros s' Ew Hp. eapply HL_weaken; [eapply HL_same; eassumption | exact Hmono]. }
  assert (Hid : forall s', cs_wl s' = cs_wl s -> cs_peers s' = cs_peers s -> HL sdh (fun p c b => got_pres p c b (ops ++ [o])) s').
  { intros s' Ew Ep. apply Hsame; [exact Ew|]. intros p ps' Hin. rewrite Ep in Hin. left. eauto. }
  destruct o; cbn [cstep fst].
  - (* CNewConn *)
    unfold c_new_conn. destruct (al_mem N.eqb p (cs_peers s)); apply Hsame; try reflexivity; cbn [set_peers cs_peers]; intros k v Hin.
    + apply in_al_modify in Hin. destruct Hin as (v0 & Hv0 & ->). left. exists v0. split; [exact Hv0|]. destruct (p =? k); reflexivity.
    + apply in_peers_ins in Hin. destruct Hin as [[= -> ->]|Hin]; [right; reflexivity | left; eauto].
  - (* CConnClosed *)
    unfold c_conn_closed. destruct (al_find N.eqb p (cs_peers s)) as [ps0|]; [|apply Hid; reflexivity].
    destruct (p_conns (remove_conn c ps0)); apply Hsame; try reflexivity; cbn [set_peers cs_peers]; intros k v Hin.
    + apply filter_In in Hin. left. exists v. split; [apply Hin | reflexivity].
    + apply in_al_modify in Hin. destruct Hin as (v0 & Hv0 & ->). left. exists v0. split; [exact Hv0|]. destruct (p =? k); reflexivity.
  - (* CGet *)
    unfold c_get. destruct c; apply Hid; reflexivity.
  - (* CCancel *)
    rewrite c_cancel_unfold. cbv zeta. destruct (cancel_abort_frame s q) as (_ & _ & _ & Ew & Ep & _).
    destruct (find_query q (cs_c2q (cancel_abort s q))) as [[c qs]|]; [|apply Hid; assumption].
    destruct (swap_remove_q q qs); [|apply Hid; assumption].
    apply (HL_extend sdh _ _ s _ H Hmono); cbn [set_wl set_c2q cs_wl cs_peers]; rewrite Ew.
    + exists [HRemove c]. split; [repeat constructor | reflexivity].
    + intros k v Hin. rewrite Ep in Hin. left. exists v, [HRemove c]. split; [exact Hin|]. split; [reflexivity | repeat constructor].
  - (* CIncoming *)
    unfold c_incoming. destruct (al_find N.eqb p (cs_peers s)) as [ps0|] eqn:Ef; [|apply Hid; reflexivity].
    set (pwl := fold_left apply_presence pres (p_wl ps0)).
    set (a0 := MkInc (cs_wl s) pwl (cs_c2q s) (cs_queue s) [] false).
    destruct (inc_blocks_hist blocks a0) as (cs & Ecs). set (a := fold_left inc_block blocks a0) in *. cbn [a0 ia_wl ia_pwl] in Ecs.
    assert (Hgoal : forall s', cs_wl s' = ia_wl a ->
              cs_peers s' = al_modify N.eqb p (fun ps1 => MkPeer (p_conns ps1) (p_ss ps1) (ia_pwl a) (p_send_full ps1)) (cs_peers s) ->
              HL sdh (fun p0 c b => got_pres p0 c b (ops ++ [CIncoming p pres blocks])) s').
    { intros s' Ew Ep. apply (HL_extend sdh _ _ s s' H Hmono).
      - exists (map HRemove cs). split; [apply Forall_forall; intros e He; apply in_map_iff in He; destruct He as (x & <- & _); exact I|].
        rewrite Ew. rewrite (surj_pair' (hrun_from (cs_wl s, wls_new) (map HRemove cs))), hrun_removes, <- (hrun_blocks_wl (cs_wl s) pwl), Ecs. reflexivity.
      - intros k v Hin. rewrite Ep in Hin. apply in_al_modify in Hin. destruct Hin as (v0 & Hv0 & ->). left. rewrite Ew.
        destruct (p =? k) eqn:Ek.
        + apply N.eqb_eq in Ek. subst k. assert (v0 = ps0) by (pose proof (in_keys_find _ _ _ Hnd Hv0) as E1; congruence). subst v0.
          exists ps0, (map pres_ev pres ++ map HBlock cs). split; [exact Hv0|]. cbn [p_wl]. split.
          * rewrite hrun_from_app, hrun_presences. exact Ecs.
          * apply haves_ok_app; [|apply haves_ok_map; intros x; exact I].
            apply Forall_forall. intros e He. apply in_map_iff in He. destruct He as ([c b] & <- & Hcb).
            assert (Hg : got_pres p c b (ops ++ [CIncoming p pres blocks]))
              by (exists pres, blocks; split; [apply in_app_iff; right; left; reflexivity | exact Hcb]).
            unfold pres_ev. cbn [fst snd]. destruct b; exact Hg.
        + exists v0, (map HRemove cs). split; [exact Hv0|]. split.
          * rewrite (surj_pair' (hrun_from (cs_wl s, p_wl v0) (map HRemove cs))), hrun_removes, <- (hrun_blocks_wl (cs_wl s) pwl), Ecs. reflexivity.
          * apply haves_ok_map. intros x. exact I. }
    destruct (ia_panic a); [apply Hgoal; reflexivity|]. destruct (ia_new a); apply Hgoal; reflexivity.
  - (* CReport *)
    apply Hsame; [reflexivity|]. cbn [c_report set_peers cs_peers]. intros k v Hin. apply in_al_modify in Hin. destruct Hin as (v0 & Hv0 & ->).
    left. exists v0. split; [exact Hv0|]. destruct (p =? k); [destruct (report_accepted v0 c)|]; reflexivity.
  - (* CRelease *)
    unfold c_release. destruct (find (call_is call) (cs_tasks s)) as [[tid t]|]; apply Hid; reflexivity.
  - (* CAdvance *) apply Hid; reflexivity.
  - exfalso. eapply Hnp. reflexivity.
  - (* CTakeNewBlocks *) apply Hid; reflexivity.
Qed.

(* ---------- CPoll: the timer and the tasks ---------- *)
Lemma HL_after_timer sdh Q s : HL sdh Q s -> HL sdh Q (after_timer s).
Proof.
  intros H. unfold after_timer. destruct (timer_ready (set_queue s [])).
  - apply (HL_same sdh Q s); [exact H | reflexivity|]. cbn [fire_timer set_queue cs_peers]. intros p ps' Hin.
    apply in_map_iff in Hin. destruct Hin as ([k v] & [= <- <-] & Hin). left. exists v. split; [exact Hin | reflexivity].
  - apply (HL_same sdh Q s); [exact H | reflexivity|]. intros p ps' Hin. left. eauto.
Qed.

Lemma HL_after_tasks sdh Q s : HL sdh Q s -> HL sdh Q (after_tasks s).
Proof.
  intros H. destruct (after_tasks_frame s) as (_ & Ew & Ep & _). apply (HL_same sdh Q s); [exact H | exact Ew|].
  intros p ps' Hin. rewrite Ep in Hin. left. eauto.
Qed.

Lemma HL_handle sdh Q s r : HL sdh Q s -> HL sdh Q (fst (handle_task_result s r)).
Proof.
  intros H.
  assert (Hid : forall s', cs_wl s' = cs_wl s -> cs_peers s' = cs_peers s -> HL sdh Q s').
  { intros s' Ew Ep. apply (HL_same sdh Q s); [exact H | exact Ew|]. intros p ps' Hin. rewrite Ep in Hin. left. eauto. }
  destruct r as [q c res|ok bl|]; cbn [handle_task_result]; [|destruct ok; apply Hid; reflexivity | apply Hid; reflexivity].
  destruct res; cbn [fst]; try (apply Hid; reflexivity).
  cbn [set_abort cs_wl]. destruct (wl_insert (cs_wl s) c) as [w' inserted] eqn:Ei.
  apply (HL_extend sdh Q Q s _ H); [auto | |].
  - exists [HInsert c]. split; [repeat constructor|]. cbn [hrun_from hstep]. rewrite Ei. cbn [fst].
    destruct inserted; cbn [set_c2q set_peers set_wl cs_wl]; reflexivity.
  - intros k v Hin. left. destruct inserted; cbn [set_c2q set_peers set_wl set_abort cs_wl cs_peers] in *.
    + unfold wanted_again_all in Hin. apply in_map_iff in Hin. destruct Hin as ([k0 v0] & [= <- <-] & Hin).
      exists v0, [HInsert c]. split; [exact Hin|]. split; [|repeat constructor]. cbn [hrun_from hstep snd p_wl]. rewrite Ei. reflexivity.
    + exists v, [HInsert c]. split; [exact Hin|]. split; [|repeat constructor]. cbn [hrun_from hstep]. rewrite Ei. reflexivity.
Qed.

Lemma HL_tasks_run sdh Q s outs s' : tasks_run s outs s' -> HL sdh Q s -> HL sdh Q s'.
Proof.
  induction 1 as [s Hr | s r outs s' Hr Hrun IH]; intros H; [apply HL_after_tasks, H|].
  apply IH, HL_handle, HL_after_tasks, H.
Qed.

(* ---------- CPoll: update_handlers ---------- *)
(* one entry through uh_peer: either left alone, or one generate step is appended *)
Lemma uh_keep_hist now w ch p ps p' ps' :
  In (p', ps') (uh_keep now w ch (p, ps)) ->
  p' = p /\ exists d, hrun_from (w, p_wl ps) d = (w, p_wl ps') /\ forall Q, haves_ok Q d.
Proof.
  unfold uh_keep. cbn [fst snd]. pose proof (uh_peer_case now w ch p ps) as Hc.
  destruct (uh_peer now w ch p ps) as [[[ps2 evs] outs] dead].
  inversion Hc as [Hg | ps1 Hg Hcn | ps1 wls' conns Hg Hcn Hne Hsf Hgen | ps1 es wls' c bad conns sf Hg Hcn Hsf Hgen Hor Hin Hbad Hch]; subst.
  - intros [[= <- <-]|[]]. split; [reflexivity|]. exists []. split; [reflexivity | intros Q; constructor].
  - intros [].
  - intros [[= <- <-]|[]]. split; [reflexivity|]. exists [HGenUpdate]. cbn [hrun_from hstep p_wl fst]. rewrite <- (uh_gate_wl _ _ _ Hg), Hgen.
    split; [reflexivity | intros Q; repeat constructor].
  - intros [[= <- <-]|[]]. split; [reflexivity|]. rewrite (uh_gate_wl _ _ _ Hg) in Hgen. destruct (p_send_full ps1).
    + exists [HGenFull]. cbn [hrun_from hstep p_wl fst]. rewrite Hgen. split; [reflexivity | intros Q; repeat constructor].
    + exists [HGenUpdate]. cbn [hrun_from hstep p_wl fst]. rewrite Hgen. split; [reflexivity | intros Q; repeat constructor].
Qed.

Lemma uh_events_hist now w ch p ps p' c f es :
  In (EvSend p' c f es) (uh_events now w ch (p, ps)) ->
  p' = p /\ exists e, snd (hstep (w, p_wl ps) e) = Some (f, es).
Proof.
  unfold uh_events. cbn [fst snd]. pose proof (uh_peer_case now w ch p ps) as Hc.
  destruct (uh_peer now w ch p ps) as [[[ps2 evs] outs] dead].
  inversion Hc as [Hg | ps1 Hg Hcn | ps1 wls' conns Hg Hcn Hne Hsf Hgen | ps1 es0 wls' c0 bad conns sf Hg Hcn Hsf Hgen Hor Hin Hbad Hch]; subst; try (intros []; fail).
  intros [[= <- <- <- <-]|[]]. split; [reflexivity|]. rewrite (uh_gate_wl _ _ _ Hg) in Hgen. destruct (p_send_full ps1).
  - exists HGenFull. cbn [hstep]. rewrite Hgen. reflexivity.
  - exists HGenUpdate. cbn [hstep]. rewrite Hgen. reflexivity.
Qed.

Lemma HL_step_poll sdh Q s ch : HL sdh Q s -> HL sdh Q (fst (c_poll s ch)).
Proof.
  intros H. destruct (c_poll_summary_ex s ch) as (outsC & sC & Hrun & _ & ->).
  pose proof (HL_tasks_run sdh Q _ _ _ Hrun (HL_after_timer sdh Q s H)) as HC.
  apply (HL_extend sdh Q Q sC _ HC); [auto | exists []; split; [constructor | reflexivity]|].
  cbn [set_queue set_peers cs_peers cs_wl]. intros p ps' Hin. apply in_flat_map in Hin. destruct Hin as ([k v] & Hkv & Hin).
  destruct (uh_keep_hist _ _ _ _ _ _ _ Hin) as (-> & d & Ed & Hd). left. exists v, d. split; [exact Hkv|]. split; [exact Ed | apply Hd].
Qed.

(* ---------- the run ---------- *)
Theorem client_hist_link sdh ops : HL sdh (fun p c b => got_pres p c b ops) (st_after sdh ops).
Proof.
  induction ops as [|o ops IH] using rev_ind.
  - split; [exists []; split; [constructor | reflexivity] | intros p ps []].
  - rewrite st_after_snoc. destruct (INVS_run sdh ops) as [Hnd _].
    assert (Hcase : (exists ch, o = CPoll ch) \/ (forall ch, o <> CPoll ch)) by (destruct o; try (right; discriminate); left; eauto).
    destruct Hcase as [(ch & ->)|Hnp].
    + cbn [cstep]. eapply HL_weaken; [apply HL_step_poll, IH|]. intros p c b. apply got_pres_mono.
    + apply HL_step_nonpoll; assumption.
Qed.

(* every peer entry of a reachable client state is a state of the history model *)
Corollary client_state_is_history sdh ops p ps :
  In (p, ps) (cs_peers (st_after sdh ops)) ->
  exists h, st_of sdh h = (cs_wl (st_after sdh ops), p_wl ps) /\ haves_ok (fun c b => got_pres p c b ops) h.
Proof. intros Hin. destruct (client_hist_link sdh ops) as [_ Hp]. exact (Hp p ps Hin). Qed.

(* every wantlist a poll hands to a connection is the output of a generate step of the history model *)
Theorem client_send_hist sdh ops ch p c f es :
  In (OSendWantlist p c f es) (snd (c_poll (st_after sdh ops) ch)) ->
  exists h e, snd (hstep (hrun_from (hinit sdh) h) e) = Some (f, es) /\ haves_ok (fun x b => got_pres p x b ops) h.
Proof.
  intros Hin. set (s := st_after sdh ops) in *.
  destruct (c_poll_summary_ex s ch) as (outsC & sC & Hrun & Hsum & _).
  pose proof (HL_tasks_run sdh _ _ _ _ Hrun (HL_after_timer sdh _ s (client_hist_link sdh ops))) as [_ HC].
  destruct (send_in_poll s ch _ _ _ p c f es (INVS_run sdh ops) Hsum Hin) as (ps1 & Hin1 & Hev).
  destruct (uh_events_hist _ _ _ _ _ _ _ _ _ Hev) as (_ & e & He).
  destruct (HC p ps1 Hin1) as (h & Eh & Hh). exists h, e. rewrite Eh. split; [exact He | exact Hh].
Qed.

(* C17 for the client: a WANT_BLOCK entry for c goes to p only after p sent HAVE c *)
Theorem C17_client_want_block_only_after_have sdh ops ch p c f es x :
  In (OSendWantlist p c f es) (snd (c_poll (st_after sdh ops) ch)) -> In (KWantBlock, x) es -> got_have p x ops.
Proof.
  intros Hin Hx. destruct (client_send_hist sdh ops ch p c f es Hin) as (h & e & He & Hh).
  destruct (C17_want_block_only_after_have sdh h e f es x He Hx) as (_ & h1 & h2 & -> & _).
  unfold haves_ok in Hh. rewrite Forall_forall in Hh. apply (Hh (HHave x)). apply in_app_iff. right. left. reflexivity.
Qed.
