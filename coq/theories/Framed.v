(* Framed.v — model of `asynchronous_codec::FramedRead2::poll_next`
   (asynchronous-codec-0.7.0/src/framed_read.rs:166-203) over the `Codec` of Frame.v, and of the way
   `IncomingStream::poll_next` (/repo/src/incoming_stream.rs:86-99) drives it.  Definitions only.

   fn poll_next(..) {
       if let Some(item) = decode(&mut buffer)? { return Ready(Some(Ok(item))) }
       let mut buf = [0u8; 8192];
       loop {
           let n = ready!(poll_read(cx, &mut buf))?;      // Pending -> Pending, Err -> Ready(Some(Err))
           buffer.extend_from_slice(&buf[..n]);
           let ended = n == 0;
           match decode(&mut buffer)? {
               Some(item) => return Ready(Some(Ok(item))),
               None if ended => {
                   if buffer.is_empty() { return Ready(None) }
                   else { match decode_eof(&mut buffer)? {          // decode_eof = decode (decoder.rs)
                       Some(item) => return Ready(Some(Ok(item))),
                       None if buffer.is_empty() => return Ready(None),
                       None => return Ready(Some(Err(UnexpectedEof "bytes remaining in stream"))) } } }
               _ => continue } } }

   One call of `poll_next` is given the list of outcomes of the `poll_read` calls still to come and
   consumes them in order; it returns the new buffer and the unconsumed outcomes.  An exhausted list
   behaves as a pending read (the peer has sent nothing more yet). *)
From BS Require Export Bytes Varint Frame.

(* outcome of one `poll_read(cx, &mut [0u8; 8192])` *)
Inductive read_ev :=
| Chunk (bs : bytes)      (* Ready(Ok(n)), n = len bs, 1..8192 bytes (an empty chunk is n = 0) *)
| Eof                     (* Ready(Ok(0)) *)
| ReadErr                 (* Ready(Err(_)) *)
| ReadPending.            (* Pending *)

Definition initial_capacity : N := 8192.

Definition chunk_ok (e : read_ev) : bool :=
  match e with Chunk bs => (1 <=? len bs) && (len bs <=? initial_capacity) | _ => true end.
Definition wf_eventsb (evs : list read_ev) : bool := forallb chunk_ok evs.
Definition wf_events (evs : list read_ev) : Prop := Forall (fun e => chunk_ok e = true) evs.

(* result of the whole stream as seen by IncomingStream *)
Inductive final :=
| FEnd          (* Ready(None): clean end of stream *)
| FErr          (* Ready(Some(Err)): IncomingStream logs and returns Ready(None) *)
| FPending      (* the read events ran out: the stream is alive and waiting *)
| FPanic
| FLoop
| FFuel.        (* the driver ran out of fuel: never for `run_stream`, Framed_proofs.run_stream_fuel *)

(* three outcomes of poll_read *)
Inductive read_res := RData (bs : bytes) | RFail | RWait.
Definition read_of (e : read_ev) : read_res :=
  match e with
  | Chunk bs => RData bs
  | Eof => RData []
  | ReadErr => RFail
  | ReadPending => RWait
  end.

(* number of payload bytes still to be read *)
Fixpoint ev_bytes (evs : list read_ev) : nat :=
  match evs with
  | [] => O
  | Chunk bs :: evs' => (length bs + ev_bytes evs')%nat
  | _ :: evs' => ev_bytes evs'
  end.

(* every poll_next either consumes a read event or takes a frame (>= 1 byte) out of the buffer *)
Definition stream_fuel (buf : bytes) (evs : list read_ev) : nat :=
  S (length evs + length buf + ev_bytes evs).

Section Framed.
  Variable msg : Type.
  Variable parse : bytes -> N -> parse_result msg.

  Inductive poll_out :=
  | Item (m : msg)      (* Ready(Some(Ok m)) *)
  | StreamErr           (* Ready(Some(Err _)) *)
  | StreamEnd           (* Ready(None) *)
  | Pending
  | Panicked
  | Looped.

  (* the `None if ended` arm; `buf` is the buffer on which `decode` has just returned None *)
  Definition eof_branch (buf : bytes) : poll_out * bytes :=
    match buf with
    | [] => (StreamEnd, buf)
    | _ :: _ =>
        match frame_decode parse buf with           (* decode_eof = decode *)
        | DItem m rest => (Item m, rest)
        | DNeedMore => (match buf with [] => StreamEnd | _ :: _ => StreamErr end, buf)
        | DErr => (StreamErr, buf)
        | DPanic => (Panicked, buf)
        | DLoop => (Looped, buf)
        end
    end.

  (* the `loop { .. }`; also returns, as ghost output for the buffer bound, the length of the buffer
     after every `extend_from_slice` *)
  Fixpoint read_loop_tr (buf : bytes) (evs : list read_ev) : (poll_out * bytes * list read_ev) * list N :=
    match evs with
    | [] => ((Pending, buf, []), [])
    | e :: evs' =>
        match read_of e with
        | RWait => ((Pending, buf, evs'), [])
        | RFail => ((StreamErr, buf, evs'), [])
        | RData bs =>
            let buf' := buf ++ bs in
            let ended := len bs =? 0 in
            match frame_decode parse buf' with
            | DItem m rest => ((Item m, rest, evs'), [len buf'])
            | DErr => ((StreamErr, buf', evs'), [len buf'])
            | DPanic => ((Panicked, buf', evs'), [len buf'])
            | DLoop => ((Looped, buf', evs'), [len buf'])
            | DNeedMore =>
                if ended then
                  let (o, b) := eof_branch buf' in ((o, b, evs'), [len buf'])
                else
                  let (r, tr) := read_loop_tr buf' evs' in (r, len buf' :: tr)
            end
        end
    end.

  (* the same loop without the ghost output (Framed_proofs.read_loop_tr_fst) *)
  Fixpoint read_loop (buf : bytes) (evs : list read_ev) : poll_out * bytes * list read_ev :=
    match evs with
    | [] => (Pending, buf, [])
    | e :: evs' =>
        match read_of e with
        | RWait => (Pending, buf, evs')
        | RFail => (StreamErr, buf, evs')
        | RData bs =>
            let buf' := buf ++ bs in
            let ended := len bs =? 0 in
            match frame_decode parse buf' with
            | DItem m rest => (Item m, rest, evs')
            | DErr => (StreamErr, buf', evs')
            | DPanic => (Panicked, buf', evs')
            | DLoop => (Looped, buf', evs')
            | DNeedMore =>
                if ended then let (o, b) := eof_branch buf' in (o, b, evs')
                else read_loop buf' evs'
            end
        end
    end.

  (* FramedRead2::poll_next: (outcome, new buffer, unconsumed read events) *)
  Definition poll_next (buf : bytes) (evs : list read_ev) : poll_out * bytes * list read_ev :=
    match frame_decode parse buf with
    | DItem m rest => (Item m, rest, evs)
    | DErr => (StreamErr, buf, evs)
    | DPanic => (Panicked, buf, evs)
    | DLoop => (Looped, buf, evs)
    | DNeedMore => read_loop buf evs
    end.

  Definition poll_next_tr (buf : bytes) (evs : list read_ev) : (poll_out * bytes * list read_ev) * list N :=
    match frame_decode parse buf with
    | DItem m rest => ((Item m, rest, evs), [])
    | DErr => ((StreamErr, buf, evs), [])
    | DPanic => ((Panicked, buf, evs), [])
    | DLoop => ((Looped, buf, evs), [])
    | DNeedMore => read_loop_tr buf evs
    end.

  (* IncomingStream: poll the framed stream until it ends, fails, or the read events run out.  An
     item is handed on and the stream is polled again; any error or end stops it for good.  A
     `Pending` with events left means the task is woken later and polls again. *)
  Fixpoint run_fuel (fuel : nat) (buf : bytes) (evs : list read_ev) : list msg * final :=
    match fuel with
    | O => ([], FFuel)
    | S f =>
        match poll_next buf evs with
        | (Item m, buf', evs') => let (ms, fin) := run_fuel f buf' evs' in (m :: ms, fin)
        | (Pending, buf', evs') =>
            match evs' with [] => ([], FPending) | _ :: _ => run_fuel f buf' evs' end
        | (StreamErr, _, _) => ([], FErr)
        | (StreamEnd, _, _) => ([], FEnd)
        | (Panicked, _, _) => ([], FPanic)
        | (Looped, _, _) => ([], FLoop)
        end
    end.

  (* ghost version: additionally the buffer length at the start of every poll_next and after every
     extend (Framed_proofs.run_fuel_tr_fst: first component = run_fuel) *)
  Fixpoint run_fuel_tr (fuel : nat) (buf : bytes) (evs : list read_ev) : (list msg * final) * list N :=
    match fuel with
    | O => (([], FFuel), [len buf])
    | S f =>
        let (r, tr) := poll_next_tr buf evs in
        match r with
        | (Item m, buf', evs') =>
            let '((ms, fin), tr') := run_fuel_tr f buf' evs' in ((m :: ms, fin), len buf :: tr ++ tr')
        | (Pending, buf', evs') =>
            match evs' with
            | [] => (([], FPending), len buf :: tr ++ [len buf'])
            | _ :: _ => let (r', tr') := run_fuel_tr f buf' evs' in (r', len buf :: tr ++ tr')
            end
        | (StreamErr, _, _) => (([], FErr), len buf :: tr)
        | (StreamEnd, _, _) => (([], FEnd), len buf :: tr)
        | (Panicked, _, _) => (([], FPanic), len buf :: tr)
        | (Looped, _, _) => (([], FLoop), len buf :: tr)
        end
    end.

  Definition run_stream (evs : list read_ev) : list msg * final :=
    run_fuel (stream_fuel [] evs) [] evs.

  Definition run_stream_tr (evs : list read_ev) : (list msg * final) * list N :=
    run_fuel_tr (stream_fuel [] evs) [] evs.
End Framed.

Arguments Item {msg} m.
Arguments StreamErr {msg}.
Arguments StreamEnd {msg}.
Arguments Pending {msg}.
Arguments Panicked {msg}.
Arguments Looped {msg}.
Arguments eof_branch {msg} parse buf.
Arguments read_loop {msg} parse buf evs.
Arguments read_loop_tr {msg} parse buf evs.
Arguments poll_next {msg} parse buf evs.
Arguments poll_next_tr {msg} parse buf evs.
Arguments run_fuel {msg} parse fuel buf evs.
Arguments run_fuel_tr {msg} parse fuel buf evs.
Arguments run_stream {msg} parse evs.
Arguments run_stream_tr {msg} parse evs.

Definition toy_poll_next := poll_next toy_parse.
Definition toy_run_stream := run_stream toy_parse.
