(* Corr_handler.v — engine `handler`: the client half of beetswap's ConnHandler driven through the
   ConnectionHandler trait and the facade over a scripted substream (harness/src/e_handler.rs), against
   Handler.v instantiated with the real message encoder (Codec.codec_encode).  Per op: the outputs in
   program order (reports, substream requests, bytes accepted by each stream, stream closed / dropped) and a
   snapshot of the handler state.  Oracles C14 / C05 (handler side) fold over ops and IMPLEMENTATION outputs. *)
From BS Require Export Bytes Proto Types FramedWrite Handler Codec.
Open Scope N_scope.

Inductive hsnap := HSnap (queue : N) (has_msg : bool) (sink : N) (ss : sending_state) (closing halted has_timeout : bool).

Definition hin := (conn * list hop)%type.
Definition hobs := (list hout * hsnap)%type.
Definition case := (hin * list hobs)%type.

Definition hsnap_of (st : hstate) : hsnap :=
  let '(q, m, k, ss, c, h, t) := h_snapshot st in HSnap q m k ss c h t.

Fixpoint run_obs (st : hstate) (ops : list hop) : list hobs :=
  match ops with
  | [] => []
  | op :: ops' => let '(st', o) := hstep codec_encode st op in (o, hsnap_of st') :: run_obs st' ops'
  end.

Definition model (x : hin) : list hobs := run_obs (h_init (fst x)) (snd x).

Definition report_eqb (a b : sending_report) : bool :=
  match a, b with
  | RpReady, RpReady => true
  | RpRequestReceived x, RpRequestReceived y | RpSending x, RpSending y | RpFailed x, RpFailed y => x =? y
  | _, _ => false
  end.

Definition hout_eqb (a b : hout) : bool :=
  match a, b with
  | HReport x, HReport y => report_eqb x y
  | HClosing, HClosing | HOpenStream, HOpenStream | HPanic, HPanic => true
  | HWrote i x, HWrote j y => (i =? j) && bytes_eqb x y
  | HStreamClosed i, HStreamClosed j | HDropped i, HDropped j => i =? j
  | _, _ => false
  end.

(* the Instants inside the states are taken by the handler itself (virtual clock): compared *)
Definition ss_eqb (a b : sending_state) : bool :=
  match a, b with
  | SsReady, SsReady => true
  | SsRequested t1 c1, SsRequested t2 c2 | SsRequestReceived t1 c1, SsRequestReceived t2 c2
  | SsSending t1 c1, SsSending t2 c2 => (t1 =? t2) && (c1 =? c2)
  | SsFailed c1, SsFailed c2 => c1 =? c2
  | _, _ => false
  end.

Definition hsnap_eqb (a b : hsnap) : bool :=
  match a, b with
  | HSnap q1 m1 k1 s1 c1 h1 t1, HSnap q2 m2 k2 s2 c2 h2 t2 =>
      (q1 =? q2) && Bool.eqb m1 m2 && (k1 =? k2) && ss_eqb s1 s2 && Bool.eqb c1 c2 && Bool.eqb h1 h2 && Bool.eqb t1 t2
  end.

Definition hobs_eqb (a b : hobs) : bool := list_eqb hout_eqb (fst a) (fst b) && hsnap_eqb (snd a) (snd b).
Definition corr (x : case) : bool := list_eqb hobs_eqb (model (fst x)) (snd x).

Fixpoint first_diff (i : N) (a b : list hobs) : option (N * bool * bool) :=
  match a, b with
  | [], [] => None
  | x :: a', y :: b' => if hobs_eqb x y then first_diff (i + 1) a' b'
                        else Some (i, list_eqb hout_eqb (fst x) (fst y), hsnap_eqb (snd x) (snd y))
  | _, _ => Some (i, false, false)
  end.
Definition where_diff (x : case) := first_diff 0 (model (fst x)) (snd x).
Definition model_at (x : case) (i : N) : option hobs := nth_error (model (fst x)) (N.to_nat i).

(* ---------------------------------------------------------------------------------------------- *)
(* C14 / C05 (handler side) on the implementation's outputs.
   State of the fold: the wantlist currently accepted and not yet resolved, what each stream has been
   written so far, whether a stream already carried a complete frame. *)
Record ho := MkHo {
  ho_cur : option wantlist;                (* accepted by send_wantlist, outcome not yet reported *)
  ho_streams : list (N * bytes);           (* bytes accepted so far by each stream *)
  ho_frames : list (N * wantlist);         (* which wantlist a stream is carrying *)
  ho_halted : bool;
  ho_ok14 : bool;
  ho_ok5 : bool
}.

Definition is_prefix_b (p l : bytes) : bool := bytes_eqb p (firstn (length p) l).

Definition frame_of (w : wantlist) : bytes := codec_encode (MkMessage (Some w) [] [] 0).

Definition ho_out (conn_id : conn) (o : ho) (out : hout) : ho :=
  match out with
  | HWrote i bs =>
      let sofar := match find (fun e => fst e =? i) (ho_streams o) with Some e => snd e | None => [] end in
      let now := sofar ++ bs in
      (* the stream carries the frame of the wantlist that was current when its first byte was written *)
      let frames := match find (fun e => fst e =? i) (ho_frames o), ho_cur o with
                    | Some _, _ => ho_frames o
                    | None, Some w => (i, w) :: ho_frames o
                    | None, None => ho_frames o
                    end in
      let ok := match find (fun e => fst e =? i) frames with
                | Some e => is_prefix_b now (frame_of (snd e))      (* never more than one frame, never other bytes *)
                | None => false                                     (* bytes without an accepted wantlist *)
                end in
      MkHo (ho_cur o) ((i, now) :: filter (fun e => negb (fst e =? i)) (ho_streams o)) frames (ho_halted o) (ho_ok14 o && ok) (ho_ok5 o)
  | HReport RpReady =>
      (* Ready is reported for w iff some stream was written the complete frame of w *)
      let ok := match ho_cur o with
                | Some w => existsb (fun e => bytes_eqb (snd e) (frame_of w)
                                              && match find (fun f => fst f =? fst e) (ho_frames o) with
                                                 | Some f => wantlist_eqb (snd f) w | None => false end) (ho_streams o)
                | None => false
                end in
      MkHo None (ho_streams o) (ho_frames o) (ho_halted o) (ho_ok14 o && ok) (ho_ok5 o)
  | HReport (RpFailed c) =>
      MkHo None (ho_streams o) (ho_frames o) (ho_halted o) (ho_ok14 o && (c =? conn_id)) (ho_ok5 o)
  | HReport (RpRequestReceived c) | HReport (RpSending c) =>
      MkHo (ho_cur o) (ho_streams o) (ho_frames o) (ho_halted o) (ho_ok14 o && (c =? conn_id)
           && match ho_cur o with Some _ => true | None => false end) (ho_ok5 o)
  | HPanic => MkHo (ho_cur o) (ho_streams o) (ho_frames o) (ho_halted o) false false
  | _ => o
  end.

Definition ho_step (conn_id : conn) (o : ho) (op : hop) (obs : hobs) : ho :=
  let halted_before := ho_halted o in
  let o1 := match op with
            | HSendWantlist w =>
                (* the discipline of the behaviour: a new wantlist only after the outcome of the previous one *)
                if halted_before then o else MkHo (Some w) (ho_streams o) (ho_frames o) (ho_halted o) (ho_ok14 o) (ho_ok5 o)
            | _ => o
            end in
  let o2 := fold_left (ho_out conn_id) (fst obs) o1 in
  let '(HSnap _ has_msg sink ss _ halted has_timeout) := snd obs in
  (* C05: while a wantlist is accepted and unresolved, the handler is either sending or has its start timer armed;
     after poll_close nothing is left unresolved *)
  let resolved := match ho_cur o2 with None => true | Some _ => false end in
  let ok5 := match op with
             | HPollClose _ => resolved
             | _ => if resolved then true
                    else if halted then false     (* halted with the outcome of an accepted wantlist still unreported: the Failed report is stuck *)
                    else match ss with
                         | SsRequestReceived _ _ => has_timeout && has_msg       (* waiting for a stream, timer armed *)
                         | SsSending _ _ => sink =? 2                           (* a stream is held and being flushed *)
                         | _ => false
                         end
             end in
  (* C14 "delivered whole or reported failed": a handler that gave up (halted) has reported the wantlist it had accepted as failed *)
  MkHo (ho_cur o2) (ho_streams o2) (ho_frames o2) halted (ho_ok14 o2 && (resolved || negb halted)) (ho_ok5 o2 && ok5).

Fixpoint ho_run (conn_id : conn) (o : ho) (ops : list hop) (obs : list hobs) : ho :=
  match ops, obs with
  | op :: ops', ob :: obs' => ho_run conn_id (ho_step conn_id o op ob) ops' obs'
  | _, _ => o
  end.

(* the environment's side of the contract (what the behaviour and libp2p-swarm guarantee): a SendWantlist only
   when the handler's last report was Ready (or none yet); SetStream / AllocFailed only as the single answer to
   an OutboundSubstreamRequest; after poll_close nothing but poll_close *)
Fixpoint disciplined (ready open closed : bool) (ops : list hop) (obs : list hobs) : bool :=
  match ops, obs with
  | op :: ops', ob :: obs' =>
      let ok := match op with
                | HSendWantlist _ => ready && negb closed
                | HSetStream | HAllocFailed => open && negb closed
                | HPoll _ => negb closed
                | _ => true
                end in
      let ready1 := match op with HSendWantlist _ => false | _ => ready end in
      let open1 := match op with HSetStream | HAllocFailed => false | _ => open end in
      let ready2 := fold_left (fun r o => match o with HReport RpReady => true | HReport _ => false | _ => r end) (fst ob) ready1 in
      let open2 := fold_left (fun r o => match o with HOpenStream => true | _ => r end) (fst ob) open1 in
      let closed2 := match op with HPollClose _ => true | _ => closed end in
      ok && disciplined ready2 open2 closed2 ops' obs'
  | _, _ => true
  end.
Definition is_disciplined (x : case) : bool := disciplined true false false (snd (fst x)) (snd x).

Definition ho_final (x : case) : ho := ho_run (fst (fst x)) (MkHo None [] [] false true true) (snd (fst x)) (snd x).
Definition oracle_C14 (x : case) : bool := if is_disciplined x then ho_ok14 (ho_final x) else true.
Definition oracle_C05 (x : case) : bool := if is_disciplined x then ho_ok5 (ho_final x) else true.
Definition oracle (x : case) : bool := oracle_C14 x && oracle_C05 x.

Fixpoint ho_first_bad (proj : ho -> bool) (conn_id : conn) (i : N) (o : ho) (ops : list hop) (obs : list hobs) : option N :=
  match ops, obs with
  | op :: ops', ob :: obs' => let o' := ho_step conn_id o op ob in
                              if proj o' then ho_first_bad proj conn_id (i + 1) o' ops' obs' else Some i
  | _, _ => None
  end.
Definition first_bad (proj : ho -> bool) (x : case) : option N :=
  ho_first_bad proj (fst (fst x)) 0 (MkHo None [] [] false true true) (snd (fst x)) (snd x).
