(* NetF_proofs10.v — package P, part 10: the window after a wantlist that failed WITHOUT being delivered.
   `dropw s` = the net s without its oldest wantlist in flight from i to j.  Every step of the window (NetF_proofs9 `win`)
   commutes with `dropw` (`nstep_dropw`), and the close of the connection drops that wantlist anyway.  Hence
   `windowed_false`: a wantlist that failed undelivered, any steps of the window, the close of the connection = the
   fault-free run in which the wantlist simply stayed in flight until the connection was closed. *)
From BS Require Import Server_lemmas Server_inv Wantlist_proofs Client_proofs Client_proofs2 Client_proofs3 Client_proofs4
  Net Net_proofs2 Net_proofs3 Net_proofs4 Net_proofs5 Net_proofs6 Net_proofs7 Net_proofs9 Net_proofs10
  NetF NetF_proofs NetF_proofs2 NetF_proofs4 NetF_proofs5 NetF_proofs9.
From Coq Require Import ZArith ZifyBool ZifyN ZifyNat Lia.
Open Scope N_scope.

(* ---------- removing the first element that satisfies f ---------- *)
Definition remove_first {A} (f : A -> bool) (l : list A) : list A :=
  match take_first f l with Some (_, r) => r | None => l end.

Lemma remove_first_cons {A} (f : A -> bool) x l :
  remove_first f (x :: l) = if f x then l else x :: remove_first f l.
Proof. unfold remove_first. cbn [take_first]. destruct (f x); [reflexivity|]. destruct (take_first f l) as [[y r]|]; reflexivity. Qed.

Lemma remove_first_app_clean {A} (f : A -> bool) l r :
  (forall x, In x r -> f x = false) -> remove_first f (l ++ r) = remove_first f l ++ r.
Proof.
  intros Hr. induction l as [|x l IH]; cbn [app].
  - unfold remove_first. assert (E : take_first f r = None).
    { induction r as [|y r IHr]; [reflexivity|]. cbn [take_first]. rewrite (Hr y (or_introl eq_refl)). rewrite IHr; [reflexivity|].
      intros z Hz. apply Hr. right. exact Hz. }
    rewrite E. reflexivity.
  - rewrite !remove_first_cons. destruct (f x); [reflexivity|]. cbn [app]. rewrite IH. reflexivity.
Qed.

Lemma take_first_remove_first {A} (f g : A -> bool) l :
  (forall x, g x = true -> f x = false) ->
  take_first g (remove_first f l) = match take_first g l with Some (x, r) => Some (x, remove_first f r) | None => None end.
Proof.
  intros Hd. induction l as [|x l IH]; [reflexivity|]. rewrite remove_first_cons. cbn [take_first]. destruct (g x) eqn:Eg.
  - rewrite (Hd x Eg). cbn [take_first]. rewrite Eg. reflexivity.
  - destruct (f x) eqn:Ef.
    + destruct (take_first g l) as [[y r]|]; [|reflexivity]. rewrite remove_first_cons, Ef. reflexivity.
    + cbn [take_first]. rewrite Eg, IH. destruct (take_first g l) as [[y r]|]; [|reflexivity]. rewrite remove_first_cons, Ef. reflexivity.
Qed.

Lemma filter_remove_first {A} (f h : A -> bool) l :
  (forall x, f x = true -> h x = true) -> filter h (remove_first f l) = remove_first f (filter h l).
Proof.
  intros Hfh. induction l as [|x l IH]; [reflexivity|]. rewrite remove_first_cons. destruct (f x) eqn:Ef.
  - cbn [filter]. rewrite (Hfh x Ef), remove_first_cons, Ef. reflexivity.
  - cbn [filter]. destruct (h x); [rewrite remove_first_cons, Ef, IH; reflexivity | exact IH].
Qed.

Lemma filter_remove_first_out {A} (f h : A -> bool) l :
  (forall x, f x = true -> h x = false) -> filter h (remove_first f l) = filter h l.
Proof.
  intros Hfh. induction l as [|x l IH]; [reflexivity|]. rewrite remove_first_cons. destruct (f x) eqn:Ef.
  - cbn [filter]. rewrite (Hfh x Ef). reflexivity.
  - cbn [filter]. rewrite IH. reflexivity.
Qed.

Definition set_wire (s : net) (ww : list wmsg) : net := MkNet (nodes s) (conns s) ww (wire_b s) (now s).

Section Drop.
  Variables (Sz : N) (Hh : hash_fn).
  Variables (i j : N).
  Local Notation win := (win i j).
  Local Notation fij := (w_between i j).

  Definition dropw (s : net) : net := set_wire s (remove_first fij (wire_w s)).

  Lemma on_node_set_wire s k f ww : on_node (set_wire s ww) k f = set_wire (on_node s k f) ww.
  Proof. unfold on_node. change (get_node (set_wire s ww) k) with (get_node s k). destruct (get_node s k); reflexivity. Qed.

  Lemma between_disjoint a b m : ~ (a = i /\ b = j) -> w_between a b m = true -> fij m = false.
  Proof.
    intros Hn Hab. destruct (between_ends a b m Hab) as [<- <-]. unfold w_between.
    destruct (wm_src m =? i) eqn:A; [|reflexivity]. destruct (wm_dst m =? j) eqn:B; [|reflexivity].
    apply N.eqb_eq in A, B. exfalso. apply Hn. auto.
  Qed.

  Theorem nstep_dropw s o : win o -> nstep Sz Hh (dropw s) o = (dropw (fst (nstep Sz Hh s o)), snd (nstep Sz Hh s o)).
  Proof.
    intros Hw. destruct o; cbn [nstep fst snd NetF_proofs9.win] in *;
      try (unfold dropw; rewrite on_node_set_wire, on_node_wire_w; reflexivity).
    - (* connect *)
      f_equal. unfold dropw, do_connect. change (get_node (set_wire s (remove_first fij (wire_w s)))) with (get_node s).
      destruct (get_node s i0); [|reflexivity]. destruct (get_node s j0); [|reflexivity].
      change (Net.connected (set_wire s (remove_first fij (wire_w s))) i0 j0) with (Net.connected s i0 j0).
      destruct ((i0 =? j0) || Net.connected s i0 j0); reflexivity.
    - (* disconnect of another pair *)
      destruct Hw as [W1 W2]. f_equal. unfold dropw, do_disconnect. change (get_node (set_wire s (remove_first fij (wire_w s)))) with (get_node s).
      destruct (get_node s i0); [|reflexivity]. destruct (get_node s j0); [|reflexivity].
      change (Net.connected (set_wire s (remove_first fij (wire_w s))) i0 j0) with (Net.connected s i0 j0).
      destruct (Net.connected s i0 j0); [|reflexivity]. unfold set_wire, set_node. cbn [nodes conns wire_w wire_b now]. f_equal.
      apply filter_remove_first. intros m Hm. destruct (between_ends i j m Hm) as [Es Ed]. unfold w_touches, w_between. rewrite Es, Ed.
      destruct ((i =? i0) && (j =? j0)) eqn:A; [apply andb_true_iff in A; destruct A as [A B]; apply N.eqb_eq in A, B; exfalso; apply W1; auto|].
      destruct ((i =? j0) && (j =? i0)) eqn:B; [apply andb_true_iff in B; destruct B as [A' B]; apply N.eqb_eq in A', B; exfalso; apply W2; auto|].
      reflexivity.
    - (* advance *) reflexivity.
    - (* poll elsewhere *)
      unfold dropw, do_poll. change (get_node (set_wire s (remove_first fij (wire_w s))) i0) with (get_node s i0).
      destruct (get_node s i0) as [n|]; [|reflexivity]. destruct (node_poll Sz n) as [n1 o].
      change (hand_over (set_wire s (remove_first fij (wire_w s))) i0) with (hand_over s i0).
      change (queue_blocks (set_wire s (remove_first fij (wire_w s))) i0) with (queue_blocks s i0).
      pose proof (hand_over_src s i0 (o_wants o) (n1, []) (fun m H => match H with end)) as Hsrc.
      destruct (fold_left (hand_over s i0) (o_wants o) (n1, [])) as [n2 ws]. cbn [fst snd] in *. f_equal.
      unfold set_wire. cbn [nodes conns wire_w wire_b now]. f_equal. symmetry. apply remove_first_app_clean.
      intros m Hm. unfold w_between. rewrite (Hsrc m Hm). replace (i0 =? i) with false by (symmetry; apply N.eqb_neq; exact Hw). reflexivity.
    - (* deliver a wantlist of another directed pair *)
      unfold dropw, do_deliver_w, set_wire. cbn [nodes conns wire_w wire_b now].
      rewrite (take_first_remove_first fij (w_between i0 j0) (wire_w s) (fun x Hx => between_disjoint i0 j0 x Hw Hx)).
      destruct (take_first (w_between i0 j0) (wire_w s)) as [[m rest]|]; [|reflexivity].
      change (get_node {| nodes := nodes s; conns := conns s; wire_w := remove_first fij rest; wire_b := wire_b s; now := now s |}) with (get_node s).
      change (get_node {| nodes := nodes s; conns := conns s; wire_w := rest; wire_b := wire_b s; now := now s |}) with (get_node s).
      destruct (get_node s i0) as [na|]; [|reflexivity]. destruct (get_node s j0) as [nb|]; [|reflexivity].
      match goal with |- context [node_incoming Sz Hh nb i0 ?M] => destruct (node_incoming Sz Hh nb i0 M) as [nb1 evs] end.
      cbn [fst snd]. f_equal.
      change (set_node {| nodes := nodes s; conns := conns s; wire_w := remove_first fij rest; wire_b := wire_b s; now := now s |} j0 nb1)
        with (set_wire (set_node {| nodes := nodes s; conns := conns s; wire_w := rest; wire_b := wire_b s; now := now s |} j0 nb1) (remove_first fij rest)).
      rewrite on_node_set_wire, on_node_wire_w. reflexivity.
    - (* deliver blocks *)
      unfold dropw, do_deliver_b, set_wire. cbn [nodes conns wire_w wire_b now]. destruct (take_first (b_between j0 i0) (wire_b s)) as [[m rest]|]; [|reflexivity].
      change (get_node {| nodes := nodes s; conns := conns s; wire_w := remove_first fij (wire_w s); wire_b := wire_b s; now := now s |} i0) with (get_node s i0).
      destruct (get_node s i0) as [na|]; [|reflexivity].
      match goal with |- context [node_incoming Sz Hh na j0 ?M] => destruct (node_incoming Sz Hh na j0 M) as [na1 evs] end. reflexivity.
  Qed.
End Drop.

Lemma al_modify_id {V} (k : N) (l : list (N * V)) : al_modify N.eqb k (fun v => v) l = l.
Proof. unfold al_modify. induction l as [|[a v] l IH]; [reflexivity|]. cbn [map fst snd]. rewrite IH. destruct (k =? a); reflexivity. Qed.

Lemma c_report_failed_twin j c :
  NoDup (map fst (cs_peers c)) ->
  c_report c j CONN (RpFailed CONN) = mark j c \/ c_report c j CONN (RpFailed CONN) = c.
Proof.
  intros Hnd. unfold c_report.
  set (fF := fun ps => if report_accepted ps CONN then MkPeer (p_conns ps) (state_of_report (cs_now c) (RpFailed CONN)) (p_wl ps) (p_send_full ps) else ps).
  assert (Hid : (forall v, In (j, v) (cs_peers c) -> fF v = v) -> set_peers c (al_modify N.eqb j fF (cs_peers c)) = c).
  { intros H. rewrite (al_modify_ext_in j fF (fun v => v) _ H), al_modify_id. destruct c; reflexivity. }
  destruct (al_find N.eqb j (cs_peers c)) as [ps|] eqn:Ef.
  - pose proof (al_find_some_in _ Neqb_spec _ _ _ Ef) as Hin.
    assert (Hu : forall v, In (j, v) (cs_peers c) -> v = ps) by (intros v Hv; eapply NoDup_keys_in_eq; eassumption).
    destruct (report_accepted ps CONN) eqn:Ea.
    + left. apply set_peers_eq. unfold markl. apply al_modify_ext_in. intros v Hv. rewrite (Hu v Hv). unfold fF. rewrite Ea. reflexivity.
    + right. apply Hid. intros v Hv. rewrite (Hu v Hv). unfold fF. rewrite Ea. reflexivity.
  - right. apply Hid. intros v Hv. exfalso. apply (al_find_none _ Neqb_spec) in Ef. apply Ef. apply in_map_iff. exists (j, v). split; [reflexivity | exact Hv].
Qed.

Section WindowF.
  Variables (Sz : N) (Hh : hash_fn).
  Hypothesis HSz : 32 <= Sz.
  Variables (i j : N).
  Local Notation markN := (markN i j).
  Local Notation dropw := (dropw i j).
  Local Notation win := (win i j).

  Lemma nrun_dropw W : Forall win W -> forall s,
    nrun Sz Hh (dropw s) W = (dropw (fst (nrun Sz Hh s W)), snd (nrun Sz Hh s W)).
  Proof.
    induction 1 as [|o W Ho _ IH]; intros s; [reflexivity|]. rewrite !(nrun_cons Sz Hh). rewrite (nstep_dropw Sz Hh i j s o Ho).
    cbn [fst snd]. rewrite IH. reflexivity.
  Qed.

  Lemma disconnect_dropw s :
    net_ok Sz Hh s -> Net.connected s i j = true -> do_disconnect Sz (dropw s) i j = do_disconnect Sz s i j.
  Proof.
    intros Hok Hc. destruct (connected_neq Sz Hh HSz s i j Hok Hc) as (Hij & Hie & Hje).
    unfold do_disconnect, NetF_proofs10.dropw. change (get_node (set_wire s (remove_first (w_between i j) (wire_w s)))) with (get_node s).
    destruct (get_node s i) as [ni|]; [|contradiction]. destruct (get_node s j) as [nj|]; [|contradiction].
    change (Net.connected (set_wire s (remove_first (w_between i j) (wire_w s))) i j) with (Net.connected s i j). rewrite Hc.
    unfold set_wire, set_node. cbn [nodes conns wire_w wire_b now]. f_equal.
    apply filter_remove_first_out. intros m Hm. unfold w_touches. rewrite Hm. reflexivity.
  Qed.

  Lemma markN_dropw s : markN (dropw s) = dropw (markN s).
  Proof. reflexivity. Qed.

  (* the failed, undelivered wantlist: the net is the (marked) twin of the net in which the wantlist is still in flight *)
  Lemma fail_false_twin s :
    net_ok Sz Hh s -> wire_conn s ->
    (Net.connected s i j = true /\
     (fst (do_fail_w Sz Hh s i j false) = markN (dropw s) \/ fst (do_fail_w Sz Hh s i j false) = dropw s)) \/
    fst (do_fail_w Sz Hh s i j false) = s.
  Proof.
    intros Hok Hwc. unfold do_fail_w.
    destruct (take_first (w_between i j) (wire_w s)) as [[m rest]|] eqn:Et; [|right; reflexivity]. left.
    destruct (inflight_ends Sz Hh HSz s i j m rest Hok Hwc Et) as (Hij & Hc & (ni & Hi) & (nj & Hj)). split; [exact Hc|].
    change (get_node {| nodes := nodes s; conns := conns s; wire_w := rest; wire_b := wire_b s; now := now s |}) with (get_node s).
    rewrite Hi, Hj. cbn [fst].
    assert (Ed : NetF_proofs10.dropw i j s = {| nodes := nodes s; conns := conns s; wire_w := rest; wire_b := wire_b s; now := now s |}).
    { unfold NetF_proofs10.dropw, set_wire, remove_first. rewrite Et. reflexivity. }
    rewrite Ed. set (s0 := {| nodes := nodes s; conns := conns s; wire_w := rest; wire_b := wire_b s; now := now s |}).
    unfold on_node. change (get_node s0 i) with (get_node s i). rewrite Hi.
    pose proof (ck_keys _ _ (nk_ck _ _ _ _ _ (no_nodes Sz Hh s Hok i ni Hi))) as Hnd.
    destruct (c_report_failed_twin j (n_client ni) Hnd) as [E|E].
    - left. unfold NetF_proofs9.markN, set_node, s0. cbn [nodes conns wire_w wire_b now]. f_equal.
      unfold marknodes. change (nth_error (nodes s) (N.to_nat i)) with (get_node s i). rewrite Hi.
      unfold node_report, markn. cbn [cstep fst]. rewrite E. reflexivity.
    - right. unfold set_node, s0. cbn [nodes conns wire_w wire_b now]. f_equal.
      apply set_nth_same. change (nth_error (nodes s) (N.to_nat i)) with (get_node s i). rewrite Hi. f_equal.
      unfold node_report. cbn [cstep fst]. rewrite E. destruct ni; reflexivity.
  Qed.

  Theorem windowed_false s W :
    net_ok Sz Hh s -> wire_conn s -> Forall win W -> Forall (nop_good Sz Hh) W ->
    let sF := fst (do_fail_w Sz Hh s i j false) in
    do_disconnect Sz (fst (nrun Sz Hh sF W)) i j = do_disconnect Sz (fst (nrun Sz Hh s W)) i j /\
    snd (nrun Sz Hh sF W) = snd (nrun Sz Hh s W).
  Proof.
    intros Hok Hwc HW Hg. cbn zeta. destruct (fail_false_twin s Hok Hwc) as [[Hc [E|E]]|E]; rewrite E; [| |split; reflexivity].
    - rewrite (nrun_markN Sz Hh i j W HW), (nrun_dropw W HW). cbn [fst snd]. split; [|reflexivity].
      assert (HokW : net_ok Sz Hh (fst (nrun Sz Hh s W))) by (apply net_ok_run; assumption).
      assert (HcW : Net.connected (fst (nrun Sz Hh s W)) i j = true) by (apply (connected_win_run Sz Hh HSz i j); assumption).
      assert (HokD : net_ok Sz Hh (dropw (fst (nrun Sz Hh s W)))) by (apply (net_ok_wires Sz Hh); [exact HokW | auto]).
      rewrite (disconnect_markN Sz Hh HSz i j _ HokD HcW). apply disconnect_dropw; assumption.
    - rewrite (nrun_dropw W HW). cbn [fst snd]. split; [|reflexivity].
      apply disconnect_dropw; [apply net_ok_run; assumption | apply (connected_win_run Sz Hh HSz i j); assumption].
  Qed.

  Theorem windowed_false_run s W (closer : bool) :
    net_ok Sz Hh s -> wire_conn s -> Forall win W -> Forall (nop_good Sz Hh) W ->
    frun Sz Hh s (FFailW i j false :: map FOp W ++ [if closer then FReconnect i j else FOp (NDisconnect i j)]) =
    nrun Sz Hh s (W ++ (if closer then [NDisconnect i j; NConnect i j] else [NDisconnect i j])).
  Proof.
    intros Hok Hwc HW Hg. destruct (windowed_false s W Hok Hwc HW Hg) as [K1 K2]. cbn zeta in K1, K2.
    rewrite frun_cons. cbn [fstep]. rewrite (fail_w_events_false Sz Hh s i j).
    rewrite frun_app, (nrun_app Sz Hh), !frun_FOp. rewrite K2. cbn [app].
    destruct closer.
    - rewrite frun_cons, !(nrun_cons Sz Hh). cbn [frun nrun fstep nstep fst snd]. unfold do_reconnect. rewrite K1. reflexivity.
    - rewrite frun_cons, !(nrun_cons Sz Hh). cbn [frun nrun fstep nstep fst snd]. rewrite K1. reflexivity.
  Qed.
End WindowF.
