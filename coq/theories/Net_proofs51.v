(* Net_proofs51.v — package Q, part 2: what a node's server keeps about a peer it is NOT connected to (C13 release, lifted).
   New net invariant `wires_conn`: every message in flight (wire_w, wire_b) is between two connected nodes
   (NDisconnect clears the wire of the pair; a poll queues for connected peers only).
   `C13_net_server_released`: in every reachable net, for every pair (j, p) that is not connected, j's server has no want
   set for p, no waiter registration naming p, and nothing is in flight between j and p in either direction.
   `connected_after_disconnect`: that is the case from an NDisconnect j p / p j until the next NConnect of the pair.
   FINDING `C13_net_server_released_refuted`: the lookup tasks (`s_ready` / `s_blocked`, with their outstanding store call in
   `n_calls`) that a wantlist of p started are NOT released by the disconnect: they run to completion for the absent peer
   (server.rs on_peer_disconnected touches peers_wantlists and peers_waiting_for_cid only, not `tasks`). *)
From BS Require Import Server_lemmas Server_inv Server_proofs Server_live Wantlist_proofs Client_proofs
  Net Net_proofs Net_props Net_proofs2 Net_proofs3 Net_proofs4 Net_proofs5 Net_proofs6 Net_proofs7 Net_proofs9 Net_proofs10 Net_proofs21 Net_proofs50.
From Coq Require Import ZArith ZifyBool ZifyN ZifyNat Lia.
Open Scope N_scope.

Local Notation cid_eqb_spec := Wantlist_proofs.cid_eqb_spec.

Definition wires_conn (s : net) : Prop :=
  (forall m, In m (wire_b s) -> Net.connected s (bm_src m) (bm_dst m) = true) /\
  (forall m, In m (wire_w s) -> Net.connected s (wm_src m) (wm_dst m) = true).

Lemma norm_eq_cases a b i j : norm a b = norm i j -> (a = i /\ b = j) \/ (a = j /\ b = i).
Proof. unfold norm. destruct (a <? b), (i <? j); intros [= -> ->]; auto. Qed.

Lemma wires_conn_frame s s' :
  (forall p, In p (conns s) -> In p (conns s')) ->
  (forall m, In m (wire_b s') -> In m (wire_b s) \/ Net.connected s (bm_src m) (bm_dst m) = true) ->
  (forall m, In m (wire_w s') -> In m (wire_w s) \/ Net.connected s (wm_src m) (wm_dst m) = true) ->
  wires_conn s -> wires_conn s'.
Proof.
  intros Hc Hb Hw [H1 H2]. split.
  - intros m Hm. apply connected_In, Hc, connected_In. destruct (Hb m Hm) as [H|H]; [apply H1, H | exact H].
  - intros m Hm. apply connected_In, Hc, connected_In. destruct (Hw m Hm) as [H|H]; [apply H2, H | exact H].
Qed.

Section NetServerReleased.
  Variables (Sz : N) (Hh : hash_fn).
  Hypothesis HSz : 32 <= Sz.

  Lemma hand_over_wconn s i L : forall acc,
    (forall m, In m (snd acc) -> Net.connected s (wm_src m) (wm_dst m) = true) ->
    forall m, In m (snd (fold_left (hand_over s i) L acc)) -> Net.connected s (wm_src m) (wm_dst m) = true.
  Proof.
    induction L as [|x L IH]; intros acc Ha; cbn [fold_left]; [exact Ha|]. apply IH.
    destruct x as [[[p cn] f] es]. unfold hand_over. destruct (Net.connected s i p) eqn:E; cbn [snd]; [|exact Ha].
    intros m Hm. apply in_app_iff in Hm. destruct Hm as [Hm|[<-|[]]]; [apply Ha, Hm | exact E].
  Qed.

  Lemma wires_conn_step s o : wires_conn s -> wires_conn (fst (nstep Sz Hh s o)).
  Proof.
    intros HW.
    assert (Hon : forall i f, wires_conn (on_node s i f)).
    { intros i f. destruct (on_node_frames s i f) as (E1 & E2 & E3). apply (wires_conn_frame s); [rewrite E1; auto | rewrite E3; auto | rewrite E2; auto | exact HW]. }
    destruct o; cbn [nstep fst]; try apply Hon.
    - unfold do_connect. destruct (get_node s i); [|exact HW]. destruct (get_node s j); [|exact HW].
      destruct ((i =? j) || Net.connected s i j); [exact HW|].
      apply (wires_conn_frame s); cbn [conns wire_b wire_w]; [intros p Hp; apply in_app_iff; auto | auto | auto | exact HW].
    - unfold do_disconnect. destruct (get_node s i); [|exact HW]. destruct (get_node s j); [|exact HW].
      destruct (Net.connected s i j); [|exact HW]. destruct HW as [H1 H2]. split; cbn [wire_b wire_w].
      + intros m Hm. apply filter_In in Hm. destruct Hm as [Hm Ht]. apply connected_In. cbn [conns]. apply filter_In.
        split; [apply connected_In, H1, Hm|]. apply negb_true_iff. apply negb_true_iff in Ht.
        destruct (pair_eqb (norm i j) (norm (bm_src m) (bm_dst m))) eqn:E; [|reflexivity].
        apply pair_eqb_spec in E. symmetry in E. apply norm_eq_cases in E. unfold b_touches, b_between in Ht.
        destruct E as [[E1 E2]|[E1 E2]]; rewrite E1, E2, !N.eqb_refl in Ht; cbn in Ht; [discriminate|]. rewrite orb_true_r in Ht. discriminate.
      + intros m Hm. apply filter_In in Hm. destruct Hm as [Hm Ht]. apply connected_In. cbn [conns]. apply filter_In.
        split; [apply connected_In, H2, Hm|]. apply negb_true_iff. apply negb_true_iff in Ht.
        destruct (pair_eqb (norm i j) (norm (wm_src m) (wm_dst m))) eqn:E; [|reflexivity].
        apply pair_eqb_spec in E. symmetry in E. apply norm_eq_cases in E. unfold w_touches, w_between in Ht.
        destruct E as [[E1 E2]|[E1 E2]]; rewrite E1, E2, !N.eqb_refl in Ht; cbn in Ht; [discriminate|]. rewrite orb_true_r in Ht. discriminate.
    - apply (wires_conn_frame s); cbn [conns wire_b wire_w]; auto.
    - unfold do_poll. destruct (get_node s i) as [n|]; [|exact HW]. destruct (node_poll Sz n) as [n1 o].
      pose proof (hand_over_wconn s i (o_wants o) (n1, []) (fun m (H : In m []) => match H with end)) as Hws.
      destruct (fold_left (hand_over s i) (o_wants o) (n1, [])) as [n2 ws]. cbn [fst snd] in *.
      apply (wires_conn_frame s); cbn [conns wire_b wire_w]; [auto | | | exact HW].
      + intros m Hm. apply in_app_iff in Hm. destruct Hm as [Hm|Hm]; [left; exact Hm | right].
        rewrite queue_blocks_fold in Hm. cbn [app] in Hm. apply in_map_iff in Hm. destruct Hm as ([p bl] & <- & Hx).
        apply filter_In in Hx. cbn [b_of bm_src bm_dst fst] in *. apply Hx.
      + intros m Hm. apply in_app_iff in Hm. destruct Hm as [Hm|Hm]; [left; exact Hm | right; apply Hws, Hm].
    - unfold do_deliver_w. destruct (take_first (w_between i j) (wire_w s)) as [[m0 rest]|] eqn:Et; [|exact HW].
      destruct (take_first_spec _ _ _ _ Et) as (_ & _ & Hsub & _).
      assert (H0 : wires_conn (MkNet (nodes s) (conns s) rest (wire_b s) (now s))) by (apply (wires_conn_frame s); cbn [conns wire_b wire_w]; auto).
      destruct (get_node _ i) as [ni|]; [|exact H0]. destruct (get_node _ j) as [nj|]; [|exact H0].
      destruct (node_incoming Sz Hh nj i _) as [nj1 evs]. cbn [fst].
      match goal with |- wires_conn (on_node ?x ?a ?f) => destruct (on_node_frames x a f) as (E1 & E2 & E3); apply (wires_conn_frame s) end;
        [rewrite E1; cbn; auto | rewrite E3; cbn; auto | rewrite E2; cbn; auto | exact HW].
    - unfold do_deliver_b. destruct (take_first (b_between j i) (wire_b s)) as [[m0 rest]|] eqn:Et; [|exact HW].
      destruct (take_first_spec _ _ _ _ Et) as (_ & _ & Hsub & _).
      destruct (get_node s i) as [ni|]; [destruct (node_incoming Sz Hh ni j _) as [ni1 evs]|]; cbn [fst];
        (apply (wires_conn_frame s); cbn [conns wire_b wire_w]; auto).
  Qed.

  Lemma wires_conn_run ops : forall s, wires_conn s -> wires_conn (fst (nrun Sz Hh s ops)).
  Proof.
    induction ops as [|o ops IH]; intros s H; [exact H|]. rewrite (nrun_cons Sz Hh). cbn [fst]. apply IH, wires_conn_step, H.
  Qed.

  Lemma wires_conn_init n : wires_conn (net_init n).
  Proof. split; intros m []. Qed.

  (* every message in flight in a reachable net is between connected nodes (no hypothesis on the op list) *)
  Theorem reachable_wires_conn n ops : wires_conn (fst (nrun Sz Hh (net_init n) ops)).
  Proof. apply wires_conn_run, wires_conn_init. Qed.

  (* ---------- theorem 2: nothing is kept about, or in flight to/from, a peer that is not connected ---------- *)
  Theorem C13_net_server_released n ops :
    Forall (nop_good Sz Hh) ops ->
    let s := fst (nrun Sz Hh (net_init n) ops) in
    forall j p, Net.connected s j p = false ->
    (forall nj, get_node s j = Some nj ->
       alookup N.eqb p (s_wants (n_server nj)) = None /\
       (forall c l, alookup cid_eqb c (s_waiting (n_server nj)) = Some l -> ~ In p l)) /\
    (forall m, In m (wire_b s) -> b_touches j p m = false) /\
    (forall m, In m (wire_w s) -> w_touches j p m = false).
  Proof.
    intros Hg s j p Hc. split; [|split].
    - intros nj Hj. destruct (C13_net_server_bounded Sz Hh HSz n ops Hg j nj Hj) as ((_ & Hsw & _) & (_ & Hwt & _) & _). fold s in Hsw, Hwt.
      split.
      + apply (alookup_None N.eqb Neqb_spec). intros Hin. apply Hsw in Hin. congruence.
      + intros c l Hl Hin. destruct (Hwt c l Hl) as (_ & _ & Hp). destruct (Hp p Hin) as [Hcp _]. congruence.
    - intros m Hm. destruct (reachable_wires_conn n ops) as [Hb _]. fold s in Hb. specialize (Hb m Hm).
      unfold b_touches, b_between. destruct ((bm_src m =? j) && (bm_dst m =? p)) eqn:E1.
      + apply andb_true_iff in E1. destruct E1 as [A B]. apply N.eqb_eq in A, B. congruence.
      + destruct ((bm_src m =? p) && (bm_dst m =? j)) eqn:E2; [|reflexivity].
        apply andb_true_iff in E2. destruct E2 as [A B]. apply N.eqb_eq in A, B. rewrite A, B, connected_sym in Hb. congruence.
    - intros m Hm. destruct (reachable_wires_conn n ops) as [_ Hw]. fold s in Hw. specialize (Hw m Hm).
      unfold w_touches, w_between. destruct ((wm_src m =? j) && (wm_dst m =? p)) eqn:E1.
      + apply andb_true_iff in E1. destruct E1 as [A B]. apply N.eqb_eq in A, B. congruence.
      + destruct ((wm_src m =? p) && (wm_dst m =? j)) eqn:E2; [|reflexivity].
        apply andb_true_iff in E2. destruct E2 as [A B]. apply N.eqb_eq in A, B. rewrite A, B, connected_sym in Hw. congruence.
  Qed.

  (* ---------- a pair stays unconnected from its NDisconnect until its next NConnect ---------- *)
  Lemma conns_step s o pr :
    In pr (conns (fst (nstep Sz Hh s o))) -> In pr (conns s) \/ exists i j, o = NConnect i j /\ pr = norm i j.
  Proof.
    assert (Hon : forall i f, In pr (conns (on_node s i f)) -> In pr (conns s) \/ exists i j, o = NConnect i j /\ pr = norm i j).
    { intros i f. rewrite (proj1 (on_node_frames s i f)). auto. }
    destruct o; cbn [nstep fst]; try apply Hon; try (cbn [conns]; auto).
    - unfold do_connect. destruct (get_node s i); [|auto]. destruct (get_node s j); [|auto].
      destruct ((i =? j) || Net.connected s i j); [auto|]. cbn [conns]. intros H. apply in_app_iff in H. destruct H as [H|[<-|[]]]; [auto|]. right. eauto.
    - unfold do_disconnect. destruct (get_node s i); [|auto]. destruct (get_node s j); [|auto]. destruct (Net.connected s i j); [|auto].
      cbn [conns]. intros H. apply filter_In in H. left. apply H.
    - unfold do_poll. destruct (get_node s i) as [n|]; [|auto]. destruct (node_poll Sz n) as [n1 o].
      destruct (fold_left (hand_over s i) (o_wants o) (n1, [])) as [n2 ws]. cbn [fst conns]. auto.
    - unfold do_deliver_w. destruct (take_first (w_between i j) (wire_w s)) as [[m0 rest]|]; [|auto].
      destruct (get_node _ i) as [ni|]; [|cbn; auto]. destruct (get_node _ j) as [nj|]; [|cbn; auto].
      destruct (node_incoming Sz Hh nj i _) as [nj1 evs]. cbn [fst].
      match goal with |- In pr (conns (on_node ?x ?a ?f)) -> _ => rewrite (proj1 (on_node_frames x a f)) end. cbn. auto.
    - unfold do_deliver_b. destruct (take_first (b_between j i) (wire_b s)) as [[m0 rest]|]; [|auto].
      destruct (get_node s i) as [ni|]; [destruct (node_incoming Sz Hh ni j _) as [ni1 evs]|]; cbn [fst conns]; auto.
  Qed.

  Lemma disconnect_unconnected s a b : net_ok Sz Hh s -> Net.connected (fst (nstep Sz Hh s (NDisconnect a b))) a b = false.
  Proof.
    intros Hok. cbn [nstep fst]. unfold do_disconnect. destruct (Net.connected s a b) eqn:E.
    - destruct (connected_neq Sz Hh HSz s a b Hok E) as (_ & Ha & Hb).
      destruct (get_node s a); [|congruence]. destruct (get_node s b); [|congruence].
      match goal with |- ?x = false => destruct x eqn:E'; [|reflexivity] end. apply connected_In in E'. cbn [conns] in E'. apply filter_In in E'.
      destruct E' as [_ E']. apply negb_true_iff in E'. assert (pair_eqb (norm a b) (norm a b) = true) by (apply pair_eqb_spec; reflexivity). congruence.
    - destruct (get_node s a); [|exact E]. destruct (get_node s b); exact E.
  Qed.

  Lemma unconnected_run a b ops : forall s,
    (forall o, In o ops -> o <> NConnect a b /\ o <> NConnect b a) ->
    Net.connected s a b = false -> Net.connected (fst (nrun Sz Hh s ops)) a b = false.
  Proof.
    induction ops as [|o ops IH]; intros s Hno Hc; [exact Hc|]. rewrite (nrun_cons Sz Hh). cbn [fst].
    apply IH; [intros o' Ho'; apply Hno; right; exact Ho'|].
    destruct (Net.connected (fst (nstep Sz Hh s o)) a b) eqn:E; [|reflexivity]. exfalso.
    apply connected_In in E. apply conns_step in E. destruct E as [E|(i & j & -> & E)].
    - apply connected_In in E. congruence.
    - destruct (Hno (NConnect i j) (or_introl eq_refl)) as [H1 H2]. apply norm_eq_cases in E. destruct E as [[-> ->]|[-> ->]]; congruence.
  Qed.

  (* from an NDisconnect of the pair until its next NConnect the pair is not connected … *)
  Theorem connected_after_disconnect n ops1 a b ops2 :
    Forall (nop_good Sz Hh) ops1 ->
    (forall o, In o ops2 -> o <> NConnect a b /\ o <> NConnect b a) ->
    let s := fst (nrun Sz Hh (net_init n) (ops1 ++ NDisconnect a b :: ops2)) in
    Net.connected s a b = false /\ Net.connected s b a = false.
  Proof.
    intros Hg Hno s. assert (H : Net.connected s a b = false).
    { subst s. rewrite (nrun_app Sz Hh). cbn [fst]. rewrite (nrun_cons Sz Hh). cbn [fst]. apply unconnected_run; [exact Hno|].
      apply disconnect_unconnected, (reachable_ok Sz Hh HSz), Hg. }
    split; [exact H | rewrite connected_sym; exact H].
  Qed.

  (* … hence, in that whole interval, both servers hold nothing about the other node and nothing is in flight between them *)
  Theorem C13_net_server_released_after n ops1 a b ops2 :
    Forall (nop_good Sz Hh) (ops1 ++ NDisconnect a b :: ops2) ->
    (forall o, In o ops2 -> o <> NConnect a b /\ o <> NConnect b a) ->
    let s := fst (nrun Sz Hh (net_init n) (ops1 ++ NDisconnect a b :: ops2)) in
    (forall na, get_node s a = Some na ->
       alookup N.eqb b (s_wants (n_server na)) = None /\
       (forall c l, alookup cid_eqb c (s_waiting (n_server na)) = Some l -> ~ In b l)) /\
    (forall nb, get_node s b = Some nb ->
       alookup N.eqb a (s_wants (n_server nb)) = None /\
       (forall c l, alookup cid_eqb c (s_waiting (n_server nb)) = Some l -> ~ In a l)) /\
    (forall m, In m (wire_b s) -> b_touches a b m = false) /\
    (forall m, In m (wire_w s) -> w_touches a b m = false).
  Proof.
    intros Hg Hno s. assert (Hg1 : Forall (nop_good Sz Hh) ops1) by (apply Forall_app in Hg; apply Hg).
    destruct (connected_after_disconnect n ops1 a b ops2 Hg1 Hno) as [Hab Hba]. fold s in Hab, Hba.
    destruct (C13_net_server_released n _ Hg a b Hab) as (H1 & H2 & H3). destruct (C13_net_server_released n _ Hg b a Hba) as (H4 & _ & _).
    split; [exact H1|]. split; [exact H4|]. split; [exact H2 | exact H3].
  Qed.
End NetServerReleased.

(* ---------- FINDING: the lookups started for a peer survive its disconnect ---------- *)
(* B (1) holds c1; A (0) connects, asks, its want reaches B; B's poll starts the lookup (store call 0 outstanding); A goes away *)
Definition q_lost_ops : list nop :=
  [NPut 1 c1 d1; NConnect 0 1; NGet 0 c1; NPoll 0; NStore 0 0; NDeliverW 0 1; NPoll 0; NDeliverW 0 1; NPoll 1; NDisconnect 0 1].

Lemma q_lost_ops_good : Forall (nop_good SZ toyH) q_lost_ops /\ Forall (nop_wf SZ) q_lost_ops.
Proof.
  split; unfold q_lost_ops.
  - constructor; [split; [apply Net_props.c1_wf | vm_compute; reflexivity]|]. repeat (constructor; [exact I|]). constructor.
  - do 2 (constructor; [exact I|]). constructor; [apply Net_props.c1_wf|]. repeat (constructor; [exact I|]). constructor.
Qed.

Theorem C13_net_server_released_refuted :
  exists (ops : list nop) (j p : N) (nj : node) (k : N) (c : cid) (t : Server.task),
    Forall (nop_good SZ toyH) ops /\ Forall (nop_wf SZ) ops /\
    (exists ops1, ops = ops1 ++ [NDisconnect p j]) /\
    get_node (fst (nrun SZ toyH (net_init 2) ops)) j = Some nj /\
    Net.connected (fst (nrun SZ toyH (net_init 2) ops)) j p = false /\
    s_wants (n_server nj) = [] /\ s_waiting (n_server nj) = [] /\
    s_blocked (n_server nj) = [(k, (c, t))] /\ Server.t_peer t = p /\ n_calls nj = [KSGet k c] /\
    (* the store call completes: the block is loaded for the absent peer; the next poll throws it away *)
    option_map (fun n => s_ready (n_server n)) (get_node (fst (nrun SZ toyH (net_init 2) (ops ++ [NStore j 0]))) j)
      = Some [Server.MkTask p [(c, SHit d1)] []] /\
    option_map (fun n => (tasks_n (n_server n), s_outq (n_server n))) (get_node (fst (nrun SZ toyH (net_init 2) (ops ++ [NStore j 0; NPoll j]))) j)
      = Some (O, []) /\
    wire_b (fst (nrun SZ toyH (net_init 2) (ops ++ [NStore j 0; NPoll j]))) = [].
Proof.
  exists q_lost_ops, 1, 0. eexists _, 0, c1, (Server.MkTask 0 [] []).
  split; [apply q_lost_ops_good|]. split; [apply q_lost_ops_good|].
  split; [exists (firstn 9 q_lost_ops); reflexivity|].
  split; [vm_compute; reflexivity|]. split; [vm_compute; reflexivity|]. split; [vm_compute; reflexivity|]. split; [vm_compute; reflexivity|].
  split; [vm_compute; reflexivity|]. split; [reflexivity|]. split; [vm_compute; reflexivity|]. split; [vm_compute; reflexivity|].
  split; vm_compute; reflexivity.
Qed.
