(* Net_proofs9.v — package F: the refresh phase.  From a quiet net, one clock step of 30 s and then schedule
   steps only (polls, store completions, deliveries): a wanted CID that a connected peer holds travels
   client -> wire -> server lookup -> wire -> client, and cannot rest anywhere but in "not wanted any more". *)
From BS Require Import Server_lemmas Server_inv Server_proofs Server_live Wantlist_proofs Client_proofs Client_proofs2
  Client_proofs3 Client_proofs4 Net Net_proofs2 Net_proofs3 Net_proofs4 Net_proofs5 Net_proofs6 Net_proofs7 Net_proofs8.
From Coq Require Import ZArith ZifyBool ZifyN ZifyNat Lia.
Open Scope N_scope.

Local Notation cid_eqb_spec := Wantlist_proofs.cid_eqb_spec.

Definition sched (o : nop) : Prop :=
  match o with NPoll _ | NStore _ _ | NDeliverW _ _ | NDeliverB _ _ => True | _ => False end.

Definition no_gets (cl : cstate) : Prop := forall tid t, In (tid, t) (cs_tasks cl) -> exists bl, t_kind t = TPut bl.

(* ---------- a poll of a client without pending lookups ---------- *)
Lemma no_gets_from ts ts' :
  tasks_from ts ts' -> (forall tid t, In (tid, t) ts -> exists bl, t_kind t = TPut bl) ->
  forall tid t, In (tid, t) ts' -> exists bl, t_kind t = TPut bl.
Proof. intros Hf H tid t Hin. destruct (Hf _ _ Hin) as (t0 & Hin0 & (K & _)). destruct (H _ _ Hin0) as (bl & E). exists bl. congruence. Qed.

Lemma tasks_run_noget s outs s' :
  tasks_run s outs s' -> no_gets s -> cs_wl s' = cs_wl s /\ cs_c2q s' = cs_c2q s /\ no_gets s'.
Proof.
  induction 1 as [s Hr | s r outs s' Hr Hrun IH]; intros Hn.
  - destruct (after_tasks_frame s) as (_ & Ew & _ & Ec & _). split; [exact Ew|]. split; [exact Ec|].
    unfold no_gets. eapply no_gets_from; [apply (proj1 (after_tasks_tasks s)) | exact Hn].
  - destruct (after_tasks_frame s) as (_ & Ew & _ & Ec & _).
    assert (Hn1 : no_gets (after_tasks s)) by (unfold no_gets; eapply no_gets_from; [apply (proj1 (after_tasks_tasks s)) | exact Hn]).
    pose proof (proj2 (after_tasks_tasks s)) as Hres. rewrite Hr in Hres. destruct Hres as (tid & t & t0 & Hin & (K & _) & Hro).
    destruct (Hn _ _ Hin) as (bl0 & Ek). rewrite <- K in Ek.
    destruct r as [q x res|ok bl|].
    + destruct Hro as (Hk & _). congruence.
    + assert (Hs : cs_wl (fst (handle_task_result (after_tasks s) (TrSet ok bl))) = cs_wl (after_tasks s) /\
                   cs_c2q (fst (handle_task_result (after_tasks s) (TrSet ok bl))) = cs_c2q (after_tasks s) /\
                   cs_tasks (fst (handle_task_result (after_tasks s) (TrSet ok bl))) = cs_tasks (after_tasks s))
        by (destruct ok; cbn; auto).
      destruct Hs as (S1 & S2 & S3). destruct IH as (I1 & I2 & I3); [unfold no_gets; rewrite S3; exact Hn1|].
      split; [congruence|]. split; [congruence | exact I3].
    + destruct Hro as (_ & q & x & Hk). congruence.
Qed.

Lemma CW_tasks_run Wf c outs c' : tasks_run c outs c' -> CW Wf c -> CW Wf c'.
Proof.
  induction 1 as [s Hr | s r outs s' Hr Hrun IH]; intros HC; [apply CW_after_tasks, HC|].
  apply IH, CW_handle; [apply CW_after_tasks, HC|]. intros q x res ->. eapply res_get_wf; eassumption.
Qed.

Lemma CW_after_timer Wf c : CW Wf c -> CW Wf (after_timer c).
Proof.
  intros [H1 H2 H3]. unfold after_timer. destruct (timer_ready (set_queue c [])); [|constructor; assumption].
  constructor; cbn [fire_timer set_queue cs_wl cs_peers cs_tasks]; try assumption.
  intros p ps x Hin Hx. apply in_map_iff in Hin. destruct Hin as ([p0 ps0] & [= <- <-] & Hin). cbn [fst snd p_wl] in Hx. eapply H2; eassumption.
Qed.

(* the wantlists of one poll *)
Lemma sends1_spec w p ps x :
  NoDup (wl_cids w) -> peer_ok w ps -> In x (sends1 w (p, ps)) ->
  exists es, x = (p, CONN, p_send_full ps, es) /\ p_ss ps = SsReady /\
    (forall y, In y (wl_cids w) -> ~ In (KCancel, y) es) /\
    (forall k y, In (k, y) es -> In y (wl_cids w) \/ In y (map fst (req (p_wl ps)))) /\
    (p_send_full ps = true -> (forall y, In y (wl_cids w) -> In (KWantHave, y) es) /\ (length es <= length (wl_cids w))%nat).
Proof.
  intros Hw Hok Hin. pose proof Hok as (Hst & _ & _). unfold sends1 in Hin. cbn [fst snd] in Hin.
  destruct (p_ss ps) eqn:Ess; try destruct Hin.
  destruct (p_send_full ps) eqn:Esf.
  - destruct (gen_full_ok w (p_wl ps) Hw Hst) as [_ Hen]. pose proof (gen_full_entries_NoDup (p_wl ps) w Hw (proj1 Hst)) as Hnd.
    destruct (wls_generate_full (p_wl ps) w) as [es wls']. cbn [fst snd negb andb] in *. destruct Hin as [<-|[]].
    exists es. split; [reflexivity|]. split; [reflexivity|]. split; [|split; [|intros _; split]].
    + intros y _ H. apply Hen in H. destruct H as [[=] _].
    + intros k y H. apply Hen in H. left. apply H.
    + intros y Hy. apply Hen. auto.
    + assert (Hl : (length (map snd es) <= length (wl_cids w))%nat).
      { apply NoDup_incl_length; [exact Hnd|]. intros y Hy. apply in_map_iff in Hy.
        destruct Hy as ([k y'] & <- & Hy). apply Hen in Hy. apply Hy. }
      rewrite map_length in Hl. exact Hl.
  - destruct (gen_update_ok w (p_wl ps) Hw Hst) as [_ Hnc].
    assert (Hsub : forall k y, In (k, y) (fst (wls_generate_update (p_wl ps) w)) -> In y (wl_cids w) \/ In y (map fst (req (p_wl ps)))).
    { intros k y. rewrite gen_update_unfold. destruct (wls_is_updated (p_wl ps) w); [intros []|].
      intros H. apply (upd_body_entries _ _ _ _ (proj1 Hst)) in H. destruct H as [(st & Hr & _)|(_ & Hy & _)]; [right | left; exact Hy].
      apply rget_none_keys. unfold rget in *. congruence. }
    destruct (wls_generate_update (p_wl ps) w) as [es wls']. cbn [fst snd negb andb] in *.
    destruct (is_nil es); [destruct Hin|]. destruct Hin as [<-|[]].
    exists es. split; [reflexivity|]. split; [reflexivity|]. split; [exact Hnc|]. split; [exact Hsub | discriminate].
Qed.

Section Phase2.
  Variables (Sz : N) (Hh : hash_fn).
  Hypothesis HSz : 32 <= Sz.
  Variables (i j : N) (c : cid).
  Hypothesis Hij : i <> j.
  Variable strict : bool.      (* true: j holds c and a lookup for c is under way; false: only the want records *)

  Definition wl_i (s : net) : list cid :=
    match client_of s i with Some cl => wl_cids (cs_wl cl) | None => [] end.

  Definition msg_ok (m : wmsg) : Prop :=
    (forall k x, In (k, x) (wm_entries m) -> wf_cid Sz x) /\
    ~ In (KCancel, c) (wm_entries m) /\
    (wm_full m = true -> In (KWantHave, c) (wm_entries m) /\ (length (wm_entries m) <= 1024)%nat).

  Definition W (s : net) : Prop := forall m, In m (wire_w s) -> wm_src m = i -> wm_dst m = j -> msg_ok m.

  Definition TA (s : net) : Prop :=
    exists cl ps, client_of s i = Some cl /\ In (j, ps) (cs_peers cl) /\ p_ss ps = SsReady /\
                  (timer_ready cl = true \/ p_send_full ps = true).
  Definition TB (s : net) : Prop := exists m, In m (wire_w s) /\ wm_src m = i /\ wm_dst m = j /\ wm_full m = true.
  Definition pendS (st : sstate) : Prop := if strict then pend c st else True.
  Definition TC (s : net) : Prop := exists st, server_of s j = Some st /\ wantsP (s_wants st) i c /\ pendS st.

  Lemma pendS_mono st st' :
    (forall x, In x (s_outq st) -> In x (s_outq st')) -> (forall t, In t (s_ready st) -> In t (s_ready st')) ->
    (forall x, In x (s_blocked st) -> In x (s_blocked st')) -> pendS st -> pendS st'.
  Proof. unfold pendS. destruct strict; [|auto]. intros A B C H. eapply pend_frame; eassumption. Qed.

  Lemma pendS_other st op :
    match op with SRelease _ _ | SPoll => False | _ => True end -> pendS st -> pendS (fst (sstep_l Sz st op)).
  Proof. unfold pendS. destruct strict; [apply (pend_other Sz) | auto]. Qed.

  Lemma pendS_poll st :
    Server_inv.Inv st -> pendS st -> wantsP (s_wants st) i c ->
    (wantsP (s_wants (fst (Server.do_poll st))) i c /\ pendS (fst (Server.do_poll st))) \/
    (exists bl, In (LSend i bl) (snd (Server.do_poll st)) /\ In c (map fst bl)).
  Proof.
    unfold pendS. destruct strict; [apply pend_poll|]. intros HI _ Hw.
    destruct (wants_poll st i c HI Hw) as [H|H]; [left; auto | right; exact H].
  Qed.
  Definition TD (s : net) : Prop :=
    exists m, In m (wire_b s) /\ bm_src m = j /\ bm_dst m = i /\ In c (map fst (bm_blocks m)).

  Record P2 (s : net) : Prop := MkP2 {
    p2_ok : net_ok Sz Hh s;
    p2_wf : net_wf Sz s;
    p2_conn : Net.connected s i j = true;
    p2_noget : forall cl, client_of s i = Some cl -> no_gets cl;
    p2_store : strict = true -> forall st, store_of s j = Some st -> exists d, store_get st c = SHit d;
    p2_size : (length (wl_i s) <= 1024)%nat;
    p2_T : In c (wl_i s) -> W s /\ (TA s \/ TB s \/ TC s \/ TD s)
  }.

  (* ---------- frames ---------- *)
  Lemma TA_frame s s' : client_of s' i = client_of s i -> TA s -> TA s'.
  Proof. intros E (cl & ps & H & R). exists cl, ps. rewrite E. auto. Qed.
  Lemma TC_frame s s' : server_of s' j = server_of s j -> TC s -> TC s'.
  Proof. intros E (st & H & R). exists st. rewrite E. auto. Qed.
  Lemma TB_frame s s' : (forall m, In m (wire_w s) -> wm_src m = i -> wm_dst m = j -> In m (wire_w s')) -> TB s -> TB s'.
  Proof. intros E (m & H & A & B & C). exists m. auto. Qed.
  Lemma TD_frame s s' : (forall m, In m (wire_b s) -> bm_src m = j -> bm_dst m = i -> In m (wire_b s')) -> TD s -> TD s'.
  Proof. intros E (m & H & A & B & C). exists m. auto. Qed.
  Lemma W_frame s s' :
    (forall m, In m (wire_w s') -> wm_src m = i -> wm_dst m = j -> In m (wire_w s) \/ msg_ok m) -> W s -> W s'.
  Proof. intros E H m Hm A B. destruct (E m Hm A B) as [Hin|Hok]; [apply H; assumption | exact Hok]. Qed.

  Lemma wl_i_frame s s' : client_of s' i = client_of s i -> wl_i s' = wl_i s.
  Proof. unfold wl_i. intros ->. reflexivity. Qed.

  (* everything at once: a step that touches neither client i nor server/store j and only adds wires *)
  Lemma P2_frame s s' :
    net_ok Sz Hh s' -> net_wf Sz s' -> conns s' = conns s ->
    client_of s' i = client_of s i -> server_of s' j = server_of s j -> store_of s' j = store_of s j ->
    (forall m, In m (wire_w s) -> wm_src m = i -> wm_dst m = j -> In m (wire_w s')) ->
    (forall m, In m (wire_w s') -> wm_src m = i -> wm_dst m = j -> In m (wire_w s) \/ msg_ok m) ->
    (forall m, In m (wire_b s) -> bm_src m = j -> bm_dst m = i -> In m (wire_b s')) ->
    P2 s -> P2 s'.
  Proof.
    intros Hok Hwf Ec Ecl Esv Est Hw1 Hw2 Hb [H1 H2 H3 H4 H5 H6 H7]. constructor; try assumption.
    - unfold Net.connected in *. rewrite Ec. exact H3.
    - rewrite Ecl. exact H4.
    - rewrite Est. exact H5.
    - rewrite (wl_i_frame _ _ Ecl). exact H6.
    - rewrite (wl_i_frame _ _ Ecl). intros Hc. destruct (H7 Hc) as [HW HT]. split; [eapply W_frame; eassumption|].
      destruct HT as [HT|[HT|[HT|HT]]].
      + left. eapply TA_frame; eassumption.
      + right; left. eapply TB_frame; eassumption.
      + right; right; left. eapply TC_frame; eassumption.
      + right; right; right. eapply TD_frame; eassumption.
  Qed.

  (* ---------- NPoll elsewhere ---------- *)
  Lemma hand_over_src s k L : forall acc,
    (forall m, In m (snd acc) -> wm_src m = k) -> forall m, In m (snd (fold_left (hand_over s k) L acc)) -> wm_src m = k.
  Proof.
    induction L as [|x L IH]; intros acc Ha; cbn [fold_left]; [exact Ha|]. apply IH.
    destruct x as [[[p cn] f] es]. unfold hand_over. destruct (Net.connected s k p); cbn [snd]; [|exact Ha].
    intros m Hm. apply in_app_iff in Hm. destruct Hm as [Hm|[<-|[]]]; [apply Ha, Hm | reflexivity].
  Qed.

  Lemma do_poll_shape s k n :
    get_node s k = Some n ->
    exists n2 ws bs,
      fst (do_poll Sz s k) = MkNet (set_nth (N.to_nat k) n2 (nodes s)) (conns s) (wire_w s ++ ws) (wire_b s ++ bs) (now s) /\
      (forall m, In m ws -> wm_src m = k) /\ (forall m, In m bs -> bm_src m = k).
  Proof.
    intros Hg. unfold do_poll. rewrite Hg. destruct (node_poll Sz n) as [n1 o].
    pose proof (hand_over_src s k (o_wants o) (n1, []) (fun m H => match H with end)) as Hs.
    destruct (fold_left (hand_over s k) (o_wants o) (n1, [])) as [n2 ws]. cbn [fst snd] in *.
    exists n2, ws, (fold_left (queue_blocks s k) (o_blocks o) []). split; [reflexivity|]. split; [exact Hs|].
    rewrite queue_blocks_fold. cbn [app]. intros m Hm. apply in_map_iff in Hm. destruct Hm as (x & <- & _). reflexivity.
  Qed.

  Lemma get_set_nth_other s k n2 cc ww wb nw x :
    x <> k -> get_node (MkNet (set_nth (N.to_nat k) n2 (nodes s)) cc ww wb nw) x = get_node s x.
  Proof. intros H. unfold get_node. cbn [nodes]. apply nth_set_nth_neq. lia. Qed.

  Lemma P2_poll_other s k : k <> i -> k <> j -> P2 s -> P2 (fst (nstep Sz Hh s (NPoll k))).
  Proof.
    intros Hki Hkj HP. pose proof HP as [H1 H2 H3 H4 H5 H6 H7].
    assert (Hok' : net_ok Sz Hh (fst (nstep Sz Hh s (NPoll k)))) by (apply net_ok_step; [exact HSz | exact I | exact H1]).
    assert (Hwf' : net_wf Sz (fst (nstep Sz Hh s (NPoll k)))) by (apply (net_wf_step Sz Hh HSz); [exact H1 | exact I | exact H2]).
    cbn [nstep] in *. destruct (get_node s k) as [n|] eqn:Hg; [|unfold do_poll in *; rewrite Hg in *; exact HP].
    destruct (do_poll_shape s k n Hg) as (n2 & ws & bs & E & Hws & Hbs). rewrite E in *.
    apply (P2_frame s); try assumption; try reflexivity.
    - unfold client_of. rewrite get_set_nth_other by congruence. reflexivity.
    - unfold server_of. rewrite get_set_nth_other by congruence. reflexivity.
    - unfold store_of. rewrite get_set_nth_other by congruence. reflexivity.
    - intros m Hm _ _. cbn [wire_w]. apply in_app_iff. auto.
    - intros m Hm Hsrc _. cbn [wire_w] in Hm. apply in_app_iff in Hm. destruct Hm as [Hm|Hm]; [left; exact Hm|].
      apply Hws in Hm. congruence.
    - intros m Hm _ _. cbn [wire_b]. apply in_app_iff. auto.
  Qed.

  (* ---------- NPoll i ---------- *)
  Lemma get_set_nth_same s k n n2 cc ww wb nw :
    get_node s k = Some n -> get_node (MkNet (set_nth (N.to_nat k) n2 (nodes s)) cc ww wb nw) k = Some n2.
  Proof. intros H. unfold get_node. cbn [nodes]. apply nth_set_nth_eq. eapply get_node_lt. exact H. Qed.

  Lemma after_timer_tasks cl : cs_tasks (after_timer cl) = cs_tasks cl /\ cs_wl (after_timer cl) = cs_wl cl.
  Proof. unfold after_timer. destruct (timer_ready (set_queue cl [])); split; reflexivity. Qed.

  Lemma P2_poll_i s : P2 s -> P2 (fst (nstep Sz Hh s (NPoll i))).
  Proof.
    intros HP. pose proof HP as [H1 H2 H3 H4 H5 H6 H7].
    assert (Hok' : net_ok Sz Hh (fst (nstep Sz Hh s (NPoll i)))) by (apply net_ok_step; [exact HSz | exact I | exact H1]).
    assert (Hwf' : net_wf Sz (fst (nstep Sz Hh s (NPoll i)))) by (apply (net_wf_step Sz Hh HSz); [exact H1 | exact I | exact H2]).
    cbn [nstep] in *. destruct (get_node s i) as [n|] eqn:Hg; [|unfold do_poll in *; rewrite Hg in *; exact HP].
    destruct (do_poll_nf Sz Hh s i n H1 Hg) as (sC & outsC & [Hrun HCC Hto Heq]). cbn zeta in Heq. rewrite Heq in *. cbn [fst] in *.
    assert (Hcl : client_of s i = Some (n_client n)) by (unfold client_of; rewrite Hg; reflexivity).
    pose proof (H4 _ Hcl) as Hng. destruct (after_timer_tasks (n_client n)) as [Et Ewt].
    destruct (tasks_run_noget _ _ _ Hrun) as (Ew & _ & HngC); [unfold no_gets; rewrite Et; exact Hng|]. rewrite Ewt in Ew.
    assert (HCW : CW (wf_cid Sz) sC) by (eapply CW_tasks_run; [exact Hrun|]; apply CW_after_timer, (H2 _ _ Hg)).
    set (L := flat_map (sends1 (cs_wl sC)) (cs_peers sC)) in *.
    set (cF := set_peers (set_new_blocks (set_queue sC []) []) (map (fin1 (now s) (cs_wl sC)) (cs_peers sC))) in *.
    match goal with |- P2 ?x => set (s' := x) in * end.
    assert (Hcl' : client_of s' i = Some cF) by (unfold client_of, s'; rewrite (get_set_nth_same s i n _ _ _ _ _ Hg); reflexivity).
    assert (Hwl : wl_i s' = wl_i s) by (unfold wl_i; rewrite Hcl', Hcl; cbn [cF set_peers set_new_blocks set_queue cs_wl]; rewrite Ew; reflexivity).
    assert (Hwls : wl_i s = wl_cids (cs_wl sC)) by (unfold wl_i; rewrite Hcl, Ew; reflexivity).
    assert (Hsj : server_of s' j = server_of s j) by (unfold server_of, s'; rewrite get_set_nth_other by congruence; reflexivity).
    assert (Hstj : store_of s' j = store_of s j) by (unfold store_of, s'; rewrite get_set_nth_other by congruence; reflexivity).
    constructor; try assumption.
    - intros cl E. rewrite Hcl' in E. injection E as <-. unfold no_gets. cbn [cF set_peers set_new_blocks set_queue cs_tasks]. exact HngC.
    - rewrite Hstj. exact H5.
    - rewrite Hwl. exact H6.
    - rewrite Hwl. intros Hc. destruct (H7 Hc) as [HW HT]. rewrite Hwls in Hc, H6. split.
      + apply (W_frame s); [|exact HW]. intros m Hm Hsrc Hdst. unfold s' in Hm. cbn [wire_w] in Hm. apply in_app_iff in Hm.
        destruct Hm as [Hm|Hm]; [left; exact Hm|]. right. apply in_map_iff in Hm. destruct Hm as (x & <- & Hx).
        apply in_flat_map in Hx. destruct Hx as ([p psC] & HinC & Hx).
        destruct (sends1_spec (cs_wl sC) p psC x (ck_wl _ _ HCC) (ck_peers _ _ HCC _ _ HinC) Hx) as (es & -> & _ & Hnc & Hsub & Hfull).
        unfold msg_ok, w_of. cbn [wm_entries wm_full x_peer fst snd]. split; [|split].
        * intros k y Hy. destruct (Hsub _ _ Hy) as [Hy'|Hy']; [apply (cw_wl _ _ HCW), Hy' | eapply (cw_req _ _ HCW); eassumption].
        * apply Hnc, Hc.
        * intros Hf. destruct (Hfull Hf) as [Ha Hl]. split; [apply Ha, Hc | lia].
      + destruct HT as [HT|[HT|[HT|HT]]].
        * right; left. destruct HT as (cl & ps & E & Hin & Hr & Hsf). rewrite Hcl in E. injection E as <-.
          pose proof (in_keys_find _ _ _ (proj1 (nk_invs _ _ _ _ _ (no_nodes _ _ _ H1 _ _ Hg))) Hin) as Hf0.
          destruct (peers_link_find _ _ _ _ (after_timer_peers (n_client n)) Hf0) as (psA & HfA & (LA1 & LA2 & LA3)).
          destruct (peers_link_find _ _ _ _ (tasks_run_peers _ _ _ Hrun) HfA) as (psC & HfC & (LC1 & LC2 & LC3)).
          apply (al_find_some_in _ Client_proofs.Neqb_spec) in HfA, HfC.
          assert (HsfA : p_send_full psA = true).
          { destruct Hsf as [Ht|Hs]; [apply (proj2 (after_timer_fired _ Ht) _ _ HfA) | destruct LA3; congruence]. }
          assert (HsfC : p_send_full psC = true) by (destruct LC3; congruence).
          assert (HrC : p_ss psC = SsReady) by congruence.
          assert (Hs1 : exists es, sends1 (cs_wl sC) (j, psC) = [(j, CONN, true, es)]).
          { unfold sends1. cbn [fst snd]. rewrite HrC, HsfC. destruct (wls_generate_full (p_wl psC) (cs_wl sC)) as [es wls']. cbn. eauto. }
          destruct Hs1 as (es & Hs1). exists (MkW i j true es). split; [|auto]. unfold s'. cbn [wire_w]. apply in_app_iff. right.
          apply in_map_iff. exists (j, CONN, true, es). split; [reflexivity|]. apply in_flat_map. exists (j, psC). split; [exact HfC|].
          rewrite Hs1. left. reflexivity.
        * right; left. eapply TB_frame; [|exact HT]. intros m Hm _ _. unfold s'. cbn [wire_w]. apply in_app_iff. auto.
        * right; right; left. eapply TC_frame; eassumption.
        * right; right; right. eapply TD_frame; [|exact HT]. intros m Hm _ _. unfold s'. cbn [wire_b]. apply in_app_iff. auto.
  Qed.

  (* ---------- NPoll j ---------- *)
  Lemma P2_poll_j s : P2 s -> P2 (fst (nstep Sz Hh s (NPoll j))).
  Proof.
    intros HP. pose proof HP as [H1 H2 H3 H4 H5 H6 H7].
    assert (Hok' : net_ok Sz Hh (fst (nstep Sz Hh s (NPoll j)))) by (apply net_ok_step; [exact HSz | exact I | exact H1]).
    assert (Hwf' : net_wf Sz (fst (nstep Sz Hh s (NPoll j)))) by (apply (net_wf_step Sz Hh HSz); [exact H1 | exact I | exact H2]).
    cbn [nstep] in *. destruct (get_node s j) as [n|] eqn:Hg; [|unfold do_poll in *; rewrite Hg in *; exact HP].
    destruct (do_poll_nf Sz Hh s j n H1 Hg) as (sC & outsC & [Hrun HCC Hto Heq]). cbn zeta in Heq. rewrite Heq in *. cbn [fst] in *.
    set (sp := srv_poll (n_server n) (cs_new_blocks sC)) in *.
    match goal with |- P2 ?x => set (s' := x) in * end.
    assert (Hci : client_of s' i = client_of s i) by (unfold client_of, s'; rewrite get_set_nth_other by congruence; reflexivity).
    assert (Hsj : server_of s j = Some (n_server n)) by (unfold server_of; rewrite Hg; reflexivity).
    assert (Hsj' : server_of s' j = Some (fst sp)) by (unfold server_of, s'; rewrite (get_set_nth_same s j n _ _ _ _ _ Hg); reflexivity).
    assert (Hstj : store_of s' j = store_of s j).
    { unfold store_of, s'. rewrite (get_set_nth_same s j n _ _ _ _ _ Hg), Hg. reflexivity. }
    pose proof (wl_i_frame s s' Hci) as Hwl.
    constructor; try assumption.
    - rewrite Hci. exact H4.
    - rewrite Hstj. exact H5.
    - rewrite Hwl. exact H6.
    - rewrite Hwl. intros Hc. destruct (H7 Hc) as [HW HT]. split.
      + apply (W_frame s); [|exact HW]. intros m Hm Hsrc _. unfold s' in Hm. cbn [wire_w] in Hm. apply in_app_iff in Hm.
        destruct Hm as [Hm|Hm]; [left; exact Hm|]. apply in_map_iff in Hm. destruct Hm as (x & <- & _). cbn in Hsrc. congruence.
      + destruct HT as [HT|[HT|[HT|HT]]].
        * left. eapply TA_frame; eassumption.
        * right; left. eapply TB_frame; [|exact HT]. intros m Hm _ _. unfold s'. cbn [wire_w]. apply in_app_iff. auto.
        * destruct HT as (st & E & Hw & Hp). rewrite Hsj in E. injection E as <-.
          pose proof (no_nodes _ _ _ H1 _ _ Hg) as Hn. destruct (nk_sv _ _ _ _ _ Hn) as (HI & _ & _ & _).
          set (s1 := match cs_new_blocks sC with [] => n_server n | _ => new_blocks_available (n_server n) (cs_new_blocks sC) end).
          assert (HI1 : Server_inv.Inv s1) by (unfold s1; destruct (cs_new_blocks sC); exact HI).
          assert (Hw1 : wantsP (s_wants s1) i c) by (unfold s1; destruct (cs_new_blocks sC); exact Hw).
          assert (Hp1 : pendS s1).
          { unfold s1. destruct (cs_new_blocks sC) as [|b nb]; [exact Hp|]. apply (pendS_mono (n_server n)); auto.
            cbn [new_blocks_available s_outq]. intros x Hx. apply in_app_iff. auto. }
          change sp with (Server.do_poll s1) in *.
          destruct (pendS_poll s1 HI1 Hp1 Hw1) as [[Hw2 Hp2]|(bl & Hbl & Hcb)].
          -- right; right; left. exists (fst (Server.do_poll s1)). auto.
          -- right; right; right. exists (MkB j i bl). split; [|auto]. unfold s'. cbn [wire_b]. apply in_app_iff. right.
             apply in_map_iff. exists (i, bl). split; [reflexivity|]. apply filter_In. split; [apply sv_blocks_In; exact Hbl|].
             cbn [fst]. rewrite connected_sym. exact H3.
        * right; right; right. eapply TD_frame; [|exact HT]. intros m Hm _ _. unfold s'. cbn [wire_b]. apply in_app_iff. auto.
  Qed.

  Lemma P2_poll s k : P2 s -> P2 (fst (nstep Sz Hh s (NPoll k))).
  Proof.
    intros HP. destruct (N.eq_dec k i) as [->|Hi]; [apply P2_poll_i, HP|].
    destruct (N.eq_dec k j) as [->|Hj]; [apply P2_poll_j, HP | apply P2_poll_other; assumption].
  Qed.

  (* ---------- NStore ---------- *)
  Definition ceq (cl cl' : cstate) : Prop :=
    cs_wl cl' = cs_wl cl /\ cs_peers cl' = cs_peers cl /\ cs_now cl' = cs_now cl /\ cs_deadline cl' = cs_deadline cl /\
    (no_gets cl -> no_gets cl').

  Lemma ceq_refl cl : ceq cl cl.
  Proof. repeat split; auto. Qed.

  Lemma ceq_release cl call r : ceq cl (c_release cl call r).
  Proof.
    unfold c_release. destruct (find (call_is call) (cs_tasks cl)) as [[tid t]|]; [|apply ceq_refl].
    repeat split; try reflexivity. intros Hn k t' Hin. cbn [set_tasks cs_tasks] in Hin. apply in_al_modify in Hin.
    destruct Hin as (t0 & Hin0 & ->). destruct (Hn _ _ Hin0) as (bl & E). exists bl. destruct (tid =? k); exact E.
  Qed.

  (* a step that changes client i only up to `ceq`, and nothing else that matters *)
  Lemma P2_ceq s s' cl cl' :
    net_ok Sz Hh s' -> net_wf Sz s' -> conns s' = conns s -> wire_w s' = wire_w s -> wire_b s' = wire_b s ->
    client_of s i = Some cl -> client_of s' i = Some cl' -> ceq cl cl' ->
    server_of s' j = server_of s j -> store_of s' j = store_of s j ->
    P2 s -> P2 s'.
  Proof.
    intros Hok Hwf Ec Eww Ewb Hcl Hcl' (E1 & E2 & E3 & E4 & E5) Esv Est [H1 H2 H3 H4 H5 H6 H7].
    assert (Hwl : wl_i s' = wl_i s) by (unfold wl_i; rewrite Hcl, Hcl', E1; reflexivity).
    constructor; try assumption.
    - unfold Net.connected in *. rewrite Ec. exact H3.
    - intros x E. rewrite Hcl' in E. injection E as <-. apply E5, H4, Hcl.
    - rewrite Est. exact H5.
    - rewrite Hwl. exact H6.
    - rewrite Hwl. intros Hc. destruct (H7 Hc) as [HW HT]. split; [intros m Hm; rewrite Eww in Hm; apply HW, Hm|].
      destruct HT as [HT|[HT|[HT|HT]]].
      + left. destruct HT as (x & ps & E & Hin & Hr & Hsf). rewrite Hcl in E. injection E as <-.
        exists cl', ps. split; [exact Hcl'|]. rewrite E2. split; [exact Hin|]. split; [exact Hr|].
        unfold timer_ready in *. rewrite E3, E4. exact Hsf.
      + right; left. destruct HT as (m & Hm & R). exists m. rewrite Eww. auto.
      + right; right; left. eapply TC_frame; eassumption.
      + right; right; right. destruct HT as (m & Hm & R). exists m. rewrite Ewb. auto.
  Qed.

  Lemma get_on_node_other s k f x : x <> k -> get_node (on_node s k f) x = get_node s x.
  Proof. intros H. unfold on_node. destruct (get_node s k); [apply get_set_neq; congruence | reflexivity]. Qed.

  Lemma get_on_node_same s k f n : get_node s k = Some n -> get_node (on_node s k f) k = Some (f n).
  Proof. intros H. unfold on_node. rewrite H. eapply get_set_eq. exact H. Qed.

  Lemma on_node_frames s k f : conns (on_node s k f) = conns s /\ wire_w (on_node s k f) = wire_w s /\ wire_b (on_node s k f) = wire_b s.
  Proof. unfold on_node. destruct (get_node s k); auto. Qed.

  Lemma store_put_keeps st b x d : store_get st x = SHit d -> exists d', store_get (store_put st b) x = SHit d'.
  Proof.
    unfold store_get, store_put. rewrite al_find_set. destruct (cid_eqb (fst b) x); [eauto|].
    destruct (al_find cid_eqb x st); [eauto | discriminate].
  Qed.

  Lemma store_put_many_keeps bl : forall st x d, store_get st x = SHit d -> exists d', store_get (store_put_many st bl) x = SHit d'.
  Proof.
    induction bl as [|b bl IH]; intros st x d H; cbn; [eauto|]. destruct (store_put_keeps st b x d H) as (d' & H'). eapply IH, H'.
  Qed.

  Lemma P2_store s k m : P2 s -> P2 (fst (nstep Sz Hh s (NStore k m))).
  Proof.
    intros HP. pose proof HP as [H1 H2 H3 H4 H5 H6 H7].
    assert (Hok' : net_ok Sz Hh (fst (nstep Sz Hh s (NStore k m)))) by (apply net_ok_step; [exact HSz | exact I | exact H1]).
    assert (Hwf' : net_wf Sz (fst (nstep Sz Hh s (NStore k m)))) by (apply (net_wf_step Sz Hh HSz); [exact H1 | exact I | exact H2]).
    cbn [nstep fst] in *. set (f := fun n => node_store Sz n m) in *.
    destruct (on_node_frames s k f) as (Ec & Eww & Ewb).
    destruct (get_node s k) as [n|] eqn:Hg; [|unfold on_node in *; rewrite Hg in *; exact HP].
    destruct (N.eq_dec k i) as [->|Hki]; [|destruct (N.eq_dec k j) as [->|Hkj]].
    - (* node i *)
      assert (Hcl : client_of s i = Some (n_client n)) by (unfold client_of; rewrite Hg; reflexivity).
      apply (P2_ceq s _ (n_client n) (n_client (f n))); try assumption.
      + unfold client_of. rewrite (get_on_node_same s i f n Hg). reflexivity.
      + unfold f, node_store. destruct (nth_error (n_calls n) (N.to_nat m)) as [[m' x|m' bl|m' x]|]; cbn [n_client cstep fst];
          try apply ceq_refl; apply ceq_release.
      + unfold server_of. rewrite get_on_node_other by congruence. reflexivity.
      + unfold store_of. rewrite get_on_node_other by congruence. reflexivity.
    - (* node j *)
      assert (Hci : client_of (on_node s j f) i = client_of s i) by (unfold client_of; rewrite get_on_node_other by congruence; reflexivity).
      assert (Hsj : server_of s j = Some (n_server n)) by (unfold server_of; rewrite Hg; reflexivity).
      assert (Hstj : store_of s j = Some (n_store n)) by (unfold store_of; rewrite Hg; reflexivity).
      pose proof (wl_i_frame s _ Hci) as Hwl.
      pose proof (no_nodes _ _ _ H1 _ _ Hg) as Hn.
      constructor; try assumption.
      + unfold Net.connected in *. rewrite Ec. exact H3.
      + rewrite Hci. exact H4.
      + intros Hs st E. destruct (H5 Hs _ Hstj) as (d & Hd).
        unfold store_of in E. rewrite (get_on_node_same s j f n Hg) in E. injection E as <-.
        unfold f, node_store. destruct (nth_error (n_calls n) (N.to_nat m)) as [[m' x|m' bl|m' x]|]; cbn [n_store]; eauto.
        eapply store_put_many_keeps, Hd.
      + rewrite Hwl. exact H6.
      + rewrite Hwl. intros Hc. destruct (H7 Hc) as [HW HT]. split; [intros mm Hm; rewrite Eww in Hm; apply HW, Hm|].
        destruct HT as [HT|[HT|[HT|HT]]].
        * left. eapply TA_frame; eassumption.
        * right; left. destruct HT as (mm & Hm & R). exists mm. rewrite Eww. auto.
        * right; right; left. destruct HT as (st & E & Hw & Hp). rewrite Hsj in E. injection E as <-.
          unfold TC, server_of. rewrite (get_on_node_same s j f n Hg). cbn [option_map].
          unfold f, node_store. destruct (nth_error (n_calls n) (N.to_nat m)) as [[m' x|m' bl|m' x]|] eqn:En; cbn [n_server]; eauto.
          destruct (nk_sv _ _ _ _ _ Hn) as (HI & HB & Hpn & _).
          eexists. split; [reflexivity|]. unfold srv, sstep_l. rewrite Hpn. cbn [fst]. split.
          -- destruct (release_frame (n_server n) m' (store_get (n_store n) x)) as [-> _]. exact Hw.
          -- unfold pendS in *. destruct strict eqn:Estrict; [|exact I]. destruct (H5 eq_refl _ Hstj) as (d & Hd).
             apply (pend_release Sz HSz); [exact HB | exact Hp|]. intros t Hb.
             destruct (nk_agree _ _ _ _ _ Hn m' x (nth_error_In _ _ En)) as [_ Hag]. rewrite <- (Hag _ _ Hb). eauto.
        * right; right; right. destruct HT as (mm & Hm & R). exists mm. rewrite Ewb. auto.
    - (* elsewhere *)
      apply (P2_frame s); try assumption.
      + unfold client_of. rewrite get_on_node_other by congruence. reflexivity.
      + unfold server_of. rewrite get_on_node_other by congruence. reflexivity.
      + unfold store_of. rewrite get_on_node_other by congruence. reflexivity.
      + intros mm Hm _ _. rewrite Eww. exact Hm.
      + intros mm Hm _ _. rewrite Eww in Hm. left. exact Hm.
      + intros mm Hm _ _. rewrite Ewb. exact Hm.
  Qed.

  (* ---------- NDeliverW ---------- *)
  Definition srv_after_w (nb : node) (a : N) (sdh : bool) (m : wmsg) : sstate :=
    if wm_full m || negb (is_nil (wm_entries m))
    then let w := proto_of sdh (wm_full m) (wm_entries m) in
         fst (srv Sz (n_server nb) (SMsg a w (match full_collect Sz (w_entries w) [] with Some l => l | None => [] end)))
    else n_server nb.

  Lemma deliver_w_effect s a b m rest na nb :
    take_first (w_between a b) (wire_w s) = Some (m, rest) -> get_node s a = Some na -> get_node s b = Some nb ->
    let s' := fst (do_deliver_w Sz Hh s a b) in
    conns s' = conns s /\ wire_w s' = rest /\ wire_b s' = wire_b s /\
    (forall x, store_of s' x = store_of s x) /\
    (forall x, x <> b -> server_of s' x = server_of s x) /\
    server_of s' b = Some (srv_after_w nb a (wl_sdh (cs_wl (n_client na))) m) /\
    (forall x, x <> a -> client_of s' x = client_of s x) /\
    client_of s' a = Some (c_report (n_client na) b CONN RpReady).
  Proof.
    intros Et Ha Hb. unfold do_deliver_w. rewrite Et.
    set (s0 := MkNet (nodes s) (conns s) rest (wire_b s) (now s)).
    change (get_node s0 a) with (get_node s a). change (get_node s0 b) with (get_node s b). rewrite Ha, Hb.
    unfold node_incoming. rewrite process_wantlist_message. cbn [in_client in_server].
    cbn [fst].
    match goal with |- context [MkNode (n_client nb) ?X (n_store nb) (n_calls nb)] =>
      assert (Esrv : X = srv_after_w nb a (wl_sdh (cs_wl (n_client na))) m)
        by (unfold srv_after_w; destruct (wm_full m || negb (is_nil (wm_entries m))); reflexivity);
      rewrite Esrv; clear Esrv end.
    set (nb1 := MkNode (n_client nb) (srv_after_w nb a (wl_sdh (cs_wl (n_client na))) m) (n_store nb) (n_calls nb)).
    assert (Hb0 : get_node s0 b = Some nb) by exact Hb.
    assert (Hgb : get_node (set_node s0 b nb1) b = Some nb1) by (eapply get_set_eq; exact Hb0).
    assert (Hga : exists na1, get_node (set_node s0 b nb1) a = Some na1 /\ n_client na1 = n_client na /\
                              (a <> b -> n_server na1 = n_server na /\ n_store na1 = n_store na)).
    { destruct (N.eq_dec b a) as [->|Hne].
      - exists nb1. split; [exact Hgb|]. assert (na = nb) by congruence. subst nb. split; [reflexivity | congruence].
      - exists na. split; [rewrite get_set_neq by exact Hne; exact Ha | auto]. }
    destruct Hga as (na1 & Hga & Hca & Hsa).
    set (s1 := set_node s0 b nb1) in *. set (f := fun n => node_report n b CONN RpReady).
    destruct (on_node_frames s1 a f) as (Ec & Eww & Ewb).
    split; [rewrite Ec; reflexivity|]. split; [rewrite Eww; reflexivity|]. split; [rewrite Ewb; reflexivity|].
    assert (Hget : forall x, get_node (on_node s1 a f) x =
                             if x =? a then Some (f na1) else if x =? b then Some nb1 else get_node s x).
    { intros x. destruct (x =? a) eqn:A.
      - apply N.eqb_eq in A. subst x. apply get_on_node_same. exact Hga.
      - apply N.eqb_neq in A. rewrite get_on_node_other by exact A. unfold s1. destruct (x =? b) eqn:B.
        + apply N.eqb_eq in B. subst x. exact Hgb.
        + apply N.eqb_neq in B. rewrite get_set_neq by congruence. reflexivity. }
    split; [|split; [|split; [|split]]].
    - intros x. unfold store_of. rewrite Hget. destruct (x =? a) eqn:A; [|destruct (x =? b) eqn:B].
      + apply N.eqb_eq in A. subst x. cbn [f node_report n_store option_map]. destruct (N.eq_dec a b) as [->|Hne].
        * assert (na1 = nb1) by congruence. subst na1. rewrite Hb. reflexivity.
        * rewrite Ha. destruct (Hsa Hne) as [_ ->]. reflexivity.
      + apply N.eqb_eq in B. subst x. rewrite Hb. reflexivity.
      + reflexivity.
    - intros x Hx. unfold server_of. rewrite Hget. destruct (x =? a) eqn:A; [|destruct (x =? b) eqn:B].
      + apply N.eqb_eq in A. subst x. cbn [f node_report n_server option_map]. rewrite Ha. destruct (Hsa Hx) as [-> _]. reflexivity.
      + apply N.eqb_eq in B. congruence.
      + reflexivity.
    - unfold server_of. rewrite Hget. destruct (b =? a) eqn:A.
      + apply N.eqb_eq in A. subst a. assert (na1 = nb1) by congruence. subst na1. reflexivity.
      + rewrite N.eqb_refl. reflexivity.
    - intros x Hx. unfold client_of. rewrite Hget. apply N.eqb_neq in Hx. rewrite Hx. destruct (x =? b) eqn:B; [|reflexivity].
      apply N.eqb_eq in B. subst x. rewrite Hb. reflexivity.
    - unfold client_of. rewrite Hget, N.eqb_refl. cbn [f node_report n_client option_map cstep fst]. rewrite Hca. reflexivity.
  Qed.

  Lemma report_keeps_ready cl b r ps :
    In (j, ps) (cs_peers cl) -> p_ss ps = SsReady -> In (j, ps) (cs_peers (c_report cl b CONN r)).
  Proof.
    intros Hin Hr. cbn [c_report set_peers cs_peers]. unfold al_modify. apply in_map_iff. exists (j, ps). split; [|exact Hin].
    cbn [fst snd]. destruct (b =? j); [|reflexivity]. unfold report_accepted. rewrite Hr. reflexivity.
  Qed.

  Lemma wl_wf s cl : net_wf Sz s -> client_of s i = Some cl -> forall x, In x (wl_cids (cs_wl cl)) -> wf_cid Sz x.
  Proof.
    intros Hwf E. unfold client_of in E. destruct (get_node s i) as [n|] eqn:Hg; [|discriminate]. injection E as <-.
    apply (cw_wl _ _ (Hwf _ _ Hg)).
  Qed.

  Lemma P2_deliver_w s a b : P2 s -> P2 (fst (nstep Sz Hh s (NDeliverW a b))).
  Proof.
    intros HP. pose proof HP as [H1 H2 H3 H4 H5 H6 H7].
    assert (Hok' : net_ok Sz Hh (fst (nstep Sz Hh s (NDeliverW a b)))) by (apply net_ok_step; [exact HSz | exact I | exact H1]).
    assert (Hwf' : net_wf Sz (fst (nstep Sz Hh s (NDeliverW a b)))) by (apply (net_wf_step Sz Hh HSz); [exact H1 | exact I | exact H2]).
    cbn [nstep] in *.
    destruct (take_first (w_between a b) (wire_w s)) as [[m rest]|] eqn:Et; [|unfold do_deliver_w in *; rewrite Et in *; exact HP].
    destruct (take_first_spec _ _ _ _ Et) as (Hm & Hab & Hsub & Hrest).
    unfold w_between in Hab. apply andb_true_iff in Hab. destruct Hab as [Hsrc Hdst]. apply N.eqb_eq in Hsrc, Hdst.
    destruct (connected_neq Sz Hh HSz s i j H1 H3) as (_ & Hei & Hej).
    destruct (get_node s a) as [na|] eqn:Ha; [destruct (get_node s b) as [nb|] eqn:Hb|].
    2,3: (assert (Es : fst (do_deliver_w Sz Hh s a b) = MkNet (nodes s) (conns s) rest (wire_b s) (now s))
           by (unfold do_deliver_w; rewrite Et;
               change (get_node (MkNet (nodes s) (conns s) rest (wire_b s) (now s)) a) with (get_node s a);
               change (get_node (MkNet (nodes s) (conns s) rest (wire_b s) (now s)) b) with (get_node s b);
               rewrite ?Ha, ?Hb; reflexivity);
         rewrite Es in *; apply (P2_frame s); try assumption; try reflexivity;
         [ intros m' Hm' Hs' Hd'; destruct (Hrest m' Hm') as [->|Hr]; [exfalso; congruence | exact Hr]
         | intros m' Hm' _ _; left; apply Hsub, Hm'
         | intros m' Hm' _ _; exact Hm' ]).
    destruct (deliver_w_effect s a b m rest na nb Et Ha Hb) as (Ec & Eww & Ewb & Est & Esv & Esvb & Ecl & Ecla).
    set (s' := fst (do_deliver_w Sz Hh s a b)) in *.
    assert (Hcli : exists cl cl', client_of s i = Some cl /\ client_of s' i = Some cl' /\ cs_wl cl' = cs_wl cl /\ cs_tasks cl' = cs_tasks cl /\
                    cs_now cl' = cs_now cl /\ cs_deadline cl' = cs_deadline cl /\
                    (forall ps, In (j, ps) (cs_peers cl) -> p_ss ps = SsReady -> In (j, ps) (cs_peers cl'))).
    { destruct (N.eq_dec i a) as [->|Hne].
      - exists (n_client na), (c_report (n_client na) b CONN RpReady). split; [unfold client_of; rewrite Ha; reflexivity|].
        split; [exact Ecla|]. repeat split; try reflexivity. intros ps. apply report_keeps_ready.
      - destruct (get_node s i) as [ni|] eqn:Hgi; [|contradiction]. exists (n_client ni), (n_client ni).
        assert (E0 : client_of s i = Some (n_client ni)) by (unfold client_of; rewrite Hgi; reflexivity).
        split; [exact E0|]. split; [rewrite Ecl by exact Hne; exact E0|]. repeat split; auto. }
    destruct Hcli as (cl & cl' & Hcl & Hcl' & Ewl & Etk & Enow & Edl & Hpeers).
    assert (Hwl : wl_i s' = wl_i s) by (unfold wl_i; rewrite Hcl, Hcl', Ewl; reflexivity).
    constructor; try assumption.
    - unfold Net.connected in *. rewrite Ec. exact H3.
    - intros x E. rewrite Hcl' in E. injection E as <-. unfold no_gets. rewrite Etk. apply (H4 _ Hcl).
    - rewrite Est. exact H5.
    - rewrite Hwl. exact H6.
    - rewrite Hwl. intros Hc. destruct (H7 Hc) as [HW HT]. split.
      + intros m' Hm'. rewrite Eww in Hm'. apply HW, Hsub, Hm'.
      + assert (Hdec : (a = i /\ b = j /\ wm_full m = true) \/ ~ (a = i /\ b = j /\ wm_full m = true)).
        { destruct (N.eq_dec a i), (N.eq_dec b j), (wm_full m); try (left; tauto); right; intros (? & ? & ?); congruence. }
        destruct Hdec as [(-> & -> & Hfull)|Hnot].
        * (* the full wantlist arrives *)
          right; right; left. destruct (HW m Hm Hsrc Hdst) as (Hwfe & Hnc & Hf). destruct (Hf Hfull) as [Hwant Hlen].
          pose proof (no_nodes _ _ _ H1 _ _ Hb) as Hn. destruct (nk_sv _ _ _ _ _ Hn) as (HI & _ & Hpn & _).
          assert (Hent : alookup N.eqb i (s_wants (n_server nb)) <> None).
          { intros E. apply (alookup_None N.eqb Server_lemmas.Neqb_spec) in E. apply E. apply (nk_swants _ _ _ _ _ Hn). rewrite connected_sym. exact H3. }
          assert (Hwfc : wf_cid Sz c) by (eapply wl_wf; [exact H2 | exact Hcl|]; unfold wl_i in Hc; rewrite Hcl in Hc; exact Hc).
          pose proof (full_msg Sz HSz (n_server nb) i (wl_sdh (cs_wl (n_client na))) (wm_entries m) c HI Hpn Hent Hwfc Hwant Hlen) as Hfm.
          cbn zeta in Hfm. destruct Hfm as [Hw2 (t & Ht & Htodo)].
          exists (srv_after_w nb i (wl_sdh (cs_wl (n_client na))) m). split; [exact Esvb|].
          unfold srv_after_w. rewrite Hfull. cbn [orb]. unfold srv. rewrite Hfull in *. split; [exact Hw2|].
          unfold pendS. destruct strict; [|exact I]. right; left. exists t. split; [exact Ht | left; exact Htodo].
        * destruct HT as [HT|[HT|[HT|HT]]].
          -- left. destruct HT as (x & ps & E & Hin & Hr & Hsf). rewrite Hcl in E. injection E as <-.
             exists cl', ps. split; [exact Hcl'|]. split; [apply Hpeers; assumption|]. split; [exact Hr|].
             unfold timer_ready in *. rewrite Enow, Edl. exact Hsf.
          -- right; left. destruct HT as (mB & HmB & A & B & C). exists mB. rewrite Eww. split; [|auto].
             destruct (Hrest mB HmB) as [->|Hr]; [|exact Hr]. exfalso. apply Hnot. repeat split; congruence.
          -- right; right; left. destruct HT as (st & E & Hw & Hp).
             destruct (N.eq_dec j b) as [<-|Hne]; [|exists st; rewrite Esv by exact Hne; auto].
             assert (st = n_server nb) by (unfold server_of in E; rewrite Hb in E; injection E as <-; reflexivity). subst st.
             exists (srv_after_w nb a (wl_sdh (cs_wl (n_client na))) m). split; [exact Esvb|].
             unfold srv_after_w. destruct (wm_full m || negb (is_nil (wm_entries m))) eqn:Econd; [|auto].
             pose proof (no_nodes _ _ _ H1 _ _ Hb) as Hn. destruct (nk_sv _ _ _ _ _ Hn) as (HI & _ & Hpn & _).
             unfold srv. split; [|apply pendS_other; [exact I | exact Hp]].
             destruct (N.eq_dec a i) as [->|Hai].
             ++ destruct (HW m Hm Hsrc Hdst) as (Hwfe & Hnc & _).
                assert (Hnf : wm_full m = false) by (destruct (wm_full m); [exfalso; apply Hnot; auto | reflexivity]).
                rewrite Hnf. apply (update_msg Sz HSz); assumption.
             ++ apply (wants_other Sz); [exact Hpn | exact Hai | exact Hw].
          -- right; right; right. destruct HT as (mm & Hmm & R). exists mm. rewrite Ewb. auto.
  Qed.

  (* ---------- NDeliverB ---------- *)
  Lemma c_incoming_effect cl p blocks :
    INVB cl ->
    let cl' := fst (c_incoming cl p [] blocks) in
    (forall x, In x (wl_cids (cs_wl cl')) -> In x (wl_cids (cs_wl cl))) /\
    (al_find N.eqb p (cs_peers cl) <> None -> forall b, In b blocks -> ~ In (fst b) (wl_cids (cs_wl cl'))) /\
    cs_now cl' = cs_now cl /\ cs_deadline cl' = cs_deadline cl /\ (no_gets cl -> no_gets cl') /\
    (forall q psq, In (q, psq) (cs_peers cl) ->
       exists psq', In (q, psq') (cs_peers cl') /\ p_ss psq' = p_ss psq /\ p_send_full psq' = p_send_full psq).
  Proof.
    intros HB. unfold c_incoming. destruct (al_find N.eqb p (cs_peers cl)) as [ps|] eqn:E.
    2:{ cbn [fst]. split; [auto|]. split; [intros H; exfalso; apply H; reflexivity|]. split; [reflexivity|]. split; [reflexivity|]. split; [auto|].
        intros q psq H. exists psq. auto. }
    cbn [fold_left]. set (a0 := MkInc (cs_wl cl) (p_wl ps) (cs_c2q cl) (cs_queue cl) [] false). set (a := fold_left inc_block blocks a0).
    assert (Hsh : forall x, In x (wl_cids (ia_wl a)) -> In x (wl_cids (cs_wl cl))).
    { intros x Hx. destruct (cid_mem x (wl_cids (cs_wl cl))) eqn:M; [apply cid_mem_In, M|].
      pose proof (inc_blocks_wl_shrinks blocks a0 x M) as M'. fold a in M'. apply cid_mem_In in Hx. congruence. }
    assert (Hrem : forall b, In b blocks -> ~ In (fst b) (wl_cids (ia_wl a))) by (apply (inc_blocks_removed (fun _ => True) blocks a0); [exact HB | reflexivity]).
    assert (Hpeers : forall q psq, In (q, psq) (cs_peers cl) ->
              exists psq', In (q, psq') (al_modify N.eqb p (fun ps0 => MkPeer (p_conns ps0) (p_ss ps0) (ia_pwl a) (p_send_full ps0)) (cs_peers cl)) /\
                           p_ss psq' = p_ss psq /\ p_send_full psq' = p_send_full psq).
    { intros q psq Hin. unfold al_modify. destruct (p =? q) eqn:Eq.
      - exists (MkPeer (p_conns psq) (p_ss psq) (ia_pwl a) (p_send_full psq)). split; [|auto]. apply in_map_iff. exists (q, psq).
        cbn [fst snd]. rewrite Eq. auto.
      - exists psq. split; [|auto]. apply in_map_iff. exists (q, psq). cbn [fst snd]. rewrite Eq. auto. }
    destruct (ia_panic a); [|destruct (ia_new a) as [|b0 nb]]; cbn [fst push_task cs_wl cs_now cs_deadline cs_peers cs_tasks];
      (split; [exact Hsh|]); (split; [intros _; exact Hrem|]); (split; [reflexivity|]); (split; [reflexivity|]); (split; [|exact Hpeers]);
      intros Hn; try exact Hn.
    intros tid t Hin. cbn [cs_tasks] in Hin. apply in_app_iff in Hin. destruct Hin as [Hin|[[= <- <-]|[]]]; [apply (Hn _ _ Hin) | eexists; reflexivity].
  Qed.

  Lemma deliver_b_effect s a b m rest nb :
    take_first (b_between a b) (wire_b s) = Some (m, rest) -> get_node s b = Some nb -> Forall (good Sz Hh) (bm_blocks m) ->
    exists cl',
      fst (do_deliver_b Sz Hh s a b) =
      MkNet (set_nth (N.to_nat b) (MkNode cl' (n_server nb) (n_store nb) (n_calls nb)) (nodes s)) (conns s) (wire_w s) rest (now s) /\
      ((cl' = n_client nb /\ bm_blocks m = []) \/ cl' = fst (c_incoming (n_client nb) a [] (ins_all (bm_blocks m) []))).
  Proof.
    intros Et Hb Hg. unfold do_deliver_b. rewrite Et, Hb. unfold node_incoming. rewrite (process_blocks_message Sz Hh _ Hg).
    cbn [in_client in_server]. destruct (bm_blocks m) as [|b0 bl] eqn:Eb.
    - exists (n_client nb). split; [reflexivity | left; split; reflexivity].
    - cbn [cm_presences cm_blocks map]. exists (fst (c_incoming (n_client nb) a [] (ins_all (b0 :: bl) []))). split; [|right; reflexivity].
      cbn [cstep]. destruct (c_incoming (n_client nb) a [] (ins_all (b0 :: bl) [])) as [c1 o1]. reflexivity.
  Qed.

  Lemma P2_deliver_b s a b : P2 s -> P2 (fst (nstep Sz Hh s (NDeliverB a b))).
  Proof.
    intros HP. pose proof HP as [H1 H2 H3 H4 H5 H6 H7].
    assert (Hok' : net_ok Sz Hh (fst (nstep Sz Hh s (NDeliverB a b)))) by (apply net_ok_step; [exact HSz | exact I | exact H1]).
    assert (Hwf' : net_wf Sz (fst (nstep Sz Hh s (NDeliverB a b)))) by (apply (net_wf_step Sz Hh HSz); [exact H1 | exact I | exact H2]).
    cbn [nstep] in *.
    destruct (take_first (b_between a b) (wire_b s)) as [[m rest]|] eqn:Et; [|unfold do_deliver_b in *; rewrite Et in *; exact HP].
    destruct (take_first_spec _ _ _ _ Et) as (Hm & Hab & Hsub & Hrest).
    unfold b_between in Hab. apply andb_true_iff in Hab. destruct Hab as [Hsrc Hdst]. apply N.eqb_eq in Hsrc, Hdst.
    pose proof (no_wire_b _ _ _ H1 m Hm) as Hgood.
    destruct (connected_neq Sz Hh HSz s i j H1 H3) as (_ & Hei & _).
    destruct (get_node s b) as [nb|] eqn:Hb.
    2:{ assert (Es : fst (do_deliver_b Sz Hh s a b) = MkNet (nodes s) (conns s) (wire_w s) rest (now s))
          by (unfold do_deliver_b; rewrite Et, Hb; reflexivity).
        rewrite Es in *. apply (P2_frame s); try assumption; try reflexivity.
        - intros m' Hm' _ _. exact Hm'.
        - intros m' Hm' _ _. left. exact Hm'.
        - intros m' Hm' Hs' Hd'. destruct (Hrest m' Hm') as [->|Hr]; [|exact Hr]. exfalso. congruence. }
    destruct (deliver_b_effect s a b m rest nb Et Hb Hgood) as (cl' & Es & Hcl'). rewrite Es in *.
    match goal with |- P2 ?x => set (s' := x) in * end.
    assert (Hsv : forall x, server_of s' x = server_of s x).
    { intros x. unfold server_of, s'. destruct (N.eq_dec x b) as [->|Hne].
      - rewrite (get_set_nth_same s b nb _ _ _ _ _ Hb), Hb. reflexivity.
      - rewrite get_set_nth_other by exact Hne. reflexivity. }
    assert (Hst : forall x, store_of s' x = store_of s x).
    { intros x. unfold store_of, s'. destruct (N.eq_dec x b) as [->|Hne].
      - rewrite (get_set_nth_same s b nb _ _ _ _ _ Hb), Hb. reflexivity.
      - rewrite get_set_nth_other by exact Hne. reflexivity. }
    destruct (N.eq_dec b i) as [->|Hbi].
    - (* blocks for node i *)
      assert (Hcl : client_of s i = Some (n_client nb)) by (unfold client_of; rewrite Hb; reflexivity).
      assert (Hcls' : client_of s' i = Some cl') by (unfold client_of, s'; rewrite (get_set_nth_same s i nb _ _ _ _ _ Hb); reflexivity).
      pose proof (no_nodes _ _ _ H1 _ _ Hb) as Hn.
      pose proof (c_incoming_effect (n_client nb) a (ins_all (bm_blocks m) []) (nk_invb _ _ _ _ _ Hn)) as Heff. cbn zeta in Heff.
      destruct Heff as (Fsh & Frem & Fnow & Fdl & Fng & Fpeers).
      assert (Gsh : forall x, In x (wl_cids (cs_wl cl')) -> In x (wl_cids (cs_wl (n_client nb)))) by (destruct Hcl' as [[-> _]| ->]; auto).
      assert (Gnow : cs_now cl' = cs_now (n_client nb) /\ cs_deadline cl' = cs_deadline (n_client nb)) by (destruct Hcl' as [[-> _]| ->]; auto).
      assert (Gng : no_gets cl') by (destruct Hcl' as [[-> _]| ->]; [|apply Fng]; apply (H4 _ Hcl)).
      assert (Gpeers : forall q psq, In (q, psq) (cs_peers (n_client nb)) ->
                exists psq', In (q, psq') (cs_peers cl') /\ p_ss psq' = p_ss psq /\ p_send_full psq' = p_send_full psq).
      { destruct Hcl' as [[-> _]| ->]; [|exact Fpeers]. intros q psq H. exists psq. auto. }
      assert (Hwl_sub : forall x, In x (wl_i s') -> In x (wl_i s)) by (unfold wl_i; rewrite Hcl, Hcls'; exact Gsh).
      constructor; try assumption.
      + intros x E. rewrite Hcls' in E. injection E as <-. exact Gng.
      + rewrite Hst. exact H5.
      + etransitivity; [|exact H6]. apply NoDup_incl_length; [|exact Hwl_sub]. unfold wl_i. rewrite Hcls'.
        pose proof (no_nodes _ _ _ Hok' i _ (get_set_nth_same s i nb _ _ _ _ _ Hb)) as Hn'. apply (ck_wl _ _ (nk_ck _ _ _ _ _ Hn')).
      + intros Hc'. destruct (H7 (Hwl_sub _ Hc')) as [HW HT]. split; [exact HW|].
        destruct HT as [HT|[HT|[HT|HT]]].
        * left. destruct HT as (x & ps & E & Hin & Hr & Hsf). rewrite Hcl in E. injection E as <-.
          destruct (Gpeers _ _ Hin) as (ps' & Hin' & Ess & Esf). exists cl', ps'. split; [exact Hcls'|]. split; [exact Hin'|].
          split; [congruence|]. unfold timer_ready in *. destruct Gnow as [-> ->]. rewrite Esf. exact Hsf.
        * right; left. exact HT.
        * right; right; left. eapply TC_frame; [apply Hsv | exact HT].
        * right; right; right. destruct HT as (mD & HmD & A & B & C). destruct (Hrest mD HmD) as [->|Hr]; [|exists mD; auto].
          exfalso. (* the batch that is delivered holds c: c is not wanted afterwards *)
          assert (Haj : a = j) by congruence. subst a.
          destruct Hcl' as [[_ Hemp]| ->].
          -- (* an empty batch cannot hold c *) rewrite Hemp in C. destruct C.
          -- unfold wl_i in Hc'. rewrite Hcls' in Hc'. apply in_map_iff in C. destruct C as ([c0 d0] & E0 & Hc0). cbn [fst] in E0. subst c0.
             assert (Hk : In c (map fst (ins_all (bm_blocks m) []))) by (apply ins_all_keys; right; apply in_map_iff; exists (c, d0); auto).
             apply in_map_iff in Hk. destruct Hk as ([c1 d1] & E1 & Hc1). cbn [fst] in E1. subst c1.
             refine (Frem _ (c, d1) Hc1 Hc').
             intros E. apply (al_find_none _ Client_proofs.Neqb_spec) in E. apply E. apply (nk_peers _ _ _ _ _ Hn). rewrite A. exact H3.
    - (* elsewhere *)
      apply (P2_frame s); try assumption; try reflexivity.
      + unfold client_of, s'. rewrite get_set_nth_other by congruence. reflexivity.
      + apply Hsv.
      + apply Hst.
      + intros m' Hm' _ _. exact Hm'.
      + intros m' Hm' _ _. left. exact Hm'.
      + intros m' Hm' Hs' Hd'. destruct (Hrest m' Hm') as [->|Hr]; [|exact Hr]. exfalso. congruence.
  Qed.
End Phase2.
