(* Tie_srvhandler.v — the body of `ServerConnectionHandler::poll_outgoing` (/repo/src/server.rs) as regenerated into Extracted.v on
   every run (the five arms of the match on (pending_outgoing_messages, sink), each a list of coded statements) against
   ServerHandler.v: the model's `sh_iter` IS the interpretation of the extracted table (`tie_shpoll`).  Moving the flush behind the
   `take`, dropping the split, re-queueing in another order, a `continue` that becomes a `return`: each changes the table and the
   lemma no longer holds by computation. *)
From BS Require Import Bytes Types FramedWrite ServerHandler Extracted.
From Coq Require Import List NArith Bool.
Import ListNotations.
Open Scope N_scope.

Section Interp.
Variable encode : message -> bytes.
Variable block_size : blk -> N.

Inductive sflow := SfNext | SfStop (r : siter_res).

(* interpretation state: handler state, rest of the script, the bindings `messages` and `remaining` *)
Definition sist : Type := shstate * list io * list blk * list blk.
Definition sires : Type := sflow * sist * list shout.

Definition set_pending (st : shstate) (p : option (list blk)) : shstate :=
  MkSH (sh_sink st) p (sh_next st) (sh_exhausted st) (sh_started st) (sh_queued st).
Definition set_sexhausted (st : shstate) : shstate :=
  MkSH (sh_sink st) (sh_pending st) (sh_next st) true (sh_started st) (sh_queued st).

Definition sjunk (x : sist) : sires :=
  let '(st, s, ms, rm) := x in (SfStop SiPending, (set_sexhausted st, s, ms, rm), []).

(* `self.sink = SinkState::None`: the old value is dropped *)
Definition sdrop_sink (st : shstate) : shstate * list shout :=
  match sh_sink st with
  | SvReady id _ => (sh_set_sink st SvNone, [SHDropped id])
  | _ => (sh_set_sink st SvNone, [])
  end.

Definition sexec_stmt (c : N) (x : sist) : sires :=
  let '(st, s, ms, rm) := x in
  match c with
  | 1 => let '(st1, o) := sdrop_sink st in (SfNext, (st1, s, ms, rm), o)
  | 3 => (SfStop SiContinue, x, [])
  | 11 => (SfStop SiPending, x, [])
  | 12 => let '(st1, o) := sdrop_sink st in (SfStop (SiReady SHOpenStream), (sh_set_sink st1 SvRequested, s, ms, rm), o)
  | 30 => match sh_pending st with
          | Some l => (SfNext, (set_pending st None, s, l, rm), [])
          | None => sjunk x
          end
  | 31 => let '(now, rest) := splitN (blocks_fitting_in_message block_size ms) ms in (SfNext, (st, s, now, rest), [])
  | 33 => (SfNext, (set_pending st (Some rm), s, ms, rm), [])
  | 34 => (SfNext, x, [])
  | _ => sjunk x
  end.

Fixpoint srun_stmts (cs : list N) (x : sist) : sires :=
  match cs with
  | [] => (SfNext, x, [])
  | c :: cs' =>
      let '(fl, x1, o1) := sexec_stmt c x in
      match fl with
      | SfStop _ => (fl, x1, o1)
      | SfNext => let '(fl2, x2, o2) := srun_stmts cs' x1 in (fl2, x2, o1 ++ o2)
      end
  end.

Definition sexec_item (it : N * list N) (x : sist) : sires :=
  let '(st, s, ms, rm) := x in
  match it with
  | (0, [c]) => sexec_stmt c x
  | (20, cs) =>                                      (* if ready!(sink.poll_flush_unpin(cx)).is_err() { cs } *)
      match sh_sink st with
      | SvReady id buf =>
          let f := fw_poll_flush buf s in
          let x1 := (sh_set_sink st (SvReady id (fr_buf f)), fr_script f, ms, rm) in
          let o := shout_of_sevs id (fr_evs f) in
          match fr_res f with
          | PrPending => (SfStop SiPending, x1, o)
          | PrErr => let '(fl, x2, o2) := srun_stmts cs x1 in (fl, x2, o ++ o2)
          | PrOk => (SfNext, x1, o)
          end
      | _ => sjunk x
      end
  | (24, cs) => match rm with [] => (SfNext, x, []) | _ :: _ => srun_stmts cs x end      (* if !remaining.is_empty() { cs } *)
  | (25, _) =>                                       (* Codec::encode never fails: the Err block is dead code *)
      match sh_sink st with
      | SvReady id buf =>
          (SfNext, (MkSH (SvReady id (fw_start_send buf (encode (payload_message ms)))) (sh_pending st) (sh_next st)
                         (sh_exhausted st) (sh_started st ++ [(id, ms)]) (sh_queued st), s, ms, rm), [])
      | _ => sjunk x
      end
  | _ => sjunk x
  end.

Fixpoint srun_items (its : list (N * list N)) (x : sist) : sires :=
  match its with
  | [] => (SfNext, x, [])
  | it :: its' =>
      let '(fl, x1, o1) := sexec_item it x in
      match fl with
      | SfStop _ => (fl, x1, o1)
      | SfNext => let '(fl2, x2, o2) := srun_items its' x1 in (fl2, x2, o1 ++ o2)
      end
  end.

Definition pend_matches (p : N) (m : option (list blk)) : bool :=
  match p, m with 0, None => true | 1, Some _ => true | 9, _ => true | _, _ => false end.
Definition ssink_matches (p : N) (k : ssink) : bool :=
  match p, k with 0, SvNone => true | 1, SvRequested => true | 2, SvReady _ _ => true | 9, _ => true | _, _ => false end.

Fixpoint sfind_arm (arms : list (N * N * list (N * list N))) (m : option (list blk)) (k : ssink) : option (list (N * list N)) :=
  match arms with
  | [] => None
  | (pm, pk, body) :: r => if pend_matches pm m && ssink_matches pk k then Some body else sfind_arm r m k
  end.

Definition sres_of (fl : sflow) : siter_res := match fl with SfStop r => r | SfNext => SiContinue end.

Definition sinterp_iter (arms : list (N * N * list (N * list N))) (st : shstate) (script : list io)
  : siter_res * shstate * list io * list shout :=
  match sfind_arm arms (sh_pending st) (sh_sink st) with
  | Some body => let '(fl, (st2, s2, _, _), o) := srun_items body (st, script, [], []) in (sres_of fl, st2, s2, o)
  | None => (SiPending, set_sexhausted st, script, [])
  end.
End Interp.

Ltac shnorm := cbv -[N.leb N.ltb N.eqb N.add fw_poll_flush fw_start_send app map splitN blocks_fitting_in_message shout_of_sevs].

Lemma tie_shpoll : forall encode block_size st script,
  sh_iter encode block_size st script = sinterp_iter encode block_size Extracted.shpoll_arms st script.
Proof.
  intros encode block_size st script.
  destruct st as [k p nx ex started queued].
  unfold sh_iter, sinterp_iter.
  destruct p as [l|], k as [| |id buf]; try reflexivity.
  - cbn [sh_pending sh_sink sfind_arm Extracted.shpoll_arms pend_matches ssink_matches andb srun_items sexec_item].
    destruct (fw_poll_flush buf script) as [r b s' e]. destruct r; shnorm; rewrite ?app_nil_r; try reflexivity.
    repeat match goal with |- context [@splitN ?A ?a ?b] => destruct (@splitN A a b) as [now rest] end.
    destruct rest; shnorm; rewrite ?app_nil_r; reflexivity.
  - cbn [sh_pending sh_sink sfind_arm Extracted.shpoll_arms pend_matches ssink_matches andb srun_items sexec_item].
    destruct (fw_poll_flush buf script) as [r b s' e]. destruct r; shnorm; rewrite ?app_nil_r; reflexivity.
Qed.

Lemma tie_shpoll_tables :
  map (fun a => (fst (fst a), snd (fst a))) Extracted.shpoll_arms = [(9, 1); (0, 0); (0, 2); (1, 0); (1, 2)].
Proof. reflexivity. Qed.
