(* NetF_proofs7.v — package P, part 7: what `FReconnect i j` does in ANY net reachable with faults in which the pair is
   connected (whether or not either end still tracks the other): afterwards both ends have a FRESH peer entry for the other —
   connection CONN, sending state Ready, no record of anything sent, `send_full` set — and nothing of the pair is in flight.
   The next poll of either end therefore sends its full wantlist: the client-level self-healing (C05 at client level) starts
   from here.  (That the whole net then satisfies `RI` again is proved for episodic runs only, NetF_proofs3.) *)
From BS Require Import Server_lemmas Server_inv Wantlist_proofs Client_proofs Client_proofs2 Client_proofs3 Client_proofs4
  Net Net_proofs2 Net_proofs3 Net_proofs4 Net_proofs5 Net_proofs6 Net_proofs7 NetF NetF_proofs NetF_proofs4 NetF_proofs5 NetF_proofs6.
From Coq Require Import ZArith ZifyBool ZifyN ZifyNat Lia.
Open Scope N_scope.

Lemma al_find_peers_ins p ps l : ~ In p (map fst l) -> al_find N.eqb p (peers_ins p ps l) = Some ps.
Proof.
  induction l as [|[p' ps'] l IH]; intros Hn; cbn [peers_ins]; [cbn; rewrite N.eqb_refl; reflexivity|].
  destruct (p <? p'); cbn [al_find]; [rewrite N.eqb_refl; reflexivity|].
  destruct (p =? p') eqn:E; [apply N.eqb_eq in E; subst; exfalso; apply Hn; left; reflexivity|].
  apply IH. intros H. apply Hn. right. exact H.
Qed.

Definition fresh_peer : peer_state := MkPeer [CONN] SsReady wls_new true.

Lemma new_conn_fresh c j : untracked j c -> al_find N.eqb j (cs_peers (c_new_conn c j CONN)) = Some fresh_peer.
Proof.
  intros Hu. unfold c_new_conn. destruct (al_mem N.eqb j (cs_peers c)) eqn:M; [apply (al_mem_In _ Neqb_spec) in M; contradiction|].
  cbn [set_peers cs_peers]. apply al_find_peers_ins, Hu.
Qed.

Section Reconnect.
  Variables (Sz : N) (Hh : hash_fn).

  Theorem reconnect_fresh s i j :
    linv s -> conns_ex s -> all_clients conns_one s -> Net.connected s i j = true ->
    let s' := do_reconnect Sz s i j in
    Net.connected s' i j = true /\ peer_of s' i j = Some fresh_peer /\ peer_of s' j i = Some fresh_peer /\
    inflight s' i j = [] /\ inflight s' j i = [].
  Proof.
    intros Hl Hex Hone Hc. cbn zeta. pose proof (conns_lt_neq s i j (proj1 Hl) Hc) as Hij.
    assert (Hd : disconnects s i j = true).
    { unfold disconnects, ends_exist. pose proof Hc as Hc'. apply connected_In in Hc'. unfold norm in Hc'.
      destruct (i <? j); destruct (Hex _ _ Hc') as [A B]; destruct (get_node s i); destruct (get_node s j); try contradiction; rewrite Hc; reflexivity. }
    destruct (dropped_sound Sz s i j Hl Hone Hd) as (T1 & T2 & C0 & Hw & (ni & nj & Hi & Hj & Ci & Cj)).
    unfold do_reconnect. set (sD := do_disconnect Sz s i j) in *.
    unfold client_of in Ci, Cj.
    destruct (get_node sD i) as [niD|] eqn:EiD; [|discriminate]. destruct (get_node sD j) as [njD|] eqn:EjD; [|discriminate].
    cbn [option_map] in Ci, Cj. injection Ci as Ci. injection Cj as Cj.
    unfold do_connect. rewrite EiD, EjD, C0. replace (i =? j) with false by (symmetry; apply N.eqb_neq; exact Hij). cbn [orb].
    set (ni' := node_connected Sz niD j CONN). set (nj' := node_connected Sz njD i CONN).
    assert (Gi : forall cc ww wb, get_node (MkNet (nodes (set_node (set_node sD i ni') j nj')) cc ww wb (now sD)) i = Some ni').
    { intros cc ww wb. change (get_node (set_node (set_node sD i ni') j nj') i = Some ni'). rewrite get_set_neq by congruence. apply (get_set_eq sD i niD ni' EiD). }
    assert (Gj : forall cc ww wb, get_node (MkNet (nodes (set_node (set_node sD i ni') j nj')) cc ww wb (now sD)) j = Some nj').
    { intros cc ww wb. change (get_node (set_node (set_node sD i ni') j nj') j = Some nj'). apply (get_set_eq _ j njD nj'). rewrite get_set_neq by exact Hij. exact EjD. }
    assert (Ui : untracked j (n_client niD)).
    { apply (existsb_key_false j). unfold tracks in T1. rewrite EiD in T1. exact T1. }
    assert (Uj : untracked i (n_client njD)).
    { apply (existsb_key_false i). unfold tracks in T2. rewrite EjD in T2. exact T2. }
    split; [|split; [|split; [|split]]].
    - unfold Net.connected. cbn [conns]. rewrite existsb_app. cbn [existsb]. rewrite (proj2 (pair_eqb_spec _ _) eq_refl). cbn. apply orb_true_r.
    - unfold peer_of. rewrite Gi. unfold ni', node_connected. cbn [n_client cstep fst]. apply new_conn_fresh, Ui.
    - unfold peer_of. rewrite Gj. unfold nj', node_connected. cbn [n_client cstep fst]. apply new_conn_fresh, Uj.
    - unfold inflight. cbn [wire_w]. destruct (filter (w_between i j) (wire_w sD)) as [|m r] eqn:E; [reflexivity|]. exfalso.
      assert (Hm : In m (filter (w_between i j) (wire_w sD))) by (rewrite E; left; reflexivity). apply filter_In in Hm. destruct Hm as [Hm Hb].
      pose proof (Hw m Hm) as Ht. unfold w_touches in Ht. rewrite Hb in Ht. discriminate.
    - unfold inflight. cbn [wire_w]. destruct (filter (w_between j i) (wire_w sD)) as [|m r] eqn:E; [reflexivity|]. exfalso.
      assert (Hm : In m (filter (w_between j i) (wire_w sD))) by (rewrite E; left; reflexivity). apply filter_In in Hm. destruct Hm as [Hm Hb].
      pose proof (Hw m Hm) as Ht. unfold w_touches in Ht. rewrite Hb, orb_true_r in Ht. discriminate.
  Qed.
End Reconnect.
