(* Corr_hasher.v — engine `hasher`: MultihasherTable::{new, register, hash} with recording scripted
   hashers, against Hasher.v; C18 oracle on the implementation's outputs. *)
From BS Require Export Bytes Cid Prefix Hasher.
Open Scope N_scope.

(* the answer of one scripted hasher for the queried (code, data) *)
Inductive hkind := KUnknown | KOk (mh : multihash) | KCustom | KFatal | KInvalid.

Definition hres_of (k : hkind) : hash_result :=
  match k with
  | KUnknown => HErr UnknownMultihashCode
  | KOk mh => HOk mh
  | KCustom => HErr CustomErr
  | KFatal => HErr CustomFatalErr
  | KInvalid => HErr InvalidMultihashSize
  end.

(* hs: scripted answers in REGISTRATION order; raw: digest of the built-in table for (code, data) if any *)
Inductive hin := HTable (cap : N) (hs : list hkind) (code : N) (data : bytes) (raw : option bytes).
(* result, and the registration indices (0-based) of the scripted hashers that were consulted, in order *)
Inductive hout := HOut (r : hash_result) (consulted : list N) | HPanicked.

Definition hash_err_eqb (a b : hash_err) : bool :=
  match a, b with
  | UnknownMultihashCode, UnknownMultihashCode | InvalidMultihashSize, InvalidMultihashSize
  | CustomErr, CustomErr | CustomFatalErr, CustomFatalErr => true
  | _, _ => false
  end.
Definition hres_eqb (a b : hash_result) : bool :=
  match a, b with
  | HOk x, HOk y => mh_eqb x y
  | HErr x, HErr y => hash_err_eqb x y
  | _, _ => false
  end.

(* indices n-1, n-2, ... (k of them, at most n) *)
Fixpoint down_from (n : nat) (k : nat) : list N :=
  match k, n with
  | O, _ => []
  | _, O => []
  | S k', S n' => N.of_nat n' :: down_from n' k'
  end.

Definition model (x : hin) : hout :=
  match x with
  | HTable cap hs code data raw =>
      let t := fold_left (fun t k => table_register (fun _ _ => hres_of k) t) hs
                         (table_new cap (fun c d => if (c =? code) && bytes_eqb d data then raw else None)) in
      let '(r, k) := table_hash_consulted t code data in
      HOut r (down_from (length hs) (N.to_nat k))
  end.

Definition hout_eqb (a b : hout) : bool :=
  match a, b with
  | HOut r1 c1, HOut r2 c2 => hres_eqb r1 r2 && list_eqb N.eqb c1 c2
  | HPanicked, HPanicked => true
  | _, _ => false
  end.

Definition case := (hin * hout)%type.
Definition corr (x : case) : bool := hout_eqb (model (fst x)) (snd x).

(* C18, computed independently of table_hash: walk the registration list from the newest; the first
   answer that is not unknown-code is the result and the walk stops there; the built-in table last *)
Fixpoint newest_first_answer (rev_hs : list hkind) (i : nat) : option (hash_result * list N) :=
  match rev_hs with
  | [] => None
  | k :: rest =>
      match k with
      | KUnknown =>
          match newest_first_answer rest (pred i) with
          | Some (r, l) => Some (r, N.of_nat (pred i) :: l)
          | None => None
          end
      | _ => Some (hres_of k, [N.of_nat (pred i)])
      end
  end.

Definition oracle (x : case) : bool :=
  match x with
  | (HTable cap hs code data raw, HOut r consulted) =>
      match newest_first_answer (rev hs) (length hs) with
      | Some (r', l) => hres_eqb r r' && list_eqb N.eqb consulted l
      | None =>
          list_eqb N.eqb consulted (down_from (length hs) (length hs)) &&
          match raw with
          | None => hres_eqb r (HErr UnknownMultihashCode)
          | Some d => if cap <? len d then hres_eqb r (HErr InvalidMultihashSize)
                      else hres_eqb r (HOk (MkMh code d))
          end
      end
  | (_, HPanicked) => false
  end.
