(* Net_proofs23.v — package J, part 1: the potential `Phi` of a net (definitions only, executable).

   `Phi s` is a weighted count of the work that is visible in a net: every schedule step of a fair round
   (NPoll, NStore, NDeliverW, NDeliverB) leaves it unchanged or lowers it, and a round of a net that is not
   quiet lowers it (Net_proofs24 …).  The weights: one unit pays for one step of the schedule that does
   something; an item weighs what the items it can turn into weigh, plus one.

     client   get task   not started  G+4 | call outstanding  G+2 | released  G+1 | aborted 1
                         where G = L + P*(WANT+U) + 1 pays for the miss: the CID enters the wantlist and every
                         one of the P peers must be told
              put task   not started 5 | call outstanding 3 | released 2
              wantlist   L = 6 + P*U per CID (a block that is accepted: put task, responses, every peer's record
                         goes out of date)
              per peer   U if the record is out of date; and WANT per want entry the next update would carry, or,
                         when a full wantlist is due (flag set or the timer about to fire), U + WANT per want entry
                         of that full wantlist
              1 if the event queue is not empty, 1 if new_blocks is not empty, 1 if the timer is ready
     server   task       1 + 2*|todo|  (ready or parked on a store call)
              waiting    1 per (cid, peer) of peers_waiting_for_cid
              1 if the outgoing queue is not empty
     node     1 per outstanding store call
     wire     wantlist   2 + WANT per want entry;      block batch  1                                   *)
From BS Require Import Net.
Open Scope nat_scope.

Definition wWANT : nat := 3.
Definition wU : nat := 3.
Definition wMSG : nat := 2.

Definition count_wants (es : list gen_entry) : nat := length (filter is_want es).

(* ---------- client ---------- *)
Definition wl_L (P : nat) : nat := 6 + P * wU.
Definition get_G (P : nat) : nat := wl_L P + P * (wWANT + wU) + 1.

Definition ctask_w (P : nat) (t : Client.task) : nat :=
  match t_kind t with
  | TGet _ _ =>
      if t_aborted t then 1
      else match t_call t, t_result t with
           | None, _ => get_G P + 4
           | Some _, None => get_G P + 2
           | Some _, Some _ => get_G P + 1
           end
  | TPut _ =>
      match t_call t, t_result t with
      | None, _ => 5
      | Some _, None => 3
      | Some _, Some _ => 2
      end
  end.

Definition sum_by {A} (f : A -> nat) (l : list A) : nat := fold_right (fun x a => f x + a) 0 l.

Definition b2n (b : bool) : nat := if b then 1 else 0.
Definition nonnil {A} (l : list A) : nat := match l with [] => 0 | _ => 1 end.

(* what one peer still has to be told (between beetswap nodes a record is SentWantHave or GotBlock, so a full
   wantlist has one WANT_HAVE per wanted CID and an update one WANT_HAVE per CID that is vacant in the record) *)
Definition peer_debt (w : wl) (tf : bool) (ps : peer_state) : nat :=
  (if p_send_full ps || tf
   then wU + wWANT * length (wl_cids w)
   else wWANT * length (vacant_cids w (req (p_wl ps))))
  + (if wls_is_updated (p_wl ps) w then 0 else wU).

Definition client_phi (c : cstate) : nat :=
  let P := length (cs_peers c) in
  sum_by (fun e => ctask_w P (snd e)) (cs_tasks c)
  + wl_L P * length (wl_cids (cs_wl c))
  + sum_by (fun e => peer_debt (cs_wl c) (timer_ready c) (snd e)) (cs_peers c)
  + nonnil (cs_queue c) + nonnil (cs_new_blocks c) + b2n (timer_ready c).

(* ---------- server ---------- *)
Definition stask_w (t : Server.task) : nat := 1 + 2 * length (Server.t_todo t).

Definition server_phi (st : sstate) : nat :=
  sum_by stask_w (s_ready st)
  + sum_by (fun x => stask_w (snd (snd x))) (s_blocked st)
  + sum_by (fun x => length (snd x)) (s_waiting st)
  + nonnil (s_outq st).

(* ---------- node, wire, net ---------- *)
Definition node_phi (n : node) : nat :=
  client_phi (n_client n) + server_phi (n_server n) + length (n_calls n).

Definition wmsg_w (m : wmsg) : nat := wMSG + wWANT * count_wants (wm_entries m).
Definition bmsg_w (m : bmsg) : nat := 1.

Definition Phi (s : net) : nat :=
  sum_by node_phi (nodes s) + sum_by wmsg_w (wire_w s) + sum_by bmsg_w (wire_b s).
