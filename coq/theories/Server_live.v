(* Server_live.v — C06 (a wanted block that becomes available is sent) and C15-server. *)
From BS Require Import Server Server_lemmas Server_inv Server_proofs.
From Coq Require Import ZArith ZifyBool ZifyN ZifyNat Lia Permutation.
Open Scope N_scope.

(* ---------------------------------------------------------------- bookkeeping of call numbers *)
Definition BK (st : sstate) : Prop :=
  NoDup (map fst (s_blocked st)) /\ forall k, In k (map fst (s_blocked st)) -> k < s_next_call st.

Lemma fold_run_task_BK ready : forall st out, BK st -> BK (fst (fold_left run_task ready (st, out))).
Proof.
  induction ready as [|t ready IH]; intros st out H; cbn [fold_left]; [exact H|].
  destruct (t_todo t) as [|c rest] eqn:Et.
  - rewrite (run_task_nil _ _ _ Et). apply IH. exact H.
  - rewrite (run_task_cons _ _ _ _ _ Et). apply IH. destruct H as [H1 H2]. split; cbn [s_blocked s_next_call].
    + rewrite map_app. cbn. apply NoDup_app_intro; [assumption|repeat constructor; cbn; tauto|].
      intros x Hx [<-|[]]. specialize (H2 _ Hx). lia.
    + intros k. rewrite map_app, in_app_iff. cbn. intros [Hk|[<-|[]]]; [specialize (H2 _ Hk)|]; lia.
Qed.

Lemma sstep_l_BK Sz st op : Inv st -> BK st -> BK (fst (sstep_l Sz st op)).
Proof.
  intros HI H. unfold sstep_l. destruct (s_panic st); [exact H|].
  destruct op as [q|q w order|bl|q|k r|]; cbn [fst].
  - unfold new_connection. destruct (alookup N.eqb q (s_wants st)); exact H.
  - unfold process_incoming_message. destruct (alookup N.eqb q (s_wants st)) as [old|]; [|exact H].
    destruct (process_wantlist Sz old w); exact H.
  - exact H.
  - unfold peer_disconnected. destruct (alookup N.eqb q (s_wants st)); exact H.
  - unfold release. destruct (alookup N.eqb k (s_blocked st)) as [[c t]|]; [|exact H].
    destruct H as [H1 H2]. split; cbn [s_blocked s_next_call].
    + apply NoDup_keys_adel; [apply Neqb_spec|assumption].
    + intros k' Hk'. apply (keys_adel N.eqb Neqb_spec) in Hk'. apply H2, Hk'.
  - destruct (do_poll_spec st HI) as (st1 & out1 & wants' & wt' & bat & Hf & Hdp & _ & _).
    rewrite Hdp. cbn [fst]. pose proof (fold_run_task_BK (s_ready st) (poll_start st) [] H) as Hb.
    rewrite Hf in Hb. exact Hb.
Qed.

Lemma BK_reach Sz ops : BK (snd (srun_l Sz ops)).
Proof.
  induction ops as [|op ops IH] using rev_ind.
  - split; cbn; [constructor|tauto].
  - rewrite srun_l_snoc. cbn [snd]. apply sstep_l_BK; [apply srun_l_from_inv, sinit_inv|assumption].
Qed.

Lemma Inv_reach Sz ops : Inv (snd (srun_l Sz ops)).
Proof. apply srun_l_from_inv, sinit_inv. Qed.

(* prefixes of a run that has not panicked have not panicked *)
Lemma srun_l_app_state Sz ops1 ops2 :
  snd (srun_l Sz (ops1 ++ ops2)) = snd (srun_l_from Sz (snd (srun_l Sz ops1)) ops2).
Proof. unfold srun_l. rewrite srun_l_from_app. reflexivity. Qed.

Lemma prefix_no_panic Sz ops1 ops2 :
  s_panic (snd (srun_l Sz (ops1 ++ ops2))) = false -> s_panic (snd (srun_l Sz ops1)) = false.
Proof.
  rewrite srun_l_app_state. destruct (s_panic (snd (srun_l Sz ops1))) eqn:E; [|reflexivity].
  rewrite (srun_l_from_panicked _ _ _ E). congruence.
Qed.

(* ---------------------------------------------------------------- a hit that is under way *)
(* a block for c is in the queue, or some store task holds a hit for c it has not delivered yet *)
Definition pending_hit (c : cid) (st : sstate) : Prop :=
  In c (map fst (s_outq st)) \/
  (exists t d, In t (s_ready st) /\ In (c, SHit d) (t_done t)) \/
  (exists k c' t d, In (k, (c', t)) (s_blocked st) /\ In (c, SHit d) (t_done t)).

Definition quiescent (st : sstate) : Prop := s_ready st = [] /\ s_blocked st = [] /\ s_outq st = [].

Lemma quiescent_no_pending c st : quiescent st -> ~ pending_hit c st.
Proof.
  intros (H1 & H2 & H3) [H|[(t & d & H & _)|(k & c' & t & d & H & _)]].
  - rewrite H3 in H. destruct H.
  - rewrite H1 in H. destruct H.
  - rewrite H2 in H. destruct H.
Qed.

Lemma pending_frame c st st' :
  pending_hit c st ->
  (forall x, In x (s_outq st) -> In x (s_outq st')) ->
  (forall t, In t (s_ready st) -> In t (s_ready st')) ->
  (forall x, In x (s_blocked st) -> In x (s_blocked st')) ->
  pending_hit c st'.
Proof.
  intros [H|[(t & d & H & Hd)|(k & c' & t & d & H & Hd)]] H1 H2 H3.
  - left. apply in_map_iff in H. destruct H as (x & <- & Hx). apply in_map, H1, Hx.
  - right. left. exists t, d. auto.
  - right. right. exists k, c', t, d. auto.
Qed.

(* one step: a pending hit for c stays pending, unless the step dispatches c, in which case no peer
   wants c afterwards *)
Lemma pending_step Sz st op c :
  Inv st -> BK st -> s_panic st = false -> pending_hit c st ->
  pending_hit c (fst (sstep_l Sz st op)) \/
  (forall p, ~ wantsP (s_wants (fst (sstep_l Sz st op))) p c).
Proof.
  intros HI HB Hp Hpend. unfold sstep_l. rewrite Hp.
  destruct op as [q|q w order|bl|q|k r|]; cbn [fst].
  - left. apply (pending_frame c st); auto; unfold new_connection;
      destruct (alookup N.eqb q (s_wants st)); auto.
  - left. apply (pending_frame c st); auto; unfold process_incoming_message;
      destruct (alookup N.eqb q (s_wants st)) as [old|]; auto;
      destruct (process_wantlist Sz old w); auto.
    cbn [s_ready]. intros t Ht. rewrite in_app_iff. auto.
  - left. apply (pending_frame c st); auto. cbn [new_blocks_available s_outq]. intros x Hx. rewrite in_app_iff. auto.
  - left. apply (pending_frame c st); auto; unfold peer_disconnected;
      destruct (alookup N.eqb q (s_wants st)); auto.
  - left. unfold release. destruct (alookup N.eqb k (s_blocked st)) as [[c0 t0]|] eqn:E; [|assumption].
    pose proof (alookup_Some_In N.eqb Neqb_spec _ _ _ E) as Hin0.
    destruct Hpend as [H|[(t & d & H & Hd)|(k' & c' & t & d & H & Hd)]].
    + left. exact H.
    + right. left. exists t, d. cbn [s_ready]. rewrite in_app_iff. auto.
    + destruct (N.eq_dec k' k) as [->|Hne].
      * assert (Heq : (c', t) = (c0, t0)).
        { apply (In_alookup N.eqb Neqb_spec) in H; [|apply HB]. congruence. }
        injection Heq as -> ->. right. left. eexists _, d. cbn [s_ready]. split.
        -- rewrite in_app_iff. right. left. reflexivity.
        -- cbn [t_done]. rewrite in_app_iff. auto.
      * right. right. exists k', c', t, d. cbn [s_blocked]. split; [|assumption].
        unfold adel. apply filter_In. split; [assumption|]. cbn [fst]. apply negb_true_iff. lia.
  - destruct (do_poll_spec st HI) as (st1 & out1 & wants' & wt' & bat & Hf & Hdp & HU & _).
    rewrite Hdp. cbn [fst s_wants].
    assert (Hcase : In c (map fst (s_outq st ++ finished_hits (s_ready st))) \/
                    exists k c' t d, In (k, (c', t)) (s_blocked st1) /\ In (c, SHit d) (t_done t)).
    { destruct Hpend as [H|[(t & d & H & Hd)|(k' & c' & t & d & H & Hd)]].
      - left. rewrite map_app, in_app_iff. auto.
      - destruct (t_todo t) as [|cn rest] eqn:Et.
        + left. rewrite map_app, in_app_iff. right. apply in_map_iff. exists (c, d). split; [reflexivity|].
          unfold finished_hits. apply in_flat_map. exists t. split; [assumption|]. rewrite Et. apply hits_In. assumption.
        + right. destruct (fold_run_task_blocked_new (s_ready st) (poll_start st) [] t cn rest H Et) as (k & Hk).
          rewrite Hf in Hk. cbn [fst] in Hk. eexists k, cn, _, d. split; [exact Hk|]. exact Hd.
      - right. exists k', c', t, d. split; [|assumption].
        pose proof (fold_run_task_blocked_old (s_ready st) (poll_start st) [] _ H) as Hb.
        rewrite Hf in Hb. exact Hb. }
    destruct Hcase as [Hq|Hb].
    + right. intros p Hw. apply (uh_all _ _ _ HU) in Hw. tauto.
    + left. right. right. exact Hb.
Qed.

(* the two ways a block for c becomes available *)
Lemma source_new_blocks Sz st bl c :
  s_panic st = false -> In c (map fst bl) -> pending_hit c (fst (sstep_l Sz st (SNewBlocks bl))).
Proof.
  intros Hp Hin. unfold sstep_l. rewrite Hp. cbn [fst]. left.
  cbn [new_blocks_available s_outq]. rewrite map_app, in_app_iff. auto.
Qed.

Lemma source_release_hit Sz st k c t d :
  BK st -> s_panic st = false -> In (k, (c, t)) (s_blocked st) ->
  pending_hit c (fst (sstep_l Sz st (SRelease k (SHit d)))).
Proof.
  intros HB Hp Hin. unfold sstep_l. rewrite Hp. cbn [fst]. unfold release.
  apply (In_alookup N.eqb Neqb_spec) in Hin; [|apply HB]. rewrite Hin.
  right. left. eexists _, d. cbn [s_ready]. split.
  - rewrite in_app_iff. right. left. reflexivity.
  - cbn [t_done]. rewrite in_app_iff. cbn. auto.
Qed.

(* ---------------------------------------------------------------- started calls are parked calls *)
Lemma fold_run_task_get_parked ready : forall st out k c,
  In (LGet k c) (snd (fold_left run_task ready (st, out))) ->
  In (LGet k c) out \/ exists t', In (k, (c, t')) (s_blocked (fst (fold_left run_task ready (st, out)))).
Proof.
  induction ready as [|t ready IH]; intros st out k c; cbn [fold_left]; [auto|].
  destruct (t_todo t) as [|c0 rest] eqn:Et.
  - rewrite (run_task_nil _ _ _ Et). apply IH.
  - rewrite (run_task_cons _ _ _ _ _ Et). intros H. apply IH in H. destruct H as [H|H]; [|auto].
    rewrite in_app_iff in H. cbn [In] in H. destruct H as [H|[H|[]]]; [auto|].
    injection H as <- <-. right. eexists. apply fold_run_task_blocked_old. cbn [s_blocked].
    rewrite in_app_iff. right. left. reflexivity.
Qed.

Lemma blocked_persist Sz st op x :
  Inv st -> s_panic st = false -> In x (s_blocked st) -> (forall r, op <> SRelease (fst x) r) ->
  In x (s_blocked (fst (sstep_l Sz st op))).
Proof.
  intros HI Hp Hin Hop. unfold sstep_l. rewrite Hp. destruct op as [q|q w order|bl|q|k r|]; cbn [fst].
  - unfold new_connection. destruct (alookup N.eqb q (s_wants st)); assumption.
  - unfold process_incoming_message. destruct (alookup N.eqb q (s_wants st)) as [old|]; [|assumption].
    destruct (process_wantlist Sz old w); assumption.
  - assumption.
  - unfold peer_disconnected. destruct (alookup N.eqb q (s_wants st)); assumption.
  - unfold release. destruct (alookup N.eqb k (s_blocked st)) as [[c0 t0]|]; [|assumption].
    cbn [s_blocked]. unfold adel. apply filter_In. split; [assumption|]. apply negb_true_iff.
    destruct (k =? fst x) eqn:E; [|reflexivity]. assert (k = fst x) by lia. subst k. exfalso. apply (Hop r). reflexivity.
  - destruct (do_poll_spec st HI) as (st1 & out1 & wants' & wt' & bat & Hf & Hdp & _ & _).
    rewrite Hdp. cbn [fst s_blocked].
    pose proof (fold_run_task_blocked_old (s_ready st) (poll_start st) [] _ Hin) as Hb.
    rewrite Hf in Hb. exact Hb.
Qed.

Lemma app_snoc_inv {A} (h h1 h2 : list A) (x y : A) :
  h ++ [x] = h1 ++ y :: h2 ->
  (h2 = [] /\ h = h1 /\ y = x) \/ (exists h2', h2 = h2' ++ [x] /\ h = h1 ++ y :: h2').
Proof.
  destruct (exists_last (l := y :: h2)) as (l' & z & E); [discriminate|].
  destruct h2 as [|w h2] using rev_ind.
  - intros H. change (h ++ [x] = h1 ++ [y]) in H. apply app_inj_tail in H. destruct H as [-> ->]. auto.
  - intros H. clear IHh2. right. exists h2.
    replace (h1 ++ y :: h2 ++ [w]) with ((h1 ++ y :: h2) ++ [w]) in H by (rewrite <- app_assoc; reflexivity).
    apply app_inj_tail in H. destruct H as [-> ->]. auto.
Qed.

Lemma started_blocked Sz ops :
  s_panic (snd (srun_l Sz ops)) = false ->
  forall k c, started (fst (srun_l Sz ops)) k c -> exists t, In (k, (c, t)) (s_blocked (snd (srun_l Sz ops))).
Proof.
  induction ops as [|op ops IH] using rev_ind; intros Hp k c Hs.
  - destruct Hs as (h1 & op1 & o1 & h2 & E & _). cbn in E. destruct h1; discriminate.
  - pose proof (srun_l_snoc_panic _ _ _ Hp) as Hp0. rewrite srun_l_snoc in *. cbn [fst snd] in *.
    pose proof (Inv_reach Sz ops) as HI. set (st := snd (srun_l Sz ops)) in *.
    destruct Hs as (h1 & op1 & o1 & h2 & E & Hget & Hnr).
    apply app_snoc_inv in E. destruct E as [(-> & E1 & E2)|(h2' & -> & E1)].
    + injection E2 as -> ->. destruct (sstep_l_outputs _ _ _ _ Hget) as [_ ->].
      assert (Hstep : sstep_l Sz st SPoll = do_poll st) by (unfold sstep_l; rewrite Hp0; reflexivity).
      rewrite Hstep in *.
      destruct (do_poll_spec st HI) as (st1 & out1 & wants' & wt' & bat & Hf & Hdp & _ & _).
      rewrite Hdp in *. cbn [fst snd s_blocked] in *. rewrite in_app_iff in Hget. destruct Hget as [Hget|Hget].
      * pose proof (fold_run_task_get_parked (s_ready st) (poll_start st) [] k c) as Hpk.
        rewrite Hf in Hpk. cbn [fst snd] in Hpk. destruct (Hpk Hget) as [[]|H]. exact H.
      * apply in_map_iff in Hget. destruct Hget as (pb & Hpb & _). discriminate.
    + assert (Hs : started (fst (srun_l Sz ops)) k c).
      { exists h1, op1, o1, h2'. split; [assumption|]. split; [assumption|].
        intros r o Hin. apply (Hnr r o). rewrite in_app_iff. auto. }
      destruct (IH Hp0 k c Hs) as (t & Hin). exists t.
      apply (blocked_persist Sz st op (k, (c, t))); auto. cbn [fst]. intros r ->.
      apply (Hnr r (snd (sstep_l Sz st (SRelease k r)))). rewrite in_app_iff. cbn. auto.
Qed.

(* ================================================================ C06 *)
(* c is in the reference view of p's wants after ops *)
Definition wanted (Sz : N) (ops : list sop) (p : peer) (c : cid) : Prop :=
  exists s, sview Sz p (fst (srun_l Sz ops)) = Some s /\ In c s.

Lemma wanted_wantsP Sz ops p c :
  s_panic (snd (srun_l Sz ops)) = false ->
  (wanted Sz ops p c <-> wantsP (s_wants (snd (srun_l Sz ops))) p c).
Proof. intros Hp. unfold wanted, wantsP. rewrite (wants_sview Sz ops p Hp). tauto. Qed.

(* a pending hit for c survives as long as p keeps wanting c *)
Lemma pending_carry Sz ops1 p c : forall ops2,
  s_panic (snd (srun_l Sz (ops1 ++ ops2))) = false ->
  pending_hit c (snd (srun_l Sz ops1)) ->
  (forall a b, ops2 = a ++ b -> wanted Sz (ops1 ++ a) p c) ->
  pending_hit c (snd (srun_l Sz (ops1 ++ ops2))).
Proof.
  induction ops2 as [|op ops2 IH] using rev_ind; intros Hp Hpend Hw.
  - rewrite app_nil_r. assumption.
  - rewrite app_assoc in *. pose proof (srun_l_snoc_panic _ _ _ Hp) as Hp0.
    assert (Hpend' : pending_hit c (snd (srun_l Sz (ops1 ++ ops2)))).
    { apply IH; [assumption|assumption|]. intros a b ->. apply (Hw a (b ++ [op])). rewrite app_assoc. reflexivity. }
    pose proof (pending_step Sz _ op c (Inv_reach Sz (ops1 ++ ops2)) (BK_reach Sz (ops1 ++ ops2)) Hp0 Hpend') as Hstep.
    rewrite srun_l_snoc. cbn [snd]. destruct Hstep as [H|H]; [assumption|]. exfalso.
    specialize (Hw (ops2 ++ [op]) [] ltac:(rewrite app_nil_r; reflexivity)).
    rewrite app_assoc in Hw. apply wanted_wantsP in Hw; [|assumption].
    rewrite srun_l_snoc in Hw. cbn [snd] in Hw. apply (H p Hw).
Qed.

(* At a quiescent state (no store task outstanding, outgoing queue empty) in which p still wants c,
   looking back over any stretch ops2 of the history during which the want stayed registered:
   no block for c was announced by new_blocks_available, no get of c (whoever it was started for,
   before or during the stretch) was completed with a hit, and no hit for c was under way at the
   beginning of the stretch. *)
Theorem C06_served_when_available : forall Sz ops1 ops2 p c,
  let final := snd (srun Sz (ops1 ++ ops2)) in
  s_panic final = false -> quiescent final ->
  (forall a b, ops2 = a ++ b -> wanted Sz (ops1 ++ a) p c) ->
  (forall a bl b, ops2 = a ++ SNewBlocks bl :: b -> ~ In c (map fst bl)) /\
  (forall a k d b, ops2 = a ++ SRelease k (SHit d) :: b -> ~ started (fst (srun_l Sz (ops1 ++ a))) k c) /\
  ~ pending_hit c (snd (srun_l Sz ops1)).
Proof.
  intros Sz ops1 ops2 p c final Hp Hq Hw. subst final. rewrite srun_snd in *.
  pose proof (quiescent_no_pending c _ Hq) as Hnp.
  assert (Hcut : forall a op b, ops2 = a ++ op :: b ->
                 pending_hit c (fst (sstep_l Sz (snd (srun_l Sz (ops1 ++ a))) op)) -> False).
  { intros a op b -> Hpend. apply Hnp.
    replace (ops1 ++ a ++ op :: b) with ((ops1 ++ a ++ [op]) ++ b) in * by (rewrite <- !app_assoc; reflexivity).
    apply (pending_carry Sz (ops1 ++ a ++ [op]) p c b); [assumption| |].
    - rewrite app_assoc, srun_l_snoc. exact Hpend.
    - intros a' b' ->.
      replace ((ops1 ++ a ++ [op]) ++ a') with (ops1 ++ ((a ++ [op]) ++ a')) by (rewrite <- !app_assoc; reflexivity).
      apply (Hw ((a ++ [op]) ++ a') b'). rewrite <- !app_assoc. reflexivity. }
  assert (Hpre : forall a b, ops2 = a ++ b -> s_panic (snd (srun_l Sz (ops1 ++ a))) = false).
  { intros a b ->. apply (prefix_no_panic Sz (ops1 ++ a) b). rewrite <- app_assoc. assumption. }
  split; [|split].
  - intros a bl b E Hin. apply (Hcut a _ b E). apply source_new_blocks; [|assumption]. apply (Hpre a _ E).
  - intros a k d b E Hs. apply (Hcut a _ b E).
    destruct (started_blocked Sz (ops1 ++ a) (Hpre a _ E) k c Hs) as (t & Hin).
    eapply source_release_hit; [apply BK_reach|apply (Hpre a _ E)|exact Hin].
  - intros Hpend. apply Hnp. apply (pending_carry Sz ops1 p c ops2); assumption.
Qed.

(* ---------------------------------------------------------------- contrapositive form *)
Lemma wanted_dec Sz ops p c : wanted Sz ops p c \/ ~ wanted Sz ops p c.
Proof.
  unfold wanted. destruct (sview Sz p (fst (srun_l Sz ops))) as [s|].
  - destruct (In_cid_dec c s) as [H|H]; [left; eauto|]. right. intros (s' & [= <-] & H'). contradiction.
  - right. intros (s' & H & _). discriminate.
Qed.

Lemma app_eq_snoc {A} (a b l : list A) (x : A) :
  a ++ b = l ++ [x] -> (b = [] /\ a = l ++ [x]) \/ (exists b', b = b' ++ [x] /\ l = a ++ b').
Proof.
  destruct b as [|y b] using rev_ind.
  - rewrite app_nil_r. auto.
  - clear IHb. rewrite app_assoc. intros H. apply app_inj_tail in H. destruct H as [<- ->]. right. eauto.
Qed.

(* either the want stays registered during all of ops2, or there is a first op that discharges it *)
Lemma first_drop Sz ops1 p c : forall ops2,
  wanted Sz ops1 p c ->
  (forall a b, ops2 = a ++ b -> wanted Sz (ops1 ++ a) p c) \/
  (exists a op b, ops2 = a ++ op :: b /\ wanted Sz (ops1 ++ a) p c /\ ~ wanted Sz (ops1 ++ a ++ [op]) p c).
Proof.
  induction ops2 as [|op ops2 IH] using rev_ind; intros Hw.
  - left. intros a b E. symmetry in E. apply app_eq_nil in E. destruct E as [-> _]. rewrite app_nil_r. assumption.
  - destruct (IH Hw) as [Hall|(a & op' & b & -> & H1 & H2)].
    + destruct (wanted_dec Sz (ops1 ++ ops2 ++ [op]) p c) as [Hy|Hn].
      * left. intros a b E. symmetry in E. apply app_eq_snoc in E. destruct E as [(-> & ->)|(b' & -> & ->)].
        -- assumption.
        -- apply (Hall a b'). reflexivity.
      * right. exists ops2, op, []. split; [reflexivity|]. split; [|assumption].
        apply (Hall ops2 []). rewrite app_nil_r. reflexivity.
    + right. exists a, op', (b ++ [op]). split; [rewrite <- app_assoc; reflexivity|]. auto.
Qed.

(* how a CID can leave the reference view: disconnect, a message of the peer, or a send *)
Lemma sview_outs_drop p c outs : forall s,
  In c s ->
  ~ (exists s', fold_left (sview_out p) outs (Some s) = Some s' /\ In c s') ->
  exists bl, In (LSend p bl) outs /\ In c (map fst bl).
Proof.
  induction outs as [|o outs IH]; intros s Hin Hn; cbn [fold_left] in Hn.
  - exfalso. apply Hn. eauto.
  - destruct o as [k c'|q bl]; cbn [sview_out] in Hn.
    + destruct (IH s Hin Hn) as (bl & H1 & H2). exists bl. cbn. auto.
    + destruct (q =? p) eqn:E.
      * assert (q = p) by lia. subst q. cbn [option_map] in Hn.
        destruct (in_dec cid_eq_dec c (map fst bl)) as [Hc|Hc]; [exists bl; cbn; auto|].
        assert (Hin' : In c (fold_left (fun s b => cremove (fst b) s) bl s)).
        { apply (rm_blocks_In bl s c). auto. }
        destruct (IH _ Hin' Hn) as (bl' & H1 & H2). exists bl'. cbn. auto.
      * destruct (IH s Hin Hn) as (bl' & H1 & H2). exists bl'. cbn. auto.
Qed.

Lemma sview_step_drop Sz p v op outs c :
  (exists s, v = Some s /\ In c s) ->
  ~ (exists s', sview_step Sz p v (op, outs) = Some s' /\ In c s') ->
  op = SDisconnected p \/ (exists w o, op = SMsg p w o) \/
  (exists bl, In (LSend p bl) outs /\ In c (map fst bl)).
Proof.
  intros (s & -> & Hin) Hn. unfold sview_step in Hn. cbn [fst snd] in Hn.
  destruct op as [q|q w order|bl|q|k r|]; cbn [sview_op] in Hn.
  - assert (E : (if q =? p then Some s else Some s) = Some s) by (destruct (q =? p); reflexivity).
    rewrite E in Hn. right. right. apply (sview_outs_drop p c outs s Hin Hn).
  - destruct (q =? p) eqn:E.
    + assert (q = p) by lia. subst. right. left. eauto.
    + right. right. apply (sview_outs_drop p c outs s Hin Hn).
  - right. right. apply (sview_outs_drop p c outs s Hin Hn).
  - destruct (q =? p) eqn:E.
    + assert (q = p) by lia. subst. auto.
    + right. right. apply (sview_outs_drop p c outs s Hin Hn).
  - right. right. apply (sview_outs_drop p c outs s Hin Hn).
  - right. right. apply (sview_outs_drop p c outs s Hin Hn).
Qed.

(* If p wants c at some point, and afterwards a block for c is announced or a get of c completes
   with a hit (or a hit for c was already under way), and the server then reaches a quiescent state,
   then in between the want was discharged: by a message sent to p that contains c, or by p itself
   (a later message of p, or p disconnecting). *)
Theorem C06_available_implies_sent : forall Sz ops1 ops2 p c,
  let final := snd (srun Sz (ops1 ++ ops2)) in
  s_panic final = false -> quiescent final ->
  wanted Sz ops1 p c ->
  ((exists a bl b, ops2 = a ++ SNewBlocks bl :: b /\ In c (map fst bl)) \/
   (exists a k d b, ops2 = a ++ SRelease k (SHit d) :: b /\ started (fst (srun_l Sz (ops1 ++ a))) k c) \/
   pending_hit c (snd (srun_l Sz ops1))) ->
  exists a op b, ops2 = a ++ op :: b /\ wanted Sz (ops1 ++ a) p c /\
    (op = SDisconnected p \/ (exists w o, op = SMsg p w o) \/
     (exists bl, In (LSend p bl) (snd (sstep_l Sz (snd (srun_l Sz (ops1 ++ a))) op)) /\ In c (map fst bl))).
Proof.
  intros Sz ops1 ops2 p c final Hp Hq Hw Hsrc.
  destruct (first_drop Sz ops1 p c ops2 Hw) as [Hall|(a & op & b & E & H1 & H2)].
  - exfalso. destruct (C06_served_when_available Sz ops1 ops2 p c Hp Hq Hall) as (Ha & Hb & Hc).
    destruct Hsrc as [(a & bl & b & E & Hin)|[(a & k & d & b & E & Hs)|Hpend]].
    + apply (Ha a bl b E Hin).
    + apply (Hb a k d b E Hs).
    + apply (Hc Hpend).
  - exists a, op, b. split; [assumption|]. split; [assumption|].
    unfold wanted in H2. rewrite app_assoc, srun_l_snoc in H2. cbn [fst] in H2. rewrite sview_snoc in H2.
    apply (sview_step_drop Sz p _ op _ c H1 H2).
Qed.

(* ---------------------------------------------------------------- re-expressed wants, full wantlists *)
Lemma perm_ok_In order s : perm_ok order s = true -> forall c, In c order <-> In c s.
Proof.
  unfold perm_ok. rewrite !andb_true_iff, !forallb_forall. intros [[_ H1] H2] c. split; intros H.
  - apply cmem_spec, H2, H.
  - apply cmem_spec, H1, H.
Qed.

(* Whenever a message of p makes c newly wanted (in particular after c was sent to p and thereby left
   the view, C07_only_owed), p is registered as a waiter for c and a store lookup containing c is
   scheduled on behalf of p. *)
Theorem C06_reexpressed_want_served_again : forall Sz ops p w order c,
  let st := snd (srun_l Sz ops) in
  let st' := fst (sstep_l Sz st (SMsg p w order)) in
  s_panic st' = false ->
  ~ wanted Sz ops p c -> wanted Sz (ops ++ [SMsg p w order]) p c ->
  (exists l, waiters_of st' c = Some l /\ In p l) /\
  (exists t, s_ready st' = s_ready st ++ [t] /\ t_peer t = p /\ t_done t = [] /\ In c (t_todo t)).
Proof.
  intros Sz ops p w order c st st' Hp' Hnw Hw. subst st st'.
  assert (Hp'' : s_panic (snd (srun_l Sz (ops ++ [SMsg p w order]))) = false) by (rewrite srun_l_snoc; exact Hp').
  pose proof (srun_l_snoc_panic _ _ _ Hp'') as Hp.
  apply wanted_wantsP in Hw; [|assumption]. rewrite srun_l_snoc in Hw. cbn [snd] in Hw.
  assert (Hnw' : ~ wantsP (s_wants (snd (srun_l Sz ops))) p c) by (intros H; apply Hnw, wanted_wantsP; assumption).
  pose proof (Inv_reach Sz ops) as HI. set (st := snd (srun_l Sz ops)) in *.
  pose proof (sstep_l_inv Sz st (SMsg p w order) HI) as (_ & _ & HL').
  split; [apply HL'; exact Hw|].
  unfold sstep_l in *. rewrite Hp in *. cbn [fst] in *. unfold process_incoming_message in *.
  destruct (alookup N.eqb p (s_wants st)) as [old|] eqn:Eold; [|contradiction].
  destruct (process_wantlist Sz old w) as [|new adds rems] eqn:Epw; [cbn in Hp'; discriminate|].
  destruct HI as ((_ & Hs) & _). destruct (Hs _ _ Eold) as [Hnd Hlen].
  destruct (process_wantlist_spec _ _ _ _ _ _ Hnd Hlen Epw) as [[_ _ _ _ _ _ Hiff] _].
  cbn [s_wants s_ready] in *. destruct Hw as (s & Hs1 & Hs2). rewrite nset_eq in Hs1. injection Hs1 as <-.
  assert (Hold : ~ In c old) by (intros H; apply Hnw'; exists old; auto).
  assert (Hadd : In c adds) by (apply Hiff in Hs2; tauto).
  eexists. split; [reflexivity|]. cbn [t_peer t_done t_todo]. repeat split.
  destruct (w_full w); [|assumption].
  destruct (perm_ok order new) eqn:Eok; [apply (perm_ok_In _ _ Eok); assumption|assumption].
Qed.

(* A full wantlist schedules a lookup of every CID of the new want set (retained or new), and of
   nothing else. *)
Theorem C06_full_relookup : forall Sz ops p w order new,
  let st := snd (srun_l Sz ops) in
  let st' := fst (sstep_l Sz st (SMsg p w order)) in
  s_panic st' = false -> w_full w = true ->
  wants_of st p <> None -> wants_of st' p = Some new ->
  exists t, s_ready st' = s_ready st ++ [t] /\ t_peer t = p /\ t_done t = [] /\
            forall c, In c (t_todo t) <-> In c new.
Proof.
  intros Sz ops p w order new st st' Hp' Hfull Hconn Hnew. subst st st'.
  assert (Hp : s_panic (snd (srun_l Sz ops)) = false).
  { destruct (s_panic (snd (srun_l Sz ops))) eqn:E; [|reflexivity].
    rewrite (sstep_l_panicked _ _ _ E) in Hp'. cbn in Hp'. congruence. }
  set (st := snd (srun_l Sz ops)) in *. unfold wants_of in *.
  unfold sstep_l in *. rewrite Hp in *. cbn [fst] in *. unfold process_incoming_message in *.
  destruct (alookup N.eqb p (s_wants st)) as [old|] eqn:Eold; [|congruence].
  destruct (process_wantlist Sz old w) as [|new' adds rems] eqn:Epw; [cbn in Hp'; discriminate|].
  cbn [s_wants s_ready] in *. rewrite nset_eq in Hnew. injection Hnew as ->.
  eexists. split; [reflexivity|]. cbn [t_peer t_done t_todo]. repeat split; rewrite Hfull in *.
  - destruct (perm_ok order new) eqn:Eok; [apply (perm_ok_In _ _ Eok)|auto].
  - destruct (perm_ok order new) eqn:Eok; [apply (perm_ok_In _ _ Eok)|auto].
Qed.

(* ================================================================ C15 (server) *)
(* new_connection_handler for a peer that already has a want set (a second connection of the same
   peer) changes nothing and emits nothing. *)
Theorem C15_server_new_conn_frame : forall Sz st p,
  wants_of st p <> None -> sstep Sz st (SNewConn p) = (st, []).
Proof.
  intros Sz st p H. unfold sstep, sstep_l. destruct (s_panic st); [reflexivity|].
  unfold new_connection. unfold wants_of in H. destruct (alookup N.eqb p (s_wants st)); [reflexivity|congruence].
Qed.

(* ================================================================ examples (non-vacuity) *)
Definition wantedb (Sz : N) (ops : list sop) (p : peer) (c : cid) : bool :=
  match sview Sz p (fst (srun_l Sz ops)) with Some s => cmem c s | None => false end.

Lemma wantedb_spec Sz ops p c : wantedb Sz ops p c = true <-> wanted Sz ops p c.
Proof.
  unfold wantedb, wanted. destruct (sview Sz p (fst (srun_l Sz ops))) as [s|].
  - rewrite cmem_spec. split; [eauto|]. intros (s' & [= <-] & H). assumption.
  - split; [discriminate|]. intros (s' & H & _). discriminate.
Qed.

Definition stays_wantedb (Sz : N) (ops1 ops2 : list sop) (p : peer) (c : cid) : bool :=
  forallb (fun n => wantedb Sz (ops1 ++ firstn n ops2) p c) (seq 0 (Datatypes.S (length ops2))).

Lemma stays_wantedb_spec Sz ops1 ops2 p c :
  stays_wantedb Sz ops1 ops2 p c = true -> forall a b, ops2 = a ++ b -> wanted Sz (ops1 ++ a) p c.
Proof.
  unfold stays_wantedb. rewrite forallb_forall. intros H a b ->. apply wantedb_spec.
  specialize (H (length a)). rewrite firstn_app, firstn_all, Nat.sub_diag in H. cbn [firstn] in H.
  rewrite app_nil_r in H. apply H. apply in_seq. rewrite app_length. lia.
Qed.

Definition quiescentb (st : sstate) : bool :=
  match s_ready st, s_blocked st, s_outq st with [], [], [] => true | _, _, _ => false end.

Lemma quiescentb_spec st : quiescentb st = true -> quiescent st.
Proof.
  unfold quiescentb, quiescent. destruct (s_ready st), (s_blocked st), (s_outq st); try discriminate. auto.
Qed.

(* peer 2 wants c3 from its full wantlist on; the only get of c3 is a miss; the final state of the
   running example is quiescent *)
Example C06_served_ex :
  let ops1 := firstn 4 ex_ops_main in
  let ops2 := skipn 4 ex_ops_main in
  let final := snd (srun 64 (ops1 ++ ops2)) in
  s_panic final = false /\ quiescent final /\
  (forall a b, ops2 = a ++ b -> wanted 64 (ops1 ++ a) 2 c3).
Proof.
  cbv zeta. split; [vm_compute; reflexivity|]. split.
  - apply quiescentb_spec. vm_compute. reflexivity.
  - apply stays_wantedb_spec. vm_compute. reflexivity.
Qed.

(* ... then c3 is announced: the next poll sends it to peer 2 *)
Example C06_available_ex :
  let ops1 := ex_ops_main in
  let ops2 := [SNewBlocks [(c3, [30])]; SPoll] in
  let final := snd (srun 64 (ops1 ++ ops2)) in
  s_panic final = false /\ quiescent final /\ wanted 64 ops1 2 c3 /\
  (exists a bl b, ops2 = a ++ SNewBlocks bl :: b /\ In c3 (map fst bl)) /\
  nth 14 (fst (srun 64 (ops1 ++ ops2))) [] = [OSend 2 [([1; 85; 18; 3], [30])]].
Proof.
  cbv zeta. split; [vm_compute; reflexivity|]. split; [apply quiescentb_spec; vm_compute; reflexivity|].
  split; [apply wantedb_spec; vm_compute; reflexivity|]. split.
  - exists [], [(c3, [30])], [SPoll]. split; [reflexivity|]. cbn. auto.
  - vm_compute. reflexivity.
Qed.

(* peer 1 was sent c2 (so c2 left its view) and asks for c2 again: a fresh lookup is scheduled *)
Example C06_reexpressed_ex :
  let ops := ex_ops_main in
  let m := SMsg 1 (MkWantlist [ex_want c2] false) [] in
  s_panic (fst (sstep_l 64 (snd (srun_l 64 ops)) m)) = false /\
  ~ wanted 64 ops 1 c2 /\ wanted 64 (ops ++ [m]) 1 c2 /\
  s_ready (fst (sstep_l 64 (snd (srun_l 64 ops)) m)) = [MkTask 1 [] [c2]].
Proof.
  cbv zeta. split; [vm_compute; reflexivity|]. split; [|split].
  - intros H. apply wantedb_spec in H. vm_compute in H. discriminate.
  - apply wantedb_spec. vm_compute. reflexivity.
  - vm_compute. reflexivity.
Qed.

(* peer 2 repeats c3 in a new full wantlist and adds c1: both are looked up, in the given order *)
Example C06_full_relookup_ex :
  let ops := ex_ops_main in
  let m := SMsg 2 (MkWantlist [ex_want c3; ex_want c1] true) [c1; c3] in
  let st' := fst (sstep_l 64 (snd (srun_l 64 ops)) m) in
  s_panic st' = false /\ wants_of (snd (srun_l 64 ops)) 2 = Some [c3] /\ wants_of st' 2 = Some [c3; c1] /\
  s_ready st' = [MkTask 2 [] [c1; c3]] /\ s_bad_order st' = false.
Proof. vm_compute. repeat split; reflexivity. Qed.

(* The cap makes the server forget wants: of 1025 wants sent in one update the last one is not
   recorded, so a block that arrives for it is dropped although the peer asked for it and never
   cancelled; the block for the 1024th want is sent. *)
Definition ex_1025 : list entry := map (fun n => ex_want (ex_cid n)) (ex_range 0 1025).

Example C06_cap_refuted :
  let ops := [SNewConn 1; SMsg 1 (MkWantlist ex_1025 false) [];
              SNewBlocks [(ex_cid 1024, [1]); (ex_cid 1023, [2])]; SPoll] in
  In (ex_want (ex_cid 1024)) ex_1025 /\
  wantedb 64 (firstn 2 ops) 1 (ex_cid 1024) = false /\ wantedb 64 (firstn 2 ops) 1 (ex_cid 1023) = true /\
  filter (fun o => match o with OSend _ _ => true | OGet _ _ => false end) (concat (fst (srun 64 ops)))
    = [OSend 1 [([1; 85; 18; 3], [2])]] /\
  s_outq (snd (srun 64 ops)) = [].
Proof.
  cbv zeta. split; [|vm_compute; repeat split; reflexivity].
  unfold ex_1025. apply in_map_iff. exists 1024. split; [reflexivity|].
  assert (H : existsb (N.eqb 1024) (ex_range 0 1025) = true) by (vm_compute; reflexivity).
  apply existsb_exists in H. destruct H as (x & Hx & E). apply N.eqb_eq in E. subst x. exact Hx.
Qed.

Example C15_server_new_conn_frame_ex :
  let st := snd (srun 64 ex_ops_before_poll) in
  wants_of st 1 = Some [c1; c2] /\ sstep 64 st (SNewConn 1) = (st, []).
Proof. vm_compute. split; reflexivity. Qed.

(* The cap of a full wantlist counts DISTINCT CIDs (server.rs:80-94, after the fix that followed the
   earlier observation on `take(1024)`): 1024 copies of c0 followed by c1 keep both c0 and c1, and a
   block that arrives for c1 is sent. *)
Example full_cap_counts_distinct_ex :
  let w := MkWantlist (map (fun _ => ex_want (ex_cid 0)) (ex_range 0 1024) ++ [ex_want (ex_cid 1)]) true in
  let ops := [SNewConn 1; SMsg 1 w [ex_cid 1; ex_cid 0]; SNewBlocks [(ex_cid 1, [1])]; SPoll] in
  wants_of (snd (srun 64 (firstn 2 ops))) 1 = Some [ex_cid 0; ex_cid 1] /\
  nth 3 (fst (srun 64 ops)) [] = [OGet 0 (ex_cid 1); OSend 1 [([1; 85; 18; 3], [1])]] /\
  wants_of (snd (srun 64 ops)) 1 = Some [ex_cid 0] /\
  s_bad_order (snd (srun 64 ops)) = false.
Proof. vm_compute. repeat split; reflexivity. Qed.

(* Observation: store lookups scheduled for a peer outlive its disconnection (they are futures in
   `tasks`, which on_peer_disconnected does not touch); their number is not bounded by the set of
   connected peers, only by the number of messages received. *)
Example tasks_outlive_disconnect_ex :
  let m := SMsg 1 (MkWantlist [ex_want (ex_cid 0); ex_want (ex_cid 1)] true) [ex_cid 0; ex_cid 1] in
  let ops := [SNewConn 1; m; m; m; SPoll; SDisconnected 1; SRelease 0 SMiss; SRelease 1 SMiss; SRelease 2 SMiss; SPoll] in
  connected ops = [] /\ s_wants (snd (srun 64 ops)) = [] /\ s_waiting (snd (srun 64 ops)) = [] /\
  tasks_len (snd (srun 64 ops)) = 3 /\
  nth 9 (fst (srun 64 ops)) [] = [OGet 3 (ex_cid 1); OGet 4 (ex_cid 1); OGet 5 (ex_cid 1)].
Proof. vm_compute. repeat split; reflexivity. Qed.

(* ---------------------------------------------------------------- C06, explicit form for the gets *)
Definition is_release_of (k : N) (op : sop) : bool :=
  match op with SRelease k' _ => k' =? k | _ => false end.

Lemma find_release k (b : list sop) :
  (forall r, ~ In (SRelease k r) b) \/
  (exists b1 r b2, b = b1 ++ SRelease k r :: b2 /\ forall r', ~ In (SRelease k r') b1).
Proof.
  induction b as [|op b IH].
  - left. intros r [].
  - destruct (is_release_of k op) eqn:E.
    + destruct op as [| | | |k' r|]; try discriminate. cbn in E. assert (k' = k) by lia. subst k'.
      right. exists [], r, b. split; [reflexivity|]. intros r' [].
    + destruct IH as [Hn|(b1 & r & b2 & -> & Hn)].
      * left. intros r [H|H]; [|apply (Hn r H)]. subst op. cbn in E. rewrite N.eqb_refl in E. discriminate.
      * right. exists (op :: b1), r, b2. split; [reflexivity|]. intros r' [H|H]; [|apply (Hn r' H)].
        subst op. cbn in E. rewrite N.eqb_refl in E. discriminate.
Qed.

Lemma started_extend Sz X op k c b1 :
  In (LGet k c) (snd (sstep_l Sz (snd (srun_l Sz X)) op)) ->
  (forall r, ~ In (SRelease k r) b1) ->
  started (fst (srun_l Sz ((X ++ [op]) ++ b1))) k c.
Proof.
  intros Hget Hn. unfold srun_l at 1. rewrite srun_l_from_app. cbn [fst]. fold (srun_l Sz (X ++ [op])).
  rewrite srun_l_snoc. cbn [fst snd].
  set (seg := fst (srun_l_from Sz _ b1)).
  exists (fst (srun_l Sz X)), op, (snd (sstep_l Sz (snd (srun_l Sz X)) op)), seg.
  split; [rewrite <- app_assoc; reflexivity|]. split; [assumption|].
  intros r o Hin. apply (Hn r). apply (in_map fst) in Hin. unfold seg in Hin. rewrite srun_l_ops in Hin. exact Hin.
Qed.

(* Under the hypotheses of C06_served_when_available: every get of c started during the stretch was
   completed during the stretch, and with SMiss or SFail. *)
Theorem C06_gets_were_misses : forall Sz ops1 ops2 p c,
  let final := snd (srun Sz (ops1 ++ ops2)) in
  s_panic final = false -> quiescent final ->
  (forall a b, ops2 = a ++ b -> wanted Sz (ops1 ++ a) p c) ->
  forall a op b k, ops2 = a ++ op :: b ->
    In (LGet k c) (snd (sstep_l Sz (snd (srun_l Sz (ops1 ++ a))) op)) ->
    exists b1 r b2, b = b1 ++ SRelease k r :: b2 /\ (forall r', ~ In (SRelease k r') b1) /\
                    (r = SMiss \/ r = SFail).
Proof.
  intros Sz ops1 ops2 p c final Hp Hq Hw a op b k E Hget.
  destruct (C06_served_when_available Sz ops1 ops2 p c Hp Hq Hw) as (_ & Hb & _).
  subst final. rewrite srun_snd in *.
  destruct (find_release k b) as [Hn|(b1 & r & b2 & Eb & Hn)].
  - exfalso. pose proof (started_extend Sz (ops1 ++ a) op k c b Hget Hn) as Hs.
    assert (Eops : (((ops1 ++ a) ++ [op]) ++ b) = ops1 ++ ops2) by (rewrite E, <- !app_assoc; reflexivity).
    rewrite Eops in Hs. destruct (started_blocked Sz _ Hp k c Hs) as (t & Hin).
    destruct Hq as (_ & Hq & _). rewrite Hq in Hin. destruct Hin.
  - exists b1, r, b2. split; [assumption|]. split; [assumption|].
    destruct r as [d| |]; [exfalso|auto|auto].
    pose proof (started_extend Sz (ops1 ++ a) op k c b1 Hget Hn) as Hs.
    apply (Hb ((a ++ [op]) ++ b1) k d b2).
    + rewrite E, Eb, <- !app_assoc. reflexivity.
    + replace (ops1 ++ (a ++ [op]) ++ b1) with (((ops1 ++ a) ++ [op]) ++ b1) by (rewrite <- !app_assoc; reflexivity).
      exact Hs.
Qed.

(* ================================================================ observable forms *)
(* The theorems above speak about the labelled outputs (LSend carries the CIDs).  The following
   corollaries carry them over to what `sstep` / `srun` actually emit (OGet / OSend). *)
Lemma sstep_erase Sz st op :
  sstep Sz st op = (fst (sstep_l Sz st op), map erase (snd (sstep_l Sz st op))).
Proof. unfold sstep. destruct (sstep_l Sz st op); reflexivity. Qed.

Lemma In_OSend_erase out p blocks :
  In (OSend p blocks) (map erase out) <-> exists bl, In (LSend p bl) out /\ blocks = map erase_block bl.
Proof.
  rewrite in_map_iff. split.
  - intros (o & Ho & Hin). destruct o as [k c|q bl]; [discriminate|]. cbn in Ho. injection Ho as -> <-. eauto.
  - intros (bl & Hin & ->). exists (LSend p bl). auto.
Qed.

Lemma In_OGet_erase out k c : In (OGet k c) (map erase out) <-> In (LGet k c) out.
Proof.
  rewrite in_map_iff. split.
  - intros (o & Ho & Hin). destruct o as [k' c'|q bl]; [|discriminate]. cbn in Ho. injection Ho as -> ->. assumption.
  - intros Hin. exists (LGet k c). auto.
Qed.

(* the outputs `srun` lists for the op at position |X| are the outputs of that step *)
Lemma srun_nth Sz X op b :
  nth (length X) (fst (srun Sz (X ++ op :: b))) [] = snd (sstep Sz (snd (srun Sz X)) op).
Proof.
  rewrite srun_erase, srun_snd, sstep_erase. cbn [fst snd]. unfold srun_l at 1. rewrite srun_l_from_app. cbn [fst].
  fold (srun_l Sz X). rewrite map_app.
  assert (Hlen : length (map (fun h => map erase (snd h)) (fst (srun_l Sz X))) = length X).
  { rewrite map_length. rewrite <- (map_length fst). unfold srun_l. rewrite srun_l_ops. reflexivity. }
  rewrite app_nth2 by lia. rewrite Hlen, Nat.sub_diag. cbn [srun_l_from].
  destruct (sstep_l Sz (snd (srun_l Sz X)) op) as [st' out].
  destruct (srun_l_from Sz st' b) as [h st'']. reflexivity.
Qed.

(* C07, observable: every OSend of a step is the erasure of one labelled batch with pairwise distinct
   CIDs; it is the only OSend to that peer in the step; each of its blocks carries
   prefix_to_bytes (prefix_of_cid c) for a CID c that was in the reference view of the peer before
   the step and is not in it afterwards, and data that came from a store hit for c or from a
   new_blocks_available entry for c. *)
Theorem C07_observable : forall Sz ops op p blocks,
  let st := snd (srun Sz ops) in
  let hist := fst (srun_l Sz ops) in
  In (OSend p blocks) (snd (sstep Sz st op)) ->
  exists bl, blocks = map erase_block bl /\ NoDup (map fst bl) /\
    (forall blocks', In (OSend p blocks') (snd (sstep Sz st op)) -> blocks' = blocks) /\
    forall c d, In (c, d) bl ->
      (exists s, sview Sz p hist = Some s /\ In c s) /\
      (exists s', sview Sz p (hist ++ [(op, snd (sstep_l Sz st op))]) = Some s' /\ ~ In c s') /\
      ((exists k, released_with hist k c (SHit d)) \/
       (exists bl0 o, In (SNewBlocks bl0, o) hist /\ In (c, d) bl0)).
Proof.
  intros Sz ops op p blocks st hist Hin. subst st hist. rewrite srun_snd in *. rewrite sstep_erase in *.
  cbn [snd] in *. apply In_OSend_erase in Hin. destruct Hin as (bl & Hin & ->).
  exists bl. split; [reflexivity|].
  assert (Hne : bl <> []).
  { destruct (sstep_l_outputs _ _ _ _ Hin) as [Hp ->].
    assert (Hstep : sstep_l Sz (snd (srun_l Sz ops)) SPoll = do_poll (snd (srun_l Sz ops)))
      by (unfold sstep_l; rewrite Hp; reflexivity).
    rewrite Hstep in Hin. destruct (poll_sends _ p bl (Inv_reach Sz ops) Hin) as (? & ? & ? & ? & ? & _ & _ & _ & _ & H & _).
    exact H. }
  destruct bl as [|[c0 d0] bl']; [congruence|].
  destruct (C07_only_owed Sz ops op p _ c0 d0 Hin (or_introl eq_refl)) as (_ & _ & Hnd & Huniq).
  split; [assumption|]. split.
  - intros blocks' H'. apply In_OSend_erase in H'. destruct H' as (bl'' & Hin'' & ->).
    rewrite (Huniq _ Hin''). reflexivity.
  - intros c d Hcd. destruct (C07_only_owed Sz ops op p _ c d Hin Hcd) as (H1 & H2 & _ & _).
    split; [assumption|]. split; [assumption|]. apply (C07_bytes_exact Sz ops op p _ c d Hin Hcd).
Qed.

(* C06, observable contrapositive: if p wants c, a block for c becomes available afterwards and the
   server reaches a quiescent state, then p disconnected, or sent a further wantlist message, or
   `srun` lists an OSend to p with a block (prefix of c, d). *)
Theorem C06_available_implies_sent_obs : forall Sz ops1 ops2 p c,
  let final := snd (srun Sz (ops1 ++ ops2)) in
  s_panic final = false -> quiescent final ->
  wanted Sz ops1 p c ->
  ((exists a bl b, ops2 = a ++ SNewBlocks bl :: b /\ In c (map fst bl)) \/
   (exists a k d b, ops2 = a ++ SRelease k (SHit d) :: b /\ started (fst (srun_l Sz (ops1 ++ a))) k c) \/
   pending_hit c (snd (srun_l Sz ops1))) ->
  exists a op b, ops2 = a ++ op :: b /\ wanted Sz (ops1 ++ a) p c /\
    (op = SDisconnected p \/ (exists w o, op = SMsg p w o) \/
     (exists blocks d, In (OSend p blocks) (nth (length (ops1 ++ a)) (fst (srun Sz (ops1 ++ ops2))) []) /\
                       In (prefix_to_bytes (prefix_of_cid c), d) blocks)).
Proof.
  intros Sz ops1 ops2 p c final Hp Hq Hw Hsrc.
  destruct (C06_available_implies_sent Sz ops1 ops2 p c Hp Hq Hw Hsrc) as (a & op & b & E & Hwa & Hcase).
  exists a, op, b. split; [assumption|]. split; [assumption|].
  destruct Hcase as [H|[H|(bl & Hin & Hc)]]; [auto|auto|]. right. right.
  apply in_map_iff in Hc. destruct Hc as ([c' d] & Hc' & Hcd). cbn in Hc'. subst c'.
  exists (map erase_block bl), d. split.
  - rewrite E. replace (ops1 ++ a ++ op :: b) with ((ops1 ++ a) ++ op :: b) by (rewrite <- app_assoc; reflexivity).
    rewrite srun_nth, srun_snd, sstep_erase. cbn [snd]. apply In_OSend_erase. eauto.
  - apply in_map_iff. exists (c, d). auto.
Qed.

(* C06_gets_were_misses with the get observed as an OGet in the output of `srun` *)
Theorem C06_gets_were_misses_obs : forall Sz ops1 ops2 p c,
  let final := snd (srun Sz (ops1 ++ ops2)) in
  s_panic final = false -> quiescent final ->
  (forall a b, ops2 = a ++ b -> wanted Sz (ops1 ++ a) p c) ->
  forall a op b k, ops2 = a ++ op :: b ->
    In (OGet k c) (nth (length (ops1 ++ a)) (fst (srun Sz (ops1 ++ ops2))) []) ->
    exists b1 r b2, b = b1 ++ SRelease k r :: b2 /\ (forall r', ~ In (SRelease k r') b1) /\
                    (r = SMiss \/ r = SFail).
Proof.
  intros Sz ops1 ops2 p c final Hp Hq Hw a op b k E Hget.
  apply (C06_gets_were_misses Sz ops1 ops2 p c Hp Hq Hw a op b k E).
  rewrite E in Hget. replace (ops1 ++ a ++ op :: b) with ((ops1 ++ a) ++ op :: b) in Hget by (rewrite <- app_assoc; reflexivity).
  rewrite srun_nth, srun_snd, sstep_erase in Hget. cbn [snd] in Hget. apply In_OGet_erase. exact Hget.
Qed.

(* the running example, observably: position 12 of the output of `srun` is the poll that serves both peers *)
Example C07_observable_ex :
  In (OSend 1 [([1; 85; 18; 3], [20]); ([1; 85; 18; 3], [10])])
     (snd (sstep 64 (snd (srun 64 ex_ops_before_poll)) SPoll)).
Proof. vm_compute. auto. Qed.

Example C06_available_obs_ex :
  In (OSend 2 [(prefix_to_bytes (prefix_of_cid c3), [30])])
     (nth (length (ex_ops_main ++ [SNewBlocks [(c3, [30])]]))
          (fst (srun 64 (ex_ops_main ++ [SNewBlocks [(c3, [30])]; SPoll]))) []).
Proof. vm_compute. auto. Qed.
