(* Props_C20.v — C20: protocol prefix is validated and isolates networks. *)
From BS Require Import Bytes ProtocolName ProtocolName_proofs Tie_names.
Open Scope N_scope.

Theorem C20_accept_iff : forall s, (exists p, protocol_prefix s = Some p) <-> (exists rest, s = SLASH :: rest).
Proof. exact accept_iff. Qed.

(* building cannot panic for an accepted prefix (the three `expect`s see Some), and the name is prefix ++ suffix *)
Theorem C20_build_total : forall s p, protocol_prefix s = Some p -> protocol_name (Some p) = Some (s ++ SUFFIX).
Proof. exact build_total. Qed.

Theorem C20_build_total_unprefixed : protocol_name None = Some SUFFIX.
Proof. exact build_total_none. Qed.

(* client requests, server requests and the listen protocol use one and the same name: all three are
   `stream_protocol(prefix, "/ipfs/bitswap/1.2.0")` with the same literal (tie_protocol_suffixes) *)
Theorem C20_single_name : Extracted.protocol_suffixes = [SUFFIX; SUFFIX; SUFFIX].
Proof. exact tie_protocol_suffixes. Qed.

Theorem C20_injective : forall cfg1 cfg2, accepted_cfg cfg1 -> accepted_cfg cfg2 ->
  protocol_name cfg1 = protocol_name cfg2 -> cfg1 = cfg2.
Proof. exact name_injective. Qed.

(* under A-MSS (negotiation succeeds iff names are equal) nodes interoperate iff configured equally *)
Theorem C20_isolation : forall cfg1 cfg2 n1 n2, accepted_cfg cfg1 -> accepted_cfg cfg2 ->
  protocol_name cfg1 = Some n1 -> protocol_name cfg2 = Some n2 ->
  (negotiates n1 n2 = true <-> cfg1 = cfg2).
Proof. exact isolation. Qed.

Check C20_injective : forall cfg1 cfg2, accepted_cfg cfg1 -> accepted_cfg cfg2 ->
  protocol_name cfg1 = protocol_name cfg2 -> cfg1 = cfg2.

Example ex_accepted : accepted_cfg (Some [47; 99]) /\ protocol_name (Some [47; 99]) = Some ([47; 99] ++ SUFFIX).
Proof. split; reflexivity. Qed.
Example ex_rejected : protocol_prefix [102; 111; 111] = None.
Proof. reflexivity. Qed.

Print Assumptions C20_accept_iff.
Print Assumptions C20_build_total.
Print Assumptions C20_build_total_unprefixed.
Print Assumptions C20_single_name.
Print Assumptions C20_injective.
Print Assumptions C20_isolation.
