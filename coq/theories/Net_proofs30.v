(* Net_proofs30.v — package J, part 8: the heavy work `HH` (Net_proofs29) through the steps of the schedule: no step raises
   it; a get result that is handled and a block that is accepted lower it by 3, a lookup that is started lowers it by 1. *)
From BS Require Import Server_lemmas Server_inv Wantlist_proofs Client_proofs Client_proofs2 Client_proofs3 Client_proofs4
  Client_proofs8 Net Net_proofs2 Net_proofs3 Net_proofs4 Net_proofs5 Net_proofs6 Net_proofs11 Net_proofs23 Net_proofs24
  Net_proofs25 Net_proofs26 Net_proofs27 Net_proofs29.
From Coq Require Import ZArith ZifyBool ZifyN ZifyNat Lia.
Open Scope nat_scope.

Local Notation cid_eqb_spec := Wantlist_proofs.cid_eqb_spec.

Definition thw (P : nat) (ts : list (N * Client.task)) : nat := sum_by (fun e => hw P (snd e)) ts.
Definition debtsH (w : wl) (tf : bool) (l : list (peer * peer_state)) : nat := sum_by (fun e => debtH w tf (snd e)) l.

Lemma client_H_eq c :
  client_H c = thw (length (cs_peers c)) (cs_tasks c) + 3 * length (wl_cids (cs_wl c)) + debtsH (cs_wl c) (timer_ready c) (cs_peers c).
Proof. reflexivity. Qed.

(* ---------- the timer ---------- *)
Lemma H_after_timer c : client_H (after_timer c) = client_H c.
Proof.
  unfold after_timer. change (timer_ready (set_queue c [])) with (timer_ready c). destruct (timer_ready c) eqn:Et; [|reflexivity].
  rewrite !client_H_eq. rewrite fire_timer_not_ready. rewrite Et.
  cbn [fire_timer set_queue cs_peers cs_tasks cs_wl]. rewrite map_length. f_equal.
  unfold debtsH. rewrite sum_by_map. apply sum_by_ext. intros [p ps] _. cbn [fst snd]. unfold debtH. cbn [p_send_full p_wl]. rewrite orb_true_r. reflexivity.
Qed.

(* ---------- the tasks ---------- *)
Definition rH (P : nat) (r : option task_result) : nat := match r with Some (TrGet _ _ _) => P + 6 | _ => 0 end.

Lemma poll_task_ready_H P nc t r : poll_task nc t = TpReady r -> rH P (Some r) <= hw P t.
Proof.
  unfold poll_task, hw. destruct (t_kind t).
  - destruct (t_aborted t); [intros [= <-]; cbn; lia|]. destruct (t_call t); [|discriminate]. destruct (t_result t); [|discriminate].
    intros [= <-]. cbn. lia.
  - destruct (t_call t); [|discriminate]. destruct (t_result t) as [[]|]; try discriminate; intros [= <-]; cbn; lia.
Qed.

Lemma hw_start P nc t : hw P (start_task nc t) = hw P t.
Proof. reflexivity. Qed.

Lemma thw_poll_next P rq : forall ts nc,
  NoDup (map fst ts) -> let '(ts', rq', nc', outs, res) := poll_next rq ts nc in thw P ts' + rH P res <= thw P ts.
Proof.
  induction rq as [|tid rq IH]; intros ts nc Hnd; cbn [poll_next]; [cbn; lia|].
  destruct (al_find N.eqb tid ts) as [t|] eqn:Ef; [|apply IH; exact Hnd].
  pose proof (al_find_some_in _ Neqb_spec _ _ _ Ef) as Hin.
  destruct (poll_task nc t) as [r|o|] eqn:Ep.
  - pose proof (sum_by_al_remove (fun e => hw P (snd e)) tid t ts Hnd Hin) as E. cbn [snd] in E. fold (thw P (al_remove N.eqb tid ts)) in E. fold (thw P ts) in E.
    pose proof (poll_task_ready_H P _ _ _ Ep). lia.
  - pose proof (sum_by_al_modify (fun e => hw P (snd e)) tid (start_task nc) t ts Hnd Hin) as E. cbn [snd] in E.
    fold (thw P (al_modify N.eqb tid (start_task nc) ts)) in E. fold (thw P ts) in E. rewrite hw_start in E.
    specialize (IH (al_modify N.eqb tid (start_task nc) ts) (nc + 1)%N ltac:(rewrite al_modify_keys; exact Hnd)).
    destruct (poll_next rq (al_modify N.eqb tid (start_task nc) ts) (nc + 1)%N) as [[[[ts' rq'] nc'] outs'] res]. lia.
  - apply IH; exact Hnd.
Qed.

Lemma H_after_tasks s :
  NoDup (map fst (cs_tasks s)) -> client_H (after_tasks s) + rH (length (cs_peers s)) (tasks_res s) <= client_H s.
Proof.
  intros Hnd. pose proof (thw_poll_next (length (cs_peers s)) (cs_ready s) (cs_tasks s) (cs_next_call s) Hnd) as H.
  rewrite !client_H_eq. unfold after_tasks, tasks_res, timer_ready.
  destruct (poll_next (cs_ready s) (cs_tasks s) (cs_next_call s)) as [[[[ts rq] nc] outs] res].
  cbn [set_tasks_calls cs_peers cs_tasks cs_wl cs_deadline cs_now]. lia.
Qed.

Definition is_get_res (r : task_result) : nat := match r with TrGet _ _ _ => 3 | _ => 0 end.

Lemma debtH_wanted_again w c tf ps :
  ~ In c (wl_cids w) ->
  debtH (MkWl (wl_cids w ++ [c]) (wl_rev w + 1) (wl_sdh w)) tf
        (MkPeer (p_conns ps) (p_ss ps) (wls_wanted_again (p_wl ps) c) (p_send_full ps))
  <= debtH w tf ps + 1.
Proof.
  intros Hc. unfold debtH. cbn [p_send_full p_wl wl_cids]. pose proof (vacant_wanted_again w c (p_wl ps) Hc) as Hv.
  rewrite app_length. cbn [length]. destruct (p_send_full ps || tf); lia.
Qed.

Lemma H_handle s r :
  client_H (fst (handle_task_result s r)) + is_get_res r <= client_H s + rH (length (cs_peers s)) (Some r).
Proof.
  destruct r as [q c res|ok bl|]; cbn [handle_task_result rH is_get_res].
  - assert (Hsame : client_H (set_abort s (al_remove N.eqb q (cs_abort s))) = client_H s) by reflexivity.
    destruct res; cbn [fst]; try (rewrite Hsame; lia).
    cbn [set_abort cs_wl]. unfold wl_insert. destruct (cid_mem c (wl_cids (cs_wl s))) eqn:M; cbn [fst].
    + rewrite !client_H_eq. cbn [set_c2q set_wl set_abort cs_peers cs_tasks cs_wl]. unfold timer_ready. cbn. lia.
    + apply cid_mem_false in M. rewrite !client_H_eq.
      cbn [set_c2q set_peers set_wl set_abort cs_peers cs_tasks cs_wl wl_cids]. unfold wanted_again_all. rewrite map_length.
      change (timer_ready (set_c2q _ _)) with (timer_ready s).
      assert (Hd : debtsH (MkWl (wl_cids (cs_wl s) ++ [c]) (wl_rev (cs_wl s) + 1) (wl_sdh (cs_wl s))) (timer_ready s)
                     (map (fun e => (fst e, MkPeer (p_conns (snd e)) (p_ss (snd e)) (wls_wanted_again (p_wl (snd e)) c) (p_send_full (snd e)))) (cs_peers s))
                   <= debtsH (cs_wl s) (timer_ready s) (cs_peers s) + length (cs_peers s) * 1).
      { unfold debtsH. rewrite sum_by_map. apply sum_by_le_add. intros [p ps] _. cbn [fst snd]. apply debtH_wanted_again. exact M. }
      rewrite app_length. cbn [length]. lia.
  - destruct ok; cbn [fst]; rewrite !client_H_eq; cbn [set_new_blocks cs_peers cs_tasks cs_wl]; unfold timer_ready; cbn [set_new_blocks cs_deadline cs_now]; lia.
  - cbn [fst]. lia.
Qed.

Lemma H_tasks_run s outs s' : tasks_run s outs s' -> INVT s -> client_H s' <= client_H s.
Proof.
  induction 1 as [s Hr | s r outs s' Hr Hrun IH]; intros HT.
  - pose proof (H_after_tasks s (proj1 HT)) as H. lia.
  - pose proof (H_after_tasks s (proj1 HT)) as H. rewrite Hr in H.
    pose proof (H_handle (after_tasks s) r) as H2. destruct (after_tasks_frame s) as (_ & _ & Ep & _). rewrite Ep in H2.
    specialize (IH (INVT_handle _ r (INVT_after_tasks s HT))). lia.
Qed.

(* a get task whose store call was released is handled in this poll *)
Definition rgb (t : Client.task) : bool :=
  match t_kind t with
  | TGet _ _ => negb (t_aborted t) && match t_call t with Some _ => true | None => false end
                && match t_result t with Some _ => true | None => false end
  | TPut _ => false
  end.

Definition has_rg (s : cstate) : Prop :=
  exists tid t, In tid (cs_ready s) /\ al_find N.eqb tid (cs_tasks s) = Some t /\ rgb t = true.

Lemma poll_task_rg nc t : rgb t = true -> exists q c r, poll_task nc t = TpReady (TrGet q c r).
Proof.
  unfold rgb, poll_task. destruct (t_kind t) as [q c|bl]; [|discriminate]. destruct (t_aborted t); [discriminate|].
  destruct (t_call t); [|discriminate]. destruct (t_result t) as [r|]; [|discriminate]. intros _. eauto.
Qed.

Lemma al_find_remove_neq {V} (k k' : N) (l : list (N * V)) : k <> k' -> al_find N.eqb k' (al_remove N.eqb k l) = al_find N.eqb k' l.
Proof.
  intros Hne. induction l as [|[k0 v] l IH]; [reflexivity|]. unfold al_remove in *. cbn [filter fst al_find].
  destruct (k =? k0)%N eqn:E; cbn [negb al_find].
  - apply N.eqb_eq in E. subst k0. rewrite IH. assert ((k' =? k)%N = false) as -> by (apply N.eqb_neq; congruence). reflexivity.
  - rewrite IH. reflexivity.
Qed.

Lemma al_find_modify_neq {V} (k k' : N) (f : V -> V) (l : list (N * V)) : k <> k' -> al_find N.eqb k' (al_modify N.eqb k f l) = al_find N.eqb k' l.
Proof.
  intros Hne. induction l as [|[k0 v] l IH]; [reflexivity|]. unfold al_modify in *. cbn [map fst snd al_find].
  destruct (k =? k0)%N eqn:E; cbn [fst al_find].
  - apply N.eqb_eq in E. subst k0. assert ((k' =? k)%N = false) as -> by (apply N.eqb_neq; congruence). exact IH.
  - rewrite IH. reflexivity.
Qed.

Lemma poll_next_rg rq : forall ts nc,
  (exists tid t, In tid rq /\ al_find N.eqb tid ts = Some t /\ rgb t = true) ->
  let '(ts', rq', nc', outs, res) := poll_next rq ts nc in
  exists r, res = Some r /\
    (is_get_res r = 3 \/ exists tid t, In tid rq' /\ al_find N.eqb tid ts' = Some t /\ rgb t = true).
Proof.
  induction rq as [|tid0 rq IH]; intros ts nc (tid & t & Hin & Hf & Hrg); [destruct Hin|]. cbn [poll_next].
  destruct (al_find N.eqb tid0 ts) as [t0|] eqn:Ef.
  - destruct (poll_task nc t0) as [r|o|] eqn:Ep.
    + exists r. split; [reflexivity|]. destruct (N.eq_dec tid0 tid) as [->|Hne].
      * left. rewrite Ef in Hf. injection Hf as ->. destruct (poll_task_rg nc t Hrg) as (q & c & r0 & E). rewrite E in Ep. injection Ep as <-. reflexivity.
      * right. exists tid, t. split; [destruct Hin as [->|Hin]; [congruence | exact Hin]|]. split; [|exact Hrg].
        rewrite al_find_remove_neq by exact Hne. exact Hf.
    + assert (Hne : tid0 <> tid).
      { intros ->. rewrite Ef in Hf. injection Hf as ->. destruct (poll_task_rg nc t Hrg) as (q & c & r0 & E). congruence. }
      specialize (IH (al_modify N.eqb tid0 (start_task nc) ts) (nc + 1)%N).
      destruct (poll_next rq (al_modify N.eqb tid0 (start_task nc) ts) (nc + 1)%N) as [[[[ts' rq'] nc'] outs'] res].
      apply IH. exists tid, t. split; [destruct Hin as [->|Hin]; [congruence | exact Hin]|]. split; [|exact Hrg].
      rewrite al_find_modify_neq by exact Hne. exact Hf.
    + apply IH. exists tid, t. split; [|auto]. destruct Hin as [->|Hin]; [|exact Hin].
      rewrite Ef in Hf. injection Hf as ->. destruct (poll_task_rg nc t Hrg) as (q & c & r0 & E). congruence.
  - apply IH. exists tid, t. split; [|auto]. destruct Hin as [->|Hin]; [congruence | exact Hin].
Qed.

Lemma H_tasks_run_rg s outs s' : tasks_run s outs s' -> INVT s -> has_rg s -> client_H s' + 3 <= client_H s.
Proof.
  induction 1 as [s Hr | s r outs s' Hr Hrun IH]; intros HT Hrg.
  - exfalso. pose proof (poll_next_rg (cs_ready s) (cs_tasks s) (cs_next_call s) Hrg) as Hp. unfold tasks_res in Hr.
    destruct (poll_next (cs_ready s) (cs_tasks s) (cs_next_call s)) as [[[[ts rq] nc] outs] res]. destruct Hp as (r & -> & _). discriminate.
  - pose proof (H_after_tasks s (proj1 HT)) as H. rewrite Hr in H.
    pose proof (H_handle (after_tasks s) r) as H2. destruct (after_tasks_frame s) as (_ & _ & Ep & _). rewrite Ep in H2.
    pose proof (INVT_handle _ r (INVT_after_tasks s HT)) as HT2.
    pose proof (poll_next_rg (cs_ready s) (cs_tasks s) (cs_next_call s) Hrg) as Hp.
    destruct (handle_result_frame (after_tasks s) r) as (E1 & _ & E3 & _).
    unfold tasks_res in Hr. unfold after_tasks in E1, E3.
    destruct (poll_next (cs_ready s) (cs_tasks s) (cs_next_call s)) as [[[[ts rq] nc] outs0] res] eqn:Epn.
    destruct Hp as (r0 & -> & Hcase). injection Hr as ->. cbn [set_tasks_calls cs_tasks cs_ready] in E1, E3.
    destruct Hcase as [Hg|Hrest].
    + pose proof (H_tasks_run _ _ _ Hrun HT2). lia.
    + assert (Hrg2 : has_rg (fst (handle_task_result (after_tasks s) r))).
      { unfold has_rg. unfold after_tasks. rewrite Epn. rewrite E1, E3. exact Hrest. }
      specialize (IH HT2 Hrg2). lia.
Qed.

(* ---------- update_handlers ---------- *)
Lemma wmsg_H_of i x : wmsg_H (w_of i x) = count_wants (snd x).
Proof. reflexivity. Qed.

Lemma debtH_fin1 i now w p ps :
  NoDup (wl_cids w) -> peer_ok w ps ->
  debtH w false (snd (fin1 now w (p, ps))) + sum_by wmsg_H (map (w_of i) (sends1 w (p, ps))) <= debtH w false ps.
Proof.
  intros Hw (Hst & _ & _). unfold fin1, sends1. cbn [fst snd]. destruct (p_ss ps); cbn [map sum_by fold_right snd]; try lia.
  destruct (p_send_full ps) eqn:Esf; cbn [negb andb].
  - destruct (gen_full_count w (p_wl ps) Hw Hst) as (Hc & Hv & Hu). destruct (wls_generate_full (p_wl ps) w) as [es wls'].
    cbn [fst snd] in *. cbn [map sum_by fold_right]. rewrite wmsg_H_of. cbn [snd]. unfold debtH. cbn [p_send_full p_wl orb].
    rewrite Esf, Hv. cbn [orb length]. lia.
  - rewrite gen_update_unfold. destruct (wls_is_updated (p_wl ps) w) eqn:Eu.
    + cbn [is_nil andb map sum_by fold_right snd]. unfold debtH. cbn [p_send_full p_wl]. lia.
    + destruct (upd_body_count w (p_wl ps) Hw Hst) as (Hc & Hv & Hu). destruct (upd_body (p_wl ps) w) as [es wls'].
      cbn [fst snd] in *. unfold debtH. rewrite Esf. cbn [orb].
      destruct es as [|e es]; cbn [is_nil andb snd map sum_by fold_right p_send_full p_wl].
      * rewrite Hv. cbn [orb length]. lia.
      * rewrite wmsg_H_of. cbn [snd p_send_full p_wl]. rewrite Hv. cbn [orb length]. lia.
Qed.

Lemma debtsH_fin i now w l :
  NoDup (wl_cids w) -> (forall p ps, In (p, ps) l -> peer_ok w ps) ->
  debtsH w false (map (fin1 now w) l) + sum_by wmsg_H (map (w_of i) (flat_map (sends1 w) l)) <= debtsH w false l.
Proof.
  intros Hw. induction l as [|[p ps] l IH]; intros Hok; [cbn; lia|].
  specialize (IH (fun p' ps' H => Hok p' ps' (or_intror H))). pose proof (debtH_fin1 i now w p ps Hw (Hok p ps (or_introl eq_refl))) as H1.
  cbn [map flat_map]. rewrite map_app, sum_by_app. unfold debtsH in *. rewrite !sum_by_cons. cbn [snd]. lia.
Qed.

Lemma H_fin i now sC :
  NoDup (wl_cids (cs_wl sC)) -> (forall p ps, In (p, ps) (cs_peers sC) -> peer_ok (cs_wl sC) ps) -> timer_ready sC = false ->
  client_H (set_peers (set_new_blocks (set_queue sC []) []) (map (fin1 now (cs_wl sC)) (cs_peers sC)))
  + sum_by wmsg_H (map (w_of i) (flat_map (sends1 (cs_wl sC)) (cs_peers sC))) <= client_H sC.
Proof.
  intros Hw Hok Ht. pose proof (debtsH_fin i now (cs_wl sC) (cs_peers sC) Hw Hok) as H.
  rewrite !client_H_eq. cbn [set_peers set_new_blocks set_queue cs_peers cs_tasks cs_wl].
  change (timer_ready (set_peers _ _)) with (timer_ready sC). rewrite Ht, map_length. lia.
Qed.

(* ---------- a released store call, a handler report ---------- *)
Lemma H_release c m r : client_H (c_release c m r) <= client_H c.
Proof.
  unfold c_release. destruct (find (call_is m) (cs_tasks c)) as [[tid t0]|]; [|lia].
  rewrite !client_H_eq. cbn [set_tasks cs_peers cs_tasks cs_wl]. change (timer_ready (set_tasks _ _ _)) with (timer_ready c).
  pose proof (sum_by_al_modify_le (fun e => hw (length (cs_peers c)) (snd e)) tid
                (fun t => Client.MkTask (t_kind t) (t_call t) (Some r) (t_aborted t)) (cs_tasks c)
                (fun k v => le_n _)) as H.
  unfold thw. lia.
Qed.

Lemma H_report c p cn r : client_H (c_report c p cn r) = client_H c.
Proof.
  rewrite !client_H_eq. unfold c_report. cbn [set_peers cs_peers cs_tasks cs_wl]. change (timer_ready (set_peers _ _)) with (timer_ready c).
  unfold al_modify. rewrite map_length. f_equal. unfold debtsH. rewrite sum_by_map. apply sum_by_ext.
  intros [k ps] _. cbn [fst snd]. destruct (p =? k)%N; [|reflexivity]. cbn [snd]. destruct (report_accepted ps cn); reflexivity.
Qed.

(* ---------- an incoming block batch ---------- *)
Lemma debtH_shrunk (g : cid -> bool) w w' tf ps ps' :
  wl_cids w' = filter g (wl_cids w) -> map fst (req (p_wl ps')) = map fst (req (p_wl ps)) -> p_send_full ps' = p_send_full ps ->
  debtH w' tf ps' <= debtH w tf ps.
Proof.
  intros Hw Hk Hsf. unfold debtH. rewrite Hsf. pose proof (vacant_filter_le g w w' _ _ Hw Hk) as Hv.
  assert (Hl : length (wl_cids w') <= length (wl_cids w)) by (rewrite Hw; apply filter_length_le).
  destruct (p_send_full ps || tf); lia.
Qed.

Lemma H_push s k : client_H (push_task s k) = client_H s + hw (length (cs_peers s)) (Client.MkTask k None None false).
Proof.
  rewrite !client_H_eq. cbn [push_task cs_peers cs_tasks cs_wl]. change (timer_ready (push_task s k)) with (timer_ready s).
  unfold thw. rewrite sum_by_app. cbn [sum_by fold_right snd]. lia.
Qed.

(* what an incoming batch does to the client: nothing at all, or the wantlist shrinks *)
Lemma incoming_cases c p blocks :
  NoDup (map fst (cs_peers c)) ->
  let c' := fst (c_incoming c p [] blocks) in
  client_H c' + 3 * length (wl_cids (cs_wl c)) <= client_H c + 3 * length (wl_cids (cs_wl c')) /\
  ((cs_tasks c' = cs_tasks c /\ cs_queue c' = cs_queue c /\ cs_wl c' = cs_wl c /\ cs_peers c' = cs_peers c /\
    cs_new_blocks c' = cs_new_blocks c /\ cs_now c' = cs_now c /\ cs_deadline c' = cs_deadline c) \/
   length (wl_cids (cs_wl c')) + 1 <= length (wl_cids (cs_wl c))).
Proof.
  intros Hnd. cbn zeta. unfold c_incoming. destruct (al_find N.eqb p (cs_peers c)) as [ps0|] eqn:Ef; [|cbn [fst]; split; [lia | left; repeat split]]. cbn [fold_left].
  pose proof (al_find_some_in _ Neqb_spec _ _ _ Ef) as Hin0.
  set (a0 := MkInc (cs_wl c) (p_wl ps0) (cs_c2q c) (cs_queue c) [] false).
  pose proof (inc_blocks_rel blocks a0 a0 (inc_rel_refl a0)) as Hrel. set (a := fold_left inc_block blocks a0) in *.
  destruct Hrel as ((g & Hg) & Hk & Hc). cbn [a0 ia_wl ia_pwl ia_queue ia_new] in Hg, Hk, Hc.
  set (upd := fun ps1 : peer_state => MkPeer (p_conns ps1) (p_ss ps1) (ia_pwl a) (p_send_full ps1)).
  set (s1 := MkCs (ia_queue a) (ia_wl a) (al_modify N.eqb p upd (cs_peers c)) (ia_c2q a) (cs_tasks c) (cs_ready c) (cs_next_task c)
                  (cs_abort c) (cs_next_qid c) (cs_deadline c) (cs_new_blocks c) (cs_now c) (cs_next_call c)).
  assert (Hlen : length (cs_peers s1) = length (cs_peers c)) by (cbn [s1 cs_peers]; unfold al_modify; apply map_length).
  assert (Htr : timer_ready s1 = timer_ready c) by reflexivity.
  assert (Hown : forall k ps, In (k, ps) (cs_peers c) -> (p =? k)%N = true -> ps = ps0).
  { intros k ps Hin Ek. apply N.eqb_eq in Ek. subst k. eapply NoDup_keys_in_eq; eassumption. }
  destruct Hc as [(E1 & E2 & E3 & E4)|[Hlt Hne]].
  - (* nothing accepted: the state is the same *)
    cbn [a0 ia_wl ia_pwl ia_queue ia_new] in E1, E2, E3, E4.
    assert (Hpeers : al_modify N.eqb p upd (cs_peers c) = cs_peers c).
    { unfold al_modify. rewrite <- (map_id (cs_peers c)) at 2. apply map_ext_in. intros [k ps] Hin. cbn [fst snd].
      destruct (p =? k)%N eqn:Ek; [|reflexivity]. rewrite (Hown k ps Hin Ek). unfold upd. rewrite E2. destruct ps0; reflexivity. }
    destruct (ia_panic a); [|rewrite E4]; cbn [fst]; (split;
      [rewrite !client_H_eq; rewrite Htr, Hlen; cbn [s1 cs_tasks cs_wl cs_peers]; rewrite E1, Hpeers; lia
      |left; cbn [s1 cs_tasks cs_queue cs_wl cs_peers cs_new_blocks cs_now cs_deadline]; rewrite E1, E3, Hpeers; repeat split]).
  - (* at least one block accepted *)
    assert (Hs1 : client_H s1 + 3 * length (wl_cids (cs_wl c)) <= client_H c + 3 * length (wl_cids (ia_wl a))).
    { rewrite !client_H_eq. rewrite Htr, Hlen. cbn [s1 cs_tasks cs_wl cs_peers].
      assert (Hd : debtsH (ia_wl a) (timer_ready c) (al_modify N.eqb p upd (cs_peers c)) <= debtsH (cs_wl c) (timer_ready c) (cs_peers c)).
      { unfold debtsH, al_modify. rewrite sum_by_map. apply sum_by_le. intros [k ps] Hin. cbn [fst snd].
        destruct (p =? k)%N eqn:Ek; cbn [snd].
        - rewrite (Hown k ps Hin Ek). apply (debtH_shrunk g); [exact Hg | exact Hk | reflexivity].
        - apply (debtH_shrunk g); [exact Hg | reflexivity | reflexivity]. }
      lia. }
    assert (Hwl : forall k, cs_wl (push_task s1 k) = ia_wl a) by reflexivity.
    destruct (ia_panic a); [cbn [fst]; split; [exact Hs1 | right; exact Hlt]|].
    destruct (ia_new a) as [|b nb] eqn:En; [congruence|]. cbn [fst]. split; [|right; rewrite Hwl; exact Hlt].
    rewrite H_push, Hlen, Hwl. cbn [hw t_kind]. lia.
Qed.

(* ---------- the server ---------- *)
Definition bwH (x : N * (cid * Server.task)) : nat := todo_w (snd (snd x)).
Definition lookups (st : sstate) : nat := length (filter (fun t => negb (is_nil (Server.t_todo t))) (s_ready st)).

Lemma server_H_eq st : server_H st = sum_by todo_w (s_ready st) + sum_by bwH (s_blocked st).
Proof. reflexivity. Qed.

Lemma fold_run_task_H ready : forall st out,
  sum_by bwH (s_blocked (fst (fold_left run_task ready (st, out)))) + length (filter (fun t => negb (is_nil (Server.t_todo t))) ready)
  <= sum_by bwH (s_blocked st) + sum_by todo_w ready.
Proof.
  induction ready as [|t ready IH]; intros st out; cbn [fold_left]; [cbn; lia|].
  destruct (Server.t_todo t) as [|c rest] eqn:Et.
  - rewrite (run_task_nil _ _ _ Et). match goal with |- context [fold_left run_task ready (?s, ?o)] => specialize (IH s o) end.
    cbn [s_blocked] in IH. cbn [filter]. rewrite Et. cbn [is_nil negb]. rewrite sum_by_cons. lia.
  - rewrite (run_task_cons _ _ _ _ _ Et). match goal with |- context [fold_left run_task ready (?s, ?o)] => specialize (IH s o) end.
    cbn [s_blocked] in IH. rewrite sum_by_app in IH. cbn [sum_by fold_right] in IH.
    assert (Eb : forall k p d, bwH (k, (c, Server.MkTask p d rest)) = length rest) by reflexivity. rewrite Eb in IH.
    assert (Ew : todo_w t = S (length rest)) by (unfold todo_w; rewrite Et; reflexivity).
    cbn [filter]. rewrite Et. cbn [is_nil negb length]. rewrite sum_by_cons, Ew. lia.
Qed.

Lemma H_do_poll st : server_H (fst (Server.do_poll st)) + lookups st <= server_H st.
Proof.
  unfold Server.do_poll. fold (poll_start st).
  pose proof (fold_run_task_H (s_ready st) (poll_start st) []) as H1.
  pose proof (fold_run_task_frame (s_ready st) (poll_start st) []) as (_ & _ & _ & _ & F5). cbn zeta in *.
  destruct (fold_left run_task (s_ready st) (poll_start st, [])) as [st1 out1]. cbn [fst snd poll_start s_blocked s_ready] in *.
  unfold Server.update_handlers. destruct (fold_left uh_block (s_outq st1) (s_wants st1, s_waiting st1, [])) as [[wants wt] bat]. cbn [fst].
  rewrite !server_H_eq. cbn [s_ready s_blocked]. rewrite F5. change (sum_by todo_w []) with 0. unfold lookups. lia.
Qed.

Lemma H_srv_poll st nb : server_H (fst (srv_poll st nb)) + lookups st <= server_H st.
Proof. unfold srv_poll. destruct nb as [|b nb]; [apply H_do_poll|]. exact (H_do_poll (new_blocks_available st (b :: nb))). Qed.

Lemma sum_bwH_adel k blocked c t : alookup N.eqb k blocked = Some (c, t) -> sum_by bwH (adel N.eqb k blocked) + todo_w t <= sum_by bwH blocked.
Proof.
  induction blocked as [|[k0 x] l IH]; [discriminate|]. cbn [alookup]. unfold adel in *. cbn [filter fst]. destruct (k =? k0)%N eqn:E.
  - intros [= ->]. cbn [negb]. rewrite sum_by_cons. unfold bwH at 2. cbn [snd].
    pose proof (sum_by_filter_le bwH (fun kv : N * (cid * Server.task) => negb (k =? fst kv)%N) l). lia.
  - intros H. cbn [negb]. rewrite !sum_by_cons. specialize (IH H). lia.
Qed.

Lemma H_release_srv st k r : server_H (release st k r) <= server_H st.
Proof.
  unfold release. destruct (alookup N.eqb k (s_blocked st)) as [[c t]|] eqn:E; [|lia].
  rewrite !server_H_eq. cbn [s_ready s_blocked]. rewrite sum_by_app. cbn [sum_by fold_right].
  pose proof (sum_bwH_adel _ _ _ _ E). unfold todo_w at 2. cbn [Server.t_todo]. unfold todo_w in H. lia.
Qed.

Lemma H_incoming_msg Sz st p w order : server_H (process_incoming_message Sz st p w order) <= server_H st + cnt_wants (w_entries w).
Proof.
  unfold process_incoming_message. destruct (alookup N.eqb p (s_wants st)) as [old|]; [|lia].
  destruct (process_wantlist Sz old w) as [|new additions removals] eqn:E; [rewrite !server_H_eq; cbn [s_ready s_blocked]; lia|].
  destruct (process_wantlist_lengths _ _ _ _ _ _ E) as [Ha Hl].
  rewrite !server_H_eq. cbn [s_ready s_blocked]. rewrite sum_by_app. cbn [sum_by fold_right]. unfold todo_w at 2. cbn [Server.t_todo].
  assert (Hlk : length (if w_full w then if perm_ok order new then order else new else additions) <= cnt_wants (w_entries w)).
  { destruct (w_full w); [|exact Hl]. destruct (perm_ok order new) eqn:Ep; [|exact Hl]. unfold perm_ok in Ep.
    apply andb_true_iff in Ep. destruct Ep as [Ep _]. apply andb_true_iff in Ep. destruct Ep as [Ep _]. apply N.eqb_eq in Ep. unfold len in Ep. lia. }
  destruct (w_full w); lia.
Qed.

(* ---------- the nodes ---------- *)
Lemma node_H_mk c sv st calls : node_H (MkNode c sv st calls) = client_H c + server_H sv.
Proof. reflexivity. Qed.
Lemma node_H_unfold n : node_H n = client_H (n_client n) + server_H (n_server n).
Proof. reflexivity. Qed.
Lemma HH_eq s : HH s = sum_by node_H (nodes s) + sum_by wmsg_H (wire_w s).
Proof. reflexivity. Qed.

Definition wl_len_of (n : node) : nat := length (wl_cids (cs_wl (n_client n))).

Section StepsH.
  Variables (Sz : N) (Hh : hash_fn).
  Hypothesis HSz : (32 <= Sz)%N.
  Local Notation G := (good Sz Hh).

  Lemma H_node_store n k : node_H (node_store Sz n k) <= node_H n.
  Proof.
    unfold node_store. destruct (nth_error (n_calls n) (N.to_nat k)) as [call|]; [|lia].
    rewrite !node_H_unfold. destruct call as [m c|m bl|m c]; cbn [n_client n_server cstep fst].
    - pose proof (H_release (n_client n) m (store_get (n_store n) c)). lia.
    - pose proof (H_release (n_client n) m (SHit [])). lia.
    - assert (server_H (fst (srv Sz (n_server n) (SRelease m (store_get (n_store n) c)))) <= server_H (n_server n)).
      { unfold srv, sstep_l. destruct (s_panic (n_server n)); cbn [fst]; [lia | apply H_release_srv]. }
      lia.
  Qed.

  Lemma H_node_incoming_w n p sdh full es :
    node_H (fst (node_incoming Sz Hh n p (wantlist_message sdh full es))) <= node_H n + count_wants es.
  Proof.
    unfold node_incoming. rewrite process_wantlist_message. cbn [in_client in_server].
    destruct (full || negb (is_nil es)); cbn [fst]; rewrite !node_H_unfold; cbn [n_client n_server]; [|lia].
    unfold srv, sstep_l. destruct (s_panic (n_server n)); cbn [fst]; [lia|].
    pose proof (H_incoming_msg Sz (n_server n) p (proto_of sdh full es)
                  match full_collect Sz (w_entries (proto_of sdh full es)) [] with Some l => l | None => [] end) as H.
    rewrite cnt_wants_proto in H. lia.
  Qed.


  (* the receiver of a block batch: unchanged, or its wantlist shrinks and HH falls by 3 per CID *)
  Lemma H_node_incoming_b n p bl :
    Forall G bl -> NoDup (map fst (cs_peers (n_client n))) ->
    let n' := fst (node_incoming Sz Hh n p (blocks_message bl)) in
    node_H n' + 3 * wl_len_of n <= node_H n + 3 * wl_len_of n' /\
    n_server n' = n_server n /\ n_calls n' = n_calls n /\ n_store n' = n_store n /\
    ((cs_tasks (n_client n') = cs_tasks (n_client n) /\ cs_queue (n_client n') = cs_queue (n_client n) /\ cs_wl (n_client n') = cs_wl (n_client n) /\
      cs_peers (n_client n') = cs_peers (n_client n) /\ cs_new_blocks (n_client n') = cs_new_blocks (n_client n) /\
      cs_now (n_client n') = cs_now (n_client n) /\ cs_deadline (n_client n') = cs_deadline (n_client n)) \/
     wl_len_of n' + 1 <= wl_len_of n).
  Proof.
    intros Hg Hnd. cbn zeta. unfold node_incoming. rewrite (process_blocks_message Sz Hh bl Hg). cbn [in_client in_server]. unfold wl_len_of.
    destruct bl as [|b bl]; cbn [fst]; [rewrite node_H_mk, (node_H_unfold n); cbn [n_client n_server n_calls n_store]; split; [lia|]; repeat split; left; repeat split|].
    cbn [cm_presences cm_blocks map].
    pose proof (incoming_cases (n_client n) p (ins_all (b :: bl) []) Hnd) as H. cbn zeta in H.
    destruct (cstep (n_client n) (CIncoming p [] (ins_all (b :: bl) []))) as [c1 o1] eqn:E. cbn [cstep] in E. rewrite E in H. cbn [fst] in *.
    rewrite !node_H_unfold. cbn [n_client n_server n_calls n_store]. destruct H as [H1 H2]. split; [lia|]. repeat split; exact H2.
  Qed.

  Lemma H_node_report n p c r : node_H (node_report n p c r) = node_H n.
  Proof. unfold node_report. rewrite !node_H_unfold. cbn [n_client n_server cstep fst]. rewrite H_report. reflexivity. Qed.

  (* ---------- NPoll ---------- *)
  Lemma HH_poll s i n :
    net_ok Sz Hh s -> INVT (n_client n) -> get_node s i = Some n ->
    exists sC outsC, poll_nf Sz Hh s i n sC outsC /\
      HH (fst (do_poll Sz s i)) + lookups (n_server n) <= HH s /\
      (has_rg (after_timer (n_client n)) -> HH (fst (do_poll Sz s i)) + 3 <= HH s).
  Proof.
    intros Hok HT Hg. destruct (do_poll_nf Sz Hh s i n Hok Hg) as (sC & outsC & Hnf). exists sC, outsC. split; [exact Hnf|].
    destruct Hnf as [Hrun HCC Hto Heq]. cbn zeta in Heq. rewrite Heq. cbn [fst].
    rewrite !HH_eq. cbn [nodes wire_w]. rewrite !sum_by_app.
    match goal with |- context [set_nth (N.to_nat i) ?x (nodes s)] =>
      pose proof (sum_by_set_nth node_H (N.to_nat i) x n (nodes s) Hg) as Hset end.
    rewrite node_H_mk in Hset. rewrite (node_H_unfold n) in Hset.
    pose proof (H_after_timer (n_client n)) as H1.
    pose proof (H_tasks_run _ _ _ Hrun (INVT_after_timer _ HT)) as H2.
    pose proof (H_tasks_run_rg _ _ _ Hrun (INVT_after_timer _ HT)) as H2'.
    destruct (after_timer_props (n_client n)) as (_ & HtB & _). destruct (tasks_run_frame _ _ _ Hrun) as (_ & F2 & F3 & _).
    assert (HtC : timer_ready sC = false) by (unfold timer_ready in *; rewrite F2, F3; exact HtB).
    pose proof (H_fin i (now s) sC (ck_wl _ _ HCC) (ck_peers _ _ HCC) HtC) as H3.
    pose proof (H_srv_poll (n_server n) (cs_new_blocks sC)) as H4.
    split; [lia|]. intros Hrg. specialize (H2' Hrg). lia.
  Qed.

  Lemma HH_set_node s i n n' : get_node s i = Some n -> HH (set_node s i n') + node_H n = HH s + node_H n'.
  Proof.
    intros Hg. rewrite !HH_eq. cbn [set_node nodes wire_w]. pose proof (sum_by_set_nth node_H (N.to_nat i) n' n (nodes s) Hg). lia.
  Qed.

  Lemma HH_on_node_le s i f : (forall n, node_H (f n) <= node_H n) -> HH (on_node s i f) <= HH s.
  Proof.
    intros H. unfold on_node. destruct (get_node s i) as [n|] eqn:Hg; [|lia].
    pose proof (HH_set_node s i n (f n) Hg). specialize (H n). lia.
  Qed.

  Lemma HH_store s i k : HH (fst (nstep Sz Hh s (NStore i k))) <= HH s.
  Proof. cbn [nstep fst]. apply HH_on_node_le. intros n. apply H_node_store. Qed.

  Lemma HH_deliver_w s i j : HH (fst (nstep Sz Hh s (NDeliverW i j))) <= HH s.
  Proof.
    cbn [nstep fst]. unfold do_deliver_w. destruct (take_first (w_between i j) (wire_w s)) as [[m rest]|] eqn:Et; [|cbn [fst]; lia].
    pose proof (take_first_sum wmsg_H _ _ _ _ Et) as Hw. unfold wmsg_H at 2 in Hw.
    set (s0 := MkNet (nodes s) (conns s) rest (wire_b s) (now s)).
    assert (H0 : HH s0 + count_wants (wm_entries m) = HH s) by (rewrite !HH_eq; cbn [s0 nodes wire_w]; lia).
    destruct (get_node s0 i) as [ni|] eqn:Ei; [|cbn [fst]; lia]. destruct (get_node s0 j) as [nj|] eqn:Ej; [|cbn [fst]; lia].
    pose proof (H_node_incoming_w nj i (wl_sdh (cs_wl (n_client ni))) (wm_full m) (wm_entries m)) as Hj.
    destruct (node_incoming Sz Hh nj i (wantlist_message (wl_sdh (cs_wl (n_client ni))) (wm_full m) (wm_entries m))) as [nj1 evs]. cbn [fst] in *.
    pose proof (HH_set_node s0 j nj nj1 Ej) as H1.
    pose proof (HH_on_node_le (set_node s0 j nj1) i (fun n => node_report n j CONN RpReady)
                  ltac:(intros n; cbn beta; rewrite H_node_report; lia)) as H2.
    lia.
  Qed.

  Lemma HH_deliver_b s j i : net_ok Sz Hh s -> HH (fst (nstep Sz Hh s (NDeliverB j i))) <= HH s.
  Proof.
    intros Hok. cbn [nstep fst]. unfold do_deliver_b. destruct (take_first (b_between j i) (wire_b s)) as [[m rest]|] eqn:Et; [|cbn [fst]; lia].
    destruct (take_first_spec _ _ _ _ Et) as (Hm & _). pose proof (no_wire_b Sz Hh s Hok m Hm) as Hg.
    destruct (get_node s i) as [ni|] eqn:Ei.
    - destruct (H_node_incoming_b ni j (bm_blocks m) Hg (ck_keys _ _ (nk_ck _ _ _ _ _ (no_nodes Sz Hh s Hok i ni Ei)))) as (Hi & _ & _ & _ & Hcase). cbn zeta in Hi, Hcase.
      destruct (node_incoming Sz Hh ni j (blocks_message (bm_blocks m))) as [ni1 evs]. cbn [fst] in *.
      assert (Hl : wl_len_of ni1 <= wl_len_of ni) by (destruct Hcase as [(_ & _ & E & _)|Hlt]; [unfold wl_len_of; rewrite E; lia | lia]).
      rewrite !HH_eq. cbn [nodes wire_w]. pose proof (sum_by_set_nth node_H (N.to_nat i) ni1 ni (nodes s) Ei). lia.
    - cbn [fst]. rewrite !HH_eq. cbn [nodes wire_w]. lia.
  Qed.
End StepsH.
