(* Props_C11.v — C11: the wire format conforms to the Bitswap 1.2.0 protobuf schema.
   RefProto.ref_decode is an independent decoder written from message.proto and the proto3 encoding rules
   only (token list, no cursors); the tag tables of the Rust reader/writer are tied to the schema by
   Tie_codec.tie_tags_conform, regenerated from /repo on every run. *)
From BS Require Import Bytes Varint Varint_proofs Proto Qp ProtoCodec RefProto Frame Framed Codec
                       ProtoCodec_proofs RefProto_proofs Tie_codec.
Open Scope N_scope.

(* the emitted bytes are an unsigned-varint length prefix followed by a proto3 encoding that the
   reference decoder maps back to the same message *)
Theorem C11_emit_valid : forall m, wf_message m ->
  ref_decode (write_message m) = Some m /\
  codec_encode m = uv_encode (len (write_message m)) ++ write_message m.
Proof. intros m H. split; [exact (RefProto_proofs.C11_emit_valid m H) | reflexivity]. Qed.

(* the prefix really is the varint of the body length: decoding it gives the length back *)
Theorem C11_prefix_is_length : forall m rest, len (write_message m) < two64 ->
  uv_decode (codec_encode m ++ rest) = UvOk (len (write_message m)) (write_message m ++ rest).
Proof.
  intros m rest H. unfold codec_encode, frame_encode. rewrite <- app_assoc. apply uv_decode_encode. assumption.
Qed.

(* every schema-valid encoding within the class — fields in any order, unknown fields of wire types 0/1/2/5
   anywhere, explicitly encoded defaults, non-minimal varints, 10-byte negative int32, unknown enum numbers —
   is accepted and decoded to the same logical message, in both build profiles *)
Theorem C11_accept_noncanonical : forall chk w m,
  ref_decode w = Some m -> in_class w -> qp_read_message chk w (len w) = Qp.ROk m (len w).
Proof. exact RefProto_proofs.C11_accept_noncanonical. Qed.

(* the tables of the generated Rust code are the tables derived from message.proto *)
Theorem C11_tags_conform :
  Extracted.reader_Message = Extracted.schema_Message /\
  Extracted.reader_Wantlist = Extracted.schema_Wantlist /\
  Extracted.reader_Entry = Extracted.schema_Entry /\
  Extracted.reader_Block = Extracted.schema_Block /\
  Extracted.reader_BlockPresence = Extracted.schema_BlockPresence.
Proof. exact tie_tags_conform. Qed.

Check C11_accept_noncanonical : forall chk w m,
  ref_decode w = Some m -> in_class w -> qp_read_message chk w (len w) = Qp.ROk m (len w).

Example C11_nonvacuous_emit := C11_emit_valid_ex.
Example C11_nonvacuous_accept := C11_accept_noncanonical_ex.

Print Assumptions C11_emit_valid.
Print Assumptions C11_prefix_is_length.
Print Assumptions C11_accept_noncanonical.
Print Assumptions C11_tags_conform.
