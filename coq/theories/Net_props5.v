(* Net_props5.v — package Q: C13 (and the C07/C06 bookkeeping it rests on) lifted to NETS: per-peer and per-query state of both
   halves of every node is bounded and released in every reachable net, i.e. under every schedule of deliveries and store
   completions Net.v can produce.  Statements restated verbatim from Net_proofs50…53 and closed by `exact`; non-vacuity examples
   by vm_compute on the scenario op lists of Net_proofs.v / Net_props.v.

   Hypotheses used: `32 <= Sz` (no parse panics) and `Forall (nop_good Sz Hh) ops` (the application only NPuts blocks whose data
   hashes to the CID) — the hypotheses of package F's invariant `net_ok`; `Forall (nop_wf Sz) ops` (NGet CIDs well-formed) only
   where the liveness invariant `net_live` is used (parked lookup -> outstanding store call).  The client theorems about queries
   need none of them.

   FINDINGS
   * `C13_net_server_released_refuted`: on_peer_disconnected does not cancel the lookup tasks of the peer: they (and their store
     calls, up to 1024 per delivered wantlist message) run to completion for the absent peer; the loaded blocks are then dropped.
   * the number of lookup tasks alive is bounded by the wantlist messages received (`count_dw`), not by the connected peers.
   * `C13_net_client_total_refuted`: a client holds request states for CIDs nobody wants any more while the peer's wantlist is in
     flight (retention), so its size is not bounded by (live queries × connected peers). *)
From BS Require Import Types Wantlist Wantlist_proofs Wantlist_proofs2 Client Client_proofs Client_proofs4 Client_proofs7 Client_proofs8
  Server Server_inv Net Net_proofs Net_proofs2 Net_proofs5 Net_proofs6 Net_proofs7 Net_props Net_props2 Net_props4
  Net_proofs21 Net_proofs40 Net_proofs41 Net_proofs50 Net_proofs51 Net_proofs52 Net_proofs53 Net_proofs54.
From Coq Require Import ZArith Lia.
Open Scope N_scope.

(* ================================================================ 1. server: bounded *)
Theorem C13_net_server_bounded (Sz : N) (Hh : hash_fn) (HSz : 32 <= Sz) n ops :
  Forall (nop_good Sz Hh) ops ->
  let s := fst (nrun Sz Hh (net_init n) ops) in
  forall j nj, get_node s j = Some nj ->
  let st := n_server nj in
  (NoDup (map fst (s_wants st)) /\
   (forall p, In p (map fst (s_wants st)) <-> Net.connected s j p = true) /\
   (forall p ws, alookup N.eqb p (s_wants st) = Some ws ->
      NoDup ws /\ len ws <= MAX_WANTLIST_ENTRIES_PER_PEER /\ Net.connected s j p = true) /\
   (length (s_wants st) <= npeers s j)%nat) /\
  (NoDup (map fst (s_waiting st)) /\
   (forall c l, alookup cid_eqb c (s_waiting st) = Some l ->
      NoDup l /\ l <> [] /\
      forall p, In p l -> Net.connected s j p = true /\ exists ws, alookup N.eqb p (s_wants st) = Some ws /\ In c ws) /\
   regs_total (s_waiting st) = wants_total (s_wants st) /\
   (wants_total (s_wants st) <= 1024 * npeers s j)%nat) /\
  ((tasks_n st <= count_smsg (sops_run Sz Hh (net_init n) ops j))%nat /\
   (tasks_n st <= count_dw j ops)%nat /\
   (forall t, In t (s_ready st) -> (task_size t <= 1024)%nat) /\
   (forall k c t, In (k, (c, t)) (s_blocked st) -> (task_size t + 1 <= 1024)%nat /\ k < s_next_call st) /\
   NoDup (map fst (s_blocked st)) /\
   (forall k c, In (KSGet k c) (n_calls nj) ->
      k < s_next_call st /\ forall c' t, In (k, (c', t)) (s_blocked st) -> c' = c)) /\
  s_panic st = false.
Proof. exact (Net_proofs50.C13_net_server_bounded Sz Hh HSz n ops). Qed.

(* a lookup is released by the completion of its store call *)
Theorem C13_net_lookup_released (Sz : N) (Hh : hash_fn) (HSz : 32 <= Sz) s j k nj m c :
  net_ok Sz Hh s -> get_node s j = Some nj -> nth_error (n_calls nj) (N.to_nat k) = Some (KSGet m c) ->
  exists nj', get_node (fst (nstep Sz Hh s (NStore j k))) j = Some nj' /\
    n_calls nj' = remove_nth (N.to_nat k) (n_calls nj) /\
    ~ In m (map fst (s_blocked (n_server nj'))) /\
    (tasks_n (n_server nj') <= tasks_n (n_server nj))%nat /\
    s_wants (n_server nj') = s_wants (n_server nj) /\ s_waiting (n_server nj') = s_waiting (n_server nj).
Proof. exact (Net_proofs53.C13_net_lookup_released Sz Hh HSz s j k nj m c). Qed.

(* gap scenario, first 13 steps: A (0) is connected to B (1) and C (2), A's want for c1 has been delivered to B twice (the
   initial full wantlist and the update), B's poll started the lookup: one want set with one CID, one waiter registration, one
   parked task with its store call outstanding *)
Definition q_sb_ops : list nop := firstn 13 gap_ops.

Lemma q_sb_ops_good : Forall (nop_good SZ toyH) q_sb_ops /\ Forall (nop_wf SZ) q_sb_ops.
Proof.
  assert (Hg : good SZ toyH (c1, d1)) by (split; [apply c1_wf | vm_compute; reflexivity]).
  split; unfold q_sb_ops, gap_ops; cbn [firstn].
  - repeat (constructor; [first [exact Hg | exact I]|]). constructor.
  - repeat (constructor; [first [apply c1_wf | exact I]|]). constructor.
Qed.

Example C13_net_server_bounded_nonvacuous :
  let s := fst (nrun SZ toyH (net_init 3) q_sb_ops) in
  Forall (nop_good SZ toyH) q_sb_ops /\
  option_map (fun nj => (s_wants (n_server nj), s_waiting (n_server nj))) (get_node s 1) = Some ([(0, [c1])], [(c1, [0])]) /\
  Net.connected s 1 0 = true /\ npeers s 1 = 1%nat /\
  option_map (fun nj => (regs_total (s_waiting (n_server nj)), wants_total (s_wants (n_server nj)), tasks_n (n_server nj)))
    (get_node s 1) = Some (1%nat, 1%nat, 1%nat) /\
  count_dw 1 q_sb_ops = 2%nat /\ count_smsg (sops_run SZ toyH (net_init 3) q_sb_ops 1) = 2%nat /\
  option_map (fun nj => (s_blocked (n_server nj), n_calls nj)) (get_node s 1)
    = Some ([(0, (c1, Server.MkTask 0 [] []))], [KSGet 0 c1]) /\
  (* … and the completion releases it *)
  option_map (fun nj => (s_blocked (n_server nj), n_calls nj, s_ready (n_server nj)))
    (get_node (fst (nstep SZ toyH s (NStore 1 0))) 1) = Some ([], [], [Server.MkTask 0 [(c1, SHit d1)] []]).
Proof.
  cbv zeta. split; [apply q_sb_ops_good|]. split; [vm_compute; reflexivity|]. split; [vm_compute; reflexivity|].
  split; [vm_compute; reflexivity|]. split; [vm_compute; reflexivity|]. split; [vm_compute; reflexivity|].
  split; [vm_compute; reflexivity|]. split; vm_compute; reflexivity.
Qed.

(* ================================================================ 2. server: released *)
Theorem reachable_wires_conn (Sz : N) (Hh : hash_fn) n ops : wires_conn (fst (nrun Sz Hh (net_init n) ops)).
Proof. exact (Net_proofs51.reachable_wires_conn Sz Hh n ops). Qed.

Theorem C13_net_server_released (Sz : N) (Hh : hash_fn) (HSz : 32 <= Sz) n ops :
  Forall (nop_good Sz Hh) ops ->
  let s := fst (nrun Sz Hh (net_init n) ops) in
  forall j p, Net.connected s j p = false ->
  (forall nj, get_node s j = Some nj ->
     alookup N.eqb p (s_wants (n_server nj)) = None /\
     (forall c l, alookup cid_eqb c (s_waiting (n_server nj)) = Some l -> ~ In p l)) /\
  (forall m, In m (wire_b s) -> b_touches j p m = false) /\
  (forall m, In m (wire_w s) -> w_touches j p m = false).
Proof. exact (Net_proofs51.C13_net_server_released Sz Hh HSz n ops). Qed.

Theorem connected_after_disconnect (Sz : N) (Hh : hash_fn) (HSz : 32 <= Sz) n ops1 a b ops2 :
  Forall (nop_good Sz Hh) ops1 ->
  (forall o, In o ops2 -> o <> NConnect a b /\ o <> NConnect b a) ->
  let s := fst (nrun Sz Hh (net_init n) (ops1 ++ NDisconnect a b :: ops2)) in
  Net.connected s a b = false /\ Net.connected s b a = false.
Proof. exact (Net_proofs51.connected_after_disconnect Sz Hh HSz n ops1 a b ops2). Qed.

Theorem C13_net_server_released_after (Sz : N) (Hh : hash_fn) (HSz : 32 <= Sz) n ops1 a b ops2 :
  Forall (nop_good Sz Hh) (ops1 ++ NDisconnect a b :: ops2) ->
  (forall o, In o ops2 -> o <> NConnect a b /\ o <> NConnect b a) ->
  let s := fst (nrun Sz Hh (net_init n) (ops1 ++ NDisconnect a b :: ops2)) in
  (forall na, get_node s a = Some na ->
     alookup N.eqb b (s_wants (n_server na)) = None /\
     (forall c l, alookup cid_eqb c (s_waiting (n_server na)) = Some l -> ~ In b l)) /\
  (forall nb, get_node s b = Some nb ->
     alookup N.eqb a (s_wants (n_server nb)) = None /\
     (forall c l, alookup cid_eqb c (s_waiting (n_server nb)) = Some l -> ~ In a l)) /\
  (forall m, In m (wire_b s) -> b_touches a b m = false) /\
  (forall m, In m (wire_w s) -> w_touches a b m = false).
Proof. exact (Net_proofs51.C13_net_server_released_after Sz Hh HSz n ops1 a b ops2). Qed.

(* no block batch stays queued in a server between two steps at all *)
Theorem reachable_outq_nil (Sz : N) (Hh : hash_fn) (HSz : 32 <= Sz) n ops :
  Forall (nop_good Sz Hh) ops -> forall j nj, get_node (fst (nrun Sz Hh (net_init n) ops)) j = Some nj -> s_outq (n_server nj) = [].
Proof. exact (Net_proofs53.reachable_outq_nil Sz Hh HSz n ops). Qed.

(* FINDING: the lookups started for a peer are NOT released by its disconnect *)
Theorem C13_net_server_released_refuted :
  exists (ops : list nop) (j p : N) (nj : node) (k : N) (c : cid) (t : Server.task),
    Forall (nop_good SZ toyH) ops /\ Forall (nop_wf SZ) ops /\
    (exists ops1, ops = ops1 ++ [NDisconnect p j]) /\
    get_node (fst (nrun SZ toyH (net_init 2) ops)) j = Some nj /\
    Net.connected (fst (nrun SZ toyH (net_init 2) ops)) j p = false /\
    s_wants (n_server nj) = [] /\ s_waiting (n_server nj) = [] /\
    s_blocked (n_server nj) = [(k, (c, t))] /\ Server.t_peer t = p /\ n_calls nj = [KSGet k c] /\
    option_map (fun n => s_ready (n_server n)) (get_node (fst (nrun SZ toyH (net_init 2) (ops ++ [NStore j 0]))) j)
      = Some [Server.MkTask p [(c, SHit d1)] []] /\
    option_map (fun n => (tasks_n (n_server n), s_outq (n_server n))) (get_node (fst (nrun SZ toyH (net_init 2) (ops ++ [NStore j 0; NPoll j]))) j)
      = Some (O, []) /\
    wire_b (fst (nrun SZ toyH (net_init 2) (ops ++ [NStore j 0; NPoll j]))) = [].
Proof. exact Net_proofs51.C13_net_server_released_refuted. Qed.

(* gap scenario: its last step is NDisconnect 0 2; two more polls; C (2) holds nothing about A (0) and vice versa, while both
   held a want set for the other before *)
Example C13_net_server_released_nonvacuous :
  let ops1 := firstn 23 gap_ops in
  let ops2 := [NPoll 0; NPoll 2] in
  let s := fst (nrun SZ toyH (net_init 3) (ops1 ++ NDisconnect 0 2 :: ops2)) in
  gap_ops = ops1 ++ [NDisconnect 0 2] /\
  Forall (nop_good SZ toyH) (ops1 ++ NDisconnect 0 2 :: ops2) /\
  (forall o, In o ops2 -> o <> NConnect 0 2 /\ o <> NConnect 2 0) /\
  option_map (fun n => map fst (s_wants (n_server n))) (get_node (fst (nrun SZ toyH (net_init 3) ops1)) 2) = Some [0] /\
  option_map (fun n => map fst (s_wants (n_server n))) (get_node (fst (nrun SZ toyH (net_init 3) ops1)) 0) = Some [1; 2] /\
  option_map (fun n => map fst (s_wants (n_server n))) (get_node s 2) = Some [] /\
  option_map (fun n => map fst (s_wants (n_server n))) (get_node s 0) = Some [1] /\
  Net.connected s 0 2 = false.
Proof.
  cbv zeta. split; [vm_compute; reflexivity|]. split.
  - assert (Hg : good SZ toyH (c1, d1)) by (split; [apply c1_wf | vm_compute; reflexivity]).
    unfold gap_ops. cbn [firstn app]. repeat (constructor; [first [exact Hg | exact I]|]). constructor.
  - split; [intros o [<-|[<-|[]]]; split; discriminate|].
    split; [vm_compute; reflexivity|]. split; [vm_compute; reflexivity|]. split; [vm_compute; reflexivity|]. split; vm_compute; reflexivity.
Qed.

(* ================================================================ 3. client: bounded *)
Theorem C13_net_client_bounded (Sz : N) (Hh : hash_fn) (HSz : 32 <= Sz) n ops :
  Forall (nop_good Sz Hh) ops ->
  let s := fst (nrun Sz Hh (net_init n) ops) in
  let evs := snd (nrun Sz Hh (net_init n) ops) in
  forall i ni, get_node s i = Some ni ->
  let cl := n_client ni in
  let g := cops_run Sz Hh (net_init n) ops i in
  (NoDup (map fst (cs_peers cl)) /\
   (forall p ps, In (p, ps) (cs_peers cl) -> Net.connected s i p = true /\ p_conns ps = [CONN]) /\
   (forall p, Net.connected s i p = false -> al_find N.eqb p (cs_peers cl) = None) /\
   (length (cs_peers cl) <= npeers s i)%nat) /\
  (forall p ps, al_find N.eqb p (cs_peers cl) = Some ps ->
     NoDup (keys (p_wl ps)) /\
     (forall c, In c (keys (p_wl ps)) -> In c (wl_cids (cs_wl cl)) \/ In c (stale_cids p true g)) /\
     (length (req (p_wl ps)) <= length (cs_c2q cl) + length (stale_cids p true g))%nat) /\
  (NoDup (wl_cids (cs_wl cl)) /\ NoDup (map fst (cs_c2q cl)) /\ NoDup (c2q_qids (cs_c2q cl)) /\
   length (wl_cids (cs_wl cl)) = length (cs_c2q cl) /\
   (forall c, In c (wl_cids (cs_wl cl)) <-> exists qs, In (c, qs) (cs_c2q cl)) /\
   (forall c qs, In (c, qs) (cs_c2q cl) ->
      qs <> [] /\
      forall q, In q qs ->
        q < count_ngets i ops /\ ~ In (i, q) (ev_keys evs) /\
        ~ In q (task_qids (cs_tasks cl)) /\ ~ In q (queue_qids (cs_queue cl)))) /\
  (NoDup (map fst (cs_tasks cl)) /\
   (forall tid t, In (tid, t) (cs_tasks cl) ->
      match t_kind t with
      | TGet q _ => t_aborted t = false /\ In (q, tid) (cs_abort cl) \/ t_aborted t = true /\ In tid (cs_ready cl)
      | TPut bl => bl <> []
      end) /\
   length (cs_tasks cl) =
     (length (cs_abort cl) + length (filter aborted_get (cs_tasks cl)) + length (filter is_put (cs_tasks cl)))%nat /\
   (length (filter aborted_get (cs_tasks cl)) <= length (cs_ready cl))%nat /\
   NoDup (cs_ready cl) /\ incl (cs_ready cl) (map fst (cs_tasks cl)) /\
   NoDup (map fst (cs_abort cl)) /\
   (forall q tid, In (q, tid) (cs_abort cl) ->
      q < count_ngets i ops /\ exists c t, In (tid, t) (cs_tasks cl) /\ t_kind t = TGet q c /\ t_aborted t = false)) /\
  ((forall p c f es, ~ In (EvSend p c f es) (cs_queue cl)) /\
   length (cs_queue cl) = length (queue_qids (cs_queue cl)) /\ NoDup (queue_qids (cs_queue cl)) /\
   (forall q, In q (queue_qids (cs_queue cl)) ->
      q < count_ngets i ops /\ ~ In (i, q) (ev_keys evs) /\
      ~ In q (task_qids (cs_tasks cl)) /\ ~ In q (c2q_qids (cs_c2q cl)))).
Proof. exact (Net_proofs52.C13_net_client_bounded Sz Hh HSz n ops). Qed.

Theorem C13_net_wantlist_only_live (Sz : N) (Hh : hash_fn) n ops i ni c :
  get_node (fst (nrun Sz Hh (net_init n) ops)) i = Some ni ->
  In c (wl_cids (cs_wl (n_client ni))) ->
  exists q qs, In (c, qs) (cs_c2q (n_client ni)) /\ In q qs /\
    q < count_ngets i ops /\ ~ In (i, q) (ev_keys (snd (nrun Sz Hh (net_init n) ops))) /\
    forall ops1 ops2, ops = ops1 ++ NCancel i q :: ops2 -> q < count_ngets i ops1 ->
      exists ni1, get_node (fst (nrun Sz Hh (net_init n) ops1)) i = Some ni1 /\ In q (queue_qids (cs_queue (n_client ni1))).
Proof. exact (Net_proofs52.C13_net_wantlist_only_live Sz Hh n ops i ni c). Qed.

(* gap scenario + polls (package K's k_ops): node 0 tracks peer 1 only (2 was disconnected), query 1 is live for c1 *)
Example C13_net_client_bounded_nonvacuous :
  let s := fst (nrun SZ toyH (net_init 3) k_ops) in
  Forall (nop_good SZ toyH) k_ops /\
  option_map (fun ni => (map fst (cs_peers (n_client ni)), cs_c2q (n_client ni), wl_cids (cs_wl (n_client ni)))) (get_node s 0)
    = Some ([1], [(c1, [1])], [c1]) /\
  npeers s 0 = 1%nat /\ count_ngets 0 k_ops = 2 /\ ev_keys (snd (nrun SZ toyH (net_init 3) k_ops)) = [(0, 0)].
Proof.
  cbv zeta. split; [apply client_receives_nonvacuous|]. split; [vm_compute; reflexivity|]. split; [vm_compute; reflexivity|].
  split; vm_compute; reflexivity.
Qed.

(* ================================================================ 4. queries: released *)
Theorem C13_net_query_cancel_released (Sz : N) (Hh : hash_fn) n ops1 i q ops2 ni :
  q < count_ngets i ops1 ->
  ~ In (i, q) (ev_keys (snd (nrun Sz Hh (net_init n) ops1))) ->
  (forall ni1, get_node (fst (nrun Sz Hh (net_init n) ops1)) i = Some ni1 -> ~ In q (queue_qids (cs_queue (n_client ni1)))) ->
  get_node (fst (nrun Sz Hh (net_init n) (ops1 ++ NCancel i q :: ops2))) i = Some ni ->
  ~ In q (c2q_qids (cs_c2q (n_client ni))) /\ ~ In q (queue_qids (cs_queue (n_client ni))) /\
  ~ In q (map fst (cs_abort (n_client ni))) /\
  (forall tid t c, In (tid, t) (cs_tasks (n_client ni)) -> t_kind t = TGet q c -> t_aborted t = true).
Proof. exact (Net_proofs52.C13_net_query_cancel_released Sz Hh n ops1 i q ops2 ni). Qed.

Theorem C13_net_query_released_all (Sz : N) (Hh : hash_fn) n ops i q ni :
  get_node (fst (nrun Sz Hh (net_init n) ops)) i = Some ni ->
  (In (i, q) (ev_keys (snd (nrun Sz Hh (net_init n) ops))) \/
   exists ops1 ops2, ops = ops1 ++ NCancel i q :: ops2 /\ q < count_ngets i ops1 /\
     forall ni1, get_node (fst (nrun Sz Hh (net_init n) ops1)) i = Some ni1 -> ~ In q (queue_qids (cs_queue (n_client ni1)))) ->
  ~ In q (c2q_qids (cs_c2q (n_client ni))) /\ ~ In q (queue_qids (cs_queue (n_client ni))) /\
  ~ In q (map fst (cs_abort (n_client ni))) /\
  (forall tid t c, In (tid, t) (cs_tasks (n_client ni)) -> t_kind t = TGet q c -> t_aborted t = true).
Proof. exact (Net_proofs52.C13_net_query_released_all Sz Hh n ops i q ni). Qed.

(* stale scenario (Net_props.v): query 0 of node 0 is cancelled (9th step) while it waits for peers; query 1 asks for the same CID *)
Example C13_net_query_released_nonvacuous :
  let ops1 := firstn 8 stale_ops in
  stale_k_ops = ops1 ++ NCancel 0 0 :: skipn 9 stale_k_ops /\
  0 < count_ngets 0 ops1 /\
  ~ In (0, 0) (ev_keys (snd (nrun SZ toyH (net_init 2) ops1))) /\
  option_map (fun ni => (queue_qids (cs_queue (n_client ni)), c2q_qids (cs_c2q (n_client ni)))) (get_node (fst (nrun SZ toyH (net_init 2) ops1)) 0)
    = Some ([], [0]) /\
  option_map (fun ni => c2q_qids (cs_c2q (n_client ni))) (get_node (fst (nrun SZ toyH (net_init 2) (firstn 9 stale_ops))) 0) = Some [] /\
  option_map (fun ni => (c2q_qids (cs_c2q (n_client ni)), cs_abort (n_client ni), task_qids (cs_tasks (n_client ni)))) (get_node (fst (nrun SZ toyH (net_init 2) stale_k_ops)) 0)
    = Some ([], [], []).
Proof.
  cbv zeta. split; [vm_compute; reflexivity|]. split; [vm_compute; reflexivity|]. split; [vm_compute; tauto|].
  split; [vm_compute; reflexivity|]. split; vm_compute; reflexivity.
Qed.

(* ================================================================ 5. totals *)
Theorem C13_net_total_bound (Sz : N) (Hh : hash_fn) (HSz : 32 <= Sz) n ops :
  Forall (nop_good Sz Hh) ops ->
  let s := fst (nrun Sz Hh (net_init n) ops) in
  forall j nj, get_node s j = Some nj ->
  let st := n_server nj in
  s_outq st = [] /\
  (srv_size st <= 2 * 1024 * npeers s j + 1025 * tasks_n st)%nat /\
  (srv_work st <= srv_size st)%nat /\
  (tasks_n st <= count_dw j ops)%nat /\
  (Forall (nop_wf Sz) ops ->
     (forall k c t, In (k, (c, t)) (s_blocked st) -> In (KSGet k c) (n_calls nj)) /\
     (length (s_blocked st) <= length (srv_calls (n_calls nj)))%nat).
Proof. exact (Net_proofs53.C13_net_total_bound Sz Hh HSz n ops). Qed.

(* the server's outstanding store calls are exactly its parked lookups: distinct numbers, one per parked task, same CID *)
Theorem C13_net_server_calls_exact (Sz : N) (Hh : hash_fn) (HSz : 32 <= Sz) n ops :
  Forall (nop_good Sz Hh) ops -> Forall (nop_wf Sz) ops ->
  let s := fst (nrun Sz Hh (net_init n) ops) in
  forall j nj, get_node s j = Some nj ->
  let st := n_server nj in
  NoDup (srv_calls (n_calls nj)) /\
  (forall k, In k (srv_calls (n_calls nj)) <-> In k (map fst (s_blocked st))) /\
  (forall k c, In (KSGet k c) (n_calls nj) <-> exists t, In (k, (c, t)) (s_blocked st)) /\
  length (srv_calls (n_calls nj)) = length (s_blocked st) /\
  (length (srv_calls (n_calls nj)) <= count_dw j ops)%nat.
Proof. exact (Net_proofs54.C13_net_server_calls_exact Sz Hh HSz n ops). Qed.

(* FINDING: the number of lookup tasks is NOT bounded by the connected peers: every delivered wantlist message of a peer spawns
   its own task (server.rs process_incoming_message pushes a future into FuturesUnordered per message), and each parked task has
   its own store call outstanding.  One peer, four one-CID updates (+ the initial full wantlist), receiver not polled meanwhile:
   five tasks; after the receiver's poll four parked tasks with four concurrent store calls *)
Definition q_rnd (k : N) : list nop := [NGet 0 (cid_of [k]); NPoll 0; NStore 0 0; NPoll 0; NDeliverW 0 1].
Definition q_many_ops : list nop := [NConnect 0 1; NPoll 0; NDeliverW 0 1] ++ q_rnd 1 ++ q_rnd 2 ++ q_rnd 3 ++ q_rnd 4.

Example C13_net_tasks_not_per_peer :
  let s := fst (nrun SZ toyH (net_init 2) q_many_ops) in
  let s' := fst (nrun SZ toyH (net_init 2) (q_many_ops ++ [NPoll 1])) in
  Forall (nop_good SZ toyH) q_many_ops /\
  npeers s 1 = 1%nat /\ count_dw 1 q_many_ops = 5%nat /\
  option_map (fun n => (tasks_n (n_server n), wants_total (s_wants (n_server n)))) (get_node s 1) = Some (5%nat, 4%nat) /\
  option_map (fun n => (tasks_n (n_server n), length (s_blocked (n_server n)), srv_calls (n_calls n))) (get_node s' 1)
    = Some (4%nat, 4%nat, [0; 1; 2; 3]).
Proof.
  cbv zeta. split; [unfold q_many_ops, q_rnd; cbn [app]; repeat (constructor; [exact I|]); constructor|].
  split; [vm_compute; reflexivity|]. split; [vm_compute; reflexivity|]. split; vm_compute; reflexivity.
Qed.

Theorem node_work_split n :
  node_work n =
  (length (wl_cids (cs_wl (n_client n))) + length (cs_tasks (n_client n)) + length (cs_queue (n_client n))
   + length (cs_new_blocks (n_client n)) + length (n_calls n) + srv_work (n_server n))%nat.
Proof. exact (Net_proofs53.node_work_split n). Qed.

Theorem C13_net_client_total_partial (Sz : N) (Hh : hash_fn) (HSz : 32 <= Sz) n ops :
  Forall (nop_good Sz Hh) ops ->
  let s := fst (nrun Sz Hh (net_init n) ops) in
  forall i ni, get_node s i = Some ni ->
  let cl := n_client ni in
  let g := cops_run Sz Hh (net_init n) ops i in
  (reqs_total (cs_peers cl) <= npeers s i * length (cs_c2q cl) + stale_total g (cs_peers cl))%nat /\
  (cl_size cl <= (4 + npeers s i) * live_queries cl + stale_total g (cs_peers cl)
                 + 2 * (length (filter aborted_get (cs_tasks cl)) + length (filter is_put (cs_tasks cl))))%nat.
Proof. exact (Net_proofs53.C13_net_client_total_partial Sz Hh HSz n ops). Qed.

Theorem C13_net_client_total_refuted :
  exists (ops : list nop) (i : N) (ni : node),
    Forall (nop_good SZ toyH) ops /\ Forall (nop_wf SZ) ops /\
    get_node (fst (nrun SZ toyH (net_init 2) ops)) i = Some ni /\
    live_queries (n_client ni) = O /\ cs_tasks (n_client ni) = [] /\ wl_cids (cs_wl (n_client ni)) = [] /\
    npeers (fst (nrun SZ toyH (net_init 2) ops)) i = 1%nat /\
    map (fun e => (fst e, keys (p_wl (snd e)))) (cs_peers (n_client ni)) = [(1, [c1])] /\
    cl_size (n_client ni) = 1%nat.
Proof. exact Net_proofs53.C13_net_client_total_refuted. Qed.

Example C13_net_total_bound_nonvacuous :
  let s := fst (nrun SZ toyH (net_init 3) q_sb_ops) in
  Forall (nop_good SZ toyH) q_sb_ops /\ Forall (nop_wf SZ) q_sb_ops /\
  option_map (fun nj => (srv_size (n_server nj), srv_work (n_server nj), tasks_n (n_server nj), srv_calls (n_calls nj))) (get_node s 1)
    = Some (4%nat, 2%nat, 1%nat, [0]) /\
  npeers s 1 = 1%nat /\
  (* and for the client of node 0 after the gap scenario + polls *)
  option_map (fun ni => (cl_size (n_client ni), live_queries (n_client ni))) (get_node (fst (nrun SZ toyH (net_init 3) k_ops)) 0)
    = Some (3%nat, 1%nat).
Proof.
  cbv zeta. split; [apply q_sb_ops_good|]. split; [apply q_sb_ops_good|]. split; [vm_compute; reflexivity|].
  split; vm_compute; reflexivity.
Qed.

Print Assumptions C13_net_server_bounded.
Print Assumptions C13_net_lookup_released.
Print Assumptions reachable_wires_conn.
Print Assumptions C13_net_server_released.
Print Assumptions connected_after_disconnect.
Print Assumptions C13_net_server_released_after.
Print Assumptions reachable_outq_nil.
Print Assumptions C13_net_server_released_refuted.
Print Assumptions C13_net_client_bounded.
Print Assumptions C13_net_wantlist_only_live.
Print Assumptions C13_net_query_cancel_released.
Print Assumptions C13_net_query_released_all.
Print Assumptions C13_net_total_bound.
Print Assumptions C13_net_server_calls_exact.
Print Assumptions node_work_split.
Print Assumptions C13_net_client_total_partial.
Print Assumptions C13_net_client_total_refuted.
