(* Wire_blocks.v — a batch of blocks end to end over the wire (C06 / C01 / C09 / C16 at byte level; companion of Wire.v,
   which does the wantlist direction): the server connection handler of the SENDER (ServerHandler.v over FramedWrite.v,
   with the real size estimate `wire_block_size` and the real encoder `codec_encode`) composed with the inbound stream of
   the RECEIVER (Streams.v: IncomingStream over FramedRead + Codec + process_message).

   1. `process_blocks_message_any` / `process_blocks_message` / `process_wrong_block`: what process_message makes of the
      message a server handler writes for a labelled batch (`Node.blocks_message`), block by block.
   2. `wire_receive_blocks`: the frames of several batches, cut into reads and wake-ups anywhere, then end of stream.
   3. `C06_wire_blocks_delivered` (+ `C06_wire_blocks_exactly_once`): any run of the sender's handler without a dropped
      stream: the bytes accepted so far completed by the handler's buffer hand the receiver's behaviour exactly the blocks of
      the started messages.  `C06_wire_blocks_in_flight`: before the flush the receiver has a beginning of that list;
      `C06_wire_nothing_without_stream`: without a stream nothing was started or written.

   The definitions (first part) are executable; `Wire_blocks_props.v` has the vm_compute examples. *)
From BS Require Import Bytes Varint Varint_proofs Cid Prefix Hasher Proto Incoming Qp ProtoCodec RefProto Frame Framed
                       Codec Frame_proofs Framed_proofs ProtoCodec_proofs RefProto_proofs Codec_proofs
                       Prefix_proofs Incoming_proofs Types FramedWrite Handler_proofs ServerHandler ServerHandler_proofs
                       ServerHandler_wire.
From BS Require Net Wantlist_proofs.
From BS Require Import Streams Streams_proofs.
From Coq Require Import ZArith ZifyBool ZifyN ZifyNat Lia.
Open Scope N_scope.

Notation blocks_message := Node.blocks_message.
Notation erase_block := Server.erase_block.
Notation valid_block := Net.valid_block.

(* ================================================================================================================ *)
(* Definitions (executable)                                                                                         *)
(* ================================================================================================================ *)

Definition lblock := (cid * bytes)%type.         (* a block with its CID label, as the sending behaviour knows it *)

(* the FnvHashMap<CidGeneric<S>, Vec<u8>> `ClientMessage::blocks` built by `insert`ing the pairs of l in order, as the
   association list of Incoming.v: a key that occurs again REPLACES the value at the position of its first occurrence
   (the position is meaningless for a hash map; the harness compares as sets) *)
Definition blocks_map (l : list lblock) : list lblock :=
  fold_left (fun acc b => assoc_insert (fst b) (snd b) acc) l [].

(* what CidPrefix::to_cid makes of the block on the receiving side *)
Definition rekey (Sz : N) (Hh : hash_fn) (b : lblock) : to_cid_result :=
  prefix_to_cid Sz Hh (prefix_of_cid (fst b)) (snd b).

Inductive verdict := VTake (c : cid) | VSkip | VClose | VPanic.

(* incoming_stream.rs:140-160: Ok -> insert; UnknownMultihashCode / Custom -> skip the block; other errors -> close *)
Definition verdict_of (Sz : N) (Hh : hash_fn) (b : lblock) : verdict :=
  match rekey Sz Hh b with
  | TOk c => VTake c
  | TErr UnknownMultihashCode | TErr CustomErr => VSkip
  | TErr _ => VClose
  | TPanic => VPanic
  end.

Inductive stop := StClose | StPanic.

(* the first block of the batch that ends the processing of the whole message *)
Fixpoint batch_stop (Sz : N) (Hh : hash_fn) (bl : list lblock) : option stop :=
  match bl with
  | [] => None
  | b :: r => match verdict_of Sz Hh b with
              | VClose => Some StClose
              | VPanic => Some StPanic
              | _ => batch_stop Sz Hh r
              end
  end.

(* the (recomputed CID, data) pairs that are inserted, in order *)
Definition arrives (Sz : N) (Hh : hash_fn) (bl : list lblock) : list lblock :=
  flat_map (fun b => match verdict_of Sz Hh b with VTake c => [(c, snd b)] | _ => [] end) bl.

(* `client` is only created by the first accepted block *)
Definition client_part (l : list lblock) : option client_msg :=
  match l with [] => None | _ :: _ => Some (MkClientMsg [] (blocks_map l)) end.

Definition batch_outcome (Sz : N) (Hh : hash_fn) (bl : list lblock) : pm_result :=
  match batch_stop Sz Hh bl with
  | Some StClose => PmClose
  | Some StPanic => PmPanic
  | None => PmOk (MkIncoming (client_part (arrives Sz Hh bl)) None)
  end.

(* the IncomingMessages the behaviour is handed for a sequence of honest batches: one per non-empty batch *)
Definition client_msgs (batches : list (list lblock)) : list incoming :=
  flat_map (fun bl => match client_part bl with Some cm => [MkIncoming (Some cm) None] | None => [] end) batches.

(* the blocks an IncomingMessage carries for the client *)
Definition blocks_of (inc : incoming) : list lblock :=
  match in_client inc with Some cm => cm_blocks cm | None => [] end.

(* cut l into consecutive pieces of the lengths of the lists of `shape` *)
Fixpoint cut_like {A B} (shape : list (list A)) (l : list B) : list (list B) :=
  match shape with
  | [] => []
  | s :: r => firstn (length s) l :: cut_like r (skipn (length s) l)
  end.

(* map semantics of the association lists *)
Fixpoint assoc_get (c : cid) (l : list lblock) : option bytes :=
  match l with
  | [] => None
  | (k, v) :: r => if cid_eqb k c then Some v else assoc_get c r
  end.

(* the data of the LAST pair of l with key c *)
Fixpoint last_data (c : cid) (l : list lblock) : option bytes :=
  match l with
  | [] => None
  | (k, v) :: r => match last_data c r with
                   | Some d => Some d
                   | None => if cid_eqb k c then Some v else None
                   end
  end.

Definition cid_mem (c : cid) (l : list cid) : bool := existsb (fun k => cid_eqb k c) l.

(* the distinct keys in the order of their first occurrence *)
Definition first_keys (ks : list cid) : list cid :=
  fold_left (fun acc k => if cid_mem k acc then acc else acc ++ [k]) ks [].

(* the sender's behaviour queued honest blocks: the label is a possible CidGeneric<S> and the data hashes to it *)
Definition honest (Sz : N) (Hh : hash_fn) (b : lblock) : Prop :=
  wf_cid Sz (fst b) /\ valid_block Sz Hh (fst b) (snd b) = true.

(* a batch that one frame can carry: data are bytes, and the protobuf body is within MAX_MESSAGE_SIZE *)
Definition fits_frame (bl : list lblock) : Prop :=
  Forall (fun b => wf_bytes (snd b)) bl /\ size_ok write_message (blocks_message bl).

(* ================================================================================================================ *)
(* 0. Small facts                                                                                                   *)
(* ================================================================================================================ *)

Definition mkblock (b : lblock) : block := MkBlock (fst (erase_block b)) (snd (erase_block b)).

Lemma blocks_message_payload bl : blocks_message bl = payload_message (map erase_block bl).
Proof.
  unfold Node.blocks_message, payload_message. rewrite map_map. reflexivity.
Qed.

Lemma blocks_message_mkblock bl : blocks_message bl = MkMessage None (map mkblock bl) [] 0.
Proof. reflexivity. Qed.

Lemma cid_eqb_true a b : cid_eqb a b = true <-> a = b.
Proof. apply Wantlist_proofs.cid_eqb_spec. Qed.

Lemma cid_eqb_false a b : cid_eqb a b = false <-> a <> b.
Proof.
  split.
  - intros E H. apply cid_eqb_true in H. congruence.
  - intros H. destruct (cid_eqb a b) eqn:E; [|reflexivity]. apply cid_eqb_true in E. contradiction.
Qed.

Lemma cid_mem_in c l : cid_mem c l = true <-> In c l.
Proof.
  unfold cid_mem. rewrite existsb_exists. split.
  - intros (k & Hk & E). apply cid_eqb_true in E. subst. exact Hk.
  - intros H. exists c. split; [exact H|]. apply cid_eqb_true. reflexivity.
Qed.

Lemma valid_block_rekey Sz Hh c d : valid_block Sz Hh c d = true <-> rekey Sz Hh (c, d) = TOk c.
Proof.
  unfold Net.valid_block, rekey; cbn [fst snd]. split.
  - destruct (prefix_to_cid Sz Hh (prefix_of_cid c) d) as [c'| |]; try discriminate.
    intros E. apply cid_eqb_true in E. subst. reflexivity.
  - intros ->. apply cid_eqb_true. reflexivity.
Qed.

Lemma honest_verdict Sz Hh b : honest Sz Hh b -> verdict_of Sz Hh b = VTake (fst b).
Proof.
  destruct b as [c d]. intros [_ V]. cbn [fst snd] in V. unfold verdict_of. apply valid_block_rekey in V.
  rewrite V. reflexivity.
Qed.

(* ================================================================================================================ *)
(* 1. process_message on the message of a batch                                                                     *)
(* ================================================================================================================ *)

Section Process.
  Variables (Sz : N) (Hh : hash_fn).

  (* the prefix bytes the sender writes parse back to the prefix of the label: the receiver classifies the block by
     what CidPrefix::to_cid makes of (prefix of label, data) *)
  Lemma classify_mkblock b :
    wf_cid Sz (fst b) ->
    classify Sz Hh (mkblock b)
    = match verdict_of Sz Hh b with VTake c => BAccept c | VSkip => BSkip | VClose => BFatal | VPanic => BPanic end.
  Proof.
    intros Hwf. unfold classify, mkblock, Server.erase_block, verdict_of, rekey; cbn [b_prefix b_data fst snd].
    rewrite prefix_roundtrip by (eapply wf_prefix_of_cid; eassumption).
    destruct (prefix_to_cid Sz Hh (prefix_of_cid (fst b)) (snd b)) as [c|[]|]; reflexivity.
  Qed.

  Definition ins_all (l acc : list lblock) : list lblock :=
    fold_left (fun a b => assoc_insert (fst b) (snd b) a) l acc.

  Lemma ins_all_app l1 l2 acc : ins_all (l1 ++ l2) acc = ins_all l2 (ins_all l1 acc).
  Proof. apply fold_left_app. Qed.

  Lemma pm_payload_batch bl : forall acc touched,
    Forall (fun b => wf_cid Sz (fst b)) bl ->
    pm_payload Sz Hh (map mkblock bl) acc touched
    = match batch_stop Sz Hh bl with
      | Some StClose => inl None
      | Some StPanic => inr tt
      | None => inl (Some (ins_all (arrives Sz Hh bl) acc,
                           touched || negb (match arrives Sz Hh bl with [] => true | _ => false end)))
      end.
  Proof.
    induction bl as [|b bl IH]; intros acc touched Hwf; cbn [map].
    - cbn. rewrite orb_false_r. reflexivity.
    - inversion Hwf as [|? ? Hb Hbl]; subst. rewrite pm_payload_step, (classify_mkblock b Hb).
      cbn [batch_stop]. unfold arrives. cbn [flat_map]. fold (arrives Sz Hh bl).
      destruct (verdict_of Sz Hh b) as [c| | |]; try reflexivity.
      + rewrite IH by assumption. destruct (batch_stop Sz Hh bl) as [[|]|]; try reflexivity.
        cbn [app ins_all fold_left fst snd mkblock b_data Server.erase_block]. rewrite orb_true_r. reflexivity.
      + rewrite IH by assumption. reflexivity.
  Qed.

  (* any batch of blocks with possible CIDs as labels, honest or not: the first block whose recomputation fails fatally
     closes the stream (or panics); otherwise the blocks whose hash code the table knows are inserted under the
     RECOMPUTED CID, the others are skipped, and a message none of whose blocks was accepted has no client part *)
  Theorem process_blocks_message_any bl :
    Forall (fun b => wf_cid Sz (fst b)) bl ->
    process_message Sz Hh (blocks_message bl) = batch_outcome Sz Hh bl.
  Proof.
    intros Hwf. unfold process_message, batch_outcome. rewrite blocks_message_mkblock.
    cbn [m_presences m_payload m_wantlist pm_presences].
    rewrite (pm_payload_batch bl [] false Hwf). destruct (batch_stop Sz Hh bl) as [[|]|]; try reflexivity.
    cbn [orb]. unfold client_part, blocks_map, ins_all. destruct (arrives Sz Hh bl); reflexivity.
  Qed.

  Lemma honest_batch bl :
    Forall (honest Sz Hh) bl -> batch_stop Sz Hh bl = None /\ arrives Sz Hh bl = bl.
  Proof.
    induction bl as [|b bl IH]; intros Hh'; [split; reflexivity|].
    inversion Hh' as [|? ? Hb Hbl]; subst. destruct (IH Hbl) as [I1 I2].
    unfold arrives in *. cbn [batch_stop flat_map]. rewrite (honest_verdict Sz Hh b Hb), I1, I2.
    destruct b; split; reflexivity.
  Qed.

  (* THEOREM 1.  A batch of honest blocks: the behaviour gets exactly the batch, keyed by the labels; nothing for the
     empty batch (`forwarded` is false of it: process_blocks_message_forwarded) *)
  Theorem process_blocks_message bl :
    Forall (honest Sz Hh) bl ->
    process_message Sz Hh (blocks_message bl) = PmOk (MkIncoming (client_part bl) None).
  Proof.
    intros Hg. rewrite process_blocks_message_any.
    - unfold batch_outcome. destruct (honest_batch bl Hg) as [-> ->]. reflexivity.
    - eapply Forall_impl; [|exact Hg]. intros b [Hwf _]. exact Hwf.
  Qed.

  Corollary process_blocks_message_nonempty bl :
    Forall (honest Sz Hh) bl -> bl <> [] ->
    process_message Sz Hh (blocks_message bl) = PmOk (MkIncoming (Some (MkClientMsg [] (blocks_map bl))) None).
  Proof. intros Hg Hne. rewrite (process_blocks_message bl Hg). destruct bl; [contradiction|reflexivity]. Qed.

  Corollary process_blocks_message_forwarded bl inc :
    Forall (honest Sz Hh) bl -> process_message Sz Hh (blocks_message bl) = PmOk inc ->
    forwarded inc = negb (match bl with [] => true | _ => false end).
  Proof. intros Hg. rewrite (process_blocks_message bl Hg). intros [= <-]. destruct bl; reflexivity. Qed.

  (* CONVERSELY: one block whose label is a possible CID, whatever its data *)
  Theorem process_one_block c d :
    wf_cid Sz c ->
    process_message Sz Hh (blocks_message [(c, d)])
    = match prefix_to_cid Sz Hh (prefix_of_cid c) d with
      | TOk c' => PmOk (MkIncoming (Some (MkClientMsg [] [(c', d)])) None)
      | TErr UnknownMultihashCode | TErr CustomErr => PmOk (MkIncoming None None)
      | TErr _ => PmClose
      | TPanic => PmPanic
      end.
  Proof.
    intros Hwf. rewrite process_blocks_message_any by (constructor; [exact Hwf|constructor]).
    unfold batch_outcome, arrives. cbn [batch_stop flat_map]. unfold verdict_of, rekey. cbn [fst snd].
    destruct (prefix_to_cid Sz Hh (prefix_of_cid c) d) as [c'|[]|]; reflexivity.
  Qed.

  (* ... so a block whose data does NOT hash to its label never arrives under that label: it is inserted under a
     different CID (which the client, looking wanted CIDs up by key, does not take for c), or skipped, or it ends the
     stream *)
  Theorem process_wrong_block c d :
    wf_cid Sz c -> valid_block Sz Hh c d = false ->
    (exists c', c' <> c /\ prefix_to_cid Sz Hh (prefix_of_cid c) d = TOk c' /\
                process_message Sz Hh (blocks_message [(c, d)]) = PmOk (MkIncoming (Some (MkClientMsg [] [(c', d)])) None))
    \/ process_message Sz Hh (blocks_message [(c, d)]) = PmOk (MkIncoming None None)
    \/ process_message Sz Hh (blocks_message [(c, d)]) = PmClose
    \/ process_message Sz Hh (blocks_message [(c, d)]) = PmPanic.
  Proof.
    intros Hwf Hbad. rewrite (process_one_block c d Hwf). unfold Net.valid_block in Hbad.
    destruct (prefix_to_cid Sz Hh (prefix_of_cid c) d) as [c'|e|].
    - left. exists c'. split; [apply cid_eqb_false; exact Hbad|]. split; reflexivity.
    - destruct e; auto.
    - auto.
  Qed.

  (* with a table that answers sha2-256 requests with sha2-256 multihashes the panic is excluded *)
  Lemma wf_cid_no_panic c d : wf_cid Sz c -> sha_respecting Hh -> prefix_to_cid Sz Hh (prefix_of_cid c) d <> TPanic.
  Proof.
    intros Hwf Hsha. apply (parsed_prefix_no_panic Sz Hh (prefix_to_bytes (prefix_of_cid c))); [exact Hsha|].
    apply prefix_roundtrip. eapply wf_prefix_of_cid; eassumption.
  Qed.

  (* in a batch: whatever is inserted under key c' with data d' was SENT as some (c0, d') whose prefix and data
     recompute to c' (`process_blocks_rebuilt` read through the sender's encoding); in particular a block that arrives
     under its own label is honest *)
  Theorem process_blocks_keyed_by_hash bl inc cm c' d' :
    Forall (fun b => wf_cid Sz (fst b)) bl ->
    process_message Sz Hh (blocks_message bl) = PmOk inc -> in_client inc = Some cm -> In (c', d') (cm_blocks cm) ->
    exists c0, In (c0, d') bl /\ prefix_to_cid Sz Hh (prefix_of_cid c0) d' = TOk c' /\
               (c0 = c' -> honest Sz Hh (c0, d')).
  Proof.
    intros Hwf Hp Hc Hin.
    destruct (process_blocks_rebuilt Sz Hh _ _ _ _ _ Hp Hc Hin) as (b & p & Hb & Hd & Hpf & Hok).
    rewrite blocks_message_mkblock in Hb. cbn [m_payload] in Hb. apply in_map_iff in Hb.
    destruct Hb as ([c0 d0] & <- & Hb0). cbn [mkblock Server.erase_block fst snd b_data b_prefix] in *. subst d0.
    rewrite Forall_forall in Hwf. pose proof (Hwf _ Hb0) as Hwf0. cbn [fst] in Hwf0.
    rewrite prefix_roundtrip in Hpf by (eapply wf_prefix_of_cid; eassumption). injection Hpf as <-.
    exists c0. split; [exact Hb0|]. split; [exact Hok|].
    intros ->. split; [exact Hwf0|]. cbn [fst snd]. apply valid_block_rekey. exact Hok.
  Qed.
End Process.

(* ---------------------------------------------------------------------------------------------------------------- *)
(* what `blocks_map` is: precisely what happens to a CID that occurs twice                                          *)
(* ---------------------------------------------------------------------------------------------------------------- *)

Lemma blocks_map_snoc l b : blocks_map (l ++ [b]) = assoc_insert (fst b) (snd b) (blocks_map l).
Proof. unfold blocks_map. rewrite fold_left_app. reflexivity. Qed.

Lemma assoc_insert_fresh (k : cid) (v : bytes) l : ~ In k (map fst l) -> assoc_insert k v l = l ++ [(k, v)].
Proof.
  induction l as [|[k0 v0] l IH]; intros Hn; cbn [assoc_insert app]; [reflexivity|].
  cbn [map fst In] in Hn. destruct (cid_eqb k0 k) eqn:E.
  - apply cid_eqb_true in E. tauto.
  - rewrite IH by tauto. reflexivity.
Qed.

Lemma assoc_insert_fst (k : cid) (v : bytes) l :
  map fst (assoc_insert k v l) = if cid_mem k (map fst l) then map fst l else map fst l ++ [k].
Proof.
  induction l as [|[k0 v0] l IH]; cbn [assoc_insert map fst]; [reflexivity|].
  unfold cid_mem in *. cbn [existsb]. destruct (cid_eqb k0 k) eqn:E; cbn [orb map fst].
  - apply cid_eqb_true in E. subst. reflexivity.
  - rewrite IH. destruct (existsb (fun k1 => cid_eqb k1 k) (map fst l)); reflexivity.
Qed.

Lemma assoc_get_insert (k : cid) (v : bytes) l c :
  assoc_get c (assoc_insert k v l) = if cid_eqb k c then Some v else assoc_get c l.
Proof.
  induction l as [|[k0 v0] l IH]; cbn [assoc_insert assoc_get]; [reflexivity|].
  destruct (cid_eqb k0 k) eqn:E; cbn [assoc_get].
  - apply cid_eqb_true in E. subst k0. destruct (cid_eqb k c); reflexivity.
  - destruct (cid_eqb k0 c) eqn:E0.
    + destruct (cid_eqb k c) eqn:E1; [|reflexivity].
      apply cid_eqb_true in E0, E1. subst. apply cid_eqb_false in E. contradiction.
    + exact IH.
Qed.

Lemma last_data_snoc c l k v : last_data c (l ++ [(k, v)]) = if cid_eqb k c then Some v else last_data c l.
Proof.
  induction l as [|[k0 v0] l IH]; cbn [app last_data].
  - destruct (cid_eqb k c); reflexivity.
  - rewrite IH. destruct (cid_eqb k c); reflexivity.
Qed.

(* (i) the keys are the distinct CIDs in the order of their first occurrence *)
Theorem blocks_map_keys l : map fst (blocks_map l) = first_keys (map fst l).
Proof.
  induction l as [|b l IH] using rev_ind; [reflexivity|].
  rewrite blocks_map_snoc, assoc_insert_fst, IH, map_app. unfold first_keys. rewrite fold_left_app. reflexivity.
Qed.

(* (ii) no key twice *)
Theorem blocks_map_nodup l : NoDup (map fst (blocks_map l)).
Proof.
  induction l as [|b l IH] using rev_ind; [constructor|].
  rewrite blocks_map_snoc, assoc_insert_fst. destruct (cid_mem (fst b) (map fst (blocks_map l))) eqn:E; [exact IH|].
  assert (Hn : ~ In (fst b) (map fst (blocks_map l))).
  { intros H. apply cid_mem_in in H. congruence. }
  clear E. revert IH Hn. generalize (map fst (blocks_map l)) as ks. intros ks. induction ks as [|k ks IHk]; intros ND Hn.
  - constructor; [intros []|constructor].
  - inversion ND as [|? ? Hk ND']; subst. cbn [app]. constructor.
    + rewrite in_app_iff. intros [H|[H|[]]]; [contradiction|]. apply Hn. left. symmetry. exact H.
    + apply IHk; [exact ND'|]. intros H. apply Hn. right. exact H.
Qed.

(* (iii) the value of a key is the data of its LAST occurrence: later replaces earlier *)
Theorem blocks_map_get l c : assoc_get c (blocks_map l) = last_data c l.
Proof.
  induction l as [|[k v] l IH] using rev_ind; [reflexivity|].
  rewrite blocks_map_snoc, assoc_get_insert, last_data_snoc, IH. reflexivity.
Qed.

Lemma NoDup_app_l {A} (a b : list A) : NoDup (a ++ b) -> NoDup a.
Proof.
  induction a as [|x a IH]; intros H; [constructor|]. cbn [app] in H. inversion H as [|? ? Hx Ha]; subst.
  constructor; [|apply IH; exact Ha]. intros Hin. apply Hx. apply in_or_app. left. exact Hin.
Qed.

Lemma NoDup_app_r {A} (a b : list A) : NoDup (a ++ b) -> NoDup b.
Proof.
  induction a as [|x a IH]; intros H; [exact H|]. cbn [app] in H. inversion H as [|? ? Hx Ha]; subst. apply IH. exact Ha.
Qed.

(* (iv) a batch in which no CID occurs twice is its own map *)
Theorem blocks_map_id l : NoDup (map fst l) -> blocks_map l = l.
Proof.
  induction l as [|b l IH] using rev_ind; intros ND; [reflexivity|].
  rewrite map_app in ND. rewrite blocks_map_snoc, IH by (eapply NoDup_app_l; exact ND).
  rewrite assoc_insert_fresh; [destruct b; reflexivity|].
  intros H. cbn [map] in ND. apply NoDup_remove_2 in ND. rewrite app_nil_r in ND. contradiction.
Qed.

(* ================================================================================================================ *)
(* 2. the receiver: frames of several batches, cut anywhere                                                         *)
(* ================================================================================================================ *)

Lemma wf_prefix_bytes p : wf_bytes (prefix_to_bytes p).
Proof.
  unfold prefix_to_bytes, uv_encode. destruct (p_ver p); repeat (apply wf_bytes_app; split); apply uv_enc_wf.
Qed.

Lemma total_ge_each (bs : list blk) b : In b bs -> wire_block_size b <= total wire_block_size bs.
Proof.
  induction bs as [|x bs IH]; intros H; [destruct H|]. cbn [total]. destruct H as [->|H]; [lia|]. specialize (IH H). lia.
Qed.

Lemma fits_frame_wf bl : fits_frame bl -> wf_message (blocks_message bl) /\ size_ok write_message (blocks_message bl).
Proof.
  intros [Hd Hs]. split; [|exact Hs]. rewrite blocks_message_payload in *.
  unfold size_ok in Hs. rewrite body_len_payload_message in Hs. change max_message_size with MAX_MESSAGE_SIZE in Hs.
  apply wf_payload_message.
  - rewrite Forall_forall in *. intros b Hb. apply in_map_iff in Hb. destruct Hb as (x & <- & Hx).
    split; cbn [Server.erase_block fst snd]; [apply wf_prefix_bytes|apply Hd; exact Hx].
  - rewrite Forall_forall. intros b Hb. pose proof (total_ge_each _ _ Hb). lia.
  - unfold MAX_MESSAGE_SIZE in Hs. unfold two64. change (2 ^ 64) with 18446744073709551616. lia.
Qed.

Lemma deliver_batches Sz Hh batches :
  Forall (Forall (honest Sz Hh)) batches ->
  deliver (process_message Sz Hh) (map Node.blocks_message batches) FEnd = (client_msgs batches, SfEnd).
Proof.
  induction batches as [|bl batches IH]; intros Hg; [reflexivity|].
  inversion Hg as [|? ? Hb Hbs]; subst. cbn [map deliver]. rewrite (process_blocks_message Sz Hh bl Hb), (IH Hbs).
  unfold client_msgs. cbn [flat_map]. unfold forwarded. cbn [in_client in_server].
  destruct (client_part bl); reflexivity.
Qed.

(* THEOREM 2.  Receiver side alone: the frames of honest batches, each fitting a frame, cut into reads and wake-ups
   anywhere, then the end of the stream: the behaviour is handed one IncomingMessage per non-empty batch, in order,
   carrying exactly that batch (as a map), and the stream ends cleanly *)
Theorem wire_receive_blocks Sz Hh chk (batches : list (list lblock)) evs :
  Forall (Forall (honest Sz Hh)) batches -> Forall fits_frame batches ->
  live evs -> ev_data evs = concat (map (fun bl => codec_encode (blocks_message bl)) batches) ->
  stream_out Sz Hh chk (evs ++ [Eof]) = (client_msgs batches, SfEnd).
Proof.
  intros Hg Hf LV DATA.
  rewrite (C10_stream_out_chunking Sz Hh chk (map Node.blocks_message batches) evs).
  - apply deliver_batches. exact Hg.
  - rewrite Forall_forall in *. intros m Hm. apply in_map_iff in Hm. destruct Hm as (bl & <- & Hbl).
    apply fits_frame_wf, Hf, Hbl.
  - rewrite Forall_forall in *. intros m Hm. apply in_map_iff in Hm. destruct Hm as (bl & <- & Hbl).
    apply fits_frame_wf, Hf, Hbl.
  - exact LV.
  - rewrite map_map. exact DATA.
Qed.

(* the same in terms of the server handler's own payloads *)
Corollary wire_receive_payloads Sz Hh chk (batches : list (list lblock)) evs :
  Forall (Forall (honest Sz Hh)) batches -> Forall fits_frame batches ->
  live evs -> ev_data evs = concat (map (fun bl => codec_encode (payload_message (map erase_block bl))) batches) ->
  stream_out Sz Hh chk (evs ++ [Eof]) = (client_msgs batches, SfEnd).
Proof.
  intros Hg Hf LV DATA. apply wire_receive_blocks; try assumption.
  rewrite DATA. f_equal. apply map_ext. intros bl. rewrite blocks_message_payload. reflexivity.
Qed.

(* what the behaviour receives in all, when no CID occurs twice in one batch: the blocks, once each, in order *)
Lemma blocks_of_client_msgs batches :
  Forall (fun bl => NoDup (map fst bl)) batches -> flat_map blocks_of (client_msgs batches) = concat batches.
Proof.
  induction batches as [|bl batches IH]; intros ND; [reflexivity|].
  inversion ND as [|? ? Hb Hbs]; subst. unfold client_msgs in *. cbn [flat_map concat].
  rewrite flat_map_app, (IH Hbs). f_equal. destruct bl as [|b bl]; [reflexivity|].
  cbn [client_part flat_map blocks_of in_client cm_blocks]. rewrite app_nil_r. apply blocks_map_id. exact Hb.
Qed.

(* ================================================================================================================ *)
(* 3. sender + receiver                                                                                             *)
(* ================================================================================================================ *)

Lemma firstn_add {A} (a b : nat) (l : list A) : firstn (a + b) l = firstn a l ++ firstn b (skipn a l).
Proof.
  revert l. induction a as [|a IH]; intros l; [reflexivity|]. destruct l as [|x l]; cbn [Nat.add firstn skipn app].
  - destruct b; reflexivity.
  - rewrite IH. reflexivity.
Qed.

Lemma skipn_add {A} (a b : nat) (l : list A) : skipn (a + b) l = skipn b (skipn a l).
Proof.
  revert l. induction a as [|a IH]; intros l; [reflexivity|]. destruct l as [|x l]; cbn [Nat.add skipn].
  - destruct b; reflexivity.
  - apply IH.
Qed.

(* cutting the labelled queue like the started payloads gives the labelled payloads *)
Lemma cut_like_spec {A B} (f : B -> A) (shape : list (list A)) : forall (pend : list A) (l : list B),
  concat shape ++ pend = map f l ->
  map (map f) (cut_like shape l) = shape
  /\ concat (cut_like shape l) = firstn (length (concat shape)) l
  /\ map f (skipn (length (concat shape)) l) = pend.
Proof.
  induction shape as [|s r IH]; intros pend l E; cbn [cut_like concat map length] in *.
  - cbn [firstn skipn]. auto.
  - rewrite <- app_assoc in E.
    assert (E1 : map f (firstn (length s) l) = s).
    { rewrite <- firstn_map, <- E, firstn_app, Nat.sub_diag, firstn_all. cbn [firstn]. apply app_nil_r. }
    assert (E2 : concat r ++ pend = map f (skipn (length s) l)).
    { rewrite <- skipn_map, <- E, skipn_app, Nat.sub_diag, skipn_all. reflexivity. }
    destruct (IH pend (skipn (length s) l) E2) as (I1 & I2 & I3).
    split; [rewrite E1, I1; reflexivity|]. split.
    + rewrite I2, app_length, firstn_add. reflexivity.
    + rewrite app_length, <- I3, skipn_add. reflexivity.
Qed.

Lemma cut_like_sub {A B} (shape : list (list A)) : forall (l : list B) x y,
  In x (cut_like shape l) -> In y x -> In y l.
Proof.
  induction shape as [|s r IH]; intros l x y Hx Hy; cbn [cut_like] in Hx; [destruct Hx|].
  destruct Hx as [<-|Hx].
  - rewrite <- (firstn_skipn (length s) l). apply in_or_app. left. exact Hy.
  - rewrite <- (firstn_skipn (length s) l). apply in_or_app. right. eapply IH; eassumption.
Qed.

Lemma NoDup_firstn {A} n (l : list A) : NoDup l -> NoDup (firstn n l).
Proof. intros H. rewrite <- (firstn_skipn n l) in H. eapply NoDup_app_l. exact H. Qed.

Lemma NoDup_skipn {A} n (l : list A) : NoDup l -> NoDup (skipn n l).
Proof. intros H. rewrite <- (firstn_skipn n l) in H. eapply NoDup_app_r. exact H. Qed.

Lemma cut_like_nodup {A} (shape : list (list A)) : forall (l : list lblock),
  NoDup (map fst l) -> Forall (fun bl => NoDup (map fst bl)) (cut_like shape l).
Proof.
  induction shape as [|s r IH]; intros l ND; cbn [cut_like]; constructor.
  - rewrite <- firstn_map. apply NoDup_firstn. exact ND.
  - apply IH. rewrite <- skipn_map. apply NoDup_skipn. exact ND.
Qed.

Lemma ev_data_app evs1 evs2 : ev_data (evs1 ++ evs2) = ev_data evs1 ++ ev_data evs2.
Proof.
  induction evs1 as [|e evs1 IH]; cbn [app ev_data]; [reflexivity|]. destruct e; rewrite IH, ?app_assoc; reflexivity.
Qed.

Section EndToEnd.
  Variables (Sz : N) (Hh : hash_fn) (chk : bool).

  (* what the sender's behaviour queued on the handler over the whole run, with the CID labels it knows: the handler
     sees `map erase_block ql`; every block is honest, its data are bytes, and it fits the limit on its own *)
  Definition queue_ok (ops : list shop) (ql : list lblock) : Prop :=
    queued_of ops = map erase_block ql
    /\ Forall (honest Sz Hh) ql
    /\ Forall (fun b => wf_bytes (snd b)) ql
    /\ Forall (fun b => wire_block_size (erase_block b) <= MAX_MESSAGE_SIZE) ql.

  (* the labelled batches of the messages the handler started *)
  Definition started_batches (ops : list shop) (ql : list lblock) : list (list lblock) :=
    cut_like (map snd (sh_started (server_handler_final codec_encode wire_block_size ops))) ql.

  (* THEOREM 3.  For ANY op list of the server handler over the real codec and the real size estimate in which no
     stream was dropped and that currently has a stream (number id, FramedWrite buffer buf): the bytes the stream accepted
     so far completed by the buffer, however the receiver's reads cut them and wherever its task is woken, then the end
     of the stream, hand the receiver's behaviour exactly one IncomingMessage per started message, in order, carrying
     that message's blocks under their own CIDs, and the stream ends cleanly.  The started messages are consecutive
     pieces of the queue (nothing lost, duplicated or reordered); what follows them in the queue is still pending. *)
  Theorem C06_wire_blocks_delivered (ops : list shop) (ql : list lblock) id buf :
    let st := server_handler_final codec_encode wire_block_size ops in
    let outs := server_handler_outs codec_encode wire_block_size ops in
    queue_ok ops ql -> no_drop outs -> sh_sink st = SvReady id buf ->
    let sb := started_batches ops ql in
    let n := length (concat (map snd (sh_started st))) in
    map (map erase_block) sb = map snd (sh_started st)
    /\ concat sb = firstn n ql
    /\ map erase_block (skipn n ql) = pending_list st
    /\ forall evs, live evs -> ev_data evs = swrote_on id outs ++ buf ->
         stream_out Sz Hh chk (evs ++ [Eof]) = (client_msgs sb, SfEnd).
  Proof.
    intros st outs (HQ & HG & HD & HS) ND SK sb n.
    destruct (C09_outbound_split codec_encode wire_block_size ops) as (C1 & C2 & _ & C4).
    fold st in C1, C2, C4. fold outs in C4.
    assert (SZ : forall b, In b (queued_of ops) -> wire_block_size b <= MAX_MESSAGE_SIZE).
    { intros b Hb. rewrite HQ in Hb. apply in_map_iff in Hb. destruct Hb as (x & <- & Hx).
      rewrite Forall_forall in HS. apply HS. exact Hx. }
    specialize (C1 SZ). specialize (C4 ND id buf SK). rewrite HQ in C2.
    destruct (cut_like_spec erase_block (map snd (sh_started st)) (pending_list st) ql C2) as (S1 & S2 & S3).
    fold sb in S1, S2. fold n in S2, S3.
    split; [exact S1|]. split; [exact S2|]. split; [exact S3|].
    intros evs LV DATA.
    assert (SUB : forall bl b, In bl sb -> In b bl -> In b ql).
    { intros bl b Hbl Hb. eapply cut_like_sub; eassumption. }
    apply wire_receive_payloads.
    - rewrite Forall_forall. intros bl Hbl. rewrite Forall_forall. intros b Hb.
      rewrite Forall_forall in HG. apply HG. eapply SUB; eassumption.
    - rewrite Forall_forall. intros bl Hbl. split.
      + rewrite Forall_forall. intros b Hb. rewrite Forall_forall in HD. apply HD. eapply SUB; eassumption.
      + unfold size_ok. rewrite blocks_message_payload, body_len_payload_message.
        change max_message_size with MAX_MESSAGE_SIZE.
        assert (Hin : In (map erase_block bl) (map snd (sh_started st))).
        { rewrite <- S1. apply in_map. exact Hbl. }
        apply in_map_iff in Hin. destruct Hin as (p & Ep & Hp). rewrite Forall_forall in C1.
        specialize (C1 p Hp). cbn beta in C1. rewrite Ep in C1. exact C1.
    - exact LV.
    - rewrite DATA, C4, <- (map_map snd (fun now => codec_encode (payload_message now))), <- S1, map_map. reflexivity.
  Qed.

  (* ... and when no CID was queued twice, block by block: every queued block that was started arrives exactly once,
     in queue order, under its own CID with its own data, and nothing else arrives *)
  Theorem C06_wire_blocks_exactly_once (ops : list shop) (ql : list lblock) id buf :
    let st := server_handler_final codec_encode wire_block_size ops in
    let outs := server_handler_outs codec_encode wire_block_size ops in
    queue_ok ops ql -> no_drop outs -> sh_sink st = SvReady id buf -> NoDup (map fst ql) ->
    forall evs, live evs -> ev_data evs = swrote_on id outs ++ buf ->
      snd (stream_out Sz Hh chk (evs ++ [Eof])) = SfEnd
      /\ flat_map blocks_of (fst (stream_out Sz Hh chk (evs ++ [Eof])))
         = firstn (length (concat (map snd (sh_started st)))) ql.
  Proof.
    intros st outs QK ND SK NDQ evs LV DATA.
    destruct (C06_wire_blocks_delivered ops ql id buf QK ND SK) as (_ & S2 & _ & W).
    fold st in S2. rewrite (W evs LV DATA). cbn [fst snd]. split; [reflexivity|].
    rewrite blocks_of_client_msgs; [exact S2|]. apply cut_like_nodup. exact NDQ.
  Qed.

  (* before the flush: whatever the receiver has read of the bytes accepted so far (or of any beginning of the completed
     bytes), it has been handed a beginning of that same list of messages: nothing else, nothing early, nothing out of
     order; the stream is simply still open *)
  Theorem C06_wire_blocks_in_flight (ops : list shop) (ql : list lblock) id buf :
    let st := server_handler_final codec_encode wire_block_size ops in
    let outs := server_handler_outs codec_encode wire_block_size ops in
    queue_ok ops ql -> no_drop outs -> sh_sink st = SvReady id buf ->
    (forall evs1 evs2, live (evs1 ++ evs2) -> ev_data (evs1 ++ evs2) = swrote_on id outs ++ buf ->
       is_prefix (fst (stream_out Sz Hh chk evs1)) (client_msgs (started_batches ops ql)))
    /\ (forall evs1, live evs1 -> ev_data evs1 = swrote_on id outs ->
          is_prefix (fst (stream_out Sz Hh chk evs1)) (client_msgs (started_batches ops ql))).
  Proof.
    intros st outs QK ND SK.
    destruct (C06_wire_blocks_delivered ops ql id buf QK ND SK) as (_ & _ & _ & W).
    assert (A : forall evs1 evs2, live (evs1 ++ evs2) -> ev_data (evs1 ++ evs2) = swrote_on id outs ++ buf ->
                is_prefix (fst (stream_out Sz Hh chk evs1)) (client_msgs (started_batches ops ql))).
    { intros evs1 evs2 LV DATA. pose proof (W _ LV DATA) as E.
      destruct (C16_stream_prefix_stable Sz Hh chk evs1 (evs2 ++ [Eof])) as [P _].
      rewrite app_assoc, E in P. exact P. }
    split; [exact A|]. intros evs1 LV DATA. destruct buf as [|x buf'].
    - apply (A evs1 []); rewrite ?app_nil_r; [exact LV | exact DATA].
    - apply (A evs1 [Chunk (x :: buf')]).
      + apply Forall_app. split; [exact LV|]. constructor; [cbn; discriminate|constructor].
      + rewrite ev_data_app, DATA. cbn [ev_data]. rewrite app_nil_r. reflexivity.
  Qed.

  (* complement: as long as no stream was dropped and the handler has no stream (none requested yet, or requested and not
     yet negotiated), it has started no message and no stream has accepted a byte *)
  Theorem C06_wire_nothing_without_stream (ops : list shop) :
    let st := server_handler_final codec_encode wire_block_size ops in
    let outs := server_handler_outs codec_encode wire_block_size ops in
    no_drop outs -> (forall id buf, sh_sink st <> SvReady id buf) ->
    sh_started st = [] /\ forall id, swrote_on id outs = [].
  Proof.
    intros st outs ND NS. subst st outs. rewrite server_final_shrun in *. unfold server_handler_outs in *.
    destruct (shrun_inv codec_encode wire_block_size ops sh_init [] (SVI_init codec_encode wire_block_size)) as [H _].
    cbn [app] in H.
    pose proof (sv_one _ _ _ _ H ND) as O. pose proof (sv_pref _ _ _ _ H) as P.
    destruct (sh_sink (fst (shrun codec_encode wire_block_size sh_init ops))) as [| |id0 buf0] eqn:K;
      [| |exfalso; apply (NS id0 buf0); reflexivity].
    - split; [exact O|]. intros id. specialize (P id). rewrite O in P. destruct P as [r Hr]. cbn [sbytes] in Hr.
      symmetry in Hr. apply app_eq_nil in Hr. tauto.
    - split; [exact O|]. intros id. specialize (P id). rewrite O in P. destruct P as [r Hr]. cbn [sbytes] in Hr.
      symmetry in Hr. apply app_eq_nil in Hr. tauto.
  Qed.
End EndToEnd.
