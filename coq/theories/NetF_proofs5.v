(* NetF_proofs5.v — package P, part 5: C14 at network level, over the ghost history of a run WITH faults (any run, no shape
   condition).
   * `C14_net_conservation` : the wantlists that entered `wire_w` are, as a multiset, the wantlists that got a fate plus the
     wantlists still in flight: every wantlist handed to a connection ends in EXACTLY ONE fate (or is still in flight).
   * `fate_sound`           : what each fate means, in terms of the states before and after the step that decided it:
       FtReady m        the receiver processed the WHOLE wantlist (one `node_incoming` of the full message) and the sender's client
                        heard Ready;
       FtFailedWhole m  the receiver processed the whole wantlist and the sender's client heard Failed;
       FtFailedNone m   the receiver's node is untouched and the sender's client heard Failed;           — never a part
       FtDropped m      (`dropped_sound`) the connection went with it: after the disconnect neither end has a peer entry for
                        the other and nothing of the pair is in flight;
       FtVoid m         never happens (`no_void`). *)
From BS Require Import Server_lemmas Server_inv Wantlist_proofs Client_proofs Client_proofs2 Client_proofs3 Client_proofs4
  Net Net_proofs2 Net_proofs3 Net_proofs4 Net_proofs5 Net_proofs6 Net_proofs7 NetF NetF_proofs NetF_proofs4.
From Coq Require Import ZArith ZifyBool ZifyN ZifyNat Lia Permutation.
Open Scope N_scope.

(* ---------- lists ---------- *)
Lemma take_first_perm {A} (f : A -> bool) l x r : take_first f l = Some (x, r) -> Permutation l (x :: r).
Proof.
  revert r. induction l as [|y l IH]; intros r; cbn [take_first]; [discriminate|]. destruct (f y).
  - intros [= <- <-]. apply Permutation_refl.
  - destruct (take_first f l) as [[x' r']|]; [|discriminate]. intros [= <- <-].
    eapply Permutation_trans; [apply perm_skip, (IH r' eq_refl) | apply perm_swap].
Qed.

Lemma filter_split_perm {A} (f : A -> bool) l : Permutation l (filter f l ++ filter (fun x => negb (f x)) l).
Proof.
  induction l as [|x l IH]; [constructor|]. cbn [filter]. destruct (f x); cbn [negb app].
  - apply perm_skip, IH.
  - eapply Permutation_trans; [apply perm_skip, IH | apply Permutation_middle].
Qed.

Lemma skipn_app_length {A} (l r : list A) : skipn (length l) (l ++ r) = r.
Proof. induction l as [|x l IH]; [reflexivity | exact IH]. Qed.

Lemma map_fate_dropped l : map fate_msg (map FtDropped l) = l.
Proof. rewrite map_map. cbn [fate_msg]. apply map_id. Qed.

Lemma get_on_node_eq s i f n : get_node s i = Some n -> get_node (on_node s i f) i = Some (f n).
Proof. intros H. unfold on_node. rewrite H. apply (get_set_eq s i n (f n) H). Qed.

Lemma get_on_node_neq s i k f : i <> k -> get_node (on_node s i f) k = get_node s k.
Proof. intros H. unfold on_node. destruct (get_node s i); [apply get_set_neq, H | reflexivity]. Qed.

Section Fates.
  Variables (Sz : N) (Hh : hash_fn).

  (* ---------- the wire after each step ---------- *)
  Lemma poll_wire s i : exists ws, wire_w (fst (nstep Sz Hh s (NPoll i))) = wire_w s ++ ws.
  Proof.
    cbn [nstep]. unfold do_poll. destruct (get_node s i) as [n|]; [|exists []; rewrite app_nil_r; reflexivity].
    destruct (node_poll Sz n) as [n1 o]. destruct (fold_left (hand_over s i) (o_wants o) (n1, [])) as [n2 ws]. exists ws. reflexivity.
  Qed.

  Lemma deliver_w_wire s i j m rest :
    take_first (w_between i j) (wire_w s) = Some (m, rest) -> wire_w (fst (do_deliver_w Sz Hh s i j)) = rest.
  Proof.
    intros Et. unfold do_deliver_w. rewrite Et.
    match goal with |- context [get_node ?S0 i] => destruct (get_node S0 i) as [ni|]; [destruct (get_node S0 j) as [nj|]|] end; try reflexivity.
    match goal with |- context [node_incoming Sz Hh nj i ?M] => destruct (node_incoming Sz Hh nj i M) as [nj1 evs] end.
    cbn [fst]. rewrite on_node_wire_w. reflexivity.
  Qed.

  Lemma fail_w_wire s i j d m rest :
    take_first (w_between i j) (wire_w s) = Some (m, rest) -> wire_w (fst (do_fail_w Sz Hh s i j d)) = rest.
  Proof.
    intros Et. unfold do_fail_w. rewrite Et.
    match goal with |- context [get_node ?S0 i] => destruct (get_node S0 i) as [ni|]; [destruct (get_node S0 j) as [nj|]|] end; try reflexivity.
    destruct d.
    - match goal with |- context [node_incoming Sz Hh nj i ?M] => destruct (node_incoming Sz Hh nj i M) as [nj1 evs] end.
      cbn [fst]. rewrite on_node_wire_w. reflexivity.
    - cbn [fst]. rewrite on_node_wire_w. reflexivity.
  Qed.

  Lemma connect_wire s i j : wire_w (do_connect Sz s i j) = wire_w s.
  Proof.
    unfold do_connect. destruct (get_node s i); [|reflexivity]. destruct (get_node s j); [|reflexivity].
    destruct ((i =? j) || Net.connected s i j); reflexivity.
  Qed.

  Lemma disconnect_wire s i j :
    wire_w (do_disconnect Sz s i j) = if disconnects s i j then filter (fun m => negb (w_touches i j m)) (wire_w s) else wire_w s.
  Proof.
    unfold do_disconnect, disconnects, ends_exist. destruct (get_node s i); [|reflexivity]. destruct (get_node s j); [|reflexivity].
    cbn [andb]. destruct (Net.connected s i j); reflexivity.
  Qed.

  Lemma deliver_b_wire s j i : wire_w (fst (do_deliver_b Sz Hh s j i)) = wire_w s.
  Proof.
    unfold do_deliver_b. destruct (take_first (b_between j i) (wire_b s)) as [[m rest]|]; [|reflexivity].
    destruct (get_node s i) as [ni|]; [|reflexivity].
    match goal with |- context [node_incoming Sz Hh ni j ?M] => destruct (node_incoming Sz Hh ni j M) as [ni1 evs] end. reflexivity.
  Qed.

  (* ---------- one step ---------- *)
  Lemma dropped_perm s i j :
    Permutation (wire_w s ++ [])
      (map fate_msg (if disconnects s i j then map FtDropped (filter (w_touches i j) (wire_w s)) else []) ++
       (if disconnects s i j then filter (fun m => negb (w_touches i j m)) (wire_w s) else wire_w s)).
  Proof.
    rewrite app_nil_r. destruct (disconnects s i j); [|apply Permutation_refl]. rewrite map_fate_dropped. apply filter_split_perm.
  Qed.

  Lemma step_conservation s o :
    Permutation (wire_w s ++ h_entered (hist_of Sz Hh s o))
                (map fate_msg (h_fates (hist_of Sz Hh s o)) ++ wire_w (fst (fstep Sz Hh s o))).
  Proof.
    assert (Hsame : forall s', wire_w s' = wire_w s -> Permutation (wire_w s ++ []) ([] ++ wire_w s'))
      by (intros s' ->; rewrite app_nil_r; apply Permutation_refl).
    destruct o as [o|i j d|i j]; cbn [fstep].
    - destruct o; cbn [hist_of hist_nil h_entered h_fates map]; cbn [nstep fst];
        try (apply Hsame; rewrite ?on_node_wire_w; reflexivity).
      + apply Hsame, connect_wire.
      + pose proof (dropped_perm s i j) as H. rewrite disconnect_wire. destruct (disconnects s i j); exact H.
      + destruct (poll_wire s i) as (ws & E). cbn [nstep] in E. rewrite E, skipn_app_length. apply Permutation_refl.
      + destruct (take_first (w_between i j) (wire_w s)) as [[m rest]|] eqn:Et.
        * cbn [h_entered h_fates map]. rewrite (deliver_w_wire s i j m rest Et), app_nil_r.
          replace (fate_msg (if ends_exist s i j then FtReady m else FtVoid m)) with m by (destruct (ends_exist s i j); reflexivity).
          apply (take_first_perm _ _ _ _ Et).
        * apply Hsame. unfold do_deliver_w. rewrite Et. reflexivity.
      + apply Hsame, deliver_b_wire.
    - cbn [hist_of]. destruct (take_first (w_between i j) (wire_w s)) as [[m rest]|] eqn:Et.
      + cbn [h_entered h_fates map]. rewrite (fail_w_wire s i j d m rest Et), app_nil_r.
        replace (fate_msg (if ends_exist s i j then if d then FtFailedWhole m else FtFailedNone m else FtVoid m)) with m
          by (destruct (ends_exist s i j); [destruct d|]; reflexivity).
        apply (take_first_perm _ _ _ _ Et).
      + apply Hsame. unfold do_fail_w. rewrite Et. reflexivity.
    - cbn [hist_of fst]. unfold do_reconnect. rewrite connect_wire.
      pose proof (dropped_perm s i j) as H. rewrite disconnect_wire. destruct (disconnects s i j); exact H.
  Qed.

  (* ---------- the run ---------- *)
  Theorem C14_net_conservation_from ops : forall s,
    let r := frun_h Sz Hh s ops in
    Permutation (wire_w s ++ h_entered (snd r)) (map fate_msg (h_fates (snd r)) ++ wire_w (fst (fst r))).
  Proof.
    induction ops as [|o ops IH]; intros s; cbn zeta.
    - cbn. rewrite app_nil_r. apply Permutation_refl.
    - cbn [frun_h]. pose proof (step_conservation s o) as H1. destruct (fstep Sz Hh s o) as [s1 e1]. cbn [fst] in H1.
      specialize (IH s1). cbn zeta in IH. destruct (frun_h Sz Hh s1 ops) as [[s2 e2] h2]. cbn [fst snd hist_app h_entered h_fates] in *.
      rewrite map_app, app_assoc.
      eapply Permutation_trans; [apply Permutation_app_tail, H1|]. rewrite <- !app_assoc.
      apply Permutation_app_head. exact IH.
  Qed.

  (* every wantlist that entered the wire got exactly one fate or is still in flight *)
  Theorem C14_net_conservation n ops :
    let r := frun_h Sz Hh (net_init n) ops in
    Permutation (h_entered (snd r)) (map fate_msg (h_fates (snd r)) ++ wire_w (fst (fst r))).
  Proof. exact (C14_net_conservation_from ops (net_init n)). Qed.

  (* ---------- what a fate means ---------- *)
  Definition whole_at (s s' : net) (m : wmsg) : Prop :=
    exists ni nj, get_node s (wm_src m) = Some ni /\ get_node s (wm_dst m) = Some nj /\
      get_node s' (wm_dst m) =
      Some (fst (node_incoming Sz Hh nj (wm_src m) (wantlist_message (wl_sdh (cs_wl (n_client ni))) (wm_full m) (wm_entries m)))).

  Definition untouched_at (s s' : net) (m : wmsg) : Prop := get_node s' (wm_dst m) = get_node s (wm_dst m).

  Definition heard (s s' : net) (m : wmsg) (r : sending_report) : Prop :=
    exists ni, get_node s (wm_src m) = Some ni /\ client_of s' (wm_src m) = Some (c_report (n_client ni) (wm_dst m) CONN r).

  Definition fate_spec (s s' : net) (f : fate) : Prop :=
    match f with
    | FtReady m => whole_at s s' m /\ heard s s' m RpReady
    | FtFailedWhole m => whole_at s s' m /\ heard s s' m (RpFailed CONN)
    | FtFailedNone m => untouched_at s s' m /\ heard s s' m (RpFailed CONN)
    | FtDropped m => wm_src m <> wm_dst m /\ Net.connected s (wm_src m) (wm_dst m) = true /\ In m (wire_w s) /\ ~ In m (wire_w s')
    | FtVoid m => False
    end.

  Lemma between_ends i j m : w_between i j m = true -> wm_src m = i /\ wm_dst m = j.
  Proof. unfold w_between. intros H. apply andb_true_iff in H. destruct H as [A B]. apply N.eqb_eq in A, B. auto. Qed.

  Lemma inflight_linv s i j m rest :
    linv s -> take_first (w_between i j) (wire_w s) = Some (m, rest) ->
    wm_src m = i /\ wm_dst m = j /\ i <> j /\ Net.connected s i j = true /\ In m (wire_w s).
  Proof.
    intros [Hlt Hwc] Et. destruct (take_first_spec _ _ _ _ Et) as (Hin & Hb & _). destruct (between_ends i j m Hb) as [Es Ed].
    pose proof (Hwc m Hin) as Hc. rewrite Es, Ed in Hc. repeat split; try assumption. exact (conns_lt_neq s i j Hlt Hc).
  Qed.

  (* delivery and failure *)
  Lemma deliver_sound s i j m rest ni nj r :
    i <> j -> wm_src m = i -> wm_dst m = j ->
    get_node s i = Some ni -> get_node s j = Some nj ->
    let s0 := MkNet (nodes s) (conns s) rest (wire_b s) (now s) in
    let nj1 := fst (node_incoming Sz Hh nj i (wantlist_message (wl_sdh (cs_wl (n_client ni))) (wm_full m) (wm_entries m))) in
    let s' := on_node (set_node s0 j nj1) i (fun n => node_report n j CONN r) in
    whole_at s s' m /\ heard s s' m r.
  Proof.
    intros Hij Es Ed. subst i j. intros Hi Hj s0 nj1 s'.
    assert (Hi1 : get_node (set_node s0 (wm_dst m) nj1) (wm_src m) = Some ni) by (rewrite get_set_neq by congruence; exact Hi).
    split.
    - exists ni, nj. split; [exact Hi|]. split; [exact Hj|]. unfold s'. rewrite get_on_node_neq by exact Hij.
      apply (get_set_eq s0 (wm_dst m) nj nj1). exact Hj.
    - exists ni. split; [exact Hi|]. unfold s', client_of. rewrite (get_on_node_eq _ _ _ ni Hi1). reflexivity.
  Qed.

  Theorem fate_sound s o f :
    linv s -> (forall a b, In (a, b) (conns s) -> get_node s a <> None /\ get_node s b <> None) ->
    In f (h_fates (hist_of Sz Hh s o)) -> fate_spec s (fst (fstep Sz Hh s o)) f.
  Proof.
    intros Hl Hex Hf.
    assert (Hends : forall i j, Net.connected s i j = true -> exists ni nj, get_node s i = Some ni /\ get_node s j = Some nj).
    { intros i j Hc. apply connected_In in Hc. unfold norm in Hc. destruct (i <? j); destruct (Hex _ _ Hc) as [A B];
        destruct (get_node s i) as [ni|]; destruct (get_node s j) as [nj|]; try contradiction; eauto. }
    assert (Hdrop : forall i j, In f (h_fates (if disconnects s i j then MkHist [] (map FtDropped (filter (w_touches i j) (wire_w s))) else hist_nil)) ->
              forall s', wire_w s' = filter (fun m => negb (w_touches i j m)) (wire_w s) -> fate_spec s s' f).
    { intros i j Hin s' Ew. destruct (disconnects s i j) eqn:Ed; [|destruct Hin]. cbn [h_fates] in Hin. apply in_map_iff in Hin.
      destruct Hin as (m & <- & Hm). apply filter_In in Hm. destruct Hm as [Hm Ht]. cbn [fate_spec].
      destruct Hl as [Hlt Hwc]. pose proof (Hwc m Hm) as Hc. split; [exact (conns_lt_neq s _ _ Hlt Hc)|]. split; [exact Hc|]. split; [exact Hm|].
      rewrite Ew. intros Hin. apply filter_In in Hin. destruct Hin as [_ Hn]. rewrite Ht in Hn. discriminate. }
    destruct o as [o|i j d|i j]; cbn [fstep fst].
    - destruct o; cbn [hist_of hist_nil h_fates In] in Hf; try (destruct Hf; fail).
      + (* disconnect *)
        cbn [nstep fst]. apply (Hdrop i j Hf). rewrite disconnect_wire.
        destruct (disconnects s i j) eqn:Ed; [reflexivity | destruct Hf].
      + (* deliver *)
        cbn [nstep]. destruct (take_first (w_between i j) (wire_w s)) as [[m rest]|] eqn:Et; [|destruct Hf].
        destruct (inflight_linv s i j m rest Hl Et) as (Es & Ed & Hij & Hc & _). destruct (Hends i j Hc) as (ni & nj & Hi & Hj).
        unfold ends_exist in Hf. rewrite Hi, Hj in Hf. cbn [h_fates] in Hf. destruct Hf as [<-|[]]. cbn [fate_spec].
        unfold do_deliver_w. rewrite Et.
        change (get_node {| nodes := nodes s; conns := conns s; wire_w := rest; wire_b := wire_b s; now := now s |}) with (get_node s).
        rewrite Hi, Hj.
        pose proof (deliver_sound s i j m rest ni nj RpReady Hij Es Ed Hi Hj) as H. cbn zeta in H.
        destruct (node_incoming Sz Hh nj i (wantlist_message (wl_sdh (cs_wl (n_client ni))) (wm_full m) (wm_entries m))) as [nj1 evs].
        cbn [fst] in *. exact H.
    - (* fault *)
      cbn [hist_of] in Hf. destruct (take_first (w_between i j) (wire_w s)) as [[m rest]|] eqn:Et; [|destruct Hf].
      destruct (inflight_linv s i j m rest Hl Et) as (Es & Ed & Hij & Hc & _). destruct (Hends i j Hc) as (ni & nj & Hi & Hj).
      unfold ends_exist in Hf. rewrite Hi, Hj in Hf. cbn [h_fates] in Hf. destruct Hf as [<-|[]].
      unfold do_fail_w. rewrite Et.
      change (get_node {| nodes := nodes s; conns := conns s; wire_w := rest; wire_b := wire_b s; now := now s |}) with (get_node s).
      rewrite Hi, Hj. destruct d; cbn [fate_spec].
      + pose proof (deliver_sound s i j m rest ni nj (RpFailed CONN) Hij Es Ed Hi Hj) as H. cbn zeta in H.
        destruct (node_incoming Sz Hh nj i (wantlist_message (wl_sdh (cs_wl (n_client ni))) (wm_full m) (wm_entries m))) as [nj1 evs].
        cbn [fst] in *. exact H.
      + cbn [fst]. set (s0 := {| nodes := nodes s; conns := conns s; wire_w := rest; wire_b := wire_b s; now := now s |}).
        rewrite <- Es, <- Ed in *. split.
        * unfold untouched_at. rewrite get_on_node_neq by exact Hij. reflexivity.
        * exists ni. split; [exact Hi|]. unfold client_of. rewrite (get_on_node_eq s0 _ _ ni Hi). reflexivity.
    - (* reconnect *)
      cbn [hist_of] in Hf. apply (Hdrop i j Hf). unfold do_reconnect. rewrite connect_wire, disconnect_wire.
      destruct (disconnects s i j) eqn:Ed; [reflexivity | destruct Hf].
  Qed.

  (* the connection went with a dropped wantlist: after the disconnect neither end tracks the other, nothing of the pair is
     in flight, and the sender's client heard nothing about the wantlist (it got ConnectionClosed, nothing else) *)
  Lemma existsb_al_remove {V} j (l : list (N * V)) : existsb (fun e => fst e =? j) (al_remove N.eqb j l) = false.
  Proof.
    unfold al_remove. induction l as [|[k v] l IH]; [reflexivity|]. cbn [filter fst]. destruct (j =? k) eqn:E; cbn [negb]; [exact IH|].
    cbn [existsb fst]. rewrite N.eqb_sym, E. exact IH.
  Qed.

  Lemma conn_closed_untracks c j : conns_one c -> existsb (fun e => fst e =? j) (cs_peers (c_conn_closed c j CONN)) = false.
  Proof.
    intros Hc. unfold c_conn_closed. destruct (al_find N.eqb j (cs_peers c)) as [ps|] eqn:E.
    - pose proof (Hc _ _ (al_find_some_in _ Neqb_spec _ _ _ E)) as H1.
      assert (E1 : p_conns (remove_conn CONN ps) = []) by (cbn [remove_conn p_conns]; rewrite H1; reflexivity). rewrite E1.
      cbn [set_peers cs_peers]. apply existsb_al_remove.
    - apply (al_find_none _ Neqb_spec) in E. destruct (existsb (fun e => fst e =? j) (cs_peers c)) eqn:Ex; [|reflexivity]. exfalso.
      apply existsb_exists in Ex. destruct Ex as (e & He & Hk). apply N.eqb_eq in Hk. apply E. rewrite <- Hk. apply in_map, He.
  Qed.

  Theorem dropped_sound s i j :
    linv s -> all_clients conns_one s -> disconnects s i j = true ->
    let sD := do_disconnect Sz s i j in
    tracks sD i j = false /\ tracks sD j i = false /\ Net.connected sD i j = false /\
    (forall m, In m (wire_w sD) -> w_touches i j m = false) /\
    (exists ni nj, get_node s i = Some ni /\ get_node s j = Some nj /\
       client_of sD i = Some (c_conn_closed (n_client ni) j CONN) /\ client_of sD j = Some (c_conn_closed (n_client nj) i CONN)).
  Proof.
    intros [Hlt Hwc] Hone Hd. cbn zeta. pose proof (disconnect_wire s i j) as Hw. rewrite Hd in Hw.
    unfold disconnects, ends_exist in Hd. unfold do_disconnect in *.
    destruct (get_node s i) as [ni|] eqn:Hi; [|discriminate]. destruct (get_node s j) as [nj|] eqn:Hj; [|discriminate]. cbn [andb] in Hd.
    rewrite Hd in *. pose proof (conns_lt_neq s i j Hlt Hd) as Hij.
    set (ni' := node_disconnected Sz ni j CONN). set (nj' := node_disconnected Sz nj i CONN).
    assert (Gi : forall cc ww wb, get_node (MkNet (nodes (set_node (set_node s i ni') j nj')) cc ww wb (now s)) i = Some ni').
    { intros cc ww wb. change (get_node (set_node (set_node s i ni') j nj') i = Some ni'). rewrite get_set_neq by congruence. apply (get_set_eq s i ni ni' Hi). }
    assert (Gj : forall cc ww wb, get_node (MkNet (nodes (set_node (set_node s i ni') j nj')) cc ww wb (now s)) j = Some nj').
    { intros cc ww wb. change (get_node (set_node (set_node s i ni') j nj') j = Some nj'). apply (get_set_eq _ j nj nj'). rewrite get_set_neq by exact Hij. exact Hj. }
    split; [|split; [|split; [|split]]].
    - unfold tracks. rewrite Gi. unfold ni', node_disconnected. cbn [n_client cstep fst]. apply conn_closed_untracks, (Hone i ni Hi).
    - unfold tracks. rewrite Gj. unfold nj', node_disconnected. cbn [n_client cstep fst]. apply conn_closed_untracks, (Hone j nj Hj).
    - unfold Net.connected. cbn [conns]. destruct (existsb (pair_eqb (norm i j)) (filter (fun p => negb (pair_eqb (norm i j) p)) (conns s))) eqn:E; [|reflexivity].
      apply existsb_exists in E. destruct E as (x & Hx & Ex). apply filter_In in Hx. destruct Hx as [_ Hn]. rewrite Ex in Hn. discriminate.
    - intros m Hm. cbn [wire_w] in Hm. apply filter_In in Hm. destruct Hm as [_ Hn]. destruct (w_touches i j m); [discriminate | reflexivity].
    - exists ni, nj. split; [reflexivity|]. split; [reflexivity|]. unfold client_of. rewrite Gi, Gj. split; reflexivity.
  Qed.
End Fates.
