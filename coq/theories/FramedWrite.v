(* FramedWrite.v — model of asynchronous-codec 0.7.0 `FramedWrite2` (src/framed_write.rs:224-267) over a
   *scripted* substream.  Definitions only; lemmas are in Handler_proofs.v / ServerHandler_proofs.v.

   ======================================================================================================
   SCRIPTED-I/O CONVENTION (the harness's scripted stream must implement exactly this)
   ======================================================================================================
   The only calls the modelled code ever makes on the raw substream (`crate::RawStream`) are
   `AsyncWrite::poll_write(buf)`, `AsyncWrite::poll_flush()` and `AsyncWrite::poll_close()`.

   S1. A script is a finite list of `io` elements.  It is attached to an *op* (`HPoll s`, `HPollClose s`,
       `SHPoll s`), not to a stream: at the start of the op the script `s` becomes the script of whatever
       stream the handler holds (at most one per handler half at any time); what is left of it when the
       op ends is discarded.  Ops without a script (`HSetStream`, `HSendWantlist`, ...) make no stream
       call.  A stream installed by `HSetStream`/`SHSetStream` starts with the empty script.
   S2. EVERY call of poll_write / poll_flush / poll_close on the stream removes the first element of the
       script, if there is one, whatever its kind (also when the kind does not fit the call).
       If the script is empty the call returns `Poll::Pending` and the script stays empty.
   S3. Result of the call, by the element `x` that was removed:
         poll_write(buf), avail = buf.len()  (avail >= 1 at every call site of FramedWrite2):
            WAccept n  -> Ready(Ok(min n avail))     and the stream records the first min(n,avail) bytes
                          of buf as accepted, in one `Wrote` event (no event if min n avail = 0);
                          WAccept 0 therefore is the same as WZero
            WZero      -> Ready(Ok(0))               (FramedWrite2 turns this into Err(UnexpectedEof))
            IoErr      -> Ready(Err(_))
            IoPending, FlushOk, CloseOk -> Pending
         poll_flush():
            FlushOk    -> Ready(Ok(()))
            IoErr      -> Ready(Err(_))
            WAccept _, WZero, IoPending, CloseOk -> Pending
         poll_close():
            CloseOk    -> Ready(Ok(()))              and the stream records one `Closed` event
            IoErr      -> Ready(Err(_))
            WAccept _, WZero, IoPending, FlushOk -> Pending
   S4. The stream keeps no state of its own besides the script: after an error or a close it goes on
       answering from the script as above (FramedWrite2 does not remember errors either).
   S5. When the Rust value owning the stream is dropped (the `FramedWrite`, or the bare `RawStream` when
       `set_stream` returns early on a halted handler) the stream records one `Dropped` event.  Bytes
       still in the FramedWrite buffer at that moment are lost silently (the harness cannot see them;
       the model keeps them in its state up to the drop, see `SkReady`).
   S6. Wakers are not modelled: `Pending` simply ends the current `poll` call.

   `Codec::encode` (src/message.rs:20-34) always returns `Ok(())`: it appends `encode m` to the buffer.
   Hence `start_send` cannot fail and the `start_send_unpin(..).is_err()` branches of both handlers are
   dead code; they are not represented.  (Its two `expect("buffer too small")` belong to packages A/B.)
   ====================================================================================================== *)
From BS Require Export Bytes.

Inductive io :=
| WAccept (n : N)   (* poll_write: Ready(Ok(min n avail)), intended n >= 1 *)
| WZero             (* poll_write: Ready(Ok(0)) *)
| IoErr             (* any call: Ready(Err) *)
| IoPending         (* any call: Pending *)
| FlushOk           (* poll_flush: Ready(Ok) *)
| CloseOk.          (* poll_close: Ready(Ok) *)

(* what the raw stream records (S3, S5); numbered and turned into handler outputs by the handler models *)
Inductive sev := SevWrote (bs : bytes) | SevClosed.

(* Poll<Result<(), io::Error>> *)
Inductive pres := PrOk | PrErr | PrPending.

(* DEFAULT_SEND_HIGH_WATER_MARK, framed_write.rs:204 *)
Definition HIGH_WATER_MARK : N := 131072.

(* first k elements and the rest; k is an N so no big nat is ever built *)
Fixpoint splitN {A} (k : N) (l : list A) : list A * list A :=
  match l with
  | [] => ([], [])
  | x :: l' => if k =? 0 then ([], l)
               else let '(a, b) := splitN (k - 1) l' in (x :: a, b)
  end.

(* result of a FramedWrite2 call: outcome, buffer afterwards, script afterwards, stream events in order *)
Record fw_res := MkFwRes {
  fr_res : pres;
  fr_buf : bytes;
  fr_script : list io;
  fr_evs : list sev
}.

Definition fw_cons_evs (e : list sev) (r : fw_res) : fw_res :=
  MkFwRes (fr_res r) (fr_buf r) (fr_script r) (e ++ fr_evs r).

(* one `poll_write(&buffer)` followed by the `num_write == 0` test and `buffer.advance(num_write)`:
   None = Pending, Some None = error, Some (Some (w, rest)) = w accepted, rest stays buffered *)
Definition fw_write1 (buf : bytes) (x : io) : option (option (bytes * bytes)) :=
  match x with
  | WAccept n =>
      let k := N.min n (len buf) in
      if k =? 0 then Some None else Some (Some (splitN k buf))
  | WZero => Some None
  | IoErr => Some None
  | IoPending | FlushOk | CloseOk => None
  end.

(* inner.poll_flush() *)
Definition io_flush (script : list io) : pres * list io :=
  match script with
  | [] => (PrPending, [])
  | FlushOk :: s => (PrOk, s)
  | IoErr :: s => (PrErr, s)
  | _ :: s => (PrPending, s)
  end.

(* inner.poll_close() *)
Definition io_close (script : list io) : pres * list io * list sev :=
  match script with
  | [] => (PrPending, [], [])
  | CloseOk :: s => (PrOk, s, [SevClosed])
  | IoErr :: s => (PrErr, s, [])
  | _ :: s => (PrPending, s, [])
  end.

(* FramedWrite2::poll_ready, framed_write.rs:230-243 *)
Fixpoint fw_poll_ready (buf : bytes) (script : list io) {struct script} : fw_res :=
  if len buf <? HIGH_WATER_MARK then MkFwRes PrOk buf script []
  else match script with
       | [] => MkFwRes PrPending buf [] []
       | x :: s =>
           match fw_write1 buf x with
           | None => MkFwRes PrPending buf s []
           | Some None => MkFwRes PrErr buf s []
           | Some (Some (w, rest)) => fw_cons_evs [SevWrote w] (fw_poll_ready rest s)
           end
       end.

(* FramedWrite2::start_send = Codec::encode appended to the buffer, framed_write.rs:244-247 *)
Definition fw_start_send (buf frame : bytes) : bytes := buf ++ frame.

(* FramedWrite2::poll_flush, framed_write.rs:248-262 *)
Fixpoint fw_poll_flush (buf : bytes) (script : list io) {struct script} : fw_res :=
  match buf with
  | [] => let '(r, s) := io_flush script in MkFwRes r [] s []
  | _ :: _ =>
      match script with
      | [] => MkFwRes PrPending buf [] []
      | x :: s =>
          match fw_write1 buf x with
          | None => MkFwRes PrPending buf s []
          | Some None => MkFwRes PrErr buf s []
          | Some (Some (w, rest)) => fw_cons_evs [SevWrote w] (fw_poll_flush rest s)
          end
      end
  end.

(* FramedWrite2::poll_close, framed_write.rs:263-266: ready!(poll_flush)? then inner.poll_close *)
Definition fw_poll_close (buf : bytes) (script : list io) : fw_res :=
  let f := fw_poll_flush buf script in
  match fr_res f with
  | PrOk => let '(r, s, e) := io_close (fr_script f) in MkFwRes r (fr_buf f) s (fr_evs f ++ e)
  | _ => f
  end.
