(* Prefix.v — model of /repo/src/cid_prefix.rs (CidPrefix::{from_cid, from_bytes, to_bytes, to_cid}).

   The multihasher table is an arbitrary function `H : code -> data -> hash_result`
   (MultihasherTable::hash is modelled in Hasher.v and plugged in here); nothing is assumed of it
   except where a theorem says so. *)
From BS Require Export Bytes Varint Cid.

Inductive hash_err := UnknownMultihashCode | InvalidMultihashSize | CustomErr | CustomFatalErr.
Inductive hash_result := HOk (mh : multihash) | HErr (e : hash_err).
Definition hash_fn := N -> bytes -> hash_result.

Record prefix := MkPrefix { p_ver : version; p_codec : N; p_code : N; p_size : N }.

Definition prefix_eqb (a b : prefix) : bool :=
  version_eqb (p_ver a) (p_ver b) && (p_codec a =? p_codec b) && (p_code a =? p_code b)
  && (p_size a =? p_size b).

(* CidPrefix::from_cid *)
Definition prefix_of_cid (c : cid) : prefix :=
  MkPrefix (c_ver c) (c_codec c) (mh_code (c_hash c)) (len (mh_digest (c_hash c))).

(* CidPrefix::from_bytes (cid_prefix.rs:28-58, incl. the rejection of an explicit version 0) *)
Definition prefix_from_bytes (bs : bytes) : option prefix :=
  match uv_decode bs with
  | UvOk raw_version r1 =>
      match uv_decode r1 with
      | UvOk codec r2 =>
          if (raw_version =? SHA2_256) && (codec =? SHA2_256_SIZE) then
            Some (MkPrefix V0 DAG_PB SHA2_256 SHA2_256_SIZE)
          else
            match version_of_u64 raw_version with
            | None => None
            | Some V0 => None
            | Some V1 =>
                match uv_decode r2 with
                | UvOk code r3 =>
                    match uv_decode r3 with
                    | UvOk size _ => Some (MkPrefix V1 codec code size)
                    | _ => None
                    end
                | _ => None
                end
            end
      | _ => None
      end
  | _ => None
  end.

(* CidPrefix::to_bytes *)
Definition prefix_to_bytes (p : prefix) : bytes :=
  match p_ver p with
  | V0 => uv_encode SHA2_256 ++ uv_encode SHA2_256_SIZE
  | V1 => uv_encode (version_to_u64 V1) ++ uv_encode (p_codec p) ++ uv_encode (p_code p)
          ++ uv_encode (p_size p)
  end.

(* CidPrefix::to_cid; TPanic is the `expect("prefix for cidv0 was initalized incorrectly")` *)
Inductive to_cid_result := TOk (c : cid) | TErr (e : hash_err) | TPanic.

Definition prefix_to_cid (S : N) (H : hash_fn) (p : prefix) (data : bytes) : to_cid_result :=
  if S <? p_size p then TErr InvalidMultihashSize
  else match H (p_code p) data with
       | HErr e => TErr e
       | HOk mh => match cid_new (p_ver p) (p_codec p) mh with
                   | inl c => TOk c
                   | inr _ => TPanic
                   end
       end.
