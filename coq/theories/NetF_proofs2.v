(* NetF_proofs2.v — package P, part 2: the close of the connection absorbs a failed wantlist (`disconnect_absorbs_fail`), and
   a run whose every fault is followed at once by the close of its connection is a fault-free run (`episodic_run`). *)
From BS Require Import Server_lemmas Server_inv Wantlist_proofs Client_proofs Client_proofs2 Client_proofs3 Client_proofs4
  Net Net_proofs2 Net_proofs3 Net_proofs4 Net_proofs5 Net_proofs6 Net_proofs7 Net_proofs9 Net_proofs10 NetF NetF_proofs.
From Coq Require Import ZArith ZifyBool ZifyN ZifyNat Lia.
Open Scope N_scope.

Section Absorb.
  Variables (Sz : N) (Hh : hash_fn).
  Hypothesis HSz : 32 <= Sz.

  (* a wantlist in flight from i to j: both ends exist, are distinct and connected *)
  Lemma inflight_ends s i j m rest :
    net_ok Sz Hh s -> wire_conn s -> take_first (w_between i j) (wire_w s) = Some (m, rest) ->
    i <> j /\ Net.connected s i j = true /\ (exists ni, get_node s i = Some ni) /\ (exists nj, get_node s j = Some nj).
  Proof.
    intros Hok Hwc Et. destruct (take_first_spec _ _ _ _ Et) as (Hin & Hb & _). unfold w_between in Hb.
    apply andb_true_iff in Hb. destruct Hb as [Hs Hd]. apply N.eqb_eq in Hs, Hd. pose proof (Hwc m Hin) as Hc. rewrite Hs, Hd in Hc.
    destruct (connected_neq Sz Hh HSz s i j Hok Hc) as (Hij & Hi & Hj). split; [exact Hij|]. split; [exact Hc|].
    split; [destruct (get_node s i) as [ni|]; [eauto | contradiction] | destruct (get_node s j) as [nj|]; [eauto | contradiction]].
  Qed.

  Lemma fail_w_events_true s i j : snd (do_fail_w Sz Hh s i j true) = snd (do_deliver_w Sz Hh s i j).
  Proof.
    unfold do_fail_w, do_deliver_w. destruct (take_first (w_between i j) (wire_w s)) as [[m rest]|]; [|reflexivity].
    match goal with |- context [get_node ?S0 i] => destruct (get_node S0 i) as [ni|]; [destruct (get_node S0 j) as [nj|]|] end; try reflexivity.
  Qed.

  Lemma fail_w_events_false s i j : snd (do_fail_w Sz Hh s i j false) = [].
  Proof.
    unfold do_fail_w. destruct (take_first (w_between i j) (wire_w s)) as [[m rest]|]; [|reflexivity].
    match goal with |- context [get_node ?S0 i] => destruct (get_node S0 i) as [ni|]; [destruct (get_node S0 j) as [nj|]|] end; reflexivity.
  Qed.

  Theorem disconnect_absorbs_fail_true s i j :
    net_ok Sz Hh s -> wire_conn s ->
    do_disconnect Sz (fst (do_fail_w Sz Hh s i j true)) i j = do_disconnect Sz (fst (do_deliver_w Sz Hh s i j)) i j.
  Proof.
    intros Hok Hwc. unfold do_fail_w, do_deliver_w.
    destruct (take_first (w_between i j) (wire_w s)) as [[m rest]|] eqn:Et; [|reflexivity].
    destruct (inflight_ends s i j m rest Hok Hwc Et) as (Hij & Hc & (ni & Hi) & (nj & Hj)).
    change (get_node {| nodes := nodes s; conns := conns s; wire_w := rest; wire_b := wire_b s; now := now s |}) with (get_node s).
    rewrite Hi, Hj.
    match goal with |- context [node_incoming Sz Hh nj i ?M] => destruct (node_incoming Sz Hh nj i M) as [nj1 evs] end. cbn [fst].
    set (s0 := {| nodes := nodes s; conns := conns s; wire_w := rest; wire_b := wire_b s; now := now s |}).
    assert (Hi1 : get_node (set_node s0 j nj1) i = Some ni) by (rewrite get_set_neq by congruence; exact Hi).
    assert (Hj1 : get_node (set_node s0 j nj1) j = Some nj1) by (apply (get_set_eq s0 j nj nj1); exact Hj).
    assert (Hc1 : Net.connected (set_node s0 j nj1) i j = true) by exact Hc.
    assert (Hp : forall ps, al_find N.eqb j (cs_peers (n_client ni)) = Some ps -> p_conns ps = [CONN])
      by (intros ps; apply (peer_conns_ok Sz Hh s i ni j ps Hok Hi)).
    rewrite (disconnect_absorbs_report Sz _ i j ni nj1 (RpFailed CONN) Hij Hi1 Hj1 Hc1 Hp).
    rewrite (disconnect_absorbs_report Sz _ i j ni nj1 RpReady Hij Hi1 Hj1 Hc1 Hp). reflexivity.
  Qed.

  Theorem disconnect_absorbs_fail_false s i j :
    net_ok Sz Hh s -> wire_conn s ->
    do_disconnect Sz (fst (do_fail_w Sz Hh s i j false)) i j = do_disconnect Sz s i j.
  Proof.
    intros Hok Hwc. unfold do_fail_w.
    destruct (take_first (w_between i j) (wire_w s)) as [[m rest]|] eqn:Et; [|reflexivity].
    destruct (inflight_ends s i j m rest Hok Hwc Et) as (Hij & Hc & (ni & Hi) & (nj & Hj)).
    change (get_node {| nodes := nodes s; conns := conns s; wire_w := rest; wire_b := wire_b s; now := now s |}) with (get_node s).
    rewrite Hi, Hj. cbn [fst].
    set (s0 := {| nodes := nodes s; conns := conns s; wire_w := rest; wire_b := wire_b s; now := now s |}).
    assert (Hp : forall ps, al_find N.eqb j (cs_peers (n_client ni)) = Some ps -> p_conns ps = [CONN])
      by (intros ps; apply (peer_conns_ok Sz Hh s i ni j ps Hok Hi)).
    rewrite (disconnect_absorbs_report Sz s0 i j ni nj (RpFailed CONN) Hij Hi Hj Hc Hp).
    unfold do_disconnect. change (get_node s0) with (get_node s). rewrite Hi, Hj.
    change (Net.connected s0 i j) with (Net.connected s i j). rewrite Hc.
    unfold s0, set_node. cbn [nodes conns wire_w wire_b now].
    rewrite (take_first_filter (w_between i j) (fun m0 => negb (w_touches i j m0)) (wire_w s) m rest Et); [reflexivity|].
    intros y Hy. unfold w_touches. rewrite Hy. reflexivity.
  Qed.
End Absorb.

(* ---------- episodic runs ---------- *)
Section Episodic.
  Variables (Sz : N) (Hh : hash_fn).
  Hypothesis HSz : 32 <= Sz.

  Lemma closes_inv i j x :
    closes i j x = true -> x = FReconnect i j \/ x = FOp (NDisconnect i j).
  Proof.
    destruct x as [o|a b d|a b]; cbn [closes]; try discriminate.
    - destruct o; try discriminate. intros H. apply andb_true_iff in H. destruct H as [A B]. apply N.eqb_eq in A, B. subst. auto.
    - intros H. apply andb_true_iff in H. destruct H as [A B]. apply N.eqb_eq in A, B. subst. auto.
  Qed.

  Definition inv (s : net) : Prop := net_ok Sz Hh s /\ wire_conn s.

  Lemma inv_step s o : nop_good Sz Hh o -> inv s -> inv (fst (nstep Sz Hh s o)).
  Proof. intros Hg [H1 H2]. split; [apply net_ok_step; assumption | apply (wire_conn_step Sz Hh); [apply (net_ok_conns_lt Sz Hh)|]; assumption]. Qed.

  (* the state and the events after a fault and the close of its connection *)
  Lemma fail_then_disconnect s i j d :
    inv s ->
    do_disconnect Sz (fst (do_fail_w Sz Hh s i j d)) i j =
      do_disconnect Sz (fst (nrun Sz Hh s (if d then [NDeliverW i j] else []))) i j /\
    snd (do_fail_w Sz Hh s i j d) = snd (nrun Sz Hh s (if d then [NDeliverW i j] else [])).
  Proof.
    intros [Hok Hwc]. destruct d.
    - rewrite (nrun_cons Sz Hh). cbn [nrun fst snd nstep]. rewrite app_nil_r. split.
      + apply (disconnect_absorbs_fail_true Sz Hh HSz); assumption.
      + apply fail_w_events_true.
    - cbn [nrun fst snd]. split.
      + apply (disconnect_absorbs_fail_false Sz Hh HSz); assumption.
      + apply fail_w_events_false.
  Qed.

  Theorem episodic_run_len : forall k fops, (length fops <= k)%nat -> forall ops s,
    erase fops = Some ops -> Forall (nop_good Sz Hh) ops -> inv s -> frun Sz Hh s fops = nrun Sz Hh s ops.
  Proof.
    induction k as [|k IH]; intros fops Hlen ops s He Hg Hinv.
    { destruct fops; [|cbn in Hlen; lia]. cbn in He. injection He as <-. reflexivity. }
    destruct fops as [|x r]; [cbn in He; injection He as <-; reflexivity|]. cbn [length] in Hlen.
    destruct x as [o|i j d|i j]; cbn [erase] in He.
    - (* a base step *)
      destruct (erase r) as [l|] eqn:Er; [|discriminate]. cbn in He. injection He as <-. inversion Hg as [|? ? Hg1 Hg2]; subst.
      rewrite frun_cons, (nrun_cons Sz Hh). cbn [fstep].
      rewrite (IH r ltac:(lia) l (fst (nstep Sz Hh s o)) Er Hg2 (inv_step s o Hg1 Hinv)). reflexivity.
    - (* a fault *)
      destruct r as [|x r']; [discriminate|]. destruct (closes i j x) eqn:Ecl; [|discriminate].
      destruct (erase (x :: r')) as [l0|] eqn:Er; [|discriminate]. cbn in He. injection He as <-.
      destruct (fail_then_disconnect s i j d Hinv) as [K1 K2].
      set (pre := if d then [NDeliverW i j] else []) in *.
      assert (Hpre : Forall (nop_good Sz Hh) pre) by (unfold pre; destruct d; repeat constructor).
      apply Forall_app in Hg. destruct Hg as [_ Hg0].
      assert (Hinv1 : inv (fst (nrun Sz Hh s pre))).
      { destruct Hinv as [Hok Hwc]. split; [apply net_ok_run; assumption | apply (wire_conn_run Sz Hh HSz); assumption]. }
      rewrite frun_cons, (nrun_app Sz Hh). cbn [fstep]. rewrite K2. f_equal; [f_equal|f_equal].
      + (* states *)
        destruct (closes_inv i j x Ecl) as [->| ->]; cbn [erase] in Er.
        * destruct (erase r') as [l1|] eqn:Er'; [|discriminate]. cbn in Er. injection Er as <-.
          inversion Hg0 as [|? ? _ Hg1]; subst. inversion Hg1 as [|? ? _ Hg2]; subst.
          rewrite frun_cons, !(nrun_cons Sz Hh). cbn [fstep nstep fst snd]. unfold do_reconnect. rewrite K1.
          set (sD := do_connect Sz (do_disconnect Sz (fst (nrun Sz Hh s pre)) i j) i j).
          assert (HinvD : inv sD) by (apply (inv_step _ (NConnect i j) I), (inv_step _ (NDisconnect i j) I), Hinv1).
          rewrite (IH r' ltac:(cbn [length] in Hlen; lia) l1 sD Er' Hg2 HinvD). reflexivity.
        * destruct (erase r') as [l1|] eqn:Er'; [|discriminate]. cbn in Er. injection Er as <-.
          inversion Hg0 as [|? ? _ Hg1]; subst.
          rewrite frun_cons, !(nrun_cons Sz Hh). cbn [fstep nstep fst snd]. rewrite K1.
          set (sD := do_disconnect Sz (fst (nrun Sz Hh s pre)) i j).
          assert (HinvD : inv sD) by (apply (inv_step _ (NDisconnect i j) I), Hinv1).
          rewrite (IH r' ltac:(cbn [length] in Hlen; lia) l1 sD Er' Hg1 HinvD). reflexivity.
      + (* events *)
        destruct (closes_inv i j x Ecl) as [->| ->]; cbn [erase] in Er.
        * destruct (erase r') as [l1|] eqn:Er'; [|discriminate]. cbn in Er. injection Er as <-.
          inversion Hg0 as [|? ? _ Hg1]; subst. inversion Hg1 as [|? ? _ Hg2]; subst.
          rewrite frun_cons, !(nrun_cons Sz Hh). cbn [fstep nstep fst snd]. unfold do_reconnect. rewrite K1.
          set (sD := do_connect Sz (do_disconnect Sz (fst (nrun Sz Hh s pre)) i j) i j).
          assert (HinvD : inv sD) by (apply (inv_step _ (NConnect i j) I), (inv_step _ (NDisconnect i j) I), Hinv1).
          rewrite (IH r' ltac:(cbn [length] in Hlen; lia) l1 sD Er' Hg2 HinvD). reflexivity.
        * destruct (erase r') as [l1|] eqn:Er'; [|discriminate]. cbn in Er. injection Er as <-.
          inversion Hg0 as [|? ? _ Hg1]; subst.
          rewrite frun_cons, !(nrun_cons Sz Hh). cbn [fstep nstep fst snd]. rewrite K1.
          set (sD := do_disconnect Sz (fst (nrun Sz Hh s pre)) i j).
          assert (HinvD : inv sD) by (apply (inv_step _ (NDisconnect i j) I), Hinv1).
          rewrite (IH r' ltac:(cbn [length] in Hlen; lia) l1 sD Er' Hg1 HinvD). reflexivity.
    - (* a reconnect on its own *)
      destruct (erase r) as [l|] eqn:Er; [|discriminate]. cbn in He. injection He as <-.
      inversion Hg as [|? ? _ Hg1]; subst. inversion Hg1 as [|? ? _ Hg2]; subst.
      rewrite frun_cons, !(nrun_cons Sz Hh). cbn [fstep nstep fst snd]. unfold do_reconnect.
      set (sD := do_connect Sz (do_disconnect Sz s i j) i j).
      assert (HinvD : inv sD) by (apply (inv_step _ (NConnect i j) I), (inv_step _ (NDisconnect i j) I), Hinv).
      rewrite (IH r ltac:(lia) l sD Er Hg2 HinvD). reflexivity.
  Qed.

  Lemma inv_init n : inv (net_init n).
  Proof. split; [apply (net_ok_init Sz Hh HSz) | apply wire_conn_init]. Qed.

  (* a run whose every fault is followed at once by the close of its connection is a run of Net.v *)
  Theorem episodic_run n fops ops :
    erase fops = Some ops -> Forall (nop_good Sz Hh) ops ->
    frun Sz Hh (net_init n) fops = nrun Sz Hh (net_init n) ops.
  Proof. intros He Hg. apply (episodic_run_len (length fops) fops (le_n _) ops _ He Hg (inv_init n)). Qed.
End Episodic.
