(* NetF_proofs8.v — package P, part 8:
   (a) the bridge to the client-level theorems: in every net reachable with faults, the client of every node is the state
       after some sequence of client operations from `cinit true` (`reachableF_client_trace`) — so every theorem of
       Client_proofs* / Props_C05 / Props_C14 stated over `st_after true ops` speaks about the nodes of the net with faults;
   (b) the defect in general, not on a witness (`C05_net_fault_forgets`): in ANY net reachable with faults, if a wantlist of
       i is in flight to j and i's client is waiting for it (`SsSending _ CONN`), then after `FFailW i j d` and i's next poll
       i has no peer entry for j although `conns` still holds the pair — by C05_full_after_fault at client level: the full
       wantlist would go to ANOTHER connection, there is none, the peer is dropped. *)
From BS Require Import Server_lemmas Server_inv Wantlist_proofs Client_proofs Client_proofs2 Client_proofs3 Client_proofs4
  Net Net_proofs2 Net_proofs3 Net_proofs4 Net_proofs5 Net_proofs6 Net_proofs7 Net_proofs9
  NetF NetF_proofs NetF_proofs4 NetF_proofs5 NetF_proofs6.
From Coq Require Import ZArith ZifyBool ZifyN ZifyNat Lia.
Open Scope N_scope.

Section Bridge.
  Variables (Sz : N) (Hh : hash_fn).

  Lemma PT_nc k o : (forall p c, o <> CNewConn p c) -> PT k o.
  Proof. intros _. exact I. Qed.

  Lemma fsteps_crun k c c' : fsteps PT k c c' -> exists ops, Forall cop_net ops /\ c' = snd (crun_from c ops).
  Proof.
    induction 1 as [c|c o c' Ho _ _ (ops & Hops & ->)]; [exists []; split; [constructor | reflexivity]|].
    exists (o :: ops). split; [constructor; assumption|]. rewrite crun_from_cons. reflexivity.
  Qed.

  Lemma frun_fmoved ops : forall s, linv s -> fmoved PT s (fst (frun Sz Hh s ops)).
  Proof.
    induction ops as [|o ops IH]; intros s Hl; [apply fmoved_refl|]. rewrite frun_cons. cbn [fst].
    eapply fmoved_trans; [apply (fstep_fmoved Sz Hh s o), Hl | apply IH, linv_fstep, Hl].
  Qed.

  Theorem reachableF_client_trace n fops k nd :
    get_node (fst (frun Sz Hh (net_init n) fops)) k = Some nd ->
    exists cops, Forall cop_net cops /\ n_client nd = st_after true cops.
  Proof.
    intros Hg. destruct (frun_fmoved fops (net_init n) (linv_init n) k nd Hg) as (n0 & Hn0 & Hs).
    unfold get_node in Hn0. cbn [nodes net_init] in Hn0. apply nth_error_In, repeat_spec in Hn0. subst n0.
    destruct (fsteps_crun k _ _ Hs) as (cops & Hc & E). exists cops. split; [exact Hc | exact E].
  Qed.

  (* ---------- the fault, then the sender's poll ---------- *)
  Lemma fail_w_client s i j d m rest ni :
    i <> j -> take_first (w_between i j) (wire_w s) = Some (m, rest) ->
    get_node s i = Some ni -> get_node s j <> None ->
    client_of (fst (do_fail_w Sz Hh s i j d)) i = Some (c_report (n_client ni) j CONN (RpFailed CONN)).
  Proof.
    intros Hij Et Hi Hj. unfold do_fail_w. rewrite Et.
    change (get_node {| nodes := nodes s; conns := conns s; wire_w := rest; wire_b := wire_b s; now := now s |}) with (get_node s).
    rewrite Hi. destruct (get_node s j) as [nj|] eqn:Ej; [|contradiction].
    set (s0 := {| nodes := nodes s; conns := conns s; wire_w := rest; wire_b := wire_b s; now := now s |}).
    destruct d.
    - match goal with |- context [node_incoming Sz Hh nj i ?M] => destruct (node_incoming Sz Hh nj i M) as [nj1 evs] end. cbn [fst].
      unfold client_of. rewrite (get_on_node_eq _ i _ ni) by (rewrite get_set_neq by congruence; exact Hi). reflexivity.
    - cbn [fst]. unfold client_of. rewrite (get_on_node_eq s0 i _ ni Hi). reflexivity.
  Qed.

  Lemma hand_over_keys s i L : forall acc,
    map fst (cs_peers (n_client (fst (fold_left (hand_over s i) L acc)))) = map fst (cs_peers (n_client (fst acc))).
  Proof.
    induction L as [|x L IH]; intros acc; cbn [fold_left]; [reflexivity|]. rewrite IH.
    destruct x as [[[p c] f] es]. unfold hand_over. destruct (Net.connected s i p); cbn [fst]; [|reflexivity].
    unfold node_report. cbn [n_client]. apply cstep_keys. exact I.
  Qed.

  Lemma poll_client s i ni :
    get_node s i = Some ni ->
    exists n', get_node (fst (nstep Sz Hh s (NPoll i))) i = Some n' /\
               map fst (cs_peers (n_client n')) = map fst (cs_peers (fst (c_poll (n_client ni) []))).
  Proof.
    intros Hi. cbn [nstep]. unfold do_poll. rewrite Hi. unfold node_poll.
    destruct (cstep (n_client ni) (CPoll [])) as [c1 o1] eqn:E1. destruct (cstep c1 CTakeNewBlocks) as [c2 o2] eqn:E2.
    destruct (srv Sz match cl_new_blocks o2 with [] => n_server ni | _ :: _ => fst (srv Sz (n_server ni) (SNewBlocks (cl_new_blocks o2))) end SPoll) as [s2 o3].
    cbn [o_wants].
    match goal with |- context [fold_left (hand_over s i) ?L ?acc] =>
      pose proof (hand_over_keys s i L acc) as Hk; destruct (fold_left (hand_over s i) L acc) as [n2 ws] end.
    cbn [fst snd n_client] in *. exists n2. split.
    - unfold get_node. cbn [nodes]. apply nth_set_nth_eq. eapply get_node_lt; exact Hi.
    - etransitivity; [exact Hk|]. replace c2 with (fst (cstep c1 CTakeNewBlocks)) by (rewrite E2; reflexivity).
      rewrite cstep_keys by exact I. cbn [cstep] in E1. rewrite E1. reflexivity.
  Qed.

  Lemma filter_take_first {A} (f : A -> bool) l : filter f l <> [] -> exists m rest, take_first f l = Some (m, rest).
  Proof.
    induction l as [|x l IH]; cbn [filter take_first]; [congruence|]. destruct (f x); [eauto|]. intros H.
    destruct (IH H) as (m & rest & ->). eauto.
  Qed.

  Theorem C05_net_fault_forgets n pre i j d t :
    let s := fst (frun Sz Hh (net_init n) pre) in
    inflight s i j <> [] -> ss_of s i j = Some (SsSending t CONN) ->
    let s1 := fst (fstep Sz Hh s (FFailW i j d)) in
    let s2 := fst (fstep Sz Hh s1 (FOp (NPoll i))) in
    ss_of s1 i j = Some (SsFailed CONN) /\ Net.connected s2 i j = true /\ tracks s2 i j = false.
  Proof.
    intros s Hfl Hss s1 s2.
    destruct (reachableF_light Sz Hh n pre) as (Hl & _ & Hone). fold s in Hl, Hone.
    pose proof (finv_frun Sz Hh pre (net_init n) (finv_init n)) as [_ Hex]. fold s in Hex.
    destruct (filter_take_first _ _ Hfl) as (m & rest & Et).
    destruct (inflight_linv s i j m rest Hl Et) as (_ & _ & Hij & Hc & Hin).
    assert (Hends : get_node s i <> None /\ get_node s j <> None).
    { pose proof Hc as Hc'. apply connected_In in Hc'. unfold norm in Hc'. destruct (i <? j); destruct (Hex _ _ Hc'); auto. }
    destruct Hends as [Hie Hje]. destruct (get_node s i) as [ni|] eqn:Hi; [|contradiction].
    (* the record *)
    unfold ss_of in Hss. rewrite Hi in Hss. destruct (al_find N.eqb j (cs_peers (n_client ni))) as [ps|] eqn:Ef; [|discriminate].
    cbn [option_map] in Hss. injection Hss as Hss.
    pose proof (Hone i ni Hi j ps (al_find_some_in _ Neqb_spec _ _ _ Ef)) as Hcn.
    pose proof (fail_w_client s i j d m rest ni Hij Et Hi Hje) as Hcl. change (fst (do_fail_w Sz Hh s i j d)) with s1 in Hcl.
    unfold client_of in Hcl. destruct (get_node s1 i) as [n1|] eqn:H1; [|discriminate]. cbn [option_map] in Hcl. injection Hcl as Hcl.
    set (psF := MkPeer (p_conns ps) (SsFailed CONN) (p_wl ps) (p_send_full ps)).
    assert (EfF : al_find N.eqb j (cs_peers (n_client n1)) = Some psF).
    { rewrite Hcl. cbn [c_report set_peers cs_peers]. rewrite (al_find_modify _ Neqb_spec), N.eqb_refl, Ef. cbn [option_map].
      unfold report_accepted. rewrite Hss. cbn [sending_conn]. rewrite N.eqb_refl. reflexivity. }
    split; [unfold ss_of; rewrite H1, EfF; reflexivity|].
    split.
    { unfold s2. cbn [fstep]. rewrite (connected_conns s1) by (apply nstep_conns; exact I).
      unfold s1. cbn [fstep]. rewrite (connected_conns s) by apply do_fail_w_conns. exact Hc. }
    (* the client of i in s1 is a client run *)
    assert (Hs1 : s1 = fst (frun Sz Hh (net_init n) (pre ++ [FFailW i j d]))).
    { rewrite frun_app. cbn [fst]. fold s. rewrite frun_cons. reflexivity. }
    assert (H1' : get_node (fst (frun Sz Hh (net_init n) (pre ++ [FFailW i j d]))) i = Some n1) by (rewrite <- Hs1; exact H1).
    destruct (reachableF_client_trace n _ i n1 H1') as (cops & _ & Ecl).
    rewrite Ecl in EfF.
    destruct (C05_full_after_fault true cops [] j psF CONN EfF (or_introl eq_refl)) as [Hsend Halt].
    assert (Hnone : al_find N.eqb j (cs_peers (fst (c_poll (st_after true cops) []))) = None).
    { destruct Halt as [(c & es & Hs)|Hn]; [|exact Hn]. exfalso. destruct (Hsend c true es Hs) as (_ & Hne & Hcin).
      cbn [psF p_conns] in Hcin. rewrite Hcn in Hcin. destruct Hcin as [E|[]]. congruence. }
    rewrite <- Ecl in Hnone.
    destruct (poll_client s1 i n1 H1) as (n2 & H2 & Hk). unfold tracks. change (fst (fstep Sz Hh s1 (FOp (NPoll i)))) with (fst (nstep Sz Hh s1 (NPoll i))) in *.
    unfold s2. cbn [fstep]. rewrite H2. apply existsb_key_false. intros Hin2. apply (proj1 (al_find_none _ Neqb_spec _ _) Hnone). unfold peer in *. rewrite <- Hk. exact Hin2.
  Qed.
End Bridge.
