(* Corr_convert.v — engine `convert`: utils::convert_cid / convert_multihash over a compiled grid of
   capacity pairs, against Convert.v; C19 oracle on the implementation's outputs. *)
From BS Require Export Bytes Cid Prefix Hasher Convert.
Open Scope N_scope.

Inductive vin := VConvert (cap cap' : N) (c : cid).
(* result of convert_cid::<S,S'>, of converting that back with convert_cid::<S',S>, and of convert_multihash *)
Inductive vout := VOut (r : option cid) (back : option (option cid)) (mh : option multihash).

Definition model (x : vin) : vout :=
  match x with
  | VConvert cap cap' c =>
      let r := convert_cid cap' c in
      VOut r (option_map (convert_cid cap) r) (convert_multihash cap' (c_hash c))
  end.

Definition vout_eqb (a b : vout) : bool :=
  match a, b with
  | VOut r1 b1 m1, VOut r2 b2 m2 =>
      option_eqb cid_eqb r1 r2 && option_eqb (option_eqb cid_eqb) b1 b2 && option_eqb mh_eqb m1 m2
  end.

Definition case := (vin * vout)%type.
Definition corr (x : case) : bool := vout_eqb (model (fst x)) (snd x).

(* C19: Some (identical value) exactly when the digest fits, None exactly when it does not; back = original *)
Definition oracle (x : case) : bool :=
  match x with
  | (VConvert cap cap' c, VOut r back mh) =>
      let fits := len (mh_digest (c_hash c)) <=? cap' in
      (if fits then option_eqb cid_eqb r (Some c) && option_eqb (option_eqb cid_eqb) back (Some (Some c))
                    && option_eqb mh_eqb mh (Some (c_hash c))
       else match r, mh with None, None => true | _, _ => false end)
  end.
