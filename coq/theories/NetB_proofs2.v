(* NetB_proofs2.v — package S, part 2: the network theorems of Net_proofs32/36 from ANY state that satisfies the invariants
   `BI` (the proofs are those of `C02_direct_g` / `C14_records_equal_g`, which use nothing else of a reachable net), hence
   for every net reachable WITH lost replies: `settle_terminates_B`, `C02_direct_with_block_loss`,
   `C14_records_equal_with_block_loss`. *)
From BS Require Import Server_lemmas Server_inv Server_proofs Server_live Wantlist_proofs Client_proofs Client_proofs2
  Client_proofs3 Client_proofs4 Net Net_proofs2 Net_proofs3 Net_proofs4 Net_proofs5 Net_proofs6 Net_proofs7 Net_proofs8
  Net_proofs9 Net_proofs10 Net_proofs11 Net_proofs12 Net_proofs13 Net_proofs14 Net_proofs15 Net_proofs16 Net_proofs17 Net_proofs18
  Net_proofs22 Net_proofs23 Net_proofs24 Net_proofs27 Net_proofs28 Net_proofs32 Net_proofs35 Net_proofs36 NetB NetB_proofs.
From Coq Require Import ZArith ZifyBool ZifyN ZifyNat Lia.
Open Scope N_scope.

Section StateBased.
  Variables (Sz : N) (Hh : hash_fn).
  Hypothesis HSz : 32 <= Sz.
  Local Notation RI := (RI Sz Hh).
  Local Notation BI := (BI Sz Hh).
  Variable g : net -> net * list nevent.
  Hypothesis g_run : forall s, exists ops, Forall sched ops /\ g s = nrun Sz Hh s ops.
  Hypothesis g_quiet : forall s, RI s -> quietb (fst (g s)) = true.
  Hypothesis g_unfold : forall s, RI s -> quietb s = false -> exists f, fst (g s) = fst (settle_loop Sz Hh f (fst (round Sz Hh s))).
  Local Notation rg := (rg Sz Hh g).

  (* what a run of schedule steps keeps of BI *)
  Lemma BI_sched_run ops s : Forall sched ops -> BI s -> BI (fst (nrun Sz Hh s ops)).
  Proof.
    intros Hs HB. destruct (sched_all Sz Hh _ Hs) as [Hg Hw]. rewrite <- (brun_BOp Sz Hh).
    apply (BI_brun Sz Hh HSz); [|  | exact HB].
    - apply (bops_good Sz Hh). rewrite base_ops_BOp. exact Hg.
    - apply (bops_wf Sz). rewrite base_ops_BOp. exact Hw.
  Qed.

  Lemma BI_g s : BI s -> BI (fst (g s)).
  Proof. intros HB. destruct (g_run s) as (ops & Hs & E). rewrite E. apply BI_sched_run; assumption. Qed.

  Theorem C02_direct_state (i j : N) (q : qid) (c : cid) s :
    BI s ->
    live_query i q c s -> Net.connected s i j = true ->
    (exists st d, store_of s j = Some st /\ store_get st c = SHit d) ->
    let r1 := g s in
    let r2 := rg (fst r1) in
    (length (wl_i i (fst r1)) <= 1024)%nat ->
    answered i q (snd r1 ++ snd r2).
  Proof.
    intros (HR & Hwf & _) Hlive Hconn Hstore r1 r2 Hsize.
    pose proof (g_quiet s HR) as Hq1. pose proof (rg_quiet Sz Hh HSz g g_quiet (fst (g s)) (g_RI Sz Hh HSz g g_run s HR)) as Hq2.
    fold r1 in Hq1, Hq2. fold r2 in Hq2.
    pose proof (proj1 HR) as Hok.
    destruct (connected_neq Sz Hh HSz s i j Hok Hconn) as (Hij & _).
    assert (Ha : alive i q c s).
    { destruct Hlive as (cl & qs & E & Hin & Hq). exists cl. split; [exact E|]. left. exists qs. auto. }
    destruct (g_run s) as (ops1 & Hs1 & E1). subst r2 r1. rewrite E1 in *.
    destruct (sched_run_facts Sz Hh HSz ops1 s j c Hs1 Hok Hwf) as (Hok1 & Hwf1 & Hc1 & Hst1). cbn zeta in *.
    set (s1 := fst (nrun Sz Hh s ops1)) in *.
    destruct (alive_run Sz Hh HSz i q c ops1 s Hs1 Hok Ha) as [Ha1|(d & Hd)]; [|exists d; apply in_app_iff; auto]. fold s1 in Ha1.
    assert (Hconn1 : Net.connected s1 i j = true) by (unfold Net.connected in *; rewrite Hc1; exact Hconn).
    pose proof (P2_after_advance Sz Hh HSz i j c true s1 Hij Hok1 Hwf1 Hq1 Hconn1 (fun _ => Hst1 Hstore) Hsize) as HP.
    unfold Net_proofs32.rg in *. set (s1' := advance Sz Hh SEND_FULL_INTERVAL s1) in *.
    destruct (g_run s1') as (ops2 & Hs2 & E2). rewrite E2 in *.
    pose proof (P2_run Sz Hh HSz i j c true ops2 s1' Hij Hs2 HP) as HP2. set (s2 := fst (nrun Sz Hh s1' ops2)) in *.
    assert (Ha1' : alive i q c s1').
    { destruct Ha1 as (cl & E & H). exists (c_advance cl SEND_FULL_INTERVAL). split.
      - unfold s1'. rewrite (client_after_advance Sz Hh i), E. reflexivity.
      - exact H. }
    destruct (alive_run Sz Hh HSz i q c ops2 s1' Hs2 (p2_ok _ _ _ _ _ _ _ HP) Ha1') as [Ha2|(d & Hd)]; [|exists d; apply in_app_iff; auto].
    exfalso. fold s2 in Ha2. apply (quiet_not_wanted Sz Hh i j c true s2 eq_refl HP2 Hq2).
    apply (alive_quiet_wanted Sz Hh i q c s2 (p2_ok _ _ _ _ _ _ _ HP2) Hq2 Ha2).
  Qed.

  Theorem C14_records_equal_state (i j : N) s :
    BI s ->
    Net.connected s i j = true ->
    let r1 := g s in
    let r2 := rg (fst r1) in
    (length (wl_i i (fst r1)) <= 1024)%nat ->
    forall c, In c (wl_i i (fst r2)) <-> (exists st, server_of (fst r2) j = Some st /\ wantsP (s_wants st) i c).
  Proof.
    intros (HR & Hwf & Hrv) Hconn r1 r2 Hsize c.
    pose proof (g_RI Sz Hh HSz g g_run s HR) as HR1. pose proof (g_quiet s HR) as Hq1. fold r1 in HR1, Hq1.
    pose proof (proj1 HR) as Hok.
    destruct (connected_neq Sz Hh HSz s i j Hok Hconn) as (Hij & _).
    destruct (g_run s) as (ops1 & Hs1 & E1). subst r2 r1. rewrite E1 in *.
    destruct (sched_run_facts Sz Hh HSz ops1 s j c Hs1 Hok Hwf) as (Hok1 & Hwf1 & Hc1 & _). cbn zeta in *.
    destruct (sched_all Sz Hh _ Hs1) as [Hg1 Hw1].
    assert (Hrv1 : net_rv (fst (nrun Sz Hh s ops1))) by (apply (net_rv_run Sz Hh HSz); assumption).
    set (s1 := fst (nrun Sz Hh s ops1)) in *.
    assert (Hconn1 : Net.connected s1 i j = true) by (unfold Net.connected in *; rewrite Hc1; exact Hconn).
    split.
    - intros Hc. destruct (refresh_registers_g Sz Hh HSz g g_run g_quiet i j s1 Hij HR1 Hwf1 Hq1 Hconn1 Hsize c Hc) as (st & E & Hwc & _). eauto.
    - intros (st & E & Hwc). exact (refresh_sound_g Sz Hh HSz g g_quiet g_unfold i j c s1 Hij HR1 Hwf1 Hrv1 Hq1 Hconn1 Hsize st E Hwc).
  Qed.
End StateBased.

(* ---------- the instance: Net.v's own settle / refresh, after a run with lost replies ---------- *)
Section WithLoss.
  Variables (Sz : N) (Hh : hash_fn).
  Hypothesis HSz : 32 <= Sz.

  Theorem settle_terminates_B n ops :
    Forall (nop_good Sz Hh) (base_ops ops) -> Forall (nop_wf Sz) (base_ops ops) ->
    let s := fst (brun Sz Hh (net_init n) ops) in
    let r1 := settle Sz Hh s in
    quietb (fst r1) = true /\ quietb (fst (refresh Sz Hh (fst r1))) = true.
  Proof.
    intros Hg Hw s r1. pose proof (reachableB_RI Sz Hh HSz n ops Hg Hw) as HR. fold s in HR. split.
    - apply (settle_terminates_RI Sz Hh HSz), HR.
    - unfold refresh. apply (settle_terminates_RI Sz Hh HSz), (RI_advance Sz Hh HSz).
      apply (g_RI Sz Hh HSz (settle Sz Hh) (settle_run Sz Hh)), HR.
  Qed.

  Theorem C02_direct_BI (i j : N) (q : qid) (c : cid) s :
    BI Sz Hh s ->
    live_query i q c s -> Net.connected s i j = true ->
    (exists st d, store_of s j = Some st /\ store_get st c = SHit d) ->
    let r1 := settle Sz Hh s in
    let r2 := refresh Sz Hh (fst r1) in
    (length (wl_i i (fst r1)) <= 1024)%nat ->
    answered i q (snd r1 ++ snd r2).
  Proof.
    exact (C02_direct_state Sz Hh HSz (settle Sz Hh) (settle_run Sz Hh) (settle_terminates_RI Sz Hh HSz) i j q c s).
  Qed.

  Theorem C14_records_equal_BI (i j : N) s :
    BI Sz Hh s ->
    Net.connected s i j = true ->
    let r1 := settle Sz Hh s in
    let r2 := refresh Sz Hh (fst r1) in
    (length (wl_i i (fst r1)) <= 1024)%nat ->
    forall c, In c (wl_i i (fst r2)) <-> (exists st, server_of (fst r2) j = Some st /\ wantsP (s_wants st) i c).
  Proof.
    exact (C14_records_equal_state Sz Hh HSz (settle Sz Hh) (settle_run Sz Hh) (settle_terminates_RI Sz Hh HSz)
             (settle_unfold_RI Sz Hh) i j s).
  Qed.

  Theorem C02_direct_with_block_loss (i j : N) (q : qid) (c : cid) n ops :
    Forall (nop_good Sz Hh) (base_ops ops) -> Forall (nop_wf Sz) (base_ops ops) ->
    let s := fst (brun Sz Hh (net_init n) ops) in
    live_query i q c s -> Net.connected s i j = true ->
    (exists st d, store_of s j = Some st /\ store_get st c = SHit d) ->
    let r1 := settle Sz Hh s in
    let r2 := refresh Sz Hh (fst r1) in
    (length (wl_i i (fst r1)) <= 1024)%nat ->
    answered i q (snd r1 ++ snd r2).
  Proof. intros Hg Hw. apply C02_direct_BI, (reachableB_BI Sz Hh HSz n ops Hg Hw). Qed.

  Theorem C14_records_equal_with_block_loss (i j : N) n ops :
    Forall (nop_good Sz Hh) (base_ops ops) -> Forall (nop_wf Sz) (base_ops ops) ->
    let s := fst (brun Sz Hh (net_init n) ops) in
    Net.connected s i j = true ->
    let r1 := settle Sz Hh s in
    let r2 := refresh Sz Hh (fst r1) in
    (length (wl_i i (fst r1)) <= 1024)%nat ->
    forall c, In c (wl_i i (fst r2)) <-> (exists st, server_of (fst r2) j = Some st /\ wantsP (s_wants st) i c).
  Proof. intros Hg Hw. apply C14_records_equal_BI, (reachableB_BI Sz Hh HSz n ops Hg Hw). Qed.
End WithLoss.
