(* Net_proofs17.v — package G: `records sound` (C14), the first fair round of a refresh.  From a quiet net, one clock
   step of 30 s, then `round`: every node is polled (the only thing a poll does is to hand over full wantlists: no task,
   no store call, no block is anywhere), no store call is outstanding, the wantlists are delivered.  Node i's full
   wantlist REPLACES j's want set for i by i's wantlist, every CID of which i's record of j marks "WANT_HAVE sent":
   the invariant PB of Net_proofs16 holds after the round. *)
From BS Require Import Server_lemmas Server_inv Server_proofs Server_live Wantlist_proofs Client_proofs Client_proofs2
  Client_proofs3 Client_proofs4 Net Net_proofs2 Net_proofs3 Net_proofs4 Net_proofs5 Net_proofs6 Net_proofs7 Net_proofs8
  Net_proofs9 Net_proofs10 Net_proofs14 Net_proofs15 Net_proofs16.
From Coq Require Import ZArith ZifyBool ZifyN ZifyNat Lia.
Open Scope N_scope.

Local Notation cid_eqb_spec := Wantlist_proofs.cid_eqb_spec.

(* ---------- a client without tasks, a server without work ---------- *)
Lemma poll_next_nil rq nc : poll_next rq [] nc = ([], [], nc, [], None).
Proof. induction rq as [|tid rq IH]; cbn [poll_next al_find]; [reflexivity | exact IH]. Qed.

Lemma tasks_run_empty s outs s' :
  tasks_run s outs s' -> cs_tasks s = [] ->
  cs_tasks s' = [] /\ outs = [] /\ cs_new_blocks s' = cs_new_blocks s /\ cs_wl s' = cs_wl s /\ cs_peers s' = cs_peers s.
Proof.
  intros Hrun Ht.
  assert (Hres : tasks_res s = None) by (unfold tasks_res; rewrite Ht, poll_next_nil; reflexivity).
  inversion Hrun as [s0 Hr | s0 r outs0 s0' Hr Hrun0]; subst; [|congruence].
  unfold after_tasks, tasks_outs. rewrite Ht, poll_next_nil. cbn. auto.
Qed.

Lemma do_poll_idle st :
  server_idle st = true ->
  snd (Server.do_poll st) = [] /\ server_idle (fst (Server.do_poll st)) = true.
Proof.
  unfold server_idle. rewrite !andb_true_iff. intros [[Hr Hb] Ho]. apply is_nil_true in Hr, Hb, Ho.
  destruct st as [wants wt outq ready blocked nc pn bo]. cbn [s_ready s_blocked s_outq] in *. subst. cbn. auto.
Qed.

Lemma seqN_In x n : forall a, In x (seqN a n) <-> a <= x < a + N.of_nat n.
Proof.
  induction n as [|n IH]; intros a; cbn [seqN In].
  - split; [intros [] | lia].
  - rewrite IH. lia.
Qed.

Lemma flat_map_nil {A B} (f : A -> list B) l : (forall x, In x l -> f x = []) -> flat_map f l = [].
Proof. induction l as [|x l IH]; intros H; cbn; [reflexivity|]. rewrite (H x (or_introl eq_refl)), IH; [reflexivity|]. intros y Hy. apply H. right. exact Hy. Qed.

Section Round1.
  Variables (Sz : N) (Hh : hash_fn).
  Hypothesis HSz : 32 <= Sz.
  Variables (i j : N) (c : cid).
  Hypothesis Hij : i <> j.

  Local Notation Wc := (Wc i j c).
  Local Notation PB := (PB Sz Hh i j c).

  Lemma stores_of_nil s : (forall k n, get_node s k = Some n -> n_calls n = []) -> stores_of s = [].
  Proof.
    intros H. unfold stores_of. apply flat_map_nil. intros [k n] Hin. cbn [fst snd]. apply in_combine_r in Hin.
    apply In_nth_error in Hin. destruct Hin as (p & Hp).
    assert (E : n_calls n = []) by (apply (H (N.of_nat p)); unfold get_node; rewrite Nat2N.id; exact Hp).
    rewrite E. reflexivity.
  Qed.

  Lemma round_fst s :
    fst (round Sz Hh s) =
    fst (nrun Sz Hh (fst (nrun Sz Hh (fst (nrun Sz Hh s (polls_of s))) (stores_of (fst (nrun Sz Hh s (polls_of s))))))
                    (deliveries_of (fst (nrun Sz Hh (fst (nrun Sz Hh s (polls_of s))) (stores_of (fst (nrun Sz Hh s (polls_of s)))))))).
  Proof.
    unfold round. destruct (nrun Sz Hh s (polls_of s)) as [s1 e1]. cbn [fst].
    destruct (nrun Sz Hh s1 (stores_of s1)) as [s2 e2]. cbn [fst]. destruct (nrun Sz Hh s2 (deliveries_of s2)) as [s3 e3]. reflexivity.
  Qed.

  (* ---------- the poll phase ---------- *)
  Definition calm (n : node) : Prop :=
    server_idle (n_server n) = true /\ n_calls n = [] /\ cs_tasks (n_client n) = [] /\ cs_new_blocks (n_client n) = [].

  Definition full_ok (cl : cstate) (m : wmsg) : Prop :=
    wm_full m = true /\ (forall k x, In (k, x) (wm_entries m) -> k = KWantHave /\ In x (wl_cids (cs_wl cl))) /\
    (length (wm_entries m) <= 1024)%nat.

  Definition QA (s : net) : Prop :=
    exists cl ps, client_of s i = Some cl /\ In (j, ps) (cs_peers cl) /\ p_ss ps = SsReady /\ timer_ready cl = true /\
                  (forall m, In m (wire_w s) -> wm_src m = i -> wm_dst m = j -> False).
  Definition QF (s : net) : Prop :=
    exists cl ps, client_of s i = Some cl /\ In (j, ps) (cs_peers cl) /\ (exists t, p_ss ps = SsSending t CONN) /\
                  timer_ready cl = false /\ p_send_full ps = false /\ all_swh (cs_wl cl) (p_wl ps) /\
                  (forall m, In m (wire_w s) -> wm_src m = i -> wm_dst m = j -> full_ok cl m) /\
                  (exists m, In m (wire_w s) /\ wm_src m = i /\ wm_dst m = j).

  Record QP (s : net) : Prop := MkQP {
    qp_ok : net_ok Sz Hh s;
    qp_wf : net_wf Sz s;
    qp_conn : Net.connected s i j = true;
    qp_wb : wire_b s = [];
    qp_calm : forall k n, get_node s k = Some n -> calm n;
    qp_size : (length (wl_i i s) <= 1024)%nat;
    qp_i : QA s \/ QF s
  }.

  Lemma QP_poll s k : QP s -> QP (fst (nstep Sz Hh s (NPoll k))) /\ (k = i -> QF (fst (nstep Sz Hh s (NPoll k)))).
  Proof.
    intros HQ. pose proof HQ as [H1 H2 H3 H4 H5 H6 H7].
    assert (Hok' : net_ok Sz Hh (fst (nstep Sz Hh s (NPoll k)))) by (apply net_ok_step; [exact HSz | exact I | exact H1]).
    assert (Hwf' : net_wf Sz (fst (nstep Sz Hh s (NPoll k)))) by (apply (net_wf_step Sz Hh HSz); [exact H1 | exact I | exact H2]).
    destruct (connected_neq Sz Hh HSz s i j H1 H3) as (_ & Hei & _).
    cbn [nstep] in *. destruct (get_node s k) as [n|] eqn:Hg.
    2:{ unfold do_poll in *. rewrite Hg in *. split; [exact HQ|]. intros ->. contradiction. }
    destruct (do_poll_nf Sz Hh s k n H1 Hg) as (sC & outsC & [Hrun HCC Hto Heq]). cbn zeta in Heq. rewrite Heq in *. cbn [fst] in *.
    destruct (H5 _ _ Hg) as (Hidle & Hcalls & Htasks & Hnb).
    destruct (after_timer_tasks (n_client n)) as [Et Ewt].
    destruct (tasks_run_empty _ _ _ Hrun) as (HtC & HoC & HnbC & HwC & HpC); [rewrite Et; exact Htasks|]. subst outsC. rewrite Ewt in HwC.
    assert (HnbC' : cs_new_blocks sC = []).
    { rewrite HnbC. unfold after_timer. destruct (timer_ready (set_queue (n_client n) [])); exact Hnb. }
    destruct (tasks_run_frame _ _ _ Hrun) as (_ & En & Ed & _).
    destruct (after_timer_props (n_client n)) as (_ & HtrA & HnA).
    unfold srv_poll in *. rewrite HnbC' in *. destruct (do_poll_idle _ Hidle) as [Hout Hidle'].
    rewrite Hout in *. cbn [sv_calls sv_blocks filter map cl_calls] in *. rewrite Hcalls, H4 in *. cbn [app] in *.
    set (L := flat_map (sends1 (cs_wl sC)) (cs_peers sC)) in *.
    set (cF := set_peers (set_new_blocks (set_queue sC []) []) (map (fin1 (now s) (cs_wl sC)) (cs_peers sC))) in *.
    match goal with |- QP ?x /\ _ => set (s' := x) in * end.
    assert (Hgk' : get_node s' k = Some (MkNode cF (fst (Server.do_poll (n_server n))) (n_store n) []))
      by (unfold s'; apply (get_set_nth_same s k n _ _ _ _ _ Hg)).
    assert (Hcalm' : forall k0 n0, get_node s' k0 = Some n0 -> calm n0).
    { intros k0 n0 Hk0. destruct (N.eq_dec k0 k) as [->|Hne].
      - rewrite Hgk' in Hk0. injection Hk0 as <-. split; [exact Hidle'|]. split; [reflexivity|]. split; [exact HtC | reflexivity].
      - unfold s' in Hk0. rewrite get_other in Hk0 by exact Hne. apply (H5 _ _ Hk0). }
    (* node i *)
    assert (Hi' : ((k <> i /\ (QA s -> QA s') /\ (QF s -> QF s')) \/ (k = i /\ QF s')) /\ wl_i i s' = wl_i i s).
    { destruct (N.eq_dec k i) as [->|Hki].
      2:{ assert (Hci : client_of s' i = client_of s i) by (unfold client_of, s'; rewrite get_other by congruence; reflexivity).
          split; [|unfold wl_i; rewrite Hci; reflexivity]. left. split; [exact Hki|]. split.
          - intros (cl & ps & E & Hin & Hr & Htr & Hnone). exists cl, ps. rewrite Hci.
            split; [exact E|]. split; [exact Hin|]. split; [exact Hr|]. split; [exact Htr|].
            intros m Hm Hsrc Hdst. unfold s' in Hm. cbn [wire_w] in Hm. apply in_app_iff in Hm. destruct Hm as [Hm|Hm]; [exact (Hnone m Hm Hsrc Hdst)|].
            apply in_map_iff in Hm. destruct Hm as (x & <- & _). cbn in Hsrc. congruence.
          - intros (cl & ps & E & Hin & Hr & Htr & Hsf & Hall & Hfull & (m0 & Hm0 & A0 & B0)). exists cl, ps. rewrite Hci.
            split; [exact E|]. split; [exact Hin|]. split; [exact Hr|]. split; [exact Htr|]. split; [exact Hsf|]. split; [exact Hall|]. split.
            + intros m Hm Hsrc Hdst. unfold s' in Hm. cbn [wire_w] in Hm. apply in_app_iff in Hm. destruct Hm as [Hm|Hm]; [exact (Hfull m Hm Hsrc Hdst)|].
              apply in_map_iff in Hm. destruct Hm as (x & <- & _). cbn in Hsrc. congruence.
            + exists m0. split; [unfold s'; cbn [wire_w]; apply in_app_iff; auto | auto]. }
      assert (Hcl : client_of s i = Some (n_client n)) by (unfold client_of; rewrite Hg; reflexivity).
      assert (Hcl' : client_of s' i = Some cF) by (unfold client_of; rewrite Hgk'; reflexivity).
      split; [|unfold wl_i; rewrite Hcl', Hcl; cbn [cF set_peers set_new_blocks set_queue cs_wl]; rewrite HwC; reflexivity].
      right. split; [reflexivity|].
      assert (HtrF : timer_ready cF = false).
      { unfold timer_ready in *. cbn [cF set_peers set_new_blocks set_queue cs_deadline cs_now]. rewrite En, Ed. exact HtrA. }
      assert (Hdst : forall m psj, In (j, psj) (cs_peers sC) -> In m (map (w_of i) L) -> wm_dst m = j ->
                                   exists x, m = w_of i x /\ In x (sends1 (cs_wl sC) (j, psj))).
      { intros m psj Hinj Hm Hd. apply in_map_iff in Hm. destruct Hm as (x & <- & Hx). unfold L in Hx. apply in_flat_map in Hx.
        destruct Hx as ([p psC] & HinC & Hx). pose proof (sends1_dst _ _ _ _ Hx) as Hp. cbn [w_of wm_dst] in Hd. rewrite Hp in Hd. subst p.
        assert (psC = psj) by (eapply NoDup_keys_in_eq; [apply (ck_keys _ _ HCC) | exact HinC | exact Hinj]). subst psC. eauto. }
      destruct H7 as [(cl & ps & E & Hin & Hr & Htr & Hnone)|(cl & ps & E & Hin & (t & Hss) & Htr & Hsf & Hall & Hfull & (m0 & Hm0 & A0 & B0))];
        rewrite Hcl in E; injection E as <-.
      - (* the timer fires: the full wantlist *)
        assert (HinA : In (j, MkPeer (p_conns ps) (p_ss ps) (p_wl ps) true) (cs_peers (after_timer (n_client n)))).
        { unfold after_timer. change (timer_ready (set_queue (n_client n) [])) with (timer_ready (n_client n)). rewrite Htr.
          cbn [fire_timer set_queue cs_peers]. apply in_map_iff. exists (j, ps). auto. }
        rewrite <- HpC in HinA. set (psC := MkPeer (p_conns ps) (p_ss ps) (p_wl ps) true) in *.
        pose proof (ck_peers _ _ HCC _ _ HinA) as (Hst & _ & _). pose proof (ck_wl _ _ HCC) as Hw.
        destruct (gen_full_ok (cs_wl sC) (p_wl psC) Hw Hst) as [Hst' Hen].
        pose proof (gen_full_entries_NoDup (p_wl psC) (cs_wl sC) Hw (proj1 Hst)) as Hnd.
        assert (Hrg : forall x, In x (wl_cids (cs_wl sC)) -> rget x (snd (wls_generate_full (p_wl psC) (cs_wl sC))) = Some SentWantHave).
        { intros x Hx. rewrite gen_full_rget. pose proof Hx as Hm. apply cid_mem_In in Hm. rewrite Hm, (st_ok_in_wl _ _ _ Hst Hx). reflexivity. }
        destruct (wls_generate_full (p_wl psC) (cs_wl sC)) as [es wls'] eqn:Eg. cbn [fst snd] in *.
        assert (Ef : fin1 (now s) (cs_wl sC) (j, psC) = (j, MkPeer [CONN] (SsSending (now s) CONN) wls' false)).
        { unfold fin1. cbn [fst snd psC p_ss p_send_full p_wl]. rewrite Hr. cbn [p_wl psC] in Eg. rewrite Eg. reflexivity. }
        assert (Es : sends1 (cs_wl sC) (j, psC) = [(j, CONN, true, es)]).
        { unfold sends1. cbn [fst snd psC p_ss p_send_full p_wl]. rewrite Hr. cbn [p_wl psC] in Eg. rewrite Eg. reflexivity. }
        assert (Hlen : (length es <= 1024)%nat).
        { assert (Hl : (length (map snd es) <= length (wl_cids (cs_wl sC)))%nat).
          { apply NoDup_incl_length; [exact Hnd|]. intros y Hy. apply in_map_iff in Hy.
            destruct Hy as ([k0 y'] & <- & Hy). apply Hen in Hy. apply Hy. }
          rewrite map_length in Hl. unfold wl_i in H6. rewrite Hcl, <- HwC in H6. unfold gen_entry in *. lia. }
        exists cF, (MkPeer [CONN] (SsSending (now s) CONN) wls' false). split; [exact Hcl'|]. split.
        { cbn [cF set_peers cs_peers]. apply in_map_iff. exists (j, psC). split; [exact Ef | exact HinA]. }
        split; [eexists; reflexivity|]. split; [exact HtrF|]. split; [reflexivity|]. split; [exact Hrg|]. split.
        + intros m Hm Hsrc Hd. unfold s' in Hm. cbn [wire_w] in Hm. apply in_app_iff in Hm.
          destruct Hm as [Hm|Hm]; [exfalso; exact (Hnone m Hm Hsrc Hd)|].
          destruct (Hdst m psC HinA Hm Hd) as (x & -> & Hx). rewrite Es in Hx. destruct Hx as [<-|[]].
          split; [reflexivity|]. split; [|exact Hlen]. cbn [w_of wm_entries snd]. intros k0 x Hx. apply Hen in Hx. exact Hx.
        + exists (MkW i j true es). split; [|auto]. unfold s'. cbn [wire_w]. apply in_app_iff. right.
          apply in_map_iff. exists (j, CONN, true, es). split; [reflexivity|]. unfold L. apply in_flat_map. exists (j, psC). split; [exact HinA|].
          rewrite Es. left. reflexivity.
      - (* already sent: the handler is busy *)
        assert (Eat : after_timer (n_client n) = set_queue (n_client n) []).
        { unfold after_timer. change (timer_ready (set_queue (n_client n) [])) with (timer_ready (n_client n)). rewrite Htr. reflexivity. }
        rewrite Eat in HpC. cbn [set_queue cs_peers] in HpC. rewrite <- HpC in Hin.
        assert (Ef : fin1 (now s) (cs_wl sC) (j, ps) = (j, ps)) by (unfold fin1; cbn [fst snd]; rewrite Hss; reflexivity).
        assert (Es : sends1 (cs_wl sC) (j, ps) = []) by (unfold sends1; cbn [fst snd]; rewrite Hss; reflexivity).
        exists cF, ps. split; [exact Hcl'|]. split.
        { cbn [cF set_peers cs_peers]. apply in_map_iff. exists (j, ps). split; [exact Ef | exact Hin]. }
        split; [eauto|]. split; [exact HtrF|]. split; [exact Hsf|]. split; [cbn [cF set_peers set_new_blocks set_queue cs_wl]; rewrite HwC; exact Hall|]. split.
        + intros m Hm Hsrc Hd. unfold s' in Hm. cbn [wire_w] in Hm. apply in_app_iff in Hm. destruct Hm as [Hm|Hm].
          * destruct (Hfull m Hm Hsrc Hd) as (F1 & F2 & F3). split; [exact F1|]. split; [|exact F3].
            cbn [cF set_peers set_new_blocks set_queue cs_wl]. rewrite HwC. exact F2.
          * destruct (Hdst m ps Hin Hm Hd) as (x & _ & Hx). rewrite Es in Hx. destruct Hx.
        + exists m0. split; [unfold s'; cbn [wire_w]; apply in_app_iff; auto | auto]. }
    destruct Hi' as [Hi' Hwl]. split.
    - constructor; try assumption.
      + reflexivity.
      + rewrite Hwl. exact H6.
      + destruct Hi' as [(_ & HA & HF)|[_ HF]]; [destruct H7 as [H7|H7]; [left; apply HA, H7 | right; apply HF, H7] | right; exact HF].
    - intros ->. destruct Hi' as [(Hne & _)|[_ HF]]; [contradiction | exact HF].
  Qed.

  Lemma QP_polls ks : forall s, QP s ->
    QP (fst (nrun Sz Hh s (map NPoll ks))) /\ (QF s \/ In i ks -> QF (fst (nrun Sz Hh s (map NPoll ks)))).
  Proof.
    induction ks as [|k ks IH]; intros s HQ; cbn [map].
    - cbn [nrun fst]. split; [exact HQ|]. intros [H|[]]. exact H.
    - rewrite (nrun_cons Sz Hh). cbn [fst]. destruct (QP_poll s k HQ) as [HQ1 HF1]. destruct (IH _ HQ1) as [HQ2 HF2].
      split; [exact HQ2|]. intros H. apply HF2. destruct H as [H|[->|H]]; [|left; apply HF1; reflexivity | right; exact H].
      destruct (N.eq_dec k i) as [->|Hne]; [left; apply HF1; reflexivity|].
      (* a poll elsewhere keeps QF: it is the QF disjunct of QP_poll's invariant *)
      left. pose proof HQ1 as [_ _ _ _ _ _ [HA|HF]]; [|exact HF].
      (* QA after the poll contradicts QF before it: the full wantlist is still on the wire *)
      exfalso. destruct H as (cl & ps & E & _ & _ & _ & _ & _ & _ & (m0 & Hm0 & A0 & B0)).
      destruct HA as (cl' & ps' & _ & _ & _ & _ & Hnone).
      cbn [nstep] in Hnone. destruct (get_node s k) as [n|] eqn:Hg; [|unfold do_poll in Hnone; rewrite Hg in Hnone; exact (Hnone m0 Hm0 A0 B0)].
      destruct (do_poll_shape Sz s k n Hg) as (n2 & ws & bs & Es & _). rewrite Es in Hnone.
      apply (Hnone m0); [cbn [wire_w]; apply in_app_iff; auto | exact A0 | exact B0].
  Qed.

  (* ---------- the delivery phase ---------- *)
  Record QW (s : net) : Prop := MkQW {
    qw_ok : net_ok Sz Hh s;
    qw_wf : net_wf Sz s;
    qw_conn : Net.connected s i j = true;
    qw_wb : wire_b s = [];
    qw_cli : exists cl ps, client_of s i = Some cl /\ In (j, ps) (cs_peers cl) /\ no_gets cl /\ timer_ready cl = false /\
                           p_send_full ps = false /\ all_swh (cs_wl cl) (p_wl ps) /\
                           (forall m, In m (wire_w s) -> wm_src m = i -> wm_dst m = j -> full_ok cl m) /\
                           ((exists m, In m (wire_w s) /\ wm_src m = i /\ wm_dst m = j) \/
                            (Wc s -> rget c (p_wl ps) = Some SentWantHave))
  }.

  Lemma QP_QW s : QP s -> QF s -> QW s.
  Proof.
    intros [H1 H2 H3 H4 H5 H6 _] (cl & ps & E & Hin & _ & Htr & Hsf & Hall & Hfull & Hex). constructor; try assumption.
    exists cl, ps. split; [exact E|]. split; [exact Hin|]. split; [|auto 10].
    unfold client_of in E. destruct (get_node s i) as [n|] eqn:Hg; [|discriminate]. injection E as <-.
    destruct (H5 _ _ Hg) as (_ & _ & Ht & _). intros tid t Hint. rewrite Ht in Hint. destruct Hint.
  Qed.

  Lemma full_msg_rev st p sdh es order x :
    Server_inv.Inv st -> s_panic st = false -> (forall k y, In (k, y) es -> wf_cid Sz y) ->
    wantsP (s_wants (fst (sstep_l Sz st (SMsg p (proto_of sdh true es) order)))) p x ->
    exists k, k <> KCancel /\ In (k, x) es.
  Proof.
    intros (HW & _ & _) Hp Hes. unfold sstep_l. rewrite Hp. cbn [fst]. unfold process_incoming_message.
    destruct (alookup N.eqb p (s_wants st)) as [old|] eqn:Eo.
    2:{ intros (s0 & Hs0 & _). congruence. }
    destruct (proj2 HW _ _ Eo) as [Hnd Hlo].
    destruct (process_wantlist Sz old (proto_of sdh true es)) as [|new adds rems] eqn:Epw;
      [exfalso; eapply process_wantlist_no_panic; eassumption|].
    destruct (process_wantlist_spec Sz old _ new adds rems Hnd Hlo Epw) as [_ Hnew]. cbn [s_wants].
    intros (s0 & Hs0 & Hc). rewrite (alookup_aset_eq N.eqb Server_lemmas.Neqb_spec) in Hs0. injection Hs0 as <-.
    rewrite Hnew in Hc. unfold view_msg in Hc. cbn [proto_of w_full w_entries] in Hc.
    apply add_capped_sub in Hc. destruct Hc as [Hc|[]]. eapply entry_cids_false_rev; eassumption.
  Qed.

  Lemma deliver_w_wire s a b m rest :
    take_first (w_between a b) (wire_w s) = Some (m, rest) -> wire_w (fst (do_deliver_w Sz Hh s a b)) = rest.
  Proof.
    intros Et. destruct (get_node s a) as [na|] eqn:Ha; [destruct (get_node s b) as [nb|] eqn:Hb|].
    - apply (deliver_w_effect Sz Hh s a b m rest na nb Et Ha Hb).
    - unfold do_deliver_w. rewrite Et.
      change (get_node (MkNet (nodes s) (conns s) rest (wire_b s) (now s)) a) with (get_node s a).
      change (get_node (MkNet (nodes s) (conns s) rest (wire_b s) (now s)) b) with (get_node s b). rewrite Ha, Hb. reflexivity.
    - unfold do_deliver_w. rewrite Et.
      change (get_node (MkNet (nodes s) (conns s) rest (wire_b s) (now s)) a) with (get_node s a). rewrite Ha. reflexivity.
  Qed.

  Lemma QW_drop s rest a b m :
    QW s -> take_first (w_between a b) (wire_w s) = Some (m, rest) ->
    net_ok Sz Hh (MkNet (nodes s) (conns s) rest (wire_b s) (now s)) -> ~ (a = i /\ b = j) ->
    QW (MkNet (nodes s) (conns s) rest (wire_b s) (now s)).
  Proof.
    intros [H1 H2 H3 H4 H5] Et Hok' Hnot. destruct (take_first_spec _ _ _ _ Et) as (Hm & Hab & Hsub & Hrest).
    unfold w_between in Hab. apply andb_true_iff in Hab. destruct Hab as [Hsrc Hdst]. apply N.eqb_eq in Hsrc, Hdst.
    destruct H5 as (cl & ps & E & Hin & Hng & Htr & Hsf & Hall & Hfull & Hdis).
    constructor; try assumption.
    exists cl, ps. split; [exact E|]. split; [exact Hin|]. split; [exact Hng|]. split; [exact Htr|]. split; [exact Hsf|]. split; [exact Hall|].
    cbn [wire_w]. split.
    - intros m' Hm' A B. apply Hfull; auto.
    - destruct Hdis as [(m0 & Hm0 & A0 & B0)|Hr]; [|right; exact Hr].
      destruct (Hrest m0 Hm0) as [->|Hr0]; [exfalso; apply Hnot; split; congruence | left; exists m0; auto].
  Qed.

  Lemma QW_deliver_w s a b : QW s -> QW (fst (nstep Sz Hh s (NDeliverW a b))).
  Proof.
    intros HQ. pose proof HQ as [H1 H2 H3 H4 H5].
    assert (Hok' : net_ok Sz Hh (fst (nstep Sz Hh s (NDeliverW a b)))) by (apply net_ok_step; [exact HSz | exact I | exact H1]).
    assert (Hwf' : net_wf Sz (fst (nstep Sz Hh s (NDeliverW a b)))) by (apply (net_wf_step Sz Hh HSz); [exact H1 | exact I | exact H2]).
    cbn [nstep] in *.
    destruct (take_first (w_between a b) (wire_w s)) as [[m rest]|] eqn:Et; [|unfold do_deliver_w in *; rewrite Et in *; exact HQ].
    destruct (take_first_spec _ _ _ _ Et) as (Hm & Hab & Hsub & Hrest).
    unfold w_between in Hab. apply andb_true_iff in Hab. destruct Hab as [Hsrc Hdst]. apply N.eqb_eq in Hsrc, Hdst.
    destruct (connected_neq Sz Hh HSz s i j H1 H3) as (_ & Hei & Hej).
    destruct (get_node s a) as [na|] eqn:Ha; [destruct (get_node s b) as [nb|] eqn:Hb|].
    2,3: (assert (Es : fst (do_deliver_w Sz Hh s a b) = MkNet (nodes s) (conns s) rest (wire_b s) (now s))
           by (unfold do_deliver_w; rewrite Et;
               change (get_node (MkNet (nodes s) (conns s) rest (wire_b s) (now s)) a) with (get_node s a);
               change (get_node (MkNet (nodes s) (conns s) rest (wire_b s) (now s)) b) with (get_node s b);
               rewrite ?Ha, ?Hb; reflexivity);
         rewrite Es in *; apply (QW_drop s rest a b m HQ Et Hok'); intros [-> ->]; congruence).
    destruct (deliver_w_effect Sz Hh s a b m rest na nb Et Ha Hb) as (Ec & Eww & Ewb & Est & Esv & Esvb & Eclx & Ecla).
    set (s' := fst (do_deliver_w Sz Hh s a b)) in *.
    destruct H5 as (cl & ps & E & Hin & Hng & Htr & Hsf & Hall & Hfull & Hdis).
    (* client i afterwards *)
    assert (Hcli : exists cl' ps', client_of s' i = Some cl' /\ In (j, ps') (cs_peers cl') /\ cs_wl cl' = cs_wl cl /\ cs_tasks cl' = cs_tasks cl /\
                     cs_now cl' = cs_now cl /\ cs_deadline cl' = cs_deadline cl /\ p_wl ps' = p_wl ps /\ p_send_full ps' = p_send_full ps).
    { destruct (N.eq_dec i a) as [<-|Hne].
      - unfold client_of in E. rewrite Ha in E. cbn [option_map] in E. injection E as <-.
        eexists. cbn [c_report set_peers cs_peers]. unfold al_modify. destruct (b =? j) eqn:Ebj.
        + eexists. split; [exact Ecla|]. split; [apply in_map_iff; exists (j, ps); cbn [fst snd]; rewrite Ebj; split; [reflexivity | exact Hin]|].
          cbn [c_report set_peers cs_wl cs_tasks cs_now cs_deadline]. destruct (report_accepted ps CONN); auto 10.
        + exists ps. split; [exact Ecla|]. split; [apply in_map_iff; exists (j, ps); cbn [fst snd]; rewrite Ebj; auto|]. auto 10.
      - exists cl, ps. rewrite Eclx by exact Hne. auto 10. }
    destruct Hcli as (cl' & ps' & E' & Hin' & Ew & Etk & En & Ed & Epw & Esf).
    (* j's want set for i afterwards *)
    assert (HW2 : Wc s' -> (Wc s /\ ~ (a = i /\ b = j)) \/ rget c (p_wl ps) = Some SentWantHave).
    { intros (st & Est' & Hw). destruct (N.eq_dec b j) as [->|Hbj].
      - rewrite Esvb in Est'. injection Est' as <-. pose proof (no_nodes _ _ _ H1 _ _ Hb) as Hn. destruct (nk_sv _ _ _ _ _ Hn) as (HI & _ & Hpn & _).
        assert (Hsj : server_of s j = Some (n_server nb)) by (unfold server_of; rewrite Hb; reflexivity).
        unfold srv_after_w in Hw. destruct (wm_full m || negb (is_nil (wm_entries m))) eqn:Econd.
        + unfold srv in Hw. destruct (N.eq_dec a i) as [->|Hai].
          * right. destruct (Hfull m Hm Hsrc Hdst) as (Hf & Hes & _). rewrite Hf in Hw.
            assert (Hwfe : forall k y, In (k, y) (wm_entries m) -> wf_cid Sz y).
            { intros k y Hy. destruct (Hes _ _ Hy) as [_ Hy']. unfold client_of in E. destruct (get_node s i) as [ni|] eqn:Hgi; [|discriminate].
              injection E as <-. apply (cw_wl _ _ (H2 _ _ Hgi)), Hy'. }
            destruct (full_msg_rev _ _ _ _ _ _ HI Hpn Hwfe Hw) as (k & _ & Hk). destruct (Hes _ _ Hk) as [_ Hc]. apply Hall, Hc.
          * left. split; [|intros [? _]; congruence]. exists (n_server nb). split; [exact Hsj|]. eapply (msg_other_rev Sz); [exact Hai | exact Hw].
        + destruct (N.eq_dec a i) as [->|Hai].
          * exfalso. destruct (Hfull m Hm Hsrc Hdst) as (Hf & _). rewrite Hf in Econd. discriminate.
          * left. split; [exists (n_server nb); auto | intros [? _]; congruence].
      - left. split; [exists st; rewrite <- (Esv j) by congruence; auto | intros [_ ?]; congruence]. }
    constructor; try assumption.
    - unfold Net.connected in *. rewrite Ec. exact H3.
    - rewrite Ewb. exact H4.
    - exists cl', ps'. split; [exact E'|]. split; [exact Hin'|]. split; [unfold no_gets; rewrite Etk; exact Hng|].
      split; [unfold timer_ready in *; rewrite En, Ed; exact Htr|]. split; [congruence|]. split; [rewrite Ew, Epw; exact Hall|]. split.
      + intros m' Hm' A B. rewrite Eww in Hm'. destruct (Hfull m' (Hsub _ Hm') A B) as (F1 & F2 & F3). split; [exact F1|]. split; [rewrite Ew; exact F2 | exact F3].
      + rewrite Epw. destruct Hdis as [(m0 & Hm0 & A0 & B0)|Hr].
        * destruct (Hrest m0 Hm0) as [->|Hr0]; [|left; exists m0; rewrite Eww; auto].
          right. intros Hw'. destruct (HW2 Hw') as [[_ Hn]|Hr]; [exfalso; apply Hn; split; congruence | exact Hr].
        * right. intros Hw'. destruct (HW2 Hw') as [[Hw0 _]|Hr0]; [apply Hr, Hw0 | exact Hr0].
  Qed.
End Round1.
