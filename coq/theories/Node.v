(* Node.v — one beetswap node: the client half (Client.v), the server half (Server.v), a healthy
   blockstore and the store calls that are outstanding, glued as /repo/src/lib.rs glues them.
   Definitions only; the theorems are in Net_proofs*.v.

   What is modelled, and how
   * `Behaviour::poll` (lib.rs:261-281) called until it returns Pending = `node_poll`:
       client.poll until Pending            -> `CPoll []`   (the model's own connection choice: with an empty
                                               `choice` Client.v falls back to the first connection of its own
                                               list and says `OBadChoice`, which is dropped here);
       server.new_blocks_available(client.get_new_blocks()) if non-empty -> `CTakeNewBlocks`, `SNewBlocks`;
       server.poll until Pending            -> `SPoll`.
     Every `Poll::Ready(ev)` of the Rust returns to the swarm, which polls again; since the state persists the
     sequence of calls until Pending is this one pass (client.poll is idle the second time: Client_proofs3
     `uh_loop_idem`).
   * `on_connection_handler_event` IncomingMessage: the client part goes to the client, then the server part
     to the server (`node_incoming_blocks`, `node_incoming_wantlist`); what a remote beetswap node sends
     carries either a wantlist (client handler) or blocks (server handler), never both.
   * The blockstore is HEALTHY: an association list cid -> data, `get c` answers what was last put for c
     unless it was evicted, a call never fails.  A store call started by a poll (`OGet`/`OPut` of the client,
     `OGet` of the server) is queued in `n_calls`; its completion is the explicit step `node_store k`
     (k-th oldest outstanding call), so any latency and completion order is a schedule.  A `put_many` writes
     the store at completion time.
   * `Behaviour::get<CS>` converts the CID to the configured capacity (`convert_cid`, utils.rs); an
     unconvertible CID is `CGet None`.
   * `OPanic` / `OOutOfFuel` of the client (proved unreachable in Client_proofs/Client_proofs4) and the
     server's `s_panic` are not hidden: `LFault` is emitted. *)
From BS Require Export Bytes Cid Prefix Hasher Proto Types Convert Incoming Wantlist Client Server.
Open Scope N_scope.

(* an outstanding blockstore call of a node *)
Inductive scall :=
| KCGet (n : N) (c : cid)                      (* client call n : store.get(c) *)
| KCPut (n : N) (bl : list (cid * bytes))      (* client call n : store.put_many_keyed(bl) *)
| KSGet (n : N) (c : cid).                     (* server call n : store.get(c) *)

Record node := MkNode {
  n_client : cstate;
  n_server : sstate;
  n_store : list (cid * bytes);
  n_calls : list scall                         (* oldest first *)
}.

Definition node_init : node := MkNode (cinit true) sinit [] [].

(* ---------- the blockstore ---------- *)
Definition store_get (st : list (cid * bytes)) (c : cid) : store_result :=
  match al_find cid_eqb c st with Some d => SHit d | None => SMiss end.
Definition store_put (st : list (cid * bytes)) (b : cid * bytes) : list (cid * bytes) :=
  al_set cid_eqb (fst b) (snd b) st.
Definition store_put_many (st : list (cid * bytes)) (bl : list (cid * bytes)) : list (cid * bytes) :=
  fold_left store_put bl st.
Definition store_evict (st : list (cid * bytes)) (c : cid) : list (cid * bytes) := al_remove cid_eqb c st.

(* ---------- what a node hands to its environment ---------- *)
Inductive lev :=                                 (* Event of lib.rs, plus the model-fault marker *)
| LResponse (q : qid) (data : bytes)
| LError (q : qid) (kind : N)
| LFault.

Record nouts := MkOuts {
  o_events : list lev;
  o_wants : list (peer * conn * bool * list gen_entry);   (* ToHandlerEvent::SendWantlist, NotifyHandler::One *)
  o_blocks : list (peer * list (cid * bytes))             (* ToHandlerEvent::QueueOutgoingMessages, labelled *)
}.

Definition outs_nil : nouts := MkOuts [] [] [].

Fixpoint cl_events (l : list cout) : list lev :=
  match l with
  | [] => []
  | OResponse q d :: r => LResponse q d :: cl_events r
  | OError q k :: r => LError q k :: cl_events r
  | OPanic :: r => LFault :: cl_events r
  | OOutOfFuel :: r => LFault :: cl_events r
  | _ :: r => cl_events r
  end.

Fixpoint cl_wants (l : list cout) : list (peer * conn * bool * list gen_entry) :=
  match l with
  | [] => []
  | OSendWantlist p c f es :: r => (p, c, f, es) :: cl_wants r
  | _ :: r => cl_wants r
  end.

Fixpoint cl_calls (l : list cout) : list scall :=
  match l with
  | [] => []
  | Client.OGet n c :: r => KCGet n c :: cl_calls r
  | OPut n bl :: r => KCPut n bl :: cl_calls r
  | _ :: r => cl_calls r
  end.

Fixpoint cl_new_blocks (l : list cout) : list (cid * bytes) :=
  match l with
  | [] => []
  | ONewBlocks bl :: r => bl ++ cl_new_blocks r
  | _ :: r => cl_new_blocks r
  end.

Fixpoint sv_calls (l : list lout) : list scall :=
  match l with
  | [] => []
  | LGet k c :: r => KSGet k c :: sv_calls r
  | _ :: r => sv_calls r
  end.

Fixpoint sv_blocks (l : list lout) : list (peer * list (cid * bytes)) :=
  match l with
  | [] => []
  | LSend p bl :: r => (p, bl) :: sv_blocks r
  | _ :: r => sv_blocks r
  end.

Section WithS.
  Variable Sz : N.                       (* MAX_MULTIHASH_SIZE *)

  (* the server half's step, faults made visible *)
  Definition srv (st : sstate) (op : sop) : sstate * list lout := sstep_l Sz st op.

  (* ---------- Behaviour::poll until Pending ---------- *)
  Definition node_poll (n : node) : node * nouts :=
    let (c1, o1) := cstep (n_client n) (CPoll []) in
    let (c2, o2) := cstep c1 CTakeNewBlocks in
    let nb := cl_new_blocks o2 in
    let s1 := match nb with [] => n_server n | _ => fst (srv (n_server n) (SNewBlocks nb)) end in
    let (s2, o3) := srv s1 SPoll in
    (MkNode c2 s2 (n_store n) (n_calls n ++ cl_calls o1 ++ sv_calls o3),
     MkOuts (cl_events o1 ++ (if s_panic s2 then [LFault] else [])) (cl_wants o1) (sv_blocks o3)).

  (* ---------- completion of the k-th oldest outstanding store call ---------- *)
  Fixpoint remove_nth {A} (k : nat) (l : list A) : list A :=
    match l, k with
    | [], _ => []
    | _ :: r, O => r
    | x :: r, S k' => x :: remove_nth k' r
    end.

  Definition node_store (n : node) (k : N) : node :=
    match nth_error (n_calls n) (N.to_nat k) with
    | None => n
    | Some call =>
        let calls' := remove_nth (N.to_nat k) (n_calls n) in
        match call with
        | KCGet m c =>
            MkNode (fst (cstep (n_client n) (CRelease m (store_get (n_store n) c))))
                   (n_server n) (n_store n) calls'
        | KCPut m bl =>
            MkNode (fst (cstep (n_client n) (CRelease m (SHit []))))
                   (n_server n) (store_put_many (n_store n) bl) calls'
        | KSGet m c =>
            MkNode (n_client n) (fst (srv (n_server n) (SRelease m (store_get (n_store n) c))))
                   (n_store n) calls'
        end
    end.

  (* ---------- application calls ---------- *)
  Definition node_get (n : node) (c : cid) : node :=
    MkNode (fst (cstep (n_client n) (CGet (convert_cid Sz c)))) (n_server n) (n_store n) (n_calls n).
  Definition node_cancel (n : node) (q : qid) : node :=
    MkNode (fst (cstep (n_client n) (CCancel q))) (n_server n) (n_store n) (n_calls n).
  Definition node_put (n : node) (c : cid) (d : bytes) : node :=
    MkNode (n_client n) (n_server n) (store_put (n_store n) (c, d)) (n_calls n).
  Definition node_evict (n : node) (c : cid) : node :=
    MkNode (n_client n) (n_server n) (store_evict (n_store n) c) (n_calls n).
  Definition node_advance (n : node) (ms : N) : node :=
    MkNode (fst (cstep (n_client n) (CAdvance ms))) (n_server n) (n_store n) (n_calls n).

  (* ---------- swarm events ---------- *)
  (* handle_established_*_connection: both halves create their handler *)
  Definition node_connected (n : node) (p : peer) (c : conn) : node :=
    MkNode (fst (cstep (n_client n) (CNewConn p c))) (fst (srv (n_server n) (SNewConn p)))
           (n_store n) (n_calls n).
  (* FromSwarm::ConnectionClosed with remaining_established = 0 (one connection per peer) *)
  Definition node_disconnected (n : node) (p : peer) (c : conn) : node :=
    MkNode (fst (cstep (n_client n) (CConnClosed p c))) (fst (srv (n_server n) (SDisconnected p)))
           (n_store n) (n_calls n).
  (* ToBehaviourEvent::SendingStateChanged *)
  Definition node_report (n : node) (p : peer) (c : conn) (r : sending_report) : node :=
    MkNode (fst (cstep (n_client n) (CReport p c r))) (n_server n) (n_store n) (n_calls n).

  (* ---------- ToBehaviourEvent::IncomingMessage ---------- *)
  Variable Hh : hash_fn.                 (* the multihasher table *)

  Definition to_pres (x : cid * presence_type) : cid * bool :=
    (fst x, match snd x with PHave => true | PDontHave => false end).

  (* one processed message: client part first, then server part (lib.rs:238-246).  `order` for a full
     wantlist = the model's own iteration order of the new want set. *)
  Definition node_incoming (n : node) (p : peer) (m : message) : node * list lev :=
    match process_message Sz Hh m with
    | PmOk inc =>
        let (c1, o1) :=
          match in_client inc with
          | Some cm => cstep (n_client n) (CIncoming p (map to_pres (cm_presences cm)) (cm_blocks cm))
          | None => (n_client n, [])
          end in
        let s1 :=
          match in_server inc with
          | Some w =>
              let order := match full_collect Sz (w_entries w) [] with Some l => l | None => [] end in
              fst (srv (n_server n) (SMsg p w order))
          | None => n_server n
          end in
        (MkNode c1 s1 (n_store n) (n_calls n), cl_events o1 ++ (if s_panic s1 then [LFault] else []))
    | PmClose => (n, [])                  (* the inbound stream is closed, nothing reaches the behaviour *)
    | PmPanic => (n, [LFault])
    end.

  (* the message a client handler writes for a generated wantlist (client.rs:568-571) *)
  Definition wantlist_message (sdh full : bool) (es : list gen_entry) : message :=
    MkMessage (Some (proto_of sdh full es)) [] [] 0.

  (* the message a server handler writes for a batch (server.rs: payload = (prefix, data) pairs) *)
  Definition blocks_message (bl : list (cid * bytes)) : message :=
    MkMessage None (map (fun b => MkBlock (fst (erase_block b)) (snd (erase_block b))) bl) [] 0.
End WithS.
