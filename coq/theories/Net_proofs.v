(* Net_proofs.v — item 0 of package F: executable scenarios of the composition (Node.v / Net.v), all by
   vm_compute.  They double as regression tests of the glue.  The theorems are in Net_proofs2.v ….

   Setting of the examples: MAX_MULTIHASH_SIZE = 64; a toy multihasher table that knows code 0x12 only and
   "hashes" by padding / cutting the data to 32 bytes (no property of the hash is used anywhere);
   node numbers: A = 0, B = 1, C = 2. *)
From BS Require Import Net.
Open Scope N_scope.

Definition toyH : hash_fn := fun code data =>
  if code =? 18 then HOk (MkMh 18 (firstn 32 (data ++ repeat 0 32))) else HErr UnknownMultihashCode.
Definition SZ : N := 64.
Definition cid_of (d : bytes) : cid := MkCid V1 85 (MkMh 18 (firstn 32 (d ++ repeat 0 32))).
Definition d1 : bytes := [1; 2; 3].
Definition c1 : cid := cid_of d1.

Definition run (n : nat) (ops : list nop) : net * list nevent := nrun SZ toyH (net_init n) ops.
(* continue a run: more steps / one `settle` / one `refresh`; the events accumulate *)
Definition then_ops (ops : list nop) (x : net * list nevent) : net * list nevent :=
  let (s, e) := x in let (s', e') := nrun SZ toyH s ops in (s', e ++ e').
Definition then_settle (x : net * list nevent) : net * list nevent :=
  let (s, e) := x in let (s', e') := settle SZ toyH s in (s', e ++ e').
Definition then_refresh (x : net * list nevent) : net * list nevent :=
  let (s, e) := x in let (s', e') := refresh SZ toyH s in (s', e ++ e').

(* what is observed of a run: the events so far, and whether the net is quiet (settle converged) *)
Definition obs (x : net * list nevent) : list nevent * bool := (snd x, quietb (fst x)).

Example c1_valid : valid_block SZ toyH c1 d1 = true.
Proof. vm_compute. reflexivity. Qed.

(* 1. two nodes, B holds c, A asks: answered by one settle *)
Definition ex_direct := then_settle (run 2 [NPut 1 c1 d1; NConnect 0 1; NGet 0 c1]).
Example ex_direct_events : obs ex_direct = ([EResponse 0 0 d1], true).
Proof. vm_compute. reflexivity. Qed.

(* 2. get before connect: nothing while alone, answered by the settle after the connection *)
Definition ex_get_first_a := then_settle (run 2 [NPut 1 c1 d1; NGet 0 c1]).
Definition ex_get_first := then_settle (then_ops [NConnect 0 1] ex_get_first_a).
Example ex_get_first_events : obs ex_get_first_a = ([], true) /\ obs ex_get_first = ([EResponse 0 0 d1], true).
Proof. split; vm_compute; reflexivity. Qed.

(* 3. two concurrent queries for one CID: both answered, once each *)
Definition ex_concurrent := then_settle (run 2 [NPut 1 c1 d1; NConnect 0 1; NGet 0 c1; NGet 0 c1]).
Example ex_concurrent_events : obs ex_concurrent = ([EResponse 0 0 d1; EResponse 0 1 d1], true).
Proof. vm_compute. reflexivity. Qed.

(* 4. the F6 scenario: A fetched c from B (and stored it), A's store evicts it, A asks again: B is asked
      again (wanted_again) and serves again (it forgot the served want): answered by one settle *)
Definition ex_refetch := then_settle (then_ops [NEvict 0 c1; NGet 0 c1] ex_direct).
Example ex_refetch_events : obs ex_refetch = ([EResponse 0 0 d1; EResponse 0 1 d1], true).
Proof. vm_compute. reflexivity. Qed.

(* 5. the F15 scenario: A's want reached B and missed; the application puts c into B's store behind
      beetswap's back: settle alone finds nothing, the next full wantlist (refresh) makes B look again *)
Definition ex_late_put_a := then_settle (then_ops [NPut 1 c1 d1] (then_settle (run 2 [NConnect 0 1; NGet 0 c1]))).
Definition ex_late_put := then_refresh ex_late_put_a.
Example ex_late_put_events : obs ex_late_put_a = ([], true) /\ obs ex_late_put = ([EResponse 0 0 d1], true).
Proof. split; vm_compute; reflexivity. Qed.

(* 6. chain A - B - C, only C holds c, A and B both ask: B is answered by C, stores the block, and its server
      forwards it to A; one settle suffices here, a refresh adds nothing *)
Definition ex_chain := then_settle (run 3 [NPut 2 c1 d1; NConnect 0 1; NConnect 1 2; NGet 0 c1; NGet 1 c1]).
Example ex_chain_events :
  obs ex_chain = ([EResponse 1 0 d1; EResponse 0 0 d1], true) /\ obs (then_refresh ex_chain) = obs ex_chain.
Proof. split; vm_compute; reflexivity. Qed.
(* … and when B does not ask itself, nothing is relayed (Bitswap has no forwarding), not even by a refresh *)
Definition ex_chain_no_relay :=
  then_refresh (then_settle (run 3 [NPut 2 c1 d1; NConnect 0 1; NConnect 1 2; NGet 0 c1])).
Example ex_chain_no_relay_events : obs ex_chain_no_relay = ([], true).
Proof. vm_compute. reflexivity. Qed.

(* 7. cancel of one of two queries for the same CID: the cancelled one stays silent, the other is answered
      (here by the refresh, because the block appears at B only after the want missed) *)
Definition ex_cancel_a := then_settle (then_ops [NCancel 0 0] (then_settle (run 2 [NConnect 0 1; NGet 0 c1; NGet 0 c1]))).
Definition ex_cancel := then_refresh (then_settle (then_ops [NPut 1 c1 d1] ex_cancel_a)).
Example ex_cancel_events : obs ex_cancel_a = ([], true) /\ obs ex_cancel = ([EResponse 0 1 d1], true).
Proof. split; vm_compute; reflexivity. Qed.

(* 8. FINDING (composition level): `settle` alone is not enough even when the connected peer holds the block
      all the time; the refresh clause of C02 is needed.  A asks B and C for c (query 0) and asks again (query 1)
      while query 1's local lookup is still outstanding; C's block arrives (query 0 answered, c leaves the
      wantlist), B's copy arrives and is ignored — B has forgotten the want by serving it —, the lookup of query 1
      completes with a miss (the put of the received block has not run yet), C goes away.  c re-enters A's wantlist,
      but A's record of B still says "WANT_HAVE c sent", so nothing is sent to B: after `settle` the net is
      quiet, query 1 is live, B is connected and holds c (and so does A's own store, by now).  Only the next
      full wantlist repairs it. *)
Definition gap_ops : list nop :=
  [NPut 1 c1 d1; NPut 2 c1 d1; NConnect 0 1; NConnect 0 2;
   NGet 0 c1; NPoll 0; NStore 0 0; NDeliverW 0 1; NDeliverW 0 2; NPoll 0; NDeliverW 0 1; NDeliverW 0 2;
   NPoll 1; NStore 1 0; NPoll 1; NPoll 2; NStore 2 0; NPoll 2;
   NGet 0 c1; NPoll 0;
   NDeliverB 2 0; NDeliverB 1 0; NStore 0 0; NDisconnect 0 2].
Definition ex_gap_a := then_settle (run 3 gap_ops).
Definition ex_gap := then_refresh ex_gap_a.
Example ex_gap_events :
  obs ex_gap_a = ([EResponse 0 0 d1], true) /\
  option_map (fun n => cs_c2q (n_client n)) (get_node (fst ex_gap_a) 0) = Some [(c1, [1])] /\
  connected (fst ex_gap_a) 0 1 = true /\
  option_map (fun n => store_get (n_store n) c1) (get_node (fst ex_gap_a) 1) = Some (SHit d1) /\
  option_map (fun n => store_get (n_store n) c1) (get_node (fst ex_gap_a) 0) = Some (SHit d1) /\
  option_map (fun n => s_wants (n_server n)) (get_node (fst ex_gap_a) 1) = Some [(0, [])] /\
  obs ex_gap = ([EResponse 0 0 d1; EResponse 0 1 d1], true).
Proof. repeat split; vm_compute; reflexivity. Qed.

(* 9. why Net.v lets the handler report `Sending` at hand-over: a client whose handler has not acknowledged
      the SendWantlist request within RECEIVE_REQUEST_TIMEOUT (1 s) drops the connection from its own list and,
      it being the last one, the whole peer entry — the libp2p connection stays up (keep-alive depends on
      `halted` only) and nothing ever re-creates the entry, so the peer is never asked again. *)
Example stalled_handler_drops_peer :
  map fst (cs_peers (snd (crun [CNewConn 1 0; CPoll []; CAdvance 1000]))) = [1] /\
  cs_peers (snd (crun [CNewConn 1 0; CPoll []; CAdvance 1000; CPoll []])) = [].
Proof. split; vm_compute; reflexivity. Qed.
