(* Tie_client.v — what ClientBehaviour::update_handlers of /repo/src/client.rs does with each SendingState at a poll, what a
   send leaves behind, and the refresh timer, as regenerated into Extracted.v on every run, against Client.v: the model's
   gate `uh_gate` IS the interpretation of the extracted table. *)
From BS Require Import Bytes Types Wantlist Client Extracted.
Open Scope N_scope.

Definition state_index (ss : sending_state) : N :=
  match ss with SsReady => 0 | SsRequested _ _ => 1 | SsRequestReceived _ _ => 2 | SsSending _ _ => 3 | SsFailed _ => 4 end.

(* the three statements of a fault arm: drop that connection, send_full = true, sending_state = Ready *)
Definition fault_of (ps : peer_state) (c : conn) : peer_state := MkPeer (n_remove c (p_conns ps)) SsReady (p_wl ps) true.

Fixpoint lookupN (k : N) (t : list (N * N)) : option N :=
  match t with [] => None | (a, b) :: r => if a =? k then Some b else lookupN k r end.

(* effect codes of the translator: 0 allowed, 1 wait until RECEIVE_REQUEST_TIMEOUT then fault, 2 wait, 3 fault *)
Definition interp_gate (t : list (N * N)) (now : time) (ps : peer_state) : option peer_state :=
  match lookupN (state_index (p_ss ps)) t with
  | Some 0 => Some ps
  | Some 2 => None
  | Some 1 => match p_ss ps with
              | SsRequested t0 c => if now - t0 <? RECEIVE_REQUEST_TIMEOUT then None else Some (fault_of ps c)
              | _ => None
              end
  | Some 3 => match p_ss ps with
              | SsFailed c | SsRequested _ c | SsRequestReceived _ c | SsSending _ c => Some (fault_of ps c)
              | SsReady => None
              end
  | _ => None
  end.

Lemma tie_uh_gate : forall now ps, uh_gate now ps = interp_gate Extracted.uh_table now ps.
Proof. intros now ps. unfold uh_gate, interp_gate. destruct (p_ss ps); reflexivity. Qed.

Lemma tie_uh_after : Extracted.uh_after = [0; 0; 0; 0; 0; 0].  Proof. reflexivity. Qed.
Lemma tie_refresh_timer : Extracted.refresh_timer_shape = 0.  Proof. reflexivity. Qed.
