(* Server_lemmas.v — generic lemmas used by the server proofs: decidable equality of CIDs,
   association lists, CID sets, swap_remove. *)
From BS Require Import Server.
From Coq Require Import ZArith ZifyBool ZifyN ZifyNat Lia Permutation.
Open Scope N_scope.

(* ---------------------------------------------------------------- equality of CIDs *)
Lemma version_eqb_spec a b : version_eqb a b = true <-> a = b.
Proof. destruct a, b; cbn; split; congruence. Qed.

Lemma mh_eqb_spec a b : mh_eqb a b = true <-> a = b.
Proof.
  destruct a as [ca da], b as [cb db]; unfold mh_eqb; cbn.
  rewrite andb_true_iff, N.eqb_eq, bytes_eqb_spec.
  split; [intros [-> ->]; reflexivity | intros [= -> ->]; auto].
Qed.

Lemma cid_eqb_spec a b : cid_eqb a b = true <-> a = b.
Proof.
  destruct a as [va ca ha], b as [vb cb hb]; unfold cid_eqb; cbn.
  rewrite !andb_true_iff, version_eqb_spec, N.eqb_eq, mh_eqb_spec.
  split; [intros [[-> ->] ->]; reflexivity | intros [= -> -> ->]; auto].
Qed.

Lemma cid_eqb_refl a : cid_eqb a a = true.
Proof. apply cid_eqb_spec; reflexivity. Qed.

Lemma cid_eqb_false a b : cid_eqb a b = false <-> a <> b.
Proof.
  split.
  - intros H E. apply cid_eqb_spec in E. congruence.
  - intros H. destruct (cid_eqb a b) eqn:E; [|reflexivity]. apply cid_eqb_spec in E. contradiction.
Qed.

Lemma cid_eq_dec (a b : cid) : {a = b} + {a <> b}.
Proof.
  destruct (cid_eqb a b) eqn:E; [left; apply cid_eqb_spec; assumption | right; apply cid_eqb_false; assumption].
Qed.

Lemma Neqb_spec (a b : N) : (a =? b) = true <-> a = b.
Proof. apply N.eqb_eq. Qed.

Lemma NoDup_app_intro {A} (l1 l2 : list A) :
  NoDup l1 -> NoDup l2 -> (forall x, In x l1 -> In x l2 -> False) -> NoDup (l1 ++ l2).
Proof.
  induction l1 as [|a l1 IH]; cbn; intros H1 H2 Hd; [assumption|].
  inversion H1 as [|? ? Hni Hnd]; subst. constructor.
  - rewrite in_app_iff. intros [H|H]; [contradiction|]. apply (Hd a); auto.
  - apply IH; auto. intros x Hx Hx2. apply (Hd x); auto.
Qed.

Lemma NoDup_app_inv {A} (l1 l2 : list A) :
  NoDup (l1 ++ l2) -> NoDup l1 /\ NoDup l2 /\ (forall x, In x l1 -> In x l2 -> False).
Proof.
  induction l1 as [|a l1 IH]; cbn; intros H.
  - repeat split; [constructor | assumption | tauto].
  - inversion H as [|? ? Hni Hnd]; subst. destruct (IH Hnd) as (H1 & H2 & H3).
    rewrite in_app_iff in Hni. repeat split.
    + constructor; tauto.
    + assumption.
    + intros x [<-|Hx] Hx2; [tauto|]. apply (H3 x); assumption.
Qed.

(* ---------------------------------------------------------------- association lists *)
Section AssocLemmas.
  Context {K V : Type} (eqb : K -> K -> bool).
  Hypothesis eqb_spec : forall x y, eqb x y = true <-> x = y.

  Lemma eqb_refl' x : eqb x x = true.
  Proof. apply eqb_spec; reflexivity. Qed.

  Lemma eqb_neq x y : x <> y -> eqb x y = false.
  Proof. intros H. destruct (eqb x y) eqn:E; [|reflexivity]. apply eqb_spec in E. contradiction. Qed.

  Lemma K_dec (x y : K) : x = y \/ x <> y.
  Proof.
    destruct (eqb x y) eqn:E; [left; apply eqb_spec; assumption|].
    right; intros ->. rewrite eqb_refl' in E. discriminate.
  Qed.

  Lemma alookup_aset_eq k (v : V) m : alookup eqb k (aset eqb k v m) = Some v.
  Proof.
    induction m as [|[k' v'] m IH]; cbn.
    - rewrite eqb_refl'. reflexivity.
    - destruct (eqb k k') eqn:E; cbn; rewrite E; auto.
  Qed.

  Lemma alookup_aset_neq k k' (v : V) m : k' <> k -> alookup eqb k' (aset eqb k v m) = alookup eqb k' m.
  Proof.
    intros Hne. induction m as [|[k0 v0] m IH]; cbn.
    - rewrite (eqb_neq _ _ Hne). reflexivity.
    - destruct (eqb k k0) eqn:E; cbn.
      + apply eqb_spec in E. subst k0. rewrite (eqb_neq _ _ Hne). reflexivity.
      + rewrite IH. reflexivity.
  Qed.

  Lemma alookup_adel_eq k (m : list (K * V)) : alookup eqb k (adel eqb k m) = None.
  Proof.
    unfold adel. induction m as [|[k0 v0] m IH]; cbn; [reflexivity|].
    destruct (eqb k k0) eqn:E; cbn; [assumption|]. rewrite E. assumption.
  Qed.

  Lemma alookup_adel_neq k k' (m : list (K * V)) :
    k' <> k -> alookup eqb k' (adel eqb k m) = alookup eqb k' m.
  Proof.
    intros Hne. unfold adel. induction m as [|[k0 v0] m IH]; cbn; [reflexivity|].
    destruct (eqb k k0) eqn:E; cbn.
    - apply eqb_spec in E. subst k0. rewrite (eqb_neq _ _ Hne). assumption.
    - rewrite IH. reflexivity.
  Qed.

  Lemma alookup_app k (m m' : list (K * V)) :
    alookup eqb k (m ++ m') = match alookup eqb k m with Some v => Some v | None => alookup eqb k m' end.
  Proof.
    induction m as [|[k0 v0] m IH]; cbn; [reflexivity|]. destruct (eqb k k0); auto.
  Qed.

  Lemma alookup_None k (m : list (K * V)) : alookup eqb k m = None <-> ~ In k (map fst m).
  Proof.
    induction m as [|[k0 v0] m IH]; cbn; [tauto|].
    destruct (eqb k k0) eqn:E.
    - apply eqb_spec in E. subst. split; [discriminate|]. intros H. exfalso. apply H. auto.
    - rewrite IH. split; [|tauto]. intros H [H1|H1]; [|tauto]. subst. rewrite eqb_refl' in E. discriminate.
  Qed.

  Lemma alookup_Some_In k v (m : list (K * V)) : alookup eqb k m = Some v -> In (k, v) m.
  Proof.
    induction m as [|[k0 v0] m IH]; cbn; [discriminate|].
    destruct (eqb k k0) eqn:E.
    - apply eqb_spec in E. intros [= ->]. subst. auto.
    - auto.
  Qed.

  Lemma alookup_Some_key k v (m : list (K * V)) : alookup eqb k m = Some v -> In k (map fst m).
  Proof. intros H. apply alookup_Some_In in H. apply (in_map fst) in H. exact H. Qed.

  Lemma In_alookup k v (m : list (K * V)) :
    NoDup (map fst m) -> In (k, v) m -> alookup eqb k m = Some v.
  Proof.
    induction m as [|[k0 v0] m IH]; cbn; [tauto|]. intros Hnd [H|H].
    - injection H as -> ->. rewrite eqb_refl'. reflexivity.
    - inversion Hnd as [|? ? Hni Hnd']; subst.
      destruct (eqb k k0) eqn:E.
      + apply eqb_spec in E. subst. exfalso. apply Hni. apply (in_map fst) in H. exact H.
      + auto.
  Qed.

  Lemma keys_aset_present k (v : V) m :
    alookup eqb k m <> None -> map fst (aset eqb k v m) = map fst m.
  Proof.
    induction m as [|[k0 v0] m IH]; cbn; [congruence|].
    destruct (eqb k k0) eqn:E; cbn; [reflexivity|]. intros H. rewrite IH; auto.
  Qed.

  Lemma keys_aset_absent k (v : V) m :
    alookup eqb k m = None -> aset eqb k v m = m ++ [(k, v)].
  Proof.
    induction m as [|[k0 v0] m IH]; cbn; [reflexivity|].
    destruct (eqb k k0) eqn:E; [discriminate|]. intros H. rewrite IH; auto.
  Qed.

  Lemma keys_adel k k' (m : list (K * V)) :
    In k' (map fst (adel eqb k m)) <-> k' <> k /\ In k' (map fst m).
  Proof.
    unfold adel. induction m as [|[k0 v0] m IH]; cbn; [tauto|].
    destruct (eqb k k0) eqn:E; cbn.
    - apply eqb_spec in E. subst k0. rewrite IH. split; [tauto|]. intros [H1 [H2|H2]]; [congruence|tauto].
    - rewrite IH. split.
      + intros [H|H]; [|tauto]. subst k0. split; [|auto]. intros ->. rewrite eqb_refl' in E. discriminate.
      + tauto.
  Qed.

  Lemma NoDup_keys_adel k (m : list (K * V)) : NoDup (map fst m) -> NoDup (map fst (adel eqb k m)).
  Proof.
    induction m as [|[k0 v0] m IH]; cbn; [auto|]. intros Hnd.
    inversion Hnd as [|? ? Hni Hnd']; subst.
    destruct (eqb k k0) eqn:E; cbn; [auto|]. constructor; [|auto].
    intros H. apply (keys_adel k k0 m) in H. tauto.
  Qed.

  Lemma NoDup_keys_aset k (v : V) m : NoDup (map fst m) -> NoDup (map fst (aset eqb k v m)).
  Proof.
    intros Hnd. destruct (alookup eqb k m) eqn:E.
    - rewrite keys_aset_present by congruence. assumption.
    - rewrite keys_aset_absent by assumption. rewrite map_app. cbn.
      apply alookup_None in E.
      apply NoDup_app_intro; [assumption | repeat constructor; cbn; tauto |].
      intros x Hx [<-|[]]. contradiction.
  Qed.
End AssocLemmas.

Arguments alookup_aset_eq {K V} eqb eqb_spec.
Arguments alookup_aset_neq {K V} eqb eqb_spec.
Arguments alookup_adel_eq {K V} eqb.
Arguments alookup_adel_neq {K V} eqb eqb_spec.

(* ---------------------------------------------------------------- sets of CIDs *)
Lemma cmem_spec c s : cmem c s = true <-> In c s.
Proof.
  unfold cmem. rewrite existsb_exists. split.
  - intros (x & Hx & E). apply cid_eqb_spec in E. subst. assumption.
  - intros H. exists c. split; [assumption | apply cid_eqb_refl].
Qed.

Lemma cmem_false c s : cmem c s = false <-> ~ In c s.
Proof.
  rewrite <- cmem_spec. destruct (cmem c s); split; intros H; congruence.
Qed.

Lemma In_cid_dec (c : cid) s : In c s \/ ~ In c s.
Proof. destruct (cmem c s) eqn:E; [left; apply cmem_spec | right; apply cmem_false]; assumption. Qed.

Lemma cadd_In x c s : In x (cadd c s) <-> x = c \/ In x s.
Proof.
  unfold cadd. destruct (cmem c s) eqn:E.
  - apply cmem_spec in E. split; [auto|]. intros [->|H]; auto.
  - rewrite in_app_iff. cbn. split; [intros [H|[H|[]]]; auto | intros [H|H]; auto].
Qed.

Lemma cadd_NoDup c s : NoDup s -> NoDup (cadd c s).
Proof.
  unfold cadd. destruct (cmem c s) eqn:E; [auto|]. intros H. apply cmem_false in E.
  apply NoDup_app_intro; [assumption | repeat constructor; cbn; tauto |].
  intros x Hx [<-|[]]. contradiction.
Qed.

Lemma cadd_len c s : len (cadd c s) <= len s + 1.
Proof. unfold cadd. destruct (cmem c s); [lia|]. rewrite len_app. cbn. lia. Qed.

Lemma cremove_In x c s : In x (cremove c s) <-> x <> c /\ In x s.
Proof.
  unfold cremove. rewrite filter_In, negb_true_iff, cid_eqb_false. split; intros [H1 H2]; split; auto.
Qed.

Lemma cremove_NoDup c s : NoDup s -> NoDup (cremove c s).
Proof. apply NoDup_filter. Qed.

Lemma filter_len {A} (f : A -> bool) l : len (filter f l) <= len l.
Proof.
  unfold len. induction l as [|x l IH]; cbn; [lia|]. destruct (f x); cbn; lia.
Qed.

Lemma cremove_len c s : len (cremove c s) <= len s.
Proof. apply filter_len. Qed.

Lemma cremove_notin c s : ~ In c s -> cremove c s = s.
Proof.
  unfold cremove. induction s as [|x s IH]; cbn; [reflexivity|]. intros H.
  destruct (cid_eqb c x) eqn:E.
  - apply cid_eqb_spec in E. subst. exfalso. auto.
  - cbn. rewrite IH; auto.
Qed.

Lemma cremove_comm a b s : cremove a (cremove b s) = cremove b (cremove a s).
Proof.
  unfold cremove. induction s as [|x s IH]; cbn; [reflexivity|].
  destruct (cid_eqb b x) eqn:Eb, (cid_eqb a x) eqn:Ea; cbn; rewrite ?Ea, ?Eb; cbn; rewrite IH; reflexivity.
Qed.

Lemma cset_fold_In l : forall acc x, In x (fold_left (fun s c => cadd c s) l acc) <-> In x acc \/ In x l.
Proof.
  induction l as [|c l IH]; cbn; intros acc x; [tauto|].
  rewrite IH, cadd_In. split; [intros [[H|H]|H]; auto | intros [H|[H|H]]; auto].
Qed.

Lemma cset_fold_NoDup l : forall acc, NoDup acc -> NoDup (fold_left (fun s c => cadd c s) l acc).
Proof. induction l as [|c l IH]; cbn; intros acc H; [assumption|]. apply IH, cadd_NoDup, H. Qed.

Lemma cset_fold_len l : forall acc, len (fold_left (fun s c => cadd c s) l acc) <= len acc + len l.
Proof.
  induction l as [|c l IH]; cbn [fold_left]; intros acc; [rewrite len_nil; lia|].
  specialize (IH (cadd c acc)). pose proof (cadd_len c acc). rewrite len_cons. lia.
Qed.

Lemma cset_of_list_In l x : In x (cset_of_list l) <-> In x l.
Proof. unfold cset_of_list. rewrite cset_fold_In. cbn. tauto. Qed.

Lemma cset_of_list_NoDup l : NoDup (cset_of_list l).
Proof. apply cset_fold_NoDup. constructor. Qed.

Lemma cset_of_list_len l : len (cset_of_list l) <= len l.
Proof. unfold cset_of_list. pose proof (cset_fold_len l []). rewrite len_nil in *. lia. Qed.

(* ---------------------------------------------------------------- swap_remove *)
Lemma swap_remove_first_notin p l : ~ In p l -> swap_remove_first p l = l.
Proof.
  induction l as [|q l IH]; cbn; [reflexivity|]. intros H.
  destruct (q =? p) eqn:E; [exfalso; apply H; left; lia|]. rewrite IH; auto.
Qed.

Lemma swap_remove_first_perm p l : In p l -> Permutation l (p :: swap_remove_first p l).
Proof.
  induction l as [|q l IH]; cbn; [tauto|]. intros H.
  destruct (q =? p) eqn:E.
  - assert (q = p) by lia. subst q. constructor.
    destruct (rev l) as [|z r] eqn:Er.
    + apply (f_equal (@rev _)) in Er. rewrite rev_involutive in Er. subst. constructor.
    + apply (f_equal (@rev _)) in Er. rewrite rev_involutive in Er. subst l. cbn.
      symmetry. apply Permutation_cons_append.
  - destruct H as [H|H]; [lia|]. specialize (IH H).
    eapply perm_trans; [apply perm_skip, IH|]. apply perm_swap.
Qed.

Lemma swap_remove_first_In p l q :
  NoDup l -> (In q (swap_remove_first p l) <-> In q l /\ q <> p).
Proof.
  intros Hnd. destruct (in_dec N.eq_dec p l) as [Hin|Hni].
  - pose proof (swap_remove_first_perm p l Hin) as HP.
    assert (Hnd' : NoDup (p :: swap_remove_first p l)) by (eapply Permutation_NoDup; eassumption).
    inversion Hnd' as [|? ? Hni Hnd'']; subst. split.
    + intros H. split.
      * eapply Permutation_in; [symmetry; exact HP|]. right. assumption.
      * intros ->. contradiction.
    + intros [H Hne]. apply (Permutation_in _ HP) in H. destruct H as [H|H]; [congruence|assumption].
  - rewrite swap_remove_first_notin by assumption. split; [|tauto].
    intros H. split; [assumption|]. intros ->. contradiction.
Qed.

Lemma swap_remove_first_NoDup p l : NoDup l -> NoDup (swap_remove_first p l).
Proof.
  intros Hnd. destruct (in_dec N.eq_dec p l) as [Hin|Hni].
  - pose proof (swap_remove_first_perm p l Hin) as HP.
    assert (Hnd' : NoDup (p :: swap_remove_first p l)) by (eapply Permutation_NoDup; eassumption).
    inversion Hnd'; assumption.
  - rewrite swap_remove_first_notin; assumption.
Qed.

Lemma swap_remove_first_nonempty p l : NoDup l -> l <> [] -> l <> [p] -> swap_remove_first p l <> [].
Proof.
  intros Hnd Hne Hne1 E. destruct (in_dec N.eq_dec p l) as [Hin|Hni].
  - pose proof (swap_remove_first_perm p l Hin) as HP. rewrite E in HP.
    symmetry in HP. apply Permutation_length_1_inv in HP. contradiction.
  - rewrite swap_remove_first_notin in E; auto.
Qed.

Lemma list_eqb_N_spec (a b : list N) : list_eqb N.eqb a b = true <-> a = b.
Proof. apply list_eqb_spec. apply N.eqb_eq. Qed.
