(* NetF_proofs.v — package P, part 1: basic facts of `frun`; the invariant `wire_conn` (a wantlist in flight travels on an
   established connection); closing the connection ABSORBS a failed wantlist: `do_disconnect` after `FFailW i j true` is
   `do_disconnect` after `NDeliverW i j`, `do_disconnect` after `FFailW i j false` is `do_disconnect` alone.  Hence a run whose
   every fault is followed at once by the close of its connection (`NDisconnect i j` or `FReconnect i j`) IS a fault-free run
   (`episodic_run`), and everything proved about reachable fault-free nets holds of it. *)
From BS Require Import Server_lemmas Server_inv Wantlist_proofs Client_proofs Client_proofs2 Client_proofs3 Client_proofs4
  Net Net_proofs2 Net_proofs3 Net_proofs4 Net_proofs5 Net_proofs6 Net_proofs7 Net_proofs9 Net_proofs10 NetF.
From Coq Require Import ZArith ZifyBool ZifyN ZifyNat Lia.
Open Scope N_scope.

(* ---------- association lists ---------- *)
Lemma al_remove_modify_same {V} (k : N) (f : V -> V) (l : list (N * V)) :
  al_remove N.eqb k (al_modify N.eqb k f l) = al_remove N.eqb k l.
Proof.
  unfold al_remove, al_modify. induction l as [|[k0 v0] l IH]; [reflexivity|]. cbn [map filter fst snd].
  destruct (k =? k0) eqn:E; cbn [fst]; rewrite E; cbn [negb]; rewrite IH; reflexivity.
Qed.

Lemma set_nth_set_nth {A} k (x y : A) l : set_nth k x (set_nth k y l) = set_nth k x l.
Proof. revert k; induction l as [|z l IH]; intros [|k]; cbn; try reflexivity. f_equal. apply IH. Qed.

Lemma take_first_filter {A} (f g : A -> bool) l x r :
  take_first f l = Some (x, r) -> (forall y, f y = true -> g y = false) -> filter g r = filter g l.
Proof.
  revert r. induction l as [|y l IH]; intros r; cbn [take_first]; [discriminate|]. destruct (f y) eqn:E.
  - intros [= <- <-] Hfg. cbn [filter]. rewrite (Hfg y E). reflexivity.
  - destruct (take_first f l) as [[x' r']|]; [|discriminate]. intros [= <- <-] Hfg. cbn [filter]. rewrite (IH r' eq_refl Hfg). reflexivity.
Qed.

(* ---------- frun ---------- *)
Section Basics.
  Variables (Sz : N) (Hh : hash_fn).

  Lemma fstep_FOp s o : fstep Sz Hh s (FOp o) = nstep Sz Hh s o.
  Proof. reflexivity. Qed.

  Lemma frun_cons s o ops :
    frun Sz Hh s (o :: ops) =
    (fst (frun Sz Hh (fst (fstep Sz Hh s o)) ops), snd (fstep Sz Hh s o) ++ snd (frun Sz Hh (fst (fstep Sz Hh s o)) ops)).
  Proof. cbn [frun]. destruct (fstep Sz Hh s o) as [s1 e1]. cbn [fst snd]. destruct (frun Sz Hh s1 ops); reflexivity. Qed.

  Lemma frun_app s a b :
    frun Sz Hh s (a ++ b) =
    (fst (frun Sz Hh (fst (frun Sz Hh s a)) b), snd (frun Sz Hh s a) ++ snd (frun Sz Hh (fst (frun Sz Hh s a)) b)).
  Proof.
    revert s. induction a as [|o a IH]; intros s.
    - cbn. destruct (frun Sz Hh s b); reflexivity.
    - cbn [app]. rewrite !frun_cons, IH. cbn [fst snd]. rewrite app_assoc. reflexivity.
  Qed.

  Lemma frun_FOp ops : forall s, frun Sz Hh s (map FOp ops) = nrun Sz Hh s ops.
  Proof.
    induction ops as [|o ops IH]; intros s; [reflexivity|]. cbn [map]. rewrite frun_cons, (nrun_cons Sz Hh), IH. reflexivity.
  Qed.

  (* the ghost history rides beside the run *)
  Lemma frun_h_run ops : forall s, fst (frun_h Sz Hh s ops) = frun Sz Hh s ops.
  Proof.
    induction ops as [|o ops IH]; intros s; [reflexivity|]. cbn [frun_h frun]. destruct (fstep Sz Hh s o) as [s1 e1].
    specialize (IH s1). destruct (frun_h Sz Hh s1 ops) as [[s2 e2] h2]. cbn [fst] in *. rewrite <- IH. reflexivity.
  Qed.
End Basics.

(* ---------- a wantlist in flight travels on an established connection ---------- *)
Definition wire_conn (s : net) : Prop := forall m, In m (wire_w s) -> Net.connected s (wm_src m) (wm_dst m) = true.

Lemma connected_conns s s' a b : conns s' = conns s -> Net.connected s' a b = Net.connected s a b.
Proof. unfold Net.connected. intros ->. reflexivity. Qed.

Lemma wire_conn_same s s' :
  conns s' = conns s -> (forall m, In m (wire_w s') -> In m (wire_w s)) -> wire_conn s -> wire_conn s'.
Proof. intros Ec Hw H m Hm. rewrite (connected_conns s s' _ _ Ec). apply H, Hw, Hm. Qed.

Lemma on_node_conns s i f : conns (on_node s i f) = conns s.
Proof. unfold on_node. destruct (get_node s i); reflexivity. Qed.
Lemma on_node_wire_w s i f : wire_w (on_node s i f) = wire_w s.
Proof. unfold on_node. destruct (get_node s i); reflexivity. Qed.
Lemma on_node_wire_b s i f : wire_b (on_node s i f) = wire_b s.
Proof. unfold on_node. destruct (get_node s i); reflexivity. Qed.
Lemma on_node_now s i f : now (on_node s i f) = now s.
Proof. unfold on_node. destruct (get_node s i); reflexivity. Qed.

Lemma hand_over_conn s i L : forall acc,
  (forall m, In m (snd acc) -> Net.connected s (wm_src m) (wm_dst m) = true) ->
  forall m, In m (snd (fold_left (hand_over s i) L acc)) -> Net.connected s (wm_src m) (wm_dst m) = true.
Proof.
  induction L as [|x L IH]; intros acc Ha; cbn [fold_left]; [exact Ha|]. apply IH.
  destruct x as [[[p cn] f] es]. unfold hand_over. destruct (Net.connected s i p) eqn:Ec; cbn [snd]; [|exact Ha].
  intros m Hm. apply in_app_iff in Hm. destruct Hm as [Hm|[<-|[]]]; [apply Ha, Hm | exact Ec].
Qed.

(* the pairs in `conns` are ordered, hence between two different nodes *)
Definition conns_lt (s : net) : Prop := forall a b, In (a, b) (conns s) -> a < b.

Lemma conns_lt_neq s i j : conns_lt s -> Net.connected s i j = true -> i <> j.
Proof.
  intros H Hc. apply connected_In in Hc. unfold norm in Hc. destruct (i <? j) eqn:E; apply H in Hc; lia.
Qed.

Section WireConn.
  Variables (Sz : N) (Hh : hash_fn).
  Hypothesis HSz : 32 <= Sz.

  Lemma net_ok_conns_lt s : net_ok Sz Hh s -> conns_lt s.
  Proof. intros Hok a b Hab. apply (no_conns Sz Hh s Hok a b Hab). Qed.

  Lemma wire_conn_init n : wire_conn (net_init n).
  Proof. intros m []. Qed.

  Lemma wire_conn_step s o : conns_lt s -> wire_conn s -> wire_conn (fst (nstep Sz Hh s o)).
  Proof.
    intros Hlt H. destruct o; cbn [nstep fst].
    - (* connect *)
      unfold do_connect. destruct (get_node s i) as [ni|]; [|exact H]. destruct (get_node s j) as [nj|]; [|exact H].
      destruct ((i =? j) || Net.connected s i j); [exact H|]. intros m Hm. cbn [wire_w] in Hm.
      unfold Net.connected. cbn [conns]. rewrite existsb_app. apply orb_true_iff. left. apply (H m Hm).
    - (* disconnect *)
      unfold do_disconnect. destruct (get_node s i) as [ni|]; [|exact H]. destruct (get_node s j) as [nj|]; [|exact H].
      destruct (Net.connected s i j) eqn:Ec; [|exact H]. pose proof (conns_lt_neq s i j Hlt Ec) as Hij.
      intros m Hm. cbn [wire_w] in Hm. apply filter_In in Hm. destruct Hm as [Hm Ht].
      pose proof (H m Hm) as Hc. apply connected_In in Hc. apply connected_In. cbn [conns]. apply filter_In. split; [exact Hc|].
      destruct (pair_eqb (norm i j) (norm (wm_src m) (wm_dst m))) eqn:E; [|reflexivity]. exfalso.
      apply pair_eqb_spec in E. symmetry in E. apply (norm_eq i j _ _ Hij) in E.
      unfold w_touches, w_between in Ht. destruct E as [[E1 E2]|[E1 E2]]; rewrite E1, E2, !N.eqb_refl in Ht; cbn in Ht;
        [discriminate | rewrite orb_true_r in Ht; discriminate].
    - apply (wire_conn_same s); [apply on_node_conns | rewrite on_node_wire_w; auto | exact H].
    - apply (wire_conn_same s); [apply on_node_conns | rewrite on_node_wire_w; auto | exact H].
    - apply (wire_conn_same s); [apply on_node_conns | rewrite on_node_wire_w; auto | exact H].
    - apply (wire_conn_same s); [apply on_node_conns | rewrite on_node_wire_w; auto | exact H].
    - apply (wire_conn_same s); [reflexivity | auto | exact H].
    - (* poll *)
      unfold do_poll. destruct (get_node s i) as [n|]; [|exact H]. destruct (node_poll Sz n) as [n1 o].
      pose proof (hand_over_conn s i (o_wants o) (n1, []) (fun m Hm => match Hm with end)) as Hs.
      destruct (fold_left (hand_over s i) (o_wants o) (n1, [])) as [n2 ws]. cbn [fst snd] in *.
      intros m Hm. cbn [wire_w] in Hm. unfold Net.connected. cbn [conns]. apply in_app_iff in Hm.
      destruct Hm as [Hm|Hm]; [apply (H m Hm) | apply (Hs m Hm)].
    - apply (wire_conn_same s); [apply on_node_conns | rewrite on_node_wire_w; auto | exact H].
    - (* deliver a wantlist *)
      unfold do_deliver_w. destruct (take_first (w_between i j) (wire_w s)) as [[m rest]|] eqn:Et; [|exact H].
      destruct (take_first_spec _ _ _ _ Et) as (_ & _ & Hsub & _).
      change (get_node {| nodes := nodes s; conns := conns s; wire_w := rest; wire_b := wire_b s; now := now s |}) with (get_node s).
      destruct (get_node s i) as [ni|]; [destruct (get_node s j) as [nj|]|].
      + match goal with |- context [node_incoming Sz Hh nj i ?M] => destruct (node_incoming Sz Hh nj i M) as [nj1 evs] end. cbn [fst].
        apply (wire_conn_same s); [rewrite on_node_conns; reflexivity | rewrite on_node_wire_w; exact Hsub | exact H].
      + apply (wire_conn_same s); [reflexivity | exact Hsub | exact H].
      + apply (wire_conn_same s); [reflexivity | exact Hsub | exact H].
    - (* deliver blocks *)
      unfold do_deliver_b. destruct (take_first (b_between j i) (wire_b s)) as [[m rest]|]; [|exact H].
      destruct (get_node s i) as [ni|].
      + match goal with |- context [node_incoming Sz Hh ni j ?M] => destruct (node_incoming Sz Hh ni j M) as [ni1 evs] end. cbn [fst]. apply (wire_conn_same s); [reflexivity | auto | exact H].
      + apply (wire_conn_same s); [reflexivity | auto | exact H].
  Qed.

  Lemma wire_conn_run ops : forall s,
    Forall (nop_good Sz Hh) ops -> net_ok Sz Hh s -> wire_conn s -> wire_conn (fst (nrun Sz Hh s ops)).
  Proof.
    induction ops as [|o ops IH]; intros s Hg Hok H; [exact H|]. rewrite (nrun_cons Sz Hh). cbn [fst].
    inversion Hg; subst. apply IH; [assumption | apply net_ok_step; assumption | apply wire_conn_step; [apply net_ok_conns_lt|]; assumption].
  Qed.

  (* ---------- the connection's close absorbs the report ---------- *)
  Lemma c_conn_closed_report c j r :
    (forall ps, al_find N.eqb j (cs_peers c) = Some ps -> p_conns ps = [CONN]) ->
    c_conn_closed (c_report c j CONN r) j CONN = c_conn_closed c j CONN.
  Proof.
    intros Hc. unfold c_conn_closed, c_report. cbn [set_peers cs_peers]. rewrite (al_find_modify _ Neqb_spec), N.eqb_refl.
    destruct (al_find N.eqb j (cs_peers c)) as [ps|] eqn:E; cbn [option_map].
    - specialize (Hc ps eq_refl).
      assert (E1 : p_conns (remove_conn CONN (if report_accepted ps CONN
                     then MkPeer (p_conns ps) (state_of_report (cs_now c) r) (p_wl ps) (p_send_full ps) else ps)) = []).
      { destruct (report_accepted ps CONN); cbn [remove_conn p_conns]; rewrite Hc; reflexivity. }
      assert (E2 : p_conns (remove_conn CONN ps) = []) by (cbn [remove_conn p_conns]; rewrite Hc; reflexivity).
      rewrite E1, E2. unfold set_peers. cbn [cs_queue cs_wl cs_peers cs_c2q cs_tasks cs_ready cs_next_task cs_abort cs_next_qid
        cs_deadline cs_new_blocks cs_now cs_next_call]. rewrite al_remove_modify_same. reflexivity.
    - unfold set_peers. cbn. rewrite (al_modify_absent _ Neqb_spec); [destruct c; reflexivity|].
      apply (al_find_none _ Neqb_spec). exact E.
  Qed.

  Lemma node_disconnected_report n j r :
    (forall ps, al_find N.eqb j (cs_peers (n_client n)) = Some ps -> p_conns ps = [CONN]) ->
    node_disconnected Sz (node_report n j CONN r) j CONN = node_disconnected Sz n j CONN.
  Proof.
    intros Hc. unfold node_disconnected, node_report. cbn [n_client n_server n_store n_calls cstep fst].
    rewrite (c_conn_closed_report _ _ _ Hc). reflexivity.
  Qed.

  Lemma peer_conns_ok s i n j ps :
    net_ok Sz Hh s -> get_node s i = Some n -> al_find N.eqb j (cs_peers (n_client n)) = Some ps -> p_conns ps = [CONN].
  Proof.
    intros Hok Hg Hf. apply (al_find_some_in _ Neqb_spec) in Hf.
    destruct (ck_peers _ _ (nk_ck _ _ _ _ _ (no_nodes Sz Hh s Hok i n Hg)) _ _ Hf) as (_ & _ & Hc). exact Hc.
  Qed.

  Lemma disconnect_absorbs_report s i j ni nj r :
    i <> j -> get_node s i = Some ni -> get_node s j = Some nj -> Net.connected s i j = true ->
    (forall ps, al_find N.eqb j (cs_peers (n_client ni)) = Some ps -> p_conns ps = [CONN]) ->
    do_disconnect Sz (on_node s i (fun n => node_report n j CONN r)) i j = do_disconnect Sz s i j.
  Proof.
    intros Hij Hi Hj Hc Hp. unfold on_node. rewrite Hi. unfold do_disconnect.
    rewrite (get_set_eq _ _ _ _ Hi), (get_set_neq _ _ _ _ Hij), Hi, Hj.
    rewrite (connected_conns s (set_node s i _) i j eq_refl), Hc. rewrite (node_disconnected_report ni j r Hp).
    unfold set_node. cbn [nodes conns wire_w wire_b now]. rewrite set_nth_set_nth. reflexivity.
  Qed.
End WireConn.
