(* Net_proofs47.v — package K: the block direction of the wire, by composing the client ghost with package G's
   C07_net_only_wanted: every block batch a node's client half ever received (a `CIncoming p [] bl` of its ghost) was
   delivered from a batch that a poll of node p dispatched for it, and every CID in it was, just before that poll, in p's
   reference view of this node's wants — a client is only ever handed blocks it asked that very peer for.
   Hypotheses: those of C07_net_only_wanted (32 <= Sz, the blocks put into stores by NPut are valid: nop_good). *)
From BS Require Import Types Wantlist Client Server Server_lemmas Server_inv Server_proofs Wantlist_proofs Client_proofs
  Net Net_proofs2 Net_proofs3 Net_proofs4 Net_proofs5 Net_proofs6 Net_proofs9 Net_proofs10 Net_proofs21 Net_proofs40.
From Coq Require Import ZArith ZifyBool ZifyN ZifyNat Lia.
Open Scope N_scope.

Section BlocksIn.
  Variables (Sz : N) (Hh : hash_fn).
  Hypothesis HSz : 32 <= Sz.
  Local Notation cl_ops := (cl_ops Sz Hh).
  Local Notation cops_run := (cops_run Sz Hh).

  Lemma cops_run_decomp ops : forall s k op,
    In op (cops_run s ops k) ->
    exists ops1 o ops2, ops = ops1 ++ o :: ops2 /\ In op (cl_ops (fst (nrun Sz Hh s ops1)) o k).
  Proof.
    induction ops as [|o ops IH]; intros s k op; [intros []|]. cbn [Net_proofs40.cops_run]. rewrite in_app_iff. intros [H|H].
    - exists [], o, ops. split; [reflexivity | exact H].
    - destruct (IH _ _ _ H) as (ops1 & o' & ops2 & -> & Hin). exists (o :: ops1), o', ops2. split; [reflexivity|].
      rewrite (nrun_cons Sz Hh). cbn [fst]. exact Hin.
  Qed.

  (* a CIncoming of the ghost comes from the delivery of a block batch *)
  Lemma cl_ops_incoming s o i p pres bl :
    In (CIncoming p pres bl) (cl_ops s o i) ->
    o = NDeliverB p i /\ exists m rest, take_first (b_between p i) (wire_b s) = Some (m, rest) /\
                                       In (CIncoming p pres bl) (inc_cops Sz Hh p (blocks_message (bm_blocks m))).
  Proof.
    destruct o; cbn [Net_proofs40.cl_ops].
    - destruct (get_node s i0); [|intros []]. destruct (get_node s j); [|intros []]. destruct ((i0 =? j) || Net.connected s i0 j); [intros []|].
      destruct (i =? j); [intros [[=]|[]]|]. destruct (i =? i0); [intros [[=]|[]] | intros []].
    - destruct (get_node s i0); [|intros []]. destruct (get_node s j); [|intros []]. destruct (Net.connected s i0 j); [|intros []].
      destruct (i =? j); [intros [[=]|[]]|]. destruct (i =? i0); [intros [[=]|[]] | intros []].
    - destruct (i =? i0); [intros [[=]|[]] | intros []].
    - destruct (i =? i0); [intros [[=]|[]] | intros []].
    - intros [].
    - intros [].
    - intros [[=]|[]].
    - destruct (i =? i0); [|intros []]. destruct (get_node s i0); [|intros []]. intros [[=]|[[=]|H]].
      apply in_map_iff in H. destruct H as (x & [=] & _).
    - destruct (i =? i0); [|intros []]. destruct (get_node s i0) as [n|]; [|intros []].
      destruct (nth_error (n_calls n) (N.to_nat k)) as [[x c|x b|x c]|]; try (intros []; fail); intros [[=]|[]].
    - destruct (i =? i0); [|intros []]. destruct (take_first (w_between i0 j) (wire_w s)); [|intros []].
      destruct (get_node s i0); [|intros []]. destruct (get_node s j); [intros [[=]|[]] | intros []].
    - destruct (i =? i0) eqn:E; [|intros []]. apply N.eqb_eq in E. subst i0.
      destruct (take_first (b_between j i) (wire_b s)) as [[m rest]|] eqn:Et; [|intros []].
      destruct (get_node s i); [|intros []]. intros H.
      assert (Hp : p = j).
      { unfold inc_cops in H. destruct (process_message Sz Hh _) as [inc| |]; try destruct H. destruct (in_client inc); [|destruct H].
        destruct H as [[= <- _ _]|[]]. reflexivity. }
      subst j. split; [reflexivity|]. exists m, rest. auto.
  Qed.

  Theorem client_receives_only_requested n ops i p pres bl c d :
    Forall (nop_good Sz Hh) ops ->
    In (CIncoming p pres bl) (cops_run (net_init n) ops i) -> In (c, d) bl ->
    pres = [] /\
    exists ops1 ops2 view,
      ops = ops1 ++ NPoll p :: ops2 /\
      sview Sz i (fst (srun_l Sz (sops_run Sz Hh (net_init n) ops1 p))) = Some view /\ In c view.
  Proof.
    intros Hg Hin Hcd. destruct (cops_run_decomp ops _ _ _ Hin) as (opsA & o & opsB & -> & Hstep).
    destruct (cl_ops_incoming _ _ _ _ _ _ Hstep) as (-> & m & rest & Et & Hinc).
    destruct (take_first_spec _ _ _ _ Et) as (Hm & Hb & _). unfold b_between in Hb. apply andb_true_iff in Hb. destruct Hb as [Hs Hd].
    apply N.eqb_eq in Hs, Hd.
    assert (HgA : Forall (nop_good Sz Hh) opsA) by (apply Forall_app in Hg; apply Hg).
    pose proof (reachable_ok Sz Hh HSz n opsA HgA) as Hok.
    pose proof (no_wire_b Sz Hh _ Hok m Hm) as Hgood.
    unfold inc_cops in Hinc. rewrite (process_blocks_message Sz Hh _ Hgood) in Hinc. cbn [in_client] in Hinc.
    destruct (bm_blocks m) as [|b0 bl0] eqn:Eb; [destruct Hinc|]. rewrite <- Eb in *. cbn [cm_presences cm_blocks map] in Hinc.
    destruct Hinc as [[= <- <-]|[]]. split; [reflexivity|].
    destruct (C07_net_only_wanted Sz Hh HSz n opsA HgA) as [_ Hw]. destruct (Hw m Hm) as (ops1 & ops2 & E & _ & Hview).
    assert (Hc : In c (map fst (bm_blocks m))).
    { apply (ins_all_in _ _ _) in Hcd. destruct Hcd as [[]|Hcd]. apply in_map_iff. exists (c, d). auto. }
    destruct (Hview c Hc) as (view & Hv & Hcv). rewrite Hs in E. rewrite Hs, Hd in Hv.
    exists ops1, (ops2 ++ NDeliverB p i :: opsB), view.
    split; [rewrite E, <- app_assoc; reflexivity|]. split; [exact Hv | exact Hcv].
  Qed.
End BlocksIn.
