(* Framed_proofs.v — properties C09 (buffer bound) and C10 (independence of chunk boundaries) of the
   `FramedRead2::poll_next` / `IncomingStream` model of Framed.v. *)
From BS Require Import Bytes Varint Varint_proofs Frame Frame_proofs Framed.
From Coq Require Import ZArith ZifyBool ZifyN ZifyNat Lia.
Open Scope N_scope.

Definition nonempty {A} (l : list A) : Prop := l <> [].

(* ---------- list helpers ---------- *)

Lemma app_eq_app_strict {A} (a b c d : list A) :
  a ++ b = c ++ d ->
  (exists l, a = c ++ l /\ d = l ++ b) \/ (exists l, l <> [] /\ a ++ l = c /\ b = l ++ d).
Proof.
  intros H. apply app_eq_app in H. destruct H as [l [[H1 H2]|[H1 H2]]].
  - left. exists l. split; assumption.
  - destruct l as [|x l].
    + left. exists []. rewrite app_nil_r in *. cbn [app] in *. split; congruence.
    + right. exists (x :: l). split; [discriminate|]. split; congruence.
Qed.

Lemma ev_bytes_chunks chunks tl :
  ev_bytes (map Chunk chunks ++ tl) = (length (concat chunks) + ev_bytes tl)%nat.
Proof.
  induction chunks as [|c cs IH]; cbn [map app ev_bytes concat]; [reflexivity|].
  rewrite IH, app_length. lia.
Qed.

Lemma nonempty_len {A} (l : list A) : nonempty l -> (len l =? 0) = false.
Proof. intros H. destruct l as [|x l]; [congruence|]. rewrite len_cons. lia. Qed.

Lemma len_lt_length {A B} (a : list A) (b : list B) : len a < len b -> (length a < length b)%nat.
Proof. unfold len. lia. Qed.

Lemma wf_events_chunk bs evs : wf_events (Chunk bs :: evs) -> len bs <= initial_capacity /\ wf_events evs.
Proof.
  intros H. inversion H as [|e l H1 H2]; subst. cbn [chunk_ok] in H1. split; [lia|assumption].
Qed.

Lemma wf_events_tail e evs : wf_events (e :: evs) -> wf_events evs.
Proof. intros H. inversion H; assumption. Qed.

Set Default Proof Using "Type".

Section FramedProofs.
  Variable msg : Type.
  Variable parse : bytes -> N -> parse_result msg.

  Local Notation decode := (frame_decode parse).

  (* ---------- unfolding one read ---------- *)

  Lemma read_loop_chunk buf c evs : nonempty c ->
    read_loop parse buf (Chunk c :: evs) =
    match decode (buf ++ c) with
    | DItem m rest => (Item m, rest, evs)
    | DErr => (StreamErr, buf ++ c, evs)
    | DPanic => (Panicked, buf ++ c, evs)
    | DLoop => (Looped, buf ++ c, evs)
    | DNeedMore => read_loop parse (buf ++ c) evs
    end.
  Proof.
    intros Hc. cbn [read_loop read_of]. rewrite (nonempty_len c Hc). reflexivity.
  Qed.

  Lemma read_loop_eof buf evs : decode buf = DNeedMore ->
    read_loop parse buf (Eof :: evs) =
    (match buf with [] => StreamEnd | _ :: _ => StreamErr end, buf, evs).
  Proof.
    intros H. cbn [read_loop read_of]. rewrite app_nil_r, H.
    change (len (@nil N) =? 0) with true. cbv iota.
    unfold eof_branch. destruct buf as [|x buf]; [reflexivity|]. rewrite H. reflexivity.
  Qed.

  (* ---------- the ghost output does not change the result ---------- *)

  Lemma read_loop_tr_fst evs : forall buf, fst (read_loop_tr parse buf evs) = read_loop parse buf evs.
  Proof.
    induction evs as [|e evs IH]; intros buf; cbn [read_loop_tr read_loop]; [reflexivity|].
    destruct (read_of e) as [bs| |]; try reflexivity.
    destruct (decode (buf ++ bs)); try reflexivity.
    destruct (len bs =? 0).
    - destruct (eof_branch parse (buf ++ bs)) as [o b]. reflexivity.
    - rewrite <- IH. destruct (read_loop_tr parse (buf ++ bs) evs) as [r tr]. reflexivity.
  Qed.

  Lemma poll_next_tr_fst buf evs : fst (poll_next_tr parse buf evs) = poll_next parse buf evs.
  Proof.
    unfold poll_next_tr, poll_next. destruct (decode buf); try reflexivity. apply read_loop_tr_fst.
  Qed.

  Lemma run_fuel_tr_fst fuel : forall buf evs,
    fst (run_fuel_tr parse fuel buf evs) = run_fuel parse fuel buf evs.
  Proof.
    induction fuel as [|f IH]; intros buf evs; cbn [run_fuel_tr run_fuel]; [reflexivity|].
    rewrite <- poll_next_tr_fst. destruct (poll_next_tr parse buf evs) as [[[o b] evs'] tr].
    cbn [fst]. destruct o; try reflexivity.
    - rewrite <- IH. destruct (run_fuel_tr parse f b evs') as [[ms fin] tr']. reflexivity.
    - destruct evs' as [|e evs']; [reflexivity|].
      rewrite <- IH. destruct (run_fuel_tr parse f b (e :: evs')) as [r' tr']. reflexivity.
  Qed.

  Theorem run_stream_tr_fst evs : fst (run_stream_tr parse evs) = run_stream parse evs.
  Proof. apply run_fuel_tr_fst. Qed.

  (* ---------- the fuel of run_stream is never exhausted ---------- *)

  Definition measure (buf : bytes) (evs : list read_ev) : nat :=
    (length evs + length buf + ev_bytes evs)%nat.

  Lemma eof_branch_len buf o b : eof_branch parse buf = (o, b) -> len b <= len buf.
  Proof.
    unfold eof_branch. destruct buf as [|x buf]; [intros [= <- <-]; lia|].
    destruct (decode (x :: buf)) as [| |m rest| |] eqn:E; intros [= <- <-]; try lia.
    apply decode_item_len in E. lia.
  Qed.

  Lemma read_loop_measure evs : forall buf o b evs',
    read_loop parse buf evs = (o, b, evs') ->
    (measure b evs' + Nat.min 1 (length evs) <= measure buf evs)%nat.
  Proof.
    unfold measure. induction evs as [|e evs IH]; intros buf o b evs' H; cbn [read_loop] in H.
    - injection H as <- <- <-. cbn [length Nat.min ev_bytes]. lia.
    - cbn [length Nat.min]. destruct e as [bs| | |]; cbn [read_of ev_bytes] in *.
      + destruct (decode (buf ++ bs)) as [| |m rest| |] eqn:E;
          try (injection H as <- <- <-; rewrite app_length; lia).
        * destruct (len bs =? 0).
          -- destruct (eof_branch parse (buf ++ bs)) as [o' b'] eqn:Eb. injection H as <- <- <-.
             apply eof_branch_len in Eb. unfold len in Eb. rewrite app_length in Eb. lia.
          -- apply IH in H. rewrite app_length in H. lia.
        * injection H as <- <- <-. apply decode_item_len, len_lt_length in E.
          rewrite app_length in E. lia.
      + rewrite app_nil_r in H.
        destruct (decode buf) as [| |m rest| |] eqn:E; try (injection H as <- <- <-; lia).
        * change (len (@nil N) =? 0) with true in H. cbv iota in H.
          destruct (eof_branch parse buf) as [o' b'] eqn:Eb. injection H as <- <- <-.
          apply eof_branch_len in Eb. unfold len in Eb. lia.
        * injection H as <- <- <-. apply decode_item_len, len_lt_length in E. lia.
      + injection H as <- <- <-. lia.
      + injection H as <- <- <-. lia.
  Qed.

  Lemma poll_next_measure buf evs o b evs' :
    poll_next parse buf evs = (o, b, evs') ->
    match o with Item _ => True | Pending => evs' <> [] | _ => False end ->
    (measure b evs' < measure buf evs)%nat.
  Proof.
    unfold poll_next. intros H Ho.
    destruct (decode buf) as [| |m rest| |] eqn:E;
      try (injection H as <- <- <-; contradiction).
    - destruct evs as [|e evs].
      + cbn [read_loop] in H. injection H as <- <- <-. congruence.
      + apply read_loop_measure in H. cbn [length Nat.min] in H. lia.
    - injection H as <- <- <-. apply decode_item_len, len_lt_length in E. unfold measure. lia.
  Qed.

  Lemma run_fuel_enough fuel : forall buf evs,
    (measure buf evs < fuel)%nat -> snd (run_fuel parse fuel buf evs) <> FFuel.
  Proof.
    induction fuel as [|f IH]; intros buf evs Hm; [lia|]. cbn [run_fuel].
    destruct (poll_next parse buf evs) as [[o b] evs'] eqn:E.
    destruct o; cbn [snd]; try discriminate.
    - apply poll_next_measure in E; [|exact I].
      specialize (IH b evs'). destruct (run_fuel parse f b evs') as [ms fin].
      cbn [snd] in *. apply IH. lia.
    - destruct evs' as [|e evs']; [cbn [snd]; discriminate|].
      apply poll_next_measure in E; [|discriminate]. apply IH. lia.
  Qed.

  Theorem run_stream_fuel evs : snd (run_stream parse evs) <> FFuel.
  Proof. apply run_fuel_enough. unfold stream_fuel, measure. lia. Qed.

  (* more fuel does not change a result that was not out of fuel *)
  Lemma run_fuel_mono fuel : forall buf evs extra,
    snd (run_fuel parse fuel buf evs) <> FFuel ->
    run_fuel parse (fuel + extra) buf evs = run_fuel parse fuel buf evs.
  Proof.
    induction fuel as [|f IH]; intros buf evs extra H; [cbn [run_fuel snd] in H; congruence|].
    cbn [run_fuel Nat.add] in *.
    destruct (poll_next parse buf evs) as [[o b] evs']. destruct o; try reflexivity.
    - specialize (IH b evs' extra). destruct (run_fuel parse f b evs') as [ms fin].
      cbn [snd] in *. rewrite IH by assumption. reflexivity.
    - destruct evs' as [|e evs']; [reflexivity|]. apply IH. assumption.
  Qed.

  (* ---------- C09: the read buffer stays bounded ---------- *)

  Definition buffer_bound : N := 10 + max_message_size + initial_capacity.

  (* in the loop: on entry the buffer is one on which decode said "need more" *)
  Lemma read_loop_tr_bound evs : forall buf o b evs' tr,
    wf_events evs -> len buf < 10 + max_message_size ->
    read_loop_tr parse buf evs = (o, b, evs', tr) ->
    Forall (fun n => n < buffer_bound) tr /\ len b < buffer_bound /\ wf_events evs'.
  Proof.
    unfold buffer_bound.
    induction evs as [|e evs IH]; intros buf o b evs' tr Hwf Hbuf H; cbn [read_loop_tr] in H.
    - injection H as <- <- <- <-. repeat split; [constructor|lia|constructor].
    - assert (Hwf' := wf_events_tail _ _ Hwf).
      assert (Hdata : forall bs, len bs <= initial_capacity ->
        match decode (buf ++ bs) with
        | DItem m rest => (Item m, rest, evs, [len (buf ++ bs)])
        | DErr => (StreamErr, buf ++ bs, evs, [len (buf ++ bs)])
        | DPanic => (Panicked, buf ++ bs, evs, [len (buf ++ bs)])
        | DLoop => (Looped, buf ++ bs, evs, [len (buf ++ bs)])
        | DNeedMore =>
            if len bs =? 0
            then let (o, b) := eof_branch parse (buf ++ bs) in (o, b, evs, [len (buf ++ bs)])
            else let (r, tr) := read_loop_tr parse (buf ++ bs) evs in (r, len (buf ++ bs) :: tr)
        end = (o, b, evs', tr) ->
        Forall (fun n => n < 10 + max_message_size + initial_capacity) tr
        /\ len b < 10 + max_message_size + initial_capacity /\ wf_events evs').
      { intros bs Hbs H'.
        assert (Hlen : len (buf ++ bs) < 10 + max_message_size + initial_capacity)
          by (rewrite len_app; lia).
        destruct (decode (buf ++ bs)) as [| |m rest| |] eqn:E;
          try (injection H' as <- <- <- <-; repeat split;
               [constructor; [assumption|constructor] | assumption | assumption]).
        - destruct (len bs =? 0).
          + destruct (eof_branch parse (buf ++ bs)) as [o' b'] eqn:Eb. injection H' as <- <- <- <-.
            apply eof_branch_len in Eb.
            repeat split; [constructor; [assumption|constructor] | lia | assumption].
          + destruct (read_loop_tr parse (buf ++ bs) evs) as [[[o' b'] evs''] tr'] eqn:El.
            injection H' as <- <- <- <-.
            apply C09_decode_buffer_bound in E.
            destruct (IH _ _ _ _ _ Hwf' E El) as [H1 [H2 H3]].
            repeat split; [constructor; assumption | assumption | assumption].
        - injection H' as <- <- <- <-. apply decode_item_len in E.
          repeat split; [constructor; [assumption|constructor] | lia | assumption]. }
      destruct e as [bs| | |]; cbn [read_of] in H.
      + apply (Hdata bs); [apply wf_events_chunk in Hwf; tauto | exact H].
      + apply (Hdata []); [rewrite len_nil; unfold initial_capacity; lia | exact H].
      + injection H as <- <- <- <-. repeat split; [constructor | lia | assumption].
      + injection H as <- <- <- <-. repeat split; [constructor | lia | assumption].
  Qed.

  Lemma poll_next_tr_bound buf evs o b evs' tr :
    wf_events evs -> len buf < buffer_bound ->
    poll_next_tr parse buf evs = (o, b, evs', tr) ->
    Forall (fun n => n < buffer_bound) tr /\ len b < buffer_bound /\ wf_events evs'.
  Proof.
    intros Hwf Hbuf H. unfold poll_next_tr in H.
    destruct (decode buf) as [| |m rest| |] eqn:E;
      try (injection H as <- <- <- <-; repeat split; [constructor | assumption | assumption]).
    - apply C09_decode_buffer_bound in E. eapply read_loop_tr_bound; eassumption.
    - injection H as <- <- <- <-. apply decode_item_len in E.
      repeat split; [constructor | lia | assumption].
  Qed.

  (* the same invariant on the plain model: one poll_next keeps the buffer below the bound *)
  Corollary C09_poll_next_bound buf evs o b evs' :
    wf_events evs -> len buf < buffer_bound ->
    poll_next parse buf evs = (o, b, evs') ->
    len b < buffer_bound /\ wf_events evs'.
  Proof.
    intros Hwf Hbuf H. rewrite <- poll_next_tr_fst in H.
    destruct (poll_next_tr parse buf evs) as [[[o0 b0] evs0] tr] eqn:E. cbn [fst] in H.
    injection H as -> -> ->. apply (poll_next_tr_bound _ _ _ _ _ _ Hwf Hbuf) in E. tauto.
  Qed.

  Lemma run_fuel_tr_bound fuel : forall buf evs,
    wf_events evs -> len buf < buffer_bound ->
    Forall (fun n => n < buffer_bound) (snd (run_fuel_tr parse fuel buf evs)).
  Proof.
    induction fuel as [|f IH]; intros buf evs Hwf Hbuf; cbn [run_fuel_tr].
    - cbn [snd]. constructor; [assumption|constructor].
    - destruct (poll_next_tr parse buf evs) as [[[o b] evs'] tr] eqn:E.
      destruct (poll_next_tr_bound _ _ _ _ _ _ Hwf Hbuf E) as [H1 [H2 H3]].
      destruct o; cbn [snd]; try (constructor; assumption).
      + specialize (IH b evs' H3 H2). destruct (run_fuel_tr parse f b evs') as [[ms fin] tr'].
        cbn [snd] in *. constructor; [assumption|]. apply Forall_app. split; assumption.
      + destruct evs' as [|e evs'].
        * cbn [snd]. constructor; [assumption|]. apply Forall_app. split; [assumption|].
          constructor; [assumption|constructor].
        * specialize (IH b (e :: evs') H3 H2).
          destruct (run_fuel_tr parse f b (e :: evs')) as [r' tr']. cbn [snd] in *.
          constructor; [assumption|]. apply Forall_app. split; assumption.
  Qed.

  (* 6. Whatever the peer sends, in whatever pieces (each read returns at most 8192 bytes), the
        buffer of the framed reader holds fewer than 10 + MAX_MESSAGE_SIZE + 8192 bytes at the start
        of every poll_next and after every extend_from_slice of the whole run.  The list is the ghost
        output of run_stream_tr, whose first component is run_stream (run_stream_tr_fst). *)
  Theorem C09_buffer_bound : forall evs,
    wf_events evs ->
    Forall (fun n => n < 10 + max_message_size + 8192) (snd (run_stream_tr parse evs)).
  Proof.
    intros evs Hwf. apply run_fuel_tr_bound; [assumption|]. rewrite len_nil.
    unfold buffer_bound, max_message_size, initial_capacity. lia.
  Qed.
End FramedProofs.

(* ---------- C10: the items do not depend on how the byte stream is cut into reads ---------- *)

Lemma length_concat_le {A B} (f : A -> list B) (l : list A) :
  (forall x, f x <> []) -> (length l <= length (concat (map f l)))%nat.
Proof.
  intros Hf. induction l as [|x l IH]; cbn [map concat length]; [lia|].
  rewrite app_length. specialize (Hf x). destruct (f x) as [|y ys]; [congruence|].
  cbn [length]. lia.
Qed.

Section ChunkingProofs.
  Variable msg : Type.
  Variable parse : bytes -> N -> parse_result msg.
  Variable body : msg -> bytes.
  Variable wf : msg -> Prop.

  Local Notation decode := (frame_decode parse).
  Local Notation encode := (frame_encode body).

  (* every prefix of p (p included) makes the decoder wait *)
  Definition waits_closed (p : bytes) : Prop := forall a b, p = a ++ b -> decode a = DNeedMore.

  Lemma waits_closed_nil : waits_closed [].
  Proof.
    intros a b H. symmetry in H. apply app_eq_nil in H. destruct H as [-> _]. reflexivity.
  Qed.

  Lemma waits_closed_prefix m p :
    size_ok body m -> proper_prefix p (encode m) -> waits_closed p.
  Proof.
    intros Hsize [q [Hq Heq]] a b ->. apply (C10_prefix_needs_more msg parse body m); [assumption|].
    exists (b ++ q). split.
    - destruct b; [assumption|discriminate].
    - rewrite <- Heq, app_assoc. reflexivity.
  Qed.

  (* reading while inside frame m: the loop ends with exactly m, wherever the cuts are *)
  Lemma read_loop_to_item (Hexact : parse_exact_hyp parse body wf) m tl : wf m -> size_ok body m ->
    forall chunks buf q R,
    Forall nonempty chunks -> q <> [] -> buf ++ q = encode m -> concat chunks = q ++ R ->
    exists rest chunks',
      read_loop parse buf (map Chunk chunks ++ tl) = (Item m, rest, map Chunk chunks' ++ tl)
      /\ rest ++ concat chunks' = R /\ Forall nonempty chunks'.
  Proof.
    intros Hwf Hsize. induction chunks as [|c cs IH]; intros buf q R Hne Hq Hbuf Hcat.
    - cbn [concat] in Hcat. symmetry in Hcat. apply app_eq_nil in Hcat. tauto.
    - inversion Hne as [|c' cs' Hc Hcs]; subst c' cs'.
      cbn [map app concat] in *. rewrite read_loop_chunk by assumption.
      apply app_eq_app_strict in Hcat. destruct Hcat as [[l [Hl1 Hl2]]|[l [Hl [Hl1 Hl2]]]].
      + subst c R. rewrite app_assoc, Hbuf.
        rewrite (C10_frame_exact msg parse body wf Hexact) by assumption.
        exists l, cs. repeat split; assumption.
      + assert (Hnm : decode (buf ++ c) = DNeedMore).
        { apply (C10_prefix_needs_more msg parse body m); [assumption|].
          exists l. split; [assumption|]. rewrite <- app_assoc, Hl1. assumption. }
        rewrite Hnm. apply (IH (buf ++ c) l R); try assumption.
        rewrite <- app_assoc, Hl1. assumption.
  Qed.

  (* reading while every prefix waits: all the chunks are absorbed *)
  Lemma read_loop_drain tl : forall chunks buf p,
    waits_closed p -> Forall nonempty chunks -> buf ++ concat chunks = p ->
    read_loop parse buf (map Chunk chunks ++ tl) = read_loop parse p tl.
  Proof.
    induction chunks as [|c cs IH]; intros buf p Hp Hne Heq.
    - cbn [concat map app] in *. rewrite app_nil_r in Heq. subst. reflexivity.
    - inversion Hne as [|c' cs' Hc Hcs]; subst c' cs'.
      cbn [map app concat] in *. rewrite read_loop_chunk by assumption.
      rewrite app_assoc in Heq.
      rewrite (Hp (buf ++ c) (concat cs)) by (symmetry; assumption).
      apply IH; assumption.
  Qed.

  Lemma poll_next_wait buf evs : decode buf = DNeedMore ->
    poll_next parse buf evs = read_loop parse buf evs.
  Proof. intros H. unfold poll_next. rewrite H. reflexivity. Qed.

  (* the three ways a stream can stop after the last complete frame *)
  Lemma run_tail_eof_clean f : forall buf chunks,
    Forall nonempty chunks -> buf ++ concat chunks = [] ->
    run_fuel parse (S f) buf (map Chunk chunks ++ [Eof]) = ([], FEnd).
  Proof.
    intros buf chunks Hne Heq. cbn [run_fuel].
    rewrite poll_next_wait by (apply (waits_closed_nil buf (concat chunks)); symmetry; assumption).
    rewrite (read_loop_drain [Eof] chunks buf [] waits_closed_nil Hne Heq).
    rewrite read_loop_eof by reflexivity. reflexivity.
  Qed.

  Lemma run_tail_eof_dirty f p : waits_closed p -> p <> [] -> forall buf chunks,
    Forall nonempty chunks -> buf ++ concat chunks = p ->
    run_fuel parse (S f) buf (map Chunk chunks ++ [Eof]) = ([], FErr).
  Proof.
    intros Hp Hpne buf chunks Hne Heq. cbn [run_fuel].
    rewrite poll_next_wait by (apply (Hp buf (concat chunks)); symmetry; assumption).
    rewrite (read_loop_drain [Eof] chunks buf p Hp Hne Heq).
    rewrite read_loop_eof by (apply (Hp p []); symmetry; apply app_nil_r).
    destruct p; [congruence|reflexivity].
  Qed.

  Lemma run_tail_pending f p : waits_closed p -> forall buf chunks,
    Forall nonempty chunks -> buf ++ concat chunks = p ->
    run_fuel parse (S f) buf (map Chunk chunks ++ []) = ([], FPending).
  Proof.
    intros Hp buf chunks Hne Heq. cbn [run_fuel].
    rewrite poll_next_wait by (apply (Hp buf (concat chunks)); symmetry; assumption).
    rewrite (read_loop_drain [] chunks buf p Hp Hne Heq). reflexivity.
  Qed.

  (* the driver over a stream of complete frames followed by p *)
  Lemma run_frames (Hexact : parse_exact_hyp parse body wf) tl p fin :
    (forall f buf chunks, Forall nonempty chunks -> buf ++ concat chunks = p ->
       run_fuel parse (S f) buf (map Chunk chunks ++ tl) = ([], fin)) ->
    forall ms f buf chunks,
    Forall wf ms -> Forall (size_ok body) ms -> Forall nonempty chunks ->
    buf ++ concat chunks = concat (map encode ms) ++ p ->
    (length ms < f)%nat ->
    run_fuel parse f buf (map Chunk chunks ++ tl) = (ms, fin).
  Proof.
    intros Hbase. induction ms as [|m ms IH]; intros f buf chunks Hwf Hsize Hne Heq Hf.
    - destruct f as [|f]; [cbn [length] in Hf; lia|]. apply Hbase; assumption.
    - destruct f as [|f]; [cbn [length] in Hf; lia|]. cbn [length] in Hf.
      inversion Hwf as [|m' ms' Hwm Hwms]; subst m' ms'.
      inversion Hsize as [|m' ms' Hsm Hsms]; subst m' ms'.
      cbn [map concat] in Heq. rewrite <- app_assoc in Heq.
      apply app_eq_app_strict in Heq. destruct Heq as [[l [Hl1 Hl2]]|[l [Hl [Hl1 Hl2]]]].
      + subst buf. cbn [run_fuel]. unfold poll_next.
        rewrite (C10_frame_exact msg parse body wf Hexact) by assumption.
        rewrite (IH f l chunks) by (try assumption; try lia; symmetry; assumption).
        reflexivity.
      + cbn [run_fuel].
        rewrite poll_next_wait
          by (apply (C10_prefix_needs_more msg parse body m); [assumption|exists l; tauto]).
        destruct (read_loop_to_item Hexact m tl Hwm Hsm chunks buf l _ Hne Hl Hl1 Hl2)
          as [rest [chunks' [Hrl [Hrest Hne']]]].
        rewrite Hrl. rewrite (IH f rest chunks') by (try assumption; lia). reflexivity.
  Qed.

  Lemma stream_fuel_enough ms chunks tl p :
    concat chunks = concat (map encode ms) ++ p ->
    (length ms < stream_fuel [] (map Chunk chunks ++ tl))%nat.
  Proof.
    clear parse wf. intros Heq. unfold stream_fuel. rewrite ev_bytes_chunks, Heq, !app_length.
    assert (H : (length ms <= length (concat (map encode ms)))%nat)
      by (apply length_concat_le, encode_nonempty).
    lia.
  Qed.

  Definition chunk_sized (c : bytes) : Prop := c <> [] /\ len c <= 8192.

  Lemma chunk_sized_nonempty chunks : Forall chunk_sized chunks -> Forall nonempty chunks.
  Proof. apply Forall_impl. intros c [H _]. exact H. Qed.

  (* 7. MAIN: a concatenation of encoded messages, cut into reads at arbitrary places and followed by
        end-of-stream, yields exactly those messages, in order, once each, and a clean end. *)
  Theorem C10_chunking_nonempty : parse_exact_hyp parse body wf -> forall ms chunks,
    Forall wf ms -> Forall (size_ok body) ms ->
    concat chunks = concat (map encode ms) ->
    Forall nonempty chunks ->
    run_stream parse (map Chunk chunks ++ [Eof]) = (ms, FEnd).
  Proof.
    intros Hexact ms chunks Hwf Hsize Heq Hne. unfold run_stream.
    apply (run_frames Hexact [Eof] [] FEnd); try assumption.
    - intros f. apply run_tail_eof_clean.
    - cbn [app]. rewrite app_nil_r. assumption.
    - apply (stream_fuel_enough ms chunks [Eof] []). rewrite app_nil_r. assumption.
  Qed.

  Theorem C10_chunking : parse_exact_hyp parse body wf -> forall ms chunks,
    Forall wf ms -> Forall (size_ok body) ms ->
    concat chunks = concat (map encode ms) ->
    Forall chunk_sized chunks ->
    run_stream parse (map Chunk chunks ++ [Eof]) = (ms, FEnd).
  Proof.
    intros Hexact ms chunks Hwf Hsize Heq Hc.
    apply C10_chunking_nonempty; try assumption. apply chunk_sized_nonempty. assumption.
  Qed.

  (* 7'. the same stream not (yet) closed, possibly with the beginning p of a further frame already
         received: exactly the complete messages are delivered and the stream waits *)
  Theorem C10_chunking_pending : parse_exact_hyp parse body wf -> forall ms chunks p,
    Forall wf ms -> Forall (size_ok body) ms ->
    (p = [] \/ exists m, size_ok body m /\ proper_prefix p (encode m)) ->
    concat chunks = concat (map encode ms) ++ p ->
    Forall nonempty chunks ->
    run_stream parse (map Chunk chunks) = (ms, FPending).
  Proof.
    intros Hexact ms chunks p Hwf Hsize Hp Heq Hne. unfold run_stream.
    assert (Hwp : waits_closed p).
    { destruct Hp as [->|[m [Hm Hpre]]]; [apply waits_closed_nil|].
      eapply waits_closed_prefix; eassumption. }
    rewrite <- (app_nil_r (map Chunk chunks)).
    apply (run_frames Hexact [] p FPending); try assumption.
    - intros f. apply run_tail_pending. assumption.
    - apply (stream_fuel_enough ms chunks [] p). assumption.
  Qed.

  (* 8. end-of-stream inside a frame: the complete messages, then an error; never a truncated
        message *)
  Theorem C10_eof_inside_frame : parse_exact_hyp parse body wf -> forall ms chunks p m,
    Forall wf ms -> Forall (size_ok body) ms ->
    size_ok body m -> proper_prefix p (encode m) -> p <> [] ->
    concat chunks = concat (map encode ms) ++ p ->
    Forall nonempty chunks ->
    run_stream parse (map Chunk chunks ++ [Eof]) = (ms, FErr).
  Proof.
    intros Hexact ms chunks p m Hwf Hsize Hm Hpre Hpne Heq Hne. unfold run_stream.
    assert (Hwp : waits_closed p) by (eapply waits_closed_prefix; eassumption).
    apply (run_frames Hexact [Eof] p FErr); try assumption.
    - intros f. apply run_tail_eof_dirty; assumption.
    - apply (stream_fuel_enough ms chunks [Eof] p). assumption.
  Qed.
End ChunkingProofs.

Arguments chunk_sized c /.

(* ---------- C10 with wake-ups: `Pending` reads anywhere between the chunks ---------- *)

(* the bytes carried by a list of read events *)
Fixpoint ev_data (evs : list read_ev) : bytes :=
  match evs with
  | [] => []
  | Chunk c :: evs' => c ++ ev_data evs'
  | _ :: evs' => ev_data evs'
  end.

(* a live connection: non-empty reads and pending reads only *)
Definition live_ev (e : read_ev) : Prop :=
  match e with Chunk c => c <> [] | ReadPending => True | Eof => False | ReadErr => False end.
Definition live (evs : list read_ev) : Prop := Forall live_ev evs.

Lemma ev_bytes_data evs tl : ev_bytes (evs ++ tl) = (length (ev_data evs) + ev_bytes tl)%nat.
Proof.
  induction evs as [|e evs IH]; [reflexivity|].
  destruct e; cbn [app ev_bytes ev_data]; rewrite IH; [rewrite app_length; lia|reflexivity..].
Qed.

Lemma ev_data_chunks chunks : ev_data (map Chunk chunks) = concat chunks.
Proof. induction chunks as [|c cs IH]; cbn [map ev_data concat]; [reflexivity|]. rewrite IH. reflexivity. Qed.

Lemma live_chunks chunks : Forall nonempty chunks -> live (map Chunk chunks).
Proof. intros H. induction H as [|c cs Hc _ IH]; constructor; assumption. Qed.

Section WakeupProofs.
  Variable msg : Type.
  Variable parse : bytes -> N -> parse_result msg.
  Variable body : msg -> bytes.
  Variable wf : msg -> Prop.

  Local Notation decode := (frame_decode parse).
  Local Notation encode := (frame_encode body).
  Local Notation waits_closed := (waits_closed msg parse).

  (* one poll_next while inside frame m: either m comes out, or the task goes to sleep still
     inside m *)
  Lemma read_loop_item_or_wait (Hexact : parse_exact_hyp parse body wf) m tl :
    wf m -> size_ok body m ->
    forall evs buf q R,
    live evs -> q <> [] -> buf ++ q = encode m -> ev_data evs = q ++ R ->
    (exists rest evs',
       read_loop parse buf (evs ++ tl) = (Item m, rest, evs' ++ tl)
       /\ rest ++ ev_data evs' = R /\ live evs' /\ (length evs' < length evs)%nat)
    \/ (exists buf' q' evs',
       read_loop parse buf (evs ++ tl) = (Pending, buf', evs' ++ tl)
       /\ q' <> [] /\ buf' ++ q' = encode m /\ ev_data evs' = q' ++ R
       /\ live evs' /\ (length evs' < length evs)%nat).
  Proof.
    intros Hwf Hsize. induction evs as [|e evs IH]; intros buf q R Hlive Hq Hbuf Hdata.
    - cbn [ev_data] in Hdata. symmetry in Hdata. apply app_eq_nil in Hdata. tauto.
    - inversion Hlive as [|e' evs0 He Hevs]; subst e' evs0.
      destruct e as [c| | |]; cbn [live_ev] in He; try contradiction.
      + cbn [app ev_data] in *. rewrite read_loop_chunk by exact He.
        apply app_eq_app_strict in Hdata. destruct Hdata as [[l [Hl1 Hl2]]|[l [Hl [Hl1 Hl2]]]].
        * left. subst c R. rewrite app_assoc, Hbuf.
          rewrite (C10_frame_exact msg parse body wf Hexact) by assumption.
          exists l, evs. cbn [length]. repeat split; try assumption. lia.
        * assert (Hnm : decode (buf ++ c) = DNeedMore).
          { apply (C10_prefix_needs_more msg parse body m); [assumption|].
            exists l. split; [assumption|]. rewrite <- app_assoc, Hl1. assumption. }
          rewrite Hnm.
          assert (Hbuf' : (buf ++ c) ++ l = encode m) by (rewrite <- app_assoc, Hl1; assumption).
          destruct (IH (buf ++ c) l R Hevs Hl Hbuf' Hl2)
            as [[rest [evs' [H1 [H2 [H3 H4]]]]]|[buf' [q' [evs' [H1 [H2 [H3 [H4 [H5 H6]]]]]]]]].
          -- left. exists rest, evs'. cbn [length]. repeat split; try assumption. lia.
          -- right. exists buf', q', evs'. cbn [length]. repeat split; try assumption. lia.
      + right. cbn [app ev_data read_loop read_of] in *.
        exists buf, q, evs. cbn [length]. repeat split; try assumption. lia.
  Qed.

  (* one poll_next while every prefix waits: all events absorbed, or asleep part-way *)
  Lemma read_loop_drain_or_wait tl : forall evs buf p,
    waits_closed p -> live evs -> buf ++ ev_data evs = p ->
    read_loop parse buf (evs ++ tl) = read_loop parse p tl
    \/ (exists buf' evs',
       read_loop parse buf (evs ++ tl) = (Pending, buf', evs' ++ tl)
       /\ buf' ++ ev_data evs' = p /\ live evs' /\ (length evs' < length evs)%nat).
  Proof.
    induction evs as [|e evs IH]; intros buf p Hp Hlive Heq.
    - left. cbn [ev_data app] in *. rewrite app_nil_r in Heq. subst. reflexivity.
    - inversion Hlive as [|e' evs0 He Hevs]; subst e' evs0.
      destruct e as [c| | |]; cbn [live_ev] in He; try contradiction.
      + cbn [app ev_data] in *. rewrite read_loop_chunk by exact He.
        rewrite app_assoc in Heq.
        rewrite (Hp (buf ++ c) (ev_data evs)) by (symmetry; assumption).
        destruct (IH (buf ++ c) p Hp Hevs Heq) as [H|[buf' [evs' [H1 [H2 [H3 H4]]]]]].
        * left. assumption.
        * right. exists buf', evs'. cbn [length]. repeat split; try assumption. lia.
      + right. cbn [app ev_data read_loop read_of] in *.
        exists buf, evs. cbn [length]. repeat split; try assumption. lia.
  Qed.

  Lemma run_tail_live tl p fin : waits_closed p ->
    (forall f, run_fuel parse (S f) p tl = ([], fin)) ->
    forall f buf evs, live evs -> buf ++ ev_data evs = p -> (length evs < f)%nat ->
    run_fuel parse f buf (evs ++ tl) = ([], fin).
  Proof.
    intros Hp Hfin. induction f as [|f IH]; intros buf evs Hlive Heq Hf; [lia|].
    cbn [run_fuel].
    rewrite (poll_next_wait msg parse)
      by (apply (Hp buf (ev_data evs)); symmetry; assumption).
    destruct (read_loop_drain_or_wait tl evs buf p Hp Hlive Heq)
      as [H|[buf' [evs' [H1 [H2 [H3 H4]]]]]].
    - rewrite H. specialize (Hfin f). cbn [run_fuel] in Hfin.
      rewrite (poll_next_wait msg parse) in Hfin
        by (apply (Hp p []); symmetry; apply app_nil_r).
      exact Hfin.
    - rewrite H1. destruct (evs' ++ tl) as [|e l] eqn:E.
      + apply app_eq_nil in E. destruct E as [-> ->].
        specialize (Hfin O). cbn [run_fuel] in Hfin.
        rewrite (poll_next_wait msg parse) in Hfin
          by (apply (Hp p []); symmetry; apply app_nil_r).
        cbn [read_loop] in Hfin. exact Hfin.
      + rewrite <- E. apply IH; try assumption. lia.
  Qed.

  Lemma run_frames_live (Hexact : parse_exact_hyp parse body wf) tl p fin : waits_closed p ->
    (forall f, run_fuel parse (S f) p tl = ([], fin)) ->
    forall f ms buf evs,
    Forall wf ms -> Forall (size_ok body) ms -> live evs ->
    buf ++ ev_data evs = concat (map encode ms) ++ p ->
    (length ms + length evs < f)%nat ->
    run_fuel parse f buf (evs ++ tl) = (ms, fin).
  Proof.
    intros Hp Hfin. induction f as [|f IH]; intros ms buf evs Hwf Hsize Hlive Heq Hf; [lia|].
    destruct ms as [|m ms].
    - apply (run_tail_live tl p fin Hp Hfin); [assumption|assumption|cbn [length] in Hf; lia].
    - cbn [length] in Hf.
      inversion Hwf as [|m' ms' Hwm Hwms]; subst m' ms'.
      inversion Hsize as [|m' ms' Hsm Hsms]; subst m' ms'.
      assert (Heq0 := Heq).
      cbn [map concat] in Heq. rewrite <- app_assoc in Heq.
      apply app_eq_app_strict in Heq. destruct Heq as [[l [Hl1 Hl2]]|[l [Hl [Hl1 Hl2]]]].
      + subst buf. cbn [run_fuel]. unfold poll_next.
        rewrite (C10_frame_exact msg parse body wf Hexact) by assumption.
        rewrite (IH ms l evs) by (try assumption; try lia; symmetry; assumption).
        reflexivity.
      + cbn [run_fuel].
        rewrite (poll_next_wait msg parse)
          by (apply (C10_prefix_needs_more msg parse body m); [assumption|exists l; tauto]).
        destruct (read_loop_item_or_wait Hexact m tl Hwm Hsm evs buf l _ Hlive Hl Hl1 Hl2)
          as [[rest [evs' [H1 [H2 [H3 H4]]]]]|[buf' [q' [evs' [H1 [H2 [H3 [H4 [H5 H6]]]]]]]]].
        * rewrite H1. rewrite (IH ms rest evs') by (try assumption; lia). reflexivity.
        * rewrite H1. destruct evs' as [|e evs'].
          { cbn [ev_data] in H4. symmetry in H4. apply app_eq_nil in H4. tauto. }
          change ((e :: evs') ++ tl) with (e :: (evs' ++ tl)). cbv iota.
          change (e :: (evs' ++ tl)) with ((e :: evs') ++ tl).
          apply IH; try assumption; [|cbn [length] in *; lia].
          rewrite H4. cbn [map concat]. rewrite <- !app_assoc. rewrite (app_assoc buf').
          rewrite H3. reflexivity.
  Qed.

  Lemma stream_fuel_live ms evs tl p :
    ev_data evs = concat (map encode ms) ++ p ->
    (length ms + length evs < stream_fuel [] (evs ++ tl))%nat.
  Proof.
    clear parse wf. intros Heq. unfold stream_fuel. rewrite ev_bytes_data, Heq, !app_length.
    assert (H : (length ms <= length (concat (map encode ms)))%nat)
      by (apply length_concat_le, encode_nonempty).
    lia.
  Qed.

  (* 7''. MAIN, general form: the reads may be cut anywhere AND the task may be put to sleep
          (Pending) any number of times anywhere; the delivered messages are the same *)
  Theorem C10_chunking_wakeups : parse_exact_hyp parse body wf -> forall ms evs,
    Forall wf ms -> Forall (size_ok body) ms ->
    live evs -> ev_data evs = concat (map encode ms) ->
    run_stream parse (evs ++ [Eof]) = (ms, FEnd).
  Proof.
    intros Hexact ms evs Hwf Hsize Hlive Heq. unfold run_stream.
    apply (run_frames_live Hexact [Eof] [] FEnd); try assumption.
    - apply waits_closed_nil.
    - intros f. cbn [run_fuel]. rewrite (poll_next_wait msg parse) by reflexivity.
      rewrite read_loop_eof by reflexivity. reflexivity.
    - cbn [app]. rewrite app_nil_r. assumption.
    - apply (stream_fuel_live ms evs [Eof] []). rewrite app_nil_r. assumption.
  Qed.

  Theorem C10_chunking_wakeups_pending : parse_exact_hyp parse body wf -> forall ms evs p,
    Forall wf ms -> Forall (size_ok body) ms ->
    (p = [] \/ exists m, size_ok body m /\ proper_prefix p (encode m)) ->
    live evs -> ev_data evs = concat (map encode ms) ++ p ->
    run_stream parse evs = (ms, FPending).
  Proof.
    intros Hexact ms evs p Hwf Hsize Hp Hlive Heq. unfold run_stream.
    assert (Hwp : waits_closed p).
    { destruct Hp as [->|[m [Hm Hpre]]]; [apply waits_closed_nil|].
      eapply waits_closed_prefix; eassumption. }
    rewrite <- (app_nil_r evs).
    apply (run_frames_live Hexact [] p FPending); try assumption.
    - intros f. cbn [run_fuel].
      rewrite (poll_next_wait msg parse) by (apply (Hwp p []); symmetry; apply app_nil_r).
      reflexivity.
    - apply (stream_fuel_live ms evs [] p). assumption.
  Qed.

  Theorem C10_eof_inside_frame_wakeups : parse_exact_hyp parse body wf -> forall ms evs p m,
    Forall wf ms -> Forall (size_ok body) ms ->
    size_ok body m -> proper_prefix p (encode m) -> p <> [] ->
    live evs -> ev_data evs = concat (map encode ms) ++ p ->
    run_stream parse (evs ++ [Eof]) = (ms, FErr).
  Proof.
    intros Hexact ms evs p m Hwf Hsize Hm Hpre Hpne Hlive Heq. unfold run_stream.
    assert (Hwp : waits_closed p) by (eapply waits_closed_prefix; eassumption).
    apply (run_frames_live Hexact [Eof] p FErr); try assumption.
    - intros f. cbn [run_fuel].
      rewrite (poll_next_wait msg parse) by (apply (Hwp p []); symmetry; apply app_nil_r).
      rewrite read_loop_eof by (apply (Hwp p []); symmetry; apply app_nil_r).
      destruct p; [congruence|reflexivity].
    - apply (stream_fuel_live ms evs [Eof] p). assumption.
  Qed.
End WakeupProofs.

(* ---------- the toy instance: hypotheses are satisfiable, examples ---------- *)

Lemma Forall_True {A} (l : list A) : Forall (fun _ => True) l.
Proof. induction l; constructor; auto. Qed.

Example C10_chunking_toy : forall ms chunks,
  Forall (size_ok toy_body) ms -> concat chunks = concat (map toy_encode ms) ->
  Forall chunk_sized chunks ->
  toy_run_stream (map Chunk chunks ++ [Eof]) = (ms, FEnd).
Proof.
  intros ms chunks Hsize Heq Hc.
  apply (C10_chunking toy_msg toy_parse toy_body (fun _ => True) toy_parse_exact);
    try assumption. apply Forall_True.
Qed.

(* three messages (one empty), cut inside a length prefix, inside a body and across two frames *)
Example C10_chunking_example :
  let ms := [[1; 2; 3]; []; [7; 8]] in
  let chunks := [[3; 1]; [2; 3; 0; 2]; [7]; [8]] in
  concat chunks = concat (map toy_encode ms)
  /\ forallb (fun c => negb (len c =? 0) && (len c <=? 8192)) chunks = true
  /\ toy_run_stream (map Chunk chunks ++ [Eof]) = (ms, FEnd)
  /\ toy_run_stream [Chunk (concat chunks); Eof] = (ms, FEnd)
  /\ toy_run_stream (map Chunk (map (fun b => [b]) (concat chunks)) ++ [Eof]) = (ms, FEnd).
Proof. vm_compute. repeat split; reflexivity. Qed.

(* a 300-byte message: two-byte length prefix, cut in the middle of the prefix *)
Example C10_chunking_example_long :
  let m := repeat 7 300 in
  toy_run_stream [Chunk [172]; Chunk (2 :: firstn 100 m); Chunk (skipn 100 m ++ toy_encode [5]); Eof]
  = ([m; [5]], FEnd).
Proof. vm_compute. reflexivity. Qed.

Example C10_chunking_pending_example :
  toy_run_stream (map Chunk [[3; 1]; [2; 3; 0; 2]; [7]; [8]]) = ([[1; 2; 3]; []; [7; 8]], FPending)
  /\ toy_run_stream (map Chunk [[3; 1]; [2; 3; 0; 2]; [7]]) = ([[1; 2; 3]; []], FPending).
Proof. vm_compute. split; reflexivity. Qed.

Example C10_eof_inside_frame_toy : forall ms chunks p m,
  Forall (size_ok toy_body) ms -> size_ok toy_body m -> proper_prefix p (toy_encode m) -> p <> [] ->
  concat chunks = concat (map toy_encode ms) ++ p -> Forall nonempty chunks ->
  toy_run_stream (map Chunk chunks ++ [Eof]) = (ms, FErr).
Proof.
  intros ms chunks p m Hsize Hm Hp Hpne Heq Hne.
  apply (C10_eof_inside_frame toy_msg toy_parse toy_body (fun _ => True) toy_parse_exact
           ms chunks p m); try assumption. apply Forall_True.
Qed.

(* the stream closes after 1 of the 2 bytes of the third message: two messages, then an error *)
Example C10_eof_inside_frame_example :
  proper_prefix [2; 7] (toy_encode [7; 8])
  /\ concat [[3; 1]; [2; 3; 0; 2]; [7]] = concat (map toy_encode [[1; 2; 3]; []]) ++ [2; 7]
  /\ toy_run_stream (map Chunk [[3; 1]; [2; 3; 0; 2]; [7]] ++ [Eof]) = ([[1; 2; 3]; []], FErr).
Proof.
  split; [exists [8]; split; [discriminate|reflexivity]|]. vm_compute. split; reflexivity.
Qed.

(* why chunks must be non-empty: a read of 0 bytes IS end-of-stream for FramedRead *)
Example empty_read_is_eof :
  toy_run_stream [Chunk [3; 1]; Chunk []; Chunk [2; 3]; Eof] = ([], FErr)
  /\ toy_run_stream [Chunk [3; 1; 2; 3]; Chunk []; Chunk [1; 9]; Eof] = ([[1; 2; 3]], FEnd).
Proof. vm_compute. split; reflexivity. Qed.

Example C09_buffer_bound_example :
  let evs := [Chunk [3; 1]; ReadPending; Chunk [2; 3; 2; 7]; Chunk [8; 0]; Eof] in
  wf_eventsb evs = true
  /\ run_stream_tr toy_parse evs = (([[1; 2; 3]; [7; 8]; []], FEnd), [0; 2; 2; 6; 2; 4; 1; 0; 0])
  /\ toy_run_stream evs = ([[1; 2; 3]; [7; 8]; []], FEnd).
Proof. vm_compute. repeat split; reflexivity. Qed.

Lemma wf_eventsb_spec evs : wf_eventsb evs = true <-> wf_events evs.
Proof. unfold wf_eventsb, wf_events. rewrite forallb_forall, Forall_forall. reflexivity. Qed.

(* errors and waiting are reported as such *)
Example run_stream_outcomes_example :
  toy_run_stream [Chunk [3; 1]; ReadErr; Chunk [2; 3]] = ([], FErr)
  /\ toy_run_stream [Chunk [1; 9; 129; 128; 128; 2]; Chunk [1; 1]] = ([[9]], FErr)   (* 4 MiB + 1 *)
  /\ toy_run_stream [Chunk [1; 9; 129; 0]; Chunk [1; 1]] = ([[9]], FErr)             (* NotMinimal *)
  /\ toy_run_stream [Chunk [1; 9]; ReadPending] = ([[9]], FPending).
Proof. vm_compute. repeat split; reflexivity. Qed.

Example C10_chunking_wakeups_toy : forall ms evs,
  Forall (size_ok toy_body) ms -> live evs -> ev_data evs = concat (map toy_encode ms) ->
  toy_run_stream (evs ++ [Eof]) = (ms, FEnd).
Proof.
  intros ms evs Hsize Hlive Heq.
  apply (C10_chunking_wakeups toy_msg toy_parse toy_body (fun _ => True) toy_parse_exact);
    try assumption. apply Forall_True.
Qed.

Example C10_chunking_wakeups_example :
  let evs := [ReadPending; Chunk [3; 1]; ReadPending; ReadPending; Chunk [2; 3; 0; 2]; Chunk [7];
              ReadPending; Chunk [8]; ReadPending] in
  ev_data evs = concat (map toy_encode [[1; 2; 3]; []; [7; 8]])
  /\ toy_run_stream (evs ++ [Eof]) = ([[1; 2; 3]; []; [7; 8]], FEnd)
  /\ toy_run_stream evs = ([[1; 2; 3]; []; [7; 8]], FPending).
Proof. vm_compute. repeat split; reflexivity. Qed.
