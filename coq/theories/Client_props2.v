(* Client_props2.v — package I: C13 (client bookkeeping is proportional and released) and C15 (extra connections),
   restated verbatim from Client_proofs7/8/9 and closed by `exact`; nothing else is proved here. *)
From BS Require Import Types Wantlist Wantlist_proofs Client Client_proofs Client_proofs2 Client_proofs3 Client_proofs4 Client_proofs5 Client_proofs7 Client_proofs8 Client_proofs9.
From Coq Require Import ZArith List. Import ListNotations.
Open Scope N_scope.

Theorem C13_peers_bounded sdh ops :
  let s := st_after sdh ops in
  NoDup (map fst (cs_peers s)) /\
  (forall p ps, In (p, ps) (cs_peers s) ->
     p_conns ps <> [] /\ NoDup (p_conns ps) /\ incl (p_conns ps) (open_conns p ops) /\
     (length (p_conns ps) <= length (open_conns p ops))%nat /\ In p (connected_peers ops)) /\
  (length (cs_peers s) <= length (connected_peers ops))%nat.
Proof. exact (Client_proofs7.C13_peers_bounded sdh ops). Qed.

Theorem C13_conns_step s o p ps' :
  NoDup (map fst (cs_peers s)) -> In (p, ps') (cs_peers (fst (cstep s o))) ->
  (exists c, o = CNewConn p c /\ al_find N.eqb p (cs_peers s) = None /\ p_conns ps' = [c]) \/
  exists ps, al_find N.eqb p (cs_peers s) = Some ps /\
    (p_conns ps' = p_conns ps \/
     (exists c, o = CNewConn p c /\ p_conns ps' = p_conns (add_conn c ps)) \/
     (exists c, o = CConnClosed p c /\ p_conns ps' = n_remove c (p_conns ps)) \/
     (exists ch c0, o = CPoll ch /\ p_conns ps' = n_remove c0 (p_conns ps) /\
        (p_ss ps = SsFailed c0 \/ exists t, p_ss ps = SsRequested t c0 /\ (cs_now s - t <? RECEIVE_REQUEST_TIMEOUT) = false))).
Proof. exact (Client_proofs7.C13_conns_step s o p ps'). Qed.

Theorem C13_req_states_bounded sdh ops p ps :
  let s := st_after sdh ops in
  al_find N.eqb p (cs_peers s) = Some ps ->
  NoDup (keys (p_wl ps)) /\
  (forall c, In c (keys (p_wl ps)) -> In c (wl_cids (cs_wl s)) \/ In c (stale_cids p sdh ops)) /\
  (length (req (p_wl ps)) <= length (cs_c2q s) + length (stale_cids p sdh ops))%nat.
Proof. exact (Client_proofs7.C13_req_states_bounded sdh ops p ps). Qed.

Theorem stale_reset sdh ops ch p :
  is_open p (st_after sdh ops) = true -> stale_cids p sdh (ops ++ [CPoll ch]) = [].
Proof. exact (Client_proofs7.stale_reset sdh ops ch p). Qed.

Theorem C13_req_states_after_poll sdh ops ch p ps :
  let s := st_after sdh (ops ++ [CPoll ch]) in
  is_open p (st_after sdh ops) = true ->
  al_find N.eqb p (cs_peers s) = Some ps ->
  incl (keys (p_wl ps)) (wl_cids (cs_wl s)) /\ (length (req (p_wl ps)) <= length (cs_c2q s))%nat.
Proof. exact (Client_proofs7.C13_req_states_after_poll sdh ops ch p ps). Qed.

Theorem C13_req_states_shrink s o p ps' :
  NoDup (map fst (cs_peers s)) -> INVBJ s -> is_open p s = false \/ (forall ch, o <> CPoll ch) ->
  al_find N.eqb p (cs_peers (fst (cstep s o))) = Some ps' ->
  keys (p_wl ps') = [] \/ exists ps, al_find N.eqb p (cs_peers s) = Some ps /\ incl (keys (p_wl ps')) (keys (p_wl ps)).
Proof. exact (Client_proofs7.C13_req_states_shrink s o p ps'). Qed.

Theorem C13_peers_exact_refuted :
  exists ops p, open_conns p ops <> [] /\ al_find N.eqb p (cs_peers (st_after true ops)) = None.
Proof. exact (Client_proofs7.C13_peers_exact_refuted). Qed.

Theorem C13_conns_exact_refuted :
  exists ops p ps c,
    al_find N.eqb p (cs_peers (st_after true ops)) = Some ps /\ In c (open_conns p ops) /\ ~ In c (p_conns ps).
Proof. exact (Client_proofs7.C13_conns_exact_refuted). Qed.

Theorem C13_req_states_after_poll_refuted :
  exists ops ch p ps,
    let s := st_after true (ops ++ [CPoll ch]) in
    al_find N.eqb p (cs_peers s) = Some ps /\
    wl_cids (cs_wl s) = [] /\ cs_c2q s = [] /\ cs_abort s = [] /\ cs_tasks s = [] /\
    keys (p_wl ps) = [ex_c1; ex_c2; ex_c3] /\ stale_cids p true (ops ++ [CPoll ch]) = [ex_c1; ex_c2; ex_c3].
Proof. exact (Client_proofs7.C13_req_states_after_poll_refuted). Qed.

Example C13_peers_example :
  let ops := [CNewConn 7 1; CNewConn 7 2; CNewConn 9 4; CConnClosed 7 1; CPoll [(7, 2); (9, 4)]] in
  connected_peers ops = [7; 9] /\ map fst (cs_peers (st_after true ops)) = [7; 9] /\
  open_conns 7 ops = [2] /\ (exists ps, al_find N.eqb 7 (cs_peers (st_after true ops)) = Some ps /\ p_conns ps = [2]).
Proof. exact (Client_proofs7.C13_peers_example). Qed.

Example C13_req_states_example :
  let ops := retained_ops ++ [CPoll [(7, 1)]; CReport 7 1 (RpSending 1); CReport 7 1 RpReady] in
  is_open 7 (st_after true ops) = true /\
  (exists ps, al_find N.eqb 7 (cs_peers (st_after true ops)) = Some ps /\ keys (p_wl ps) = [ex_c1; ex_c2; ex_c3]) /\
  stale_cids 7 true ops = [ex_c1; ex_c2; ex_c3] /\
  stale_cids 7 true (ops ++ [CPoll [(7, 1)]]) = [] /\
  (exists ps, al_find N.eqb 7 (cs_peers (st_after true (ops ++ [CPoll [(7, 1)]]))) = Some ps /\ keys (p_wl ps) = []) /\
  In (OSendWantlist 7 1 false [(KCancel, ex_c1); (KCancel, ex_c2); (KCancel, ex_c3)]) (outs_after true (ops ++ [CPoll [(7, 1)]])).
Proof. exact (Client_proofs7.C13_req_states_example). Qed.

Theorem C13_tasks_bounded sdh ops :
  let s := st_after sdh ops in
  NoDup (map fst (cs_tasks s)) /\
  (forall tid t, In (tid, t) (cs_tasks s) ->
     match t_kind t with
     | TGet q c => (t_aborted t = false /\ In (q, tid) (cs_abort s)) \/ (t_aborted t = true /\ In tid (cs_ready s))
     | TPut bl => bl <> []
     end) /\
  length (cs_tasks s) = (length (cs_abort s) + length (filter aborted_get (cs_tasks s)) + length (filter is_put (cs_tasks s)))%nat /\
  (length (filter aborted_get (cs_tasks s)) <= length (cs_ready s))%nat /\
  NoDup (cs_ready s) /\ incl (cs_ready s) (map fst (cs_tasks s)) /\ (length (cs_ready s) <= length (cs_tasks s))%nat.
Proof. exact (Client_proofs8.C13_tasks_bounded sdh ops). Qed.

Theorem C13_tasks_after_poll sdh ops ch :
  let s := st_after sdh (ops ++ [CPoll ch]) in
  cs_ready s = [] /\ cs_queue s = [] /\
  (forall tid t, In (tid, t) (cs_tasks s) ->
     exists n, t_call t = Some n /\ t_result t = None /\
       match t_kind t with TGet q c => t_aborted t = false /\ In (q, tid) (cs_abort s) | TPut bl => bl <> [] end) /\
  filter aborted_get (cs_tasks s) = [] /\
  length (cs_tasks s) = (length (cs_abort s) + length (filter is_put (cs_tasks s)))%nat.
Proof. exact (Client_proofs8.C13_tasks_after_poll sdh ops ch). Qed.

Theorem C13_queue_bounded sdh ops :
  let s := st_after sdh ops in
  (forall p c f es, ~ In (EvSend p c f es) (cs_queue s)) /\
  length (cs_queue s) = length (queue_qids (cs_queue s)) /\
  NoDup (queue_qids (cs_queue s)) /\
  (forall q, In q (queue_qids (cs_queue s)) ->
     q < count_gets ops /\ ~ In q (out_qids (outs_after sdh ops)) /\
     ~ In q (task_qids (cs_tasks s)) /\ ~ In q (c2q_qids (cs_c2q s))).
Proof. exact (Client_proofs8.C13_queue_bounded sdh ops). Qed.

Theorem C13_new_blocks_taken s :
  cs_new_blocks (fst (cstep s CTakeNewBlocks)) = [] /\ snd (cstep s CTakeNewBlocks) = [ONewBlocks (cs_new_blocks s)].
Proof. exact (Client_proofs8.C13_new_blocks_taken s). Qed.

Theorem C13_client_proportional sdh ops :
  let s := st_after sdh ops in
  (* peers: at most one entry per connected peer; connections: a duplicate-free non-empty subset of the open ones *)
  (NoDup (map fst (cs_peers s)) /\
   (forall p ps, In (p, ps) (cs_peers s) ->
      p_conns ps <> [] /\ NoDup (p_conns ps) /\ incl (p_conns ps) (open_conns p ops) /\
      (length (p_conns ps) <= length (open_conns p ops))%nat /\ In p (connected_peers ops)) /\
   (length (cs_peers s) <= length (connected_peers ops))%nat) /\
  (* request states of one peer: wanted CIDs, plus what left the wantlist since the peer's last generated wantlist *)
  (forall p ps, al_find N.eqb p (cs_peers s) = Some ps ->
     NoDup (keys (p_wl ps)) /\
     (forall c, In c (keys (p_wl ps)) -> In c (wl_cids (cs_wl s)) \/ In c (stale_cids p sdh ops)) /\
     (length (req (p_wl ps)) <= length (cs_c2q s) + length (stale_cids p sdh ops))%nat) /\
  (* tasks and the ready-to-run queue *)
  (NoDup (map fst (cs_tasks s)) /\
   (forall tid t, In (tid, t) (cs_tasks s) ->
      match t_kind t with
      | TGet q c => (t_aborted t = false /\ In (q, tid) (cs_abort s)) \/ (t_aborted t = true /\ In tid (cs_ready s))
      | TPut bl => bl <> []
      end) /\
   length (cs_tasks s) = (length (cs_abort s) + length (filter aborted_get (cs_tasks s)) + length (filter is_put (cs_tasks s)))%nat /\
   (length (filter aborted_get (cs_tasks s)) <= length (cs_ready s))%nat /\
   NoDup (cs_ready s) /\ incl (cs_ready s) (map fst (cs_tasks s)) /\ (length (cs_ready s) <= length (cs_tasks s))%nat) /\
  (* the event queue *)
  ((forall p c f es, ~ In (EvSend p c f es) (cs_queue s)) /\
   length (cs_queue s) = length (queue_qids (cs_queue s)) /\
   NoDup (queue_qids (cs_queue s)) /\
   (forall q, In q (queue_qids (cs_queue s)) ->
      q < count_gets ops /\ ~ In q (out_qids (outs_after sdh ops)) /\
      ~ In q (task_qids (cs_tasks s)) /\ ~ In q (c2q_qids (cs_c2q s)))) /\
  (* right after a CPoll *)
  (forall ops0 ch, ops = ops0 ++ [CPoll ch] ->
     cs_ready s = [] /\ cs_queue s = [] /\
     (forall tid t, In (tid, t) (cs_tasks s) ->
        exists n, t_call t = Some n /\ t_result t = None /\
          match t_kind t with TGet q c => t_aborted t = false /\ In (q, tid) (cs_abort s) | TPut bl => bl <> [] end) /\
     filter aborted_get (cs_tasks s) = [] /\
     length (cs_tasks s) = (length (cs_abort s) + length (filter is_put (cs_tasks s)))%nat /\
     (forall p ps, is_open p (st_after sdh ops0) = true -> al_find N.eqb p (cs_peers s) = Some ps ->
        stale_cids p sdh ops = [] /\ incl (keys (p_wl ps)) (wl_cids (cs_wl s)) /\
        (length (req (p_wl ps)) <= length (cs_c2q s))%nat)) /\
  (* new_blocks is emptied by get_new_blocks *)
  cs_new_blocks (fst (cstep s CTakeNewBlocks)) = [].
Proof. exact (Client_proofs8.C13_client_proportional sdh ops). Qed.

Example C13_tasks_example :
  let ops := [CNewConn 7 1; CGet (Some ex_c1); CGet (Some ex_c2); CPoll [(7, 1)]; CRelease 0 SMiss; CRelease 1 SMiss; CPoll [(7, 1)];
              CGet (Some ex_c3); CCancel 2; CIncoming 7 [] [(ex_c1, [5; 6])]] in
  let s := st_after true ops in
  map fst (cs_tasks s) = [2; 3] /\ cs_ready s = [2; 3] /\ cs_abort s = [] /\
  length (filter aborted_get (cs_tasks s)) = 1%nat /\ length (filter is_put (cs_tasks s)) = 1%nat /\
  cs_queue s = [EvResponse 0 [5; 6]] /\
  let s' := st_after true (ops ++ [CPoll [(7, 1)]]) in
  map fst (cs_tasks s') = [3] /\ cs_ready s' = [] /\ cs_queue s' = [] /\ length (filter is_put (cs_tasks s')) = 1%nat /\
  cs_new_blocks (st_after true (ops ++ [CPoll [(7, 1)]; CRelease 2 SMiss; CPoll [(7, 1)]])) = [(ex_c1, [5; 6])] /\
  cs_tasks (st_after true (ops ++ [CPoll [(7, 1)]; CRelease 2 SMiss; CPoll [(7, 1)]])) = [].
Proof. exact (Client_proofs8.C13_tasks_example). Qed.

Theorem C15_extra_connection_keeps_state sdh ops p c2 ps ch :
  let s := st_after sdh ops in
  al_find N.eqb p (cs_peers s) = Some ps ->
  let s2 := fst (cstep s (CNewConn p c2)) in
  (* the step: nothing is emitted and only the connection set of p's entry changes *)
  snd (cstep s (CNewConn p c2)) = [] /\
  al_find N.eqb p (cs_peers s2) =
    Some (MkPeer (if n_mem c2 (p_conns ps) then p_conns ps else p_conns ps ++ [c2]) (p_ss ps) (p_wl ps) (p_send_full ps)) /\
  s2 = set_peers s (cs_peers s2) /\
  (forall q, q <> p -> al_find N.eqb q (cs_peers s2) = al_find N.eqb q (cs_peers s)) /\
  (* the next poll sends p what it would have sent without the new connection, possibly on another connection *)
  (forall c f es, In (OSendWantlist p c f es) (snd (c_poll s ch)) -> exists c', In (OSendWantlist p c' f es) (snd (c_poll s2 ch))) /\
  (forall c' f es, In (OSendWantlist p c' f es) (snd (c_poll s2 ch)) ->
     (exists c, In (OSendWantlist p c f es) (snd (c_poll s ch))) \/
     (al_find N.eqb p (cs_peers (fst (c_poll s ch))) = None /\ f = true /\ c' = c2 /\ ~ In c2 (p_conns ps))) /\
  (* and leaves the same exchange state *)
  (forall ps', al_find N.eqb p (cs_peers (fst (c_poll s ch))) = Some ps' ->
     exists ps2', al_find N.eqb p (cs_peers (fst (c_poll s2 ch))) = Some ps2' /\
       p_wl ps2' = p_wl ps' /\ p_send_full ps2' = p_send_full ps' /\ incl (p_conns ps') (p_conns ps2') /\
       (p_ss ps2' = p_ss ps' \/
        exists cA cB, p_ss ps' = SsRequested (cs_now s) cA /\ p_ss ps2' = SsRequested (cs_now s) cB /\
                      In cA (p_conns ps') /\ In cB (p_conns ps2'))) /\
  (* nothing else differs *)
  (forall q, q <> p -> al_find N.eqb q (cs_peers (fst (c_poll s2 ch))) = al_find N.eqb q (cs_peers (fst (c_poll s ch)))) /\
  fst (c_poll s2 ch) = set_peers (fst (c_poll s ch)) (cs_peers (fst (c_poll s2 ch))) /\
  (forall o, (forall c f es, o <> OSendWantlist p c f es) -> o <> OBadChoice ->
             (In o (snd (c_poll s2 ch)) <-> In o (snd (c_poll s ch)))).
Proof. exact (Client_proofs9.C15_extra_connection_keeps_state sdh ops p c2 ps ch). Qed.

Theorem C15_close_one_keeps_peer_served sdh ops p c ps c' ch :
  let s := st_after sdh ops in
  al_find N.eqb p (cs_peers s) = Some ps -> In c' (p_conns ps) -> c' <> c ->
  let s3 := fst (cstep s (CConnClosed p c)) in
  (* the step: the entry stays, with its request states, sending state and send_full *)
  snd (cstep s (CConnClosed p c)) = [] /\
  al_find N.eqb p (cs_peers s3) = Some (MkPeer (n_remove c (p_conns ps)) (p_ss ps) (p_wl ps) (p_send_full ps)) /\
  s3 = set_peers s (cs_peers s3) /\
  (forall q, q <> p -> al_find N.eqb q (cs_peers s3) = al_find N.eqb q (cs_peers s)) /\
  (* the closed connection is the one a failed / unacknowledged transmission names: the next poll sends the
     FULL wantlist over a remaining connection *)
  ((p_ss ps = SsFailed c \/ exists t, p_ss ps = SsRequested t c /\ (cs_now s - t <? RECEIVE_REQUEST_TIMEOUT) = false) ->
     (exists c1 es, In (OSendWantlist p c1 true es) (snd (c_poll s3 ch))) /\
     (forall c1 f es, In (OSendWantlist p c1 f es) (snd (c_poll s3 ch)) -> f = true /\ c1 <> c /\ In c1 (p_conns ps))) /\
  (* a transmission is outstanding (on any connection): the poll leaves p alone and keeps the entry *)
  (uh_gate (cs_now s) ps = None ->
     (forall c1 f es, ~ In (OSendWantlist p c1 f es) (snd (c_poll s3 ch))) /\
     exists ps', al_find N.eqb p (cs_peers (fst (c_poll s3 ch))) = Some ps' /\ p_ss ps' = p_ss ps /\ p_conns ps' = n_remove c (p_conns ps)) /\
  (* in every case the next poll sends p what it would have sent, over a remaining connection *)
  (forall c1 f es, In (OSendWantlist p c1 f es) (snd (c_poll s3 ch)) ->
     c1 <> c /\ In c1 (p_conns ps) /\ exists c1', In (OSendWantlist p c1' f es) (snd (c_poll s ch))) /\
  (forall c1 f es, In (OSendWantlist p c1 f es) (snd (c_poll s ch)) ->
     (exists c1', In (OSendWantlist p c1' f es) (snd (c_poll s3 ch))) \/
     (al_find N.eqb p (cs_peers (fst (c_poll s3 ch))) = None /\ f = true /\ c1 = c)) /\
  (forall ps3', al_find N.eqb p (cs_peers (fst (c_poll s3 ch))) = Some ps3' ->
     exists ps', al_find N.eqb p (cs_peers (fst (c_poll s ch))) = Some ps' /\
       p_wl ps' = p_wl ps3' /\ p_send_full ps' = p_send_full ps3' /\ incl (p_conns ps3') (p_conns ps') /\
       (p_ss ps' = p_ss ps3' \/
        exists cA cB, p_ss ps3' = SsRequested (cs_now s) cA /\ p_ss ps' = SsRequested (cs_now s) cB /\
                      In cA (p_conns ps3') /\ In cB (p_conns ps'))) /\
  (* nothing else differs *)
  (forall q, q <> p -> al_find N.eqb q (cs_peers (fst (c_poll s3 ch))) = al_find N.eqb q (cs_peers (fst (c_poll s ch)))) /\
  fst (c_poll s3 ch) = set_peers (fst (c_poll s ch)) (cs_peers (fst (c_poll s3 ch))) /\
  (forall o, (forall c1 f es, o <> OSendWantlist p c1 f es) -> o <> OBadChoice ->
             (In o (snd (c_poll s3 ch)) <-> In o (snd (c_poll s ch)))).
Proof. exact (Client_proofs9.C15_close_one_keeps_peer_served sdh ops p c ps c' ch). Qed.

Example C15_extra_connection_example :
  let ops := [CNewConn 7 1; CPoll [(7, 1)]; CReport 7 1 (RpRequestReceived 1); CReport 7 1 (RpSending 1); CReport 7 1 RpReady;
              CGet (Some ex_c1); CPoll [(7, 1)]; CRelease 0 SMiss] in
  let s := st_after true ops in
  let s2 := fst (cstep s (CNewConn 7 2)) in
  al_find N.eqb 7 (cs_peers s) = Some (MkPeer [1] SsReady wls_new false) /\
  al_find N.eqb 7 (cs_peers s2) = Some (MkPeer [1; 2] SsReady wls_new false) /\
  In (OSendWantlist 7 1 false [(KWantHave, ex_c1)]) (snd (c_poll s [(7, 2)])) /\
  In (OSendWantlist 7 2 false [(KWantHave, ex_c1)]) (snd (c_poll s2 [(7, 2)])).
Proof. exact (Client_proofs9.C15_extra_connection_example). Qed.

Example C15_extra_connection_corner :
  let ops := [CNewConn 7 1; CPoll [(7, 1)]; CReport 7 1 (RpFailed 1)] in
  let s := st_after true ops in
  let s2 := fst (cstep s (CNewConn 7 2)) in
  al_find N.eqb 7 (cs_peers s) = Some (MkPeer [1] (SsFailed 1) wls_new false) /\
  snd (c_poll s [(7, 2)]) = [] /\ al_find N.eqb 7 (cs_peers (fst (c_poll s [(7, 2)]))) = None /\
  snd (c_poll s2 [(7, 2)]) = [OSendWantlist 7 2 true []].
Proof. exact (Client_proofs9.C15_extra_connection_corner). Qed.

Example C15_close_one_example :
  let ops := [CNewConn 7 1; CNewConn 7 2; CGet (Some ex_c1); CPoll [(7, 1)]; CRelease 0 SMiss; CAdvance 1000] in
  let s := st_after true ops in
  al_find N.eqb 7 (cs_peers s) = Some (MkPeer [1; 2] (SsRequested 0 1) wls_new false) /\
  (let s3 := fst (cstep s (CConnClosed 7 1)) in
   al_find N.eqb 7 (cs_peers s3) = Some (MkPeer [2] (SsRequested 0 1) wls_new false) /\
   snd (c_poll s3 [(7, 2)]) = [OSendWantlist 7 2 true [(KWantHave, ex_c1)]]) /\
  (let s3 := fst (cstep s (CConnClosed 7 2)) in
   al_find N.eqb 7 (cs_peers s3) = Some (MkPeer [1] (SsRequested 0 1) wls_new false) /\
   snd (c_poll s3 [(7, 2)]) = [] /\ al_find N.eqb 7 (cs_peers (fst (c_poll s3 [(7, 2)]))) = None /\
   snd (c_poll s [(7, 2)]) = [OSendWantlist 7 2 true [(KWantHave, ex_c1)]]).
Proof. exact (Client_proofs9.C15_close_one_example). Qed.

Print Assumptions C13_peers_bounded.
Print Assumptions C13_conns_step.
Print Assumptions C13_req_states_bounded.
Print Assumptions stale_reset.
Print Assumptions C13_req_states_after_poll.
Print Assumptions C13_req_states_shrink.
Print Assumptions C13_peers_exact_refuted.
Print Assumptions C13_conns_exact_refuted.
Print Assumptions C13_req_states_after_poll_refuted.
Print Assumptions C13_peers_example.
Print Assumptions C13_req_states_example.
Print Assumptions C13_tasks_bounded.
Print Assumptions C13_tasks_after_poll.
Print Assumptions C13_queue_bounded.
Print Assumptions C13_new_blocks_taken.
Print Assumptions C13_client_proportional.
Print Assumptions C13_tasks_example.
Print Assumptions C15_extra_connection_keeps_state.
Print Assumptions C15_close_one_keeps_peer_served.
Print Assumptions C15_extra_connection_example.
Print Assumptions C15_extra_connection_corner.
Print Assumptions C15_close_one_example.
