(* ServerHandler.v — executable model of `ServerConnectionHandler` (/repo/src/server.rs:337-466):
   `set_stream`, `queue_messages`, `poll` = `poll_outgoing`, `close_sink_on_error`,
   `blocks_fitting_in_message`.  Definitions only; theorems are in ServerHandler_proofs.v.

   I/O convention: see the top of FramedWrite.v (S1-S6).  The server handler only ever calls
   `poll_flush` and `start_send` on its FramedWrite (never `poll_ready`, never `poll_close`).

   Outputs of one op, in order of occurrence:
     SHQueue bs  : []                       (ToHandlerEvent::QueueOutgoingMessages -> queue_messages)
     SHSetStream : the new stream gets number `sh_next` (0,1,2,... in SHSetStream order);
                   [SHDropped old] if a FramedWrite was overwritten
     SHPoll s    : `ServerConnectionHandler::poll` is called until it returns Pending; every
                   `Poll::Ready(OutboundSubstreamRequest)` gives SHOpenStream, interleaved with what the
                   stream records while the calls run (SHWrote per accepted poll_write, SHDropped)
   `ConnectionEvent::DialUpgradeError` with `StreamRequester::Server` is a no-op in lib.rs:364-366
   ("TODO"), so there is no op for it: the handler simply stays in `SvRequested`.
   The `expect("pending_messages can't be None here")` is applied to the binding the arm matched as
   `Some(_)`; it cannot fail and has no panic outcome here.  `usize` overflow of the running size in
   `blocks_fitting_in_message` is not modelled (sizes are unbounded N). *)
From BS Require Export Types FramedWrite.

Definition blk := (bytes * bytes)%type.          (* (prefix, data) as queued by the behaviour *)

Inductive shop :=
| SHQueue (blocks : list blk)
| SHSetStream
| SHPoll (script : list io).

Inductive shout :=
| SHOpenStream
| SHWrote (stream : N) (bs : bytes)
| SHDropped (stream : N).

(* server::SinkState *)
Inductive ssink := SvNone | SvRequested | SvReady (id : N) (buf : bytes).

Record shstate := MkSH {
  sh_sink : ssink;                               (* sink *)
  sh_pending : option (list blk);                (* pending_outgoing_messages *)
  sh_next : N;                                   (* number the next SHSetStream stream gets *)
  (* ghost fields *)
  sh_exhausted : bool;                           (* fuel of shpoll_loop ran out (proved impossible) *)
  sh_started : list (N * list blk);              (* (stream, payload) of every start_send, oldest first *)
  sh_queued : list blk                           (* every block ever queued, in order *)
}.

Definition sh_init : shstate := MkSH SvNone None 0 false [] [].

(* message::MAX_MESSAGE_SIZE = 4 * 1024 * 1024 *)
Definition MAX_MESSAGE_SIZE : N := 4194304.

Definition block_of (b : blk) : block := MkBlock (fst b) (snd b).

(* Message { payload, ..Message::default() } *)
Definition payload_message (bs : list blk) : message := MkMessage None (map block_of bs) [] 0.

Definition shout_of_sevs (id : N) (evs : list sev) : list shout :=
  flat_map (fun e => match e with SevWrote bs => [SHWrote id bs] | SevClosed => [] end) evs.

Section WithEncode.
Variable encode : message -> bytes.              (* bytes `Codec::encode` appends for a message *)
Variable block_size : blk -> N.                  (* 1 + sizeof_len(block.get_size()) *)

(* blocks_fitting_in_message, server.rs:454-466; `Some k` = the early `return n.max(1)` *)
Fixpoint bfit_go (size n : N) (bs : list blk) : option N :=
  match bs with
  | [] => None
  | b :: bs' =>
      let size' := size + block_size b in
      if MAX_MESSAGE_SIZE <? size' then Some (N.max n 1) else bfit_go size' (n + 1) bs'
  end.

Definition blocks_fitting_in_message (bs : list blk) : N :=
  match bfit_go 0 0 bs with Some k => k | None => len bs end.

(* queue_messages, server.rs:363-372 *)
Definition sh_do_queue (st : shstate) (bs : list blk) : shstate :=
  MkSH (sh_sink st)
       (Some (match sh_pending st with None => bs | Some l => l ++ bs end))
       (sh_next st) (sh_exhausted st) (sh_started st) (sh_queued st ++ bs).

(* set_stream, server.rs:358-361 *)
Definition sh_do_set_stream (st : shstate) : shstate * list shout :=
  let id := sh_next st in
  (MkSH (SvReady id []) (sh_pending st) (id + 1) (sh_exhausted st) (sh_started st) (sh_queued st),
   match sh_sink st with SvReady old _ => [SHDropped old] | _ => [] end).

Definition sh_set_sink (st : shstate) (k : ssink) : shstate :=
  MkSH k (sh_pending st) (sh_next st) (sh_exhausted st) (sh_started st) (sh_queued st).

Inductive siter_res := SiPending | SiReady (o : shout) | SiContinue.

(* one pass through the body of the `loop` of poll_outgoing, server.rs:395-434 *)
Definition sh_iter (st : shstate) (script : list io) : siter_res * shstate * list io * list shout :=
  match sh_pending st, sh_sink st with
  | _, SvRequested => (SiPending, st, script, [])
  | None, SvNone => (SiPending, st, script, [])
  | None, SvReady id buf =>
      let f := fw_poll_flush buf script in
      let o := shout_of_sevs id (fr_evs f) in
      match fr_res f with
      | PrErr => (SiPending, sh_set_sink st SvNone, fr_script f, o ++ [SHDropped id])   (* close_sink_on_error *)
      | _ => (SiPending, sh_set_sink st (SvReady id (fr_buf f)), fr_script f, o)
      end
  | Some _, SvNone => (SiReady SHOpenStream, sh_set_sink st SvRequested, script, [])    (* open_new_substream *)
  | Some l, SvReady id buf =>
      let f := fw_poll_flush buf script in
      let o := shout_of_sevs id (fr_evs f) in
      match fr_res f with
      | PrPending => (SiPending, sh_set_sink st (SvReady id (fr_buf f)), fr_script f, o)
      | PrErr => (SiContinue, sh_set_sink st SvNone, fr_script f, o ++ [SHDropped id])
      | PrOk =>
          let '(now, rest) := splitN (blocks_fitting_in_message l) l in             (* split_off *)
          let pend := match rest with [] => None | _ :: _ => Some rest end in
          (SiContinue,
           MkSH (SvReady id (fw_start_send (fr_buf f) (encode (payload_message now))))
                pend (sh_next st) (sh_exhausted st) (sh_started st ++ [(id, now)]) (sh_queued st),
           fr_script f, o)
      end
  end.

Fixpoint shpoll_loop (fuel : nat) (st : shstate) (script : list io) : shstate * list shout :=
  match fuel with
  | O => (MkSH (sh_sink st) (sh_pending st) (sh_next st) true (sh_started st) (sh_queued st), [])
  | S f =>
      match sh_iter st script with
      | (SiPending, st', _, o) => (st', o)
      | (SiReady e, st', s', o) => let '(st'', o') := shpoll_loop f st' s' in (st'', o ++ e :: o')
      | (SiContinue, st', s', o) => let '(st'', o') := shpoll_loop f st' s' in (st'', o ++ o')
      end
  end.

Definition shpoll_fuel (st : shstate) : nat :=
  match sh_pending st with None => 0 | Some l => length l end + 6.

Definition sh_do_poll (st : shstate) (script : list io) : shstate * list shout :=
  shpoll_loop (shpoll_fuel st) st script.

Definition shstep (st : shstate) (op : shop) : shstate * list shout :=
  match op with
  | SHQueue bs => (sh_do_queue st bs, [])
  | SHSetStream => sh_do_set_stream st
  | SHPoll s => sh_do_poll st s
  end.

Fixpoint shrun_trace (st : shstate) (ops : list shop) : shstate * list (list shout) :=
  match ops with
  | [] => (st, [])
  | op :: ops' =>
      let '(st', o) := shstep st op in
      let '(st'', os) := shrun_trace st' ops' in
      (st'', o :: os)
  end.

Definition shrun (st : shstate) (ops : list shop) : shstate * list shout :=
  let '(st', os) := shrun_trace st ops in (st', concat os).

(* entry points for the harness *)
Definition server_handler_run (ops : list shop) : list (list shout) := snd (shrun_trace sh_init ops).
Definition server_handler_outs (ops : list shop) : list shout := snd (shrun sh_init ops).
Definition server_handler_final (ops : list shop) : shstate := fst (shrun_trace sh_init ops).

(* src/verif/server.rs `HandlerSnapshot`: (sink_state 0/1/2, pending as (prefix.len, data.len) list) *)
Definition sh_snapshot (st : shstate) : N * option (list (N * N)) :=
  (match sh_sink st with SvNone => 0 | SvRequested => 1 | SvReady _ _ => 2 end,
   match sh_pending st with
   | None => None
   | Some l => Some (map (fun b : blk => (len (fst b), len (snd b))) l)
   end).

End WithEncode.
