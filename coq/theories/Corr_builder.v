(* Corr_builder.v — engine `builder`: BehaviourBuilder::protocol_prefix + build, and the protocol names
   the built node uses (Behaviour.protocol, ConnHandler::listen_protocol, the client handler's and the
   server handler's OutboundSubstreamRequest), against ProtocolName.v; C20 oracle. *)
From BS Require Export Bytes ProtocolName.
Open Scope N_scope.

Inductive bin := BPrefix (s : bytes) | BNoPrefix.
Inductive bout :=
| BRejected
| BBuilt (behaviour listen client server : bytes)
| BPanicked.

Definition model (x : bin) : bout :=
  match x with
  | BNoPrefix => match protocol_name None with Some n => BBuilt n n n n | None => BPanicked end
  | BPrefix s =>
      match protocol_prefix s with
      | None => BRejected
      | Some p => match protocol_name (Some p) with Some n => BBuilt n n n n | None => BPanicked end
      end
  end.

Definition bout_eqb (a b : bout) : bool :=
  match a, b with
  | BRejected, BRejected | BPanicked, BPanicked => true
  | BBuilt a1 a2 a3 a4, BBuilt b1 b2 b3 b4 => bytes_eqb a1 b1 && bytes_eqb a2 b2 && bytes_eqb a3 b3 && bytes_eqb a4 b4
  | _, _ => false
  end.

Definition case := (bin * bout)%type.
Definition corr (x : case) : bool := bout_eqb (model (fst x)) (snd x).

(* C20: accepted iff it starts with '/', never a panic, and the one name prefix ++ suffix everywhere *)
Definition oracle (x : case) : bool :=
  match x with
  | (BPrefix s, BRejected) => negb (starts_with_slash s)
  | (BPrefix s, BBuilt a b c d) =>
      starts_with_slash s && bytes_eqb a (s ++ SUFFIX) && bytes_eqb b a && bytes_eqb c a && bytes_eqb d a
  | (BNoPrefix, BBuilt a b c d) => bytes_eqb a SUFFIX && bytes_eqb b a && bytes_eqb c a && bytes_eqb d a
  | _ => false
  end.
