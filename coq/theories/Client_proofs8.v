(* Client_proofs8.v — package I, part 2: the task set (`tasks`, the ready-to-run queue), the event queue and
   `new_blocks`; the conjunction C13_client_proportional. *)
From BS Require Import Types Wantlist Wantlist_proofs Client Client_proofs Client_proofs2 Client_proofs3 Client_proofs4 Client_proofs5 Client_proofs7.
From Coq Require Import ZArith ZifyBool ZifyN ZifyNat Lia Permutation.
Open Scope N_scope.

(* ---------- which tasks have something to do when polled ---------- *)
Definition needy (t : task) : bool := match poll_task 0 t with TpPending => false | _ => true end.

Lemma poll_task_pending nc t : poll_task nc t = TpPending -> needy t = false.
Proof.
  unfold needy, poll_task. destruct (t_kind t); [destruct (t_aborted t); [discriminate|]|];
    (destruct (t_call t); [destruct (t_result t) as [[]|]|]); try discriminate; reflexivity.
Qed.

Lemma start_not_needy nc t o : poll_task nc t = TpStart o -> t_result t = None -> needy (start_task nc t) = false.
Proof.
  unfold needy, poll_task, start_task. cbn [t_kind t_call t_result t_aborted]. intros Hp ->.
  destruct (t_kind t); [destruct (t_aborted t); [discriminate|]|]; reflexivity.
Qed.

Lemma not_needy_pending t :
  needy t = false ->
  exists n, t_call t = Some n /\ t_result t = None /\ (forall q c, t_kind t = TGet q c -> t_aborted t = false).
Proof.
  unfold needy, poll_task. destruct (t_kind t) as [q c|bl].
  - destruct (t_aborted t); [discriminate|]. destruct (t_call t) as [n|]; [|discriminate].
    destruct (t_result t); [discriminate|]. intros _. exists n. repeat split; reflexivity.
  - destruct (t_call t) as [n|]; [|discriminate]. destruct (t_result t) as [[]|]; try discriminate.
    intros _. exists n. repeat split. intros q c [=].
Qed.

(* the invariant of (tasks, ready queue): ids distinct; a result only for a started call; every task with
   something to do is queued; the queue has no duplicates and names live tasks; a put carries blocks *)
Definition PQ (ts : list (N * task)) (rq : list N) : Prop :=
  NoDup (map fst ts) /\
  (forall k t, In (k, t) ts -> t_call t = None -> t_result t = None) /\
  (forall k t, In (k, t) ts -> needy t = true -> In k rq) /\
  NoDup rq /\ incl rq (map fst ts) /\
  (forall k t bl, In (k, t) ts -> t_kind t = TPut bl -> bl <> []).

Lemma poll_next_PQ rq ts nc :
  let '(ts', rq', nc', outs, res) := poll_next rq ts nc in PQ ts rq -> PQ ts' rq'.
Proof.
  apply (poll_next_ind (fun rq ts nc ts' rq' nc' outs res => PQ ts rq -> PQ ts' rq')).
  - intros ts0 nc0 H. exact H.
  - intros tid rq0 ts0 nc0 ts' rq' nc' outs res Hskip IH (H1 & H2 & H3 & H4 & H5 & H6). apply IH.
    inversion H4 as [|? ? Hn4 H4']; subst.
    split; [exact H1|]. split; [exact H2|]. split; [|split; [exact H4'|split; [|exact H6]]].
    + intros k t Hin Hneedy. destruct (H3 k t Hin Hneedy) as [<- | H]; [|exact H]. exfalso.
      destruct Hskip as [Hnone | (t0 & Hf & Hp)].
      * apply (al_find_none _ Neqb_spec) in Hnone. apply Hnone. apply (in_map fst) in Hin. exact Hin.
      * apply (al_find_some_in _ Neqb_spec) in Hf. assert (t = t0) by (eapply NoDup_keys_in_eq; eassumption). subst t0.
        apply poll_task_pending in Hp. congruence.
    + intros x Hx. apply H5. right. exact Hx.
  - intros tid rq0 ts0 nc0 t r Hf Hp (H1 & H2 & H3 & H4 & H5 & H6). inversion H4 as [|? ? Hn4 H4']; subst.
    assert (Hsub : forall k t0, In (k, t0) (al_remove N.eqb tid ts0) -> In (k, t0) ts0 /\ k <> tid).
    { intros k t0 Hin. unfold al_remove in Hin. apply filter_In in Hin. destruct Hin as [Hin Hne]. cbn [fst] in Hne.
      apply negb_true_iff, N.eqb_neq in Hne. split; [exact Hin | congruence]. }
    split; [apply al_remove_NoDup; exact H1|]. split; [|split; [|split; [exact H4'|split]]].
    + intros k t0 Hin. apply Hsub in Hin. apply (H2 k t0), Hin.
    + intros k t0 Hin Hneedy. apply Hsub in Hin. destruct Hin as [Hin Hne].
      destruct (H3 k t0 Hin Hneedy) as [E | H]; [congruence | exact H].
    + intros x Hx. apply (al_remove_keys _ Neqb_spec). split; [apply H5; right; exact Hx|]. intros ->. contradiction.
    + intros k t0 bl Hin. apply Hsub in Hin. apply (H6 k t0 bl), Hin.
  - intros tid rq0 ts0 nc0 t o ts' rq' nc' outs res Hf Hp IH (H1 & H2 & H3 & H4 & H5 & H6). apply IH.
    inversion H4 as [|? ? Hn4 H4']; subst. apply (al_find_some_in _ Neqb_spec) in Hf.
    split; [rewrite al_modify_keys; exact H1|]. split; [|split; [|split; [exact H4'|split]]].
    + intros k t1 Hin. apply in_al_modify in Hin. destruct Hin as (t0 & Hin & ->).
      destruct (tid =? k); [cbn; discriminate | apply (H2 k t0 Hin)].
    + intros k t1 Hin Hneedy. apply in_al_modify in Hin. destruct Hin as (t0 & Hin & ->).
      destruct (tid =? k) eqn:E.
      * apply N.eqb_eq in E. subst k. assert (t0 = t) by (eapply NoDup_keys_in_eq; eassumption). subst t0.
        assert (Hc : t_call t = None).
        { unfold poll_task in Hp. destruct (t_kind t); [destruct (t_aborted t); [discriminate|]|];
            (destruct (t_call t); [destruct (t_result t) as [[]|]; discriminate | reflexivity]). }
        rewrite (start_not_needy _ _ _ Hp (H2 _ _ Hf Hc)) in Hneedy. discriminate.
      * destruct (H3 k t0 Hin Hneedy) as [E' | H]; [apply N.eqb_neq in E; congruence | exact H].
    + rewrite al_modify_keys. intros x Hx. apply H5. right. exact Hx.
    + intros k t1 bl Hin. apply in_al_modify in Hin. destruct Hin as (t0 & Hin & ->).
      destruct (tid =? k); [cbn [start_task t_kind]|]; apply (H6 k t0 bl Hin).
Qed.

Definition INVQ (s : cstate) : Prop := PQ (cs_tasks s) (cs_ready s).

Lemma INVQ_same s s' : cs_tasks s' = cs_tasks s -> cs_ready s' = cs_ready s -> INVQ s -> INVQ s'.
Proof. intros E1 E2 H. unfold INVQ. rewrite E1, E2. exact H. Qed.

Lemma INVQ_after_tasks s : INVQ s -> INVQ (after_tasks s).
Proof.
  unfold INVQ, after_tasks. pose proof (poll_next_PQ (cs_ready s) (cs_tasks s) (cs_next_call s)) as H.
  destruct (poll_next (cs_ready s) (cs_tasks s) (cs_next_call s)) as [[[[ts rq] nc] outs] res]. exact H.
Qed.

Lemma INVQ_poll_iter ch s : INVQ s -> INVQ (fst (fst (poll_iter ch s))).
Proof.
  intros HQ.
  destruct (poll_iter_cases ch s) as [(ev & q & Hq & ->) | [(Hq & Ht & ->) | [(r & Hq & Ht & Hr & ->) | (Hq & Ht & Hr & ->)]]];
    cbn [fst snd]; try exact HQ.
  - destruct (handle_result_frame (after_tasks s) r) as (E1 & _ & E3 & _).
    apply (INVQ_same (after_tasks s)); auto. apply INVQ_after_tasks, HQ.
  - destruct (update_handlers_frame (after_tasks s) ch) as (E1 & _ & _ & _ & _ & E6 & _).
    apply (INVQ_same (after_tasks s)); auto. apply INVQ_after_tasks, HQ.
Qed.

Lemma INVQ_push s k :
  INVT s -> (forall bl, k = TPut bl -> bl <> []) -> INVQ s -> INVQ (push_task s k).
Proof.
  intros [_ Hlt] Hk (H1 & H2 & H3 & H4 & H5 & H6). unfold INVQ, push_task. cbn [cs_tasks cs_ready].
  assert (Hfresh : ~ In (cs_next_task s) (map fst (cs_tasks s))) by (intros H; apply Hlt in H; lia).
  split; [rewrite map_app; apply NoDup_snoc; assumption|]. split; [|split; [|split; [|split]]].
  - intros k0 t Hin. apply in_app_iff in Hin. destruct Hin as [Hin | [[= <- <-] | []]]; [apply (H2 k0 t Hin) | reflexivity].
  - intros k0 t Hin Hn. apply in_app_iff. apply in_app_iff in Hin. destruct Hin as [Hin | [[= <- <-] | []]];
      [left; apply (H3 k0 t Hin Hn) | right; left; reflexivity].
  - apply NoDup_snoc; [exact H4|]. intros H. apply Hfresh, H5, H.
  - rewrite map_app. intros x Hx. apply in_app_iff in Hx. apply in_app_iff. destruct Hx as [Hx | Hx]; [left; apply H5, Hx | right; exact Hx].
  - intros k0 t bl Hin. apply in_app_iff in Hin. destruct Hin as [Hin | [[= <- <-] | []]]; [apply (H6 k0 t bl Hin) | apply Hk].
Qed.

(* waking a task: its record is changed by f (which keeps kind and call, and sets no result on an
   unstarted task) and it is queued unless it already is *)
Lemma PQ_wake ts rq tid f :
  In tid (map fst ts) ->
  (forall t, t_kind (f t) = t_kind t /\ t_call (f t) = t_call t) ->
  (forall t, In (tid, t) ts -> t_call t = None -> t_result (f t) = None) ->
  PQ ts rq -> PQ (al_modify N.eqb tid f ts) (if n_mem tid rq then rq else rq ++ [tid]).
Proof.
  intros Htid Hf Hres (H1 & H2 & H3 & H4 & H5 & H6).
  assert (Hin_rq : forall x, In x rq -> In x (if n_mem tid rq then rq else rq ++ [tid]))
    by (intros x Hx; destruct (n_mem tid rq); [exact Hx | apply in_app_iff; left; exact Hx]).
  split; [rewrite al_modify_keys; exact H1|]. split; [|split; [|split; [|split]]].
  - intros k t' Hin. apply in_al_modify in Hin. destruct Hin as (t & Hin & ->). destruct (tid =? k) eqn:E.
    + apply N.eqb_eq in E. subst k. destruct (Hf t) as [_ ->]. apply Hres, Hin.
    + apply (H2 k t Hin).
  - intros k t' Hin Hn. apply in_al_modify in Hin. destruct Hin as (t & Hin & ->). destruct (tid =? k) eqn:E.
    + apply N.eqb_eq in E. subst k. destruct (n_mem tid rq) eqn:M; [apply n_mem_In; exact M | apply in_app_iff; right; left; reflexivity].
    + apply Hin_rq, (H3 k t Hin Hn).
  - destruct (n_mem tid rq) eqn:M; [exact H4|]. apply NoDup_snoc; [exact H4 | apply n_mem_false; exact M].
  - rewrite al_modify_keys. intros x Hx. destruct (n_mem tid rq); [apply H5, Hx|].
    apply in_app_iff in Hx. destruct Hx as [Hx | [<- | []]]; [apply H5, Hx | exact Htid].
  - intros k t' bl Hin. apply in_al_modify in Hin. destruct Hin as (t & Hin & ->).
    destruct (tid =? k); [destruct (Hf t) as [-> _]|]; apply (H6 k t bl Hin).
Qed.

Lemma INVQ_abort_task s tid : INVQ s -> INVQ (abort_task s tid).
Proof.
  intros HQ. unfold abort_task. destruct (al_mem N.eqb tid (cs_tasks s)) eqn:M; [|exact HQ].
  apply (al_mem_In _ Neqb_spec) in M. unfold INVQ. cbn [set_tasks cs_tasks cs_ready].
  apply PQ_wake; [exact M | intros t; split; reflexivity | | exact HQ].
  intros t Hin Hc. cbn [t_result]. destruct HQ as (_ & H2 & _). apply (H2 tid t Hin Hc).
Qed.

Lemma INVQ_release s call r : INVQ s -> INVQ (c_release s call r).
Proof.
  intros HQ. unfold c_release. destruct (find (call_is call) (cs_tasks s)) as [[tid t0]|] eqn:Ef; [|exact HQ].
  apply find_some in Ef. destruct Ef as [Hin0 Hc0]. unfold INVQ. cbn [set_tasks cs_tasks cs_ready].
  apply PQ_wake; [apply (in_map fst) in Hin0; exact Hin0 | intros t; split; reflexivity | | exact HQ].
  intros t Hin Hc. exfalso. destruct HQ as (H1 & _). assert (t = t0) by (eapply NoDup_keys_in_eq; eassumption). subst t.
  unfold call_is in Hc0. cbn [snd] in Hc0. rewrite Hc in Hc0. discriminate.
Qed.

Lemma INVQ_step s o : INVT s -> INVQ s -> INVQ (fst (cstep s o)).
Proof.
  intros HT HQ. destruct o; cbn [cstep fst].
  - unfold c_new_conn. destruct (al_mem N.eqb p (cs_peers s)); exact HQ.
  - unfold c_conn_closed. destruct (al_find N.eqb p (cs_peers s)); [destruct (p_conns (remove_conn c p0))|]; exact HQ.
  - unfold c_get. destruct c; cbn [fst]; [|exact HQ].
    apply (INVQ_same (push_task (bump_qid s) (TGet (cs_next_qid s) c))); auto.
    apply INVQ_push; [exact HT | intros bl [=] | exact HQ].
  - rewrite c_cancel_unfold. cbv zeta.
    assert (H1 : INVQ (cancel_abort s q)).
    { unfold cancel_abort. destruct (al_find N.eqb q (cs_abort s)) as [tid|]; [|exact HQ]. apply INVQ_abort_task. exact HQ. }
    destruct (find_query q (cs_c2q (cancel_abort s q))) as [[c qs]|]; [destruct (swap_remove_q q qs)|]; exact H1.
  - unfold c_incoming. destruct (al_find N.eqb p (cs_peers s)); [|exact HQ].
    match goal with |- context [ia_panic ?a] => destruct (ia_panic a); [exact HQ|]; destruct (ia_new a) eqn:En; [exact HQ|] end.
    cbn [fst]. apply INVQ_push; [exact HT | intros bl [= <-]; discriminate | exact HQ].
  - exact HQ.
  - apply INVQ_release, HQ.
  - exact HQ.
  - unfold c_poll. apply poll_loop_inv; [apply INVQ_poll_iter | exact HQ].
  - exact HQ.
Qed.

Lemma INVQ_run sdh ops : INVQ (st_after sdh ops).
Proof.
  induction ops as [|o ops IH] using rev_ind.
  - split; [constructor|]. split; [intros k t []|]. split; [intros k t []|]. split; [constructor|]. split; [intros x []|intros k t bl []].
  - rewrite st_after_snoc. apply INVQ_step; [apply INVT_run | exact IH].
Qed.

(* ---------- counting the tasks ---------- *)
Definition live_get (e : N * task) : bool :=
  match t_kind (snd e) with TGet _ _ => negb (t_aborted (snd e)) | TPut _ => false end.
Definition aborted_get (e : N * task) : bool :=
  match t_kind (snd e) with TGet _ _ => t_aborted (snd e) | TPut _ => false end.
Definition is_put (e : N * task) : bool :=
  match t_kind (snd e) with TGet _ _ => false | TPut _ => true end.

Lemma tasks_partition (ts : list (N * task)) :
  length ts = (length (filter live_get ts) + length (filter aborted_get ts) + length (filter is_put ts))%nat.
Proof.
  induction ts as [|[k t] ts IH]; [reflexivity|]. cbn [filter]. unfold live_get at 1, aborted_get at 1, is_put at 1. cbn [snd].
  destruct (t_kind t); [destruct (t_aborted t)|]; cbn [negb length]; lia.
Qed.

Definition handle_of (e : N * task) : qid * N :=
  (match t_kind (snd e) with TGet q _ => q | TPut _ => 0 end, fst e).

Lemma live_gets_handles abort ts :
  NoDup (map fst ts) -> NoDup (map fst abort) -> handles_ok abort ts ->
  length (filter live_get ts) = length abort.
Proof.
  intros Hts Hab Hh. rewrite <- (map_length handle_of (filter live_get ts)). apply Nat.le_antisymm.
  - apply NoDup_incl_length.
    + apply (NoDup_map_inv snd). rewrite map_map. cbn [handle_of snd]. apply (NoDup_map_filter fst live_get). exact Hts.
    + intros [q tid] Hin. apply in_map_iff in Hin. destruct Hin as ([k t] & E & Hin). apply filter_In in Hin. destruct Hin as [Hin Hl].
      unfold handle_of, live_get in *. cbn [fst snd] in *. destruct (t_kind t) as [q0 c|bl] eqn:Ek; [|discriminate].
      injection E as <- <-. apply Hh. exists c, t. split; [exact Hin|]. split; [exact Ek|]. apply negb_true_iff. exact Hl.
  - apply NoDup_incl_length; [apply (NoDup_map_inv fst); exact Hab|].
    intros [q tid] Hin. apply Hh in Hin. destruct Hin as (c & t & Hin & Hk & Ha). apply in_map_iff. exists (tid, t). split.
    + unfold handle_of. cbn [fst snd]. rewrite Hk. reflexivity.
    + apply filter_In. split; [exact Hin|]. unfold live_get. cbn [snd]. rewrite Hk, Ha. reflexivity.
Qed.

(* C13 (client), `tasks`: every task is the lookup of a query that still has its abort handle, or a lookup
   that was aborted and is queued to be reaped, or a put of accepted blocks *)
Lemma C13_tasks_bounded sdh ops :
  let s := st_after sdh ops in
  NoDup (map fst (cs_tasks s)) /\
  (forall tid t, In (tid, t) (cs_tasks s) ->
     match t_kind t with
     | TGet q c => (t_aborted t = false /\ In (q, tid) (cs_abort s)) \/ (t_aborted t = true /\ In tid (cs_ready s))
     | TPut bl => bl <> []
     end) /\
  length (cs_tasks s) = (length (cs_abort s) + length (filter aborted_get (cs_tasks s)) + length (filter is_put (cs_tasks s)))%nat /\
  (length (filter aborted_get (cs_tasks s)) <= length (cs_ready s))%nat /\
  NoDup (cs_ready s) /\ incl (cs_ready s) (map fst (cs_tasks s)) /\ (length (cs_ready s) <= length (cs_tasks s))%nat.
Proof.
  intros s. destruct (INVQ_run sdh ops) as (H1 & H2 & H3 & H4 & H5 & H6). destruct (INVH_run sdh ops) as (_ & Hnd & Hh & _).
  fold s in H1, H2, H3, H4, H5, H6, Hnd, Hh.
  split; [exact H1|]. split; [|split; [|split; [|split; [exact H4|split; [exact H5|]]]]].
  - intros tid t Hin. destruct (t_kind t) as [q c|bl] eqn:Ek; [|apply (H6 tid t bl Hin Ek)].
    destruct (t_aborted t) eqn:Ea.
    + right. split; [reflexivity|]. apply (H3 tid t Hin). unfold needy, poll_task. rewrite Ek, Ea. reflexivity.
    + left. split; [reflexivity|]. apply Hh. eauto.
  - rewrite (tasks_partition (cs_tasks s)), (live_gets_handles (cs_abort s) (cs_tasks s) H1 Hnd Hh). reflexivity.
  - rewrite <- (map_length fst (filter aborted_get (cs_tasks s))). apply NoDup_incl_length.
    + apply (NoDup_map_filter fst aborted_get). exact H1.
    + intros k Hk. apply in_map_iff in Hk. destruct Hk as ([k0 t] & <- & Hin). apply filter_In in Hin. destruct Hin as [Hin Ha].
      cbn [fst]. apply (H3 k0 t Hin). unfold aborted_get in Ha. cbn [snd] in Ha. unfold needy, poll_task.
      destruct (t_kind t); [rewrite Ha; reflexivity | discriminate].
  - rewrite <- (map_length fst (cs_tasks s)). apply NoDup_incl_length; assumption.
Qed.

(* after a CPoll: the ready queue and the event queue are empty, no aborted task is left, every task is
   waiting for its store call (started, not released), so tasks = live lookups + puts in flight *)
Lemma c_poll_ready_empty s ch : cs_ready (fst (c_poll s ch)) = [].
Proof.
  destruct (c_poll_summary_ex s ch) as (outsC & sC & Hrun & _ & ->).
  destruct (tasks_run_frame _ _ _ Hrun) as (_ & _ & _ & F4 & _). exact F4.
Qed.

Lemma C13_tasks_after_poll sdh ops ch :
  let s := st_after sdh (ops ++ [CPoll ch]) in
  cs_ready s = [] /\ cs_queue s = [] /\
  (forall tid t, In (tid, t) (cs_tasks s) ->
     exists n, t_call t = Some n /\ t_result t = None /\
       match t_kind t with TGet q c => t_aborted t = false /\ In (q, tid) (cs_abort s) | TPut bl => bl <> [] end) /\
  filter aborted_get (cs_tasks s) = [] /\
  length (cs_tasks s) = (length (cs_abort s) + length (filter is_put (cs_tasks s)))%nat.
Proof.
  intros s. assert (Hr : cs_ready s = []) by (unfold s; rewrite st_after_snoc; apply c_poll_ready_empty).
  assert (Hq : cs_queue s = []) by (unfold s; rewrite st_after_snoc; apply cpoll_fuel_enough).
  destruct (INVQ_run sdh (ops ++ [CPoll ch])) as (H1 & H2 & H3 & H4 & H5 & H6).
  destruct (C13_tasks_bounded sdh (ops ++ [CPoll ch])) as (_ & Hcl & Hlen & Hab & _). fold s in H1, H2, H3, H4, H5, H6, Hcl, Hlen, Hab.
  assert (Hpend : forall tid t, In (tid, t) (cs_tasks s) -> needy t = false).
  { intros tid t Hin. destruct (needy t) eqn:E; [|reflexivity]. specialize (H3 tid t Hin E). rewrite Hr in H3. destruct H3. }
  assert (Hnoab : filter aborted_get (cs_tasks s) = []).
  { destruct (filter aborted_get (cs_tasks s)) as [|e l]; [reflexivity|]. rewrite Hr in Hab. cbn in Hab. lia. }
  split; [exact Hr|]. split; [exact Hq|]. split; [|split; [exact Hnoab|]].
  - intros tid t Hin. destruct (not_needy_pending t (Hpend tid t Hin)) as (n & Hc & Hres & Hab').
    specialize (Hcl tid t Hin). exists n. split; [exact Hc|]. split; [exact Hres|].
    destruct (t_kind t) as [q c|bl] eqn:Ek.
    + specialize (Hab' q c eq_refl). split; [exact Hab'|]. destruct Hcl as [[_ H] | [H _]]; [exact H | congruence].
    + exact Hcl.
  - rewrite Hnoab in Hlen. cbn [length] in Hlen. lia.
Qed.

(* ---------- the event queue and new_blocks ---------- *)
Lemma queue_len (q : list event) :
  (forall p c f es, ~ In (EvSend p c f es) q) -> length (queue_qids q) = length q.
Proof.
  induction q as [|e q IH]; intros H; [reflexivity|]. unfold queue_qids in *. cbn [flat_map]. rewrite app_length, IH.
  - destruct e; cbn [event_qid length]; try reflexivity. exfalso. eapply H. left. reflexivity.
  - intros p c f es Hin. eapply H. right. exact Hin.
Qed.

(* C13 (client), `queue`: between polls it holds one event per query that has just been answered by a
   block (or could not be started) and has not been reported yet — never a SendWantlist — and each query
   at most once; a CPoll empties it *)
Lemma C13_queue_bounded sdh ops :
  let s := st_after sdh ops in
  (forall p c f es, ~ In (EvSend p c f es) (cs_queue s)) /\
  length (cs_queue s) = length (queue_qids (cs_queue s)) /\
  NoDup (queue_qids (cs_queue s)) /\
  (forall q, In q (queue_qids (cs_queue s)) ->
     q < count_gets ops /\ ~ In q (out_qids (outs_after sdh ops)) /\
     ~ In q (task_qids (cs_tasks s)) /\ ~ In q (c2q_qids (cs_c2q s))).
Proof.
  intros s. destruct (INVS_run sdh ops) as [_ Hq]. fold s in Hq.
  assert (Hacc : forall x, (cnt x (task_qids (cs_tasks s)) + cnt x (c2q_qids (cs_c2q s)) + cnt x (queue_qids (cs_queue s))
                            + cnt x (out_qids (outs_after sdh ops)) <= if N.ltb x (count_gets ops) then 1 else 0)%nat).
  { intros x. pose proof (run_accounting sdh ops x) as H. unfold live in H. exact H. }
  split; [exact Hq|]. split; [symmetry; apply queue_len; exact Hq|]. split.
  - apply (NoDup_count_occ N.eq_dec). intros x. specialize (Hacc x). fold (cnt x (queue_qids (cs_queue s))).
    destruct (N.ltb x (count_gets ops)); lia.
  - intros q Hin. specialize (Hacc q). apply (count_occ_In N.eq_dec) in Hin. fold (cnt q (queue_qids (cs_queue s))) in Hin.
    destruct (N.ltb q (count_gets ops)) eqn:E; [|lia]. apply N.ltb_lt in E. split; [exact E|].
    repeat split; intros H; apply (count_occ_In N.eq_dec) in H; unfold cnt in *; lia.
Qed.

Lemma C13_new_blocks_taken s :
  cs_new_blocks (fst (cstep s CTakeNewBlocks)) = [] /\ snd (cstep s CTakeNewBlocks) = [ONewBlocks (cs_new_blocks s)].
Proof. split; reflexivity. Qed.

(* ---------- C13 (client): every component is bounded by the live queries and the connected peers ---------- *)
Theorem C13_client_proportional sdh ops :
  let s := st_after sdh ops in
  (* peers: at most one entry per connected peer; connections: a duplicate-free non-empty subset of the open ones *)
  (NoDup (map fst (cs_peers s)) /\
   (forall p ps, In (p, ps) (cs_peers s) ->
      p_conns ps <> [] /\ NoDup (p_conns ps) /\ incl (p_conns ps) (open_conns p ops) /\
      (length (p_conns ps) <= length (open_conns p ops))%nat /\ In p (connected_peers ops)) /\
   (length (cs_peers s) <= length (connected_peers ops))%nat) /\
  (* request states of one peer: wanted CIDs, plus what left the wantlist since the peer's last generated wantlist *)
  (forall p ps, al_find N.eqb p (cs_peers s) = Some ps ->
     NoDup (keys (p_wl ps)) /\
     (forall c, In c (keys (p_wl ps)) -> In c (wl_cids (cs_wl s)) \/ In c (stale_cids p sdh ops)) /\
     (length (req (p_wl ps)) <= length (cs_c2q s) + length (stale_cids p sdh ops))%nat) /\
  (* tasks and the ready-to-run queue *)
  (NoDup (map fst (cs_tasks s)) /\
   (forall tid t, In (tid, t) (cs_tasks s) ->
      match t_kind t with
      | TGet q c => (t_aborted t = false /\ In (q, tid) (cs_abort s)) \/ (t_aborted t = true /\ In tid (cs_ready s))
      | TPut bl => bl <> []
      end) /\
   length (cs_tasks s) = (length (cs_abort s) + length (filter aborted_get (cs_tasks s)) + length (filter is_put (cs_tasks s)))%nat /\
   (length (filter aborted_get (cs_tasks s)) <= length (cs_ready s))%nat /\
   NoDup (cs_ready s) /\ incl (cs_ready s) (map fst (cs_tasks s)) /\ (length (cs_ready s) <= length (cs_tasks s))%nat) /\
  (* the event queue *)
  ((forall p c f es, ~ In (EvSend p c f es) (cs_queue s)) /\
   length (cs_queue s) = length (queue_qids (cs_queue s)) /\
   NoDup (queue_qids (cs_queue s)) /\
   (forall q, In q (queue_qids (cs_queue s)) ->
      q < count_gets ops /\ ~ In q (out_qids (outs_after sdh ops)) /\
      ~ In q (task_qids (cs_tasks s)) /\ ~ In q (c2q_qids (cs_c2q s)))) /\
  (* right after a CPoll *)
  (forall ops0 ch, ops = ops0 ++ [CPoll ch] ->
     cs_ready s = [] /\ cs_queue s = [] /\
     (forall tid t, In (tid, t) (cs_tasks s) ->
        exists n, t_call t = Some n /\ t_result t = None /\
          match t_kind t with TGet q c => t_aborted t = false /\ In (q, tid) (cs_abort s) | TPut bl => bl <> [] end) /\
     filter aborted_get (cs_tasks s) = [] /\
     length (cs_tasks s) = (length (cs_abort s) + length (filter is_put (cs_tasks s)))%nat /\
     (forall p ps, is_open p (st_after sdh ops0) = true -> al_find N.eqb p (cs_peers s) = Some ps ->
        stale_cids p sdh ops = [] /\ incl (keys (p_wl ps)) (wl_cids (cs_wl s)) /\
        (length (req (p_wl ps)) <= length (cs_c2q s))%nat)) /\
  (* new_blocks is emptied by get_new_blocks *)
  cs_new_blocks (fst (cstep s CTakeNewBlocks)) = [].
Proof.
  intros s. split; [exact (C13_peers_bounded sdh ops)|]. split; [exact (C13_req_states_bounded sdh ops)|].
  split; [exact (C13_tasks_bounded sdh ops)|]. split; [exact (C13_queue_bounded sdh ops)|]. split; [|reflexivity].
  intros ops0 ch E. unfold s. rewrite E. destruct (C13_tasks_after_poll sdh ops0 ch) as (H1 & H2 & H3 & H4 & H5).
  split; [exact H1|]. split; [exact H2|]. split; [exact H3|]. split; [exact H4|]. split; [exact H5|].
  intros p ps Ho Hf. split; [apply stale_reset; exact Ho|]. apply (C13_req_states_after_poll sdh ops0 ch p ps Ho Hf).
Qed.

Example C13_tasks_example :
  let ops := [CNewConn 7 1; CGet (Some ex_c1); CGet (Some ex_c2); CPoll [(7, 1)]; CRelease 0 SMiss; CRelease 1 SMiss; CPoll [(7, 1)];
              CGet (Some ex_c3); CCancel 2; CIncoming 7 [] [(ex_c1, [5; 6])]] in
  let s := st_after true ops in
  map fst (cs_tasks s) = [2; 3] /\ cs_ready s = [2; 3] /\ cs_abort s = [] /\
  length (filter aborted_get (cs_tasks s)) = 1%nat /\ length (filter is_put (cs_tasks s)) = 1%nat /\
  cs_queue s = [EvResponse 0 [5; 6]] /\
  let s' := st_after true (ops ++ [CPoll [(7, 1)]]) in
  map fst (cs_tasks s') = [3] /\ cs_ready s' = [] /\ cs_queue s' = [] /\ length (filter is_put (cs_tasks s')) = 1%nat /\
  cs_new_blocks (st_after true (ops ++ [CPoll [(7, 1)]; CRelease 2 SMiss; CPoll [(7, 1)]])) = [(ex_c1, [5; 6])] /\
  cs_tasks (st_after true (ops ++ [CPoll [(7, 1)]; CRelease 2 SMiss; CPoll [(7, 1)]])) = [].
Proof. vm_compute. repeat split; reflexivity. Qed.
