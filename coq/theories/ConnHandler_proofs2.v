(* ConnHandler_proofs2.v — package O: the theorems about the three parts of the connection handler (Streams_proofs,
   Handler_proofs, ServerHandler_proofs, Wire) restated and proved for the WHOLE handler ConnHandler.v, through the
   projections of ConnHandler_proofs (package M).

   Part A  the two halves
     C14_connhandler_ready_means_delivered   Handler_proofs.C14_ready_means_delivered on the client projection
     C14_connhandler_wire_delivery           Wire.C14_wire_delivery on the client projection (real codec)
     C09_connhandler_outbound_split          ServerHandler_proofs.C09_outbound_split on the server projection
   Part B  the inbound side
     connhandler_inbound_polls               the IncomingMessage events attributed to inbound stream k, and the state
                                             its member of the SelectAll is left in, are exactly what n successive
                                             calls of IncomingStream::poll_next (Streams.polls_from) give on the
                                             stream's own read events — for EVERY run, also one that ends fatally
     g_connhandler_inbound_is_stream_out     hence: a prefix of the stream's whole-life output `g_stream_out`, and
                                             all of it once the member is `stream_settled` (it has stopped, or its read
                                             events are used up and it has been polled to Pending since)
     connhandler_inbound_is_stream_out, connhandler_inbound_complete, C16_connhandler_bad_frame_costs_own_stream,
     C16_connhandler_bad_frame_prefix, C14_connhandler_end_to_end         the real codec
   Part C  "polled often enough" read off the op list
     connhandler_polled_enough_settled       run over, handler not dead, more KPolls after the KInbound of stream k
                                             than ReadPending events on k (kpolled_enough) => k's member is settled
     C16_connhandler_streams_complete        hence all of stream_out has been handed on
   Part D  the inbound side as a whole
     connhandler_inbound_is_conn_run         for every run there is a schedule under which Streams.conn_run_full gives
                                             exactly the run's IncomingMessage events (in order) and member states *)
From BS Require Import Bytes Types FramedWrite Handler ServerHandler Framed Framed_proofs Streams Streams_proofs
                       Handler_proofs ServerHandler_proofs ConnHandler ConnHandler_proofs.
From Coq Require Import ZArith ZifyBool ZifyN ZifyNat Lia.
Open Scope N_scope.

(* ================================================================================================== *)
(* What the behaviour handed to the whole handler, read off the op list                               *)
(* ================================================================================================== *)

(* wantlists handed over by SendWantlist events, in order *)
Definition ksent_ws (ops : list kop) : list wantlist :=
  flat_map (fun op => match op with KSendWantlist w => [w] | _ => [] end) ops.
(* blocks handed over by QueueOutgoingMessages events, in order *)
Definition kqueued (ops : list kop) : list blk :=
  flat_map (fun op => match op with KQueue bs => bs | _ => [] end) ops.
(* the read events of the inbound streams, in the order the streams were opened *)
Definition op_opens (op : kop) : list (list read_ev) := match op with KInbound evs => [evs] | _ => [] end.
Definition inbound_evs (ops : list kop) : list (list read_ev) := flat_map op_opens ops.

(* ================================================================================================== *)
(* Part A.  The two halves                                                                            *)
(* ================================================================================================== *)
Section Halves.
Variable encode : message -> bytes.
Variable block_size : blk -> N.
Variable msg : Type.
Variable parse : bytes -> N -> parse_result msg.
Variable proc : msg -> pm_result.

Local Notation kstep := (kstep encode block_size parse proc).
Local Notation krun_trace := (krun_trace encode block_size parse proc).
Local Notation client_proj := (client_proj encode block_size parse proc).

Lemma sent_ws_app a : forall b, sent_ws (a ++ b) = sent_ws a ++ sent_ws b.
Proof.
  induction a as [|op a IH]; intros b; [reflexivity|].
  destruct op; cbn [app sent_ws]; rewrite IH; reflexivity.
Qed.

Lemma sent_ws_hops_at st op :
  sent_ws (hops_at encode block_size st op) = match op with KSendWantlist w => [w] | _ => [] end.
Proof.
  destruct op as [w|bs|evs|[|]|[|]|ms|sc ss|sc]; try reflexivity.
  cbn [hops_at]. destruct (srv_opens encode block_size (k_server st) ss); reflexivity.
Qed.

(* the wantlists the client projection hands to Handler.v are those handed to the whole handler *)
Lemma sent_ws_client_proj ops : forall st, sent_ws (client_proj st ops) = ksent_ws ops.
Proof.
  induction ops as [|op ops IH]; intros st; [reflexivity|].
  cbn [ConnHandler_proofs.client_proj]. rewrite sent_ws_app, sent_ws_hops_at, IH. reflexivity.
Qed.

Lemma queued_of_app a : forall b, queued_of (a ++ b) = queued_of a ++ queued_of b.
Proof.
  induction a as [|op a IH]; intros b; [reflexivity|].
  destruct op; cbn [app queued_of]; rewrite IH, ?app_assoc; reflexivity.
Qed.

(* the blocks the server projection hands to ServerHandler.v are those handed to the whole handler *)
Lemma queued_of_shops ops : queued_of (flat_map shops_of ops) = kqueued ops.
Proof.
  induction ops as [|op ops IH]; [reflexivity|].
  cbn [flat_map]. rewrite queued_of_app, IH. unfold kqueued at 2. cbn [flat_map]. fold (kqueued ops). f_equal.
  destruct op as [w|bs|evs|[|]|[|]|ms|sc ss|sc]; try reflexivity. cbn. apply app_nil_r.
Qed.

(* THEOREM 2.  C14_ready_means_delivered for the whole handler.  If the client half's view of the run (client_proj:
   its own ops and scripts) respects the contract, its most recent report is RpReady, no report is queued and at
   least one wantlist was handed over, then the bytes ONE stream of the client half accepted are exactly
   encode (wantlist_message w) for the LAST wantlist w handed to the whole handler — whatever the server half and
   the inbound side did in between. *)
Theorem C14_connhandler_ready_means_delivered :
  forall (c : conn) (ops : list kop),
    let fin := fst (krun_trace (k_init c) ops) in
    let outs := concat (snd (krun_trace (k_init c) ops)) in
    k_fatal fin = false ->
    disciplined encode true c (client_proj (k_init c) ops) = true ->
    h_queue (k_client fin) = [] -> last (reports (client_outs outs)) RpReady = RpReady -> ksent_ws ops <> [] ->
    exists fr0 id w ws0,
      h_frames (k_client fin) = fr0 ++ [(id, wantlist_message w)] /\ ksent_ws ops = ws0 ++ [w]
      /\ wrote_on id (client_outs outs) = encode (wantlist_message w).
Proof.
  intros c ops fin outs NF D Q L NE. subst fin outs.
  pose proof (connhandler_client_projection encode block_size msg parse proc ops (k_init c) (k_init_ok c) NF) as P.
  cbn [k_client k_init] in P.
  pose proof (C14_ready_means_delivered encode c (client_proj (k_init c) ops) D) as H. cbv zeta in H.
  rewrite handler_final_hrun in H. unfold handler_outs in H. rewrite P in H. cbn [fst snd] in H.
  rewrite sent_ws_client_proj in H. exact (H Q L NE).
Qed.

(* THEOREM 3.  C09_outbound_split for the whole handler: every message the server half starts fits the limit if
   each queued block does; the blocks of the started messages followed by the pending ones are the queued blocks in
   order (nothing lost, duplicated or reordered); each stream of the server half accepted a prefix of the frames
   started on it; while no stream was dropped, accepted bytes plus buffer are exactly all frames. *)
Theorem C09_connhandler_outbound_split :
  forall (c : conn) (ops : list kop),
    let fin := fst (krun_trace (k_init c) ops) in
    let outs := concat (snd (krun_trace (k_init c) ops)) in
    k_dead fin = false ->
    let st := k_server fin in
    let souts := server_outs outs in
    ((forall b, In b (kqueued ops) -> block_size b <= MAX_MESSAGE_SIZE) ->
       Forall (fun p => total block_size (snd p) <= MAX_MESSAGE_SIZE) (sh_started st))
    /\ concat (map snd (sh_started st)) ++ pending_list st = kqueued ops
    /\ (forall id, Handler_proofs.prefix (swrote_on id souts) (sbytes encode id (sh_started st)))
    /\ (no_drop souts -> forall id buf, sh_sink st = SvReady id buf ->
          swrote_on id souts ++ buf
          = concat (map (fun p => encode (payload_message (snd p))) (sh_started st))).
Proof.
  intros c ops fin outs ND st souts. subst st souts fin outs.
  pose proof (connhandler_server_projection encode block_size msg parse proc ops (k_init c) (k_init_ok c) ND) as P.
  cbn [k_server k_init] in P.
  pose proof (C09_outbound_split encode block_size (flat_map shops_of ops)) as H. cbv zeta in H.
  rewrite server_final_shrun in H. unfold server_handler_outs in H. rewrite P in H. cbn [fst snd] in H.
  rewrite queued_of_shops in H. exact H.
Qed.

End Halves.

(* ================================================================================================== *)
(* Part B.  The inbound side                                                                          *)
(* ================================================================================================== *)
Lemma of_stream_none k outs : Forall (fun p => fst p < k) outs -> of_stream k outs = [].
Proof.
  induction 1 as [|[j m] outs Hj _ IH]; [reflexivity|]. cbn [of_stream fst] in *.
  destruct (j =? k) eqn:E; [lia|exact IH].
Qed.

Lemma Forall_lt_weaken (outs : list (N * incoming)) i j :
  i <= j -> Forall (fun p => fst p < i) outs -> Forall (fun p => fst p < j) outs.
Proof. intros L F. eapply Forall_impl; [|exact F]. intros p Hp. cbv beta in *. lia. Qed.

Section Inbound.
Variable msg : Type.
Variable parse : bytes -> N -> parse_result msg.
Variable proc : msg -> pm_result.

Local Notation decode := (frame_decode parse).
Local Notation poll_stream := (poll_stream parse proc).
Local Notation polls_from := (polls_from parse proc).
Local Notation so_from := (so_from parse proc).
Local Notation is_poll := (is_poll parse proc).
Local Notation in_next := (in_next parse proc).
Local Notation in_drain := (in_drain msg parse proc).
Local Notation g_stream_out := (g_stream_out parse proc).

(* ---------- one member: what it would still yield if it were polled for ever, and how it would stop ---------- *)
Definition rest_out (s : sstate) : list incoming * sfinal :=
  match ss_status s with
  | SfPending => so_from (ss_buf s) (ss_evs s)
  | f => ([], f)
  end.

Lemma rest_out_init evs : rest_out (ss_init evs) = g_stream_out evs.
Proof. reflexivity. Qed.

Lemma rest_out_dead s : ss_status s <> SfPending -> rest_out s = ([], ss_status s).
Proof. unfold rest_out. destruct (ss_status s); congruence. Qed.

(* one call of IncomingStream::poll_next takes its message, if any, off the front of what is still to come *)
Lemma poll_stream_rest s :
  rest_out s = (match fst (poll_stream s) with Some inc => inc :: fst (rest_out (snd (poll_stream s)))
                                               | None => fst (rest_out (snd (poll_stream s))) end,
                snd (rest_out (snd (poll_stream s)))).
Proof.
  destruct s as [b e st]. destruct st; try reflexivity.
  rewrite (poll_stream_alive msg parse proc b e). unfold rest_out at 1. cbn [ss_status ss_buf ss_evs].
  rewrite (so_from_poll msg parse proc b e).
  destruct (is_poll b e) as [[o b'] e'] eqn:E. destruct o; cbn [fst snd].
  - unfold rest_out. cbn [ss_status ss_buf ss_evs]. destruct (so_from b' e'); reflexivity.
  - apply is_poll_done_ended in E. destruct why; try discriminate; reflexivity.
  - unfold rest_out. cbn [ss_status ss_buf ss_evs]. destruct e' as [|x e'].
    + rewrite (so_from_idle msg parse proc b'); [reflexivity|].
      eapply (is_poll_pending_waits msg parse proc (S (measure b e))); [|eassumption]. lia.
    + destruct (so_from b' (x :: e')); reflexivity.
  - reflexivity.
  - reflexivity.
  - reflexivity.
Qed.

Lemma polls_from_rest n : forall s,
  rest_out s = (fst (polls_from n s) ++ fst (rest_out (snd (polls_from n s))), snd (rest_out (snd (polls_from n s)))).
Proof.
  induction n as [|n IH]; intros s.
  - cbn [Streams.polls_from fst snd app]. destruct (rest_out s); reflexivity.
  - cbn [Streams.polls_from]. rewrite (poll_stream_rest s). destruct (poll_stream s) as [o s1]. cbn [fst snd].
    rewrite (IH s1). destruct (polls_from n s1) as [ms s2]. cbn [fst snd].
    destruct o; reflexivity.
Qed.

Lemma polls_from_app n1 : forall n2 s,
  polls_from (n1 + n2) s
  = (fst (polls_from n1 s) ++ fst (polls_from n2 (snd (polls_from n1 s))), snd (polls_from n2 (snd (polls_from n1 s)))).
Proof.
  induction n1 as [|n1 IH]; intros n2 s.
  - cbn [Nat.add Streams.polls_from fst snd app]. destruct (polls_from n2 s); reflexivity.
  - cbn [Nat.add Streams.polls_from]. destruct (poll_stream s) as [o s1]. rewrite (IH n2 s1).
    destruct (polls_from n1 s1) as [a s2]. cbn [fst snd]. destruct (polls_from n2 s2) as [b s3]. cbn [fst snd].
    destruct o; reflexivity.
Qed.

(* ---------- the members of the SelectAll, stream by stream ----------
   `inv_from i outs c c'`: the member lists c (before) and c' (after) have the same length, member number i+j went
   from c[j] to c'[j] by some number of calls of poll_next which yielded exactly the events of `outs` that carry
   its number, and no event of `outs` carries the number of a stream that does not exist *)
Fixpoint inv_from (i : N) (outs : list (N * incoming)) (c c' : list sstate) : Prop :=
  match c, c' with
  | [], [] => Forall (fun p => fst p < i) outs
  | s :: c1, s' :: c1' => (exists n, polls_from n s = (of_stream i outs, s')) /\ inv_from (i + 1) outs c1 c1'
  | _, _ => False
  end.

Lemma inv_from_refl c : forall i outs, Forall (fun p => fst p < i) outs -> inv_from i outs c c.
Proof.
  induction c as [|s c IH]; intros i outs F; cbn [inv_from]; [exact F|]. split.
  - exists O. rewrite (of_stream_none i outs F). reflexivity.
  - apply IH. apply (Forall_lt_weaken outs i); [lia|exact F].
Qed.

Lemma inv_from_trans c : forall c' c'' i o1 o2,
  inv_from i o1 c c' -> inv_from i o2 c' c'' -> inv_from i (o1 ++ o2) c c''.
Proof.
  induction c as [|s c IH]; intros c' c'' i o1 o2 H1 H2; destruct c' as [|s' c']; cbn [inv_from] in H1; try contradiction;
    destruct c'' as [|s'' c'']; cbn [inv_from] in H2; try contradiction; cbn [inv_from].
  - apply Forall_app. split; assumption.
  - destruct H1 as ((n1 & P1) & R1), H2 as ((n2 & P2) & R2). split; [|eapply IH; eassumption].
    exists (n1 + n2)%nat. rewrite polls_from_app, P1. cbn [fst snd]. rewrite P2. cbn [fst snd].
    rewrite of_stream_app. reflexivity.
Qed.

Lemma inv_from_length c : forall c' i outs, inv_from i outs c c' -> length c = length c'.
Proof.
  induction c as [|s c IH]; intros c' i outs H; destruct c' as [|s' c']; cbn [inv_from] in H; try contradiction;
    [reflexivity|]. cbn [length]. f_equal. eapply IH. apply H.
Qed.

Lemma inv_from_bound c : forall c' i outs,
  inv_from i outs c c' -> Forall (fun p => fst p < i + N.of_nat (length c)) outs.
Proof.
  induction c as [|s c IH]; intros c' i outs H; destruct c' as [|s' c']; cbn [inv_from] in H; try contradiction.
  - apply (Forall_lt_weaken outs i); [cbn [length]; lia|exact H].
  - destruct H as (_ & R). apply IH in R. apply (Forall_lt_weaken outs (i + 1 + N.of_nat (length c))); [cbn [length]; lia|exact R].
Qed.

(* streams opened later: nothing has been yielded by them yet *)
Lemma inv_from_app_r c : forall c' i outs l,
  inv_from i outs c c' -> inv_from i outs (c ++ l) (c' ++ l).
Proof.
  induction c as [|s c IH]; intros c' i outs l H; destruct c' as [|s' c']; cbn [inv_from] in H; try contradiction.
  - cbn [app]. apply inv_from_refl. exact H.
  - cbn [app inv_from]. destruct H as (P & R). split; [exact P|]. apply IH. exact R.
Qed.

Lemma inv_from_nth c : forall c' i outs j s,
  inv_from i outs c c' -> nth_error c j = Some s ->
  exists s' n, nth_error c' j = Some s' /\ polls_from n s = (of_stream (i + N.of_nat j) outs, s').
Proof.
  induction c as [|s0 c IH]; intros c' i outs j s H Hj; [destruct j; discriminate|].
  destruct c' as [|s0' c']; cbn [inv_from] in H; try contradiction. destruct H as ((n & P) & R).
  destruct j as [|j]; cbn [nth_error] in *.
  - injection Hj as <-. exists s0', n. split; [reflexivity|]. replace (i + N.of_nat 0) with i by lia. exact P.
  - destruct (IH c' (i + 1) outs j s R Hj) as (s' & n' & E1 & E2). exists s', n'. split; [exact E1|].
    replace (i + N.of_nat (S j)) with (i + 1 + N.of_nat j) by lia. exact E2.
Qed.

(* ---------- one call of incoming_streams.poll_next ---------- *)
Lemma in_next_lb : forall c i k inc c' f, in_next i c = (Some (k, inc), c', f) -> i <= k.
Proof.
  induction c as [|m c IH]; intros i k inc c' f H; cbn [ConnHandler.in_next] in H; [discriminate|].
  destruct (ki_awake m && ss_alive (ki_st m)).
  - destruct (poll_stream (ki_st m)) as [o s']. destruct o as [inc0|].
    + injection H as <- _ _ _. lia.
    + destruct (sfinal_fatal (ss_status s')); [discriminate|].
      destruct (in_next (i + 1) c) as [[r2 c2] f2] eqn:E2. injection H as -> _ _.
      apply IH in E2. lia.
  - destruct (in_next (i + 1) c) as [[r2 c2] f2] eqn:E2. injection H as -> _ _. apply IH in E2. lia.
Qed.

Lemma in_next_fatal_none : forall c i r c' k, in_next i c = (r, c', Some k) -> r = None.
Proof.
  induction c as [|m c IH]; intros i r c' k H; cbn [ConnHandler.in_next] in H; [discriminate|].
  destruct (ki_awake m && ss_alive (ki_st m)).
  - destruct (poll_stream (ki_st m)) as [o s']. destruct o as [inc0|]; [discriminate|].
    destruct (sfinal_fatal (ss_status s')); [injection H as <- _ _; reflexivity|].
    destruct (in_next (i + 1) c) as [[r2 c2] f2] eqn:E2. injection H as <- _ ->. eapply IH; exact E2.
  - destruct (in_next (i + 1) c) as [[r2 c2] f2] eqn:E2. injection H as <- _ ->. eapply IH; exact E2.
Qed.

Definition opt_list {A} (o : option A) : list A := match o with Some x => [x] | None => [] end.

Lemma opt_list_lb i (r : option (N * incoming)) :
  (forall k inc, r = Some (k, inc) -> i + 1 <= k) -> of_stream i (opt_list r) = [].
Proof.
  intros H. destruct r as [[k inc]|]; [|reflexivity]. cbn [opt_list of_stream].
  specialize (H k inc eq_refl). destruct (k =? i) eqn:E; [lia|reflexivity].
Qed.

Lemma in_next_inv : forall c i r c' f,
  in_next i c = (r, c', f) -> inv_from i (opt_list r) (map ki_st c) (map ki_st c').
Proof.
  induction c as [|m c IH]; intros i r c' f H; cbn [ConnHandler.in_next] in H.
  - injection H as <- <- <-. cbn. constructor.
  - destruct (ki_awake m && ss_alive (ki_st m)).
    + destruct (poll_stream (ki_st m)) as [o s'] eqn:EP. destruct o as [inc|].
      * injection H as <- <- <-. cbn [map ki_st inv_from opt_list]. split.
        -- exists 1%nat. cbn [Streams.polls_from]. rewrite EP. cbn [of_stream]. rewrite N.eqb_refl. reflexivity.
        -- apply inv_from_refl. constructor; [cbn [fst]; lia|constructor].
      * destruct (sfinal_fatal (ss_status s')).
        -- injection H as <- <- <-. cbn [map ki_st inv_from opt_list]. split.
           ++ exists 1%nat. cbn [Streams.polls_from]. rewrite EP. reflexivity.
           ++ apply inv_from_refl. constructor.
        -- destruct (in_next (i + 1) c) as [[r2 c2] f2] eqn:E2. injection H as <- <- <-.
           cbn [map ki_st inv_from]. split; [|eapply IH; exact E2].
           exists 1%nat. cbn [Streams.polls_from]. rewrite EP. rewrite opt_list_lb; [reflexivity|].
           intros k inc ->. eapply in_next_lb; exact E2.
    + destruct (in_next (i + 1) c) as [[r2 c2] f2] eqn:E2. injection H as <- <- <-.
      cbn [map inv_from]. split; [|eapply IH; exact E2].
      exists O. rewrite opt_list_lb; [reflexivity|]. intros k inc ->. eapply in_next_lb; exact E2.
Qed.

(* ---------- incoming_streams.poll_next until it has nothing: per stream, n calls of poll_next ---------- *)
Lemma in_drain_inv fuel : forall c l c' fz,
  in_drain fuel c = (l, c', fz) -> inv_from 0 l (map ki_st c) (map ki_st c').
Proof.
  induction fuel as [|fuel IH]; intros c l c' fz H; cbn [ConnHandler_proofs.in_drain] in H.
  - injection H as <- <- <-. apply inv_from_refl. constructor.
  - destruct (in_next 0 c) as [[r c1] f1] eqn:E. pose proof (in_next_inv _ _ _ _ _ E) as I1.
    destruct f1 as [k|].
    + pose proof (in_next_fatal_none _ _ _ _ _ E) as ->. injection H as <- <- <-. exact I1.
    + destruct r as [km|].
      * destruct (in_drain fuel c1) as [[l2 c2] fz2] eqn:E2. injection H as <- <- <-.
        apply (inv_from_trans _ (map ki_st c1) _ 0 [km] l2); [exact I1|]. eapply IH; exact E2.
      * injection H as <- <- <-. exact I1.
Qed.

(* ---------- a member that is not in the ready-to-run queue has returned Pending: its decoder waits ---------- *)
Definition waits (m : kin) : Prop :=
  ki_awake m = false -> ss_status (ki_st m) = SfPending -> decode (ss_buf (ki_st m)) = DNeedMore.

Lemma poll_stream_none_waits s s' :
  ss_status s = SfPending -> poll_stream s = (None, s') -> ss_status s' = SfPending -> decode (ss_buf s') = DNeedMore.
Proof.
  destruct s as [b e st]. cbn [ss_status]. intros ->. rewrite (poll_stream_alive msg parse proc b e).
  destruct (is_poll b e) as [[o b'] e'] eqn:E. destruct o; intros [= <-]; cbn [ss_status ss_buf]; try discriminate.
  - intros ->. apply is_poll_done_ended in E. discriminate.
  - intros _. eapply (is_poll_pending_waits msg parse proc (S (measure b e))); [|eassumption]. lia.
Qed.

Lemma in_next_waits : forall c i r c' f, Forall waits c -> in_next i c = (r, c', f) -> Forall waits c'.
Proof.
  induction c as [|m c IH]; intros i r c' f W H; cbn [ConnHandler.in_next] in H.
  - injection H as <- <- <-. constructor.
  - inversion W as [|? ? Wm Wc]; subst.
    destruct (ki_awake m && ss_alive (ki_st m)) eqn:A.
    + apply andb_prop in A. destruct A as [_ A]. apply ss_alive_status in A.
      destruct (poll_stream (ki_st m)) as [o s'] eqn:EP. destruct o as [inc|].
      * injection H as <- <- <-. constructor; [|exact Wc]. intros X. discriminate.
      * destruct (sfinal_fatal (ss_status s')) eqn:FT.
        -- injection H as <- <- <-. constructor; [|exact Wc]. intros _ X. cbn [ki_st] in X. rewrite X in FT. discriminate.
        -- destruct (in_next (i + 1) c) as [[r2 c2] f2] eqn:E2. injection H as <- <- <-.
           constructor; [|eapply IH; [exact Wc|exact E2]]. intros _ X. cbn [ki_st] in *.
           exact (poll_stream_none_waits _ _ A EP X).
    + destruct (in_next (i + 1) c) as [[r2 c2] f2] eqn:E2. injection H as <- <- <-.
      constructor; [exact Wm|eapply IH; [exact Wc|exact E2]].
Qed.

Lemma in_drain_waits fuel : forall c l c' fz, Forall waits c -> in_drain fuel c = (l, c', fz) -> Forall waits c'.
Proof.
  induction fuel as [|fuel IH]; intros c l c' fz W H; cbn [ConnHandler_proofs.in_drain] in H.
  - injection H as <- <- <-. exact W.
  - destruct (in_next 0 c) as [[r c1] f1] eqn:E. pose proof (in_next_waits _ _ _ _ _ W E) as W1.
    destruct f1 as [k|]; [destruct r; injection H as <- <- <-; exact W1|].
    destruct r as [km|]; [|injection H as <- <- <-; exact W1].
    destruct (in_drain fuel c1) as [[l2 c2] fz2] eqn:E2. injection H as <- <- <-. eapply IH; [exact W1|exact E2].
Qed.

Lemma wake_all_waits c : Forall waits (wake_all c).
Proof. unfold wake_all. apply Forall_forall. intros m Hm. apply in_map_iff in Hm. destruct Hm as (m0 & <- & _). intros X. discriminate. Qed.

Lemma wake_all_st c : map ki_st (wake_all c) = map ki_st c.
Proof. unfold wake_all. rewrite map_map. reflexivity. Qed.

End Inbound.

Arguments rest_out {msg} parse proc s.
Arguments inv_from {msg} parse proc i outs c c'.
Arguments waits {msg} parse m.

(* a member of the SelectAll from which nothing more can come on the read events it was given: it has stopped
   (Ready(None), or its poll was fatal), or its read events are used up and it has returned Pending since (it is not
   in the ready-to-run queue: every KPoll wakes all members and polls each until it returns Pending or ends) *)
Definition stream_settled (m : kin) : bool :=
  negb (ss_alive (ki_st m))
  || (negb (ki_awake m) && match ss_evs (ki_st m) with [] => true | _ :: _ => false end).

Section WholeRuns.
Variable encode : message -> bytes.
Variable block_size : blk -> N.
Variable msg : Type.
Variable parse : bytes -> N -> parse_result msg.
Variable proc : msg -> pm_result.

Local Notation kstep := (kstep encode block_size parse proc).
Local Notation krun_trace := (krun_trace encode block_size parse proc).
Local Notation polls_from := (polls_from parse proc).
Local Notation g_stream_out := (g_stream_out parse proc).
Local Notation inv_from := (inv_from parse proc).
Local Notation waits := (waits parse).
Local Notation rest_out := (rest_out parse proc).

(* the streams a run from st really opens: a KInbound is carried out only while the run is alive *)
Fixpoint opened (st : kstate) (ops : list kop) : list (list read_ev) :=
  match ops with
  | [] => []
  | op :: ops' => (if k_dead st then [] else op_opens op) ++ opened (fst (kstep st op)) ops'
  end.

Lemma opened_dead ops : forall st, k_dead st = true -> opened st ops = [].
Proof.
  induction ops as [|op ops IH]; intros st D; [reflexivity|]. cbn [opened]. rewrite D.
  rewrite (kstep_dead encode block_size msg parse proc st op D). cbn [fst app]. apply IH. exact D.
Qed.

Lemma opened_prefix ops : forall st, is_prefix (opened st ops) (inbound_evs ops).
Proof.
  induction ops as [|op ops IH]; intros st; [apply is_prefix_nil|].
  destruct (k_dead st) eqn:D; [rewrite (opened_dead _ st D); apply is_prefix_nil|].
  cbn [opened]. rewrite D. destruct (IH (fst (kstep st op))) as (tl & E). exists tl.
  unfold inbound_evs in *. cbn [flat_map]. rewrite E, app_assoc. reflexivity.
Qed.

Lemma opened_alive ops : forall st, k_dead (fst (krun_trace st ops)) = false -> opened st ops = inbound_evs ops.
Proof.
  induction ops as [|op ops IH]; intros st ND; [reflexivity|].
  assert (D : k_dead st = false).
  { destruct (k_dead st) eqn:D; [|reflexivity].
    rewrite (krun_dead encode block_size msg parse proc _ _ D) in ND. congruence. }
  cbn [opened ConnHandler.krun_trace] in *. rewrite D. destruct (kstep st op) as [st1 o1]. cbn [fst].
  specialize (IH st1). destruct (krun_trace st1 ops) as [st2 os]. cbn [fst] in *.
  unfold inbound_evs in *. cbn [flat_map]. rewrite (IH ND). reflexivity.
Qed.

(* ops other than KPoll do not touch the members and yield nothing from the inbound side *)
Lemma kstep_nonpoll st op :
  k_dead st = false -> (forall sc ss, op <> KPoll sc ss) ->
  k_in (fst (kstep st op)) = k_in st ++ map (fun evs => MkKin (ss_init evs) true) (op_opens op)
  /\ inbound_outs (snd (kstep st op)) = [].
Proof.
  intros D NP. unfold ConnHandler.kstep. rewrite D.
  destruct op as [w|bs|evs|[|]|[|]|ms|sc ss|sc]; cbn [op_opens map]; rewrite ?app_nil_r.
  - destruct (do_send_wantlist (k_client st) w) as [h o]. cbn [fst snd k_in k_set_client]. split; [reflexivity|apply inbound_outs_client].
  - split; reflexivity.
  - split; reflexivity.
  - destruct (do_set_stream (k_client st)) as [h o]. cbn [fst snd k_in k_set_client]. split; [reflexivity|apply inbound_outs_client].
  - destruct (sh_do_set_stream (k_server st)) as [h o]. cbn [fst snd k_in k_set_server]. split; [reflexivity|apply inbound_outs_server].
  - destruct (do_alloc_failed (k_client st)) as [h o]. cbn [fst snd k_in k_set_client]. split; [reflexivity|apply inbound_outs_client].
  - split; reflexivity.
  - split; reflexivity.
  - exfalso. exact (NP sc ss eq_refl).
  - destruct (do_poll_close (k_client st) sc) as [h o]. cbn [fst snd k_in k_set_client]. split; [reflexivity|apply inbound_outs_client].
Qed.

Lemma Forall_nil_lt i : Forall (fun p : N * incoming => fst p < i) [].
Proof. constructor. Qed.

(* one op, stream by stream *)
Lemma kstep_inv st op :
  inv_from 0 (inbound_outs (snd (kstep st op)))
           (map ki_st (k_in st) ++ map ss_init (if k_dead st then [] else op_opens op))
           (map ki_st (k_in (fst (kstep st op))))
  /\ (Forall waits (k_in st) -> Forall waits (k_in (fst (kstep st op)))).
Proof.
  destruct (k_dead st) eqn:D.
  { rewrite (kstep_dead encode block_size msg parse proc st op D). cbn [fst snd map]. rewrite app_nil_r.
    split; [apply inv_from_refl; apply Forall_nil_lt|auto]. }
  assert (C : (exists sc ss, op = KPoll sc ss) \/ (forall sc ss, op <> KPoll sc ss)).
  { destruct op; try (right; intros; discriminate). left. eauto. }
  destruct C as [(sc & ss & ->)|NP].
  - pose proof (connhandler_inbound_projection encode block_size msg parse proc st sc ss D) as P. cbv zeta in P.
    destruct (in_drain msg parse proc (S (in_mu (wake_all (k_in st)))) (wake_all (k_in st))) as [[l c] fz] eqn:E.
    destruct P as (P1 & P2 & _). rewrite P1, P2. cbn [op_opens map]. rewrite app_nil_r. split.
    + rewrite <- (wake_all_st (k_in st)). eapply in_drain_inv. exact E.
    + intros _. eapply in_drain_waits; [apply wake_all_waits|exact E].
  - destruct (kstep_nonpoll st op D NP) as (E1 & E2). rewrite E1, E2. split.
    + rewrite map_app, map_map. cbn [ki_st]. rewrite <- (map_map (fun x => x) ss_init), map_id.
      apply inv_from_refl. apply Forall_nil_lt.
    + intros W. apply Forall_app. split; [exact W|]. apply Forall_forall. intros m Hm.
      apply in_map_iff in Hm. destruct Hm as (evs & <- & _). intros X. discriminate.
Qed.

(* a whole run, stream by stream *)
Lemma krun_inv ops : forall st,
  inv_from 0 (inbound_outs (concat (snd (krun_trace st ops))))
           (map ki_st (k_in st) ++ map ss_init (opened st ops))
           (map ki_st (k_in (fst (krun_trace st ops)))).
Proof.
  induction ops as [|op ops IH]; intros st.
  - cbn [ConnHandler.krun_trace opened map fst snd concat]. rewrite app_nil_r. apply inv_from_refl. apply Forall_nil_lt.
  - cbn [ConnHandler.krun_trace opened]. destruct (kstep_inv st op) as (I1 & _).
    destruct (kstep st op) as [st1 o1]. cbn [fst snd] in *. specialize (IH st1).
    destruct (krun_trace st1 ops) as [st2 os]. cbn [fst snd concat] in *.
    rewrite inbound_outs_app, map_app, app_assoc.
    eapply inv_from_trans; [|exact IH]. apply inv_from_app_r. exact I1.
Qed.

Lemma krun_waits ops : forall st, Forall waits (k_in st) -> Forall waits (k_in (fst (krun_trace st ops))).
Proof.
  induction ops as [|op ops IH]; intros st W; [exact W|].
  cbn [ConnHandler.krun_trace]. destruct (kstep_inv st op) as (_ & W1). specialize (W1 W).
  destruct (kstep st op) as [st1 o1]. cbn [fst] in *. specialize (IH st1 W1).
  destruct (krun_trace st1 ops) as [st2 os]. exact IH.
Qed.

Lemma opened_nth ops st j :
  (j < length (opened st ops))%nat -> nth j (opened st ops) [] = nth j (inbound_evs ops) [].
Proof.
  intros L. destruct (opened_prefix ops st) as (tl & ->). rewrite app_nth1 by exact L. reflexivity.
Qed.

(* THEOREM 1a.  For EVERY run of the whole handler (also one that ends with a fatal inbound poll or a panic of the
   client half) and every inbound stream k that was opened: the IncomingMessage events attributed to k, and the state
   k's member of the SelectAll is left in, are exactly what n successive calls of IncomingStream::poll_next give on
   a fresh IncomingStream over k's own read events (Streams.polls_from, the function behind Streams.stream_polls and
   Streams.conn_run) — the two halves, the other streams, the scripts and the order of the ops decide n, nothing
   else. *)
Theorem connhandler_inbound_polls :
  forall (c : conn) (ops : list kop) (k : N) (m : kin),
    let fin := fst (krun_trace (k_init c) ops) in
    let outs := concat (snd (krun_trace (k_init c) ops)) in
    nth_error (k_in fin) (N.to_nat k) = Some m ->
    exists n, polls_from n (ss_init (nth (N.to_nat k) (inbound_evs ops) []))
              = (of_stream k (inbound_outs outs), ki_st m).
Proof.
  intros c ops k m fin outs Hm. subst fin outs.
  pose proof (krun_inv ops (k_init c)) as I. cbn [k_in k_init map app] in I.
  pose proof (inv_from_length msg parse proc _ _ _ _ I) as LEN. rewrite !map_length in LEN.
  assert (L : (N.to_nat k < length (opened (k_init c) ops))%nat).
  { rewrite LEN. apply nth_error_Some. congruence. }
  destruct (nth_error (map ss_init (opened (k_init c) ops)) (N.to_nat k)) as [s|] eqn:Es.
  2:{ apply nth_error_None in Es. rewrite map_length in Es. lia. }
  destruct (inv_from_nth msg parse proc _ _ _ _ _ _ I Es) as (s' & n & E1 & E2).
  rewrite (map_nth_error ki_st _ _ Hm) in E1. injection E1 as <-.
  apply nth_error_init in Es. destruct Es as (-> & _). rewrite opened_nth in E2 by exact L.
  exists n. rewrite E2. f_equal. f_equal. lia.
Qed.

(* no IncomingMessage carries the number of a stream that was not opened *)
Lemma connhandler_inbound_absent c ops k :
  nth_error (k_in (fst (krun_trace (k_init c) ops))) (N.to_nat k) = None ->
  of_stream k (inbound_outs (concat (snd (krun_trace (k_init c) ops)))) = [].
Proof.
  intros Hk. pose proof (krun_inv ops (k_init c)) as I. cbn [k_in k_init map app] in I.
  pose proof (inv_from_length msg parse proc _ _ _ _ I) as LEN. rewrite !map_length in LEN.
  apply (inv_from_bound msg parse proc) in I. apply of_stream_none. apply (Forall_lt_weaken _ _ k) in I; [exact I|].
  apply nth_error_None in Hk. rewrite map_length, LEN. lia.
Qed.

Lemma ss_alive_false s : ss_alive s = false -> ss_status s <> SfPending.
Proof. unfold ss_alive. intros H E. rewrite E in H. discriminate. Qed.

(* THEOREM 1 (generic parser / processor).  For EVERY run of the whole handler: the IncomingMessage events attributed
   to inbound stream k are a prefix of the whole-life output of an IncomingStream over k's read events; and once k's
   member is settled (stream_settled: it has stopped, or its read events are used up and it has been polled to
   Pending since) they are ALL of it, and the member's status is how that whole life ends. *)
Theorem g_connhandler_inbound_is_stream_out :
  forall (c : conn) (ops : list kop) (k : N),
    let fin := fst (krun_trace (k_init c) ops) in
    let outs := concat (snd (krun_trace (k_init c) ops)) in
    let evs := nth (N.to_nat k) (inbound_evs ops) [] in
    is_prefix (of_stream k (inbound_outs outs)) (fst (g_stream_out evs))
    /\ forall m, nth_error (k_in fin) (N.to_nat k) = Some m -> stream_settled m = true ->
         g_stream_out evs = (of_stream k (inbound_outs outs), ss_status (ki_st m)).
Proof.
  intros c ops k fin outs evs. subst fin outs evs.
  destruct (nth_error (k_in (fst (krun_trace (k_init c) ops))) (N.to_nat k)) as [m|] eqn:Hm.
  2:{ rewrite (connhandler_inbound_absent c ops k Hm). split; [apply is_prefix_nil|]. intros m X. discriminate. }
  destruct (connhandler_inbound_polls c ops k m Hm) as (n & P).
  pose proof (polls_from_rest msg parse proc n (ss_init (nth (N.to_nat k) (inbound_evs ops) []))) as R.
  rewrite P, rest_out_init in R. cbn [fst snd] in R. split.
  - rewrite R. cbn [fst]. eexists. reflexivity.
  - intros m' [= <-] ST.
    assert (Z : rest_out (ki_st m) = ([], ss_status (ki_st m))).
    { destruct (ss_alive (ki_st m)) eqn:AL.
      2:{ apply rest_out_dead. apply ss_alive_false. exact AL. }
      pose proof (ss_alive_status _ AL) as SS.
      unfold stream_settled in ST. rewrite AL in ST. cbn [negb orb] in ST.
      apply andb_prop in ST. destruct ST as (AS & EV).
      pose proof (krun_waits ops (k_init c) (Forall_nil _)) as W. rewrite Forall_forall in W.
      specialize (W m (nth_error_In _ _ Hm)). unfold ConnHandler_proofs2.waits in W.
      unfold ConnHandler_proofs2.rest_out. rewrite SS.
      destruct (ss_evs (ki_st m)); [|discriminate].
      apply (so_from_idle msg parse proc). apply W; [|exact SS].
      destruct (ki_awake m); [discriminate|reflexivity]. }
    rewrite R, Z. cbn [fst snd]. rewrite app_nil_r. reflexivity.
Qed.

(* once the run is over without a dead handler: every KInbound was carried out, each has its member *)
Lemma connhandler_members c ops :
  k_dead (fst (krun_trace (k_init c) ops)) = false ->
  length (k_in (fst (krun_trace (k_init c) ops))) = length (inbound_evs ops).
Proof.
  intros ND. pose proof (krun_inv ops (k_init c)) as I. cbn [k_in k_init map app] in I.
  apply (inv_from_length msg parse proc) in I. rewrite !map_length in I. rewrite <- I, (opened_alive ops _ ND). reflexivity.
Qed.

End WholeRuns.

Section Complete.
Variable encode : message -> bytes.
Variable block_size : blk -> N.
Variable msg : Type.
Variable parse : bytes -> N -> parse_result msg.
Variable proc : msg -> pm_result.

Local Notation krun_trace := (krun_trace encode block_size parse proc).
Local Notation g_stream_out := (g_stream_out parse proc).

Lemma g_stream_out_nil : g_stream_out [] = ([], SfPending).
Proof. unfold Streams.g_stream_out. apply so_from_idle. reflexivity. Qed.

Lemma is_prefix_of_nil {A} (a : list A) : is_prefix a [] -> a = [].
Proof. intros (tl & E). symmetry in E. apply app_eq_nil in E. apply E. Qed.

(* a run that is over without a dead handler and with every member settled has handed the behaviour, stream by
   stream, the whole-life output of every inbound stream *)
Theorem g_connhandler_inbound_complete :
  forall (c : conn) (ops : list kop),
    let fin := fst (krun_trace (k_init c) ops) in
    let outs := concat (snd (krun_trace (k_init c) ops)) in
    k_dead fin = false -> forallb stream_settled (k_in fin) = true ->
    forall k, of_stream k (inbound_outs outs) = fst (g_stream_out (nth (N.to_nat k) (inbound_evs ops) [])).
Proof.
  intros c ops fin outs ND ST k. subst fin outs.
  destruct (g_connhandler_inbound_is_stream_out encode block_size msg parse proc c ops k) as (PR & CO). cbv zeta in *.
  destruct (nth_error (k_in (fst (krun_trace (k_init c) ops))) (N.to_nat k)) as [m|] eqn:Hm.
  - rewrite forallb_forall in ST. rewrite (CO m eq_refl (ST m (nth_error_In _ _ Hm))). reflexivity.
  - apply nth_error_None in Hm. rewrite (connhandler_members encode block_size msg parse proc c ops ND) in Hm.
    rewrite (nth_overflow _ _ Hm) in *. rewrite g_stream_out_nil in *. cbn [fst] in *. apply is_prefix_of_nil. exact PR.
Qed.

End Complete.

(* ================================================================================================== *)
(* The real codec: qp_parse / process_message / codec_encode                                          *)
(* ================================================================================================== *)
From BS Require Import Varint Cid Proto Prefix Incoming Qp ProtoCodec Codec Frame Frame_proofs Wire.

Section Real.
Variable encode : message -> bytes.
Variable block_size : blk -> N.
Variable Sz : N.
Variable Hh : hash_fn.
Variable chk : bool.

Local Notation krun := (krun_trace encode block_size (qp_parse chk) (process_message Sz Hh)).

(* THEOREM 1.  For EVERY run of the whole connection handler — whatever the two halves do, whatever the scripts of
   their streams, also if the run ends fatally — the IncomingMessage events attributed to inbound stream k are a
   prefix of `fst (stream_out Sz Hh chk evs_k)`, evs_k the read events of stream k; and they are all of it, with the
   member's status = how stream_out ends, once the member is settled. *)
Theorem connhandler_inbound_is_stream_out :
  forall (c : conn) (ops : list kop) (k : N),
    let fin := fst (krun (k_init c) ops) in
    let outs := concat (snd (krun (k_init c) ops)) in
    let evs := nth (N.to_nat k) (inbound_evs ops) [] in
    is_prefix (of_stream k (inbound_outs outs)) (fst (stream_out Sz Hh chk evs))
    /\ forall m, nth_error (k_in fin) (N.to_nat k) = Some m -> stream_settled m = true ->
         stream_out Sz Hh chk evs = (of_stream k (inbound_outs outs), ss_status (ki_st m)).
Proof. exact (g_connhandler_inbound_is_stream_out encode block_size message (qp_parse chk) (process_message Sz Hh)). Qed.

Theorem connhandler_inbound_complete :
  forall (c : conn) (ops : list kop),
    let fin := fst (krun (k_init c) ops) in
    let outs := concat (snd (krun (k_init c) ops)) in
    k_dead fin = false -> forallb stream_settled (k_in fin) = true ->
    forall k, of_stream k (inbound_outs outs) = fst (stream_out Sz Hh chk (nth (N.to_nat k) (inbound_evs ops) [])).
Proof. exact (g_connhandler_inbound_complete encode block_size message (qp_parse chk) (process_message Sz Hh)). Qed.

(* C16 for the inbound side of the whole handler: inbound stream j carries the frames of messages ms that process
   fine, then a frame that does not decode or a message process_message closes the stream on, then anything; the
   reads may be cut anywhere, the two halves may do anything meanwhile.  If the run is over without a dead handler
   and every member is settled, the behaviour has received from j exactly what ms yield, and from every other inbound
   stream all of its output.  (No stream_safe hypothesis as in Streams_proofs: a fatal poll of another stream would
   have made the handler dead.) *)
Theorem C16_connhandler_bad_frame_costs_own_stream :
  forall (c : conn) (ops : list kop) j ms bad evs1 extra more,
    let fin := fst (krun (k_init c) ops) in
    let outs := concat (snd (krun (k_init c) ops)) in
    let streams := inbound_evs ops in
    k_dead fin = false ->
    nth (N.to_nat j) streams [] = evs1 ++ more ->
    live evs1 -> ev_data evs1 = concat (map codec_encode ms) ++ bad ++ extra ->
    Forall wf_message ms -> Forall (size_ok write_message) ms ->
    (forall m, In m ms -> exists inc, process_message Sz Hh m = PmOk inc) ->
    (undecodable chk bad \/ closing Sz Hh bad) ->
    forallb stream_settled (k_in fin) = true ->
    of_stream j (inbound_outs outs) = yielded Sz Hh ms
    /\ forall k, k <> j ->
       of_stream k (inbound_outs outs) = fst (stream_out Sz Hh chk (nth (N.to_nat k) streams [])).
Proof.
  intros c ops j ms bad evs1 extra more fin outs streams ND Hj LV DATA WF SZ GOOD BAD ST.
  pose proof (connhandler_inbound_complete c ops ND ST) as CO. cbv zeta in CO. split.
  - subst fin outs streams. rewrite (CO j), Hj.
    destruct (stream_out_bad_frame Sz Hh chk ms bad evs1 extra more WF SZ GOOD LV DATA) as (H1 & H2).
    destruct BAD as [B|B]; [rewrite (H1 B)|rewrite (H2 B)]; reflexivity.
  - intros k _. apply CO.
Qed.

(* the same without waiting for the end: at ANY point of ANY run the behaviour has received from j a prefix of what
   ms yield — the bad frame and whatever follows it never produce an event — and the member of j, once it has stopped,
   has stopped with SfErr / SfClosed *)
Theorem C16_connhandler_bad_frame_prefix :
  forall (c : conn) (ops : list kop) j ms bad evs1 extra more,
    let outs := concat (snd (krun (k_init c) ops)) in
    nth (N.to_nat j) (inbound_evs ops) [] = evs1 ++ more ->
    live evs1 -> ev_data evs1 = concat (map codec_encode ms) ++ bad ++ extra ->
    Forall wf_message ms -> Forall (size_ok write_message) ms ->
    (forall m, In m ms -> exists inc, process_message Sz Hh m = PmOk inc) ->
    (undecodable chk bad \/ closing Sz Hh bad) ->
    is_prefix (of_stream j (inbound_outs outs)) (yielded Sz Hh ms).
Proof.
  intros c ops j ms bad evs1 extra more outs Hj LV DATA WF SZ GOOD BAD. subst outs.
  destruct (connhandler_inbound_is_stream_out c ops j) as (PR & _). cbv zeta in PR. rewrite Hj in PR.
  destruct (stream_out_bad_frame Sz Hh chk ms bad evs1 extra more WF SZ GOOD LV DATA) as (H1 & H2).
  destruct BAD as [B|B]; [rewrite (H1 B) in PR|rewrite (H2 B) in PR]; exact PR.
Qed.

End Real.

Section RealWire.
Variable block_size : blk -> N.
Variable msg : Type.
Variable parse : bytes -> N -> parse_result msg.
Variable proc : msg -> pm_result.
Variable Sz : N.
Variable Hh : hash_fn.
Variable chk : bool.

Local Notation krun := (krun_trace codec_encode block_size parse proc).

(* C14 over the wire, sender = the whole handler with the real codec: the bytes its client half's stream accepted are
   one frame, and any reads of those bytes followed by the end of the stream give a receiving IncomingStream exactly
   the last wantlist *)
Theorem C14_connhandler_wire_delivery :
  forall (c : conn) (ops : list kop),
    let fin := fst (krun (k_init c) ops) in
    let outs := concat (snd (krun (k_init c) ops)) in
    k_fatal fin = false ->
    disciplined codec_encode true c (client_proj codec_encode block_size parse proc (k_init c) ops) = true ->
    h_queue (k_client fin) = [] -> last (reports (client_outs outs)) RpReady = RpReady -> ksent_ws ops <> [] ->
    exists id w ws0,
      ksent_ws ops = ws0 ++ [w] /\ wrote_on id (client_outs outs) = codec_encode (wantlist_message w) /\
      (wf_message (wantlist_message w) -> size_ok write_message (wantlist_message w) ->
       forall evs, live evs -> ev_data evs = wrote_on id (client_outs outs) ->
         stream_out Sz Hh chk (evs ++ [Eof]) = (if announces w then [MkIncoming None (Some w)] else [], SfEnd)).
Proof.
  intros c ops fin outs NF D Q L NE. subst fin outs.
  pose proof (connhandler_client_projection codec_encode block_size msg parse proc ops (k_init c) (k_init_ok c) NF) as P.
  cbn [k_client k_init] in P.
  pose proof (C14_wire_delivery Sz Hh chk c (client_proj codec_encode block_size parse proc (k_init c) ops) D) as H.
  cbv zeta in H. rewrite handler_final_hrun in H. unfold handler_outs in H. rewrite P in H. cbn [fst snd] in H.
  rewrite sent_ws_client_proj in H. exact (H Q L NE).
Qed.

End RealWire.

(* C14 end to end, BOTH ends whole connection handlers.  Sender: handler of connection c run on ops (its client half
   disciplined, last report RpReady, queue empty, last wantlist w well-formed and within the size limit).  Receiver: any
   handler whose inbound stream k was given, cut anywhere, exactly the bytes the sender's stream accepted and then the
   end of the stream, and whose member k is settled.  Then the IncomingMessage events the receiver's behaviour got from
   stream k are exactly [w] (nothing if w is an empty non-full wantlist), and the member ended cleanly. *)
Theorem C14_connhandler_end_to_end :
  forall (bsz bsz' : blk -> N) (enc' : message -> bytes) (Sz : N) (Hh : hash_fn) (chk chk' : bool)
         (c c' : conn) (ops ops' : list kop) (k : N) (m : kin) (evs : list read_ev),
    let krunS := krun_trace codec_encode bsz (qp_parse chk') (process_message Sz Hh) (k_init c) ops in
    let krunR := krun_trace enc' bsz' (qp_parse chk) (process_message Sz Hh) (k_init c') ops' in
    (* sender *)
    k_fatal (fst krunS) = false ->
    disciplined codec_encode true c (client_proj codec_encode bsz (qp_parse chk') (process_message Sz Hh) (k_init c) ops) = true ->
    h_queue (k_client (fst krunS)) = [] -> last (reports (client_outs (concat (snd krunS)))) RpReady = RpReady ->
    ksent_ws ops <> [] ->
    (forall w, In w (ksent_ws ops) -> wf_message (wantlist_message w) /\ size_ok write_message (wantlist_message w)) ->
    exists id w ws0,
      ksent_ws ops = ws0 ++ [w] /\ wrote_on id (client_outs (concat (snd krunS))) = codec_encode (wantlist_message w) /\
      (* receiver *)
      (nth (N.to_nat k) (inbound_evs ops') [] = evs ++ [Eof] -> live evs ->
       ev_data evs = wrote_on id (client_outs (concat (snd krunS))) ->
       nth_error (k_in (fst krunR)) (N.to_nat k) = Some m -> stream_settled m = true ->
       of_stream k (inbound_outs (concat (snd krunR))) = (if announces w then [MkIncoming None (Some w)] else [])
       /\ ss_status (ki_st m) = SfEnd).
Proof.
  intros bsz bsz' enc' Sz Hh chk chk' c c' ops ops' k m evs krunS krunR NF D Q L NE WFS. subst krunS krunR.
  destruct (C14_connhandler_wire_delivery bsz message (qp_parse chk') (process_message Sz Hh) Sz Hh chk c ops NF D Q L NE)
    as (id & w & ws0 & E1 & E2 & E3).
  exists id, w, ws0. split; [exact E1|]. split; [exact E2|]. intros Hk LV DATA Hm ST.
  destruct (WFS w) as (WF & SZ). { rewrite E1. apply in_or_app. right. left. reflexivity. }
  specialize (E3 WF SZ evs LV DATA).
  destruct (connhandler_inbound_is_stream_out enc' bsz' Sz Hh chk c' ops' k) as (_ & CO). cbv zeta in CO.
  specialize (CO m Hm ST). rewrite Hk, E3 in CO. injection CO as C1 C2. split; congruence.
Qed.

(* ================================================================================================== *)
(* Part C.  "Polled often enough", read off the op list                                               *)
(* ================================================================================================== *)

(* wake-ups still to come on a stream: its unconsumed ReadPending events *)
Fixpoint pendings (evs : list read_ev) : nat :=
  match evs with
  | [] => O
  | ReadPending :: r => S (pendings r)
  | _ :: r => pendings r
  end.

Definition ev_le (e' e : list read_ev) : Prop := (length e' <= length e)%nat /\ (pendings e' <= pendings e)%nat.
Definition ev_adv (e' e : list read_ev) : Prop := e' = [] \/ (pendings e' < pendings e)%nat.

Lemma ev_le_refl e : ev_le e e.
Proof. split; lia. Qed.
Lemma ev_le_trans a b c : ev_le a b -> ev_le b c -> ev_le a c.
Proof. intros [A1 A2] [B1 B2]. split; lia. Qed.
Lemma ev_le_cons x e : ev_le e (x :: e).
Proof. split; [cbn [length]; lia|]. destruct x; cbn [pendings]; lia. Qed.
Lemma ev_adv_le a b c : ev_adv a b -> ev_le b c -> ev_adv a c.
Proof. intros [A|A] [B1 B2]; [left; exact A|right; lia]. Qed.

(* KPolls a member still needs, at most, before nothing more can come from it: one per wake-up still to come, and one
   more to find the read events used up *)
Definition need (m : kin) : nat := if stream_settled m then O else S (pendings (ss_evs (ki_st m))).

(* per inbound stream, in order of opening: an upper bound on the KPolls still needed after `ops` *)
Fixpoint polls_owed (b : list nat) (ops : list kop) : list nat :=
  match ops with
  | [] => b
  | KPoll _ _ :: ops' => polls_owed (map pred b) ops'
  | KInbound evs :: ops' => polls_owed (b ++ [S (pendings evs)]) ops'
  | _ :: ops' => polls_owed b ops'
  end.

(* executable "inbound stream k has been polled often enough by the end of ops" *)
Definition kpolled_enough (k : N) (ops : list kop) : bool :=
  match nth (N.to_nat k) (polls_owed [] ops) 1%nat with O => true | S _ => false end.

Section Owed.
Variable msg : Type.
Variable parse : bytes -> N -> parse_result msg.
Variable proc : msg -> pm_result.

Local Notation decode := (frame_decode parse).
Local Notation pn := (poll_next parse).
Local Notation is_poll := (is_poll parse proc).
Local Notation poll_stream := (poll_stream parse proc).
Local Notation in_next := (in_next parse proc).
Local Notation in_drain := (in_drain msg parse proc).

Lemma read_loop_adv : forall evs buf o b e,
  read_loop parse buf evs = (o, b, e) -> ev_le e evs /\ (o = Pending -> ev_adv e evs).
Proof.
  induction evs as [|x evs IH]; intros buf o b e H; cbn [read_loop] in H.
  - injection H as <- <- <-. split; [apply ev_le_refl|]. intros _. left. reflexivity.
  - destruct x as [bs| | |]; cbn [read_of] in H.
    + destruct (decode (buf ++ bs)) as [| |m rest| |];
        try (injection H as <- <- <-; split; [apply ev_le_cons|discriminate]).
      destruct (len bs =? 0).
      * destruct (eof_branch parse (buf ++ bs)) as [o' b'] eqn:Eb. injection H as <- <- <-.
        split; [apply ev_le_cons|]. intros ->. exfalso. exact (eof_branch_not_pending msg parse _ _ _ Eb eq_refl).
      * destruct (IH _ _ _ _ H) as (L & A). split; [eapply ev_le_trans; [exact L|apply ev_le_cons]|].
        intros P. eapply ev_adv_le; [exact (A P)|apply ev_le_cons].
    + destruct (decode (buf ++ [])) as [| |m rest| |];
        try (injection H as <- <- <-; split; [apply ev_le_cons|discriminate]).
      cbn [len length N.of_nat N.eqb] in H.
      destruct (eof_branch parse (buf ++ [])) as [o' b'] eqn:Eb. injection H as <- <- <-.
      split; [apply ev_le_cons|]. intros ->. exfalso. exact (eof_branch_not_pending msg parse _ _ _ Eb eq_refl).
    + injection H as <- <- <-. split; [apply ev_le_cons|discriminate].
    + injection H as <- <- <-. split; [apply ev_le_cons|]. intros _. right. cbn [pendings]. lia.
Qed.

Lemma pn_adv buf evs o b e : pn buf evs = (o, b, e) -> ev_le e evs /\ (o = Pending -> ev_adv e evs).
Proof.
  unfold poll_next. destruct (decode buf) as [| |m rest| |];
    try (intros [= <- <- <-]; split; [apply ev_le_refl|discriminate]).
  apply read_loop_adv.
Qed.

Lemma is_poll_adv n : forall buf evs o b e,
  (measure buf evs < n)%nat -> is_poll buf evs = (o, b, e) -> ev_le e evs /\ (o = IsPending -> ev_adv e evs).
Proof.
  induction n as [|n IH]; intros buf evs o b e Hn H; [lia|]. rewrite is_poll_step in H.
  destruct (pn buf evs) as [[o' b'] evs'] eqn:E. destruct (pn_adv _ _ _ _ _ E) as (L & A).
  destruct o'; try (injection H as <- <- <-; split; [exact L|discriminate]).
  - apply pn_item_measure in E. destruct (proc m) as [inc| |]; try (injection H as <- <- <-; split; [exact L|discriminate]).
    destruct (forwarded inc); [injection H as <- <- <-; split; [exact L|discriminate]|].
    destruct (IH b' evs' o b e ltac:(lia) H) as (L2 & A2). split; [eapply ev_le_trans; eassumption|].
    intros P. eapply ev_adv_le; [exact (A2 P)|exact L].
  - injection H as <- <- <-. split; [exact L|]. intros _. apply A. reflexivity.
Qed.

Lemma poll_stream_adv s o s' :
  ss_alive s = true -> poll_stream s = (o, s') ->
  ev_le (ss_evs s') (ss_evs s) /\ (o = None -> ss_alive s' = true -> ev_adv (ss_evs s') (ss_evs s)).
Proof.
  intros A. apply ss_alive_status in A. destruct s as [b e st]. cbn [ss_status] in A. subst st.
  rewrite (poll_stream_alive msg parse proc b e).
  destruct (is_poll b e) as [[r b'] e'] eqn:E.
  destruct (is_poll_adv (S (measure b e)) b e r b' e' ltac:(lia) E) as (L & AD).
  destruct r; intros [= <- <-]; cbn [ss_evs]; (split; [exact L|]); try discriminate; intros _ AL; try discriminate.
  - apply is_poll_done_ended in E. destruct why; discriminate.
  - apply AD. reflexivity.
Qed.

(* what a member can have become between two points of one KPoll *)
Definition adv (m m' : kin) : Prop :=
  ev_le (ss_evs (ki_st m')) (ss_evs (ki_st m))
  /\ (m' = m
      \/ (ki_awake m = true /\ ss_alive (ki_st m) = true
          /\ (ki_awake m' = false -> ss_alive (ki_st m') = true -> ev_adv (ss_evs (ki_st m')) (ss_evs (ki_st m))))).

Lemma adv_refl m : adv m m.
Proof. split; [apply ev_le_refl|left; reflexivity]. Qed.

Lemma adv_trans a b c : adv a b -> adv b c -> adv a c.
Proof.
  intros (L1 & S1) (L2 & S2). split; [eapply ev_le_trans; eassumption|].
  destruct S1 as [->|(A1 & B1 & C1)]; [exact S2|]. destruct S2 as [->|(A2 & B2 & C2)].
  - right. auto.
  - right. split; [exact A1|]. split; [exact B1|]. intros X Y. eapply ev_adv_le; [exact (C2 X Y)|exact L1].
Qed.

Lemma Forall2_refl {A} (R : A -> A -> Prop) : (forall x, R x x) -> forall l, Forall2 R l l.
Proof. intros H l. induction l; constructor; auto. Qed.

Lemma Forall2_trans {A} (R : A -> A -> Prop) :
  (forall x y z, R x y -> R y z -> R x z) -> forall a b c, Forall2 R a b -> Forall2 R b c -> Forall2 R a c.
Proof.
  intros T a b c H. revert c. induction H as [|x y a b Hxy Hab IH]; intros c Hc; inversion Hc; subst; constructor; eauto.
Qed.

Lemma fatal_not_alive s : sfinal_fatal (ss_status s) = true -> ss_alive s = false.
Proof. unfold ss_alive. destruct (ss_status s); cbn; congruence. Qed.

Lemma in_next_adv : forall c i r c' f, in_next i c = (r, c', f) -> Forall2 adv c c'.
Proof.
  induction c as [|m c IH]; intros i r c' f H; cbn [ConnHandler.in_next] in H.
  - injection H as <- <- <-. constructor.
  - destruct (ki_awake m && ss_alive (ki_st m)) eqn:A.
    + apply andb_prop in A. destruct A as [AW AL].
      destruct (poll_stream (ki_st m)) as [o s'] eqn:EP. destruct (poll_stream_adv _ _ _ AL EP) as (L & AD).
      destruct o as [inc|].
      * injection H as <- <- <-. constructor; [|apply Forall2_refl; apply adv_refl].
        split; [exact L|]. right. split; [exact AW|]. split; [exact AL|]. intros X. discriminate.
      * destruct (sfinal_fatal (ss_status s')) eqn:FT.
        -- injection H as <- <- <-. constructor; [|apply Forall2_refl; apply adv_refl].
           split; [exact L|]. right. split; [exact AW|]. split; [exact AL|]. intros _ Y. cbn [ki_st] in Y.
           rewrite (fatal_not_alive _ FT) in Y. discriminate.
        -- destruct (in_next (i + 1) c) as [[r2 c2] f2] eqn:E2. injection H as <- <- <-.
           constructor; [|eapply IH; exact E2].
           split; [exact L|]. right. split; [exact AW|]. split; [exact AL|]. intros _ Y. apply AD; [reflexivity|exact Y].
    + destruct (in_next (i + 1) c) as [[r2 c2] f2] eqn:E2. injection H as <- <- <-.
      constructor; [apply adv_refl|eapply IH; exact E2].
Qed.

(* a drain that was not cut short and was not fatal: every member has advanced, none is left in the ready-to-run queue *)
Lemma in_drain_adv fuel : forall c l c',
  in_drain fuel c = (l, c', None) -> (in_mu c < fuel)%nat -> Forall2 adv c c' /\ quiet c'.
Proof.
  induction fuel as [|fuel IH]; intros c l c' H M; [lia|]. cbn [ConnHandler_proofs.in_drain] in H.
  destruct (in_next 0 c) as [[r c1] f1] eqn:E.
  pose proof (in_next_adv _ _ _ _ _ E) as A1. pose proof (in_next_mu msg parse proc _ _ _ _ _ E) as MU.
  destruct f1 as [k|]; [destruct r; discriminate|].
  destruct r as [km|].
  - destruct (in_drain fuel c1) as [[l2 c2] fz2] eqn:E2. injection H as <- <- ->.
    destruct (IH _ _ _ E2 ltac:(lia)) as (A2 & Q). split; [|exact Q].
    eapply Forall2_trans; [exact adv_trans|exact A1|exact A2].
  - injection H as <- <-. split; [exact A1|]. eapply in_next_none_quiet. exact E.
Qed.

Lemma need_settled m : need m = O <-> stream_settled m = true.
Proof. unfold need. destruct (stream_settled m); split; intros; try reflexivity; discriminate. Qed.

Definition wake (m : kin) : kin := MkKin (ki_st m) true.

(* one complete, non-fatal KPoll brings every member one KPoll nearer *)
Lemma adv_need m m' :
  adv (wake m) m' -> ki_awake m' && ss_alive (ki_st m') = false -> (need m' <= pred (need m))%nat.
Proof.
  intros ((L1 & L2) & ST) Q. cbn [wake ki_st] in *.
  destruct (ss_alive (ki_st m')) eqn:AL'.
  2:{ unfold need, stream_settled. rewrite AL'. cbn. lia. }
  rewrite Bool.andb_true_r in Q.
  destruct ST as [->|(_ & AL & AD)]; [discriminate|]. cbn [ki_awake] in AD.
  specialize (AD Q eq_refl).
  unfold need at 1, stream_settled at 1. rewrite AL', Q. cbn [negb orb andb].
  destruct (ss_evs (ki_st m')) as [|x e'] eqn:EV'; [lia|].
  destruct AD as [AD|AD]; [discriminate|].
  unfold need, stream_settled. rewrite AL. cbn [negb orb].
  destruct (ss_evs (ki_st m)) as [|y e] eqn:EV; [cbn [length] in L1; lia|].
  rewrite Bool.andb_false_r. cbn [pred]. lia.
Qed.

Lemma wake_all_adv_need : forall c c',
  Forall2 adv (wake_all c) c' -> quiet c' -> Forall2 (fun m m' => (need m' <= pred (need m))%nat) c c'.
Proof.
  induction c as [|m c IH]; intros c' H Q; cbn [wake_all map] in H; inversion H as [|? m' ? c2 Hm Hc]; subst; [constructor|].
  inversion Q as [|? ? Qm Qc]; subst. constructor; [|apply IH; assumption].
  apply adv_need; assumption.
Qed.

End Owed.

Section OwedRuns.
Variable encode : message -> bytes.
Variable block_size : blk -> N.
Variable msg : Type.
Variable parse : bytes -> N -> parse_result msg.
Variable proc : msg -> pm_result.

Local Notation kstep := (kstep encode block_size parse proc).
Local Notation krun_trace := (krun_trace encode block_size parse proc).
Local Notation g_stream_out := (g_stream_out parse proc).

Definition owes (m : kin) (n : nat) : Prop := (need m <= n)%nat.

(* a KPoll that is carried out and is not fatal *)
Lemma kstep_poll_need st sc ss :
  k_dead st = false -> k_fatal (fst (kstep st (KPoll sc ss))) = false ->
  Forall2 (fun m m' => (need m' <= pred (need m))%nat) (k_in st) (k_in (fst (kstep st (KPoll sc ss)))).
Proof.
  intros D NF.
  pose proof (connhandler_inbound_projection encode block_size msg parse proc st sc ss D) as P. cbv zeta in P.
  destruct (in_drain msg parse proc (S (in_mu (wake_all (k_in st)))) (wake_all (k_in st))) as [[l c] fz] eqn:E.
  destruct P as (_ & P2 & P3). rewrite P2. rewrite NF in P3. destruct fz as [k|]; [discriminate|].
  destruct (in_drain_adv msg parse proc _ _ _ _ E ltac:(lia)) as (A & Q).
  apply wake_all_adv_need; assumption.
Qed.

Lemma Forall2_pred c : forall c' b,
  Forall2 (fun m m' => (need m' <= pred (need m))%nat) c c' -> Forall2 owes c b -> Forall2 owes c' (map pred b).
Proof.
  induction c as [|m c IH]; intros c' b H1 H2; inversion H1; subst; inversion H2; subst; cbn [map]; constructor.
  - unfold owes in *. lia.
  - apply IH; assumption.
Qed.

Lemma krun_owed ops : forall st b,
  k_dead (fst (krun_trace st ops)) = false -> Forall2 owes (k_in st) b ->
  Forall2 owes (k_in (fst (krun_trace st ops))) (polls_owed b ops).
Proof.
  induction ops as [|op ops IH]; intros st b ND O; [exact O|].
  assert (D : k_dead st = false).
  { destruct (k_dead st) eqn:D; [|reflexivity].
    rewrite (krun_dead encode block_size msg parse proc _ _ D) in ND. congruence. }
  cbn [ConnHandler.krun_trace] in *.
  assert (C : (exists sc ss, op = KPoll sc ss) \/ (forall sc ss, op <> KPoll sc ss)).
  { destruct op; try (right; intros; discriminate). left. eauto. }
  destruct C as [(sc & ss & ->)|NP].
  - pose proof (kstep_poll_need st sc ss D) as S1.
    destruct (kstep st (KPoll sc ss)) as [st1 o1]. cbn [fst] in *. specialize (IH st1).
    destruct (krun_trace st1 ops) as [st2 os] eqn:E2. cbn [fst] in *. cbn [polls_owed].
    assert (D1 : k_dead st1 = false).
    { destruct (k_dead st1) eqn:D1; [|reflexivity].
      pose proof (krun_dead encode block_size msg parse proc ops _ D1) as K. rewrite E2 in K. cbn in K. congruence. }
    assert (F1 : k_fatal st1 = false) by (unfold k_dead in D1; apply Bool.orb_false_iff in D1; apply D1).
    apply IH; [exact ND|]. eapply Forall2_pred; [exact (S1 F1)|exact O].
  - destruct (kstep_nonpoll encode block_size msg parse proc st op D NP) as (E1 & _).
    destruct (kstep st op) as [st1 o1]. cbn [fst] in *. specialize (IH st1).
    destruct (krun_trace st1 ops) as [st2 os]. cbn [fst] in *.
    destruct op as [w|bs|evs|[|]|[|]|ms|sc ss|sc]; cbn [polls_owed op_opens map] in *; rewrite ?app_nil_r in E1;
      try (apply IH; [exact ND|rewrite E1; exact O]).
    + apply IH; [exact ND|]. rewrite E1. apply Forall2_app; [exact O|]. constructor; [|constructor].
      unfold owes, need, stream_settled. cbn. lia.
    + exfalso. exact (NP sc ss eq_refl).
Qed.

(* THEOREM 1c.  "Polled often enough" read off the op list: if the run is over without a dead handler and after the
   KInbound that opened stream k there were more KPolls than stream k's read events contain ReadPending (wake-ups), then
   k's member is settled ... *)
Theorem connhandler_polled_enough_settled :
  forall (c : conn) (ops : list kop) (k : N),
    let fin := fst (krun_trace (k_init c) ops) in
    k_dead fin = false -> kpolled_enough k ops = true ->
    exists m, nth_error (k_in fin) (N.to_nat k) = Some m /\ stream_settled m = true.
Proof.
  intros c ops k fin ND PE. subst fin.
  pose proof (krun_owed ops (k_init c) [] ND (Forall2_nil _)) as O. unfold kpolled_enough in PE.
  remember (k_in (fst (krun_trace (k_init c) ops))) as ms eqn:Ems. clear Ems.
  remember (polls_owed [] ops) as b eqn:Eb. clear Eb. revert PE.
  generalize (N.to_nat k). clear k. induction O as [|m n ms b Hmn Hrest IH]; intros j PE.
  - destruct j; discriminate.
  - destruct j as [|j]; cbn [nth nth_error] in *.
    + exists m. split; [reflexivity|]. apply need_settled. destruct n; [|discriminate]. unfold owes in Hmn. lia.
    + apply IH. exact PE.
Qed.

(* ... hence the behaviour has received from stream k the whole-life output of the stream (the analogue, for the whole
   handler, of Streams_proofs.C16_streams_complete; no stream_safe hypothesis: the handler is not dead) *)
Theorem g_connhandler_streams_complete :
  forall (c : conn) (ops : list kop) (k : N),
    let fin := fst (krun_trace (k_init c) ops) in
    let outs := concat (snd (krun_trace (k_init c) ops)) in
    k_dead fin = false -> kpolled_enough k ops = true ->
    of_stream k (inbound_outs outs) = fst (g_stream_out (nth (N.to_nat k) (inbound_evs ops) [])).
Proof.
  intros c ops k fin outs ND PE. subst fin outs.
  destruct (connhandler_polled_enough_settled c ops k ND PE) as (m & Hm & ST).
  destruct (g_connhandler_inbound_is_stream_out encode block_size msg parse proc c ops k) as (_ & CO). cbv zeta in CO.
  rewrite (CO m Hm ST). reflexivity.
Qed.

End OwedRuns.

(* kpolled_enough spelled out: the entry of the stream opened by a KInbound is 1 + its ReadPending events minus the
   number of KPolls that follow that KInbound *)
Definition kpolls (ops : list kop) : nat :=
  length (filter (fun op => match op with KPoll _ _ => true | _ => false end) ops).

Lemma polls_owed_split ops : forall b,
  polls_owed b ops = map (fun n => (n - kpolls ops)%nat) b ++ polls_owed [] ops.
Proof.
  induction ops as [|op ops IH]; intros b.
  - cbn [polls_owed kpolls filter length]. rewrite app_nil_r. rewrite <- (map_id b) at 1. apply map_ext. intros n. lia.
  - destruct op as [w|bs|evs|r|r|ms|sc ss|sc]; cbn [polls_owed];
      try (rewrite (IH b); unfold kpolls; cbn [filter]; reflexivity).
    + rewrite (IH (b ++ [S (pendings evs)])), (IH ([] ++ [S (pendings evs)])). rewrite !map_app, <- app_assoc.
      unfold kpolls. cbn [filter app map]. reflexivity.
    + rewrite (IH (map pred b)). cbn [map]. rewrite map_map. unfold kpolls. cbn [filter length]. f_equal.
      apply map_ext. intros n. lia.
Qed.

Lemma polls_owed_cons op ops :
  polls_owed [] (op :: ops)
  = match op with KInbound evs => [(S (pendings evs) - kpolls ops)%nat] | _ => [] end ++ polls_owed [] ops.
Proof.
  destruct op as [w|bs|evs|r|r|ms|sc ss|sc]; try reflexivity.
  cbn [polls_owed app]. rewrite polls_owed_split. reflexivity.
Qed.

(* the real codec: the whole-handler analogue of Streams_proofs.C16_streams_complete *)
Theorem C16_connhandler_streams_complete :
  forall (encode : message -> bytes) (block_size : blk -> N) (Sz : N) (Hh : hash_fn) (chk : bool)
         (c : conn) (ops : list kop) (k : N),
    let fin := fst (krun_trace encode block_size (qp_parse chk) (process_message Sz Hh) (k_init c) ops) in
    let outs := concat (snd (krun_trace encode block_size (qp_parse chk) (process_message Sz Hh) (k_init c) ops)) in
    k_dead fin = false -> kpolled_enough k ops = true ->
    of_stream k (inbound_outs outs) = fst (stream_out Sz Hh chk (nth (N.to_nat k) (inbound_evs ops) [])).
Proof.
  intros encode block_size Sz Hh chk.
  exact (g_connhandler_streams_complete encode block_size message (qp_parse chk) (process_message Sz Hh)).
Qed.

(* ================================================================================================== *)
(* Part D.  The inbound side of a whole-handler run IS Streams.conn_run under some schedule           *)
(* ================================================================================================== *)

Lemma set_nth_app2 {A} (pre : list A) x y tl : set_nth (length pre) y (pre ++ x :: tl) = pre ++ y :: tl.
Proof. induction pre as [|z pre IH]; [reflexivity|]. cbn [length app set_nth]. rewrite IH. reflexivity. Qed.

Lemma set_nth_app1 {A} (l : list A) : forall extra n x,
  (n < length l)%nat -> set_nth n x (l ++ extra) = set_nth n x l ++ extra.
Proof.
  induction l as [|z l IH]; intros extra n x L; [cbn [length] in L; lia|].
  destruct n as [|n]; [reflexivity|]. cbn [app set_nth length] in *. rewrite IH by lia. reflexivity.
Qed.

Section Schedule.
Variable msg : Type.
Variable parse : bytes -> N -> parse_result msg.
Variable proc : msg -> pm_result.

Local Notation poll_stream := (poll_stream parse proc).
Local Notation conn_steps := (conn_steps parse proc).
Local Notation in_next := (in_next parse proc).
Local Notation in_drain := (in_drain msg parse proc).

Lemma conn_steps_app s1 : forall c s2,
  conn_steps c (s1 ++ s2) =
  (let '(o1, (f1, c1)) := conn_steps c s1 in
   match f1 with
   | COk => let '(o2, r) := conn_steps c1 s2 in (o1 ++ o2, r)
   | CStopped _ _ => (o1, (f1, c1))
   end).
Proof.
  induction s1 as [|k s1 IH]; intros c s2.
  - cbn [app Streams.conn_steps]. destruct (conn_steps c s2) as [o2 r]. reflexivity.
  - cbn [app Streams.conn_steps]. destruct (nth_error c (N.to_nat k)) as [st|]; [|apply IH].
    destruct (poll_stream st) as [o st']. destruct (sfinal_fatal (ss_status st')); [reflexivity|].
    rewrite IH. destruct (conn_steps (set_nth (N.to_nat k) st' c) s1) as [o1 [f1 c1]]. destruct f1.
    + destruct (conn_steps c1 s2) as [o2 r]. destruct o; reflexivity.
    + destruct o; reflexivity.
Qed.

(* streams the schedule does not mention (opened later) are left alone *)
Lemma conn_steps_extra sched : forall c extra,
  Forall (fun k => (N.to_nat k < length c)%nat) sched ->
  conn_steps (c ++ extra) sched
  = (let '(o, (f, c')) := conn_steps c sched in (o, (f, c' ++ extra))).
Proof.
  induction sched as [|k sched IH]; intros c extra F; [reflexivity|].
  inversion F as [|? ? Hk Hs]; subst. cbn [Streams.conn_steps].
  rewrite (nth_error_app1 c extra Hk).
  destruct (nth_error c (N.to_nat k)) as [st|] eqn:E; [|apply nth_error_None in E; lia].
  destruct (poll_stream st) as [o st']. rewrite (set_nth_app1 c extra _ st' Hk).
  destruct (sfinal_fatal (ss_status st')); [reflexivity|].
  rewrite IH by (rewrite length_set_nth; exact Hs).
  destruct (conn_steps (set_nth (N.to_nat k) st' c) sched) as [o1 [f1 c1]]. destruct o; reflexivity.
Qed.

Lemma poll_stream_some_pending s inc s' : poll_stream s = (Some inc, s') -> ss_status s' = SfPending.
Proof.
  unfold Streams.poll_stream. destruct (ss_status s); try discriminate.
  destruct (is_poll parse proc (ss_buf s) (ss_evs s)) as [[o b] e]. destruct o; intros [= <-]; try discriminate.
  subst. reflexivity.
Qed.

(* how a drain / a run of the inbound side ended, as Streams.conn_run_full tells it *)
Definition fin_matches (fz : option N) (f : cfinal) : Prop :=
  match fz with None => f = COk | Some k => exists why, f = CStopped k why end.

(* one call of incoming_streams.poll_next = the schedule "the members it polled, in the order it polled them" *)
Lemma in_next_sched : forall c pre i r c' fz,
  length pre = N.to_nat i -> in_next i c = (r, c', fz) ->
  exists sched f,
    conn_steps (pre ++ map ki_st c) sched = (opt_list r, (f, pre ++ map ki_st c'))
    /\ fin_matches fz f
    /\ Forall (fun k => (N.to_nat k < length pre + length c)%nat) sched.
Proof.
  induction c as [|m c IH]; intros pre i r c' fz LP H; cbn [ConnHandler.in_next] in H.
  - injection H as <- <- <-. exists [], COk. cbn. repeat split. constructor.
  - destruct (ki_awake m && ss_alive (ki_st m)).
    + destruct (poll_stream (ki_st m)) as [o s'] eqn:EP.
      assert (NE : nth_error (pre ++ ki_st m :: map ki_st c) (N.to_nat i) = Some (ki_st m)).
      { rewrite nth_error_app2 by lia. rewrite <- LP, Nat.sub_diag. reflexivity. }
      assert (SN : set_nth (N.to_nat i) s' (pre ++ ki_st m :: map ki_st c) = pre ++ s' :: map ki_st c).
      { rewrite <- LP. apply set_nth_app2. }
      assert (BD : (N.to_nat i < length pre + length (m :: c))%nat) by (cbn [length]; lia).
      destruct o as [inc|].
      * injection H as <- <- <-. exists [i], COk. cbn [map ki_st Streams.conn_steps opt_list]. rewrite NE, EP, SN.
        rewrite (poll_stream_some_pending _ _ _ EP). cbn [sfinal_fatal]. repeat split. constructor; [exact BD|constructor].
      * destruct (sfinal_fatal (ss_status s')) eqn:FT.
        -- injection H as <- <- <-. exists [i], (CStopped i (ss_status s')).
           cbn [map ki_st Streams.conn_steps opt_list]. rewrite NE, EP, SN, FT.
           split; [reflexivity|]. split; [eexists; reflexivity|constructor; [exact BD|constructor]].
        -- destruct (in_next (i + 1) c) as [[r2 c2] f2] eqn:E2. injection H as <- <- <-.
           destruct (IH (pre ++ [s']) (i + 1) r2 c2 f2 ltac:(rewrite app_length; cbn [length]; lia) E2)
             as (sched & f & CS & FM & BS).
           exists (i :: sched), f. cbn [map ki_st Streams.conn_steps]. rewrite NE, EP, SN, FT.
           rewrite <- app_assoc in CS. cbn [app] in CS. rewrite CS. rewrite <- app_assoc. cbn [app].
           split; [reflexivity|]. split; [exact FM|]. constructor; [exact BD|].
           eapply Forall_impl; [|exact BS]. intros k Hk. cbv beta in *. rewrite app_length in Hk. cbn [length] in *. lia.
    + destruct (in_next (i + 1) c) as [[r2 c2] f2] eqn:E2. injection H as <- <- <-.
      destruct (IH (pre ++ [ki_st m]) (i + 1) r2 c2 f2 ltac:(rewrite app_length; cbn [length]; lia) E2)
        as (sched & f & CS & FM & BS).
      exists sched, f. cbn [map]. rewrite <- app_assoc in CS. cbn [app] in CS. rewrite CS. rewrite <- app_assoc. cbn [app].
      split; [reflexivity|]. split; [exact FM|].
      eapply Forall_impl; [|exact BS]. intros k Hk. cbv beta in *. rewrite app_length in Hk. cbn [length] in *. lia.
Qed.

Lemma in_next_length : forall c i r c' fz, in_next i c = (r, c', fz) -> length c' = length c.
Proof.
  intros c i r c' fz H. apply in_next_inv in H. apply inv_from_length in H. rewrite !map_length in H. congruence.
Qed.

Lemma in_drain_sched fuel : forall c l c' fz,
  in_drain fuel c = (l, c', fz) ->
  exists sched f,
    conn_steps (map ki_st c) sched = (l, (f, map ki_st c')) /\ fin_matches fz f
    /\ Forall (fun k => (N.to_nat k < length c)%nat) sched.
Proof.
  induction fuel as [|fuel IH]; intros c l c' fz H; cbn [ConnHandler_proofs.in_drain] in H.
  - injection H as <- <- <-. exists [], COk. repeat split. constructor.
  - destruct (in_next 0 c) as [[r c1] f1] eqn:E.
    destruct (in_next_sched c [] 0 r c1 f1 eq_refl E) as (s1 & g1 & CS1 & FM1 & B1). cbn [app length Nat.add] in *.
    destruct f1 as [k|].
    + pose proof (in_next_fatal_none msg parse proc _ _ _ _ _ E) as ->. injection H as <- <- <-.
      exists s1, g1. repeat split; assumption.
    + destruct r as [km|].
      * destruct (in_drain fuel c1) as [[l2 c2] fz2] eqn:E2. injection H as <- <- <-.
        destruct (IH _ _ _ _ E2) as (s2 & g2 & CS2 & FM2 & B2).
        exists (s1 ++ s2), g2. rewrite conn_steps_app, CS1. cbn in FM1. subst g1. rewrite CS2.
        split; [reflexivity|]. split; [exact FM2|]. apply Forall_app. split; [exact B1|].
        rewrite (in_next_length _ _ _ _ _ E) in B2. exact B2.
      * injection H as <- <- <-. exists s1, g1. repeat split; assumption.
Qed.

End Schedule.

Section ScheduleRuns.
Variable encode : message -> bytes.
Variable block_size : blk -> N.
Variable msg : Type.
Variable parse : bytes -> N -> parse_result msg.
Variable proc : msg -> pm_result.

Local Notation kstep := (kstep encode block_size parse proc).
Local Notation krun_trace := (krun_trace encode block_size parse proc).
Local Notation conn_steps := (conn_steps parse proc).
Local Notation opened := (opened encode block_size msg parse proc).

Lemma krun_dead_outs ops : forall st, k_dead st = true -> concat (snd (krun_trace st ops)) = [].
Proof.
  induction ops as [|op ops IH]; intros st D; [reflexivity|]. cbn [ConnHandler.krun_trace].
  rewrite (kstep_dead encode block_size msg parse proc st op D). specialize (IH st D).
  destruct (krun_trace st ops) as [st2 os]. cbn [snd concat app] in *. exact IH.
Qed.

Lemma kstep_nonpoll_fatal st op :
  k_dead st = false -> (forall sc ss, op <> KPoll sc ss) -> k_fatal (fst (kstep st op)) = k_fatal st.
Proof.
  intros D NP. unfold ConnHandler.kstep. rewrite D.
  destruct op as [w|bs|evs|[|]|[|]|ms|sc ss|sc]; try reflexivity; try (exfalso; exact (NP _ _ eq_refl)).
  - destruct (do_send_wantlist (k_client st) w) as [h o]. reflexivity.
  - destruct (do_set_stream (k_client st)) as [h o]. reflexivity.
  - destruct (do_alloc_failed (k_client st)) as [h o]. reflexivity.
  - destruct (do_poll_close (k_client st) sc) as [h o]. reflexivity.
Qed.

(* how the run of the inbound side ended *)
Definition run_matches (fatal : bool) (f : cfinal) : Prop :=
  if fatal then exists k why, f = CStopped k why else f = COk.

Lemma krun_sched ops : forall st,
  k_fatal st = false ->
  exists sched f,
    conn_steps (map ki_st (k_in st) ++ map ss_init (opened st ops)) sched
    = (inbound_outs (concat (snd (krun_trace st ops))), (f, map ki_st (k_in (fst (krun_trace st ops)))))
    /\ run_matches (k_fatal (fst (krun_trace st ops))) f.
Proof.
  induction ops as [|op ops IH]; intros st NF.
  { exists [], COk. cbn [ConnHandler.krun_trace ConnHandler_proofs2.opened map fst snd concat]. rewrite app_nil_r.
    split; [reflexivity|]. rewrite NF. reflexivity. }
  destruct (k_dead st) eqn:D.
  { exists [], COk. rewrite (krun_dead_outs _ st D), (krun_dead encode block_size msg parse proc _ st D),
      (opened_dead encode block_size msg parse proc _ st D). cbn [map]. rewrite app_nil_r.
    split; [reflexivity|]. rewrite NF. reflexivity. }
  cbn [ConnHandler.krun_trace ConnHandler_proofs2.opened]. rewrite D.
  assert (C : (exists sc ss, op = KPoll sc ss) \/ (forall sc ss, op <> KPoll sc ss)).
  { destruct op; try (right; intros; discriminate). left. eauto. }
  destruct C as [(sc & ss & ->)|NP].
  - pose proof (connhandler_inbound_projection encode block_size msg parse proc st sc ss D) as P. cbv zeta in P.
    destruct (in_drain msg parse proc (S (in_mu (wake_all (k_in st)))) (wake_all (k_in st))) as [[l c] fz] eqn:E.
    destruct P as (P1 & P2 & P3).
    destruct (in_drain_sched msg parse proc _ _ _ _ _ E) as (s1 & g1 & CS1 & FM1 & B1).
    rewrite wake_all_st in CS1. unfold wake_all in B1. rewrite map_length in B1. rewrite <- (map_length ki_st) in B1.
    destruct (kstep st (KPoll sc ss)) as [st1 o1]. cbn [fst snd op_opens app] in *. subst c.
    pose proof (conn_steps_extra msg parse proc s1 _ (map ss_init (opened st1 ops)) B1) as CE. rewrite CS1 in CE.
    destruct fz as [k|].
    + assert (D1 : k_dead st1 = true) by (unfold k_dead; rewrite P3; apply Bool.orb_true_r).
      exists s1, g1.
      pose proof (krun_dead encode block_size msg parse proc ops st1 D1) as K1.
      pose proof (krun_dead_outs ops st1 D1) as K2.
      destruct (krun_trace st1 ops) as [st2 os]. cbn [fst snd concat] in *. subst st2.
      rewrite inbound_outs_app, K2, P1, CE, (opened_dead encode block_size msg parse proc _ st1 D1).
      cbn [map inbound_outs flat_map]. rewrite !app_nil_r. split; [reflexivity|].
      rewrite P3. destruct FM1 as (why & ->). exists k, why. reflexivity.
    + destruct (IH st1 P3) as (s2 & f2 & CS2 & FM2). cbn in FM1. subst g1.
      exists (s1 ++ s2), f2. rewrite conn_steps_app, CE.
      destruct (krun_trace st1 ops) as [st2 os]. cbn [fst snd concat] in *.
      rewrite CS2, inbound_outs_app, P1. split; [reflexivity|exact FM2].
  - destruct (kstep_nonpoll encode block_size msg parse proc st op D NP) as (E1 & E2).
    pose proof (kstep_nonpoll_fatal st op D NP) as E3.
    destruct (kstep st op) as [st1 o1]. cbn [fst snd] in *. rewrite NF in E3.
    destruct (IH st1 E3) as (s2 & f2 & CS2 & FM2). exists s2, f2.
    destruct (krun_trace st1 ops) as [st2 os]. cbn [fst snd concat] in *.
    rewrite inbound_outs_app, E2. cbn [app]. rewrite E1, map_app, map_map in CS2. cbn [ki_st] in CS2.
    rewrite <- (map_map (fun x => x) ss_init), map_id in CS2.
    rewrite map_app, app_assoc. split; [exact CS2|exact FM2].
Qed.

(* THEOREM 1d.  For EVERY run of the whole handler there is a schedule under which Streams.conn_run_full — the model
   of the SelectAll of inbound streams on its own, driven by a list of stream numbers — on the streams the run opened
   gives exactly the run's IncomingMessage events, in the run's order, and leaves every stream in the state its member is
   in; it ends COk if the run had no fatal inbound poll and CStopped at the fatal stream if it had.  Every theorem of
   Streams_proofs about conn_run (for all schedules) therefore holds of the inbound side of the whole handler. *)
Theorem g_connhandler_inbound_is_conn_run :
  forall (c : conn) (ops : list kop),
    let fin := fst (krun_trace (k_init c) ops) in
    let outs := concat (snd (krun_trace (k_init c) ops)) in
    exists schedule f,
      g_conn_run_full parse proc (opened (k_init c) ops) schedule = (inbound_outs outs, (f, map ki_st (k_in fin)))
      /\ run_matches (k_fatal fin) f
      /\ is_prefix (opened (k_init c) ops) (inbound_evs ops)
      /\ (k_dead fin = false -> opened (k_init c) ops = inbound_evs ops).
Proof.
  intros c ops fin outs. subst fin outs.
  destruct (krun_sched ops (k_init c) eq_refl) as (sched & f & CS & FM). cbn [k_in k_init map app] in CS.
  exists sched, f. split; [exact CS|]. split; [exact FM|]. split; [apply opened_prefix|apply opened_alive].
Qed.

End ScheduleRuns.

(* the real codec, a run that is over without a dead handler: the inbound side is Streams.conn_run_full on the read events of
   the KInbound ops under some schedule, which ends COk *)
Theorem connhandler_inbound_is_conn_run :
  forall (encode : message -> bytes) (block_size : blk -> N) (Sz : N) (Hh : hash_fn) (chk : bool)
         (c : conn) (ops : list kop),
    let fin := fst (krun_trace encode block_size (qp_parse chk) (process_message Sz Hh) (k_init c) ops) in
    let outs := concat (snd (krun_trace encode block_size (qp_parse chk) (process_message Sz Hh) (k_init c) ops)) in
    k_dead fin = false ->
    exists schedule,
      conn_run_full Sz Hh chk (inbound_evs ops) schedule = (inbound_outs outs, (COk, map ki_st (k_in fin))).
Proof.
  intros encode block_size Sz Hh chk c ops fin outs ND. subst fin outs.
  destruct (g_connhandler_inbound_is_conn_run encode block_size message (qp_parse chk) (process_message Sz Hh) c ops)
    as (sched & f & CS & FM & _ & OP). cbv zeta in *.
  rewrite (OP ND) in CS. exists sched. unfold conn_run_full. rewrite CS.
  unfold k_dead in ND. apply Bool.orb_false_iff in ND. destruct ND as (_ & NF). rewrite NF in FM. cbn in FM. subst f.
  reflexivity.
Qed.
