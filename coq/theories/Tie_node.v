(* Tie_node.v — the glue of /repo/src/lib.rs between the two halves (regenerated into Extracted.v on every run) has the
   shape Node.v models: a closed connection is always reported to the client half and to the server half iff it was the last
   one; the client part of a message is applied before the server part; Behaviour::poll = client, then the client's new
   blocks to the server if any, then server; every connection (either direction) gets a handler from both halves;
   sending-state reports carry their connection id. *)
From BS Require Import Bytes Types Node Extracted.
Open Scope N_scope.

Lemma tie_lib_glue : Extracted.lib_glue = [0; 0; 0; 0; 0].  Proof. reflexivity. Qed.
