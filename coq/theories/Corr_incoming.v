(* Corr_incoming.v — engine `incoming`: incoming_stream::process_message against Incoming.v, with the
   multihasher table given extensionally (the harness asks the real table for its answer on every
   (code, data) pair that can be queried).  Oracles for C16 (skippable blocks do not matter, both parts
   applied), C01 (every accepted block is keyed by the CID recomputed from its bytes) and the error
   contract of C18. *)
From BS Require Export Bytes Varint Cid Prefix Hasher Proto Incoming Incoming_proofs.
Open Scope N_scope.

Inductive iout :=
| IoClosed
| IoPanicked
| IoOk (client : option (list (cid * bool) * list (cid * bytes))) (server : option wantlist).

(* m2 = m with the blocks the harness believes skippable removed; answers = table answers *)
Inductive iin := IMsg (cap : N) (m m2 : message) (answers : list (N * bytes * hash_result)).
Definition out2 := (iout * iout)%type.

Fixpoint lookup_answer (l : list (N * bytes * hash_result)) (code : N) (data : bytes) : hash_result :=
  match l with
  | [] => HErr UnknownMultihashCode
  | (c, d, r) :: rest => if (c =? code) && bytes_eqb d data then r else lookup_answer rest code data
  end.

Definition flat (r : pm_result) : iout :=
  match r with
  | PmClose => IoClosed
  | PmPanic => IoPanicked
  | PmOk inc =>
      IoOk (match in_client inc with
            | None => None
            | Some cm => Some (map (fun '(c, t) => (c, match t with PHave => true | PDontHave => false end)) (cm_presences cm),
                               cm_blocks cm)
            end)
           (in_server inc)
  end.

Definition model (x : iin) : out2 :=
  match x with
  | IMsg cap m m2 answers =>
      let H := lookup_answer answers in
      (flat (process_message cap H m), flat (process_message cap H m2))
  end.

(* association lists compared as sets (keys are unique on both sides) *)
Definition incl_b {A} (eqb : A -> A -> bool) (a b : list A) : bool :=
  forallb (fun x => existsb (eqb x) b) a.
Definition set_eqb {A} (eqb : A -> A -> bool) (a b : list A) : bool :=
  Nat.eqb (length a) (length b) && incl_b eqb a b && incl_b eqb b a.

Definition pres_eqb (a b : cid * bool) : bool := cid_eqb (fst a) (fst b) && Bool.eqb (snd a) (snd b).
Definition blk_eqb (a b : cid * bytes) : bool := cid_eqb (fst a) (fst b) && bytes_eqb (snd a) (snd b).

Definition iout_eqb (a b : iout) : bool :=
  match a, b with
  | IoClosed, IoClosed | IoPanicked, IoPanicked => true
  | IoOk c1 s1, IoOk c2 s2 =>
      option_eqb (fun x y => set_eqb pres_eqb (fst x) (fst y) && set_eqb blk_eqb (snd x) (snd y)) c1 c2
      && option_eqb wantlist_eqb s1 s2
  | _, _ => false
  end.

Definition case := (iin * out2)%type.
Definition corr (x : case) : bool :=
  let '(m1, m2) := model (fst x) in iout_eqb m1 (fst (snd x)) && iout_eqb m2 (snd (snd x)).

(* C01 on the implementation's output: each accepted (cid, data) is rebuilt from a payload block *)
Definition rebuilt_b (cap : N) (H : hash_fn) (payload : list block) (c : cid) (d : bytes) : bool :=
  existsb (fun b => bytes_eqb (b_data b) d &&
                    match prefix_from_bytes (b_prefix b) with
                    | Some p => match prefix_to_cid cap H p d with TOk c' => cid_eqb c' c | _ => false end
                    | None => false
                    end) payload.

Definition message_eqb' := message_eqb.

Definition oracle (x : case) : bool :=
  match x with
  | (IMsg cap m m2 answers, (o1, o2)) =>
      let H := lookup_answer answers in
      (* never a panic *)
      match o1, o2 with IoPanicked, _ | _, IoPanicked => false | _, _ => true end
      (* C16: removing skippable blocks changes nothing *)
      && (if message_eqb' m2 (without_skippable cap H m) then iout_eqb o1 o2 else true)
      && match o1 with
         | IoOk client server =>
             (* C01: accepted blocks are keyed by the recomputed CID *)
             match client with
             | Some (_, blocks) => forallb (fun '(c, d) => rebuilt_b cap H (m_payload m) c d) blocks
             | None => true
             end
             (* C16: the wantlist part is applied whatever the rest of the message contains *)
             && option_eqb wantlist_eqb server
                  (match m_wantlist m with
                   | Some w => if w_full w || negb (match w_entries w with [] => true | _ => false end) then Some w else None
                   | None => None
                   end)
         | _ => true
         end
  end.
