(* Net_proofs18.v — package G: C14 `records sound` and `records equal`.  After `settle` and one refresh (both quiet, node i
   wants at most 1024 CIDs) the want set a connected server j keeps for i is a subset of — with package F's
   C14_records_agree_partial: equal to — i's wantlist. *)
From BS Require Import Server_lemmas Server_inv Server_proofs Server_live Wantlist_proofs Client_proofs Client_proofs2
  Client_proofs3 Client_proofs4 Net Net_proofs2 Net_proofs3 Net_proofs4 Net_proofs5 Net_proofs6 Net_proofs7 Net_proofs8
  Net_proofs9 Net_proofs10 Net_proofs13 Net_proofs14 Net_proofs15 Net_proofs16 Net_proofs17.
From Coq Require Import ZArith ZifyBool ZifyN ZifyNat Lia.
Open Scope N_scope.

Section Sound.
  Variables (Sz : N) (Hh : hash_fn).
  Hypothesis HSz : 32 <= Sz.
  Variables (i j : N) (c : cid).
  Hypothesis Hij : i <> j.

  Local Notation QW := (QW Sz Hh i j c).
  Local Notation QP := (QP Sz Hh i j).
  Local Notation PB := (PB Sz Hh i j c).

  Definition dW (m : wmsg) : nop := NDeliverW (wm_src m) (wm_dst m).

  Lemma QW_deliveries l : forall s, wire_w s = l -> QW s ->
    QW (fst (nrun Sz Hh s (map dW l))) /\ wire_w (fst (nrun Sz Hh s (map dW l))) = [].
  Proof.
    induction l as [|m l IH]; intros s E HQ; cbn [map]; [cbn; auto|]. rewrite (nrun_cons Sz Hh). cbn [fst].
    assert (Et : take_first (w_between (wm_src m) (wm_dst m)) (wire_w s) = Some (m, l)).
    { rewrite E. cbn [take_first]. unfold w_between. rewrite !N.eqb_refl. reflexivity. }
    apply IH.
    - cbn [nstep dW]. apply (deliver_w_wire Sz Hh _ _ _ _ _ Et).
    - apply QW_deliver_w; assumption.
  Qed.

  Lemma QW_PB s : QW s -> wire_w s = [] -> PB s.
  Proof.
    intros [H1 H2 H3 H4 H5] Hw. constructor; try assumption.
    - destruct H5 as (cl & ps & E & Hin & Hng & Htr & Hsf & Hall & _ & Hdis). exists cl, ps.
      split; [exact E|]. split; [exact Hin|]. split; [exact Hng|]. split; [exact Htr|]. split; [exact Hsf|]. split; [exact Hall|].
      intros Hwc. left. destruct Hdis as [(m & Hm & _)|Hr]; [rewrite Hw in Hm; destruct Hm | apply Hr, Hwc].
    - intros m Hm. rewrite Hw in Hm. destruct Hm.
    - intros m Hm. rewrite H4 in Hm. destruct Hm.
  Qed.

  Lemma round1 s : QP s -> PB (fst (round Sz Hh s)).
  Proof.
    intros HQ. rewrite round_fst.
    destruct (connected_neq Sz Hh HSz s i j (qp_ok _ _ _ _ _ HQ) (qp_conn _ _ _ _ _ HQ)) as (_ & Hei & _).
    destruct (QP_polls Sz Hh HSz i j c Hij (seqN 0 (length (nodes s))) s HQ) as [HQa HFa].
    fold (polls_of s) in HQa, HFa. set (sa := fst (nrun Sz Hh s (polls_of s))) in *.
    assert (HF : QF i j sa).
    { apply HFa. right. apply seqN_In. destruct (get_node s i) as [n|] eqn:Hg; [|contradiction]. apply get_node_lt in Hg. lia. }
    rewrite (stores_of_nil sa) by (intros k n Hk; apply (qp_calm _ _ _ _ _ HQa k n Hk)). cbn [nrun fst].
    unfold deliveries_of. rewrite (qp_wb _ _ _ _ _ HQa). cbn [map]. rewrite app_nil_r.
    destruct (QW_deliveries (wire_w sa) sa eq_refl (QP_QW Sz Hh i j c sa HQa HF)) as [HW Hnil].
    apply QW_PB; assumption.
  Qed.

  (* the advanced quiet net *)
  Lemma get_node_advance s ms k :
    get_node (advance Sz Hh ms s) k = option_map (fun n => node_advance n ms) (get_node s k).
  Proof. unfold advance, get_node. cbn [nstep fst nodes]. apply nth_error_map. Qed.

  Lemma QP_after_advance s :
    net_ok Sz Hh s -> net_wf Sz s -> quietb s = true -> Net.connected s i j = true -> (length (wl_i i s) <= 1024)%nat ->
    QP (advance Sz Hh SEND_FULL_INTERVAL s) /\ QA i j (advance Sz Hh SEND_FULL_INTERVAL s).
  Proof.
    intros Hok Hwf Hq Hc Hsz.
    assert (Hok' : net_ok Sz Hh (advance Sz Hh SEND_FULL_INTERVAL s)) by (apply net_ok_step; [exact HSz | exact I | exact Hok]).
    assert (Hwf' : net_wf Sz (advance Sz Hh SEND_FULL_INTERVAL s)) by (apply (net_wf_step Sz Hh HSz); [exact Hok | exact I | exact Hwf]).
    pose proof (client_after_advance Sz Hh i s SEND_FULL_INTERVAL) as Ecl.
    destruct (connected_neq Sz Hh HSz s i j Hok Hc) as (_ & Hei & _).
    destruct (get_node s i) as [n|] eqn:Hg; [|contradiction].
    assert (Hcl : client_of s i = Some (n_client n)) by (unfold client_of; rewrite Hg; reflexivity). rewrite Hcl in Ecl. cbn [option_map] in Ecl.
    pose proof (no_nodes _ _ _ Hok _ _ Hg) as Hn.
    pose proof (quiet_node s i n Hq Hg) as Hidle. unfold node_idle, client_idle in Hidle. rewrite !andb_true_iff in Hidle.
    destruct Hidle as [[[[[[[_ _] _] _] _] Hpeers] _] _].
    pose proof Hq as Hq0. unfold quietb in Hq0. rewrite !andb_true_iff in Hq0. destruct Hq0 as [[Hww Hwb] _]. apply is_nil_true in Hww, Hwb.
    assert (HA : QA i j (advance Sz Hh SEND_FULL_INTERVAL s)).
    { assert (Hj : In j (map fst (cs_peers (n_client n)))) by (apply (nk_peers _ _ _ _ _ Hn); exact Hc).
      apply in_map_iff in Hj. destruct Hj as ([j' ps] & E & Hin). cbn [fst] in E. subst j'.
      exists (c_advance (n_client n) SEND_FULL_INTERVAL), ps. split; [exact Ecl|]. split; [exact Hin|].
      rewrite forallb_forall in Hpeers. specialize (Hpeers _ Hin). unfold peer_idle in Hpeers. cbn [snd] in Hpeers.
      rewrite !andb_true_iff in Hpeers. destruct Hpeers as [[Hr _] _]. split; [destruct (p_ss ps); try discriminate; reflexivity|]. split.
      - unfold timer_ready. cbn [c_advance cs_deadline cs_now]. pose proof (nk_deadline _ _ _ _ _ Hn) as Hdl.
        rewrite (nk_now _ _ _ _ _ Hn). apply N.leb_le. exact Hdl.
      - intros m Hm. unfold advance in Hm. cbn [nstep fst wire_w] in Hm. rewrite Hww in Hm. destruct Hm. }
    split; [|exact HA]. constructor; try assumption.
    - intros k nk Hk. rewrite get_node_advance in Hk. destruct (get_node s k) as [n0|] eqn:Hg0; [|discriminate]. injection Hk as <-.
      pose proof (quiet_node s k n0 Hq Hg0) as Hi0. unfold node_idle, client_idle in Hi0. rewrite !andb_true_iff in Hi0.
      destruct Hi0 as [[[[[[[_ Ht] _] Hnb] _] _] Hsv] Hcalls]. apply is_nil_true in Ht, Hnb, Hcalls.
      unfold calm, node_advance. cbn [n_server n_calls n_client cstep fst c_advance cs_tasks cs_new_blocks]. auto.
    - unfold wl_i. rewrite Ecl. cbn [c_advance cs_wl]. unfold wl_i in Hsz. rewrite Hcl in Hsz. exact Hsz.
    - left. exact HA.
  Qed.

  Lemma QA_not_quiet s : QA i j s -> quietb s = false.
  Proof.
    intros (cl & ps & E & _ & _ & Htr & _). destruct (quietb s) eqn:Hq; [|reflexivity]. exfalso.
    unfold client_of in E. destruct (get_node s i) as [n|] eqn:Hg; [|discriminate]. injection E as <-.
    pose proof (quiet_node s i n Hq Hg) as Hi0. unfold node_idle, client_idle in Hi0. rewrite !andb_true_iff in Hi0.
    destruct Hi0 as [[[[[[[_ _] _] _] Ht] _] _] _]. rewrite Htr in Ht. discriminate.
  Qed.

  Lemma settle_unfold s : quietb s = false -> exists f, fst (settle Sz Hh s) = fst (settle_loop Sz Hh f (fst (round Sz Hh s))).
  Proof.
    intros Hq. unfold settle, settle_fuel. set (X := (4 * (length (nodes s) + 1) * (net_work s + 1))%nat).
    change (8 + X)%nat with (S (7 + X)). generalize (7 + X)%nat. intros f. exists f. cbn [settle_loop]. rewrite Hq.
    destruct (round Sz Hh s) as [s1 e1]. cbn [fst]. destruct (settle_loop Sz Hh f s1). reflexivity.
  Qed.

  Lemma sched_all ops : Forall sched ops -> Forall (nop_good Sz Hh) ops /\ Forall (nop_wf Sz) ops.
  Proof. induction 1 as [|o ops Ho _ [IH1 IH2]]; [split; constructor|]. destruct (sched_good Sz Hh o Ho). split; constructor; assumption. Qed.

  (* one refresh from a quiet net *)
  Lemma refresh_sound s1 :
    net_ok Sz Hh s1 -> net_wf Sz s1 -> net_rv s1 -> quietb s1 = true -> Net.connected s1 i j = true ->
    (length (wl_i i s1) <= 1024)%nat -> quietb (fst (refresh Sz Hh s1)) = true ->
    forall st, server_of (fst (refresh Sz Hh s1)) j = Some st -> wantsP (s_wants st) i c -> In c (wl_i i (fst (refresh Sz Hh s1))).
  Proof.
    intros Hok Hwf Hrv Hq Hc Hsz Hq2 st Est Hw. unfold refresh in *. set (s1' := advance Sz Hh SEND_FULL_INTERVAL s1) in *.
    destruct (QP_after_advance s1 Hok Hwf Hq Hc Hsz) as [HQ HA]. fold s1' in HQ, HA.
    assert (Hrv' : net_rv s1') by (apply (net_rv_step Sz Hh HSz); [exact Hok | exact I | exact Hrv]).
    destruct (settle_unfold s1' (QA_not_quiet _ HA)) as (f & Ef). rewrite Ef in *.
    pose proof (round1 s1' HQ) as HPB.
    destruct (round_run Sz Hh s1') as (opsR & HsR & ER). destruct (sched_all _ HsR) as [HgR HwR].
    assert (HrvR : net_rv (fst (round Sz Hh s1'))) by (rewrite ER; apply (net_rv_run Sz Hh HSz); [exact HgR | exact HwR | apply (qp_ok _ _ _ _ _ HQ) | exact Hrv']).
    set (sR := fst (round Sz Hh s1')) in *.
    destruct (settle_loop_run Sz Hh f sR) as (ops2 & Hs2 & E2). rewrite E2 in *. destruct (sched_all _ Hs2) as [Hg2 Hw2].
    pose proof (PB_run Sz Hh HSz i j c Hij ops2 sR Hs2 HPB) as HPB2.
    assert (Hrv2 : net_rv (fst (nrun Sz Hh sR ops2))) by (apply (net_rv_run Sz Hh HSz); [exact Hg2 | exact Hw2 | apply (pb_ok _ _ _ _ _ _ HPB) | exact HrvR]).
    apply (PB_quiet_sound Sz Hh i j c _ HPB2 Hrv2 Hq2). exists st. auto.
  Qed.
End Sound.

Section Theorems.
  Variables (Sz : N) (Hh : hash_fn).
  Hypothesis HSz : 32 <= Sz.

  Theorem C14_records_sound (i j : N) n ops :
    Forall (nop_good Sz Hh) ops -> Forall (nop_wf Sz) ops ->
    let s := fst (nrun Sz Hh (net_init n) ops) in
    Net.connected s i j = true ->
    let r1 := settle Sz Hh s in
    let r2 := refresh Sz Hh (fst r1) in
    quietb (fst r1) = true -> quietb (fst r2) = true -> (length (wl_i i (fst r1)) <= 1024)%nat ->
    forall c st, server_of (fst r2) j = Some st -> wantsP (s_wants st) i c -> In c (wl_i i (fst r2)).
  Proof.
    intros Hg Hw s Hconn r1 r2 Hq1 Hq2 Hsize c st Est Hwc.
    destruct (run_both Sz Hh HSz ops (net_init n) Hg Hw (net_ok_init Sz Hh HSz n) (net_wf_init Sz n)) as [Hok Hwf]. fold s in Hok, Hwf.
    assert (Hrv : net_rv s) by (apply (net_rv_run Sz Hh HSz); [exact Hg | exact Hw | apply net_ok_init; exact HSz | apply net_rv_init]).
    destruct (connected_neq Sz Hh HSz s i j Hok Hconn) as (Hij & _).
    destruct (settle_run Sz Hh s) as (ops1 & Hs1 & E1). subst r2 r1. rewrite E1 in *.
    destruct (sched_run_facts Sz Hh HSz ops1 s j c Hs1 Hok Hwf) as (Hok1 & Hwf1 & Hc1 & _). cbn zeta in *.
    destruct (sched_all Sz Hh _ Hs1) as [Hg1 Hw1].
    assert (Hrv1 : net_rv (fst (nrun Sz Hh s ops1))) by (apply (net_rv_run Sz Hh HSz); assumption).
    set (s1 := fst (nrun Sz Hh s ops1)) in *.
    assert (Hconn1 : Net.connected s1 i j = true) by (unfold Net.connected in *; rewrite Hc1; exact Hconn).
    exact (refresh_sound Sz Hh HSz i j c Hij s1 Hok1 Hwf1 Hrv1 Hq1 Hconn1 Hsize Hq2 st Est Hwc).
  Qed.

  (* both inclusions: at the quiet state after a refresh the serving side's want set for i IS i's wantlist *)
  Theorem C14_records_equal (i j : N) n ops :
    Forall (nop_good Sz Hh) ops -> Forall (nop_wf Sz) ops ->
    let s := fst (nrun Sz Hh (net_init n) ops) in
    Net.connected s i j = true ->
    let r1 := settle Sz Hh s in
    let r2 := refresh Sz Hh (fst r1) in
    quietb (fst r1) = true -> quietb (fst r2) = true -> (length (wl_i i (fst r1)) <= 1024)%nat ->
    forall c, In c (wl_i i (fst r2)) <-> (exists st, server_of (fst r2) j = Some st /\ wantsP (s_wants st) i c).
  Proof.
    intros Hg Hw s Hconn r1 r2 Hq1 Hq2 Hsize c. split.
    - intros Hc. destruct (C14_records_agree_partial Sz Hh HSz i j n ops Hg Hw Hconn Hq1 Hq2 Hsize c Hc) as (st & E & Hwc & _). eauto.
    - intros (st & E & Hwc). exact (C14_records_sound i j n ops Hg Hw Hconn Hq1 Hq2 Hsize c st E Hwc).
  Qed.
End Theorems.
