(* NetF_props.v — package P: the registered statements about Net.v WITH transmission faults (NetF.v), their non-vacuity
   examples, and `Print Assumptions`.

   Summary
   * `RI` (Net_proofs28) is NOT an invariant of the net with faults: `P_RI_fstep_refuted` and the three clause witnesses.
   * For EPISODIC runs (every `FFailW i j d` is followed at once by `NDisconnect i j` or `FReconnect i j`; `erase fops = Some ops`)
     the run is a run of Net.v (`P_episodic_run`), hence `RI`, `settle_terminates`, C14_records_equal, C02_direct hold:
     `P_reachableF_RI`, `P_settle_terminates_F`, `P_C05_net_self_heals`.
   * More generally for WINDOWED runs (`wshape fops ops`, NetF_proofs11: between a fault on i -> j and the close of that connection
     any steps of Net.v except a poll of i, a delivery from i to j, a connect / disconnect of the pair): `P_windowed_run`,
     `P_reachableF_RI_windowed`, `P_settle_terminates_F_windowed`, `P_C05_net_self_heals_windowed`.
   * For ALL runs with faults: the light invariants (`P_reachableF_light`), C14 over the ghost history
     (`P_C14_net_whole_or_failed`, `P_dropped_sound`), the forgotten peer stays forgotten (`P_C05_net_stays_forgotten`,
     `P_C05_net_forgotten_peer_refuted`), a reconnect gives both ends a fresh entry (`P_reconnect_fresh`). *)
From BS Require Import Server_lemmas Server_inv Wantlist_proofs Client_proofs Client_proofs2 Client_proofs3 Client_proofs4
  Net Net_proofs Net_proofs2 Net_proofs3 Net_proofs4 Net_proofs5 Net_proofs6 Net_proofs7 Net_proofs9 Net_proofs10 Net_proofs24
  Net_proofs28 Net_proofs32 Net_proofs35 Net_proofs36 Net_props
  NetF NetF_proofs NetF_proofs2 NetF_proofs3 NetF_proofs4 NetF_proofs5 NetF_proofs6 NetF_proofs7 NetF_proofs8 NetF_proofs9 NetF_proofs10 NetF_proofs11.
From Coq Require Import ZArith ZifyBool ZifyN ZifyNat Lia Permutation.
Open Scope N_scope.

(* ====================================================================================================== *)
(* 1. RI and the faults                                                                                   *)
(* ====================================================================================================== *)
Theorem P_RI_fstep_refuted : exists s o, RI SZ toyH s /\ ~ RI SZ toyH (fst (fstep SZ toyH s o)).
Proof. exact RI_fstep_refuted. Qed.

(* the clauses that break: ss_ok (at once), WL (at once), nk_peers (after the sender's next poll) *)
Theorem P_RI_clauses_refuted d :
  ~ net_ok SZ toyH (wit_f d) /\ ~ WL (wit_f d) /\ ~ net_ok SZ toyH (wit_p d).
Proof. split; [apply RI_fstep_refuted_ss | split; [apply RI_fstep_refuted_WL | apply RI_fstep_refuted_peers]]. Qed.

Section Statements.
  Variables (Sz : N) (Hh : hash_fn).
  Hypothesis HSz : 32 <= Sz.

  (* the close of the connection absorbs the fault *)
  Theorem P_disconnect_absorbs_fail s i j :
    net_ok Sz Hh s -> wire_conn s ->
    do_disconnect Sz (fst (do_fail_w Sz Hh s i j true)) i j = do_disconnect Sz (fst (do_deliver_w Sz Hh s i j)) i j /\
    do_disconnect Sz (fst (do_fail_w Sz Hh s i j false)) i j = do_disconnect Sz s i j.
  Proof. intros Hok Hwc. split; [apply disconnect_absorbs_fail_true | apply disconnect_absorbs_fail_false]; assumption. Qed.

  Theorem P_episodic_run n fops ops :
    erase fops = Some ops -> Forall (nop_good Sz Hh) ops ->
    frun Sz Hh (net_init n) fops = nrun Sz Hh (net_init n) ops.
  Proof. apply episodic_run, HSz. Qed.

  Theorem P_reachableF_RI n fops ops :
    erase fops = Some ops -> Forall (nop_good Sz Hh) ops -> Forall (nop_wf Sz) ops ->
    RI Sz Hh (fst (frun Sz Hh (net_init n) fops)).
  Proof. apply reachableF_RI_episodic, HSz. Qed.

  Theorem P_settle_terminates_F n fops ops :
    erase fops = Some ops -> Forall (nop_good Sz Hh) ops -> Forall (nop_wf Sz) ops ->
    quietb (fst (settle Sz Hh (fst (frun Sz Hh (net_init n) fops)))) = true.
  Proof. apply settle_terminates_F_episodic, HSz. Qed.

  (* C05 at network level, positive half: the records agree and a live query is answered after settle + refresh *)
  Theorem P_C05_net_self_heals (i j : N) n fops ops :
    erase fops = Some ops -> Forall (nop_good Sz Hh) ops -> Forall (nop_wf Sz) ops ->
    let s := fst (frun Sz Hh (net_init n) fops) in
    Net.connected s i j = true ->
    let r1 := settle Sz Hh s in
    let r2 := refresh Sz Hh (fst r1) in
    (length (wl_i i (fst r1)) <= 1024)%nat ->
    tracks s i j = true /\
    (forall c, In c (wl_i i (fst r2)) <-> (exists st, server_of (fst r2) j = Some st /\ wantsP (s_wants st) i c)) /\
    (forall q c, live_query i q c s -> (exists st d, store_of s j = Some st /\ store_get st c = SHit d) ->
                 answered i q (snd r1 ++ snd r2)).
  Proof.
    intros He Hg Hw s Hc r1 r2 Hsz. split; [|split].
    - apply (episodic_connected_tracks Sz Hh HSz i j n fops ops He Hg Hw Hc).
    - apply (C05_net_records_equal_episodic Sz Hh HSz i j n fops ops He Hg Hw Hc Hsz).
    - intros q c Hl Hst. apply (C05_net_query_answered_episodic Sz Hh HSz i j q c n fops ops He Hg Hw Hl Hc Hst Hsz).
  Qed.

  (* windowed runs: anything but the sender's poll may happen between the fault and the close *)
  Theorem P_windowed (i j : N) s W (c : bool) :
    net_ok Sz Hh s -> wire_conn s -> Forall (win i j) W -> Forall (nop_good Sz Hh) W ->
    frun Sz Hh s (FFailW i j true :: map FOp W ++ [closer_f i j c]) = nrun Sz Hh s (NDeliverW i j :: W ++ closer_n i j c) /\
    frun Sz Hh s (FFailW i j false :: map FOp W ++ [closer_f i j c]) = nrun Sz Hh s (W ++ closer_n i j c).
  Proof.
    intros Hok Hwc HW Hg. split; [apply (windowed_true_run Sz Hh HSz i j s W c) | apply (windowed_false_run Sz Hh HSz i j s W c)]; assumption.
  Qed.

  Theorem P_windowed_run n fops ops :
    wshape fops ops -> Forall (nop_good Sz Hh) ops -> frun Sz Hh (net_init n) fops = nrun Sz Hh (net_init n) ops.
  Proof. apply windowed_run, HSz. Qed.

  Theorem P_erase_wshape fops ops : erase fops = Some ops -> wshape fops ops.
  Proof. apply (erase_wshape Sz HSz (length fops) fops (le_n _)). Qed.

  Theorem P_reachableF_RI_windowed n fops ops :
    wshape fops ops -> Forall (nop_good Sz Hh) ops -> Forall (nop_wf Sz) ops ->
    RI Sz Hh (fst (frun Sz Hh (net_init n) fops)).
  Proof. apply reachableF_RI_windowed, HSz. Qed.

  Theorem P_settle_terminates_F_windowed n fops ops :
    wshape fops ops -> Forall (nop_good Sz Hh) ops -> Forall (nop_wf Sz) ops ->
    quietb (fst (settle Sz Hh (fst (frun Sz Hh (net_init n) fops)))) = true.
  Proof. apply settle_terminates_F_windowed, HSz. Qed.

  Theorem P_C05_net_self_heals_windowed (i j : N) n fops ops :
    wshape fops ops -> Forall (nop_good Sz Hh) ops -> Forall (nop_wf Sz) ops ->
    let s := fst (frun Sz Hh (net_init n) fops) in
    Net.connected s i j = true ->
    let r1 := settle Sz Hh s in
    let r2 := refresh Sz Hh (fst r1) in
    (length (wl_i i (fst r1)) <= 1024)%nat ->
    (forall c, In c (wl_i i (fst r2)) <-> (exists st, server_of (fst r2) j = Some st /\ wantsP (s_wants st) i c)) /\
    (forall q c, live_query i q c s -> (exists st d, store_of s j = Some st /\ store_get st c = SHit d) ->
                 answered i q (snd r1 ++ snd r2)).
  Proof.
    intros Hs Hg Hw s Hc r1 r2 Hsz. split.
    - apply (C05_net_records_equal_windowed Sz Hh HSz i j n fops ops Hs Hg Hw Hc Hsz).
    - intros q c Hl Hst. apply (C05_net_query_answered_windowed Sz Hh HSz i j q c n fops ops Hs Hg Hw Hl Hc Hst Hsz).
  Qed.

  (* every net reachable with faults *)
  Theorem P_reachableF_light n fops :
    let s := fst (frun Sz Hh (net_init n) fops) in
    linv s /\ conns_ex s /\ all_clients INVS s /\ all_clients conns_one s.
  Proof.
    cbn zeta. destruct (reachableF_light Sz Hh n fops) as (H1 & H2 & H3). split; [exact H1|]. split; [|split; assumption].
    apply (finv_frun Sz Hh fops (net_init n) (finv_init n)).
  Qed.

  Theorem P_C14_net_whole_or_failed n ops :
    let r := frun_h Sz Hh (net_init n) ops in
    Permutation (h_entered (snd r)) (map fate_msg (h_fates (snd r)) ++ wire_w (fst (fst r))) /\
    forall f, In f (h_fates (snd r)) ->
      exists pre o post, ops = pre ++ o :: post /\
        let s1 := fst (frun Sz Hh (net_init n) pre) in
        In f (h_fates (hist_of Sz Hh s1 o)) /\ fate_spec Sz Hh s1 (fst (fstep Sz Hh s1 o)) f.
  Proof. apply C14_net_whole_or_failed. Qed.

  (* … and a dropped wantlist went with its connection: neither end tracks the other afterwards *)
  Theorem P_dropped_sound n pre o m :
    let s := fst (frun Sz Hh (net_init n) pre) in
    In (FtDropped m) (h_fates (hist_of Sz Hh s o)) ->
    exists i j, (o = FOp (NDisconnect i j) \/ o = FReconnect i j) /\ w_touches i j m = true /\
      let sD := do_disconnect Sz s i j in
      tracks sD i j = false /\ tracks sD j i = false /\ Net.connected sD i j = false /\
      (forall m', In m' (wire_w sD) -> w_touches i j m' = false).
  Proof.
    intros s Hf. destruct (dropped_op Sz Hh s o m Hf) as (i & j & Ho & Hd & Ht). exists i, j. split; [exact Ho|]. split; [exact Ht|].
    destruct (P_reachableF_light n pre) as (Hl & _ & _ & Hone). fold s in Hl, Hone.
    destruct (dropped_sound Sz s i j Hl Hone Hd) as (A & B & C & D & _). cbn zeta. auto.
  Qed.

  (* C05 at network level, negative half: without closing the connection the forgotten peer stays forgotten *)
  Theorem P_C05_net_stays_forgotten (i j : N) n pre ops :
    let s := fst (frun Sz Hh (net_init n) pre) in
    Net.connected s i j = true -> tracks s i j = false ->
    Forall (fun o => closes_pair i j o = false) ops ->
    let r := frun_h Sz Hh s ops in
    tracks (fst (fst r)) i j = false /\ Net.connected (fst (fst r)) i j = true /\
    forall m, In m (h_entered (snd r)) -> w_between i j m = false.
  Proof.
    intros s Hc Ht Hops. destruct (P_reachableF_light n pre) as (Hl & _ & HS & _). fold s in Hl, HS.
    apply (C05_net_stays_forgotten Sz Hh i j ops s Hl HS Hc Ht Hops).
  Qed.

  (* a reconnect gives both ends a fresh entry, whatever happened before *)
  Theorem P_reconnect_fresh (i j : N) n pre :
    let s := fst (frun Sz Hh (net_init n) pre) in
    Net.connected s i j = true ->
    let s' := fst (fstep Sz Hh s (FReconnect i j)) in
    Net.connected s' i j = true /\ peer_of s' i j = Some fresh_peer /\ peer_of s' j i = Some fresh_peer /\
    inflight s' i j = [] /\ inflight s' j i = [].
  Proof.
    intros s Hc. destruct (P_reachableF_light n pre) as (Hl & Hex & _ & Hone). fold s in Hl, Hex, Hone.
    apply (reconnect_fresh Sz s i j Hl Hex Hone Hc).
  Qed.

  (* the clients of a net with faults are client runs: the client-level theorems (Props_C05, Props_C14, …) apply to them *)
  Theorem P_reachableF_client_trace n fops k nd :
    get_node (fst (frun Sz Hh (net_init n) fops)) k = Some nd ->
    exists cops, Forall cop_net cops /\ n_client nd = st_after true cops.
  Proof. apply reachableF_client_trace. Qed.

  (* the defect, in general: a failed wantlist + the sender's next poll = the peer is forgotten, the connection is up *)
  Theorem P_C05_net_fault_forgets n pre i j d t :
    let s := fst (frun Sz Hh (net_init n) pre) in
    inflight s i j <> [] -> ss_of s i j = Some (SsSending t CONN) ->
    let s1 := fst (fstep Sz Hh s (FFailW i j d)) in
    let s2 := fst (fstep Sz Hh s1 (FOp (NPoll i))) in
    ss_of s1 i j = Some (SsFailed CONN) /\ Net.connected s2 i j = true /\ tracks s2 i j = false.
  Proof. apply C05_net_fault_forgets. Qed.
End Statements.

(* ====================================================================================================== *)
(* 2. Non-vacuity: concrete runs (setting of Net_proofs.v: SZ = 64, toyH, A = 0, B = 1, block c1 / d1)     *)
(* ====================================================================================================== *)
(* B holds c1, A asks; A's first (empty, full) wantlist is delivered, the lookup misses, the update `WANT_HAVE c1` is in flight *)
Definition pf_pre : list nop := [NPut 1 c1 d1; NConnect 0 1; NGet 0 c1; NPoll 0; NDeliverW 0 1; NStore 0 0; NPoll 0].
(* … the handler fails it (d = delivered or not) and the connection is re-established *)
Definition pf_heal (d : bool) : list fop := map FOp pf_pre ++ [FFailW 0 1 d; FReconnect 0 1].
Definition pf_heal_ops (d : bool) : list nop :=
  pf_pre ++ (if d then [NDeliverW 0 1] else []) ++ [NDisconnect 0 1; NConnect 0 1].
(* … or the connection stays up and A polls *)
Definition pf_stay (d : bool) : list fop := map FOp pf_pre ++ [FFailW 0 1 d; FOp (NPoll 0)].

Lemma pf_pre_good : Forall (nop_good SZ toyH) pf_pre /\ Forall (nop_wf SZ) pf_pre.
Proof.
  split; unfold pf_pre.
  - constructor; [cbn [nop_good]; split; [apply c1_wf | vm_compute; reflexivity]|]. repeat constructor.
  - do 2 (constructor; [exact I|]). constructor; [apply c1_wf|]. repeat constructor.
Qed.

Lemma pf_heal_good d : Forall (nop_good SZ toyH) (pf_heal_ops d) /\ Forall (nop_wf SZ) (pf_heal_ops d).
Proof.
  destruct pf_pre_good as [Hg Hw]. unfold pf_heal_ops. split; apply Forall_app; (split; [assumption|]); destruct d; repeat constructor.
Qed.

(* the hypotheses of P_C05_net_self_heals hold on both runs, the fault really happens, and the query is answered *)
Example pf_heal_example d :
  erase (pf_heal d) = Some (pf_heal_ops d) /\
  Forall (nop_good SZ toyH) (pf_heal_ops d) /\ Forall (nop_wf SZ) (pf_heal_ops d) /\
  (let sA := fst (nrun SZ toyH (net_init 2) pf_pre) in
   inflight sA 0 1 = [MkW 0 1 false [(KWantHave, c1)]] /\
   h_fates (hist_of SZ toyH sA (FFailW 0 1 d)) = [if d then FtFailedWhole (MkW 0 1 false [(KWantHave, c1)]) else FtFailedNone (MkW 0 1 false [(KWantHave, c1)])] /\
   ss_of (fst (fstep SZ toyH sA (FFailW 0 1 d))) 0 1 = Some (SsFailed CONN)) /\
  let s := fst (frun SZ toyH (net_init 2) (pf_heal d)) in
  Net.connected s 0 1 = true /\ live_query 0 0 c1 s /\
  (exists st dd, store_of s 1 = Some st /\ store_get st c1 = SHit dd) /\
  let r1 := settle SZ toyH s in
  let r2 := refresh SZ toyH (fst r1) in
  (length (wl_i 0 (fst r1)) <= 1024)%nat /\ snd r1 ++ snd r2 = [EResponse 0 0 d1].
Proof.
  destruct (pf_heal_good d) as [Hg Hw].
  split; [destruct d; vm_compute; reflexivity|]. split; [exact Hg|]. split; [exact Hw|].
  split; [split; [vm_compute; reflexivity | split; destruct d; vm_compute; reflexivity]|].
  cbn zeta. split; [destruct d; vm_compute; reflexivity|]. split.
  - unfold live_query. destruct d; vm_compute; eexists; eexists; (split; [reflexivity|]); (split; [left; reflexivity | left; reflexivity]).
  - split; [destruct d; vm_compute; eexists; eexists; (split; reflexivity)|].
    split; [destruct d; vm_compute; lia | destruct d; vm_compute; reflexivity].
Qed.

(* the theorem applied to the example *)
Example pf_heal_answered d :
  let s := fst (frun SZ toyH (net_init 2) (pf_heal d)) in
  answered 0 0 (snd (settle SZ toyH s) ++ snd (refresh SZ toyH (fst (settle SZ toyH s)))).
Proof.
  destruct (pf_heal_example d) as (He & Hg & Hw & _ & Hc & Hl & Hst & Hsz & _). cbn zeta in *.
  destruct (P_C05_net_self_heals SZ toyH SZ_big 0 1 2 (pf_heal d) (pf_heal_ops d) He Hg Hw Hc Hsz) as (_ & _ & Ha).
  apply (Ha 0 c1 Hl Hst).
Qed.

(* a windowed run: between the fault and the reconnect B polls, completes its store call, serves the block (d = true: B got the
   want), the clock moves, the block is delivered to A — whose record of B says Failed all the while — and B asks for c1 itself *)
Definition pf_W : list nop := [NPoll 1; NStore 1 0; NPoll 1; NAdvance 500; NDeliverB 1 0; NGet 1 c1].
Definition pf_win (d : bool) : list fop := map FOp pf_pre ++ FFailW 0 1 d :: map FOp pf_W ++ closer_f 0 1 true :: [].
Definition pf_win_ops (d : bool) : list nop := pf_pre ++ (if d then [NDeliverW 0 1] else []) ++ pf_W ++ closer_n 0 1 true ++ [].

Lemma wshape_pre pre : forall r l, wshape r l -> wshape (map FOp pre ++ r) (pre ++ l).
Proof. induction pre as [|o pre IH]; intros r l H; [exact H|]. cbn [map app]. constructor. apply IH, H. Qed.

Lemma pf_win_shape d : wshape (pf_win d) (pf_win_ops d) /\ Forall (nop_good SZ toyH) (pf_win_ops d) /\ Forall (nop_wf SZ) (pf_win_ops d).
Proof.
  destruct pf_pre_good as [Hg Hw]. split; [|split].
  - unfold pf_win, pf_win_ops. apply wshape_pre. apply ws_fault; [|constructor]. unfold pf_W. repeat constructor; cbn; lia.
  - unfold pf_win_ops. apply Forall_app. split; [exact Hg|]. destruct d; repeat constructor.
  - unfold pf_win_ops. apply Forall_app. split; [exact Hw|]. destruct d; cbn [app pf_W closer_n]; repeat (constructor; try exact I; try apply c1_wf).
Qed.

(* d = false: the hypotheses of P_C05_net_self_heals_windowed hold and the query is answered by the theorem;
   d = true: B served the want inside the window, the block reached A while A's record of B said Failed, the response is
   queued (the query is no longer `live_query`) and comes out at A's next poll — the events agree with the fault-free run *)
Example pf_win_example :
  (let s := fst (frun SZ toyH (net_init 2) (pf_win false)) in
   Net.connected s 0 1 = true /\ live_query 0 0 c1 s /\
   (exists st dd, store_of s 1 = Some st /\ store_get st c1 = SHit dd) /\
   let r1 := settle SZ toyH s in
   let r2 := refresh SZ toyH (fst r1) in
   (length (wl_i 0 (fst r1)) <= 1024)%nat /\ answered 0 0 (snd r1 ++ snd r2)) /\
  (let s := fst (frun SZ toyH (net_init 2) (pf_win true)) in
   ss_of (fst (frun SZ toyH (net_init 2) (map FOp pf_pre ++ FFailW 0 1 true :: map FOp pf_W))) 0 1 = Some (SsFailed CONN) /\
   snd (settle SZ toyH s) = [EResponse 0 0 d1; EResponse 1 0 d1] /\
   frun SZ toyH (net_init 2) (pf_win true) = nrun SZ toyH (net_init 2) (pf_win_ops true)).
Proof.
  split.
  - destruct (pf_win_shape false) as (Hs & Hg' & Hw'). cbn zeta.
    assert (Hc : Net.connected (fst (frun SZ toyH (net_init 2) (pf_win false))) 0 1 = true) by (vm_compute; reflexivity).
    assert (Hl : live_query 0 0 c1 (fst (frun SZ toyH (net_init 2) (pf_win false)))).
    { unfold live_query. vm_compute. eexists. eexists. split; [reflexivity|]. split; [left; reflexivity | left; reflexivity]. }
    assert (Hst : exists st dd, store_of (fst (frun SZ toyH (net_init 2) (pf_win false))) 1 = Some st /\ store_get st c1 = SHit dd)
      by (vm_compute; eexists; eexists; (split; reflexivity)).
    assert (Hsz : (length (wl_i 0 (fst (settle SZ toyH (fst (frun SZ toyH (net_init 2) (pf_win false)))))) <= 1024)%nat) by (vm_compute; lia).
    split; [exact Hc|]. split; [exact Hl|]. split; [exact Hst|]. split; [exact Hsz|].
    destruct (P_C05_net_self_heals_windowed SZ toyH SZ_big 0 1 2 (pf_win false) (pf_win_ops false) Hs Hg' Hw' Hc Hsz) as (_ & Ha).
    apply (Ha 0 c1 Hl Hst).
  - cbn zeta. split; [vm_compute; reflexivity|]. split; [vm_compute; reflexivity|].
    destruct (pf_win_shape true) as (Hs & Hg' & _). apply (P_windowed_run SZ toyH SZ_big 2 _ _ Hs Hg').
Qed.

(* C05 negative half as a theorem: the same fault, the connection stays up, A polls.  `conns` still holds the pair, B still
   holds the block, A's query is live — and two refresh periods later nothing has been answered, A still has no entry for B
   (B still has one for A), the net is quiet: the conclusion of C02_direct is false in a net reachable with faults. *)
Theorem P_C05_net_forgotten_peer_refuted d :
  let s := fst (frun SZ toyH (net_init 2) (pf_stay d)) in
  Net.connected s 0 1 = true /\ live_query 0 0 c1 s /\
  (exists st dd, store_of s 1 = Some st /\ store_get st c1 = SHit dd) /\
  tracks s 0 1 = false /\ tracks s 1 0 = true /\
  let r1 := settle SZ toyH s in
  let r2 := refresh SZ toyH (fst r1) in
  let r3 := refresh SZ toyH (fst r2) in
  quietb (fst r1) = true /\ quietb (fst r2) = true /\ quietb (fst r3) = true /\
  (length (wl_i 0 (fst r1)) <= 1024)%nat /\
  ~ answered 0 0 (snd r1 ++ snd r2 ++ snd r3) /\
  tracks (fst r3) 0 1 = false /\ Net.connected (fst r3) 0 1 = true /\ live_query 0 0 c1 (fst r3).
Proof.
  cbn zeta. split; [destruct d; vm_compute; reflexivity|]. split.
  { unfold live_query. destruct d; vm_compute; eexists; eexists; (split; [reflexivity|]); (split; [left; reflexivity | left; reflexivity]). }
  split; [destruct d; vm_compute; eexists; eexists; (split; reflexivity)|].
  split; [destruct d; vm_compute; reflexivity|]. split; [destruct d; vm_compute; reflexivity|].
  split; [destruct d; vm_compute; reflexivity|]. split; [destruct d; vm_compute; reflexivity|]. split; [destruct d; vm_compute; reflexivity|].
  split; [destruct d; vm_compute; lia|].
  split; [intros (dd & H); destruct d; vm_compute in H; exact H|].
  split; [destruct d; vm_compute; reflexivity|]. split; [destruct d; vm_compute; reflexivity|].
  unfold live_query. destruct d; vm_compute; eexists; eexists; (split; [reflexivity|]); (split; [left; reflexivity | left; reflexivity]).
Qed.

(* the general theorem applied to the example: whatever happens next short of closing the connection, A hands no wantlist
   for B to the connection *)
Example pf_stay_forgotten d ops :
  Forall (fun o => closes_pair 0 1 o = false) ops ->
  let r := frun_h SZ toyH (fst (frun SZ toyH (net_init 2) (pf_stay d))) ops in
  tracks (fst (fst r)) 0 1 = false /\ forall m, In m (h_entered (snd r)) -> w_between 0 1 m = false.
Proof.
  intros Hops. destruct (P_C05_net_forgotten_peer_refuted d) as (Hc & _ & _ & Ht & _). cbn zeta in *.
  destruct (P_C05_net_stays_forgotten SZ toyH 0 1 2 (pf_stay d) ops Hc Ht Hops) as (A & _ & B). split; assumption.
Qed.

(* … and the reconnect repairs it: after `FReconnect 0 1` a settle answers the query *)
Example pf_stay_then_reconnect d :
  let s := fst (frun SZ toyH (net_init 2) (pf_stay d ++ [FReconnect 0 1])) in
  peer_of s 0 1 = Some fresh_peer /\ snd (settle SZ toyH s) = [EResponse 0 0 d1] /\ quietb (fst (settle SZ toyH s)) = true.
Proof. cbn zeta. repeat split; destruct d; vm_compute; reflexivity. Qed.

(* C14: the history of the healing run — two wantlists entered the wire; the first was delivered (Ready), the second failed
   (whole / not at all); nothing is in flight at the end *)
Example pf_history d :
  let r := frun_h SZ toyH (net_init 2) (pf_heal d) in
  h_entered (snd r) = [MkW 0 1 true []; MkW 0 1 false [(KWantHave, c1)]] /\
  h_fates (snd r) = [FtReady (MkW 0 1 true []);
                     if d then FtFailedWhole (MkW 0 1 false [(KWantHave, c1)]) else FtFailedNone (MkW 0 1 false [(KWantHave, c1)])] /\
  wire_w (fst (fst r)) = [].
Proof. cbn zeta. repeat split; destruct d; vm_compute; reflexivity. Qed.

(* a wantlist dropped with its connection *)
Example pf_history_dropped :
  h_fates (snd (frun_h SZ toyH (net_init 2) (map FOp pf_pre ++ [FReconnect 0 1]))) =
  [FtReady (MkW 0 1 true []); FtDropped (MkW 0 1 false [(KWantHave, c1)])].
Proof. vm_compute. reflexivity. Qed.

(* the hypotheses of P_C05_net_fault_forgets hold in the example *)
Example pf_fault_forgets_example :
  let s := fst (frun SZ toyH (net_init 2) (map FOp pf_pre)) in
  inflight s 0 1 <> [] /\ ss_of s 0 1 = Some (SsSending 0 CONN).
Proof. cbn zeta. split; [vm_compute; discriminate | vm_compute; reflexivity]. Qed.

Print Assumptions P_RI_fstep_refuted.
Print Assumptions P_RI_clauses_refuted.
Print Assumptions P_disconnect_absorbs_fail.
Print Assumptions P_episodic_run.
Print Assumptions P_reachableF_RI.
Print Assumptions P_settle_terminates_F.
Print Assumptions P_C05_net_self_heals.
Print Assumptions P_reachableF_light.
Print Assumptions P_C14_net_whole_or_failed.
Print Assumptions P_dropped_sound.
Print Assumptions P_C05_net_stays_forgotten.
Print Assumptions P_reconnect_fresh.
Print Assumptions pf_heal_example.
Print Assumptions pf_heal_answered.
Print Assumptions P_C05_net_forgotten_peer_refuted.
Print Assumptions pf_stay_forgotten.
Print Assumptions pf_stay_then_reconnect.
Print Assumptions pf_history.
Print Assumptions P_windowed.
Print Assumptions P_windowed_run.
Print Assumptions P_erase_wshape.
Print Assumptions P_reachableF_RI_windowed.
Print Assumptions P_settle_terminates_F_windowed.
Print Assumptions P_C05_net_self_heals_windowed.
Print Assumptions pf_win_example.
Print Assumptions P_reachableF_client_trace.
Print Assumptions P_C05_net_fault_forgets.
Print Assumptions pf_fault_forgets_example.
