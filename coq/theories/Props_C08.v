(* Props_C08.v — C08: no bytes from a remote peer can panic the node.
   Every model has explicit Panic / out-of-fuel (= non-terminating loop) outcomes at each place the Rust can
   panic (expect, unwrap, debug_assert!, checked arithmetic with `chk = true`, usize wrap with `chk = false`).
   KNOWN FINDING F2 (third-party reader, quick-protobuf 0.8.1): inside the class `codec_overrun` the property
   is false (C08_decode_refuted); outside it the theorems below hold. *)
From BS Require Import Bytes Varint Cid Prefix Hasher Proto Incoming Qp ProtoCodec RefProto Frame Framed Codec
                       Prefix_proofs Incoming_proofs ProtoCodec_proofs RefProto_proofs Codec_proofs
                       Types Server Server_proofs Wantlist Client Client_proofs Client_proofs2 Client_proofs3 Client_proofs4.
Open Scope N_scope.

(* codec: decode of ANY buffer outside the known class returns Err / NeedMore / Item, in both profiles *)
Theorem C08_decode_total : forall chk buf, codec_overrun buf = false ->
  codec_decode chk buf <> DPanic /\ codec_decode chk buf <> DLoop.
Proof. exact codec_decode_total. Qed.

(* ... and the body parser's fuel (length rest + 1) is never exhausted outside the class *)
Theorem C08_body_total : forall chk rest n,
  n < two64 -> n <= len rest -> ~ Overrun rest n ->
  (exists m s, qp_read_message chk rest n = Qp.ROk m s) \/ qp_read_message chk rest n = Qp.RErr.
Proof. exact ProtoCodec_proofs.C08_decode_total. Qed.

(* known finding F2: inside the class the decoder panics (overflow checks) or does not terminate (release) *)
Theorem C08_decode_refuted :
  let frame := 17 :: f2_witness in
  codec_overrun frame = true /\ codec_decode true frame = DPanic /\ codec_decode false frame = DLoop.
Proof. exact codec_decode_f2. Qed.

(* messages the node itself encodes: the two expect("buffer too small") of Codec::encode cannot fire *)
Theorem C08_encode_no_panic : forall m, len (write_message m) = size_message m.
Proof. exact ProtoCodec_proofs.C08_encode_no_panic. Qed.

(* no block prefix a peer can send makes CidPrefix::to_cid hit its expect (the table answers sha2-256
   requests with sha2-256 multihashes: true of the built-in table) *)
Theorem C08_prefix_total : forall S H bs p data,
  sha_respecting H -> prefix_from_bytes bs = Some p -> prefix_to_cid S H p data <> TPanic.
Proof. exact parsed_prefix_no_panic. Qed.

(* process_message: any message value, any field contents *)
Theorem C08_process_message_total : forall S H m, 32 <= S -> sha_respecting H -> process_message S H m <> PmPanic.
Proof. exact process_message_no_panic. Qed.

(* behaviours: no operation sequence (any incoming messages, any interleaving) reaches a panic *)
Theorem C08_client_no_panic : forall sdh ops, ~ In OPanic (all_outs (fst (crun_sdh sdh ops))).
Proof. exact Client_proofs.C08_client_no_panic. Qed.
Theorem C08_client_poll_terminates : forall sdh ops, ~ In OOutOfFuel (outs_after sdh ops).
Proof. exact crun_never_out_of_fuel. Qed.
Theorem C08_server_no_panic : forall Sz ops, 32 <= Sz -> s_panic (snd (srun Sz ops)) = false.
Proof. exact server_no_panic. Qed.

Check C08_decode_total : forall chk buf, codec_overrun buf = false ->
  codec_decode chk buf <> DPanic /\ codec_decode chk buf <> DLoop.

(* non-vacuity: an ordinary frame and a frame with a bad nested length that stays inside its parent are outside the class *)
Example ex_outside_class :
  codec_overrun [13; 26; 11; 10; 4; 1; 85; 18; 32; 18; 3; 97; 98; 99] = false /\ codec_overrun [3; 10; 1; 255] = false.
Proof. split; vm_compute; reflexivity. Qed.

Print Assumptions C08_decode_total.
Print Assumptions C08_body_total.
Print Assumptions C08_decode_refuted.
Print Assumptions C08_encode_no_panic.
Print Assumptions C08_prefix_total.
Print Assumptions C08_process_message_total.
Print Assumptions C08_client_no_panic.
Print Assumptions C08_client_poll_terminates.
Print Assumptions C08_server_no_panic.

(* ---- connection handlers (package E): the client handler never panics on any op list that respects libp2p-swarm's
   contract (send only when Ready, stream answers only for requests, nothing after poll_close); without the third rule
   the debug assertion of stream_allocation_failed can fire (…_refuted: latent, the swarm delivers nothing after
   poll_close); the poll loops terminate (fuel never exhausted). *)
From BS Require Import Bytes Types FramedWrite Handler Handler_proofs.
Open Scope N_scope.

Theorem C08_handler_no_panic_if_disciplined :
  forall (encode : message -> bytes) (c : conn) (ops : list hop),
  disciplined encode true c ops = true -> ~ In HPanic (handler_outs encode c ops).
Proof. exact (@Handler_proofs.C08_handler_no_panic_if_disciplined). Qed.

Theorem C08_handler_no_panic_if_disciplined_refuted :
  exists (c : conn) (ops : list hop),
    disciplined ex_encode false c ops = true /\ In HPanic (handler_outs ex_encode c ops).
Proof. exact (@Handler_proofs.C08_handler_no_panic_if_disciplined_refuted). Qed.

Theorem do_poll_not_exhausted :
  forall (encode : message -> bytes) (st : hstate) (s : list io),
  h_exhausted st = false ->
  h_exhausted (fst (do_poll encode st s)) = false /\ h_queue (fst (do_poll encode st s)) = [].
Proof. exact (@Handler_proofs.do_poll_not_exhausted). Qed.

Print Assumptions C08_handler_no_panic_if_disciplined.
Print Assumptions C08_handler_no_panic_if_disciplined_refuted.
Print Assumptions do_poll_not_exhausted.
