(* Net_proofs6.v — package F: the normal form of one NPoll, and the invariant through it. *)
From BS Require Import Server_lemmas Server_inv Server_proofs Server_live Wantlist_proofs Client_proofs Client_proofs2
  Client_proofs3 Client_proofs4 Net Net_proofs2 Net_proofs3 Net_proofs4 Net_proofs5.
From Coq Require Import ZArith ZifyBool ZifyN ZifyNat Lia.
Open Scope N_scope.

Local Notation cid_eqb_spec := Wantlist_proofs.cid_eqb_spec.

Lemma rep_sending_set_peers c x : rep_sending c x = set_peers c (cs_peers (rep_sending c x)).
Proof. destruct x as [[[p cn] f] es]. reflexivity. Qed.

Lemma reps_set_peers L : forall c, fold_left rep_sending L c = set_peers c (cs_peers (fold_left rep_sending L c)).
Proof.
  induction L as [|x L IH]; intros c; cbn [fold_left]; [destruct c; reflexivity|].
  rewrite IH at 1. rewrite (rep_sending_set_peers c x) at 1. reflexivity.
Qed.

Definition w_of (i : N) (x : peer * conn * bool * list gen_entry) : wmsg :=
  MkW i (x_peer x) (snd (fst x)) (snd x).

Lemma hand_over_fold s i L : forall n ws,
  (forall x, In x L -> Net.connected s i (x_peer x) = true) ->
  fold_left (hand_over s i) L (n, ws) =
  (MkNode (fold_left rep_sending L (n_client n)) (n_server n) (n_store n) (n_calls n), ws ++ map (w_of i) L).
Proof.
  induction L as [|x L IH]; intros n ws HL; cbn [fold_left map].
  - rewrite app_nil_r. destruct n; reflexivity.
  - pose proof (HL x (or_introl eq_refl)) as Hc. destruct x as [[[p cn] f] es]. cbn [x_peer fst] in Hc.
    cbn [hand_over fst snd]. rewrite Hc. rewrite IH by (intros y Hy; apply HL; right; exact Hy).
    cbn [node_report n_client n_server n_store n_calls rep_sending]. rewrite <- app_assoc. reflexivity.
Qed.

Definition b_of (i : N) (x : peer * list (cid * bytes)) : bmsg := MkB i (fst x) (snd x).

Lemma queue_blocks_fold s i B : forall acc,
  fold_left (queue_blocks s i) B acc = acc ++ map (b_of i) (filter (fun x => Net.connected s i (fst x)) B).
Proof.
  induction B as [|x B IH]; intros acc; cbn [fold_left filter map]; [rewrite app_nil_r; reflexivity|].
  rewrite IH. unfold queue_blocks, peer in *. destruct (Net.connected s i (fst x)); [|reflexivity].
  cbn [map]. rewrite <- app_assoc. reflexivity.
Qed.

Section Poll.
  Variables (Sz : N) (Hh : hash_fn).
  Hypothesis HSz : 32 <= Sz.
  Local Notation G := (good Sz Hh).

  (* the server part of a poll *)
  Definition srv_poll (st : sstate) (nb : list (cid * bytes)) : sstate * list lout :=
    Server.do_poll (match nb with [] => st | _ => new_blocks_available st nb end).

  Record poll_nf (s : net) (i : N) (n : node) (sC : cstate) (outsC : list cout) : Prop := MkNF {
    nf_run : tasks_run (after_timer (n_client n)) outsC sC;
    nf_ck : CK G sC;
    nf_outs : Forall task_out outsC;
    nf_eq :
      let w := cs_wl sC in
      let L := flat_map (sends1 w) (cs_peers sC) in
      let cF := set_peers (set_new_blocks (set_queue sC []) []) (map (fin1 (now s) w) (cs_peers sC)) in
      let sp := srv_poll (n_server n) (cs_new_blocks sC) in
      do_poll Sz s i =
      (MkNet (set_nth (N.to_nat i)
                (MkNode cF (fst sp) (n_store n) (n_calls n ++ cl_calls outsC ++ sv_calls (snd sp))) (nodes s))
             (conns s) (wire_w s ++ map (w_of i) L)
             (wire_b s ++ map (b_of i) (filter (fun x => Net.connected s i (fst x)) (sv_blocks (snd sp)))) (now s),
       map (ev_of i) (ev_levs (cs_queue (n_client n)) ++ cl_events outsC))
  }.

  Lemma do_poll_nf s i n :
    net_ok Sz Hh s -> get_node s i = Some n -> exists sC outsC, poll_nf s i n sC outsC.
  Proof.
    intros Hok Hg. pose proof (no_nodes Sz Hh s Hok i n Hg) as Hn. pose proof Hn as [H1 H2 H3 H4 H5 H6 H7 H8 H9 H10 H11].
    destruct (c_poll_net G (n_client n) H1 H3) as (sC & outsC & outsD & Hrun & HCC & Hto & Hbad & Heq). cbn zeta in Heq.
    exists sC, outsC. constructor; try assumption. cbn zeta.
    destruct (tasks_run_frame _ _ _ Hrun) as (_ & F2 & _). destruct (after_timer_props (n_client n)) as (_ & _ & HnB).
    assert (Enow : cs_now sC = now s) by congruence.
    unfold do_poll. rewrite Hg. unfold node_poll. cbn [cstep]. rewrite Heq. rewrite H4 in *.
    cbn [c_take_new_blocks cl_new_blocks set_queue set_peers cs_new_blocks]. rewrite app_nil_r.
    (* the client outputs, filtered *)
    set (evs := flat_map (fun e => snd (uh1 (now s) (cs_wl sC) e)) (cs_peers sC)) in *.
    destruct (cl_bad _ Hbad) as (Bw & Be & Bc).
    assert (Ew : cl_wants (map out_of_event (cs_queue (n_client n)) ++ outsC ++ outsD ++ map out_of_event evs) =
                 flat_map (sends1 (cs_wl sC)) (cs_peers sC)).
    { rewrite !cl_wants_app, !cl_wants_events, (cl_wants_task_out _ Hto), Bw, (ev_wants_no_send _ (proj2 H3)).
      cbn [app]. unfold evs. apply ev_wants_uh1. }
    assert (Ee : cl_events (map out_of_event (cs_queue (n_client n)) ++ outsC ++ outsD ++ map out_of_event evs) =
                 ev_levs (cs_queue (n_client n)) ++ cl_events outsC).
    { rewrite !cl_events_app, !cl_events_events, Be. cbn [app].
      unfold evs. rewrite ev_levs_uh1, app_nil_r. reflexivity. }
    assert (Ec : cl_calls (map out_of_event (cs_queue (n_client n)) ++ outsC ++ outsD ++ map out_of_event evs) = cl_calls outsC).
    { rewrite !cl_calls_app, !cl_calls_events, Bc, app_nil_r. reflexivity. }
    rewrite Ew, Ee, Ec.
    destruct H7 as (HI & HB & Hp & Hgd).
    assert (Es1 : match cs_new_blocks sC with [] => n_server n
                  | _ :: _ => fst (srv Sz (n_server n) (SNewBlocks (cs_new_blocks sC))) end
                  = match cs_new_blocks sC with [] => n_server n | _ => new_blocks_available (n_server n) (cs_new_blocks sC) end).
    { destruct (cs_new_blocks sC); [reflexivity|]. unfold srv, sstep_l. rewrite Hp. reflexivity. }
    rewrite Es1. unfold srv_poll.
    set (s1 := match cs_new_blocks sC with [] => n_server n | _ => new_blocks_available (n_server n) (cs_new_blocks sC) end).
    assert (Hp1 : s_panic s1 = false) by (unfold s1; destruct (cs_new_blocks sC); exact Hp).
    unfold srv at 1. unfold sstep_l. rewrite Hp1.
    pose proof (do_poll_panic s1) as Hp2. destruct (Server.do_poll s1) as [s2 o3]. cbn [fst snd] in *. rewrite Hp1 in Hp2.
    cbn [o_wants o_blocks o_events].
    assert (Hkeys : map fst (cs_peers sC) = map fst (cs_peers (n_client n))).
    { rewrite (peers_link_keys _ _ (tasks_run_peers _ _ _ Hrun)). apply (peers_link_keys _ _ (after_timer_peers (n_client n))). }
    rewrite hand_over_fold.
    2:{ intros x Hx. apply sends1_conn in Hx. destruct Hx as [_ Hx]. rewrite Hkeys in Hx. apply H6, Hx. }
    rewrite queue_blocks_fold. cbn [app n_client n_server n_store n_calls]. rewrite Hp2, app_nil_r.
    f_equal. f_equal. f_equal. f_equal.
    rewrite reps_set_peers, reps_peers by (intros x Hx; apply (sends1_conn _ _ _ Hx)).
    cbn [set_new_blocks set_queue set_peers cs_peers cs_now]. rewrite Enow.
    rewrite (polled_peers (now s) (cs_wl sC) (cs_peers sC) (ck_keys _ _ HCC) (ck_peers _ _ HCC)).
    destruct sC; reflexivity.
  Qed.

  Lemma INVB_tasks_run c outs c' : tasks_run c outs c' -> INVB c -> INVB c'.
  Proof.
    induction 1 as [s0 Hr | s0 r outs s' Hr Hrun IH]; intros HB.
    - unfold INVB. destruct (after_tasks_frame s0) as (_ & -> & _ & -> & _). exact HB.
    - apply IH, INVB_handle_result. unfold INVB. destruct (after_tasks_frame s0) as (_ & -> & _ & -> & _). exact HB.
  Qed.

  Lemma INVB_after_timer c : INVB c -> INVB (after_timer c).
  Proof. unfold after_timer. destruct (timer_ready (set_queue c [])); intros H; exact H. Qed.

  Lemma fin1_ok now w p ps :
    NoDup (wl_cids w) -> peer_ok w ps -> fst (fin1 now w (p, ps)) = p /\ peer_ok w (snd (fin1 now w (p, ps))).
  Proof.
    intros Hw Hok. destruct (uh_peer_net now w p ps Hw Hok) as [(t & Hs & _)|(Hr & es & wls' & Eg & Hst & _ & _ & _)].
    - unfold fin1. cbn [fst snd]. rewrite Hs. auto.
    - unfold fin1. cbn [fst snd]. rewrite Hr, Eg. destruct (negb (p_send_full ps) && is_nil es); cbn [fst snd]; (split; [reflexivity|]);
        (split; [exact Hst|]); (split; [|reflexivity]); [left; reflexivity | right; eexists; reflexivity].
  Qed.

  Lemma cl_calls_no_sget l k c : ~ In (KSGet k c) (cl_calls l).
  Proof. induction l as [|o l IH]; [intros []|]. destruct o; cbn; try exact IH; intros [[=]|H]; apply IH, H. Qed.

  Lemma sv_calls_In l k c : In (KSGet k c) (sv_calls l) <-> In (LGet k c) l.
  Proof.
    induction l as [|o l IH]; [cbn; tauto|]. destruct o as [k0 c0|p0 bl0]; cbn [sv_calls In]; rewrite IH.
    - split; (intros [H|H]; [left; congruence | right; exact H]).
    - split; [auto | intros [H|H]; [discriminate | exact H]].
  Qed.

  Lemma sv_blocks_In l p bl : In (p, bl) (sv_blocks l) <-> In (LSend p bl) l.
  Proof.
    induction l as [|o l IH]; [cbn; tauto|]. destruct o as [k0 c0|p0 bl0]; cbn [sv_blocks In]; rewrite IH.
    - split; [auto | intros [H|H]; [discriminate | exact H]].
    - split; (intros [H|H]; [left; congruence | right; exact H]).
  Qed.

  Lemma sv_calls_shape l x : In x (sv_calls l) -> exists k c, x = KSGet k c.
  Proof. induction l as [|o l IH]; [intros []|]. destruct o; cbn; [intros [<-|H]; eauto | exact IH]. Qed.

  Lemma cl_calls_good l : (forall n bl, In (OPut n bl) l -> Forall G bl) -> Forall (call_good Sz Hh) (cl_calls l).
  Proof.
    induction l as [|o l IH]; intros H; [constructor|].
    assert (Hl : Forall (call_good Sz Hh) (cl_calls l)) by (apply IH; intros n bl Hin; eapply H; right; exact Hin).
    destruct o; cbn; try exact Hl; constructor; try exact Hl; cbn; [exact I|]. eapply H. left. reflexivity.
  Qed.

  Lemma SV_srv_poll st nb : SV Sz Hh st -> Forall G nb -> SV Sz Hh (fst (srv_poll st nb)).
  Proof.
    intros Hsv Hnb. unfold srv_poll.
    assert (H1 : SV Sz Hh (match nb with [] => st | _ => new_blocks_available st nb end)).
    { destruct nb as [|b nb']; [exact Hsv|]. pose proof (SV_step Sz Hh HSz st (SNewBlocks (b :: nb')) Hsv Hnb) as H.
      unfold sstep_l in H. destruct Hsv as (_ & _ & Hp & _). rewrite Hp in H. exact H. }
    pose proof (SV_step Sz Hh HSz _ SPoll H1 I) as H. unfold sstep_l in H. destruct H1 as (_ & _ & Hp & _). rewrite Hp in H. exact H.
  Qed.

  Lemma net_ok_poll s i : net_ok Sz Hh s -> net_ok Sz Hh (fst (nstep Sz Hh s (NPoll i))).
  Proof.
    intros Hok. cbn [nstep]. destruct (get_node s i) as [n|] eqn:Hg; [|unfold do_poll; rewrite Hg; exact Hok].
    destruct (do_poll_nf s i n Hok Hg) as (sC & outsC & [Hrun HCC Hto Heq]). cbn zeta in Heq. rewrite Heq. cbn [fst].
    pose proof (no_nodes Sz Hh s Hok i n Hg) as Hn. pose proof Hn as [H1 H2 H3 H4 H5 H6 H7 H8 H9 H10 H11].
    destruct (tasks_run_frame _ _ _ Hrun) as (Fq & F2 & F3 & F4 & _). destruct (after_timer_props (n_client n)) as (_ & _ & HnB).
    assert (Hkeys : map fst (cs_peers sC) = map fst (cs_peers (n_client n))).
    { rewrite (peers_link_keys _ _ (tasks_run_peers _ _ _ Hrun)). apply (peers_link_keys _ _ (after_timer_peers (n_client n))). }
    set (sp := srv_poll (n_server n) (cs_new_blocks sC)).
    set (s1 := match cs_new_blocks sC with [] => n_server n | _ => new_blocks_available (n_server n) (cs_new_blocks sC) end).
    assert (Hsv1 : SV Sz Hh s1).
    { unfold s1. destruct (cs_new_blocks sC) as [|b nb'] eqn:En; [exact H7|]. pose proof (SV_step Sz Hh HSz _ (SNewBlocks (b :: nb')) H7) as H.
      unfold sstep_l in H. destruct H7 as (_ & _ & Hp & _). rewrite Hp in H. apply H. cbn. rewrite <- En. apply (ck_new _ _ HCC). }
    assert (Hb1 : s_blocked s1 = s_blocked (n_server n) /\ s_next_call s1 = s_next_call (n_server n) /\
                  map fst (s_wants s1) = map fst (s_wants (n_server n))).
    { unfold s1. destruct (cs_new_blocks sC); auto. }
    destruct Hb1 as (Eb1 & Ec1 & Ek1). change sp with (Server.do_poll s1) in *.
    set (cF := set_peers (set_new_blocks (set_queue sC []) []) (map (fin1 (now s) (cs_wl sC)) (cs_peers sC))).
    assert (HnF : node_ok Sz Hh (now s) (Net.connected s i)
                    (MkNode cF (fst (Server.do_poll s1)) (n_store n)
                            (n_calls n ++ cl_calls outsC ++ sv_calls (snd (Server.do_poll s1))))).
    { constructor; cbn [n_client n_server n_store n_calls].
      - constructor; cbn [cF set_peers set_new_blocks set_queue cs_wl cs_peers cs_tasks cs_new_blocks].
        + apply (ck_wl _ _ HCC).
        + rewrite map_map. erewrite map_ext_in; [apply (ck_keys _ _ HCC)|]. intros [p ps] Hin.
          apply (fin1_ok (now s) (cs_wl sC) p ps (ck_wl _ _ HCC) (ck_peers _ _ HCC _ _ Hin)).
        + intros p ps' Hin. apply in_map_iff in Hin. destruct Hin as ([p0 ps0] & E & Hin0).
          destruct (fin1_ok (now s) (cs_wl sC) p0 ps0 (ck_wl _ _ HCC) (ck_peers _ _ HCC _ _ Hin0)) as [_ Hp]. rewrite E in Hp. exact Hp.
        + apply (ck_tasks _ _ HCC).
        + constructor.
      - change (INVB sC). eapply INVB_tasks_run; [exact Hrun|]. apply INVB_after_timer, H2.
      - split; cbn [cF set_peers set_new_blocks set_queue cs_peers cs_queue]; [|intros p c f es []].
        rewrite map_map. erewrite map_ext_in; [apply (ck_keys _ _ HCC)|]. intros [p ps] Hin.
        apply (fin1_ok (now s) (cs_wl sC) p ps (ck_wl _ _ HCC) (ck_peers _ _ HCC _ _ Hin)).
      - cbn [cF set_peers set_new_blocks set_queue cs_now]. congruence.
      - cbn [cF set_peers set_new_blocks set_queue cs_deadline]. rewrite F3. unfold after_timer.
        destruct (timer_ready (set_queue (n_client n) [])); cbn [fire_timer set_queue cs_deadline cs_now]; lia.
      - intros j. cbn [cF set_peers cs_peers]. rewrite <- H6, <- Hkeys, map_map. erewrite map_ext_in; [reflexivity|]. intros [p ps] Hin.
        apply (fin1_ok (now s) (cs_wl sC) p ps (ck_wl _ _ HCC) (ck_peers _ _ HCC _ _ Hin)).
      - pose proof (SV_step Sz Hh HSz _ SPoll Hsv1 I) as H. unfold sstep_l in H. destruct Hsv1 as (_ & _ & Hp & _). rewrite Hp in H. exact H.
      - intros j. rewrite do_poll_keys, Ek1. apply H8.
      - exact H9.
      - apply Forall_app. split; [exact H10|]. apply Forall_app. split.
        + apply cl_calls_good. intros m bl Hin. eapply (tasks_run_puts G _ _ _ m bl Hrun); [apply CK_after_timer, H1 | exact Hin].
        + apply Forall_forall. intros x Hx. apply sv_calls_shape in Hx. destruct Hx as (k & c & ->). exact I.
      - intros k c Hin. cbn [n_calls n_server] in *. destruct Hsv1 as (HI1 & HB1 & _ & _).
        rewrite !in_app_iff in Hin. destruct Hin as [Hin|[Hin|Hin]].
        + destruct (H11 _ _ Hin) as [Hlt Hag]. pose proof (do_poll_next_call_mono s1 HI1) as Hm. split; [lia|].
          intros c' t Hb. destruct (do_poll_blocked_old s1 k c' t HI1 Hb) as [Ho|Hge]; [|lia]. rewrite Eb1 in Ho. eapply Hag, Ho.
        + exfalso. eapply cl_calls_no_sget, Hin.
        + apply sv_calls_In in Hin. destruct (do_poll_calls s1 k c HI1 HB1 Hin) as [Hr Hag]. split; [lia | exact Hag]. }
    destruct Hok as [K1 K2 K3]. constructor; cbn [conns wire_b now].
    - intros k nk Hk. unfold get_node in Hk. cbn [nodes] in Hk. destruct (N.eq_dec i k) as [<-|Hne].
      + rewrite nth_set_nth_eq in Hk by (eapply get_node_lt; exact Hg). injection Hk as <-. exact HnF.
      + rewrite nth_set_nth_neq in Hk by lia. apply K1, Hk.
    - intros a b Hab. destruct (K2 a b Hab) as (Hlt & Ha & Hb). split; [exact Hlt|]. unfold get_node in *. cbn [nodes]. split.
      + destruct (N.eq_dec i a) as [<-|Hne]; [rewrite nth_set_nth_eq by (eapply get_node_lt; exact Hg); discriminate | rewrite nth_set_nth_neq by lia; exact Ha].
      + destruct (N.eq_dec i b) as [<-|Hne]; [rewrite nth_set_nth_eq by (eapply get_node_lt; exact Hg); discriminate | rewrite nth_set_nth_neq by lia; exact Hb].
    - intros m Hm. apply in_app_iff in Hm. destruct Hm as [Hm|Hm]; [apply K3, Hm|].
      apply in_map_iff in Hm. destruct Hm as ([p bl] & <- & Hx). apply filter_In in Hx. destruct Hx as [Hx _].
      apply sv_blocks_In in Hx. cbn [b_of bm_blocks snd]. eapply poll_sends_good; eassumption.
  Qed.

  (* ---------- every step keeps the invariant ---------- *)
  Theorem net_ok_step s o : nop_good Sz Hh o -> net_ok Sz Hh s -> net_ok Sz Hh (fst (nstep Sz Hh s o)).
  Proof.
    intros Ho Hok. destruct o.
    - apply net_ok_connect; assumption.
    - apply net_ok_disconnect; assumption.
    - apply net_ok_get; assumption.
    - apply net_ok_cancel; assumption.
    - apply net_ok_put; assumption.
    - apply net_ok_evict; assumption.
    - apply net_ok_advance; assumption.
    - apply net_ok_poll; assumption.
    - apply net_ok_store; assumption.
    - apply net_ok_deliver_w; assumption.
    - apply net_ok_deliver_b; assumption.
  Qed.

  Lemma nrun_cons s o ops :
    nrun Sz Hh s (o :: ops) =
    (fst (nrun Sz Hh (fst (nstep Sz Hh s o)) ops), snd (nstep Sz Hh s o) ++ snd (nrun Sz Hh (fst (nstep Sz Hh s o)) ops)).
  Proof. cbn [nrun]. destruct (nstep Sz Hh s o) as [s1 e1]. cbn [fst snd]. destruct (nrun Sz Hh s1 ops); reflexivity. Qed.

  Theorem net_ok_run ops : forall s, Forall (nop_good Sz Hh) ops -> net_ok Sz Hh s -> net_ok Sz Hh (fst (nrun Sz Hh s ops)).
  Proof.
    induction ops as [|o ops IH]; intros s Hg Hok; [exact Hok|]. rewrite nrun_cons. cbn [fst].
    inversion Hg; subst. apply IH; [assumption|]. apply net_ok_step; assumption.
  Qed.

  Theorem reachable_ok n ops : Forall (nop_good Sz Hh) ops -> net_ok Sz Hh (fst (nrun Sz Hh (net_init n) ops)).
  Proof. intros Hg. apply net_ok_run; [exact Hg | apply net_ok_init; try assumption]. Qed.
End Poll.
