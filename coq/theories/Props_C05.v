(* Props_C05.v — C05: wantlist delivery self-heals after any transmission fault. Behaviour side (Client.v): first wantlist of a session is full; after a Failed report or an unacknowledged request older than 1 s the next wantlist is full and avoids that connection; the refresh timer sets send_full for every peer each 30 s. Handler side (Handler.v): see the end of the file.
   Statements restated verbatim from the proof files and closed by `exact`; nothing else is proved here. *)
From BS Require Import Bytes Cid Proto Types Wantlist Client Client_proofs Client_proofs2 Client_proofs3 Client_proofs4 Tie_consts.
From BS Require Import Tie_client.   (* tie lemmas: a source edit that changes what they extract breaks this file's closure *)
From BS Require Import Tie_handler.  (* Handler.poll_iter IS the interpretation of the extracted arms of ClientConnectionHandler::poll *)
Open Scope N_scope.

Theorem C05_first_is_full sdh ops1 p c ops2 ch c' f es :
  al_find N.eqb p (cs_peers (st_after sdh ops1)) = None ->
  no_send_to p (skipn (length (outs_after sdh (ops1 ++ [CNewConn p c]))) (outs_after sdh (ops1 ++ [CNewConn p c] ++ ops2))) ->
  In (OSendWantlist p c' f es) (snd (c_poll (st_after sdh (ops1 ++ [CNewConn p c] ++ ops2)) ch)) -> f = true.
Proof. exact (Client_proofs4.C05_first_is_full sdh ops1 p c ops2 ch c' f es). Qed.

Theorem C05_full_after_fault sdh ops ch p ps c0 :
  let s := st_after sdh ops in
  al_find N.eqb p (cs_peers s) = Some ps ->
  (p_ss ps = SsFailed c0 \/ exists t, p_ss ps = SsRequested t c0 /\ (cs_now s - t <? RECEIVE_REQUEST_TIMEOUT) = false) ->
  (forall c f es, In (OSendWantlist p c f es) (snd (c_poll s ch)) -> f = true /\ c <> c0 /\ In c (p_conns ps)) /\
  ((exists c es, In (OSendWantlist p c true es) (snd (c_poll s ch))) \/
   al_find N.eqb p (cs_peers (fst (c_poll s ch))) = None).
Proof. exact (Client_proofs4.C05_full_after_fault sdh ops ch p ps c0). Qed.

Theorem C05_refresh sdh ops ch :
  let s := st_after sdh ops in
  timer_ready s = true ->
  cs_deadline (fst (c_poll s ch)) = cs_now s + SEND_FULL_INTERVAL /\
  forall p ps', al_find N.eqb p (cs_peers (fst (c_poll s ch))) = Some ps' ->
    p_send_full ps' = true \/ exists c es, In (OSendWantlist p c true es) (snd (c_poll s ch)).
Proof. exact (Client_proofs4.C05_refresh sdh ops ch). Qed.

Theorem C05_outstanding_is_left_alone sdh ops ch p ps :
  let s := st_after sdh ops in
  al_find N.eqb p (cs_peers s) = Some ps -> uh_gate (cs_now s) ps = None ->
  (forall c f es, ~ In (OSendWantlist p c f es) (snd (c_poll s ch))) /\
  exists ps', al_find N.eqb p (cs_peers (fst (c_poll s ch))) = Some ps' /\ p_ss ps' = p_ss ps /\ p_conns ps' = p_conns ps.
Proof. exact (Client_proofs4.C14_outstanding_blocks_poll sdh ops ch p ps). Qed.

Print Assumptions C05_first_is_full.
Print Assumptions C05_full_after_fault.
Print Assumptions C05_refresh.
Print Assumptions C05_outstanding_is_left_alone.

(* ---- handler side (package E, Handler.v): every fault after a wantlist was accepted ends in a Failed report:
   start-sending timeout, flush/write error, close of the connection while outstanding; a failed stream allocation is
   retried until the timeout. State-level statements; C05_handler_reports_ex (Handler_proofs) shows reachable states meet
   the hypotheses. *)
From BS Require Import Bytes Types FramedWrite Handler Handler_proofs.
Open Scope N_scope.

Theorem C05_handler_reports :
  forall encode : message -> bytes,
  (forall (st : hstate) (s : list io),
   h_halted st = false ->
   timeout_fired st = true ->
   last_state (h_queue st) <> Some (SsFailed (h_conn st)) ->
   (last_state (h_queue st) = None -> h_sending st <> SsFailed (h_conn st)) ->
   (forall x : sending_state, last_state (h_queue st) = Some x -> h_sending st = x) ->
   let r := do_poll encode st s in
   In (HReport (RpFailed (h_conn st))) (snd r) /\
   h_halted (fst r) = true /\
   h_msg (fst r) = None /\ h_sink (fst r) = SkNone /\ h_timeout (fst r) = None /\ h_queue (fst r) = []) /\
  (forall (st : hstate) (s : list io) (id : N) (buf : bytes),
   h_queue st = [] ->
   h_halted st = false ->
   timeout_fired st = false ->
   h_msg st = None ->
   h_sink st = SkReady id buf ->
   h_sending st <> SsFailed (h_conn st) ->
   fr_res (fw_poll_flush buf s) = PrErr ->
   let r := do_poll encode st s in
   snd r =
   map (hout_of_sev id) (fr_evs (fw_poll_flush buf s)) ++ [HDropped id; HReport (RpFailed (h_conn st))] /\
   h_sink (fst r) = SkNone /\ h_sending (fst r) = SsFailed (h_conn st) /\ h_halted (fst r) = false) /\
  (forall (st : hstate) (s : list io),
   h_panicked st = false ->
   h_closing st = false ->
   (exists (t : time) (c : conn), h_sending st = SsRequestReceived t c \/ h_sending st = SsSending t c) ->
   let r := hstep encode st (HPollClose s) in
   (exists pre : list hout, snd r = pre ++ [HReport (RpFailed (h_conn st)); HClosing]) /\
   h_msg (fst r) = None /\
   h_sink (fst r) = SkNone /\
   h_closing (fst r) = true /\ h_sending (fst r) = SsFailed (h_conn st) /\ h_queue (fst r) = []) /\
  (forall (st : hstate) (s : list io) (m : message),
   h_panicked st = false ->
   h_queue st = [] ->
   h_halted st = false ->
   h_msg st = Some m ->
   h_sink st = SkRequested ->
   let st1 := fst (hstep encode st HAllocFailed) in
   let r := hstep encode st1 (HPoll s) in
   snd (hstep encode st HAllocFailed) = [] /\
   (timeout_fired st = false ->
    snd r = [HOpenStream] /\
    h_sink (fst r) = SkRequested /\ h_msg (fst r) = Some m /\ h_halted (fst r) = false) /\
   (timeout_fired st = true ->
    h_sending st <> SsFailed (h_conn st) ->
    In (HReport (RpFailed (h_conn st))) (snd r) /\ h_halted (fst r) = true)).
Proof. exact (@Handler_proofs.C05_handler_reports). Qed.

Theorem C05_timeout_reports_failed :
  forall (encode : message -> bytes) (st : hstate) (s : list io),
  h_halted st = false ->
  timeout_fired st = true ->
  last_state (h_queue st) <> Some (SsFailed (h_conn st)) ->
  (last_state (h_queue st) = None -> h_sending st <> SsFailed (h_conn st)) ->
  (forall x : sending_state, last_state (h_queue st) = Some x -> h_sending st = x) ->
  let r := do_poll encode st s in
  In (HReport (RpFailed (h_conn st))) (snd r) /\
  h_halted (fst r) = true /\
  h_msg (fst r) = None /\ h_sink (fst r) = SkNone /\ h_timeout (fst r) = None /\ h_queue (fst r) = [].
Proof. exact (@Handler_proofs.C05_timeout_reports_failed). Qed.

Theorem C05_flush_error_reports_failed :
  forall (encode : message -> bytes) (st : hstate) (s : list io) (id : N) (buf : bytes),
  h_queue st = [] ->
  h_halted st = false ->
  timeout_fired st = false ->
  h_msg st = None ->
  h_sink st = SkReady id buf ->
  h_sending st <> SsFailed (h_conn st) ->
  fr_res (fw_poll_flush buf s) = PrErr ->
  let r := do_poll encode st s in
  snd r = map (hout_of_sev id) (fr_evs (fw_poll_flush buf s)) ++ [HDropped id; HReport (RpFailed (h_conn st))] /\
  h_sink (fst r) = SkNone /\ h_sending (fst r) = SsFailed (h_conn st) /\ h_halted (fst r) = false.
Proof. exact (@Handler_proofs.C05_flush_error_reports_failed). Qed.

Theorem C05_close_reports_failed :
  forall (encode : message -> bytes) (st : hstate) (s : list io),
  h_panicked st = false ->
  h_closing st = false ->
  (exists (t : time) (c : conn), h_sending st = SsRequestReceived t c \/ h_sending st = SsSending t c) ->
  let r := hstep encode st (HPollClose s) in
  (exists pre : list hout, snd r = pre ++ [HReport (RpFailed (h_conn st)); HClosing]) /\
  h_msg (fst r) = None /\
  h_sink (fst r) = SkNone /\
  h_closing (fst r) = true /\ h_sending (fst r) = SsFailed (h_conn st) /\ h_queue (fst r) = [].
Proof. exact (@Handler_proofs.C05_close_reports_failed). Qed.

Theorem C05_alloc_failure_retries :
  forall (encode : message -> bytes) (st : hstate) (s : list io) (m : message),
  h_panicked st = false ->
  h_queue st = [] ->
  h_halted st = false ->
  h_msg st = Some m ->
  h_sink st = SkRequested ->
  let st1 := fst (hstep encode st HAllocFailed) in
  let r := hstep encode st1 (HPoll s) in
  snd (hstep encode st HAllocFailed) = [] /\
  (timeout_fired st = false ->
   snd r = [HOpenStream] /\ h_sink (fst r) = SkRequested /\ h_msg (fst r) = Some m /\ h_halted (fst r) = false) /\
  (timeout_fired st = true ->
   h_sending st <> SsFailed (h_conn st) ->
   In (HReport (RpFailed (h_conn st))) (snd r) /\ h_halted (fst r) = true).
Proof. exact (@Handler_proofs.C05_alloc_failure_retries). Qed.

Print Assumptions C05_handler_reports.
Print Assumptions C05_timeout_reports_failed.
Print Assumptions C05_flush_error_reports_failed.
Print Assumptions C05_close_reports_failed.
Print Assumptions C05_alloc_failure_retries.

(* ---- lifted to networks (package K): after the NConnect that establishes a connection the first wantlist either end
   hands to it is a full one (the fault clauses are vacuous under Net.v's atomic delivery and stay client-level). *)
From BS Require Import Types Wantlist Wantlist_proofs2 Client Client_proofs Client_proofs4 Net Net_proofs Net_proofs6 Net_props Net_proofs2 Net_proofs5 Net_proofs21 Net_proofs40 Net_proofs41 Net_proofs42 Net_proofs43 Net_proofs44 Net_proofs45 Net_proofs46 Net_proofs47 Server Net_props4.
From Coq Require Import ZArith Lia.
Open Scope N_scope.

Theorem C05_net_first_is_full :
  forall (Sz : N) (Hh : hash_fn) (n : nat) (ops1 : list nop) (a b : N) (ops2 : list nop) 
    (i j : N) (m : wmsg) (rest : list wmsg),
  let s1 := fst (nrun Sz Hh (net_init n) ops1) in
  let s2 := fst (nstep Sz Hh s1 (NConnect a b)) in
  i = a /\ j = b \/ i = b /\ j = a ->
  Net.connected s1 a b = false ->
  Net.connected s2 a b = true ->
  filter (fun m0 : wmsg => wm_dst m0 =? j) (wsent_run Sz Hh s2 ops2 i) = m :: rest -> wm_full m = true.
Proof. exact (@Net_props4.C05_net_first_is_full). Qed.

Print Assumptions C05_net_first_is_full.

(* ---- transmission faults at NETWORK level (package P, NetF.v = Net.v + the handler's Failed report for a wantlist in flight, delivered
   or not, + reconnect).  Runs in which the faulty connection is closed before the sender polls again ("windowed"; any other steps of the net
   may happen in between) are runs of Net.v, so settle terminates and after settle + refresh the serving side's record equals the requester's
   live wants and a live query for a held block is answered: the exchange heals.  The negative half is exact too: on the ONLY connection of a
   pair a Failed report followed by the sender's poll makes the client forget the peer while the connection stays up, and nothing short of
   closing that connection restores it (the observation of DESIGN §9 in theorem form; C05 promises the full wantlist "over a remaining
   connection if there is one").  Net.v's invariant RI is NOT preserved by a fault (refuted with a witness), which is why the positive half
   goes through the equivalence with fault-free runs instead of a repaired invariant. *)
From BS Require Import Server_lemmas Server_inv Wantlist_proofs Client_proofs Client_proofs2 Client_proofs3 Client_proofs4
  Net Net_proofs Net_proofs2 Net_proofs3 Net_proofs4 Net_proofs5 Net_proofs6 Net_proofs7 Net_proofs9 Net_proofs10 Net_proofs24
  Net_proofs28 Net_proofs32 Net_proofs35 Net_proofs36 Net_props
  NetF NetF_proofs NetF_proofs2 NetF_proofs3 NetF_proofs4 NetF_proofs5 NetF_proofs6 NetF_proofs7 NetF_proofs8 NetF_proofs9 NetF_proofs10 NetF_proofs11.
From BS Require Import NetF_props.
From Coq Require Import ZArith Lia Permutation.
Open Scope N_scope.

Theorem C05_net_self_heals :
  forall (Sz : N) (Hh : hash_fn),
  32 <= Sz ->
  forall (i j : N) (n : nat) (fops : list fop) (ops : list nop),
  erase fops = Some ops ->
  Forall (nop_good Sz Hh) ops ->
  Forall (nop_wf Sz) ops ->
  let s := fst (frun Sz Hh (net_init n) fops) in
  connected s i j = true ->
  let r1 := settle Sz Hh s in
  let r2 := refresh Sz Hh (fst r1) in
  (length (wl_i i (fst r1)) <= 1024)%nat ->
  tracks s i j = true /\
  (forall c : cid,
   In c (wl_i i (fst r2)) <-> (exists st : sstate, server_of (fst r2) j = Some st /\ wantsP (s_wants st) i c)) /\
  (forall (q : qid) (c : cid),
   live_query i q c s ->
   (exists (st : list (cid * bytes)) (d : bytes), store_of s j = Some st /\ store_get st c = SHit d) ->
   answered i q (snd r1 ++ snd r2)).
Proof. exact (@NetF_props.P_C05_net_self_heals). Qed.

Theorem C05_net_self_heals_windowed :
  forall (Sz : N) (Hh : hash_fn),
  32 <= Sz ->
  forall (i j : N) (n : nat) (fops : list fop) (ops : list nop),
  wshape fops ops ->
  Forall (nop_good Sz Hh) ops ->
  Forall (nop_wf Sz) ops ->
  let s := fst (frun Sz Hh (net_init n) fops) in
  connected s i j = true ->
  let r1 := settle Sz Hh s in
  let r2 := refresh Sz Hh (fst r1) in
  (length (wl_i i (fst r1)) <= 1024)%nat ->
  (forall c : cid,
   In c (wl_i i (fst r2)) <-> (exists st : sstate, server_of (fst r2) j = Some st /\ wantsP (s_wants st) i c)) /\
  (forall (q : qid) (c : cid),
   live_query i q c s ->
   (exists (st : list (cid * bytes)) (d : bytes), store_of s j = Some st /\ store_get st c = SHit d) ->
   answered i q (snd r1 ++ snd r2)).
Proof. exact (@NetF_props.P_C05_net_self_heals_windowed). Qed.

Theorem C05_net_episodic_run_is_fault_free_run :
  forall (Sz : N) (Hh : hash_fn),
  32 <= Sz ->
  forall (n : nat) (fops : list fop) (ops : list nop),
  erase fops = Some ops ->
  Forall (nop_good Sz Hh) ops -> frun Sz Hh (net_init n) fops = nrun Sz Hh (net_init n) ops.
Proof. exact (@NetF_props.P_episodic_run). Qed.

Theorem C05_net_windowed_run_is_fault_free_run :
  forall (Sz : N) (Hh : hash_fn),
  32 <= Sz ->
  forall (n : nat) (fops : list fop) (ops : list nop),
  wshape fops ops -> Forall (nop_good Sz Hh) ops -> frun Sz Hh (net_init n) fops = nrun Sz Hh (net_init n) ops.
Proof. exact (@NetF_props.P_windowed_run). Qed.

Theorem C05_net_settle_terminates_with_faults :
  forall (Sz : N) (Hh : hash_fn),
  32 <= Sz ->
  forall (n : nat) (fops : list fop) (ops : list nop),
  wshape fops ops ->
  Forall (nop_good Sz Hh) ops ->
  Forall (nop_wf Sz) ops -> quietb (fst (settle Sz Hh (fst (frun Sz Hh (net_init n) fops)))) = true.
Proof. exact (@NetF_props.P_settle_terminates_F_windowed). Qed.

Theorem C05_net_reconnect_fresh :
  forall (Sz : N) (Hh : hash_fn) (i j : N) (n : nat) (pre : list fop),
  let s := fst (frun Sz Hh (net_init n) pre) in
  connected s i j = true ->
  let s' := fst (fstep Sz Hh s (FReconnect i j)) in
  connected s' i j = true /\
  peer_of s' i j = Some fresh_peer /\
  peer_of s' j i = Some fresh_peer /\ inflight s' i j = [] /\ inflight s' j i = [].
Proof. exact (@NetF_props.P_reconnect_fresh). Qed.

Theorem C05_net_fault_forgets :
  forall (Sz : N) (Hh : hash_fn) (n : nat) (pre : list fop) (i j : N) (d : bool) (t : time),
  let s := fst (frun Sz Hh (net_init n) pre) in
  inflight s i j <> [] ->
  ss_of s i j = Some (SsSending t CONN) ->
  let s1 := fst (fstep Sz Hh s (FFailW i j d)) in
  let s2 := fst (fstep Sz Hh s1 (FOp (NPoll i))) in
  ss_of s1 i j = Some (SsFailed CONN) /\ connected s2 i j = true /\ tracks s2 i j = false.
Proof. exact (@NetF_props.P_C05_net_fault_forgets). Qed.

Theorem C05_net_stays_forgotten :
  forall (Sz : N) (Hh : hash_fn) (i j : N) (n : nat) (pre ops : list fop),
  let s := fst (frun Sz Hh (net_init n) pre) in
  connected s i j = true ->
  tracks s i j = false ->
  Forall (fun o : fop => closes_pair i j o = false) ops ->
  let r := frun_h Sz Hh s ops in
  tracks (fst (fst r)) i j = false /\
  connected (fst (fst r)) i j = true /\ (forall m : wmsg, In m (h_entered (snd r)) -> w_between i j m = false).
Proof. exact (@NetF_props.P_C05_net_stays_forgotten). Qed.

Theorem C05_net_forgotten_peer_refuted :
  forall d : bool,
  let s := fst (frun SZ toyH (net_init 2) (pf_stay d)) in
  connected s 0 1 = true /\
  live_query 0 0 c1 s /\
  (exists (st : list (cid * bytes)) (dd : bytes), store_of s 1 = Some st /\ store_get st c1 = SHit dd) /\
  tracks s 0 1 = false /\
  tracks s 1 0 = true /\
  (let r1 := settle SZ toyH s in
   let r2 := refresh SZ toyH (fst r1) in
   let r3 := refresh SZ toyH (fst r2) in
   quietb (fst r1) = true /\
   quietb (fst r2) = true /\
   quietb (fst r3) = true /\
   (length (wl_i 0 (fst r1)) <= 1024)%nat /\
   ~ answered 0 0 (snd r1 ++ snd r2 ++ snd r3) /\
   tracks (fst r3) 0 1 = false /\ connected (fst r3) 0 1 = true /\ live_query 0 0 c1 (fst r3)).
Proof. exact (@NetF_props.P_C05_net_forgotten_peer_refuted). Qed.

Theorem C05_net_invariant_broken_by_fault_refuted :
  exists (s : net) (o : fop), RI SZ toyH s /\ ~ RI SZ toyH (fst (fstep SZ toyH s o)).
Proof. exact (@NetF_props.P_RI_fstep_refuted). Qed.

Theorem C05_net_clients_are_client_runs :
  forall (Sz : N) (Hh : hash_fn) (n : nat) (fops : list fop) (k : N) (nd : node),
  get_node (fst (frun Sz Hh (net_init n) fops)) k = Some nd ->
  exists cops : list cop, Forall cop_net cops /\ n_client nd = st_after true cops.
Proof. exact (@NetF_props.P_reachableF_client_trace). Qed.

Print Assumptions C05_net_self_heals.
Print Assumptions C05_net_self_heals_windowed.
Print Assumptions C05_net_episodic_run_is_fault_free_run.
Print Assumptions C05_net_windowed_run_is_fault_free_run.
Print Assumptions C05_net_settle_terminates_with_faults.
Print Assumptions C05_net_reconnect_fresh.
Print Assumptions C05_net_fault_forgets.
Print Assumptions C05_net_stays_forgotten.
Print Assumptions C05_net_forgotten_peer_refuted.
Print Assumptions C05_net_invariant_broken_by_fault_refuted.
Print Assumptions C05_net_clients_are_client_runs.

(* ---- trace level (package R): the oracle the correspondence harness evaluates on the IMPLEMENTATION (Corr_client.c5_run: faults from a Failed
   report of the sending connection, from an unacknowledged request noticed at a poll, and — from the ops alone — from a connection closed while a
   wantlist handed to it was never acknowledged; every wantlist sent to a peer with a pending fault must be full and avoid the faulty connection) is a
   THEOREM about Client.v for every history whose Failed reports name the connection they come from (what the handler does); without that contract it
   is refuted, and the contract-free corrected fold is proved and shown to agree.  A report that arrives from a connection after it was closed withdraws
   the fault (witness: the lost full wantlist becomes an ordinary update) — outside the swarm's contract, and the oracle does not alarm there. *)
From BS Require Import Types Wantlist Wantlist_proofs Client Client_proofs Client_proofs4 Corr_client
                       Client_proofs20 Client_proofs21 Client_proofs22 Client_proofs23 Client_props4.
From Coq Require Import ZArith List. Import ListNotations.
Open Scope N_scope.

Theorem C05_trace_fold_is_the_harness_oracle :
  forall (sdh : bool) (ops : list cop), c5_ok sdh ops = oracle_C05_faults (sdh, ops, model (sdh, ops)).
Proof. exact (@Client_props4.c5_ok_is_the_oracle). Qed.

Theorem C05_trace_closed_unacked :
  forall (sdh : bool) (ops : list cop), c5c_ok sdh ops = true.
Proof. exact (@Client_props4.C05_trace_closed_unacked). Qed.

Theorem C05_trace_closed_unacked_explicit :
  forall (sdh : bool) (a : list cop) (ch : list (peer * conn)) (b : list cop) (p : peer) 
    (c : conn) (f : bool) (es : list gen_entry) (d : list cop) (ch' : list (peer * conn)) 
    (c' : conn) (f' : bool) (es' : list gen_entry),
  In (OSendWantlist p c f es) (snd (c_poll (st_after sdh a) ch)) ->
  quiet p c (st_after sdh (a ++ [CPoll ch])) (b ++ [CConnClosed p c] ++ d) ->
  In (OSendWantlist p c' f' es')
    (snd (c_poll (st_after sdh ((a ++ [CPoll ch]) ++ b ++ [CConnClosed p c] ++ d)) ch')) ->
  f' = true /\ c' <> c.
Proof. exact (@Client_props4.C05_trace_closed_unacked_explicit). Qed.

Theorem C05_trace_late_report_after_close_refuted :
  let a := [CNewConn 7 1; CNewConn 7 2; CGet (Some ex_c1)] in
  let b := [CRelease 0 SMiss] in
  let d := [CReport 7 1 RpReady] in
  In (OSendWantlist 7 1 true []) (snd (c_poll (st_after true a) [(7, 1)])) /\
  quiet 7 1 (st_after true (a ++ [CPoll [(7, 1)]])) (b ++ [CConnClosed 7 1]) /\
  snd (c_poll (st_after true ((a ++ [CPoll [(7, 1)]]) ++ b ++ [CConnClosed 7 1] ++ d)) [(7, 2)]) =
  [OSendWantlist 7 2 false [(KWantHave, ex_c1)]] /\
  c5_ok true ((a ++ [CPoll [(7, 1)]]) ++ b ++ [CConnClosed 7 1] ++ d ++ [CPoll [(7, 2)]]) = true.
Proof. exact (@Client_props4.C05_trace_closed_unacked_refuted). Qed.

Theorem C05_trace_faults :
  forall (sdh : bool) (ops : list cop), env_ok ops = true -> c5_ok sdh ops = true.
Proof. exact (@Client_props4.C05_trace_faults). Qed.

Theorem C05_trace_faults_corrected :
  forall (sdh : bool) (ops : list cop), c5p_ok sdh ops = true.
Proof. exact (@Client_props4.C05_trace_faults_corrected). Qed.

Theorem C05_trace_corrected_agrees :
  forall (sdh : bool) (ops : list cop), env_ok ops = true -> c5p_ok sdh ops = c5_ok sdh ops.
Proof. exact (@Client_props4.c5p_ok_agrees). Qed.

Theorem C05_trace_faults_refuted :
  exists (sdh : bool) (ops : list cop),
    env_ok ops = false /\
    c5_ok sdh ops = false /\
    c5c_ok sdh ops = true /\
    c5p_ok sdh ops = true /\ outs_after sdh ops = [OSendWantlist 7 1 true []; OSendWantlist 7 1 true []].
Proof. exact (@Client_props4.C05_trace_faults_refuted). Qed.

Print Assumptions C05_trace_fold_is_the_harness_oracle.
Print Assumptions C05_trace_closed_unacked.
Print Assumptions C05_trace_closed_unacked_explicit.
Print Assumptions C05_trace_late_report_after_close_refuted.
Print Assumptions C05_trace_faults.
Print Assumptions C05_trace_faults_corrected.
Print Assumptions C05_trace_corrected_agrees.
Print Assumptions C05_trace_faults_refuted.
