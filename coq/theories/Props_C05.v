(* Props_C05.v — C05: wantlist delivery self-heals after any transmission fault. Behaviour side (Client.v): first wantlist of a session is full; after a Failed report or an unacknowledged request older than 1 s the next wantlist is full and avoids that connection; the refresh timer sets send_full for every peer each 30 s. Handler side (Handler.v): see the end of the file.
   Statements restated verbatim from the proof files and closed by `exact`; nothing else is proved here. *)
From BS Require Import Bytes Cid Proto Types Wantlist Client Client_proofs Client_proofs2 Client_proofs3 Client_proofs4 Tie_consts.
Open Scope N_scope.

Theorem C05_first_is_full sdh ops1 p c ops2 ch c' f es :
  al_find N.eqb p (cs_peers (st_after sdh ops1)) = None ->
  no_send_to p (skipn (length (outs_after sdh (ops1 ++ [CNewConn p c]))) (outs_after sdh (ops1 ++ [CNewConn p c] ++ ops2))) ->
  In (OSendWantlist p c' f es) (snd (c_poll (st_after sdh (ops1 ++ [CNewConn p c] ++ ops2)) ch)) -> f = true.
Proof. exact (Client_proofs4.C05_first_is_full sdh ops1 p c ops2 ch c' f es). Qed.

Theorem C05_full_after_fault sdh ops ch p ps c0 :
  let s := st_after sdh ops in
  al_find N.eqb p (cs_peers s) = Some ps ->
  (p_ss ps = SsFailed c0 \/ exists t, p_ss ps = SsRequested t c0 /\ (cs_now s - t <? RECEIVE_REQUEST_TIMEOUT) = false) ->
  (forall c f es, In (OSendWantlist p c f es) (snd (c_poll s ch)) -> f = true /\ c <> c0 /\ In c (p_conns ps)) /\
  ((exists c es, In (OSendWantlist p c true es) (snd (c_poll s ch))) \/
   al_find N.eqb p (cs_peers (fst (c_poll s ch))) = None).
Proof. exact (Client_proofs4.C05_full_after_fault sdh ops ch p ps c0). Qed.

Theorem C05_refresh sdh ops ch :
  let s := st_after sdh ops in
  timer_ready s = true ->
  cs_deadline (fst (c_poll s ch)) = cs_now s + SEND_FULL_INTERVAL /\
  forall p ps', al_find N.eqb p (cs_peers (fst (c_poll s ch))) = Some ps' ->
    p_send_full ps' = true \/ exists c es, In (OSendWantlist p c true es) (snd (c_poll s ch)).
Proof. exact (Client_proofs4.C05_refresh sdh ops ch). Qed.

Theorem C05_outstanding_is_left_alone sdh ops ch p ps :
  let s := st_after sdh ops in
  al_find N.eqb p (cs_peers s) = Some ps -> uh_gate (cs_now s) ps = None ->
  (forall c f es, ~ In (OSendWantlist p c f es) (snd (c_poll s ch))) /\
  exists ps', al_find N.eqb p (cs_peers (fst (c_poll s ch))) = Some ps' /\ p_ss ps' = p_ss ps /\ p_conns ps' = p_conns ps.
Proof. exact (Client_proofs4.C14_outstanding_blocks_poll sdh ops ch p ps). Qed.

Print Assumptions C05_first_is_full.
Print Assumptions C05_full_after_fault.
Print Assumptions C05_refresh.
Print Assumptions C05_outstanding_is_left_alone.
