(* Props_C05.v — C05: wantlist delivery self-heals after any transmission fault. Behaviour side (Client.v): first wantlist of a session is full; after a Failed report or an unacknowledged request older than 1 s the next wantlist is full and avoids that connection; the refresh timer sets send_full for every peer each 30 s. Handler side (Handler.v): see the end of the file.
   Statements restated verbatim from the proof files and closed by `exact`; nothing else is proved here. *)
From BS Require Import Bytes Cid Proto Types Wantlist Client Client_proofs Client_proofs2 Client_proofs3 Client_proofs4 Tie_consts.
From BS Require Import Tie_client.   (* tie lemmas: a source edit that changes what they extract breaks this file's closure *)
Open Scope N_scope.

Theorem C05_first_is_full sdh ops1 p c ops2 ch c' f es :
  al_find N.eqb p (cs_peers (st_after sdh ops1)) = None ->
  no_send_to p (skipn (length (outs_after sdh (ops1 ++ [CNewConn p c]))) (outs_after sdh (ops1 ++ [CNewConn p c] ++ ops2))) ->
  In (OSendWantlist p c' f es) (snd (c_poll (st_after sdh (ops1 ++ [CNewConn p c] ++ ops2)) ch)) -> f = true.
Proof. exact (Client_proofs4.C05_first_is_full sdh ops1 p c ops2 ch c' f es). Qed.

Theorem C05_full_after_fault sdh ops ch p ps c0 :
  let s := st_after sdh ops in
  al_find N.eqb p (cs_peers s) = Some ps ->
  (p_ss ps = SsFailed c0 \/ exists t, p_ss ps = SsRequested t c0 /\ (cs_now s - t <? RECEIVE_REQUEST_TIMEOUT) = false) ->
  (forall c f es, In (OSendWantlist p c f es) (snd (c_poll s ch)) -> f = true /\ c <> c0 /\ In c (p_conns ps)) /\
  ((exists c es, In (OSendWantlist p c true es) (snd (c_poll s ch))) \/
   al_find N.eqb p (cs_peers (fst (c_poll s ch))) = None).
Proof. exact (Client_proofs4.C05_full_after_fault sdh ops ch p ps c0). Qed.

Theorem C05_refresh sdh ops ch :
  let s := st_after sdh ops in
  timer_ready s = true ->
  cs_deadline (fst (c_poll s ch)) = cs_now s + SEND_FULL_INTERVAL /\
  forall p ps', al_find N.eqb p (cs_peers (fst (c_poll s ch))) = Some ps' ->
    p_send_full ps' = true \/ exists c es, In (OSendWantlist p c true es) (snd (c_poll s ch)).
Proof. exact (Client_proofs4.C05_refresh sdh ops ch). Qed.

Theorem C05_outstanding_is_left_alone sdh ops ch p ps :
  let s := st_after sdh ops in
  al_find N.eqb p (cs_peers s) = Some ps -> uh_gate (cs_now s) ps = None ->
  (forall c f es, ~ In (OSendWantlist p c f es) (snd (c_poll s ch))) /\
  exists ps', al_find N.eqb p (cs_peers (fst (c_poll s ch))) = Some ps' /\ p_ss ps' = p_ss ps /\ p_conns ps' = p_conns ps.
Proof. exact (Client_proofs4.C14_outstanding_blocks_poll sdh ops ch p ps). Qed.

Print Assumptions C05_first_is_full.
Print Assumptions C05_full_after_fault.
Print Assumptions C05_refresh.
Print Assumptions C05_outstanding_is_left_alone.

(* ---- handler side (package E, Handler.v): every fault after a wantlist was accepted ends in a Failed report:
   start-sending timeout, flush/write error, close of the connection while outstanding; a failed stream allocation is
   retried until the timeout. State-level statements; C05_handler_reports_ex (Handler_proofs) shows reachable states meet
   the hypotheses. *)
From BS Require Import Bytes Types FramedWrite Handler Handler_proofs.
Open Scope N_scope.

Theorem C05_handler_reports :
  forall encode : message -> bytes,
  (forall (st : hstate) (s : list io),
   h_halted st = false ->
   timeout_fired st = true ->
   last_state (h_queue st) <> Some (SsFailed (h_conn st)) ->
   (last_state (h_queue st) = None -> h_sending st <> SsFailed (h_conn st)) ->
   (forall x : sending_state, last_state (h_queue st) = Some x -> h_sending st = x) ->
   let r := do_poll encode st s in
   In (HReport (RpFailed (h_conn st))) (snd r) /\
   h_halted (fst r) = true /\
   h_msg (fst r) = None /\ h_sink (fst r) = SkNone /\ h_timeout (fst r) = None /\ h_queue (fst r) = []) /\
  (forall (st : hstate) (s : list io) (id : N) (buf : bytes),
   h_queue st = [] ->
   h_halted st = false ->
   timeout_fired st = false ->
   h_msg st = None ->
   h_sink st = SkReady id buf ->
   h_sending st <> SsFailed (h_conn st) ->
   fr_res (fw_poll_flush buf s) = PrErr ->
   let r := do_poll encode st s in
   snd r =
   map (hout_of_sev id) (fr_evs (fw_poll_flush buf s)) ++ [HDropped id; HReport (RpFailed (h_conn st))] /\
   h_sink (fst r) = SkNone /\ h_sending (fst r) = SsFailed (h_conn st) /\ h_halted (fst r) = false) /\
  (forall (st : hstate) (s : list io),
   h_panicked st = false ->
   h_closing st = false ->
   (exists (t : time) (c : conn), h_sending st = SsRequestReceived t c \/ h_sending st = SsSending t c) ->
   let r := hstep encode st (HPollClose s) in
   (exists pre : list hout, snd r = pre ++ [HReport (RpFailed (h_conn st)); HClosing]) /\
   h_msg (fst r) = None /\
   h_sink (fst r) = SkNone /\
   h_closing (fst r) = true /\ h_sending (fst r) = SsFailed (h_conn st) /\ h_queue (fst r) = []) /\
  (forall (st : hstate) (s : list io) (m : message),
   h_panicked st = false ->
   h_queue st = [] ->
   h_halted st = false ->
   h_msg st = Some m ->
   h_sink st = SkRequested ->
   let st1 := fst (hstep encode st HAllocFailed) in
   let r := hstep encode st1 (HPoll s) in
   snd (hstep encode st HAllocFailed) = [] /\
   (timeout_fired st = false ->
    snd r = [HOpenStream] /\
    h_sink (fst r) = SkRequested /\ h_msg (fst r) = Some m /\ h_halted (fst r) = false) /\
   (timeout_fired st = true ->
    h_sending st <> SsFailed (h_conn st) ->
    In (HReport (RpFailed (h_conn st))) (snd r) /\ h_halted (fst r) = true)).
Proof. exact (@Handler_proofs.C05_handler_reports). Qed.

Theorem C05_timeout_reports_failed :
  forall (encode : message -> bytes) (st : hstate) (s : list io),
  h_halted st = false ->
  timeout_fired st = true ->
  last_state (h_queue st) <> Some (SsFailed (h_conn st)) ->
  (last_state (h_queue st) = None -> h_sending st <> SsFailed (h_conn st)) ->
  (forall x : sending_state, last_state (h_queue st) = Some x -> h_sending st = x) ->
  let r := do_poll encode st s in
  In (HReport (RpFailed (h_conn st))) (snd r) /\
  h_halted (fst r) = true /\
  h_msg (fst r) = None /\ h_sink (fst r) = SkNone /\ h_timeout (fst r) = None /\ h_queue (fst r) = [].
Proof. exact (@Handler_proofs.C05_timeout_reports_failed). Qed.

Theorem C05_flush_error_reports_failed :
  forall (encode : message -> bytes) (st : hstate) (s : list io) (id : N) (buf : bytes),
  h_queue st = [] ->
  h_halted st = false ->
  timeout_fired st = false ->
  h_msg st = None ->
  h_sink st = SkReady id buf ->
  h_sending st <> SsFailed (h_conn st) ->
  fr_res (fw_poll_flush buf s) = PrErr ->
  let r := do_poll encode st s in
  snd r = map (hout_of_sev id) (fr_evs (fw_poll_flush buf s)) ++ [HDropped id; HReport (RpFailed (h_conn st))] /\
  h_sink (fst r) = SkNone /\ h_sending (fst r) = SsFailed (h_conn st) /\ h_halted (fst r) = false.
Proof. exact (@Handler_proofs.C05_flush_error_reports_failed). Qed.

Theorem C05_close_reports_failed :
  forall (encode : message -> bytes) (st : hstate) (s : list io),
  h_panicked st = false ->
  h_closing st = false ->
  (exists (t : time) (c : conn), h_sending st = SsRequestReceived t c \/ h_sending st = SsSending t c) ->
  let r := hstep encode st (HPollClose s) in
  (exists pre : list hout, snd r = pre ++ [HReport (RpFailed (h_conn st)); HClosing]) /\
  h_msg (fst r) = None /\
  h_sink (fst r) = SkNone /\
  h_closing (fst r) = true /\ h_sending (fst r) = SsFailed (h_conn st) /\ h_queue (fst r) = [].
Proof. exact (@Handler_proofs.C05_close_reports_failed). Qed.

Theorem C05_alloc_failure_retries :
  forall (encode : message -> bytes) (st : hstate) (s : list io) (m : message),
  h_panicked st = false ->
  h_queue st = [] ->
  h_halted st = false ->
  h_msg st = Some m ->
  h_sink st = SkRequested ->
  let st1 := fst (hstep encode st HAllocFailed) in
  let r := hstep encode st1 (HPoll s) in
  snd (hstep encode st HAllocFailed) = [] /\
  (timeout_fired st = false ->
   snd r = [HOpenStream] /\ h_sink (fst r) = SkRequested /\ h_msg (fst r) = Some m /\ h_halted (fst r) = false) /\
  (timeout_fired st = true ->
   h_sending st <> SsFailed (h_conn st) ->
   In (HReport (RpFailed (h_conn st))) (snd r) /\ h_halted (fst r) = true).
Proof. exact (@Handler_proofs.C05_alloc_failure_retries). Qed.

Print Assumptions C05_handler_reports.
Print Assumptions C05_timeout_reports_failed.
Print Assumptions C05_flush_error_reports_failed.
Print Assumptions C05_close_reports_failed.
Print Assumptions C05_alloc_failure_retries.

(* ---- lifted to networks (package K): after the NConnect that establishes a connection the first wantlist either end
   hands to it is a full one (the fault clauses are vacuous under Net.v's atomic delivery and stay client-level). *)
From BS Require Import Types Wantlist Wantlist_proofs2 Client Client_proofs Client_proofs4 Net Net_proofs Net_proofs6 Net_props Net_proofs2 Net_proofs5 Net_proofs21 Net_proofs40 Net_proofs41 Net_proofs42 Net_proofs43 Net_proofs44 Net_proofs45 Net_proofs46 Net_proofs47 Server Net_props4.
From Coq Require Import ZArith Lia.
Open Scope N_scope.

Theorem C05_net_first_is_full :
  forall (Sz : N) (Hh : hash_fn) (n : nat) (ops1 : list nop) (a b : N) (ops2 : list nop) 
    (i j : N) (m : wmsg) (rest : list wmsg),
  let s1 := fst (nrun Sz Hh (net_init n) ops1) in
  let s2 := fst (nstep Sz Hh s1 (NConnect a b)) in
  i = a /\ j = b \/ i = b /\ j = a ->
  Net.connected s1 a b = false ->
  Net.connected s2 a b = true ->
  filter (fun m0 : wmsg => wm_dst m0 =? j) (wsent_run Sz Hh s2 ops2 i) = m :: rest -> wm_full m = true.
Proof. exact (@Net_props4.C05_net_first_is_full). Qed.

Print Assumptions C05_net_first_is_full.
