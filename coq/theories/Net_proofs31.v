(* Net_proofs31.v — package J, part 9: the shape of a fair round.  No step of the schedule raises `HH`; after a round nothing
   is in flight and no store call is outstanding (`cleanb`); every node is polled exactly once, in the state it had when the
   round began. *)
From BS Require Import Server_lemmas Server_inv Wantlist_proofs Client_proofs Client_proofs2 Client_proofs3 Client_proofs4
  Client_proofs8 Net Net_proofs2 Net_proofs3 Net_proofs4 Net_proofs5 Net_proofs6 Net_proofs7 Net_proofs9 Net_proofs10 Net_proofs11
  Net_proofs23 Net_proofs24 Net_proofs25 Net_proofs26 Net_proofs27 Net_proofs28 Net_proofs29 Net_proofs30.
From Coq Require Import ZArith ZifyBool ZifyN ZifyNat Lia.
Open Scope nat_scope.

Section RoundShape.
  Variables (Sz : N) (Hh : hash_fn).
  Hypothesis HSz : (32 <= Sz)%N.
  Local Notation RI := (RI Sz Hh).

  (* ---------- HH never rises ---------- *)
  Lemma HH_step s o : sched o -> RI s -> HH (fst (nstep Sz Hh s o)) <= HH s.
  Proof.
    intros Ho HR. destruct o; try destruct Ho.
    - cbn [nstep]. destruct (get_node s i) as [n|] eqn:Hg; [|unfold do_poll; rewrite Hg; cbn [fst]; lia].
      destruct (HH_poll Sz Hh HSz s i n (proj1 HR) (RI_INVT Sz Hh s i n HR Hg) Hg) as (sC & outsC & _ & H & _). lia.
    - apply (HH_store Sz Hh HSz).
    - apply (HH_deliver_w Sz Hh HSz).
    - apply (HH_deliver_b Sz Hh HSz). apply HR.
  Qed.

  Lemma HH_run ops : Forall sched ops -> forall s, RI s -> HH (fst (nrun Sz Hh s ops)) <= HH s.
  Proof.
    induction 1 as [|o ops Ho _ IH]; intros s HR; [cbn; lia|].
    rewrite (nrun_cons Sz Hh). cbn [fst]. specialize (IH _ (RI_step Sz Hh HSz s o Ho HR)). pose proof (HH_step s o Ho HR). lia.
  Qed.

  Lemma RI_run ops : Forall sched ops -> forall s, RI s -> RI (fst (nrun Sz Hh s ops)).
  Proof. intros Hs s HR. apply (Phi_run Sz Hh HSz ops Hs s HR). Qed.

  (* ---------- after the store phase no call is outstanding ---------- *)
  Definition calls_nil (s : net) : Prop := forall k n, get_node s k = Some n -> n_calls n = [].

  Lemma store_other s i k0 k : i <> k -> get_node (fst (nstep Sz Hh s (NStore i k0))) k = get_node s k.
  Proof.
    intros Hne. cbn [nstep fst]. unfold on_node. destruct (get_node s i) as [n|] eqn:E; [|reflexivity]. apply get_set_neq. exact Hne.
  Qed.

  Lemma store_wires_eq s i k0 :
    wire_w (fst (nstep Sz Hh s (NStore i k0))) = wire_w s /\ wire_b (fst (nstep Sz Hh s (NStore i k0))) = wire_b s /\
    length (nodes (fst (nstep Sz Hh s (NStore i k0)))) = length (nodes s).
  Proof.
    cbn [nstep fst]. unfold on_node. destruct (get_node s i); [|auto]. cbn [set_node wire_w wire_b nodes]. rewrite set_nth_length. auto.
  Qed.

  Lemma store_rep m : forall s i n,
    get_node s i = Some n -> length (n_calls n) = m ->
    let s' := fst (nrun Sz Hh s (repeat (NStore i 0) m)) in
    (exists n', get_node s' i = Some n' /\ n_calls n' = []) /\ (forall k, k <> i -> get_node s' k = get_node s k).
  Proof.
    induction m as [|m IH]; intros s i n Hg Hl; cbn zeta; cbn [repeat].
    - cbn [nrun fst]. split; [exists n; split; [exact Hg | destruct (n_calls n); [reflexivity | discriminate]]|auto].
    - rewrite (nrun_cons Sz Hh). cbn [fst].
      assert (Hg1 : get_node (fst (nstep Sz Hh s (NStore i 0))) i = Some (node_store Sz n 0)).
      { cbn [nstep fst]. unfold on_node. rewrite Hg. apply (get_set_eq _ _ _ _ Hg). }
      assert (Hl1 : length (n_calls (node_store Sz n 0)) = m).
      { unfold node_store. change (N.to_nat 0) with 0. destruct (n_calls n) as [|c cs] eqn:Ec; [discriminate|]. cbn [nth_error remove_nth].
        cbn [length] in Hl. destruct c; cbn [n_calls]; lia. }
      destruct (IH _ i _ Hg1 Hl1) as [H1 H2]. cbn zeta in *. split; [exact H1|].
      intros k Hne. rewrite H2 by exact Hne. apply store_other. congruence.
  Qed.

  Lemma stores_from l : forall from s,
    (forall idx n, nth_error l idx = Some n -> get_node s (from + N.of_nat idx)%N = Some n) ->
    let s' := fst (nrun Sz Hh s (flat_map (fun x : N * node => repeat (NStore (fst x) 0) (length (n_calls (snd x)))) (combine (seqN from (length l)) l))) in
    (forall idx n, nth_error l idx = Some n -> exists n', get_node s' (from + N.of_nat idx)%N = Some n' /\ n_calls n' = []) /\
    (forall k, (k < from)%N -> get_node s' k = get_node s k).
  Proof.
    induction l as [|x l IH]; intros from s Hl; cbn zeta; cbn [length seqN combine flat_map fst snd].
    - cbn [nrun fst]. split; [intros idx n H; destruct idx; discriminate | auto].
    - rewrite (nrun_app Sz Hh). cbn [fst].
      assert (Hgx : get_node s from = Some x) by (specialize (Hl 0 x eq_refl); replace (from + N.of_nat 0)%N with from in Hl by lia; exact Hl).
      destruct (store_rep (length (n_calls x)) s from x Hgx eq_refl) as [(x' & Hx' & Hc') Hoth]. cbn zeta in *.
      set (s1 := fst (nrun Sz Hh s (repeat (NStore from 0) (length (n_calls x))))) in *.
      destruct (IH (from + 1)%N s1) as [I1 I2].
      { intros idx n Hn. rewrite Hoth by lia. specialize (Hl (S idx) n Hn). replace (from + 1 + N.of_nat idx)%N with (from + N.of_nat (S idx))%N by lia. exact Hl. }
      cbn zeta in *. split.
      + intros [|idx] n Hn; cbn [nth_error] in Hn.
        * injection Hn as <-. exists x'. split; [|exact Hc']. replace (from + N.of_nat 0)%N with from by lia. rewrite I2 by lia. exact Hx'.
        * destruct (I1 idx n Hn) as (n' & Hg' & Hc). exists n'. split; [|exact Hc]. replace (from + N.of_nat (S idx))%N with (from + 1 + N.of_nat idx)%N by lia. exact Hg'.
      + intros k Hk. rewrite I2 by lia. apply Hoth. lia.
  Qed.

  Lemma stores_length ops : (forall o, In o ops -> exists i k, o = NStore i k) -> forall s,
    length (nodes (fst (nrun Sz Hh s ops))) = length (nodes s).
  Proof.
    induction ops as [|o ops IH]; intros Hsh s; [reflexivity|].
    rewrite (nrun_cons Sz Hh). cbn [fst]. destruct (Hsh o (or_introl eq_refl)) as (i & k & ->).
    rewrite IH by (intros o' H'; apply Hsh; right; exact H'). apply store_wires_eq.
  Qed.

  Lemma stores_clean s : calls_nil (fst (nrun Sz Hh s (stores_of s))).
  Proof.
    destruct (stores_from (nodes s) 0%N s) as [H1 _].
    { intros idx n Hn. unfold get_node. replace (N.to_nat (0 + N.of_nat idx)) with idx by lia. exact Hn. }
    cbn zeta in H1. fold (stores_of s) in H1. intros k n Hg.
    assert (Hlen : length (nodes (fst (nrun Sz Hh s (stores_of s)))) = length (nodes s)) by (apply stores_length; apply stores_of_shape).
    pose proof (get_node_lt _ k n Hg) as Hlt. rewrite Hlen in Hlt.
    destruct (nth_error (nodes s) (N.to_nat k)) as [n0|] eqn:E0; [|apply nth_error_None in E0; lia].
    destruct (H1 (N.to_nat k) n0 E0) as (n' & Hg' & Hc). replace (0 + N.of_nat (N.to_nat k))%N with k in Hg' by lia. congruence.
  Qed.

  (* ---------- the delivery phase empties the wires and starts no call ---------- *)
  Lemma deliver_w_calls s i j : calls_nil s -> calls_nil (fst (nstep Sz Hh s (NDeliverW i j))).
  Proof.
    intros H. cbn [nstep fst]. unfold do_deliver_w. destruct (take_first (w_between i j) (wire_w s)) as [[m rest]|]; [|exact H].
    set (s0 := MkNet (nodes s) (conns s) rest (wire_b s) (now s)). assert (H0 : calls_nil s0) by exact H.
    destruct (get_node s0 i) as [ni|] eqn:Ei; [|exact H0]. destruct (get_node s0 j) as [nj|] eqn:Ej; [|exact H0].
    assert (Hinc : forall msg, n_calls (fst (node_incoming Sz Hh nj i msg)) = n_calls nj).
    { intros msg. unfold node_incoming. destruct (process_message Sz Hh msg) as [inc| |]; try reflexivity. destruct (in_client inc) as [cm|].
      - destruct (cstep (n_client nj) _) as [c1 o1]. reflexivity.
      - reflexivity. }
    specialize (Hinc (wantlist_message (wl_sdh (cs_wl (n_client ni))) (wm_full m) (wm_entries m))).
    destruct (node_incoming Sz Hh nj i (wantlist_message (wl_sdh (cs_wl (n_client ni))) (wm_full m) (wm_entries m))) as [nj1 evs]. cbn [fst] in *.
    assert (H1 : calls_nil (set_node s0 j nj1)).
    { intros k n Hk. destruct (N.eq_dec j k) as [<-|Hne]; [rewrite (get_set_eq _ _ _ _ Ej) in Hk; injection Hk as <-; rewrite Hinc; apply (H0 _ _ Ej) | rewrite get_set_neq in Hk by exact Hne; apply (H0 _ _ Hk)]. }
    intros k n Hk. unfold on_node in Hk. destruct (get_node (set_node s0 j nj1) i) as [n1|] eqn:E1; [|apply (H1 _ _ Hk)].
    destruct (N.eq_dec i k) as [<-|Hne]; [rewrite (get_set_eq _ _ _ _ E1) in Hk; injection Hk as <-; apply (H1 _ _ E1) | rewrite get_set_neq in Hk by exact Hne; apply (H1 _ _ Hk)].
  Qed.

  Lemma deliver_w_wires s i j m rest :
    take_first (w_between i j) (wire_w s) = Some (m, rest) ->
    wire_w (fst (nstep Sz Hh s (NDeliverW i j))) = rest /\ wire_b (fst (nstep Sz Hh s (NDeliverW i j))) = wire_b s.
  Proof.
    intros Et. cbn [nstep fst]. unfold do_deliver_w. rewrite Et. set (s0 := MkNet (nodes s) (conns s) rest (wire_b s) (now s)).
    destruct (get_node s0 i) as [ni|]; [|auto]. destruct (get_node s0 j) as [nj|]; [|auto].
    destruct (node_incoming Sz Hh nj i (wantlist_message (wl_sdh (cs_wl (n_client ni))) (wm_full m) (wm_entries m))) as [nj1 evs]. cbn [fst].
    unfold on_node. destruct (get_node (set_node s0 j nj1) i); auto.
  Qed.

  Lemma deliver_b_calls s j i : calls_nil s -> calls_nil (fst (nstep Sz Hh s (NDeliverB j i))).
  Proof.
    intros H. cbn [nstep fst]. unfold do_deliver_b. destruct (take_first (b_between j i) (wire_b s)) as [[m rest]|]; [|exact H].
    destruct (get_node s i) as [ni|] eqn:Ei; [|exact H].
    assert (Hinc : forall msg, n_calls (fst (node_incoming Sz Hh ni j msg)) = n_calls ni).
    { intros msg. unfold node_incoming. destruct (process_message Sz Hh msg) as [inc| |]; try reflexivity. destruct (in_client inc) as [cm|].
      - destruct (cstep (n_client ni) _) as [c1 o1]. reflexivity.
      - reflexivity. }
    specialize (Hinc (blocks_message (bm_blocks m))). destruct (node_incoming Sz Hh ni j (blocks_message (bm_blocks m))) as [ni1 evs]. cbn [fst] in *.
    intros k n Hk. unfold get_node in Hk. cbn [nodes] in Hk. destruct (N.eq_dec i k) as [<-|Hne].
    - rewrite nth_set_nth_eq in Hk by (eapply get_node_lt; exact Ei). injection Hk as <-. rewrite Hinc. apply (H _ _ Ei).
    - rewrite nth_set_nth_neq in Hk by lia. apply (H _ _ Hk).
  Qed.

  Lemma deliver_b_wires s j i m rest :
    take_first (b_between j i) (wire_b s) = Some (m, rest) ->
    wire_b (fst (nstep Sz Hh s (NDeliverB j i))) = rest /\ wire_w (fst (nstep Sz Hh s (NDeliverB j i))) = wire_w s.
  Proof.
    intros Et. cbn [nstep fst]. unfold do_deliver_b. rewrite Et. destruct (get_node s i) as [ni|]; [|auto].
    destruct (node_incoming Sz Hh ni j (blocks_message (bm_blocks m))) as [ni1 evs]. auto.
  Qed.

  Lemma deliveries_w_clean l : forall s, wire_w s = l -> calls_nil s ->
    let s' := fst (nrun Sz Hh s (map (fun m => NDeliverW (wm_src m) (wm_dst m)) l)) in
    wire_w s' = [] /\ wire_b s' = wire_b s /\ calls_nil s'.
  Proof.
    induction l as [|m r IH]; intros s Hw Hc; cbn zeta; cbn [map]; [cbn [nrun fst]; auto|].
    rewrite (nrun_cons Sz Hh). cbn [fst].
    assert (Et : take_first (w_between (wm_src m) (wm_dst m)) (wire_w s) = Some (m, r)).
    { rewrite Hw. cbn [take_first]. unfold w_between. rewrite !N.eqb_refl. reflexivity. }
    destruct (deliver_w_wires s _ _ m r Et) as [E1 E2].
    destruct (IH _ E1 (deliver_w_calls s _ _ Hc)) as (I1 & I2 & I3). cbn zeta in *. split; [exact I1|]. split; [congruence | exact I3].
  Qed.

  Lemma deliveries_b_clean l : forall s, wire_b s = l -> calls_nil s ->
    let s' := fst (nrun Sz Hh s (map (fun m => NDeliverB (bm_src m) (bm_dst m)) l)) in
    wire_b s' = [] /\ wire_w s' = wire_w s /\ calls_nil s'.
  Proof.
    induction l as [|m r IH]; intros s Hw Hc; cbn zeta; cbn [map]; [cbn [nrun fst]; auto|].
    rewrite (nrun_cons Sz Hh). cbn [fst].
    assert (Et : take_first (b_between (bm_src m) (bm_dst m)) (wire_b s) = Some (m, r)).
    { rewrite Hw. cbn [take_first]. unfold b_between. rewrite !N.eqb_refl. reflexivity. }
    destruct (deliver_b_wires s _ _ m r Et) as [E1 E2].
    destruct (IH _ E1 (deliver_b_calls s _ _ Hc)) as (I1 & I2 & I3). cbn zeta in *. split; [exact I1|]. split; [congruence | exact I3].
  Qed.

  Lemma cleanb_spec s : cleanb s = true <-> wire_w s = [] /\ wire_b s = [] /\ calls_nil s.
  Proof.
    unfold cleanb. rewrite !andb_true_iff, forallb_forall. split.
    - intros [[H1 H2] H3]. split; [destruct (wire_w s); [reflexivity | discriminate]|]. split; [destruct (wire_b s); [reflexivity | discriminate]|].
      intros k n Hg. specialize (H3 n (nth_error_In _ _ Hg)). destruct (n_calls n); [reflexivity | discriminate].
    - intros (-> & -> & H3). split; [split; reflexivity|]. intros n Hin. apply In_nth_error in Hin. destruct Hin as (idx & Hidx).
      rewrite (H3 (N.of_nat idx) n); [reflexivity|]. unfold get_node. rewrite Nat2N.id. exact Hidx.
  Qed.

  Theorem round_clean s : cleanb (fst (round Sz Hh s)) = true.
  Proof.
    unfold round. destruct (nrun Sz Hh s (polls_of s)) as [s1 e1]. pose proof (stores_clean s1) as Hc.
    destruct (nrun Sz Hh s1 (stores_of s1)) as [s2 e2]. cbn [fst] in *.
    unfold deliveries_of.
    assert (E : nrun Sz Hh s2 (map (fun m => NDeliverW (wm_src m) (wm_dst m)) (wire_w s2) ++ map (fun m => NDeliverB (bm_src m) (bm_dst m)) (wire_b s2))
                = (fst (nrun Sz Hh (fst (nrun Sz Hh s2 (map (fun m => NDeliverW (wm_src m) (wm_dst m)) (wire_w s2)))) (map (fun m => NDeliverB (bm_src m) (bm_dst m)) (wire_b s2))),
                   snd (nrun Sz Hh s2 (map (fun m => NDeliverW (wm_src m) (wm_dst m)) (wire_w s2))) ++
                   snd (nrun Sz Hh (fst (nrun Sz Hh s2 (map (fun m => NDeliverW (wm_src m) (wm_dst m)) (wire_w s2)))) (map (fun m => NDeliverB (bm_src m) (bm_dst m)) (wire_b s2)))))
      by apply (nrun_app Sz Hh).
    destruct (nrun Sz Hh s2 (map (fun m => NDeliverW (wm_src m) (wm_dst m)) (wire_w s2) ++ map (fun m => NDeliverB (bm_src m) (bm_dst m)) (wire_b s2))) as [s3 e3].
    injection E as -> _. cbn [fst].
    destruct (deliveries_w_clean (wire_w s2) s2 eq_refl Hc) as (W1 & W2 & W3). cbn zeta in *.
    destruct (deliveries_b_clean (wire_b s2) _ W2 W3) as (B1 & B2 & B3). cbn zeta in *.
    apply cleanb_spec. split; [congruence|]. split; [exact B1 | exact B3].
  Qed.
End RoundShape.
