(* NetB_proofs3.v — package S, part 3: the scenario.  B (node 1) holds c1, A (node 0) asks; B's reply is queued and then LOST
   while the connection stays up.  `settle` alone leaves the query unanswered in a quiet net (A's record of B says
   "WANT_HAVE c1 sent", B forgot the want when it handed the block to its handler): `C02_block_loss_needs_refresh_refuted`,
   the twin of Net_proofs `ex_gap_events`.  The refresh repairs it (B looks the block up again and sends a second copy). *)
From BS Require Import Server_inv Net Net_proofs Net_proofs5 Net_proofs7 Net_proofs9 Net_proofs10 Net_proofs24 Net_proofs28
  Net_props NetB NetB_proofs NetB_proofs2.
From Coq Require Import ZArith Lia.
Open Scope N_scope.

Definition loss_pre : list bop :=
  map BOp [NPut 1 c1 d1; NConnect 0 1; NGet 0 c1; NPoll 0; NStore 0 0; NDeliverW 0 1; NPoll 0; NDeliverW 0 1;
           NPoll 1; NStore 1 0; NPoll 1].
Definition loss_ops : list bop := loss_pre ++ [BLoseB 1 0].
Definition loss_s0 : net := fst (brun SZ toyH (net_init 2) loss_pre).
Definition loss_s : net := fst (brun SZ toyH (net_init 2) loss_ops).
Definition loss_r1 := settle SZ toyH loss_s.
Definition loss_r2 := refresh SZ toyH (fst loss_r1).
(* the refresh, step by step, up to the delivery of the second copy *)
Definition resend_ops : list nop :=
  [NAdvance SEND_FULL_INTERVAL; NPoll 0; NDeliverW 0 1; NPoll 1; NStore 1 0; NPoll 1; NDeliverB 1 0; NPoll 0].

Lemma loss_ops_good : Forall (nop_good SZ toyH) (base_ops loss_ops) /\ Forall (nop_wf SZ) (base_ops loss_ops).
Proof.
  split.
  - cbn [loss_ops loss_pre map app base_ops]. constructor; [split; [apply Net_props.c1_wf | vm_compute; reflexivity]|].
    repeat (constructor; [exact I|]). constructor.
  - cbn [loss_ops loss_pre map app base_ops]. do 2 (constructor; [exact I|]). constructor; [apply Net_props.c1_wf|].
    repeat (constructor; [exact I|]). constructor.
Qed.

(* the scenario, observed *)
Example loss_scenario :
  (* B's reply is in flight, then lost; the connection stays *)
  (next_batch loss_s0 1 0, wire_b loss_s, Net.connected loss_s 0 1) = (Some (MkB 1 0 [(c1, d1)]), [], true) /\
  (* A still waits, B still holds the block but has forgotten the want *)
  (option_map (fun n => cs_c2q (n_client n)) (get_node loss_s 0),
   option_map (fun n => store_get (n_store n) c1) (get_node loss_s 1),
   option_map (fun n => s_wants (n_server n)) (get_node loss_s 1)) = (Some [(c1, [0])], Some (SHit d1), Some [(0, [])]) /\
  (* settle: quiet, nothing, A still waits; refresh: answered *)
  (snd loss_r1, quietb (fst loss_r1), option_map (fun n => cs_c2q (n_client n)) (get_node (fst loss_r1) 0))
    = ([], true, Some [(c1, [0])]) /\
  (snd loss_r2, quietb (fst loss_r2)) = ([EResponse 0 0 d1], true) /\
  (* the refresh step by step: B queues a SECOND batch with c1 for A, its delivery (and the next poll of A) answers the query *)
  (entered_b SZ toyH (fst loss_r1) resend_ops, snd (nrun SZ toyH (fst loss_r1) resend_ops))
    = ([MkB 1 0 [(c1, d1)]], [EResponse 0 0 d1]).
Proof.
  split; [vm_compute; reflexivity|]. split; [vm_compute; reflexivity|]. split; [vm_compute; reflexivity|].
  split; [vm_compute; reflexivity|]. vm_compute; reflexivity.
Qed.

(* ---------- without the refresh the lost reply is not repaired ---------- *)
Theorem C02_block_loss_needs_refresh_refuted :
  exists n ops i j q c,
    Forall (nop_good SZ toyH) (base_ops ops) /\ Forall (nop_wf SZ) (base_ops ops) /\
    let s := fst (brun SZ toyH (net_init n) ops) in
    live_query i q c s /\ Net.connected s i j = true /\
    (exists st d, store_of s j = Some st /\ store_get st c = SHit d) /\
    let r1 := settle SZ toyH s in
    quietb (fst r1) = true /\ ~ answered i q (snd r1) /\ live_query i q c (fst r1).
Proof.
  exists 2%nat, loss_ops, 0, 1, 0, c1. split; [apply loss_ops_good|]. split; [apply loss_ops_good|]. cbv zeta.
  split; [|split; [|split; [|split; [|split]]]].
  - eexists _, _. split; [vm_compute; reflexivity|]. split; [left; reflexivity | left; reflexivity].
  - vm_compute. reflexivity.
  - eexists _, _. split; vm_compute; reflexivity.
  - vm_compute. reflexivity.
  - intros (d & Hd). revert Hd.
    assert (E : snd (settle SZ toyH (fst (brun SZ toyH (net_init 2) loss_ops))) = []) by (vm_compute; reflexivity).
    rewrite E. intros [].
  - eexists _, _. split; [vm_compute; reflexivity|]. split; [left; reflexivity | left; reflexivity].
Qed.

(* ---------- non-vacuity of C02_direct_with_block_loss / C14_records_equal_with_block_loss ---------- *)
Example C02_direct_with_block_loss_nonvacuous :
  let s := fst (brun SZ toyH (net_init 2) loss_ops) in
  Forall (nop_good SZ toyH) (base_ops loss_ops) /\ Forall (nop_wf SZ) (base_ops loss_ops) /\
  live_query 0 0 c1 s /\ Net.connected s 0 1 = true /\
  (exists st d, store_of s 1 = Some st /\ store_get st c1 = SHit d) /\
  (length (wl_i 0 (fst (settle SZ toyH s))) <= 1024)%nat /\
  snd (settle SZ toyH s) ++ snd (refresh SZ toyH (fst (settle SZ toyH s))) = [EResponse 0 0 d1].
Proof.
  cbv zeta. split; [apply loss_ops_good|]. split; [apply loss_ops_good|]. split; [|split; [|split; [|split]]].
  - eexists _, _. split; [vm_compute; reflexivity|]. split; [left; reflexivity | left; reflexivity].
  - vm_compute. reflexivity.
  - eexists _, _. split; vm_compute; reflexivity.
  - vm_compute. lia.
  - vm_compute. reflexivity.
Qed.
