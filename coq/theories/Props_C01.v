(* Props_C01.v — C01: delivered and stored blocks always match the requested CID. process_message part: Incoming_proofs (every accepted block is keyed by the CID rebuilt from prefix + table answer); client part: Client_proofs2.
   Statements restated verbatim from the proof files and closed by `exact`; nothing else is proved here. *)
From BS Require Import Bytes Cid Prefix Hasher Proto Incoming Incoming_proofs Types Wantlist Client Client_proofs Client_proofs2.
From BS Require Import Tie_node.   (* tie lemmas: a source edit that changes what they extract breaks this file's closure *)
Open Scope N_scope.

Theorem C01_accepted_blocks_rebuilt S H m inc cm c d :
  process_message S H m = PmOk inc -> in_client inc = Some cm -> In (c, d) (cm_blocks cm) ->
  rebuilt S H (m_payload m) c d.
Proof. exact (Incoming_proofs.process_blocks_rebuilt S H m inc cm c d). Qed.

Theorem C01_unwanted_ignored sdh ops p pres b1 c data b2 :
  let s := st_after sdh ops in
  cid_mem c (wl_cids (cs_wl s)) = false ->
  cstep s (CIncoming p pres (b1 ++ (c, data) :: b2)) = cstep s (CIncoming p pres (b1 ++ b2)).
Proof. exact (Client_proofs2.C01_unwanted_ignored sdh ops p pres b1 c data b2). Qed.

Theorem C01_response_is_wanted_block sdh ops q data :
  In (OResponse q data) (outs_after sdh ops) ->
  (exists p pres blocks c, In (CIncoming p pres blocks) ops /\ In (c, data) blocks /\ qcid ops q = Some c) \/
  (exists call, In (CRelease call (SHit data)) ops).
Proof. exact (Client_proofs2.C01_response_is_wanted_block sdh ops q data). Qed.

Theorem C01_put_only_accepted sdh ops n bl :
  In (OPut n bl) (outs_after sdh ops) ->
  exists ops1 p pres blocks ops2,
    ops = ops1 ++ CIncoming p pres blocks :: ops2 /\ incl bl blocks /\
    forall c d, In (c, d) bl -> In c (wl_cids (cs_wl (st_after sdh ops1))).
Proof. exact (Client_proofs2.C01_put_only_accepted sdh ops n bl). Qed.

Theorem C01_new_blocks_only_stored sdh ops nb b :
  In (ONewBlocks nb) (outs_after sdh ops) -> In b nb ->
  exists n bl r, In (OPut n bl) (outs_after sdh ops) /\ In (CRelease n r) ops /\ r <> SFail /\ In b bl.
Proof. exact (Client_proofs2.C01_new_blocks_only_stored sdh ops nb b). Qed.

Print Assumptions C01_accepted_blocks_rebuilt.
Print Assumptions C01_unwanted_ignored.
Print Assumptions C01_response_is_wanted_block.
Print Assumptions C01_put_only_accepted.
Print Assumptions C01_new_blocks_only_stored.

(* ---- network level (package G, Net_proofs19/20): in every reachable net whose application only puts blocks that hash
   to their CID, EVERY block in EVERY node's store — and every block about to be written (put_many in flight) — hashes to
   its CID, and every GetQueryResponse carries data that hashes to the CID its query asked for. *)
From BS Require Import Net Net_proofs Net_proofs2 Net_proofs5 Net_proofs7 Net_proofs9 Net_proofs10 Net_proofs13 Net_props Net_proofs14 Net_proofs15 Net_proofs16 Net_proofs17 Net_proofs18 Net_proofs19 Net_proofs20 Net_proofs21 Server Server_inv Net_props2.
From Coq Require Import ZArith Lia.
Open Scope N_scope.

Theorem C01_net_store_integrity :
  forall (Sz : N) (Hh : hash_fn),
  32 <= Sz ->
  forall (n : nat) (ops : list nop),
  Forall (nop_good Sz Hh) ops ->
  Forall (nop_wf Sz) ops ->
  let r := nrun Sz Hh (net_init n) ops in
  (forall (i : N) (nd : node) (c : cid) (d : bytes),
   get_node (fst r) i = Some nd -> In (c, d) (n_store nd) -> wf_cid Sz c /\ valid_block Sz Hh c d = true) /\
  (forall (i : N) (nd : node) (m : N) (bl : list (cid * bytes)) (c : cid) (d : bytes),
   get_node (fst r) i = Some nd ->
   In (KCPut m bl) (n_calls nd) -> In (c, d) bl -> wf_cid Sz c /\ valid_block Sz Hh c d = true) /\
  (forall (i : N) (q : qid) (d : bytes),
   In (EResponse i q d) (snd r) ->
   exists c : cid,
     nth_error (gets_of i ops) (N.to_nat q) = Some c /\ wf_cid Sz c /\ valid_block Sz Hh c d = true).
Proof. exact (@Net_props2.C01_net_store_integrity). Qed.

Print Assumptions C01_net_store_integrity.
