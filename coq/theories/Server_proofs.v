(* Server_proofs.v — the property theorems about the server model (C13-server, C07, C06, C15-server). *)
From BS Require Import Server Server_lemmas Server_inv.
From Coq Require Import ZArith ZifyBool ZifyN ZifyNat Lia Permutation.
Open Scope N_scope.

(* ---------------------------------------------------------------- test material for the examples *)
Definition ex_cid (n : N) : cid := MkCid V1 85 (MkMh 18 [n / 256; n mod 256; 7]).
Definition ex_want (c : cid) : entry := MkEntry (cid_to_bytes c) 1 false WTBlock false.
Definition ex_cancel (c : cid) : entry := MkEntry (cid_to_bytes c) 1 true WTBlock false.
Definition ex_junk : entry := MkEntry [9; 9] 0 false WTBlock false.        (* not a CID *)
Fixpoint ex_range (from : N) (n : nat) : list N :=
  match n with O => [] | Datatypes.S n' => from :: ex_range (from + 1) n' end.

Definition wants_of (st : sstate) (p : peer) : option (list cid) := alookup N.eqb p (s_wants st).
Definition waiters_of (st : sstate) (c : cid) : option (list peer) := alookup cid_eqb c (s_waiting st).

(* ================================================================ C13 (cap) *)
(* The want set the server keeps for a peer is duplicate-free and never has more than 1024 elements,
   whatever mix of update and full wantlists was received. *)
Theorem C13_cap : forall Sz ops p s,
  wants_of (snd (srun Sz ops)) p = Some s -> NoDup s /\ len s <= MAX_WANTLIST_ENTRIES_PER_PEER.
Proof.
  intros Sz ops p s H. destruct (srun_inv Sz ops) as ((_ & Hs) & _). exact (Hs p s H).
Qed.

(* non-vacuity: 1030 distinct wants in one update, and again in a full wantlist: exactly 1024 kept *)
Definition ex_many : list entry := map (fun n => ex_want (ex_cid n)) (ex_range 0 1030).

Example C13_cap_ex_update :
  option_map len (wants_of (snd (srun 64 [SNewConn 1; SMsg 1 (MkWantlist ex_many false) []])) 1) = Some 1024.
Proof. vm_compute. reflexivity. Qed.

Example C13_cap_ex_full :
  option_map len (wants_of (snd (srun 64 [SNewConn 1; SMsg 1 (MkWantlist (ex_junk :: ex_many) true) []])) 1)
  = Some 1024.
Proof. vm_compute. reflexivity. Qed.
